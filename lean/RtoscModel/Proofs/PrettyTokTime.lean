/-
  C10 — time tags ('t') without second fractions: `YYYY-MM-DD HH:MM[:SS]` is a good token, and the
  date-only spelling `YYYY-MM-DD` (midnight) scans back when nothing follows it.

  Part 1 (namespace `Rtosc.Libc.Cal`, result `Rtosc.Libc.localtime_facts` / `mktime_localtime`):
  the UTC calendar model of `Libc/Time.lean` round-trips on all 32-bit second counts
  (`mktime (localtime s) = s`, fields in range).  The per-day facts are checked for all 49711 days
  by kernel evaluation of a `Nat` mirror of `civilFromDays` (in chunks), and transferred to the
  `Int` functions of the model.
  Part 2 (namespace `Rtosc.Libc.TimeFmt`): `%1d`, `%2d`, `%4d` on digit fields, `pad2`, `fmtYear`.
  Part 3 (namespace `Rtosc.Pretty.TokTime`): formats, `scanDate`, `skipDate`, dispatch, printer.
  Part 4 (namespace `Rtosc.Pretty`): `printsTok_time_clock`, `time_dateonly_roundtrip`.
-/
import RtoscModel.Proofs.PrettyTokNum

/-! ## Part 1: calendar -/
namespace Rtosc.Libc.Cal
open Rtosc Rtosc.Libc

def nEra (n : Nat) : Nat := (n + 719468) / 146097
def nDoe (n : Nat) : Nat := (n + 719468) - nEra n * 146097
def nYoe (n : Nat) : Nat := (nDoe n - nDoe n / 1460 + nDoe n / 36524 - nDoe n / 146096) / 365
def nDoy (n : Nat) : Nat := nDoe n - (365 * nYoe n + nYoe n / 4 - nYoe n / 100)
def nMp (n : Nat) : Nat := (5 * nDoy n + 2) / 153

/-- Nat version of civilFromDays, with checks that the subtractions are exact -/
def calOkN (z : Nat) : Bool :=
  let z' := z + 719468
  let era := z' / 146097
  let doe := z' - era * 146097
  let t := doe - doe / 1460 + doe / 36524
  let yoe := (t - doe / 146096) / 365
  let u := 365 * yoe + yoe / 4
  let doy := doe - (u - yoe / 100)
  let mp := (5 * doy + 2) / 153
  let y := yoe + era * 400 + (if Nat.ble 10 mp then 1 else 0)
  Nat.ble 49711 z ||
  (Nat.ble (doe / 146096) t && Nat.ble (yoe / 100) u && Nat.ble (u - yoe / 100) doe && Nat.ble ((153 * mp + 2) / 5) doy
   && Nat.ble mp 11 && Nat.ble yoe 399 && Nat.ble (doy - (153 * mp + 2) / 5) 30
   && Nat.ble 1970 y && Nat.ble y 2106)

theorem calOkN_spec (n : Nat) (hn : n < 49711) (h : calOkN n = true) :
    nDoe n / 146096 ≤ nDoe n - nDoe n / 1460 + nDoe n / 36524 ∧
    nYoe n / 100 ≤ 365 * nYoe n + nYoe n / 4 ∧
    365 * nYoe n + nYoe n / 4 - nYoe n / 100 ≤ nDoe n ∧
    (153 * nMp n + 2) / 5 ≤ nDoy n ∧ nMp n ≤ 11 ∧ nYoe n ≤ 399 ∧ nDoy n - (153 * nMp n + 2) / 5 ≤ 30 ∧
    1970 ≤ nYoe n + nEra n * 400 + (if 10 ≤ nMp n then 1 else 0) ∧
    nYoe n + nEra n * 400 + (if 10 ≤ nMp n then 1 else 0) ≤ 2106 := by
  have hn' : Nat.ble 49711 n = false := by
    rw [Bool.eq_false_iff]; intro hc; have := Nat.le_of_ble_eq_true hc; omega
  simp only [calOkN, hn', Bool.false_or, Bool.and_eq_true, Nat.ble_eq] at h
  simp only [nMp, nDoy, nYoe, nDoe, nEra]
  obtain ⟨⟨⟨⟨⟨⟨⟨⟨h1, h2⟩, h3⟩, h4⟩, h5⟩, h6⟩, h7⟩, h8⟩, h9⟩ := h
  exact ⟨h1, h2, h3, h4, h5, h6, h7, h8, h9⟩

theorem daysFromCivil_inv (E YOE MP d : Int) (h0 : 0 ≤ YOE) (h1 : YOE ≤ 399) (h2 : 0 ≤ MP) (h3 : MP ≤ 11) :
    daysFromCivil (YOE + E * 400 + (if (if MP < 10 then MP + 3 else MP - 9) ≤ 2 then 1 else 0))
        (if MP < 10 then MP + 3 else MP - 9) d
      = E * 146097 + (YOE * 365 + YOE / 4 - YOE / 100 + ((153 * MP + 2) / 5 + d - 1)) - 719468 := by
  unfold daysFromCivil
  by_cases hlt : MP < 10
  · have a1 : ¬ (MP + 3 ≤ 2) := by omega
    have a2 : MP + 3 > 2 := by omega
    simp only [hlt, a1, a2, ↓reduceIte]
    have e1 : (YOE + E * 400 + 0) / 400 = E := by omega
    have e2 : YOE + E*400 + 0 - E * 400 = YOE := by omega
    have e3 : MP + 3 - 3 = MP := by omega
    rw [e1, e2, e3]
  · have a1 : (MP - 9 ≤ 2) := by omega
    have a2 : ¬ (MP - 9 > 2) := by omega
    simp only [hlt, a1, a2, ↓reduceIte]
    have e1 : (YOE + E * 400 + 1 - 1) / 400 = E := by omega
    have e2 : YOE + E*400 + 1 - 1 - E * 400 = YOE := by omega
    have e3 : MP - 9 + 9 = MP := by omega
    rw [e1, e2, e3]


theorem nEra_cast (n : Nat) : (nEra n : Int) = ((n : Int) + 719468) / 146097 := by
  unfold nEra
  simp only [Int.natCast_add, Int.natCast_ediv]
  rfl

theorem nDoe_cast (n : Nat) : (nDoe n : Int) = (n : Int) + 719468 - (nEra n : Int) * 146097 := by
  unfold nDoe
  rw [Int.natCast_sub (by unfold nEra; exact Nat.div_mul_le_self _ _)]
  simp only [Int.natCast_add, Int.natCast_mul]
  rfl

theorem nYoe_cast (n : Nat) (h1 : nDoe n / 146096 ≤ nDoe n - nDoe n / 1460 + nDoe n / 36524) :
    (nYoe n : Int) = ((nDoe n : Int) - (nDoe n : Int) / 1460 + (nDoe n : Int) / 36524 - (nDoe n : Int) / 146096) / 365 := by
  unfold nYoe
  generalize nDoe n = x at *
  rw [Int.natCast_ediv, Int.natCast_sub h1, Int.natCast_add, Int.natCast_sub (Nat.div_le_self _ _)]
  simp only [Int.natCast_ediv]
  rfl

theorem nDoy_cast (n : Nat) (h2 : nYoe n / 100 ≤ 365 * nYoe n + nYoe n / 4)
    (h3 : 365 * nYoe n + nYoe n / 4 - nYoe n / 100 ≤ nDoe n) :
    (nDoy n : Int) = (nDoe n : Int) - (365 * (nYoe n : Int) + (nYoe n : Int) / 4 - (nYoe n : Int) / 100) := by
  unfold nDoy
  generalize nDoe n = x at *
  generalize nYoe n = y at *
  rw [Int.natCast_sub h3, Int.natCast_sub h2]
  simp only [Int.natCast_add, Int.natCast_mul, Int.natCast_ediv]
  rfl

theorem nMp_cast (n : Nat) : (nMp n : Int) = (5 * (nDoy n : Int) + 2) / 153 := by
  unfold nMp
  simp only [Int.natCast_add, Int.natCast_mul, Int.natCast_ediv]
  rfl

theorem cal_rt (n E DOE YOE DOY MP : Int) (hdoe : DOE = n + 719468 - E * 146097)
    (hdoy : DOY = DOE - (365 * YOE + YOE / 4 - YOE / 100)) :
    E * 146097 + (YOE * 365 + YOE / 4 - YOE / 100 + ((153 * MP + 2) / 5 + 1 - 1)) - 719468 +
      (DOY - (153 * MP + 2) / 5 + 1 - 1) = n := by
  omega

theorem cal_year (yoe era mp : Nat) (h5 : mp ≤ 11)
    (h8 : 1970 ≤ yoe + era * 400 + (if 10 ≤ mp then 1 else 0))
    (h9 : yoe + era * 400 + (if 10 ≤ mp then 1 else 0) ≤ 2106) :
    1970 ≤ (yoe : Int) + (era : Int) * 400 + (if (if (mp : Int) < 10 then (mp : Int) + 3 else (mp : Int) - 9) ≤ 2 then 1 else 0) ∧
    (yoe : Int) + (era : Int) * 400 + (if (if (mp : Int) < 10 then (mp : Int) + 3 else (mp : Int) - 9) ≤ 2 then 1 else 0) ≤ 2106 := by
  by_cases hlt : mp < 10
  · have a0 : ¬ (10 ≤ mp) := by omega
    have a1 : (mp : Int) < 10 := by omega
    have a2 : ¬ ((mp : Int) + 3 ≤ 2) := by omega
    simp only [a0, a1, a2, ↓reduceIte] at h8 h9 ⊢
    omega
  · have a0 : (10 ≤ mp) := by omega
    have a1 : ¬ (mp : Int) < 10 := by omega
    have a2 : ((mp : Int) - 9 ≤ 2) := by omega
    simp only [a0, a1, a2, ↓reduceIte] at h8 h9 ⊢
    omega

theorem cal_mon (mp : Int) (h0 : 0 ≤ mp) (h1 : mp ≤ 11) :
    1 ≤ (if mp < 10 then mp + 3 else mp - 9) ∧ (if mp < 10 then mp + 3 else mp - 9) ≤ 12 := by
  split <;> omega

theorem cal_day (doy mp : Nat) (h4 : (153 * mp + 2) / 5 ≤ doy) (h7 : doy - (153 * mp + 2) / 5 ≤ 30) :
    1 ≤ (doy : Int) - (153 * (mp : Int) + 2) / 5 + 1 ∧ (doy : Int) - (153 * (mp : Int) + 2) / 5 + 1 ≤ 31 := by
  omega

theorem civil_facts (n : Nat) (hn : n < 49711) (h : calOkN n = true) :
    ∃ y m d : Int, civilFromDays (n : Int) = (y, m, d) ∧ daysFromCivil y m 1 + (d - 1) = n ∧
      1970 ≤ y ∧ y ≤ 2106 ∧ 1 ≤ m ∧ m ≤ 12 ∧ 1 ≤ d ∧ d ≤ 31 := by
  obtain ⟨h1, h2, h3, h4, h5, h6, h7, h8, h9⟩ := calOkN_spec n hn h
  have hera := nEra_cast n
  have hdoe := nDoe_cast n
  have hyoe := nYoe_cast n h1
  have hdoy := nDoy_cast n h2 h3
  have hmp := nMp_cast n
  have hciv : civilFromDays (n : Int) =
      ((nYoe n : Int) + (nEra n : Int) * 400 +
          (if (if (nMp n : Int) < 10 then (nMp n : Int) + 3 else (nMp n : Int) - 9) ≤ 2 then 1 else 0),
        (if (nMp n : Int) < 10 then (nMp n : Int) + 3 else (nMp n : Int) - 9),
        (nDoy n : Int) - (153 * (nMp n : Int) + 2) / 5 + 1) := by
    simp only [civilFromDays]
    rw [← hera, ← hdoe, ← hyoe, ← hdoy, ← hmp]
  have hy := cal_year (nYoe n) (nEra n) (nMp n) h5 h8 h9
  have hm := cal_mon (nMp n) (Int.natCast_nonneg _) (Int.ofNat_le.mpr h5)
  have hd := cal_day (nDoy n) (nMp n) h4 h7
  refine ⟨_, _, _, hciv, ?_, hy.1, hy.2, hm.1, hm.2, hd.1, hd.2⟩
  rw [daysFromCivil_inv _ _ _ _ (Int.natCast_nonneg _) (Int.ofNat_le.mpr h6) (Int.natCast_nonneg _) (Int.ofNat_le.mpr h5)]
  exact cal_rt _ _ _ _ _ _ hdoe hdoy

/-- `f` holds on `lo … lo + 2^k - 1` (binary splitting keeps the kernel evaluation shallow) -/
def allBin (f : Nat → Bool) : Nat → Nat → Bool
  | 0, lo => f lo
  | k + 1, lo => allBin f k lo && allBin f k (lo + 2 ^ k)

theorem allBin_spec (f : Nat → Bool) : ∀ k lo, allBin f k lo = true → ∀ d, lo ≤ d → d < lo + 2 ^ k → f d = true := by
  intro k
  induction k with
  | zero => intro lo h d h1 h2; have : d = lo := by omega
            subst this; exact h
  | succ k ih =>
    intro lo h d h1 h2
    simp only [allBin, Bool.and_eq_true] at h
    rw [Nat.pow_succ] at h2
    by_cases hd : d < lo + 2 ^ k
    · exact ih lo h.1 d h1 hd
    · exact ih (lo + 2 ^ k) h.2 d (by omega) (by omega)

theorem cal_chunk0 : allBin calOkN 13 0 = true := by decide +kernel
theorem cal_chunk1 : allBin calOkN 13 8192 = true := by decide +kernel
theorem cal_chunk2 : allBin calOkN 13 16384 = true := by decide +kernel
theorem cal_chunk3 : allBin calOkN 13 24576 = true := by decide +kernel
theorem cal_chunk4 : allBin calOkN 13 32768 = true := by decide +kernel
theorem cal_chunk5 : allBin calOkN 13 40960 = true := by decide +kernel
theorem cal_chunk6 : allBin calOkN 13 49152 = true := by decide +kernel

theorem calOkN_all (n : Nat) (hn : n < 49711) : calOkN n = true := by
  have p : (2 : Nat) ^ 13 = 8192 := by decide
  by_cases h1 : n < 8192
  · exact allBin_spec _ _ _ cal_chunk0 n (by omega) (by omega)
  by_cases h2 : n < 16384
  · exact allBin_spec _ _ _ cal_chunk1 n (by omega) (by omega)
  by_cases h3 : n < 24576
  · exact allBin_spec _ _ _ cal_chunk2 n (by omega) (by omega)
  by_cases h4 : n < 32768
  · exact allBin_spec _ _ _ cal_chunk3 n (by omega) (by omega)
  by_cases h5 : n < 40960
  · exact allBin_spec _ _ _ cal_chunk4 n (by omega) (by omega)
  by_cases h6 : n < 49152
  · exact allBin_spec _ _ _ cal_chunk5 n (by omega) (by omega)
  · exact allBin_spec _ _ _ cal_chunk6 n (by omega) (by omega)

end Rtosc.Libc.Cal

namespace Rtosc.Libc
open Rtosc Rtosc.Libc.Cal

/-- the fields of `localtime s` for a 32-bit second count -/
structure TmRange (tm : Tm) : Prop where
  y1 : 1970 ≤ tm.year
  y2 : tm.year ≤ 2106
  mo1 : 1 ≤ tm.mon
  mo2 : tm.mon ≤ 12
  d1 : 1 ≤ tm.mday
  d2 : tm.mday ≤ 31
  h1 : 0 ≤ tm.hour
  h2 : tm.hour ≤ 23
  mi1 : 0 ≤ tm.min
  mi2 : tm.min ≤ 59
  s1 : 0 ≤ tm.sec
  s2 : tm.sec ≤ 59

theorem localtime_facts (s : Int) (h0 : 0 ≤ s) (h1 : s < 4294967296) :
    mktime (localtime s) = s ∧ TmRange (localtime s) ∧
    (localtime s).hour * 3600 + (localtime s).min * 60 + (localtime s).sec = s % 86400 := by
  have hd0 : 0 ≤ s / 86400 := by omega
  have hd1 : (s / 86400).toNat < 49711 := by omega
  obtain ⟨y, m, d, hc, hrt, hy1, hy2, hm1, hm2, hdd1, hdd2⟩ :=
    civil_facts (s / 86400).toNat hd1 (calOkN_all _ hd1)
  have hcast : (((s / 86400).toNat : Nat) : Int) = s / 86400 := by omega
  rw [hcast] at hc hrt
  have hlt : localtime s = ⟨y, m, d, s % 86400 / 3600, s % 86400 % 3600 / 60, s % 86400 % 60⟩ := by
    simp only [localtime, hc]
  rw [hlt]
  refine ⟨?_, ⟨hy1, hy2, hm1, hm2, hdd1, hdd2, ?_, ?_, ?_, ?_, ?_, ?_⟩, ?_⟩ <;> try (dsimp only; omega)
  simp only [mktime]
  have e1 : (m - 1) / 12 = 0 := by omega
  have e2 : (m - 1) % 12 + 1 = m := by omega
  rw [e1, e2, Int.add_zero, hrt]
  omega


/-- **calendar round trip**: under the UTC model, `mktime` inverts `localtime` on 32-bit second counts -/
theorem mktime_localtime (s : Int) (h0 : 0 ≤ s) (h1 : s < 4294967296) : mktime (localtime s) = s :=
  (localtime_facts s h0 h1).1

theorem localtime_range (s : Int) (h0 : 0 ≤ s) (h1 : s < 4294967296) : TmRange (localtime s) :=
  (localtime_facts s h0 h1).2.1

end Rtosc.Libc

/-! ## Part 2: digit fields -/
namespace Rtosc.Libc.TimeFmt
open Rtosc Rtosc.Libc

theorem takeDigits_w0 (b : Nat) (r : Bytes) : takeDigits b r (some 0) = ([], r) := by
  cases r <;> simp [takeDigits, wOk]

theorem pad2_eq (n : Nat) (h : n < 100) : pad2 n = [digitChar (n / 10), digitChar (n % 10)] := by
  have : ∀ k : Fin 100, pad2 k.val = [digitChar (k.val / 10), digitChar (k.val % 10)] := by decide +kernel
  exact this ⟨n, h⟩

theorem fmtYear_eq (y : Int) (h1 : 1970 ≤ y) (h2 : y ≤ 2106) :
    fmtYear y = [digitChar (y.toNat / 1000), digitChar (y.toNat / 100 % 10), digitChar (y.toNat / 10 % 10),
      digitChar (y.toNat % 10)] := by
  have : ∀ k : Fin 137, fmtYear ((1970 + k.val : Nat) : Int) =
      [digitChar ((1970 + k.val) / 1000), digitChar ((1970 + k.val) / 100 % 10), digitChar ((1970 + k.val) / 10 % 10),
        digitChar ((1970 + k.val) % 10)] := by decide +kernel
  have h := this ⟨y.toNat - 1970, by omega⟩
  have e : 1970 + (y.toNat - 1970) = y.toNat := by omega
  simp only [e] at h
  have e2 : ((y.toNat : Nat) : Int) = y := by omega
  rw [e2] at h
  exact h

/-- `%1d` on a digit -/
theorem scanInt_d_w1 (a : UInt8) (r : Bytes) (ha : isdigit a = true) :
    scanInt .d (some 1) (a :: r) = some (((dval a : Nat) : Int), r) := by
  obtain ⟨h45, h43, hsp, hlt, hx, hok, _⟩ := isdigit_facts a ha
  unfold scanInt
  simp only [skipSpace, hsp, Bool.false_eq_true, ↓reduceIte]
  by_cases h0 : a = 48
  · subst h0
    simp [intPrefix10_zero r (some 1) rfl, wDec, takeDigits_w0, digitsVal, intValue, clampI64, dval]
  · have hc : clampI64 ((dval a : Nat) : Int) = ((dval a : Nat) : Int) := Rtosc.Pretty.clampI64_id _ (by omega) (by omega)
    simp [h45, h43, intPrefix_nonzero _ _ _ _ h0, takeDigits, wOk, wDec, hok, takeDigits_w0, digitsVal, intValue, hx, hc]

theorem takeDigits10_width (ds r : Bytes) (hds : ∀ c ∈ ds, isdigit c = true) :
    takeDigits 10 (ds ++ r) (some ds.length) = (ds, r) := by
  induction ds with
  | nil => exact takeDigits_w0 10 r
  | cons c t ih =>
    have hc := hds c (by simp)
    obtain ⟨_, _, _, _, _, hok, _⟩ := isdigit_facts c hc
    have := ih (fun x hx => hds x (by simp [hx]))
    simp [takeDigits, wOk, wDec, hok, this]

/-- value of a two-digit field -/
def dv2 (a b : UInt8) : Int := ((dval a * 10 + dval b : Nat) : Int)
/-- value of a four-digit field -/
def dv4 (a b c d : UInt8) : Int := ((((dval a * 10 + dval b) * 10 + dval c) * 10 + dval d : Nat) : Int)

/-- `%2d` on two digits (a leading "0" is a digit here: base 10) -/
theorem scanInt_d_w2 (a b : UInt8) (r : Bytes) (ha : isdigit a = true) (hb : isdigit b = true) :
    scanInt .d (some 2) (a :: b :: r) = some (dv2 a b, r) := by
  obtain ⟨h45, h43, hsp, hlt, hx, hok, _⟩ := isdigit_facts a ha
  obtain ⟨_, _, _, hltb, hxb, hokb, _⟩ := isdigit_facts b hb
  have hc : clampI64 (dv2 a b) = dv2 a b := Rtosc.Pretty.clampI64_id _ (by unfold dv2; omega) (by unfold dv2; omega)
  unfold scanInt
  simp only [skipSpace, hsp, Bool.false_eq_true, ↓reduceIte]
  by_cases h0 : a = 48
  · subst h0
    have hv : clampI64 ((dval b : Nat) : Int) = dv2 48 b := by
      rw [← hc]; simp [dv2, dval]
    simp [intPrefix10_zero (b :: r) (some 2) rfl, wDec, wOk, takeDigits, hokb, takeDigits_w0, digitsVal, intValue, hxb, hv]
  · have htd := takeDigits10_width [a, b] r (by intro c hc; simp at hc; rcases hc with rfl | rfl; exact ha; exact hb)
    simp only [List.cons_append, List.nil_append, List.length_cons, List.length_nil] at htd
    have hv : clampI64 (((0 * 10 + xval a) * 10 + xval b : Nat) : Int) = dv2 a b := by
      rw [← hc, hx, hxb]; simp [dv2]
    simp [h45, h43, intPrefix_nonzero _ _ _ _ h0, htd, digitsVal, intValue]
    simpa using hv

/-- `%4d` on four digits without leading zero -/
theorem scanInt_d_w4 (a b c d : UInt8) (r : Bytes) (ha : isdigit a = true) (hb : isdigit b = true)
    (hc : isdigit c = true) (hd' : isdigit d = true) (h0 : a ≠ 48) :
    scanInt .d (some 4) (a :: b :: c :: d :: r) = some (dv4 a b c d, r) := by
  obtain ⟨h45, h43, hsp, hlt, hx, hok, _⟩ := isdigit_facts a ha
  obtain ⟨_, _, _, hltb, hxb, _, _⟩ := isdigit_facts b hb
  obtain ⟨_, _, _, hltc, hxc, _, _⟩ := isdigit_facts c hc
  obtain ⟨_, _, _, hltd, hxd, _, _⟩ := isdigit_facts d hd'
  have hcl : clampI64 (dv4 a b c d) = dv4 a b c d :=
    Rtosc.Pretty.clampI64_id _ (by unfold dv4; omega) (by unfold dv4; omega)
  have htd := takeDigits10_width [a, b, c, d] r (by
    intro x hx; simp at hx; rcases hx with rfl | rfl | rfl | rfl <;> assumption)
  simp only [List.cons_append, List.nil_append, List.length_cons, List.length_nil] at htd
  have hv : clampI64 (((((0 * 10 + xval a) * 10 + xval b) * 10 + xval c) * 10 + xval d : Nat) : Int) = dv4 a b c d := by
    rw [← hcl, hx, hxb, hxc, hxd]; simp [dv4]
  unfold scanInt
  simp only [skipSpace, hsp, Bool.false_eq_true, ↓reduceIte]
  simp [h45, h43, intPrefix_nonzero _ _ _ _ h0, htd, digitsVal, intValue]
  simpa using hv


theorem dv2_digitChar (n : Nat) (h : n < 100) : dv2 (digitChar (n / 10)) (digitChar (n % 10)) = (n : Int) := by
  unfold dv2
  rw [dval_digitChar _ (by omega), dval_digitChar _ (by omega)]
  omega

theorem dv4_digitChar (n : Nat) (h : n < 10000) :
    dv4 (digitChar (n / 1000)) (digitChar (n / 100 % 10)) (digitChar (n / 10 % 10)) (digitChar (n % 10)) = (n : Int) := by
  unfold dv4
  rw [dval_digitChar _ (by omega), dval_digitChar _ (by omega), dval_digitChar _ (by omega), dval_digitChar _ (by omega)]
  omega

end Rtosc.Libc.TimeFmt

/-! ## Part 3: formats, scanner and checker on date texts -/
namespace Rtosc.Pretty.TokTime
open Rtosc Rtosc.Libc Rtosc.Libc.TimeFmt Rtosc.Pretty
open Rtosc.ArgVal (Cell)

/-- all eight digits of a date -/
structure DateDigits (ya yb yc yd ma mb da db : UInt8) : Prop where
  hya : isdigit ya = true
  hyb : isdigit yb = true
  hyc : isdigit yc = true
  hyd : isdigit yd = true
  hma : isdigit ma = true
  hmb : isdigit mb = true
  hda : isdigit da = true
  hdb : isdigit db = true
  nz : ya ≠ 48

theorem sscanf_scDate (ya yb yc yd ma mb da db : UInt8) (r : Bytes) (h : DateDigits ya yb yc yd ma mb da db) :
    sscanf fmtScDate (ya :: yb :: yc :: yd :: 45 :: ma :: mb :: 45 :: da :: db :: r) =
      [.int (dv4 ya yb yc yd), .int (dv2 ma mb), .int (dv2 da db), .pos 10] := by
  have e1 := scanInt_d_w4 ya yb yc yd (45 :: ma :: mb :: 45 :: da :: db :: r) h.hya h.hyb h.hyc h.hyd h.nz
  have e2 := scanInt_d_w2 ma mb (45 :: da :: db :: r) h.hma h.hmb
  have e3 := scanInt_d_w2 da db r h.hda h.hdb
  simp [sscanf, fmtScDate, d2, sscanfGo, e1, e2, e3]
  omega

theorem skipFmt_isDate (ya yb yc yd ma mb da db : UInt8) (r : Bytes) (h : DateDigits ya yb yc yd ma mb da db) :
    skipFmt fmtIsDate (ya :: yb :: yc :: yd :: 45 :: ma :: mb :: 45 :: da :: db :: r) = 10 := by
  have e1 := scanInt_d_w4 ya yb yc yd (45 :: ma :: mb :: 45 :: da :: db :: r) h.hya h.hyb h.hyc h.hyd h.nz
  have e2 := scanInt_d_w1 ma (mb :: 45 :: da :: db :: r) h.hma
  have e3 := scanInt_d_w1 mb (45 :: da :: db :: r) h.hmb
  have e4 := scanInt_d_w1 da (db :: r) h.hda
  have e5 := scanInt_d_w1 db r h.hdb
  simp [skipFmt, scanRd, sscanf, fmtIsDate, d1, sscanfGo, e1, e2, e3, e4, e5]

/-- ` HH:MM` -/
theorem sscanf_scHM (ha hb na nb : UInt8) (r : Bytes) (h1 : isdigit ha = true) (h2 : isdigit hb = true)
    (h3 : isdigit na = true) (h4 : isdigit nb = true) :
    sscanf fmtScHM (32 :: ha :: hb :: 58 :: na :: nb :: r) = [.int (dv2 ha hb), .int (dv2 na nb), .pos 6] := by
  have e1 := scanInt_d_w2 ha hb (58 :: na :: nb :: r) h1 h2
  have e2 := scanInt_d_w2 na nb r h3 h4
  obtain ⟨_, _, hsp, _⟩ := isdigit_facts ha h1
  have h32 : isspace 32 = true := by decide
  simp [sscanf, fmtScHM, d2, sscanfGo, skipSpace, h32, hsp, e1, e2]
  omega

theorem skipFmt_ckHM (ha hb na nb : UInt8) (r : Bytes) (h1 : isdigit ha = true) (h2 : isdigit hb = true)
    (h3 : isdigit na = true) (h4 : isdigit nb = true) :
    skipFmt fmtCkHM (32 :: ha :: hb :: 58 :: na :: nb :: r) = 6 := by
  have e1 := scanInt_d_w2 ha hb (58 :: na :: nb :: r) h1 h2
  have e2 := scanInt_d_w1 na (nb :: r) h3
  have e3 := scanInt_d_w1 nb r h4
  obtain ⟨_, _, hsp, _⟩ := isdigit_facts ha h1
  have h32 : isspace 32 = true := by decide
  simp [skipFmt, scanRd, sscanf, fmtCkHM, d1, sscanfGo, skipSpace, h32, hsp, e1, e2, e3]

/-- `:SS` -/
theorem sscanf_scS (sa sb : UInt8) (r : Bytes) (h1 : isdigit sa = true) (h2 : isdigit sb = true) :
    sscanf fmtScS (58 :: sa :: sb :: r) = [.int (dv2 sa sb), .pos 3] := by
  have e1 := scanInt_d_w2 sa sb r h1 h2
  simp [sscanf, fmtScS, d2, sscanfGo, e1]
  omega

theorem skipFmt_ckS (sa sb : UInt8) (r : Bytes) (h1 : isdigit sa = true) (h2 : isdigit sb = true) :
    skipFmt fmtCkS (58 :: sa :: sb :: r) = 3 := by
  have e1 := scanInt_d_w1 sa (sb :: r) h1
  have e2 := scanInt_d_w1 sb r h2
  simp [skipFmt, scanRd, sscanf, fmtCkS, d1, sscanfGo, e1, e2]

theorem sscanf_scS_none (r : Bytes) (h : hd r ≠ 58) : sscanf fmtScS r = [] := by
  unfold sscanf fmtScS
  rw [sscanfGo_lit_ne _ _ _ _ _ h]; rfl

theorem skipFmt_ckS_none (r : Bytes) (h : hd r ≠ 58) : skipFmt fmtCkS r = 0 := by
  unfold skipFmt scanRd sscanf fmtCkS
  rw [sscanfGo_lit_ne _ _ _ _ _ h]; rfl

theorem skipFmt_ckFrac_none (r : Bytes) (h : hd r ≠ 46) : skipFmt fmtCkFrac r = 0 := by
  unfold skipFmt scanRd sscanf fmtCkFrac
  rw [sscanfGo_lit_ne _ _ _ _ _ h]; rfl

theorem sscanf_scHM_nil : sscanf fmtScHM [] = [] := by decide
theorem skipFmt_ckHM_nil : skipFmt fmtCkHM [] = 0 := by decide

theorem toI32_dv2 (a b : UInt8) (ha : isdigit a = true) (hb : isdigit b = true) : toI32 (dv2 a b) = dv2 a b := by
  obtain ⟨_, _, _, hlt, _⟩ := isdigit_facts a ha
  obtain ⟨_, _, _, hltb, _⟩ := isdigit_facts b hb
  apply toI32_id <;> unfold dv2 <;> omega

theorem toI32_dv4 (a b c d : UInt8) (ha : isdigit a = true) (hb : isdigit b = true) (hc : isdigit c = true)
    (hd' : isdigit d = true) : toI32 (dv4 a b c d) = dv4 a b c d := by
  obtain ⟨_, _, _, hlt, _⟩ := isdigit_facts a ha
  obtain ⟨_, _, _, hltb, _⟩ := isdigit_facts b hb
  obtain ⟨_, _, _, hltc, _⟩ := isdigit_facts c hc
  obtain ⟨_, _, _, hltd, _⟩ := isdigit_facts d hd'
  apply toI32_id <;> unfold dv4 <;> omega

/-- `YYYY-MM-DD HH:MM:SS` followed by something that is not a '.' -/
theorem scanDate_hms (ya yb yc yd ma mb da db ha hb na nb sa sb : UInt8) (rest : Bytes)
    (h : DateDigits ya yb yc yd ma mb da db) (h1 : isdigit ha = true) (h2 : isdigit hb = true)
    (h3 : isdigit na = true) (h4 : isdigit nb = true) (h5 : isdigit sa = true) (h6 : isdigit sb = true)
    (h46 : hd rest ≠ 46) :
    scanDate (ya :: yb :: yc :: yd :: 45 :: ma :: mb :: 45 :: da :: db :: 32 :: ha :: hb :: 58 :: na :: nb :: 58 :: sa :: sb :: rest) =
      .ok ⟨rest, [Cell.time (timeFromParams ⟨dv4 ya yb yc yd, dv2 ma mb, dv2 da db, dv2 ha hb, dv2 na nb, dv2 sa sb⟩ 0)], true⟩ := by
  simp [scanDate, sscanf_scDate _ _ _ _ _ _ _ _ _ h, sscanf_scHM _ _ _ _ _ h1 h2 h3 h4, sscanf_scS _ _ _ h5 h6, h46,
    toI32_dv2 _ _ h.hma h.hmb, toI32_dv2 _ _ h.hda h.hdb, toI32_dv2 _ _ h1 h2, toI32_dv2 _ _ h3 h4, toI32_dv2 _ _ h5 h6,
    toI32_dv4 _ _ _ _ h.hya h.hyb h.hyc h.hyd, bind, Except.bind, pure, Except.pure]

/-- `YYYY-MM-DD HH:MM` followed by something that is neither ':' nor '.' -/
theorem scanDate_hm (ya yb yc yd ma mb da db ha hb na nb : UInt8) (rest : Bytes)
    (h : DateDigits ya yb yc yd ma mb da db) (h1 : isdigit ha = true) (h2 : isdigit hb = true)
    (h3 : isdigit na = true) (h4 : isdigit nb = true) (h58 : hd rest ≠ 58) (h46 : hd rest ≠ 46) :
    scanDate (ya :: yb :: yc :: yd :: 45 :: ma :: mb :: 45 :: da :: db :: 32 :: ha :: hb :: 58 :: na :: nb :: rest) =
      .ok ⟨rest, [Cell.time (timeFromParams ⟨dv4 ya yb yc yd, dv2 ma mb, dv2 da db, dv2 ha hb, dv2 na nb, 0⟩ 0)], true⟩ := by
  simp [scanDate, sscanf_scDate _ _ _ _ _ _ _ _ _ h, sscanf_scHM _ _ _ _ _ h1 h2 h3 h4, sscanf_scS_none _ h58, h46,
    toI32_dv2 _ _ h.hma h.hmb, toI32_dv2 _ _ h.hda h.hdb, toI32_dv2 _ _ h1 h2, toI32_dv2 _ _ h3 h4,
    toI32_dv4 _ _ _ _ h.hya h.hyb h.hyc h.hyd, bind, Except.bind, pure, Except.pure]

/-- `YYYY-MM-DD` at the end of the text -/
theorem scanDate_d (ya yb yc yd ma mb da db : UInt8) (h : DateDigits ya yb yc yd ma mb da db) :
    scanDate [ya, yb, yc, yd, 45, ma, mb, 45, da, db] =
      .ok ⟨[], [Cell.time (timeFromParams ⟨dv4 ya yb yc yd, dv2 ma mb, dv2 da db, 0, 0, 0⟩ 0)], true⟩ := by
  have h58 : hd ([] : Bytes) ≠ 58 := by decide
  simp [scanDate, sscanf_scDate _ _ _ _ _ _ _ _ _ h, sscanf_scHM_nil, sscanf_scS_none _ h58,
    toI32_dv2 _ _ h.hma h.hmb, toI32_dv2 _ _ h.hda h.hdb,
    toI32_dv4 _ _ _ _ h.hya h.hyb h.hyc h.hyd, bind, Except.bind, pure, Except.pure]

theorem skipDate_hms (ya yb yc yd ma mb da db ha hb na nb sa sb : UInt8) (rest : Bytes)
    (h1 : isdigit ha = true) (h2 : isdigit hb = true)
    (h3 : isdigit na = true) (h4 : isdigit nb = true) (h5 : isdigit sa = true) (h6 : isdigit sb = true)
    (h46 : hd rest ≠ 46) :
    skipDate (ya :: yb :: yc :: yd :: 45 :: ma :: mb :: 45 :: da :: db :: 32 :: ha :: hb :: 58 :: na :: nb :: 58 :: sa :: sb :: rest) 10 =
      ⟨some rest, 1, 116, 0⟩ := by
  simp [skipDate, skipFmt_ckHM _ _ _ _ _ h1 h2 h3 h4, skipFmt_ckS _ _ _ h5 h6, skipFmt_ckFrac_none _ h46]

theorem skipDate_hm (ya yb yc yd ma mb da db ha hb na nb : UInt8) (rest : Bytes)
    (h1 : isdigit ha = true) (h2 : isdigit hb = true)
    (h3 : isdigit na = true) (h4 : isdigit nb = true) (h58 : hd rest ≠ 58) :
    skipDate (ya :: yb :: yc :: yd :: 45 :: ma :: mb :: 45 :: da :: db :: 32 :: ha :: hb :: 58 :: na :: nb :: rest) 10 =
      ⟨some rest, 1, 116, 0⟩ := by
  simp [skipDate, skipFmt_ckHM _ _ _ _ _ h1 h2 h3 h4, skipFmt_ckS_none _ h58]

theorem skipDate_d (ya yb yc yd ma mb da db : UInt8) :
    skipDate [ya, yb, yc, yd, 45, ma, mb, 45, da, db] 10 = ⟨some [], 1, 116, 0⟩ := by
  simp [skipDate, skipFmt_ckHM_nil]

/-- a date is not a range multiplier -/
theorem isRangeMultiplier_date (ya yb yc yd : UInt8) (r : Bytes) (hyb : isdigit yb = true) (hyc : isdigit yc = true)
    (hyd : isdigit yd = true) : isRangeMultiplier (ya :: yb :: yc :: yd :: 45 :: r) = false := by
  have h45 : isdigit 45 = false := by decide
  simp [isRangeMultiplier, skipDigits, hyb, hyc, hyd, h45]

/-- the `switch` of the scanner sends a date to the date case -/
theorem scanValue_date (se : ElemScanner) (c : UInt8) (r : Bytes) (prev : List Cell)
    (hc : isdigit c = true) (hm : isRangeMultiplier (c :: r) = false)
    (hdate : skipFmt fmtIsDate (c :: r) ≠ 0) : scanValue se (c :: r) prev = scanDate (c :: r) := by
  obtain ⟨a1, a2, a3, a4, a5, a6, a7, a8, a9, a10, a11, _⟩ := numStart_facts c (Or.inr hc)
  unfold scanValue
  simp [a1, a2, a3, a4, a5, a6, a7, a8, a9, a10, a11, hm, hdate]

theorem skipValue_date (sk : ArgSkipper) (c : UInt8) (r : Bytes) (ty : UInt8) (ib : Bool)
    (hc : isdigit c = true) (hm : isRangeMultiplier (c :: r) = false)
    (hdate : skipFmt fmtIsDate (c :: r) ≠ 0) :
    skipValue sk (c :: r) ty ib = .ok (some (skipDate (c :: r) (skipFmt fmtIsDate (c :: r)))) := by
  obtain ⟨a1, a2, a3, a4, a5, a6, a7, a8, a9, a10, a11, _⟩ := numStart_facts c (Or.inr hc)
  unfold skipValue
  simp [a1, a2, a3, a4, a5, a6, a7, a8, a9, a10, a11, hm, hdate, pure, Except.pure]

/-- the digits of a two-digit field -/
theorem pad2_digits (v : Int) (h0 : 0 ≤ v) (h1 : v ≤ 99) :
    ∃ a b, pad2 v.toNat = [a, b] ∧ isdigit a = true ∧ isdigit b = true ∧ dv2 a b = v := by
  refine ⟨digitChar (v.toNat / 10), digitChar (v.toNat % 10), pad2_eq _ (by omega), isdigit_digitChar _ (by omega),
    isdigit_digitChar _ (by omega), ?_⟩
  rw [dv2_digitChar _ (by omega)]; omega

/-- the printed fields of a broken-down time, as digits -/
theorem tm_digits (tm : Tm) (hr : TmRange tm) :
    ∃ ya yb yc yd ma mb da db ha hb na nb sa sb,
      DateDigits ya yb yc yd ma mb da db ∧ isdigit ha = true ∧ isdigit hb = true ∧ isdigit na = true ∧
      isdigit nb = true ∧ isdigit sa = true ∧ isdigit sb = true ∧
      fmtDate tm = [ya, yb, yc, yd, 45, ma, mb, 45, da, db] ∧ fmtHM tm = [ha, hb, 58, na, nb] ∧ fmtS tm = [sa, sb] ∧
      tm = ⟨dv4 ya yb yc yd, dv2 ma mb, dv2 da db, dv2 ha hb, dv2 na nb, dv2 sa sb⟩ := by
  obtain ⟨ma, mb, e1, hma, hmb, v1⟩ := pad2_digits tm.mon (by have := hr.mo1; omega) (by have := hr.mo2; omega)
  obtain ⟨da, db, e2, hda, hdb, v2⟩ := pad2_digits tm.mday (by have := hr.d1; omega) (by have := hr.d2; omega)
  obtain ⟨ha, hb, e3, hha, hhb, v3⟩ := pad2_digits tm.hour hr.h1 (by have := hr.h2; omega)
  obtain ⟨na, nb, e4, hna, hnb, v4⟩ := pad2_digits tm.min hr.mi1 (by have := hr.mi2; omega)
  obtain ⟨sa, sb, e5, hsa, hsb, v5⟩ := pad2_digits tm.sec hr.s1 (by have := hr.s2; omega)
  have hy1 := hr.y1
  have hy2 := hr.y2
  refine ⟨digitChar (tm.year.toNat / 1000), digitChar (tm.year.toNat / 100 % 10), digitChar (tm.year.toNat / 10 % 10),
    digitChar (tm.year.toNat % 10), ma, mb, da, db, ha, hb, na, nb, sa, sb,
    ⟨isdigit_digitChar _ (by omega), isdigit_digitChar _ (by omega), isdigit_digitChar _ (by omega),
      isdigit_digitChar _ (by omega), hma, hmb, hda, hdb, digitChar_ne_zero _ (by omega) (by omega)⟩,
    hha, hhb, hna, hnb, hsa, hsb, ?_, ?_, ?_, ?_⟩
  · simp [fmtDate, fmtYear_eq tm.year hy1 hy2, e1, e2]
  · simp [fmtHM, e3, e4]
  · simp [fmtS, e5]
  · rw [dv4_digitChar _ (by omega), v1, v2, v3, v4, v5]
    have : ((tm.year.toNat : Nat) : Int) = tm.year := by omega
    rw [this]

theorem sep_hd_58 (rest : Bytes) (h : Sep rest) : hd rest ≠ 58 := by
  rcases h.1 with h | h | h
  · subst h; decide
  · revert h; generalize hd rest = c; revert c; apply UInt8.forall_of_fin; decide +kernel
  · rw [h]; decide

theorem tokStart_digit (c : UInt8) (t : Bytes) (hc : isdigit c = true) : TokStart (c :: t) := by
  obtain ⟨_, _, _, _, _, _, _, _, _, _, _, _, b1, b2, b3, b4, b5, b6, b7⟩ := numStart_facts c (Or.inr hc)
  exact ⟨by simp, b1, b2, b3, b4, b5, b6, b7⟩

theorem tokOK_hms_digits (ya yb yc yd ma mb da db ha hb na nb sa sb : UInt8)
    (h : DateDigits ya yb yc yd ma mb da db) (h1 : isdigit ha = true) (h2 : isdigit hb = true)
    (h3 : isdigit na = true) (h4 : isdigit nb = true) (h5 : isdigit sa = true) (h6 : isdigit sb = true) :
    TokOK [ya, yb, yc, yd, 45, ma, mb, 45, da, db, 32, ha, hb, 58, na, nb, 58, sa, sb]
      (Cell.time (timeFromParams ⟨dv4 ya yb yc yd, dv2 ma mb, dv2 da db, dv2 ha hb, dv2 na nb, dv2 sa sb⟩ 0)) := by
  refine ⟨tokStart_digit _ _ h.hya, ?_, ?_⟩
  · intro rest fuel prev ab hs
    have h46 := (sep_hd_facts rest hs).2.2.2.2.2.1
    apply scanArgVal_of_value _ _ _ _ _ _ hs
    simp only [List.cons_append, List.nil_append]
    rw [scanValue_date _ _ _ _ h.hya (isRangeMultiplier_date _ _ _ _ _ h.hyb h.hyc h.hyd)
      (by rw [skipFmt_isDate _ _ _ _ _ _ _ _ _ h]; decide)]
    exact scanDate_hms _ _ _ _ _ _ _ _ _ _ _ _ _ _ rest h h1 h2 h3 h4 h5 h6 h46
  · intro rest fuel ty llhs ib hs
    have h46 := (sep_hd_facts rest hs).2.2.2.2.2.1
    apply skipNext_of_value _ _ 116 0 _ _ _ _ hs
    simp only [List.cons_append, List.nil_append]
    rw [skipValue_date _ _ _ _ _ h.hya (isRangeMultiplier_date _ _ _ _ _ h.hyb h.hyc h.hyd)
      (by rw [skipFmt_isDate _ _ _ _ _ _ _ _ _ h]; decide)]
    rw [skipFmt_isDate _ _ _ _ _ _ _ _ _ h, skipDate_hms _ _ _ _ _ _ _ _ _ _ _ _ _ _ rest h1 h2 h3 h4 h5 h6 h46]

theorem tokOK_hm_digits (ya yb yc yd ma mb da db ha hb na nb : UInt8)
    (h : DateDigits ya yb yc yd ma mb da db) (h1 : isdigit ha = true) (h2 : isdigit hb = true)
    (h3 : isdigit na = true) (h4 : isdigit nb = true) :
    TokOK [ya, yb, yc, yd, 45, ma, mb, 45, da, db, 32, ha, hb, 58, na, nb]
      (Cell.time (timeFromParams ⟨dv4 ya yb yc yd, dv2 ma mb, dv2 da db, dv2 ha hb, dv2 na nb, 0⟩ 0)) := by
  refine ⟨tokStart_digit _ _ h.hya, ?_, ?_⟩
  · intro rest fuel prev ab hs
    have h46 := (sep_hd_facts rest hs).2.2.2.2.2.1
    have h58 := sep_hd_58 rest hs
    apply scanArgVal_of_value _ _ _ _ _ _ hs
    simp only [List.cons_append, List.nil_append]
    rw [scanValue_date _ _ _ _ h.hya (isRangeMultiplier_date _ _ _ _ _ h.hyb h.hyc h.hyd)
      (by rw [skipFmt_isDate _ _ _ _ _ _ _ _ _ h]; decide)]
    exact scanDate_hm _ _ _ _ _ _ _ _ _ _ _ _ rest h h1 h2 h3 h4 h58 h46
  · intro rest fuel ty llhs ib hs
    have h58 := sep_hd_58 rest hs
    apply skipNext_of_value _ _ 116 0 _ _ _ _ hs
    simp only [List.cons_append, List.nil_append]
    rw [skipValue_date _ _ _ _ _ h.hya (isRangeMultiplier_date _ _ _ _ _ h.hyb h.hyc h.hyd)
      (by rw [skipFmt_isDate _ _ _ _ _ _ _ _ _ h]; decide)]
    rw [skipFmt_isDate _ _ _ _ _ _ _ _ _ h, skipDate_hm _ _ _ _ _ _ _ _ _ _ _ _ rest h1 h2 h3 h4 h58]

theorem timeFromParams_of_mktime (tm : Tm) (secs : Nat) (h : secs < 4294967296) (hm : mktime tm = (secs : Int)) :
    timeFromParams tm 0 = secs * 4294967296 := by
  have ht : (((secs : Nat) : Int) % 18446744073709551616).toNat = secs := by omega
  have hx : secs * 4294967296 % 18446744073709551616 = secs * 4294967296 := by omega
  simp only [timeFromParams, hm, ht, hx, Nat.zero_mod]
  show 0 ||| secs * 4294967296 = secs * 4294967296
  exact Nat.zero_or _

/-- what the printer writes for a time tag without second fractions -/
def timeText (tm : Tm) : Bytes :=
  if tm.sec ≠ 0 then fmtDate tm ++ 32 :: fmtHM tm ++ 58 :: fmtS tm
  else if tm.hour ≠ 0 ∨ tm.min ≠ 0 then fmtDate tm ++ 32 :: fmtHM tm
  else fmtDate tm

theorem printArgVal_time (fuel : Nat) (opt : POpt) (v secs : Nat) (more : List Cell) (prev : Option Cell) (st : PSt)
    (hv1 : v ≠ 1) (hdiv : v / 4294967296 = secs) (hmod : v % 4294967296 = 0) :
    printArgVal (fuel + 1) opt (Cell.time v :: more) prev st =
      .ok (⟨st.out ++ timeText (localtime (secs : Int)), st.cols + (timeText (localtime (secs : Int))).length⟩,
        (timeText (localtime (secs : Int))).length) := by
  have h00 : ((0 : Nat) ≠ 0) = False := by simp
  simp only [printArgVal, deref, bind, Except.bind, pure, Except.pure, hv1, hdiv, hmod, ↓reduceIte, h00, false_or,
    timeText]

theorem sep_nil : Sep [] := ⟨Or.inl rfl, by decide, by decide⟩

end Rtosc.Pretty.TokTime

/-! ## Part 4: the token theorems -/
namespace Rtosc.Pretty
open Rtosc Rtosc.Libc Rtosc.Libc.TimeFmt Rtosc.Pretty.TokTime
open Rtosc.ArgVal (Cell)

/-- 't' without second fractions, not at midnight: `YYYY-MM-DD HH:MM` or `YYYY-MM-DD HH:MM:SS` -/
theorem printsTok_time_clock (opt : POpt) (secs : Nat) (h : secs < 4294967296) (hclock : secs % 86400 ≠ 0) :
    PrintsTok opt (Cell.time (secs * 4294967296)) := by
  intro fuel more prev st
  obtain ⟨hmk, hr, hsum⟩ := localtime_facts (secs : Int) (by omega) (by omega)
  refine ⟨timeText (localtime (secs : Int)), _,
    printArgVal_time fuel opt _ secs more prev st (by omega) (by omega) (by omega), ?_⟩
  rw [← timeFromParams_of_mktime _ secs h hmk]
  generalize localtime (secs : Int) = tm at *
  obtain ⟨ya, yb, yc, yd, ma, mb, da, db, ha, hb, na, nb, sa, sb, hdig, h1, h2, h3, h4, h5, h6, eD, eHM, eS, etm⟩ :=
    tm_digits tm hr
  unfold timeText
  by_cases hs : tm.sec = 0
  · have hhm : tm.hour ≠ 0 ∨ tm.min ≠ 0 := by
      have := hr.h1; have := hr.mi1; omega
    have hs' : ¬ (tm.sec ≠ 0) := by simp [hs]
    simp only [hs', hhm, ↓reduceIte, eD, eHM, List.cons_append, List.nil_append]
    have e0 : dv2 sa sb = 0 := by
      have := congrArg Tm.sec etm
      simp only at this
      omega
    have etm' : tm = ⟨dv4 ya yb yc yd, dv2 ma mb, dv2 da db, dv2 ha hb, dv2 na nb, 0⟩ := by rw [← e0]; exact etm
    rw [etm']
    exact tokOK_hm_digits ya yb yc yd ma mb da db ha hb na nb hdig h1 h2 h3 h4
  · simp only [ne_eq, hs, not_false_eq_true, ↓reduceIte, eD, eHM, eS, List.cons_append, List.nil_append]
    rw [etm]
    exact tokOK_hms_digits ya yb yc yd ma mb da db ha hb na nb sa sb hdig h1 h2 h3 h4 h5 h6

/-- midnight: `YYYY-MM-DD` alone -/
theorem time_dateonly_roundtrip (opt : POpt) (days : Nat) (h : days * 86400 < 4294967296) (fuel : Nat)
    (more : List Cell) (prev : Option Cell) (st : PSt) :
    ∃ t cols', printArgVal (fuel + 1) opt (Cell.time (days * 86400 * 4294967296) :: more) prev st
        = .ok (⟨st.out ++ t, cols'⟩, t.length) ∧
      (∀ fuel' prevc ab, scanArgVal (fuel' + 1) t prevc ab true = .ok (t.length, [Cell.time (days * 86400 * 4294967296)])) ∧
      (∀ fuel' ty llhs ib, ∃ r, skipNextPrintedArg (fuel' + 1) t ty llhs true ib = .ok r ∧ r.src = some [] ∧ r.skipped = 1 ∧ r.type = 116) := by
  obtain ⟨hmk, hr, hsum⟩ := localtime_facts ((days * 86400 : Nat) : Int) (by omega) (by omega)
  refine ⟨timeText (localtime ((days * 86400 : Nat) : Int)), _,
    printArgVal_time fuel opt _ (days * 86400) more prev st (by omega) (by omega) (by omega), ?_⟩
  rw [← timeFromParams_of_mktime _ (days * 86400) h hmk]
  have hz : ((days * 86400 : Nat) : Int) % 86400 = 0 := by omega
  rw [hz] at hsum
  generalize localtime ((days * 86400 : Nat) : Int) = tm at *
  obtain ⟨ya, yb, yc, yd, ma, mb, da, db, ha, hb, na, nb, sa, sb, hdig, h1, h2, h3, h4, h5, h6, eD, eHM, eS, etm⟩ :=
    tm_digits tm hr
  have hs : tm.sec = 0 := by have := hr.h1; have := hr.mi1; have := hr.s1; omega
  have hh : tm.hour = 0 := by have := hr.h1; have := hr.mi1; have := hr.s1; omega
  have hmi : tm.min = 0 := by have := hr.h1; have := hr.mi1; have := hr.s1; omega
  have htxt : timeText tm = [ya, yb, yc, yd, 45, ma, mb, 45, da, db] := by
    simp [timeText, hs, hh, hmi, eD]
  have etm' : tm = ⟨dv4 ya yb yc yd, dv2 ma mb, dv2 da db, 0, 0, 0⟩ := by
    have a := congrArg Tm.sec etm
    have b := congrArg Tm.hour etm
    have c := congrArg Tm.min etm
    simp only at a b c
    have ea : dv2 sa sb = 0 := by omega
    have eb : dv2 ha hb = 0 := by omega
    have ec : dv2 na nb = 0 := by omega
    have e := etm
    rw [ea, eb, ec] at e
    exact e
  rw [htxt, etm']
  have hdate : skipFmt fmtIsDate [ya, yb, yc, yd, 45, ma, mb, 45, da, db] ≠ 0 := by
    rw [skipFmt_isDate _ _ _ _ _ _ _ _ _ hdig]; decide
  have hmult := isRangeMultiplier_date ya yb yc yd [ma, mb, 45, da, db] hdig.hyb hdig.hyc hdig.hyd
  refine ⟨?_, ?_⟩
  · intro fuel' prevc ab
    have := scanArgVal_of_value [ya, yb, yc, yd, 45, ma, mb, 45, da, db] []
      (Cell.time (timeFromParams ⟨dv4 ya yb yc yd, dv2 ma mb, dv2 da db, 0, 0, 0⟩ 0)) fuel' prevc ab sep_nil (by
        rw [List.append_nil, scanValue_date _ _ _ _ hdig.hya hmult hdate]
        exact scanDate_d ya yb yc yd ma mb da db hdig)
    rw [List.append_nil] at this
    exact this
  · intro fuel' ty llhs ib
    have := skipNext_of_value [ya, yb, yc, yd, 45, ma, mb, 45, da, db] [] 116 0 fuel' ty llhs ib sep_nil (by
        rw [List.append_nil, skipValue_date _ _ _ _ _ hdig.hya hmult hdate, skipFmt_isDate _ _ _ _ _ _ _ _ _ hdig,
          skipDate_d])
    rw [List.append_nil] at this
    exact this

end Rtosc.Pretty
