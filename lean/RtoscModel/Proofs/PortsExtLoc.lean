/-
  C04 helper lemmas, part 10 (review item A5): what a callback sees in `loc`, at the strength of
  the sentence "loc holds the address up to and including the part the callback's own name
  accounts for" — `LocOK` (Proofs/PortsProps.lean) only said that `loc` is *some* prefix of the full
  address which ends in '/' or is all of it, and did not mention the port's name.

  `LocExact P full ex c`: the log entry `c` names a port of the tree (`PPorts.portAt`), and for that
  port's structured name `p`
      loc = pre ++ mid,   pre ++ mid ++ rest = full,   msg pointer = mid ++ rest ++ NUL …,
      `Accounts p mid rest`: `mid ++ rest` spells the segments of `p` and what is left is "/" ++ rest
                             (name with trailing '/': `mid` is the spelled text and that '/'), or
                             nothing at all (name without: `rest` is empty, `mid` the spelled text).
  A default handler sees loc ++ (its msg pointer's address) = full.
-/
import RtoscModel.Proofs.PortsProps
namespace Rtosc.Ports
open Rtosc Rtosc.Match

/-- the port with index path `j :: s` in a table whose first port has index `i` -/
def PTable.patFrom : PTable → Nat → List Nat → Option Pat
  | .nil, _, _ => none
  | _, _, [] => none
  | .leaf p r, i, j :: s => if j = i then (if s = [] then some p else none) else r.patFrom (i + 1) (j :: s)
  | .node p c _ r, i, j :: s =>
    if j = i then (if s = [] then some p else c.patFrom 0 s) else r.patFrom (i + 1) (j :: s)

/-- the (structured name of the) port with the given path of table indices -/
def PPorts.portAt (P : PPorts) (q : List Nat) : Option Pat := P.tab.patFrom 0 q

/-- `mid` is the part of the remaining address `mid ++ rest` the name `p` accounts for -/
def Accounts (p : Pat) (mid rest : Bytes) : Prop :=
  ∃ r0, SpellsAll p.segs (mid ++ rest) r0 ∧ (if p.sub then r0 = 47 :: rest else r0 = [] ∧ rest = [])

/-- what the callback of a port named `p` sees -/
def LocSees (full ex : Bytes) (c : Call) (p : Pat) : Prop :=
  ∃ pre mid rest, c.loc = some (pre ++ mid) ∧ pre ++ mid ++ rest = full ∧
    c.m = mid ++ rest ++ 0 :: ex ∧ Accounts p mid rest

/-- what a default handler sees -/
def LocSeesDflt (full ex : Bytes) (c : Call) : Prop :=
  ∃ l rest, c.loc = some l ∧ l ++ rest = full ∧ c.m = rest ++ 0 :: ex

/-- the invariant of ports.h ("d.loc + m make the port's full path") for one log entry, with the
    port's name in it -/
def LocExact (P : PPorts) (full ex : Bytes) (c : Call) : Prop :=
  match c.who with
  | .port q => ∃ p, P.portAt q = some p ∧ LocSees full ex c p
  | .dflt _ => LocSeesDflt full ex c

/-- the same relative to a table reached with path `tp` whose first port has index `i` -/
def LocExactAt (t : PTable) (i : Nat) (tp : List Nat) (full ex : Bytes) (c : Call) : Prop :=
  match c.who with
  | .port q => ∃ j s p, q = tp ++ j :: s ∧ i ≤ j ∧ t.patFrom i (j :: s) = some p ∧ LocSees full ex c p
  | .dflt _ => LocSeesDflt full ex c

theorem accounts_of_match {p : Pat} {a tags t : Bytes} (hm : matchB p a tags = some t) :
    Accounts p (consumed a t) t := by
  have hg := matchB_greedy hm
  obtain ⟨hsplit, _⟩ := matchB_shape hm
  obtain ⟨r0, h1, h2⟩ := greedy_sound p.sub p.segs a t hg
  refine ⟨r0, by rw [← hsplit]; exact h1, ?_⟩
  cases hs : p.sub with
  | true => simp only [hs, ↓reduceIte] at h2 ⊢; exact h2
  | false => simp only [hs, Bool.false_eq_true, ↓reduceIte] at h2 ⊢; exact h2

theorem locExactAt_leaf_rest {p0 : Pat} {r : PTable} {i : Nat} {tp : List Nat} {full ex : Bytes} {c : Call}
    (h : LocExactAt r (i + 1) tp full ex c) : LocExactAt (.leaf p0 r) i tp full ex c := by
  unfold LocExactAt at h ⊢
  split
  · next q hq =>
    simp only [hq] at h
    obtain ⟨j, s, p, h1, h2, h3, h4⟩ := h
    refine ⟨j, s, p, h1, by omega, ?_, h4⟩
    have : ¬ j = i := by omega
    simp only [PTable.patFrom, this, ↓reduceIte]
    exact h3
  · next q hq => simp only [hq] at h; exact h

theorem locExactAt_node_rest {p0 : Pat} {ch r : PTable} {cd : Bool} {i : Nat} {tp : List Nat} {full ex : Bytes}
    {c : Call} (h : LocExactAt r (i + 1) tp full ex c) : LocExactAt (.node p0 ch cd r) i tp full ex c := by
  unfold LocExactAt at h ⊢
  split
  · next q hq =>
    simp only [hq] at h
    obtain ⟨j, s, p, h1, h2, h3, h4⟩ := h
    refine ⟨j, s, p, h1, by omega, ?_, h4⟩
    have : ¬ j = i := by omega
    simp only [PTable.patFrom, this, ↓reduceIte]
    exact h3
  · next q hq => simp only [hq] at h; exact h

theorem locExactAt_node_child {p0 : Pat} {ch r : PTable} {cd : Bool} {i : Nat} {tp : List Nat} {full ex : Bytes}
    {c : Call} (h : LocExactAt ch 0 (tp ++ [i]) full ex c) : LocExactAt (.node p0 ch cd r) i tp full ex c := by
  unfold LocExactAt at h ⊢
  split
  · next q hq =>
    simp only [hq] at h
    obtain ⟨j, s, p, h1, _, h3, h4⟩ := h
    refine ⟨i, j :: s, p, by rw [h1]; simp, Nat.le_refl _, ?_, h4⟩
    simp only [PTable.patFrom, ↓reduceIte, reduceCtorEq]
    exact h3
  · next q hq => simp only [hq] at h; exact h

/-- **loc_full_address at full strength, on `semLoc`** -/
theorem semLoc_locExact : ∀ (t : PTable), t.WF →
    ∀ (tp : List Nat) (i : Nat) (obj : List Nat) (L a tags ex : Bytes) (d : RtData) (mt : Bool),
    d.loc = some L → ∀ c ∈ (semLoc t tp i obj L a tags ex d mt).1, LocExactAt t i tp (L ++ a) ex c := by
  intro t
  induction t with
  | nil => intro _ tp i obj L a tags ex d mt _ c hc; simp [semLoc] at hc
  | leaf p rest ih =>
    intro hwf tp i obj L a tags ex d mt hloc c hc
    simp only [PTable.WF, PTable.wf, Bool.and_eq_true] at hwf
    simp only [semLoc] at hc
    split at hc
    · exact locExactAt_leaf_rest (ih hwf.2 _ _ _ _ _ _ _ _ _ hloc c hc)
    · next t hm =>
      rcases List.mem_cons.mp hc with rfl | hc
      · obtain ⟨hsplit, _⟩ := matchB_shape hm
        refine ⟨i, [], p, rfl, Nat.le_refl _, by simp [PTable.patFrom], ?_⟩
        exact ⟨L, consumed a t, t, by simp [callOf, RtData.setLoc], by rw [List.append_assoc, ← hsplit],
          by simp only [callOf]; rw [← hsplit], accounts_of_match hm⟩
      · exact locExactAt_leaf_rest (ih hwf.2 _ _ _ _ _ _ _ _ _ rfl c hc)
  | node p child cd rest ihc ihr =>
    intro hwf tp i obj L a tags ex d mt hloc c hc
    simp only [PTable.WF, PTable.wf, Bool.and_eq_true] at hwf
    simp only [semLoc] at hc
    split at hc
    · exact locExactAt_node_rest (ihr hwf.2 _ _ _ _ _ _ _ _ _ hloc c hc)
    · next t hm =>
      obtain ⟨hsplit, _⟩ := matchB_shape hm
      have htail := node_tail hwf.1.1 hm
      have hfull : L ++ consumed a t ++ levelTail a = L ++ a := by
        rw [htail, List.append_assoc, ← hsplit]
      rcases List.mem_cons.mp hc with rfl | hc
      · refine ⟨i, [], p, rfl, Nat.le_refl _, by simp [PTable.patFrom], ?_⟩
        exact ⟨L, consumed a t, t, by simp [callOf, RtData.setLoc], by rw [List.append_assoc, ← hsplit],
          by simp only [callOf]; rw [← hsplit], accounts_of_match hm⟩
      · rcases List.mem_append.mp hc with hc | hc
        · rcases mem_finLoc hc with hc | ⟨_, _, rfl⟩
          · have := ihc hwf.1.2 _ _ _ _ _ _ _ _ _ rfl c hc
            rw [hfull] at this
            exact locExactAt_node_child this
          · refine ⟨L ++ consumed a t, levelTail a, ?_, hfull, ?_⟩
            · simp only [dfltCallOf]
              exact semLoc_loc _ _ _ _ _ _ _ _ _ _ rfl
            · simp [dfltCallOf]
        · exact locExactAt_node_rest (ihr hwf.2 _ _ _ _ _ _ _ _ _ rfl c hc)

theorem locExact_of_at {P : PPorts} {full ex : Bytes} {c : Call} (h : LocExactAt P.tab 0 [] full ex c) :
    LocExact P full ex c := by
  unfold LocExactAt at h
  unfold LocExact
  split
  · next q hq =>
    simp only [hq] at h
    obtain ⟨j, s, p, h1, _, h3, h4⟩ := h
    exact ⟨p, by rw [h1]; exact h3, h4⟩
  · next q hq => simp only [hq] at h; exact h

/-- what the name accounts for ends in '/' when the name does, else nothing is left over -/
theorem accounts_shape {p : Pat} {mid rest : Bytes} (h : Accounts p mid rest) :
    if p.sub then mid.getLast? = some 47 else rest = [] := by
  obtain ⟨r0, h1, h2⟩ := h
  cases hs : p.sub with
  | false => simp only [hs, Bool.false_eq_true, ↓reduceIte] at h2 ⊢; exact h2.2
  | true =>
    simp only [hs, ↓reduceIte] at h2 ⊢
    subst h2
    obtain ⟨pre', hpre'⟩ := spellsAll_suffix h1
    have : mid = pre' ++ [47] := by
      have h : mid ++ rest = (pre' ++ [47]) ++ rest := by rw [hpre']; simp
      exact List.append_cancel_right h
    rw [this]; simp

/-- the strengthened invariant implies the old one -/
theorem locExact_locOK {P : PPorts} {full ex : Bytes} {c : Call} (h : LocExact P full ex c) : LocOK full ex c := by
  unfold LocExact at h
  unfold LocOK
  split at h
  · next q hq =>
    obtain ⟨p, _, pre, mid, rest, h1, h2, h3, h4⟩ := h
    refine ⟨pre ++ mid, rest, h1, h2, ?_⟩
    simp only [hq]
    refine ⟨pre, mid, rfl, h3, ?_⟩
    have := accounts_shape h4
    cases hs : p.sub with
    | true => simp only [hs, ↓reduceIte] at this; exact Or.inr this
    | false => simp only [hs, Bool.false_eq_true, ↓reduceIte] at this; exact Or.inl this
  · next q hq =>
    obtain ⟨l, rest, h1, h2, h3⟩ := h
    exact ⟨l, rest, h1, h2, by simp only [hq]; exact h3⟩

/-- a callback of a port whose name has no trailing '/' sees the full address -/
theorem locExact_leaf_full {P : PPorts} {full ex : Bytes} {c : Call} (h : LocExact P full ex c)
    {q : List Nat} {p : Pat} (hq : c.who = .port q) (hp : P.portAt q = some p) (hs : p.sub = false) :
    c.loc = some full := by
  unfold LocExact at h
  simp only [hq] at h
  obtain ⟨p', hp', pre, mid, rest, h1, h2, _, h4⟩ := h
  rw [hp] at hp'
  cases hp'
  have := accounts_shape h4
  simp only [hs, Bool.false_eq_true, ↓reduceIte] at this
  subst this
  rw [h1, ← h2, List.append_nil]

end Rtosc.Ports
