/-
  C12 / C13 — a concrete application used for the non-vacuity examples of Props/C12.lean and
  Props/C13.lean: it satisfies every hypothesis of the theorems (App.WF, MetaCovers, MetaRanked).
-/
import RtoscModel.Save.Spec
namespace Rtosc.Save.Example
open Rtosc.Save

/-- A three-parameter application:
      /p    rParamI, rDefault(0)                                   (a preset port)
      /t    rToggle, rDefaultDepends(p) rPreset(1, true) rDefault(false)
      /s/   rRecurp(s, rEnabledBy(t))  — pointer sub-tree allocated by t's change callback
      /s/a  rParamI, rDefault(5)
-/
def exParams : List Param := [
  { addr := "/p".toList, kind := .int none none, dflt := .const (.int 0), guards := [], anc := [], canon := .int 0 },
  { addr := "/t".toList, kind := .tog, dflt := .preset 0 [(1, .bool true)] (.bool false), guards := [], anc := [0],
    canon := .bool false },
  { addr := "/s/a".toList, kind := .int none none, dflt := .const (.int 5), guards := [(1, true)], anc := [0, 1],
    canon := .int 5 } ]

def exApropos (p : Path) : Option DepMeta :=
  if p = "/t".toList then some ⟨none, none, some "p".toList⟩
  else if p = "/s/".toList then some ⟨some "t".toList, none, none⟩
  else none

def exApp : App :=
  { name := "ex".toList, params := exParams, walk := [.scalar 0, .scalar 1, .scalar 2], apropos := exApropos }

theorem ex_size : exApp.size = 3 := rfl

set_option maxRecDepth 4000 in
theorem ex_wf : exApp.WF where
  addr_nodup := by decide
  anc_lt := by decide
  anc_closed := by decide
  guards_anc := by decide
  preset_anc := by
    intro i hi par tbl fb h
    have : i = 0 ∨ i = 1 ∨ i = 2 := by rw [ex_size] at hi; omega
    rcases this with rfl | rfl | rfl
    · cases h
    · simp [App.param, exApp, exParams] at h ⊢; omega
    · cases h
  kind_ok := by
    intro i hi
    have : i = 0 ∨ i = 1 ∨ i = 2 := by rw [ex_size] at hi; omega
    rcases this with rfl | rfl | rfl <;> simp [App.param, exApp, exParams, KindOK]
  dflt_storable := by
    intro i hi
    have : i = 0 ∨ i = 1 ∨ i = 2 := by rw [ex_size] at hi; omega
    rcases this with rfl | rfl | rfl <;> (unfold Storable; decide)
  canon_ok := by
    intro i hi
    have : i = 0 ∨ i = 1 ∨ i = 2 := by rw [ex_size] at hi; omega
    rcases this with rfl | rfl | rfl <;> rfl
  walk_tiles := ⟨[.scalar 0, .scalar 1, .scalar 2], List.Perm.refl _, by
    simp [Tiling, Item.lo, Item.hi, ex_size]⟩
  item_addr_nodup := by decide
  array_ok := by
    intro base first len h
    simp [exApp] at h


theorem ex_refs_p : refsOf exApropos "/p".toList = [] := by decide
theorem ex_refs_t : refsOf exApropos "/t".toList = ["/p".toList] := by decide
theorem ex_refs_sa : refsOf exApropos "/s/a".toList = ["/t".toList] := by decide

theorem ex_covers : exApp.MetaCovers := by
  constructor
  · intro d hd a ha
    have : d = 0 ∨ d = 1 ∨ d = 2 := by rw [ex_size] at hd; omega
    rcases this with rfl | rfl | rfl
    · simp [App.param, exApp, exParams] at ha
    · simp [App.param, exApp, exParams] at ha
      subst ha
      left
      show "/p".toList ∈ refsOf exApropos "/t".toList
      rw [ex_refs_t]; simp
    · simp [App.param, exApp, exParams] at ha
      rcases ha with rfl | rfl
      · right
        refine ⟨1, by simp [App.param, exApp, exParams], by simp [App.param, exApp, exParams], ?_⟩
        show "/t".toList ∈ refsOf exApropos "/s/a".toList
        rw [ex_refs_sa]; simp
      · left
        show "/t".toList ∈ refsOf exApropos "/s/a".toList
        rw [ex_refs_sa]; simp
  · intro base first len h
    simp [exApp] at h


theorem levels_head (n : Nat) (X l : Path) (r : List Path) (h : levels (n + 1) X = l :: r) : l = X := by
  unfold levels at h
  split at h
  · cases h
  · split at h
    · cases h
    · cases h; rfl

theorem ex_refs_s : refsOf exApropos "/s/".toList = ["/s/t".toList, "/t".toList] := by decide

theorem ex_apropos_slash (p : Path) (m : DepMeta) (h : exApropos (p ++ ['/']) = some m) :
    p = "/s".toList ∧ m = ⟨some "t".toList, none, none⟩ := by
  unfold exApropos at h
  split at h
  · rename_i h1
    have := congrArg List.reverse h1
    simp at this
  · split at h
    · rename_i h1 h2
      have := congrArg List.reverse h2
      simp at this
      have hp : p = "/s".toList := by
        have := congrArg List.reverse this
        simpa using this
      cases h
      exact ⟨hp, rfl⟩
    · cases h

theorem ex_apropos_self (q : Path) : exApropos (q ++ selfName) = none := by
  unfold exApropos
  have h1 : q ++ selfName ≠ "/t".toList := by
    intro h
    have := congrArg List.reverse h
    simp [selfName] at this
  have h2 : q ++ selfName ≠ "/s/".toList := by
    intro h
    have := congrArg List.reverse h
    simp [selfName] at this
  rw [if_neg h1, if_neg h2]

theorem ex_selfMeta (l : Path) : selfMeta exApropos l = none := by
  unfold selfMeta
  rw [ex_apropos_self]

theorem ex_refs_other (X : Path) (h1 : X ≠ "/t".toList) (h2 : X ≠ "/s/".toList) :
    ∀ Y ∈ refsOf exApropos X, Y = "/t".toList := by
  intro Y hY0
  have hY := (List.mem_filter.1 hY0).1
  clear hY0
  unfold rawRefs lvlArgs at hY
  cases hl : levels (X.length + 1) X with
  | nil => rw [hl] at hY; simp at hY
  | cons l r =>
    rw [hl] at hY
    have hlX := levels_head _ _ _ _ hl
    subst hlX
    simp only [List.flatMap_cons, List.mem_append, List.mem_flatMap, List.mem_map, refsAt, ex_selfMeta,
      List.append_nil] at hY
    rcases hY with hY | ⟨la, ⟨p, _, rfl⟩, hY⟩
    · have : exApropos l = none := by
        unfold exApropos
        rw [if_neg h1, if_neg h2]
      simp [this] at hY
    · simp only at hY
      cases hm : exApropos (p ++ ['/']) with
      | none => simp [hm] at hY
      | some m =>
        obtain ⟨hp, hm'⟩ := ex_apropos_slash p m hm
        subst hp; subst hm'
        rw [hm] at hY
        revert hY
        decide +revert

def exRank (X : Path) : Nat :=
  if X = "/p".toList then 0 else if X = "/t".toList then 1 else if X = "/s/".toList then 3 else 2

theorem ex_ranked : MetaRanked exApropos := by
  refine ⟨exRank, ?_, ?_⟩
  · intro X Y hY
    by_cases hp : X = "/p".toList
    · subst hp; rw [ex_refs_p] at hY; cases hY
    by_cases ht : X = "/t".toList
    · subst ht; rw [ex_refs_t] at hY; simp at hY; subst hY; decide
    by_cases hs : X = "/s/".toList
    · subst hs; rw [ex_refs_s] at hY; simp at hY; rcases hY with rfl | rfl <;> decide
    · have := ex_refs_other X ht hs Y hY
      subst this
      simp only [exRank, hp, ht, hs, ↓reduceIte]
      decide
  · intro X
    unfold exRank scanFuel
    split <;> (try split) <;> (try split) <;> omega

end Rtosc.Save.Example

/-! ### a second concrete application: a sub-tree enabled by a toggle of its own -/
namespace Rtosc.Save.SelfExample
open Rtosc.Save Rtosc.Save.Example

/-- A sub-tree enabled by a toggle of its own:
      /s/    rRecur(s, rEnabledBy(s/t))
      /s/t   rToggle, rDefault(false)
      /s/a   rParamI, rDefault(5)        (visible while /s/t is on) -/
def sParams : List Param := [
  { addr := "/s/t".toList, kind := .tog, dflt := .const (.bool false), guards := [], anc := [], canon := .bool false },
  { addr := "/s/a".toList, kind := .int none none, dflt := .const (.int 5), guards := [(0, false)], anc := [0],
    canon := .int 5 } ]

def sApropos (p : Path) : Option DepMeta :=
  if p = "/s/".toList then some ⟨some "s/t".toList, none, none⟩ else none

def sApp : App := { name := "self".toList, params := sParams, walk := [.scalar 1, .scalar 0], apropos := sApropos }

theorem s_size : sApp.size = 2 := rfl

set_option maxRecDepth 4000 in
theorem s_wf : sApp.WF where
  addr_nodup := by decide
  anc_lt := by decide
  anc_closed := by decide
  guards_anc := by decide
  preset_anc := by
    intro i hi par tbl fb h
    have : i = 0 ∨ i = 1 := by rw [s_size] at hi; omega
    rcases this with rfl | rfl <;> cases h
  kind_ok := by
    intro i hi
    have : i = 0 ∨ i = 1 := by rw [s_size] at hi; omega
    rcases this with rfl | rfl <;> simp [App.param, sApp, sParams, KindOK]
  dflt_storable := by
    intro i hi
    have : i = 0 ∨ i = 1 := by rw [s_size] at hi; omega
    rcases this with rfl | rfl <;> (unfold Storable; decide)
  canon_ok := by
    intro i hi
    have : i = 0 ∨ i = 1 := by rw [s_size] at hi; omega
    rcases this with rfl | rfl <;> rfl
  walk_tiles := ⟨[.scalar 0, .scalar 1], List.Perm.swap (Item.scalar 1) (Item.scalar 0) [], by simp [Tiling, Item.lo, Item.hi, s_size]⟩
  item_addr_nodup := by decide
  array_ok := by
    intro base first len h
    simp [sApp] at h

/-- the toggle's own path is found along its address, and dropped: it does not wait for itself -/
theorem s_raw_t : rawRefs sApropos "/s/t".toList = ["/s/t".toList] := by decide
theorem s_refs_t : refsOf sApropos "/s/t".toList = [] := by decide
theorem s_refs_a : refsOf sApropos "/s/a".toList = ["/s/t".toList] := by decide
theorem s_refs_s : refsOf sApropos "/s/".toList = ["/s/s/t".toList, "/s/t".toList] := by decide

theorem s_covers : sApp.MetaCovers := by
  constructor
  · intro d hd a ha
    have : d = 0 ∨ d = 1 := by rw [s_size] at hd; omega
    rcases this with rfl | rfl
    · simp [App.param, sApp, sParams] at ha
    · simp [App.param, sApp, sParams] at ha
      subst ha
      left
      show "/s/t".toList ∈ refsOf sApropos "/s/a".toList
      rw [s_refs_a]; simp
  · intro base first len h
    simp [sApp] at h

theorem s_apropos_self (q : Path) : sApropos (q ++ selfName) = none := by
  unfold sApropos
  have h2 : q ++ selfName ≠ "/s/".toList := by
    intro h
    have := congrArg List.reverse h
    simp [selfName] at this
  rw [if_neg h2]

theorem s_selfMeta (l : Path) : selfMeta sApropos l = none := by
  unfold selfMeta
  rw [s_apropos_self]

theorem s_apropos_slash (p : Path) (m : DepMeta) (h : sApropos (p ++ ['/']) = some m) :
    p = "/s".toList ∧ m = ⟨some "s/t".toList, none, none⟩ := by
  unfold sApropos at h
  split at h
  · rename_i h2
    have := congrArg List.reverse h2
    simp at this
    have hp : p = "/s".toList := by
      have := congrArg List.reverse this
      simpa using this
    cases h
    exact ⟨hp, rfl⟩
  · cases h

theorem s_meta_refs : ∀ Y ∈ metaRefs ⟨some "s/t".toList, none, none⟩ "/s".toList, Y = "/s/t".toList := by decide

theorem s_refs_other (X : Path) (h2 : X ≠ "/s/".toList) :
    ∀ Y ∈ refsOf sApropos X, Y = "/s/t".toList ∧ X ≠ "/s/t".toList := by
  intro Y hY0
  have hne : Y ≠ X := by simpa using (List.mem_filter.1 hY0).2
  have hY := (List.mem_filter.1 hY0).1
  clear hY0
  suffices h : Y = "/s/t".toList from ⟨h, fun hx => hne (h.trans hx.symm)⟩
  unfold rawRefs lvlArgs at hY
  cases hl : levels (X.length + 1) X with
  | nil => rw [hl] at hY; simp at hY
  | cons l r =>
    rw [hl] at hY
    have hlX := levels_head _ _ _ _ hl
    subst hlX
    simp only [List.flatMap_cons, List.mem_append, List.mem_flatMap, List.mem_map, refsAt, s_selfMeta,
      List.append_nil] at hY
    rcases hY with hY | ⟨la, ⟨p, _, rfl⟩, hY⟩
    · have : sApropos l = none := by
        unfold sApropos
        rw [if_neg h2]
      simp [this] at hY
    · simp only at hY
      cases hm : sApropos (p ++ ['/']) with
      | none => simp [hm] at hY
      | some m =>
        obtain ⟨hp, hm'⟩ := s_apropos_slash p m hm
        subst hp; subst hm'
        rw [hm] at hY
        exact s_meta_refs Y hY

def sRank (X : Path) : Nat :=
  if X = "/s/t".toList then 0 else if X = "/s/".toList then 2 else 1

theorem s_ranked : MetaRanked sApropos := by
  refine ⟨sRank, ?_, ?_⟩
  · intro X Y hY
    by_cases hs : X = "/s/".toList
    · subst hs; rw [s_refs_s] at hY; simp at hY; rcases hY with rfl | rfl <;> decide
    · obtain ⟨hYt, hXt⟩ := s_refs_other X hs Y hY
      subst hYt
      simp only [sRank, hXt, hs, ↓reduceIte]
      decide
  · intro X
    unfold sRank scanFuel
    split <;> (try split) <;> omega

/-- the file as `save_to_file` writes it after `/s/t := true`, `/s/a := 7`: `/s/a` first (table order) -/
def sFile : List Line := [⟨"/s/a".toList, .plain [.int 7]⟩, ⟨"/s/t".toList, .plain [.bool true]⟩]

theorem sFile_ok : sApp.FileOK sFile where
  addr_nodup := by decide
  line_ok := by intro l hl; simp [sFile] at hl; rcases hl with rfl | rfl <;> trivial
  disjoint := by decide

end Rtosc.Save.SelfExample
