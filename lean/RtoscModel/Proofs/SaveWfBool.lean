/-
  C12 / C13 — the Bool versions of `WF.kind_ok` and `WF.walk_tiles` (Save/WfBool.lean) imply the clauses.
-/
import RtoscModel.Save.WfBool
import RtoscModel.Proofs.SaveSem
namespace Rtosc.Save

theorem nodupB_sound (l : List Path) (h : nodupB l = true) : l.Nodup := by
  induction l with
  | nil => exact List.nodup_nil
  | cons a r ih =>
    simp only [nodupB, Bool.and_eq_true, Bool.not_eq_true', List.contains_eq_mem, decide_eq_false_iff_not] at h
    exact List.nodup_cons.mpr ⟨h.1, ih h.2⟩

theorem kindOkB_sound (k : Kind) (h : kindOkB k = true) : KindOK k := by
  cases k with
  | opt names => exact nodupB_sound names h
  | flt mn mx =>
    simp only [kindOkB, Bool.and_eq_true] at h
    obtain ⟨⟨h1, h2⟩, h3⟩ := h
    refine ⟨?_, ?_, ?_⟩
    · intro a ha; subst ha; simpa [notNaNB] using h1
    · intro b hb; subst hb; simpa [notNaNB] using h2
    · intro a b ha hb; subst ha; subst hb; simpa using h3
  | ichar mn mx =>
    simp only [kindOkB, Bool.and_eq_true] at h
    refine ⟨?_, ?_⟩
    · intro a ha; subst ha; simpa [inCharB] using h.1
    · intro b hb; subst hb; simpa [inCharB] using h.2
  | int mn mx => trivial
  | chr => trivial
  | tog => trivial
  | str len => trivial

theorem tilingB_sound (a b : Nat) (l : List Item) (h : tilingB a l b = true) : Tiling a l b := by
  induction l generalizing a with
  | nil =>
    simp only [tilingB, beq_iff_eq] at h
    exact h
  | cons it r ih =>
    simp only [tilingB, Bool.and_eq_true, beq_iff_eq, decide_eq_true_eq] at h
    exact ⟨h.1.1, h.1.2, ih _ h.2⟩

theorem insertLo_perm (it : Item) (l : List Item) : (insertLo it l).Perm (it :: l) := by
  induction l with
  | nil => exact List.Perm.refl _
  | cons x r ih =>
    unfold insertLo
    split
    · exact List.Perm.refl _
    · exact (List.Perm.cons x ih).trans (List.Perm.swap it x r)

theorem sortLo_perm (l : List Item) : (sortLo l).Perm l := by
  induction l with
  | nil => exact List.Perm.refl _
  | cons it r ih => exact (insertLo_perm it (sortLo r)).trans (List.Perm.cons it ih)

namespace App

theorem kindOkB_sound (app : App) (h : app.kindOkB = true) : ∀ i, i < app.size → KindOK (app.param i).kind := by
  intro i hi
  unfold App.kindOkB at h
  rw [List.all_eq_true] at h
  rw [param_eq_getElem app hi]
  exact Rtosc.Save.kindOkB_sound _ (h _ (List.getElem_mem hi))

theorem walkTilesB_sound (app : App) (h : app.walkTilesB = true) :
    ∃ rw : List Item, rw.Perm app.walk ∧ Tiling 0 rw app.size :=
  ⟨sortLo app.walk, sortLo_perm app.walk, tilingB_sound _ _ _ h⟩

end App
end Rtosc.Save
