/-
  C06 — the lookahead clause under concurrency (review A3).

  The abstract cursors of the bounded FIFO are *computed from the reader's log* (`curOf`):
  `C` = number of messages consumed, `L` = position of the lookahead cursor, with exactly the
  cursor arithmetic of `Q.step` (a successful lookahead read advances `L`, every normal read
  resynchronises `L := C`).  `LInv` ties the concrete `read_lookahead` offset of a state to
  that log-defined cursor and says what every completed read (lookahead or not) returned;
  it is carried through every step of either thread.  `Pend` follows one read operation
  from its linearisation point (the load of the write index) to its completion.
-/
import RtoscModel.Proofs.RingConc
namespace Rtosc.Ring
open Rtosc

/-! ### the abstract cursors, computed from the reader's log -/

/-- cursor arithmetic of the bounded FIFO (`Q.step`), on absolute message numbers:
    `(C, L)` = (messages consumed, position of the lookahead cursor) -/
def curStep : Nat × Nat → ROut → Nat × Nat
  | (C, L), .hasNext _ _ => (C, L)
  | (C, _), .read false m => if m = [] then (C, C) else (C + 1, C + 1)
  | (C, L), .read true m => if m = [] then (C, L) else (C, L + 1)

def curOf (rlog : List ROut) : Nat × Nat := rlog.foldl curStep (0, 0)

/-- position of the lookahead cursor after the log: number of messages in front of it -/
def laOf (rlog : List ROut) : Nat := (curOf rlog).2

/-- the message number a read issued after `rlog` looks at -/
def curAt (l : Bool) (rlog : List ROut) : Nat := if l then laOf rlog else (retOf rlog).length

theorem curOf_snoc (log : List ROut) (x : ROut) : curOf (log ++ [x]) = curStep (curOf log) x := by
  simp [curOf, List.foldl_append]

theorem foldl_curStep_fst (log : List ROut) : ∀ init : Nat × Nat,
    (log.foldl curStep init).1 = init.1 + (retOf log).length := by
  induction log with
  | nil => intro init; simp [retOf]
  | cons x log ih =>
    intro init
    obtain ⟨C, L⟩ := init
    rw [List.foldl_cons, ih]
    cases x with
    | hasNext l b => simp [curStep, retOf, List.filterMap_cons, retSel]
    | read l m =>
      cases l with
      | false =>
        by_cases hm : m = []
        · simp [curStep, retOf, List.filterMap_cons, retSel, hm]
        · simp [curStep, retOf, List.filterMap_cons, retSel, hm]; omega
      | true =>
        by_cases hm : m = []
        · simp [curStep, retOf, List.filterMap_cons, retSel, hm]
        · simp [curStep, retOf, List.filterMap_cons, retSel, hm]

theorem curOf_fst (log : List ROut) : (curOf log).1 = (retOf log).length := by
  unfold curOf; rw [foldl_curStep_fst]; simp

theorem laOf_hasNext (log : List ROut) (l b : Bool) : laOf (log ++ [.hasNext l b]) = laOf log := by
  unfold laOf; rw [curOf_snoc]; rfl

theorem laOf_la_nil (log : List ROut) : laOf (log ++ [.read true []]) = laOf log := by
  unfold laOf; rw [curOf_snoc]; rfl

theorem laOf_la_msg (log : List ROut) {m : Bytes} (h : m ≠ []) :
    laOf (log ++ [.read true m]) = laOf log + 1 := by
  unfold laOf; rw [curOf_snoc]
  rcases hc : curOf log with ⟨C, L⟩
  simp [curStep, h]

theorem laOf_rd_nil (log : List ROut) : laOf (log ++ [.read false []]) = (retOf log).length := by
  unfold laOf; rw [curOf_snoc, ← curOf_fst]
  rcases hc : curOf log with ⟨C, L⟩
  simp [curStep]

theorem laOf_rd_msg (log : List ROut) {m : Bytes} (h : m ≠ []) :
    laOf (log ++ [.read false m]) = (retOf log).length + 1 := by
  unfold laOf; rw [curOf_snoc, ← curOf_fst]
  rcases hc : curOf log with ⟨C, L⟩
  simp [curStep, h]

/-! ### what the log says -/

/-- every completed read that returned a message returned the published message its cursor
    pointed at: `read` the first not yet consumed, `read_lookahead` the one at the lookahead
    cursor (both cursors as the bounded FIFO computes them from the preceding results) -/
def LogOk (P : List Bytes) (log : List ROut) : Prop :=
  ∀ i l m, log[i]? = some (.read l m) → m ≠ [] → P[curAt l (log.take i)]? = some m

theorem LogOk.nil (P : List Bytes) : LogOk P [] := by
  intro i l m h; simp at h

theorem LogOk.mono {P : List Bytes} {log : List ROut} (ext : List Bytes) (h : LogOk P log) :
    LogOk (P ++ ext) log := by
  intro i l m h1 h2
  have := h i l m h1 h2
  have hlt : curAt l (log.take i) < P.length := by
    rcases Nat.lt_or_ge (curAt l (log.take i)) P.length with h' | h'
    · exact h'
    · rw [List.getElem?_eq_none h'] at this; cases this
  rw [List.getElem?_append_left hlt]; exact this

theorem LogOk.snoc {P : List Bytes} {log : List ROut} {x : ROut} (h : LogOk P log)
    (hx : ∀ l m, x = .read l m → m ≠ [] → P[curAt l log]? = some m) : LogOk P (log ++ [x]) := by
  intro i l m h1 h2
  rcases Nat.lt_trichotomy i log.length with hi | hi | hi
  · rw [List.getElem?_append_left hi] at h1
    rw [List.take_append_of_le_length (Nat.le_of_lt hi)]
    exact h i l m h1 h2
  · subst hi
    rw [List.getElem?_append_right (Nat.le_refl _)] at h1
    simp only [Nat.sub_self, List.getElem?_cons_zero, Option.some.injEq] at h1
    rw [List.take_left' rfl]
    exact hx l m h1 h2
  · rw [List.getElem?_eq_none (by simp; omega)] at h1; cases h1

theorem LogOk.snoc_other {P : List Bytes} {log : List ROut} (h : LogOk P log) (l b : Bool) :
    LogOk P (log ++ [.hasNext l b]) :=
  h.snoc (by intro l' m e; cases e)

/-! ### positions are determined by their ring offsets -/

theorem offs_append_list {P : List Bytes} {n : Nat} (ext : List Bytes) (h : n ≤ P.length) :
    offs (P ++ ext) n = offs P n := by
  unfold offs; rw [List.take_append_of_le_length h]

theorem offs_mod_inj {P : List Bytes} {N a b lo : Nat} (hne : ∀ m ∈ P, m ≠ [])
    (hwin : P.flatten.length + 1 ≤ offs P lo + N)
    (ha : lo ≤ a) (ha' : a ≤ P.length) (hb : lo ≤ b) (hb' : b ≤ P.length)
    (h : offs P a % N = offs P b % N) : a = b := by
  have key : ∀ a b, lo ≤ a → a < b → b ≤ P.length → offs P a % N ≠ offs P b % N := by
    intro a b h1 h2 h3
    have := offs_lt_of_lt hne h2 h3
    have := offs_le_total P b
    have : offs P lo ≤ offs P a := offs_mono h1
    exact mod_ne_of_lt_of_lt (by omega) (by omega)
  rcases Nat.lt_trichotomy a b with h' | h' | h'
  · exact absurd h (key a b ha h' hb')
  · exact h'
  · exact absurd h.symm (key b a hb h' ha')

/-- the reader's part of the invariant holds for *every* cursor value that is consistent
    with the concrete `read_lookahead` offset (there is only one) -/
theorem InvC.rinv_at {frame : Bytes → Nat} {IsMsg : Bytes → Prop} (fr : Framing frame IsMsg)
    {N maxMsg buf w r wops wpc P rpc la rbuf Rt fault}
    (inv : InvC frame IsMsg N maxMsg buf w r wops wpc P rpc la rbuf Rt fault) {L : Nat}
    (h1 : Rt.length ≤ L) (h2 : L ≤ P.length) (h3 : la = offs P L % N) :
    RInv P Rt.length L N rbuf rpc := by
  obtain ⟨L', k1, k2, k3, k4⟩ := inv.hreader
  have hsp := inv.hspace
  have : L' = L := offs_mod_inj (lo := Rt.length) (N := N) (fun m hm => fr.ne m (inv.hP m hm).1) (by omega)
    k1 k2 h1 h2 (by rw [← k3, ← h3])
  subst this
  exact k4

/-! ### what a step leaves alone -/

theorem rStep_static {frame : Bytes → Nat} {s s' : Conc} {e : Ev} (h : s.rStep frame = some (s', e)) :
    s'.N = s.N ∧ ∃ ext, s'.rlog = s.rlog ++ ext := by
  unfold Conc.rStep at h
  cases hpc : s.rpc with
  | idle =>
    rw [hpc] at h
    simp only at h
    cases hops : s.rops with
    | nil => rw [hops] at h; simp at h
    | cons op rest =>
      rw [hops] at h
      cases op with
      | hasNext l =>
        simp only [Option.some.injEq, Prod.mk.injEq] at h
        obtain ⟨rfl, -⟩ := h
        exact ⟨rfl, _, rfl⟩
      | read l =>
        simp only [Option.some.injEq, Prod.mk.injEq] at h
        obtain ⟨rfl, -⟩ := h
        exact ⟨rfl, [], (List.append_nil _).symm⟩
  | framing l wv =>
    rw [hpc] at h
    simp only at h
    generalize readVector s.buf s.N wv (if l = true then s.la else s.r) = rv at h
    obtain ⟨d0, d1, ok⟩ := rv
    simp only at h
    split at h
    · simp only [Option.some.injEq, Prod.mk.injEq] at h
      obtain ⟨rfl, -⟩ := h
      exact ⟨rfl, _, rfl⟩
    · simp only [Option.some.injEq, Prod.mk.injEq] at h
      obtain ⟨rfl, -⟩ := h
      exact ⟨rfl, [], (List.append_nil _).symm⟩
  | copying l len k =>
    rw [hpc] at h
    simp only at h
    split at h
    · generalize chunkAt s.N (if l = true then s.la else s.r) len s.chunk k = oc at h
      obtain ⟨off, c⟩ := oc
      simp only at h
      generalize slice s.buf off c = sl at h
      obtain ⟨bytes, ok1⟩ := sl
      simp only at h
      generalize blit s.rbuf k bytes = bl at h
      obtain ⟨rb, ok2⟩ := bl
      simp only at h
      split at h
      · simp only [Option.some.injEq, Prod.mk.injEq] at h
        obtain ⟨rfl, -⟩ := h
        exact ⟨rfl, _, rfl⟩
      · simp only [Option.some.injEq, Prod.mk.injEq] at h
        obtain ⟨rfl, -⟩ := h
        exact ⟨rfl, [], (List.append_nil _).symm⟩
    · split at h
      · cases h
      · simp only [Option.some.injEq, Prod.mk.injEq] at h
        obtain ⟨rfl, -⟩ := h
        exact ⟨rfl, _, rfl⟩

theorem wStep_reader {frame : Bytes → Nat} {s s' : Conc} {e : Ev} (h : s.wStep frame = some (s', e)) :
    s'.rlog = s.rlog ∧ s'.rpc = s.rpc ∧ s'.rops = s.rops ∧ s'.la = s.la ∧ s'.r = s.r ∧ s'.N = s.N ∧
    ∃ ext, pubOf s'.wlog = pubOf s.wlog ++ ext := by
  unfold Conc.wStep at h
  cases hpc : s.wpc with
  | idle =>
    rw [hpc] at h
    simp only at h
    cases hops : s.wops with
    | nil => rw [hops] at h; simp at h
    | cons op rest =>
      rw [hops] at h
      simp only at h
      split at h
      · simp only [Option.some.injEq, Prod.mk.injEq] at h
        obtain ⟨rfl, -⟩ := h
        exact ⟨rfl, rfl, rfl, rfl, rfl, rfl, [], (List.append_nil _).symm⟩
      · simp only [Option.some.injEq, Prod.mk.injEq] at h
        obtain ⟨rfl, -⟩ := h
        refine ⟨rfl, rfl, rfl, rfl, rfl, rfl, [], ?_⟩
        show pubOf (wSkip frame s.maxMsg rest (s.wlog ++ [((wData frame s.maxMsg op).1, false)])).2 = _
        rw [(wSkip_spec frame s.maxMsg rest _).1, pubOf_append_false, List.append_nil]
  | copying m data k =>
    rw [hpc] at h
    simp only at h
    split at h
    · generalize chunkAt s.N s.w data.length s.chunk k = oc at h
      obtain ⟨off, c⟩ := oc
      simp only at h
      generalize blit s.buf off ((data.drop k).take c) = bo at h
      obtain ⟨b, ok⟩ := bo
      simp only [Option.some.injEq, Prod.mk.injEq] at h
      obtain ⟨rfl, -⟩ := h
      exact ⟨rfl, rfl, rfl, rfl, rfl, rfl, [], (List.append_nil _).symm⟩
    · simp only [Option.some.injEq, Prod.mk.injEq] at h
      obtain ⟨rfl, -⟩ := h
      refine ⟨rfl, rfl, rfl, rfl, rfl, rfl, ?_⟩
      show ∃ ext, pubOf (wSkip frame s.maxMsg s.wops (s.wlog ++ [if data = [] then (m, false) else (data, true)])).2 = _
      rw [(wSkip_spec frame s.maxMsg s.wops _).1]
      by_cases hd : data = []
      · rw [if_pos hd, pubOf_append_false]; exact ⟨[], (List.append_nil _).symm⟩
      · rw [if_neg hd, pubOf_append_true]; exact ⟨_, rfl⟩

/-! ### the two interesting reader steps, in terms of published messages -/

/-- the message the view `[X, j)` of the published messages starts with (`[]` if it is empty) -/
def headAt (P : List Bytes) (j X : Nat) : Bytes := ((P.take j)[X]?).getD []

theorem headAt_lt {P : List Bytes} {j X : Nat} (h : X < j) (hj : j ≤ P.length) :
    headAt P j X = P[X]'(by omega) := by
  unfold headAt
  rw [List.getElem?_take, if_pos h, List.getElem?_eq_getElem (by omega)]; rfl

theorem headAt_ge {P : List Bytes} {j X : Nat} (h : j ≤ X) : headAt P j X = [] := by
  unfold headAt
  rw [List.getElem?_take, if_neg (by omega)]; rfl

/-- the framing step (`rtosc_message_ring_length` on the ring view): `j` = number of messages
    that were published when the write index was loaded, `L` = lookahead cursor -/
theorem frame_step {frame : Bytes → Nat} {IsMsg : Bytes → Prop} (fr : Framing frame IsMsg)
    {s s' : Conc} {e : Ev} (inv : Inv frame IsMsg s) {l : Bool} {wv : Nat}
    (hpc : s.rpc = .framing l wv) {L j : Nat}
    (hL1 : (retOf s.rlog).length ≤ L) (hL3 : s.la = offs (pubOf s.wlog) L % s.N)
    (hj1 : (if l = true then L else (retOf s.rlog).length) ≤ j) (hj2 : j ≤ (pubOf s.wlog).length)
    (hj3 : wv = offs (pubOf s.wlog) j % s.N)
    (h : s.rStep frame = some (s', e)) :
    s'.rops = s.rops ∧ s'.la = s.la ∧ s'.r = s.r ∧
    ((l = true ∧ headAt (pubOf s.wlog) j L = [] ∧ s'.rpc = .idle ∧ s'.rlog = s.rlog ++ [.read true []]) ∨
     (s'.rpc = .copying l
        (headAt (pubOf s.wlog) j (if l = true then L else (retOf s.rlog).length)).length 0 ∧
      s'.rlog = s.rlog)) := by
  unfold Inv at inv
  unfold Conc.rStep at h
  have hN := inv.hN
  have hC := inv.hC
  have hprog := inv.prog_le
  have hoffC := offs_le_total (pubOf s.wlog) (retOf s.rlog).length
  rw [hpc] at h
  simp only at h
  have hXC : (retOf s.rlog).length ≤ (if l = true then L else (retOf s.rlog).length) := by
    split <;> omega
  have hxX : (if l = true then s.la else s.r) =
      offs (pubOf s.wlog) (if l = true then L else (retOf s.rlog).length) % s.N := by
    cases l
    · simpa using inv.hr
    · simpa using hL3
  generalize hXdef : (if l = true then L else (retOf s.rlog).length) = X at *
  generalize hxdef : (if l = true then s.la else s.r) = x at *
  have ho1 : offs (pubOf s.wlog) (retOf s.rlog).length ≤ offs (pubOf s.wlog) X := offs_mono hXC
  have ho2 : offs (pubOf s.wlog) X ≤ offs (pubOf s.wlog) j := offs_mono hj1
  have ho3 : offs (pubOf s.wlog) j ≤ (pubOf s.wlog).flatten.length := offs_le_total _ _
  have hsp := inv.hspace
  have hwv : wv = (offs (pubOf s.wlog) X + (offs (pubOf s.wlog) j - offs (pubOf s.wlog) X)) % s.N := by
    rw [hj3]; congr 1; omega
  have hview := readVector_holds (A := offs (pubOf s.wlog) X)
    (V := offs (pubOf s.wlog) j - offs (pubOf s.wlog) X) hN inv.hbuf (by omega)
    (inv.hcontent.mono ho1 (by omega)) (by rw [List.length_append]; omega)
  rw [← hwv, ← hxX, stream_view _ hj1] at hview
  generalize readVector s.buf s.N wv x = rv at h hview
  obtain ⟨d0, d1, ok⟩ := rv
  simp only at h hview
  obtain ⟨hok, hv⟩ := hview
  subst hok
  have hlen : frame (d0 ++ d1) = (headAt (pubOf s.wlog) j X).length := by
    by_cases hXj : X < j
    · rw [headAt_lt hXj hj2, hv, view_head hXj hj2]
      exact fr.msg _ _ (inv.hP _ (List.getElem_mem _)).1
    · have : X = j := by omega
      subst this
      have hnil : ((pubOf s.wlog).take X).drop X = [] := by
        apply List.drop_eq_nil_of_le; rw [List.length_take]; exact Nat.min_le_left _ _
      have := fr.le (d0 ++ d1)
      rw [hv, hnil] at this
      rw [hv, hnil, headAt_ge (Nat.le_refl _)]
      simpa using this
  generalize frame (d0 ++ d1) = len at h hlen
  have hxlt : x < s.N := by rw [hxX]; exact Nat.mod_lt _ hN
  split at h
  · rename_i hc
    obtain ⟨hl, hlen0⟩ := hc
    subst hl
    simp only [if_true] at hXdef hxdef
    subst hXdef; subst hxdef
    simp only [Option.some.injEq, Prod.mk.injEq] at h
    obtain ⟨rfl, -⟩ := h
    refine ⟨rfl, ?_, rfl, Or.inl ⟨rfl, ?_, rfl, rfl⟩⟩
    · show (s.la + 0) % s.N = s.la
      rw [Nat.add_zero, Nat.mod_eq_of_lt hxlt]
    · exact List.length_eq_zero_iff.mp (by rw [← hlen]; exact hlen0)
  · simp only [Option.some.injEq, Prod.mk.injEq] at h
    obtain ⟨rfl, -⟩ := h
    refine ⟨rfl, rfl, rfl, Or.inr ⟨?_, rfl⟩⟩
    show RPc.copying l len 0 = _
    rw [hlen]

/-- a copying step (`memcpy` out of the ring / the final store of the read index) -/
theorem copy_step {frame : Bytes → Nat} {IsMsg : Bytes → Prop} (fr : Framing frame IsMsg)
    {s s' : Conc} {e : Ev} (inv : Inv frame IsMsg s) {l : Bool} {len k : Nat}
    (hpc : s.rpc = .copying l len k) {L : Nat}
    (hL1 : (retOf s.rlog).length ≤ L) (hL2 : L ≤ (pubOf s.wlog).length)
    (hL3 : s.la = offs (pubOf s.wlog) L % s.N)
    (h : s.rStep frame = some (s', e)) :
    s'.rops = s.rops ∧
    ((∃ k', s'.rpc = .copying l len k' ∧ s'.rlog = s.rlog ∧ s'.la = s.la ∧ s'.r = s.r) ∨
     (l = true ∧ ∃ hx : L < (pubOf s.wlog).length, len = (pubOf s.wlog)[L].length ∧ s'.rpc = .idle ∧
        s'.rlog = s.rlog ++ [.read true (pubOf s.wlog)[L]] ∧ s'.la = (s.la + len) % s.N ∧ s'.r = s.r) ∨
     (l = false ∧ s'.rpc = .idle ∧ s'.r = (s.r + len) % s.N ∧ s'.la = (s.r + len) % s.N ∧
        ((len = 0 ∧ s'.rlog = s.rlog ++ [.read false []]) ∨
         ∃ hx : (retOf s.rlog).length < (pubOf s.wlog).length,
           len = (pubOf s.wlog)[(retOf s.rlog).length].length ∧
           s'.rlog = s.rlog ++ [.read false (pubOf s.wlog)[(retOf s.rlog).length]]))) := by
  unfold Inv at inv
  have hL4 := inv.rinv_at fr hL1 hL2 hL3
  unfold Conc.rStep at h
  have hN := inv.hN
  have hC := inv.hC
  have hprog := inv.prog_le
  have hoffC := offs_le_total (pubOf s.wlog) (retOf s.rlog).length
  rw [hpc] at h hL4
  simp only at h
  obtain ⟨hkle, hmsg⟩ := hL4
  have hXC : (retOf s.rlog).length ≤ (if l = true then L else (retOf s.rlog).length) := by
    split <;> omega
  have hxX : (if l = true then s.la else s.r) =
      offs (pubOf s.wlog) (if l = true then L else (retOf s.rlog).length) % s.N := by
    cases l
    · simpa using inv.hr
    · simpa using hL3
  generalize hXdef : (if l = true then L else (retOf s.rlog).length) = X at *
  generalize hxdef : (if l = true then s.la else s.r) = x at *
  have ho1 : offs (pubOf s.wlog) (retOf s.rlog).length ≤ offs (pubOf s.wlog) X := offs_mono hXC
  have hsp := inv.hspace
  have hxlt : x < s.N := by rw [hxX]; exact Nat.mod_lt _ hN
  split at h
  · -- one memcpy step out of the ring
    rename_i hk
    rcases hmsg with h0 | ⟨hx, hlen, hrb⟩
    · omega
    have htot := getElem_length_le_total hx
    have hmx := (inv.hP _ (List.getElem_mem hx)).2
    have hspec := chunkAt_spec (A := offs (pubOf s.wlog) X) (len := len) (N := s.N) (chunk := s.chunk)
      (k := k) hN (by omega) hk
    rw [← hxX] at hspec
    generalize chunkAt s.N x len s.chunk k = oc at h hspec
    obtain ⟨off, c⟩ := oc
    simp only at h hspec
    obtain ⟨hc0, hc1, hc2, hc3⟩ := hspec
    have hsl := slice_holds (p := offs (pubOf s.wlog) X + k) (c := c) (off := off) inv.hbuf inv.hcontent
      (by omega) (by omega) (by rw [List.length_append]; omega) hc2
      (by intro i hi; rw [Nat.add_assoc]; exact hc3 i hi)
    rw [stream_msg _ hx (by omega)] at hsl
    rw [hsl] at h
    simp only at h
    have hbl : (((pubOf s.wlog)[X].drop k).take c).length = c := by simp; omega
    have hok : k + (((pubOf s.wlog)[X].drop k).take c).length ≤ s.rbuf.length := by
      rw [hbl, inv.hrbuf]; omega
    have hrbt : (blit s.rbuf k (((pubOf s.wlog)[X].drop k).take c)).1.take (k + c) =
        (pubOf s.wlog)[X].take (k + c) := by
      rw [blit_ok hok]
      simp only
      have hl1 : (s.rbuf.take k ++ ((pubOf s.wlog)[X].drop k).take c).length = k + c := by
        rw [List.length_append, hbl, List.length_take]; omega
      rw [List.take_left' hl1, hrb, List.take_add]
    rw [blit_ok hok] at h
    rw [blit_ok hok] at hrbt
    simp only at h hrbt
    split at h
    · -- last chunk of a lookahead read
      rename_i hc
      obtain ⟨hl, hfin⟩ := hc
      subst hl
      have hkc : k + c = len := by omega
      simp only [if_true] at hXdef hxdef
      subst hXdef; subst hxdef
      simp only [Option.some.injEq, Prod.mk.injEq] at h
      obtain ⟨rfl, -⟩ := h
      refine ⟨rfl, Or.inr (Or.inl ⟨rfl, hx, hlen, rfl, ?_, rfl, rfl⟩)⟩
      show s.rlog ++ [ROut.read true (List.take len _)] = _
      rw [← hkc, hrbt, hkc, hlen, List.take_length]
    · simp only [Option.some.injEq, Prod.mk.injEq] at h
      obtain ⟨rfl, -⟩ := h
      exact ⟨rfl, Or.inl ⟨k + c, rfl, rfl, rfl, rfl⟩⟩
  · rename_i hk
    have hkeq : k = len := by omega
    subst hkeq
    cases l with
    | true => simp at h
    | false =>
      simp only [Bool.false_eq_true, if_false] at h hXdef hxdef
      subst hXdef; subst hxdef
      simp only [Option.some.injEq, Prod.mk.injEq] at h
      obtain ⟨rfl, -⟩ := h
      refine ⟨rfl, Or.inr (Or.inr ⟨rfl, rfl, rfl, rfl, ?_⟩)⟩
      rcases hmsg with h0 | ⟨hx, hlen, hrb⟩
      · left
        subst h0
        exact ⟨rfl, by show s.rlog ++ [ROut.read false (List.take 0 s.rbuf)] = _; rw [List.take_zero]⟩
      · right
        refine ⟨hx, hlen, ?_⟩
        show s.rlog ++ [ROut.read false (List.take k s.rbuf)] = _
        rw [hrb, hlen, List.take_length]

/-! ### the log-tied lookahead cursor, carried through every step -/

/-- the concrete lookahead offset is the ring offset of the log-defined cursor `laOf rlog`,
    the cursor lies between the consumed and the published messages, and every completed
    read returned the message at its cursor -/
structure LInv (s : Conc) : Prop where
  hlo : (retOf s.rlog).length ≤ laOf s.rlog
  hhi : laOf s.rlog ≤ (pubOf s.wlog).length
  hla : s.la = offs (pubOf s.wlog) (laOf s.rlog) % s.N
  hlog : LogOk (pubOf s.wlog) s.rlog

theorem wStep_linv {frame : Bytes → Nat} {s s' : Conc} {e : Ev} (li : LInv s)
    (h : s.wStep frame = some (s', e)) : LInv s' := by
  obtain ⟨h1, -, -, h4, -, h6, ext, h7⟩ := wStep_reader h
  have := li.hhi
  exact {
    hlo := by rw [h1]; exact li.hlo
    hhi := by rw [h1, h7, List.length_append]; omega
    hla := by rw [h4, h1, h6, h7, offs_append_list ext li.hhi]; exact li.hla
    hlog := by rw [h1, h7]; exact li.hlog.mono ext }

theorem rStep_idle {frame : Bytes → Nat} {s s' : Conc} {e : Ev} (hpc : s.rpc = .idle)
    (h : s.rStep frame = some (s', e)) :
    s'.la = s.la ∧ s'.r = s.r ∧
    ((∃ l rest, s.rops = .hasNext l :: rest ∧ s'.rpc = .idle ∧ s'.rops = rest ∧
        s'.rlog = s.rlog ++ [.hasNext l (decide (readSize s.w (if l = true then s.la else s.r) s.N ≠ 0))]) ∨
     (∃ l rest, s.rops = .read l :: rest ∧ s'.rpc = .framing l s.w ∧ s'.rops = rest ∧ s'.rlog = s.rlog)) := by
  unfold Conc.rStep at h
  rw [hpc] at h
  simp only at h
  cases hops : s.rops with
  | nil => rw [hops] at h; simp at h
  | cons op rest =>
    rw [hops] at h
    cases op with
    | hasNext l =>
      simp only [Option.some.injEq, Prod.mk.injEq] at h
      obtain ⟨rfl, -⟩ := h
      exact ⟨rfl, rfl, Or.inl ⟨l, rest, rfl, rfl, rfl, rfl⟩⟩
    | read l =>
      simp only [Option.some.injEq, Prod.mk.injEq] at h
      obtain ⟨rfl, -⟩ := h
      exact ⟨rfl, rfl, Or.inr ⟨l, rest, rfl, rfl, rfl, rfl⟩⟩

theorem rStep_linv {frame : Bytes → Nat} {IsMsg : Bytes → Prop} (fr : Framing frame IsMsg)
    {s s' : Conc} {e : Ev} (inv : Inv frame IsMsg s) (li : LInv s)
    (h : s.rStep frame = some (s', e)) : LInv s' := by
  obtain ⟨hw, -, -⟩ := rStep_writer h
  obtain ⟨hNs, -⟩ := rStep_static h
  have hC : (retOf s.rlog).length ≤ (pubOf s.wlog).length := by unfold Inv at inv; exact inv.hC
  have hr : s.r = offs (pubOf s.wlog) (retOf s.rlog).length % s.N := by unfold Inv at inv; exact inv.hr
  have hne : ∀ m ∈ pubOf s.wlog, m ≠ [] := by
    unfold Inv at inv; exact fun m hm => fr.ne m (inv.hP m hm).1
  cases hpc : s.rpc with
  | idle =>
    obtain ⟨hla, -, hcase⟩ := rStep_idle hpc h
    rcases hcase with ⟨l, rest, -, -, -, hlog⟩ | ⟨l, rest, -, -, -, hlog⟩
    · exact {
        hlo := by rw [hlog, retOf_append_hasNext, laOf_hasNext]; exact li.hlo
        hhi := by rw [hlog, hw, laOf_hasNext]; exact li.hhi
        hla := by rw [hla, hlog, hw, hNs, laOf_hasNext]; exact li.hla
        hlog := by rw [hlog, hw]; exact li.hlog.snoc_other _ _ }
    · exact {
        hlo := by rw [hlog]; exact li.hlo
        hhi := by rw [hlog, hw]; exact li.hhi
        hla := by rw [hla, hlog, hw, hNs]; exact li.hla
        hlog := by rw [hlog, hw]; exact li.hlog }
  | framing l wv =>
    have hR : RInv (pubOf s.wlog) (retOf s.rlog).length (laOf s.rlog) s.N s.rbuf s.rpc := by
      unfold Inv at inv; exact inv.rinv_at fr li.hlo li.hhi li.hla
    rw [hpc] at hR
    obtain ⟨j, hj1, hj2, hj3⟩ := hR
    obtain ⟨-, hla, -, hcase⟩ := frame_step fr inv hpc li.hlo li.hla hj1 hj2 hj3 h
    rcases hcase with ⟨-, -, -, hlog⟩ | ⟨-, hlog⟩
    · exact {
        hlo := by rw [hlog, retOf_append_la, laOf_la_nil]; exact li.hlo
        hhi := by rw [hlog, hw, laOf_la_nil]; exact li.hhi
        hla := by rw [hla, hlog, hw, hNs, laOf_la_nil]; exact li.hla
        hlog := by
          rw [hlog, hw]
          refine li.hlog.snoc ?_
          intro l' m e hm
          simp only [ROut.read.injEq] at e
          exact absurd e.2.symm hm }
    · exact {
        hlo := by rw [hlog]; exact li.hlo
        hhi := by rw [hlog, hw]; exact li.hhi
        hla := by rw [hla, hlog, hw, hNs]; exact li.hla
        hlog := by rw [hlog, hw]; exact li.hlog }
  | copying l len k =>
    obtain ⟨-, hcase⟩ := copy_step fr inv hpc li.hlo li.hhi li.hla h
    rcases hcase with ⟨k', -, hlog, hla, -⟩ | ⟨-, hx, hlen, -, hlog, hla, -⟩ | ⟨-, -, -, hla, hfin⟩
    · exact {
        hlo := by rw [hlog]; exact li.hlo
        hhi := by rw [hlog, hw]; exact li.hhi
        hla := by rw [hla, hlog, hw, hNs]; exact li.hla
        hlog := by rw [hlog, hw]; exact li.hlog }
    · have hm : (pubOf s.wlog)[laOf s.rlog] ≠ [] := hne _ (List.getElem_mem hx)
      have := li.hlo
      exact {
        hlo := by rw [hlog, retOf_append_la, laOf_la_msg _ hm]; omega
        hhi := by rw [hlog, hw, laOf_la_msg _ hm]; omega
        hla := by
          rw [hla, hlog, hw, hNs, laOf_la_msg _ hm, li.hla, Nat.mod_add_mod, offs_succ hx, hlen]
        hlog := by
          rw [hlog, hw]
          refine li.hlog.snoc ?_
          intro l' m e _
          simp only [ROut.read.injEq] at e
          obtain ⟨rfl, rfl⟩ := e
          simp only [curAt, if_true]
          exact List.getElem?_eq_getElem hx }
    · rcases hfin with ⟨hlen, hlog⟩ | ⟨hx, hlen, hlog⟩
      · exact {
          hlo := by rw [hlog, retOf_append_nil, laOf_rd_nil]; exact Nat.le_refl _
          hhi := by rw [hlog, hw, laOf_rd_nil]; exact hC
          hla := by
            rw [hla, hlog, hw, hNs, laOf_rd_nil, hlen, Nat.add_zero, hr, Nat.mod_mod]
          hlog := by
            rw [hlog, hw]
            refine li.hlog.snoc ?_
            intro l' m e hm
            simp only [ROut.read.injEq] at e
            exact absurd e.2.symm hm }
      · have hm : (pubOf s.wlog)[(retOf s.rlog).length] ≠ [] := hne _ (List.getElem_mem hx)
        exact {
          hlo := by rw [hlog, retOf_append_msg _ hm, laOf_rd_msg _ hm]; simp
          hhi := by rw [hlog, hw, laOf_rd_msg _ hm]; omega
          hla := by
            rw [hla, hlog, hw, hNs, laOf_rd_msg _ hm, hr, Nat.mod_add_mod, offs_succ hx, hlen]
          hlog := by
            rw [hlog, hw]
            refine li.hlog.snoc ?_
            intro l' m e _
            simp only [ROut.read.injEq] at e
            obtain ⟨rfl, rfl⟩ := e
            simp only [curAt, Bool.false_eq_true, if_false]
            exact List.getElem?_eq_getElem hx }

theorem step_linv {frame : Bytes → Nat} {IsMsg : Bytes → Prop} (fr : Framing frame IsMsg)
    {s s' : Conc} {e : Ev} (t : Tid) (inv : Inv frame IsMsg s) (li : LInv s)
    (h : s.step frame t = some (s', e)) : LInv s' := by
  cases t with
  | writer => exact wStep_linv li h
  | reader => exact rStep_linv fr inv li h

theorem init_linv (frame : Bytes → Nat) (maxMsg nmsgs chunk : Nat) (wops : List WOp) (rops : List ROp) :
    LInv (Conc.init frame maxMsg nmsgs chunk wops rops) := by
  unfold Conc.init
  generalize wSkip frame maxMsg wops [] = sk
  obtain ⟨ops, log⟩ := sk
  exact {
    hlo := Nat.le_refl _
    hhi := Nat.zero_le _
    hla := by show 0 = offs _ 0 % _; rw [offs_zero, Nat.zero_mod]
    hlog := LogOk.nil _ }

theorem reach_linv {frame : Bytes → Nat} {IsMsg : Bytes → Prop} (fr : Framing frame IsMsg)
    {s0 s : Conc} (h0 : Inv frame IsMsg s0) (l0 : LInv s0) (h : Conc.Reach frame s0 s) : LInv s := by
  induction h with
  | refl => exact l0
  | step t hr hs ih => exact step_linv fr t (reach_inv fr h0 hr) ih hs

/-! ### hasNext / hasNextLookahead at any cursor -/

theorem inv_readSize_at {frame : Bytes → Nat} {IsMsg : Bytes → Prop} (fr : Framing frame IsMsg)
    {s : Conc} (inv : Inv frame IsMsg s) {X x : Nat} (hCX : (retOf s.rlog).length ≤ X)
    (hXP : X ≤ (pubOf s.wlog).length) (hx : x = offs (pubOf s.wlog) X % s.N) :
    readSize s.w x s.N ≠ 0 ↔ X < (pubOf s.wlog).length := by
  unfold Inv at inv
  have hN := inv.hN
  have ho1 : offs (pubOf s.wlog) (retOf s.rlog).length ≤ offs (pubOf s.wlog) X := offs_mono hCX
  have ho2 : offs (pubOf s.wlog) X ≤ (pubOf s.wlog).flatten.length := offs_le_total _ _
  have hsp := inv.hspace
  have hrs : readSize s.w x s.N = (pubOf s.wlog).flatten.length - offs (pubOf s.wlog) X := by
    rw [inv.hw, hx]
    have := readSize_eq (A := offs (pubOf s.wlog) X)
      (D := (pubOf s.wlog).flatten.length - offs (pubOf s.wlog) X) hN (by omega)
    rw [← this]; congr 2; omega
  rw [hrs]
  constructor
  · intro h
    by_cases hlt : X < (pubOf s.wlog).length
    · exact hlt
    · have : X = (pubOf s.wlog).length := by omega
      rw [this, offs_length] at h
      omega
  · intro h
    have := offs_lt_of_lt (fun m hm => fr.ne m (inv.hP m hm).1) h (Nat.le_refl _)
    rw [offs_length] at this
    omega

/-! ### a quiescent state is a sequential ThreadLink whose cursor is the log-defined one -/

theorem Inv.toSeq_at {frame : Bytes → Nat} {IsMsg : Bytes → Prop} {s : Conc} (inv : Inv frame IsMsg s)
    (li : LInv s) (hw : s.wpc = .idle) :
    SInv frame IsMsg s.toSeq (pubOf s.wlog) (retOf s.rlog).length (laOf s.rlog) := by
  unfold Inv at inv
  rw [hw] at inv
  have hsp := inv.hspace
  have hc := inv.hcontent
  simp only [WPc.inflight, WPc.prog, List.length_nil, Nat.add_zero, List.append_nil] at hsp hc
  exact {
    hN := inv.hN, hbuf := inv.hbuf, hrbuf := inv.hrbuf, hfault := inv.hfault, hP := inv.hP
    hCL := li.hlo, hL := li.hhi, hw := inv.hw, hr := inv.hr, hla := li.hla, hspace := hsp, hcontent := hc }

/-! ### one read operation, from its linearisation point to its completion -/

theorem headAt_prefix (P0 ext : List Bytes) (X : Nat) :
    headAt (P0 ++ ext) P0.length X = (P0[X]?).getD [] := by
  unfold headAt; rw [List.take_left' rfl]

theorem getElem_prefix {P0 ext : List Bytes} {X : Nat} (hx : X < (P0 ++ ext).length)
    (h : ((P0[X]?).getD []).length = (P0 ++ ext)[X].length) : (P0 ++ ext)[X] = (P0[X]?).getD [] := by
  by_cases h0 : X < P0.length
  · rw [List.getElem_append_left h0, List.getElem?_eq_getElem h0]; rfl
  · rw [List.getElem?_eq_none (by omega)] at h ⊢
    exact List.length_eq_zero_iff.mp h.symm

theorem getElem_prefix' {P P0 ext : List Bytes} (hP : P = P0 ++ ext) {X : Nat} (hx : X < P.length)
    (h : ((P0[X]?).getD []).length = P[X].length) : P[X] = (P0[X]?).getD [] := by
  subst hP; exact getElem_prefix hx h

/-- The reader has loaded the write index (value `w0`) for a `read(l)` at a moment when the
    published messages were `P0` and its log was `log0`.  Whatever both threads do from there:
    the operation is still framing, or copying a message of the announced length, or it has
    completed and returned `P0[cursor]` — nothing (`[]`) iff the cursor was at the end of `P0`. -/
def Pend (P0 : List Bytes) (log0 : List ROut) (l : Bool) (w0 N0 : Nat) (s : Conc) : Prop :=
  s.N = N0 ∧ (∃ ext, pubOf s.wlog = P0 ++ ext) ∧
  ((s.rlog = log0 ∧ s.rpc = .framing l w0) ∨
   (s.rlog = log0 ∧ ∃ k, s.rpc = .copying l ((P0[curAt l log0]?).getD []).length k) ∨
   (∃ more, s.rlog = log0 ++ .read l ((P0[curAt l log0]?).getD []) :: more))

theorem step_pend {frame : Bytes → Nat} {IsMsg : Bytes → Prop} (fr : Framing frame IsMsg)
    {P0 : List Bytes} {log0 : List ROut} {l : Bool} {w0 N0 : Nat}
    (hX : curAt l log0 ≤ P0.length) (hw0 : w0 = P0.flatten.length % N0)
    {s s' : Conc} {e : Ev} (t : Tid) (inv : Inv frame IsMsg s) (li : LInv s)
    (p : Pend P0 log0 l w0 N0 s) (h : s.step frame t = some (s', e)) : Pend P0 log0 l w0 N0 s' := by
  obtain ⟨pN, ⟨ext, pP⟩, pc⟩ := p
  cases t with
  | writer =>
    obtain ⟨h1, h2, -, -, -, h6, ext', h7⟩ := wStep_reader h
    refine ⟨by rw [h6]; exact pN, ⟨ext ++ ext', by rw [h7, pP, List.append_assoc]⟩, ?_⟩
    rw [h1, h2]; exact pc
  | reader =>
    have h : s.rStep frame = some (s', e) := h
    obtain ⟨hw, -, -⟩ := rStep_writer h
    obtain ⟨hNs, ext', hlog'⟩ := rStep_static h
    refine ⟨by rw [hNs]; exact pN, ⟨ext, by rw [hw]; exact pP⟩, ?_⟩
    rcases pc with ⟨plog, ppc⟩ | ⟨plog, k, ppc⟩ | ⟨more, plog⟩
    · -- framing
      have hj3 : w0 = offs (pubOf s.wlog) P0.length % s.N := by
        rw [pP, offs_append_list ext (Nat.le_refl _), offs_length, pN]; exact hw0
      have hj1 : (if l = true then laOf s.rlog else (retOf s.rlog).length) ≤ P0.length := by
        rw [plog]; exact hX
      obtain ⟨-, -, -, hcase⟩ := frame_step fr inv ppc li.hlo li.hla hj1
        (by rw [pP, List.length_append]; omega) hj3 h
      rw [pP, headAt_prefix, headAt_prefix, plog] at hcase
      rcases hcase with ⟨hl, hnil, -, hlog⟩ | ⟨hrpc, hlog⟩
      · subst hl
        right; right
        refine ⟨[], ?_⟩
        rw [hlog]
        show _ = log0 ++ [ROut.read true ((P0[laOf log0]?).getD [])]
        rw [hnil]
      · right; left
        exact ⟨hlog, 0, hrpc⟩
    · -- copying
      subst plog
      obtain ⟨-, hcase⟩ := copy_step fr inv ppc li.hlo li.hhi li.hla h
      rcases hcase with ⟨k', hrpc, hlog, -, -⟩ | ⟨hl, hx, hlen, -, hlog, -, -⟩ | ⟨hl, -, -, -, hfin⟩
      · right; left
        exact ⟨hlog, k', hrpc⟩
      · subst hl
        right; right
        refine ⟨[], ?_⟩
        rw [hlog]
        simp only [curAt, if_true] at hlen ⊢
        rw [getElem_prefix' pP hx hlen]
      · subst hl
        right; right
        refine ⟨[], ?_⟩
        simp only [curAt, Bool.false_eq_true, if_false] at hfin ⊢
        rcases hfin with ⟨hlen, hlog⟩ | ⟨hx, hlen, hlog⟩
        · rw [hlog, List.length_eq_zero_iff.mp hlen]
        · rw [hlog, getElem_prefix' pP hx hlen]
    · right; right
      exact ⟨more ++ ext', by rw [hlog', plog]; simp⟩

theorem reach_pend {frame : Bytes → Nat} {IsMsg : Bytes → Prop} (fr : Framing frame IsMsg)
    {P0 : List Bytes} {log0 : List ROut} {l : Bool} {w0 N0 : Nat}
    (hX : curAt l log0 ≤ P0.length) (hw0 : w0 = P0.flatten.length % N0)
    {s1 s : Conc} (inv1 : Inv frame IsMsg s1) (li1 : LInv s1) (p1 : Pend P0 log0 l w0 N0 s1)
    (h : Conc.Reach frame s1 s) : Pend P0 log0 l w0 N0 s := by
  induction h with
  | refl => exact p1
  | step t hr hs ih => exact step_pend fr hX hw0 t (reach_inv fr inv1 hr) (reach_linv fr inv1 li1 hr) ih hs

/-- the state right after the load of the write index that starts a `read(l)` -/
theorem pend_start {frame : Bytes → Nat} {IsMsg : Bytes → Prop} {s s1 : Conc} {e : Ev}
    (inv : Inv frame IsMsg s) (li : LInv s) {l : Bool} {rest : List ROp}
    (hpc : s.rpc = .idle) (hop : s.rops = .read l :: rest) (h : s.step frame .reader = some (s1, e)) :
    curAt l s.rlog ≤ (pubOf s.wlog).length ∧ s.w = (pubOf s.wlog).flatten.length % s.N ∧
    Pend (pubOf s.wlog) s.rlog l s.w s.N s1 := by
  have h : s.rStep frame = some (s1, e) := h
  obtain ⟨hw, -, -⟩ := rStep_writer h
  obtain ⟨hNs, -⟩ := rStep_static h
  obtain ⟨-, -, hcase⟩ := rStep_idle hpc h
  have hC : (retOf s.rlog).length ≤ (pubOf s.wlog).length := by unfold Inv at inv; exact inv.hC
  refine ⟨?_, by unfold Inv at inv; exact inv.hw, hNs, ⟨[], by rw [hw, List.append_nil]⟩, ?_⟩
  · unfold curAt; split
    · exact li.hhi
    · exact hC
  · rcases hcase with ⟨l', rest', hop', -⟩ | ⟨l', rest', hop', hrpc, -, hlog⟩
    · rw [hop] at hop'; cases hop'
    · rw [hop] at hop'
      simp only [List.cons.injEq, ROp.read.injEq] at hop'
      obtain ⟨rfl, -⟩ := hop'
      exact Or.inl ⟨hlog, hrpc⟩

/-! ### the cursors are the cursors of the bounded FIFO -/

/-- position of the lookahead cursor (number of published messages in front of it) -/
def Conc.lookahead (s : Conc) : Nat := laOf s.rlog

/-- the published message a `read(l)` issued now looks at -/
def Conc.cursor (s : Conc) (l : Bool) : Nat := curAt l s.rlog

/-- the bounded FIFO that holds the messages `P`, of which `c.1` are consumed, cursor at `c.2` -/
def qAt (cap maxMsg : Nat) (P : List Bytes) (c : Nat × Nat) : Q :=
  { cap := cap, maxMsg := maxMsg, items := P.drop c.1, la := c.2 - c.1 }

def ropOp (l : Bool) : Op := if l then .readLookahead else .read

/-- `curStep` is the cursor arithmetic of `Q.step`, and the message at the cursor is what the
    bounded FIFO returns: a `read`/`read_lookahead` of the queue holding `P` with cursors `(C, L)`
    returns `P[C]?` / `P[L]?` and leaves the queue holding `P` with the cursors `curStep` computes
    from that result. -/
theorem queue_cursor (cap maxMsg : Nat) (P : List Bytes) (hne : ∀ m ∈ P, m ≠ []) (C L : Nat)
    (hCL : C ≤ L) (hL : L ≤ P.length) (l : Bool) :
    Q.step (qAt cap maxMsg P (C, L)) (ropOp l) =
      (qAt cap maxMsg P (curStep (C, L) (.read l ((P[if l = true then L else C]?).getD []))),
       .msg P[if l = true then L else C]?) := by
  cases l with
  | false =>
    simp only [ropOp, Bool.false_eq_true, if_false, Q.step, qAt]
    by_cases hC : C < P.length
    · have hm : P[C] ≠ [] := hne _ (List.getElem_mem hC)
      rw [List.drop_eq_getElem_cons hC, List.getElem?_eq_getElem hC]
      simp [curStep, hm]
    · have hd : P.drop C = [] := List.drop_eq_nil_of_le (by omega)
      rw [hd, List.getElem?_eq_none (by omega)]
      simp [curStep, hd]
  | true =>
    simp only [ropOp, if_true, Q.step, qAt]
    have hget : (P.drop C)[L - C]? = P[L]? := by
      rw [List.getElem?_drop]; congr 1; omega
    rw [hget]
    by_cases hLlt : L < P.length
    · have hm : P[L] ≠ [] := hne _ (List.getElem_mem hLlt)
      rw [List.getElem?_eq_getElem hLlt]
      simp only [Option.getD_some, curStep, hm, if_false]
      congr 2; omega
    · rw [List.getElem?_eq_none (by omega)]
      simp [curStep]

/-- the same for `hasNext` / `hasNextLookahead` -/
theorem queue_hasNext (cap maxMsg : Nat) (P : List Bytes) (C L : Nat) (hCL : C ≤ L) (l : Bool) :
    (Q.step (qAt cap maxMsg P (C, L)) (if l = true then .hasNextLookahead else .hasNext)).2 =
      .bool (decide ((if l = true then L else C) < P.length)) := by
  cases l with
  | false =>
    simp only [Bool.false_eq_true, if_false, Q.step, qAt]
    by_cases hC : C < P.length
    · rw [List.drop_eq_getElem_cons hC]; simp [hC]
    · rw [List.drop_eq_nil_of_le (by omega)]; simp [hC]
  | true =>
    simp only [if_true, Q.step, qAt, List.length_drop]
    congr 1
    apply decide_eq_decide.mpr
    omega

/-! ### a schedule run ends in a reachable state -/

theorem run_reach {frame : Bytes → Nat} {s0 : Conc} (sched : List Tid) :
    ∀ s, Conc.Reach frame s0 s → Conc.Reach frame s0 (Conc.run frame sched s).1 := by
  induction sched with
  | nil => intro s h; exact h
  | cons t ts ih =>
    intro s h
    unfold Conc.run
    cases hs : s.step frame t with
    | none => exact ih s h
    | some p =>
      obtain ⟨s1, e⟩ := p
      exact ih s1 (Conc.Reach.step t h hs)

end Rtosc.Ring
