/-
  C16 — helper lemmas: the iterator / loop structure of the model (Itr.lean, Cmp.lean, Msg.lean)
  on the flat layout `flatList s` computes the specification (Expand.lean) on `expandList s`.
-/
import RtoscModel.Proofs.ArgValOrder
namespace Rtosc.ArgVal
open Rtosc

/-! ### structure lemmas -/

theorem flatList_append (a b : List Item) : flatList (a ++ b) = flatList a ++ flatList b := by
  induction a with
  | nil => simp [flatList]
  | cons x xs ih => simp [flatList, ih]

theorem Item.flat_ne_nil (x : Item) : x.flat ≠ [] := by
  cases x <;> simp [Item.flat]

def Item.isRange : Item → Bool
  | .rep .. => true
  | .range .. => true
  | _ => false

theorem fop32_scalar {r : Option Nat} {v : Cell} (h : fop32 r = .ok v) : v.isScalar = true := by
  cases r <;> simp [fop32] at h; subst h; rfl
theorem fop64_scalar {r : Option Nat} {v : Cell} (h : fop64 r = .ok v) : v.isScalar = true := by
  cases r <;> simp [fop64] at h; subst h; rfl
theorem chk_map_scalar {x : Res Int} {f : Int → Cell} (hf : ∀ n, (f n).isScalar = true) {v : Cell}
    (h : x.map f = .ok v) : v.isScalar = true := by
  cases x <;> simp [Except.map] at h; subst h; exact hf _

theorem add_scalar {a b : Cell} {v : Cell} (h : add a b = some (.ok v)) : v.isScalar = true := by
  simp only [add] at h
  split at h
  · split at h <;> simp at h <;> subst h <;> rfl
  · split at h <;> simp at h
    · exact fop64_scalar h
    · exact fop32_scalar h
    · exact chk_map_scalar (fun _ => rfl) h
    · exact chk_map_scalar (fun _ => rfl) h
    · exact chk_map_scalar (fun _ => rfl) h
    · subst h; rfl
    · subst h; rfl

theorem rangeVal_scalar {d s : Cell} {i : Nat} {v : Cell} (h : rangeVal d s i = .ok v) :
    v.isScalar = true := by
  simp only [rangeVal] at h
  split at h
  · cases h
  · split at h
    · cases h
    · cases h
    · split at h
      · cases h
      · rename_i r hr
        subst h
        exact add_scalar hr

theorem rangeVals_spec (d s : Cell) : ∀ (m i : Nat) (r : List Val), rangeVals d s i m = some r →
    r.length = m ∧ ∀ k, k < m → ∃ v, rangeVal d s (i + k) = .ok v ∧ r[k]? = some (.sc v)
  | 0, i, r, h => by
    simp only [rangeVals, Option.some.injEq] at h; subst h; simp
  | m + 1, i, r, h => by
    simp only [rangeVals] at h
    split at h
    · rename_i v r' hv hr
      simp only [Option.some.injEq] at h; subst h
      obtain ⟨hl, hk⟩ := rangeVals_spec d s m (i + 1) r' hr
      refine ⟨by simp [hl], ?_⟩
      intro k hkm
      cases k with
      | zero => exact ⟨v, by simpa using hv, by simp⟩
      | succ k =>
        obtain ⟨v', h1, h2⟩ := hk k (by omega)
        refine ⟨v', ?_, by simpa using h2⟩
        rw [← h1]; congr 1; omega
    · cases h

/-- what `x.expand = some vx` says, case by case -/
inductive Shape : Item → List Val → Prop
  | val (c : Cell) : c.isScalar = true → Shape (.val c) [.sc c]
  | arr (ety : UInt8) (es : List Item) (vs : List Val) : expandList es = some vs →
      Shape (.arr ety es) [.arr ety vs]
  | repVal (n : Nat) (c : Cell) : 1 ≤ n → c.isScalar = true →
      Shape (.rep n (.val c)) (List.replicate n (.sc c))
  | repArr (n : Nat) (ety : UInt8) (es : List Item) (vs : List Val) : 1 ≤ n → expandList es = some vs →
      Shape (.rep n (.arr ety es)) (List.replicate n (.arr ety vs))
  | range (n : Nat) (d s : Cell) (vx : List Val) : 1 ≤ n → d.isScalar = true → s.isScalar = true →
      vx.length = n →
      (∀ k, k < n → ∃ v, rangeVal d s k = .ok v ∧ vx[k]? = some (.sc v)) →
      Shape (.range n d s) vx

theorem expand_shape {x : Item} {vx : List Val} (h : x.expand = some vx) : Shape x vx := by
  cases x with
  | val c =>
    simp only [Item.expand] at h
    split at h
    · simp only [Option.some.injEq] at h; subst h; exact .val c (by assumption)
    · cases h
  | arr ety es =>
    simp only [Item.expand, Option.map_eq_some_iff] at h
    obtain ⟨vs, h1, h2⟩ := h
    subst h2
    exact .arr ety es vs h1
  | rep n x =>
    cases x with
    | val c =>
      simp only [Item.expand] at h
      split at h
      · rename_i hc
        simp only [Option.some.injEq] at h; subst h; exact .repVal n c hc.1 hc.2
      · cases h
    | arr ety es =>
      simp only [Item.expand] at h
      split at h
      · rename_i hn
        simp only [Option.map_eq_some_iff] at h
        obtain ⟨vs, h1, h2⟩ := h
        subst h2
        exact .repArr n ety es vs hn h1
      · cases h
    | rep _ _ => simp [Item.expand] at h
    | range _ _ _ => simp [Item.expand] at h
  | range n d s =>
    simp only [Item.expand] at h
    split at h
    · rename_i hn
      obtain ⟨hl, hk⟩ := rangeVals_spec d s n 0 vx h
      exact .range n d s vx hn.1 hn.2.1 hn.2.2 hl (by simpa using hk)
    · cases h

theorem Shape.length_pos {x : Item} {vx : List Val} (h : Shape x vx) : 0 < vx.length := by
  cases h with
  | val => simp
  | arr => simp
  | repVal => simp; omega
  | repArr => simp; omega
  | range _ _ _ _ hn _ _ hl => omega

theorem expandList_cons {x : Item} {xs : List Item} {vs : List Val}
    (h : expandList (x :: xs) = some vs) :
    ∃ vx vr, x.expand = some vx ∧ expandList xs = some vr ∧ vs = vx ++ vr := by
  simp only [expandList] at h
  split at h
  · rename_i a b ha hb
    simp only [Option.some.injEq] at h
    exact ⟨a, b, ha, hb, h.symm⟩
  · cases h
end Rtosc.ArgVal
