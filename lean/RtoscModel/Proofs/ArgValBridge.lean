/-
  C16 — helper lemmas: the iterator / loop structure of the model (Itr.lean, Cmp.lean, Msg.lean)
  on the flat layout `flatList s` computes the specification (Expand.lean) on `expandList s`.
-/
import RtoscModel.Proofs.ArgValOrder
namespace Rtosc.ArgVal
open Rtosc

/-! ### structure lemmas -/

theorem flatList_append (a b : List Item) : flatList (a ++ b) = flatList a ++ flatList b := by
  induction a with
  | nil => simp [flatList]
  | cons x xs ih => simp [flatList, ih]

theorem Item.flat_ne_nil (x : Item) : x.flat ≠ [] := by
  cases x <;> simp [Item.flat]

def Item.isRange : Item → Bool
  | .rep .. => true
  | .range .. => true
  | _ => false

theorem fop32_scalar {r : Option Nat} {v : Cell} (h : fop32 r = .ok v) : v.isScalar = true := by
  cases r <;> simp [fop32] at h; subst h; rfl
theorem fop64_scalar {r : Option Nat} {v : Cell} (h : fop64 r = .ok v) : v.isScalar = true := by
  cases r <;> simp [fop64] at h; subst h; rfl
theorem chk_map_scalar {x : Res Int} {f : Int → Cell} (hf : ∀ n, (f n).isScalar = true) {v : Cell}
    (h : x.map f = .ok v) : v.isScalar = true := by
  cases x <;> simp [Except.map] at h; subst h; exact hf _

theorem add_scalar {a b : Cell} {v : Cell} (h : add a b = some (.ok v)) : v.isScalar = true := by
  simp only [add] at h
  split at h
  · split at h <;> simp at h <;> subst h <;> rfl
  · split at h <;> simp at h
    · exact fop64_scalar h
    · exact fop32_scalar h
    · exact chk_map_scalar (fun _ => rfl) h
    · exact chk_map_scalar (fun _ => rfl) h
    · exact chk_map_scalar (fun _ => rfl) h
    · subst h; rfl
    · subst h; rfl

theorem rangeVal_scalar {d s : Cell} {i : Nat} {v : Cell} (h : rangeVal d s i = .ok v) :
    v.isScalar = true := by
  simp only [rangeVal] at h
  split at h
  · cases h
  · split at h
    · cases h
    · cases h
    · split at h
      · cases h
      · rename_i r hr
        subst h
        exact add_scalar hr

theorem rangeVals_spec (d s : Cell) : ∀ (m i : Nat) (r : List Val), rangeVals d s i m = some r →
    r.length = m ∧ ∀ k, k < m → ∃ v, rangeVal d s (i + k) = .ok v ∧ r[k]? = some (.sc v)
  | 0, i, r, h => by
    simp only [rangeVals, Option.some.injEq] at h; subst h; simp
  | m + 1, i, r, h => by
    simp only [rangeVals] at h
    split at h
    · rename_i v r' hv hr
      simp only [Option.some.injEq] at h; subst h
      obtain ⟨hl, hk⟩ := rangeVals_spec d s m (i + 1) r' hr
      refine ⟨by simp [hl], ?_⟩
      intro k hkm
      cases k with
      | zero => exact ⟨v, by simpa using hv, by simp⟩
      | succ k =>
        obtain ⟨v', h1, h2⟩ := hk k (by omega)
        refine ⟨v', ?_, by simpa using h2⟩
        rw [← h1]; congr 1; omega
    · cases h

/-- what `x.expand = some vx` says, case by case -/
inductive Shape : Item → List Val → Prop
  | val (c : Cell) : c.isScalar = true → Shape (.val c) [.sc c]
  | arr (ety : UInt8) (es : List Item) (vs : List Val) : expandList es = some vs →
      Shape (.arr ety es) [.arr ety vs]
  | repVal (n : Nat) (c : Cell) : 1 ≤ n → c.isScalar = true →
      Shape (.rep n (.val c)) (List.replicate n (.sc c))
  | repArr (n : Nat) (ety : UInt8) (es : List Item) (vs : List Val) : 1 ≤ n → expandList es = some vs →
      Shape (.rep n (.arr ety es)) (List.replicate n (.arr ety vs))
  | range (n : Nat) (d s : Cell) (vx : List Val) : 1 ≤ n → d.isScalar = true → s.isScalar = true →
      vx.length = n →
      (∀ k, k < n → ∃ v, rangeVal d s k = .ok v ∧ vx[k]? = some (.sc v)) →
      Shape (.range n d s) vx

theorem expand_shape {x : Item} {vx : List Val} (h : x.expand = some vx) : Shape x vx := by
  cases x with
  | val c =>
    simp only [Item.expand] at h
    split at h
    · simp only [Option.some.injEq] at h; subst h; exact .val c (by assumption)
    · cases h
  | arr ety es =>
    simp only [Item.expand, Option.map_eq_some_iff] at h
    obtain ⟨vs, h1, h2⟩ := h
    subst h2
    exact .arr ety es vs h1
  | rep n x =>
    cases x with
    | val c =>
      simp only [Item.expand] at h
      split at h
      · rename_i hc
        simp only [Option.some.injEq] at h; subst h; exact .repVal n c hc.1 hc.2
      · cases h
    | arr ety es =>
      simp only [Item.expand] at h
      split at h
      · rename_i hn
        simp only [Option.map_eq_some_iff] at h
        obtain ⟨vs, h1, h2⟩ := h
        subst h2
        exact .repArr n ety es vs hn h1
      · cases h
    | rep _ _ => simp [Item.expand] at h
    | range _ _ _ => simp [Item.expand] at h
  | range n d s =>
    simp only [Item.expand] at h
    split at h
    · rename_i hn
      obtain ⟨hl, hk⟩ := rangeVals_spec d s n 0 vx h
      exact .range n d s vx hn.1 hn.2.1 hn.2.2 hl (by simpa using hk)
    · cases h

theorem Shape.length_pos {x : Item} {vx : List Val} (h : Shape x vx) : 0 < vx.length := by
  cases h with
  | val => simp
  | arr => simp
  | repVal => simp; omega
  | repArr => simp; omega
  | range _ _ _ _ hn _ _ hl => omega

theorem expandList_cons {x : Item} {xs : List Item} {vs : List Val}
    (h : expandList (x :: xs) = some vs) :
    ∃ vx vr, x.expand = some vx ∧ expandList xs = some vr ∧ vs = vx ++ vr := by
  simp only [expandList] at h
  split at h
  · rename_i a b ha hb
    simp only [Option.some.injEq] at h
    exact ⟨a, b, ha, hb, h.symm⟩
  · cases h
/-! ### the iterator on a flat layout -/

/-- the pointer `p` (a suffix of some cell list) points to the value `v` -/
inductive Denotes : List Cell → Val → Prop
  | sc (c : Cell) (rest : List Cell) : c.isScalar = true → Denotes (c :: rest) (.sc c)
  | arr (ety : UInt8) (es : List Item) (vs : List Val) (rest : List Cell) :
      expandList es = some vs →
      Denotes (.arr ety (flatList es).length :: (flatList es ++ rest)) (.arr ety vs)

/-- The iterator `it`, walking a list of `size` cells, still has to yield exactly `vals`. -/
def Cur (it : Itr) (size : Nat) (vals : List Val) : Prop :=
  (vals = [] ∧ it.i = size ∧ it.rangeI = 0) ∨
  ∃ (x : Item) (rest : List Item) (tail : List Cell) (k : Nat) (vx vrest : List Val),
    Shape x vx ∧ expandList rest = some vrest ∧ k < vx.length ∧ (k = 0 ∨ x.isRange = true) ∧
    it.i + (x.flat ++ flatList rest).length = size ∧
    it.av = x.flat ++ flatList rest ++ tail ∧ it.rangeI = k ∧ vals = vx.drop k ++ vrest

theorem cur_at (rest : List Item) (tail : List Cell) (i size : Nat) (vrest : List Val)
    (h : expandList rest = some vrest) (hs : i + (flatList rest).length = size) :
    Cur ⟨flatList rest ++ tail, i, 0⟩ size vrest := by
  cases rest with
  | nil =>
    simp only [expandList, Option.some.injEq] at h
    subst h
    left; simp [flatList] at hs; simp [hs]
  | cons x xs =>
    obtain ⟨vx, vr, hx, hxs, hv⟩ := expandList_cons h
    right
    refine ⟨x, xs, tail, 0, vx, vr, expand_shape hx, hxs, (expand_shape hx).length_pos, Or.inl rfl, ?_, ?_, rfl, ?_⟩
    · simpa [flatList] using hs
    · simp [flatList]
    · simp [hv]

theorem cur_init (xs : List Item) (tail : List Cell) (vs : List Val) (h : expandList xs = some vs) :
    Cur (Itr.init (flatList xs ++ tail)) (flatList xs).length vs :=
  cur_at xs tail 0 _ vs h (by simp)

theorem Cur.nil_i {it : Itr} {size : Nat} (h : Cur it size []) : it.i = size := by
  rcases h with ⟨_, h, _⟩ | ⟨x, rest, tail, k, vx, vrest, hs, _, hk, _, _, _, _, hv⟩
  · exact h
  · exfalso
    have : (vx.drop k ++ vrest).length = 0 := by rw [← hv]; rfl
    simp at this; omega

theorem asRange_scalar {c : Cell} (h : c.isScalar = true) : c.asRange = none := by
  cases c <;> simp [Cell.isScalar] at h <;> rfl
theorem asArr_scalar {c : Cell} (h : c.isScalar = true) : c.asArr = none := by
  cases c <;> simp [Cell.isScalar] at h <;> rfl

/-- one step of the iterator at a position that still has a value to yield -/
theorem cur_step {it : Itr} {size : Nat} {v : Val} {vs : List Val} (h : Cur it size (v :: vs)) :
    it.i < size ∧
    (∃ c, deref it.av = .ok c ∧ ∀ num hd, c.asRange = some (num, hd) → num ≠ 0) ∧
    (∃ p, it.get = .ok p ∧ Denotes p v) ∧
    (∃ it', it.next = .ok it' ∧ Cur it' size vs) := by
  rcases h with ⟨h, _⟩ | ⟨x, rest, tail, k, vx, vrest, hs, hrest, hk, hk0, hsz, hav, hri, hv⟩
  · cases h
  obtain ⟨av, i, ri⟩ := it
  simp only at hsz hav hri
  have hri' : k = ri := hri.symm
  subst hav hri'
  have hdrop : vx.drop k = vx[k] :: vx.drop (k + 1) := List.drop_eq_getElem_cons hk
  rw [hdrop, List.cons_append, List.cons.injEq] at hv
  obtain ⟨hv1, hv2⟩ := hv
  have hlen : 0 < x.flat.length := List.length_pos_iff.mpr x.flat_ne_nil
  refine ⟨by simp only [List.length_append] at hsz; show i < size; omega, ?_⟩
  subst hv1 hv2
  cases hs with
  | val c hc =>
    have hk' : k = 0 := by simpa using hk
    subst hk'
    simp only [Item.flat, List.cons_append, List.nil_append, List.length_cons] at hsz ⊢
    refine ⟨⟨c, rfl, by simp [asRange_scalar hc]⟩, ⟨c :: (flatList rest ++ tail), ?_, Denotes.sc c _ hc⟩, ?_⟩
    · simp [Itr.get, deref, asRange_scalar hc, bind, Except.bind, pure, Except.pure]
    · refine ⟨⟨flatList rest ++ tail, i + 1, 0⟩, ?_, ?_⟩
      · simp [Itr.next, deref, asRange_scalar hc, asArr_scalar hc, bind, Except.bind, pure, Except.pure]
      · simp only [List.drop_succ_cons, List.drop_nil, List.nil_append]
        exact cur_at rest tail (i + 1) size vrest hrest (by omega)
  | arr ety es ves hes =>
    have hk' : k = 0 := by simpa using hk
    subst hk'
    simp only [Item.flat, List.cons_append, List.length_cons, List.length_append] at hsz ⊢
    refine ⟨⟨_, rfl, by simp [Cell.asRange]⟩,
      ⟨.arr ety (flatList es).length :: (flatList es ++ (flatList rest ++ tail)), ?_, Denotes.arr ety es ves _ hes⟩, ?_⟩
    · simp [Itr.get, deref, Cell.asRange, bind, Except.bind, pure, Except.pure]
    · refine ⟨⟨flatList rest ++ tail, i + (flatList es).length + 1, 0⟩, ?_, ?_⟩
      · simp [Itr.next, deref, Cell.asRange, Cell.asArr, bind, Except.bind, pure, Except.pure]
      · simp only [List.drop_succ_cons, List.drop_nil, List.nil_append]
        exact cur_at rest tail _ size vrest hrest (by omega)
  | repVal n c hn hc =>
    simp only [List.length_replicate] at hk
    simp only [Item.flat, List.cons_append, List.nil_append, List.length_cons] at hsz ⊢
    refine ⟨⟨_, rfl, by simp [Cell.asRange]; omega⟩,
      ⟨c :: (flatList rest ++ tail), ?_, by simp only [List.getElem_replicate]; exact Denotes.sc c _ hc⟩, ?_⟩
    · simp [Itr.get, deref, Cell.asRange, bind, Except.bind, pure, Except.pure]
    · by_cases hlast : k + 1 < n
      · refine ⟨⟨.rep n 0 :: c :: (flatList rest ++ tail), i, k + 1⟩, ?_, ?_⟩
        · have h1 : ¬ ((n : Int) ≤ (k : Int) + 1 ∧ ¬ n = 0) := by omega
          simp [Itr.next, deref, Cell.asRange, bind, Except.bind, pure, Except.pure, h1]
        · right
          exact ⟨.rep n (.val c), rest, tail, k + 1, _, vrest, Shape.repVal n c hn hc, hrest,
            by simpa using hlast, Or.inr rfl, by simp [Item.flat]; omega, by simp [Item.flat], rfl, rfl⟩
      · refine ⟨⟨flatList rest ++ tail, i + 2, 0⟩, ?_, ?_⟩
        · have h1 : ((n : Int) ≤ (k : Int) + 1 ∧ ¬ n = 0) := by omega
          simp [Itr.next, deref, Cell.asRange, asArr_scalar hc, bind, Except.bind, pure, Except.pure, h1]
        · rw [List.drop_eq_nil_of_le (by simp; omega)]
          exact cur_at rest tail _ size vrest hrest (by omega)
  | repArr n ety es ves hn hes =>
    simp only [List.length_replicate] at hk
    simp only [Item.flat, List.cons_append, List.length_cons, List.length_append] at hsz ⊢
    refine ⟨⟨_, rfl, by simp [Cell.asRange]; omega⟩,
      ⟨.arr ety (flatList es).length :: (flatList es ++ (flatList rest ++ tail)), ?_,
        by simp only [List.getElem_replicate]; exact Denotes.arr ety es ves _ hes⟩, ?_⟩
    · simp [Itr.get, deref, Cell.asRange, bind, Except.bind, pure, Except.pure]
    · by_cases hlast : k + 1 < n
      · refine ⟨⟨.rep n 0 :: .arr ety (flatList es).length :: (flatList es ++ (flatList rest ++ tail)), i, k + 1⟩, ?_, ?_⟩
        · have h1 : ¬ ((n : Int) ≤ (k : Int) + 1 ∧ ¬ n = 0) := by omega
          simp [Itr.next, deref, Cell.asRange, bind, Except.bind, pure, Except.pure, h1]
        · right
          exact ⟨.rep n (.arr ety es), rest, tail, k + 1, _, vrest, Shape.repArr n ety es ves hn hes, hrest,
            by simpa using hlast, Or.inr rfl, by simp [Item.flat]; omega, by simp [Item.flat], rfl, rfl⟩
      · refine ⟨⟨flatList rest ++ tail, i + 1 + (flatList es).length + 1, 0⟩, ?_, ?_⟩
        · have h1 : ((n : Int) ≤ (k : Int) + 1 ∧ ¬ n = 0) := by omega
          simp [Itr.next, deref, Cell.asRange, Cell.asArr, bind, Except.bind, pure, Except.pure, h1]
        · rw [List.drop_eq_nil_of_le (by simp; omega)]
          exact cur_at rest tail _ size vrest hrest (by omega)
  | range n d s vx hn hd hs' hl hr =>
    rw [hl] at hk
    obtain ⟨v, hv, hvk⟩ := hr k hk
    have hvk' : vx[k] = .sc v := by
      have := List.getElem?_eq_getElem (l := vx) (i := k) (by omega)
      rw [this] at hvk; simpa using hvk
    simp only [Item.flat, List.cons_append, List.nil_append, List.length_cons] at hsz ⊢
    refine ⟨⟨_, rfl, by simp [Cell.asRange]; omega⟩,
      ⟨[v], ?_, by rw [hvk']; exact Denotes.sc v _ (rangeVal_scalar hv)⟩, ?_⟩
    · simp [Itr.get, deref, Cell.asRange, rangeArg, hv, bind, Except.bind, pure, Except.pure]
    · by_cases hlast : k + 1 < n
      · refine ⟨⟨.rep n 1 :: d :: s :: (flatList rest ++ tail), i, k + 1⟩, ?_, ?_⟩
        · have h1 : ¬ ((n : Int) ≤ (k : Int) + 1 ∧ ¬ n = 0) := by omega
          simp [Itr.next, deref, Cell.asRange, bind, Except.bind, pure, Except.pure, h1]
        · right
          exact ⟨.range n d s, rest, tail, k + 1, _, vrest, Shape.range n d s vx hn hd hs' hl hr, hrest,
            by omega, Or.inr rfl, by simp [Item.flat]; omega, by simp [Item.flat], rfl, rfl⟩
      · refine ⟨⟨flatList rest ++ tail, i + 3, 0⟩, ?_, ?_⟩
        · have h1 : ((n : Int) ≤ (k : Int) + 1 ∧ ¬ n = 0) := by omega
          simp [Itr.next, deref, Cell.asRange, asArr_scalar hs', bind, Except.bind, pure, Except.pure, h1]
        · rw [List.drop_eq_nil_of_le (by omega)]
          exact cur_at rest tail _ size vrest hrest (by omega)

theorem Cur.i_le {it : Itr} {size : Nat} {vals : List Val} (h : Cur it size vals) : it.i ≤ size := by
  cases vals with
  | nil => exact Nat.le_of_eq h.nil_i
  | cons v vs => exact Nat.le_of_lt (cur_step h).1

theorem sideDone_cur {it : Itr} {size : Nat} {vals : List Val} (h : Cur it size vals) :
    sideDone it size = .ok vals.isEmpty := by
  cases vals with
  | nil => simp [sideDone, h.nil_i, pure, Except.pure]
  | cons v vs =>
    obtain ⟨hi, ⟨c, hc, hnum⟩, _, _⟩ := cur_step h
    have : ¬ it.i = size := by omega
    simp only [sideDone, this, ↓reduceIte, hc, bind, Except.bind, List.isEmpty_cons]
    cases hr : c.asRange with
    | none => simp [pure, Except.pure]
    | some nh =>
      obtain ⟨num, hd⟩ := nh
      have := hnum num hd hr
      simp [pure, Except.pure, this]

theorem eqAfterAbort_cur {l r : Itr} {ls rs : Nat} {vl vr : List Val} (hl : Cur l ls vl)
    (hr : Cur r rs vr) : eqAfterAbort l r ls rs = .ok (vl.isEmpty && vr.isEmpty) := by
  simp only [eqAfterAbort, sideDone_cur hl, sideDone_cur hr, bind, Except.bind]
  cases vl.isEmpty <;> simp [pure, Except.pure]

theorem hasNext_cur {l r : Itr} {ls rs : Nat} {vl vr : List Val} (hl : Cur l ls vl)
    (hr : Cur r rs vr) : hasNext l r ls rs = .ok (!vl.isEmpty && !vr.isEmpty) := by
  cases vl with
  | nil => simp [hasNext, hl.nil_i, pure, Except.pure]
  | cons v vs =>
    obtain ⟨hi, ⟨c, hc, hnum⟩, _, _⟩ := cur_step hl
    cases vr with
    | nil => simp [hasNext, hi, hr.nil_i, pure, Except.pure]
    | cons w ws =>
      obtain ⟨hi', ⟨c', hc', hnum'⟩, _, _⟩ := cur_step hr
      simp only [hasNext, hi, hi', ↓reduceIte, hc, hc', bind, Except.bind, List.isEmpty_cons]
      cases h1 : c.asRange with
      | none => simp [pure, Except.pure]
      | some nh =>
        obtain ⟨num, hd⟩ := nh
        cases h2 : c'.asRange with
        | none => simp [pure, Except.pure]
        | some nh' =>
          obtain ⟨num', hd'⟩ := nh'
          have := hnum num hd h1
          simp [pure, Except.pure, this]
end Rtosc.ArgVal
