/-
  C16 — helper lemmas: the iterator / loop structure of the model (Itr.lean, Cmp.lean, Msg.lean)
  on the flat layout `flatList s` computes the specification (Expand.lean) on `expandList s`.
-/
import RtoscModel.Proofs.ArgValOrder
namespace Rtosc.ArgVal
open Rtosc

/-! ### structure lemmas -/

theorem flatList_append (a b : List Item) : flatList (a ++ b) = flatList a ++ flatList b := by
  induction a with
  | nil => simp [flatList]
  | cons x xs ih => simp [flatList, ih]

theorem Item.flat_ne_nil (x : Item) : x.flat ≠ [] := by
  cases x <;> simp [Item.flat]

def Item.isRange : Item → Bool
  | .rep .. => true
  | .range .. => true
  | _ => false

theorem fop32_scalar {r : Option Nat} {v : Cell} (h : fop32 r = .ok v) : v.isScalar = true := by
  cases r <;> simp [fop32] at h; subst h; rfl
theorem fop64_scalar {r : Option Nat} {v : Cell} (h : fop64 r = .ok v) : v.isScalar = true := by
  cases r <;> simp [fop64] at h; subst h; rfl
theorem add_scalar {a b : Cell} {v : Cell} (h : add a b = some (.ok v)) : v.isScalar = true := by
  simp only [add] at h
  split at h
  · split at h <;> simp at h <;> subst h <;> rfl
  · split at h <;> simp at h
    · exact fop64_scalar h
    · exact fop32_scalar h
    · subst h; rfl
    · subst h; rfl
    · subst h; rfl
    · subst h; rfl
    · subst h; rfl

theorem rangeVal_scalar {d s : Cell} {i : Nat} {v : Cell} (h : rangeVal d s i = .ok v) :
    v.isScalar = true := by
  simp only [rangeVal] at h
  split at h
  · cases h
  · split at h
    · cases h
    · cases h
    · split at h
      · cases h
      · rename_i r hr
        subst h
        exact add_scalar hr

theorem rangeVals_spec (d s : Cell) : ∀ (m i : Nat) (r : List Val), rangeVals d s i m = some r →
    r.length = m ∧ ∀ k, k < m → ∃ v, rangeVal d s (i + k) = .ok v ∧ r[k]? = some (.sc v)
  | 0, i, r, h => by
    simp only [rangeVals, Option.some.injEq] at h; subst h; simp
  | m + 1, i, r, h => by
    simp only [rangeVals] at h
    split at h
    · rename_i v r' hv hr
      simp only [Option.some.injEq] at h; subst h
      obtain ⟨hl, hk⟩ := rangeVals_spec d s m (i + 1) r' hr
      refine ⟨by simp [hl], ?_⟩
      intro k hkm
      cases k with
      | zero => exact ⟨v, by simpa using hv, by simp⟩
      | succ k =>
        obtain ⟨v', h1, h2⟩ := hk k (by omega)
        refine ⟨v', ?_, by simpa using h2⟩
        rw [← h1]; congr 1; omega
    · cases h

/-- what `x.expand = some vx` says, case by case -/
inductive Shape : Item → List Val → Prop
  | val (c : Cell) : c.isScalar = true → Shape (.val c) [.sc c]
  | arr (ety : UInt8) (es : List Item) (vs : List Val) : expandList es = some vs →
      Shape (.arr ety es) [.arr ety vs]
  | repVal (n : Nat) (c : Cell) : 1 ≤ n → c.isScalar = true →
      Shape (.rep n (.val c)) (List.replicate n (.sc c))
  | repArr (n : Nat) (ety : UInt8) (es : List Item) (vs : List Val) : 1 ≤ n → expandList es = some vs →
      Shape (.rep n (.arr ety es)) (List.replicate n (.arr ety vs))
  | range (n : Nat) (d s : Cell) (vx : List Val) : 1 ≤ n → d.isScalar = true → s.isScalar = true →
      vx.length = n →
      (∀ k, k < n → ∃ v, rangeVal d s k = .ok v ∧ vx[k]? = some (.sc v)) →
      Shape (.range n d s) vx

theorem expand_shape {x : Item} {vx : List Val} (h : x.expand = some vx) : Shape x vx := by
  cases x with
  | val c =>
    simp only [Item.expand] at h
    split at h
    · simp only [Option.some.injEq] at h; subst h; exact .val c (by assumption)
    · cases h
  | arr ety es =>
    simp only [Item.expand, Option.map_eq_some_iff] at h
    obtain ⟨vs, h1, h2⟩ := h
    subst h2
    exact .arr ety es vs h1
  | rep n x =>
    cases x with
    | val c =>
      simp only [Item.expand] at h
      split at h
      · rename_i hc
        simp only [Option.some.injEq] at h; subst h; exact .repVal n c hc.1 hc.2
      · cases h
    | arr ety es =>
      simp only [Item.expand] at h
      split at h
      · rename_i hn
        simp only [Option.map_eq_some_iff] at h
        obtain ⟨vs, h1, h2⟩ := h
        subst h2
        exact .repArr n ety es vs hn h1
      · cases h
    | rep _ _ => simp [Item.expand] at h
    | range _ _ _ => simp [Item.expand] at h
  | range n d s =>
    simp only [Item.expand] at h
    split at h
    · rename_i hn
      obtain ⟨hl, hk⟩ := rangeVals_spec d s n 0 vx h
      exact .range n d s vx hn.1 hn.2.1 hn.2.2 hl (by simpa using hk)
    · cases h

theorem Shape.length_pos {x : Item} {vx : List Val} (h : Shape x vx) : 0 < vx.length := by
  cases h with
  | val => simp
  | arr => simp
  | repVal => simp; omega
  | repArr => simp; omega
  | range _ _ _ _ hn _ _ hl => omega

theorem expandList_cons {x : Item} {xs : List Item} {vs : List Val}
    (h : expandList (x :: xs) = some vs) :
    ∃ vx vr, x.expand = some vx ∧ expandList xs = some vr ∧ vs = vx ++ vr := by
  simp only [expandList] at h
  split at h
  · rename_i a b ha hb
    simp only [Option.some.injEq] at h
    exact ⟨a, b, ha, hb, h.symm⟩
  · cases h
/-! ### the iterator on a flat layout -/

/-- the pointer `p` (a suffix of some cell list) points to the value `v` -/
inductive Denotes : List Cell → Val → Prop
  | sc (c : Cell) (rest : List Cell) : c.isScalar = true → Denotes (c :: rest) (.sc c)
  | arr (ety : UInt8) (es : List Item) (vs : List Val) (rest : List Cell) :
      expandList es = some vs →
      Denotes (.arr ety (flatList es).length :: (flatList es ++ rest)) (.arr ety vs)

/-- The iterator `it`, walking a list of `size` cells, still has to yield exactly `vals`. -/
def Cur (it : Itr) (size : Nat) (vals : List Val) : Prop :=
  (vals = [] ∧ it.i = size ∧ it.rangeI = 0) ∨
  ∃ (x : Item) (rest : List Item) (tail : List Cell) (k : Nat) (vx vrest : List Val),
    Shape x vx ∧ expandList rest = some vrest ∧ k < vx.length ∧ (k = 0 ∨ x.isRange = true) ∧
    it.i + (x.flat ++ flatList rest).length = size ∧
    it.av = x.flat ++ flatList rest ++ tail ∧ it.rangeI = k ∧ vals = vx.drop k ++ vrest

theorem cur_at (rest : List Item) (tail : List Cell) (i size : Nat) (vrest : List Val)
    (h : expandList rest = some vrest) (hs : i + (flatList rest).length = size) :
    Cur ⟨flatList rest ++ tail, i, 0⟩ size vrest := by
  cases rest with
  | nil =>
    simp only [expandList, Option.some.injEq] at h
    subst h
    left; simp [flatList] at hs; simp [hs]
  | cons x xs =>
    obtain ⟨vx, vr, hx, hxs, hv⟩ := expandList_cons h
    right
    refine ⟨x, xs, tail, 0, vx, vr, expand_shape hx, hxs, (expand_shape hx).length_pos, Or.inl rfl, ?_, ?_, rfl, ?_⟩
    · simpa [flatList] using hs
    · simp [flatList]
    · simp [hv]

theorem cur_init (xs : List Item) (tail : List Cell) (vs : List Val) (h : expandList xs = some vs) :
    Cur (Itr.init (flatList xs ++ tail)) (flatList xs).length vs :=
  cur_at xs tail 0 _ vs h (by simp)

theorem Cur.nil_i {it : Itr} {size : Nat} (h : Cur it size []) : it.i = size := by
  rcases h with ⟨_, h, _⟩ | ⟨x, rest, tail, k, vx, vrest, hs, _, hk, _, _, _, _, hv⟩
  · exact h
  · exfalso
    have : (vx.drop k ++ vrest).length = 0 := by rw [← hv]; rfl
    simp at this; omega

theorem asRange_scalar {c : Cell} (h : c.isScalar = true) : c.asRange = none := by
  cases c <;> simp [Cell.isScalar] at h <;> rfl
theorem asArr_scalar {c : Cell} (h : c.isScalar = true) : c.asArr = none := by
  cases c <;> simp [Cell.isScalar] at h <;> rfl

/-- one step of the iterator at a position that still has a value to yield -/
theorem cur_step {it : Itr} {size : Nat} {v : Val} {vs : List Val} (h : Cur it size (v :: vs)) :
    it.i < size ∧
    (∃ c, deref it.av = .ok c ∧ ∀ num hd, c.asRange = some (num, hd) → num ≠ 0) ∧
    (∃ p, it.get = .ok p ∧ Denotes p v) ∧
    (∃ it', it.next = .ok it' ∧ Cur it' size vs) := by
  rcases h with ⟨h, _⟩ | ⟨x, rest, tail, k, vx, vrest, hs, hrest, hk, hk0, hsz, hav, hri, hv⟩
  · cases h
  obtain ⟨av, i, ri⟩ := it
  simp only at hsz hav hri
  have hri' : k = ri := hri.symm
  subst hav hri'
  have hdrop : vx.drop k = vx[k] :: vx.drop (k + 1) := List.drop_eq_getElem_cons hk
  rw [hdrop, List.cons_append, List.cons.injEq] at hv
  obtain ⟨hv1, hv2⟩ := hv
  have hlen : 0 < x.flat.length := List.length_pos_iff.mpr x.flat_ne_nil
  refine ⟨by simp only [List.length_append] at hsz; show i < size; omega, ?_⟩
  subst hv1 hv2
  cases hs with
  | val c hc =>
    have hk' : k = 0 := by simpa using hk
    subst hk'
    simp only [Item.flat, List.cons_append, List.nil_append, List.length_cons] at hsz ⊢
    refine ⟨⟨c, rfl, by simp [asRange_scalar hc]⟩, ⟨c :: (flatList rest ++ tail), ?_, Denotes.sc c _ hc⟩, ?_⟩
    · simp [Itr.get, deref, asRange_scalar hc, bind, Except.bind, pure, Except.pure]
    · refine ⟨⟨flatList rest ++ tail, i + 1, 0⟩, ?_, ?_⟩
      · simp [Itr.next, deref, asRange_scalar hc, asArr_scalar hc, bind, Except.bind, pure, Except.pure]
      · simp only [List.drop_succ_cons, List.drop_nil, List.nil_append]
        exact cur_at rest tail (i + 1) size vrest hrest (by omega)
  | arr ety es ves hes =>
    have hk' : k = 0 := by simpa using hk
    subst hk'
    simp only [Item.flat, List.cons_append, List.length_cons, List.length_append] at hsz ⊢
    refine ⟨⟨_, rfl, by simp [Cell.asRange]⟩,
      ⟨.arr ety (flatList es).length :: (flatList es ++ (flatList rest ++ tail)), ?_, Denotes.arr ety es ves _ hes⟩, ?_⟩
    · simp [Itr.get, deref, Cell.asRange, bind, Except.bind, pure, Except.pure]
    · refine ⟨⟨flatList rest ++ tail, i + (flatList es).length + 1, 0⟩, ?_, ?_⟩
      · simp [Itr.next, deref, Cell.asRange, Cell.asArr, bind, Except.bind, pure, Except.pure]
      · simp only [List.drop_succ_cons, List.drop_nil, List.nil_append]
        exact cur_at rest tail _ size vrest hrest (by omega)
  | repVal n c hn hc =>
    simp only [List.length_replicate] at hk
    simp only [Item.flat, List.cons_append, List.nil_append, List.length_cons] at hsz ⊢
    refine ⟨⟨_, rfl, by simp [Cell.asRange]; omega⟩,
      ⟨c :: (flatList rest ++ tail), ?_, by simp only [List.getElem_replicate]; exact Denotes.sc c _ hc⟩, ?_⟩
    · simp [Itr.get, deref, Cell.asRange, bind, Except.bind, pure, Except.pure]
    · by_cases hlast : k + 1 < n
      · refine ⟨⟨.rep n 0 :: c :: (flatList rest ++ tail), i, k + 1⟩, ?_, ?_⟩
        · have h1 : ¬ ((n : Int) ≤ (k : Int) + 1 ∧ ¬ n = 0) := by omega
          simp [Itr.next, deref, Cell.asRange, bind, Except.bind, pure, Except.pure, h1]
        · right
          exact ⟨.rep n (.val c), rest, tail, k + 1, _, vrest, Shape.repVal n c hn hc, hrest,
            by simpa using hlast, Or.inr rfl, by simp [Item.flat]; omega, by simp [Item.flat], rfl, rfl⟩
      · refine ⟨⟨flatList rest ++ tail, i + 2, 0⟩, ?_, ?_⟩
        · have h1 : ((n : Int) ≤ (k : Int) + 1 ∧ ¬ n = 0) := by omega
          simp [Itr.next, deref, Cell.asRange, asArr_scalar hc, bind, Except.bind, pure, Except.pure, h1]
        · rw [List.drop_eq_nil_of_le (by simp; omega)]
          exact cur_at rest tail _ size vrest hrest (by omega)
  | repArr n ety es ves hn hes =>
    simp only [List.length_replicate] at hk
    simp only [Item.flat, List.cons_append, List.length_cons, List.length_append] at hsz ⊢
    refine ⟨⟨_, rfl, by simp [Cell.asRange]; omega⟩,
      ⟨.arr ety (flatList es).length :: (flatList es ++ (flatList rest ++ tail)), ?_,
        by simp only [List.getElem_replicate]; exact Denotes.arr ety es ves _ hes⟩, ?_⟩
    · simp [Itr.get, deref, Cell.asRange, bind, Except.bind, pure, Except.pure]
    · by_cases hlast : k + 1 < n
      · refine ⟨⟨.rep n 0 :: .arr ety (flatList es).length :: (flatList es ++ (flatList rest ++ tail)), i, k + 1⟩, ?_, ?_⟩
        · have h1 : ¬ ((n : Int) ≤ (k : Int) + 1 ∧ ¬ n = 0) := by omega
          simp [Itr.next, deref, Cell.asRange, bind, Except.bind, pure, Except.pure, h1]
        · right
          exact ⟨.rep n (.arr ety es), rest, tail, k + 1, _, vrest, Shape.repArr n ety es ves hn hes, hrest,
            by simpa using hlast, Or.inr rfl, by simp [Item.flat]; omega, by simp [Item.flat], rfl, rfl⟩
      · refine ⟨⟨flatList rest ++ tail, i + 1 + (flatList es).length + 1, 0⟩, ?_, ?_⟩
        · have h1 : ((n : Int) ≤ (k : Int) + 1 ∧ ¬ n = 0) := by omega
          simp [Itr.next, deref, Cell.asRange, Cell.asArr, bind, Except.bind, pure, Except.pure, h1]
        · rw [List.drop_eq_nil_of_le (by simp; omega)]
          exact cur_at rest tail _ size vrest hrest (by omega)
  | range n d s vx hn hd hs' hl hr =>
    rw [hl] at hk
    obtain ⟨v, hv, hvk⟩ := hr k hk
    have hvk' : vx[k] = .sc v := by
      have := List.getElem?_eq_getElem (l := vx) (i := k) (by omega)
      rw [this] at hvk; simpa using hvk
    simp only [Item.flat, List.cons_append, List.nil_append, List.length_cons] at hsz ⊢
    refine ⟨⟨_, rfl, by simp [Cell.asRange]; omega⟩,
      ⟨[v], ?_, by rw [hvk']; exact Denotes.sc v _ (rangeVal_scalar hv)⟩, ?_⟩
    · simp [Itr.get, deref, Cell.asRange, rangeArg, hv, bind, Except.bind, pure, Except.pure]
    · by_cases hlast : k + 1 < n
      · refine ⟨⟨.rep n 1 :: d :: s :: (flatList rest ++ tail), i, k + 1⟩, ?_, ?_⟩
        · have h1 : ¬ ((n : Int) ≤ (k : Int) + 1 ∧ ¬ n = 0) := by omega
          simp [Itr.next, deref, Cell.asRange, bind, Except.bind, pure, Except.pure, h1]
        · right
          exact ⟨.range n d s, rest, tail, k + 1, _, vrest, Shape.range n d s vx hn hd hs' hl hr, hrest,
            by omega, Or.inr rfl, by simp [Item.flat]; omega, by simp [Item.flat], rfl, rfl⟩
      · refine ⟨⟨flatList rest ++ tail, i + 3, 0⟩, ?_, ?_⟩
        · have h1 : ((n : Int) ≤ (k : Int) + 1 ∧ ¬ n = 0) := by omega
          simp [Itr.next, deref, Cell.asRange, asArr_scalar hs', bind, Except.bind, pure, Except.pure, h1]
        · rw [List.drop_eq_nil_of_le (by omega)]
          exact cur_at rest tail _ size vrest hrest (by omega)

theorem Cur.i_le {it : Itr} {size : Nat} {vals : List Val} (h : Cur it size vals) : it.i ≤ size := by
  cases vals with
  | nil => exact Nat.le_of_eq h.nil_i
  | cons v vs => exact Nat.le_of_lt (cur_step h).1

theorem sideDone_cur {it : Itr} {size : Nat} {vals : List Val} (h : Cur it size vals) :
    sideDone it size = .ok vals.isEmpty := by
  cases vals with
  | nil => simp [sideDone, h.nil_i, pure, Except.pure]
  | cons v vs =>
    obtain ⟨hi, ⟨c, hc, hnum⟩, _, _⟩ := cur_step h
    have : ¬ it.i = size := by omega
    simp only [sideDone, this, ↓reduceIte, hc, bind, Except.bind, List.isEmpty_cons]
    cases hr : c.asRange with
    | none => simp [pure, Except.pure]
    | some nh =>
      obtain ⟨num, hd⟩ := nh
      have := hnum num hd hr
      simp [pure, Except.pure, this]

theorem eqAfterAbort_cur {l r : Itr} {ls rs : Nat} {vl vr : List Val} (hl : Cur l ls vl)
    (hr : Cur r rs vr) : eqAfterAbort l r ls rs = .ok (vl.isEmpty && vr.isEmpty) := by
  simp only [eqAfterAbort, sideDone_cur hl, sideDone_cur hr, bind, Except.bind]
  cases vl.isEmpty <;> simp [pure, Except.pure]

theorem hasNext_cur {l r : Itr} {ls rs : Nat} {vl vr : List Val} (hl : Cur l ls vl)
    (hr : Cur r rs vr) : hasNext l r ls rs = .ok (!vl.isEmpty && !vr.isEmpty) := by
  cases vl with
  | nil => simp [hasNext, hl.nil_i, pure, Except.pure]
  | cons v vs =>
    obtain ⟨hi, ⟨c, hc, hnum⟩, _, _⟩ := cur_step hl
    cases vr with
    | nil => simp [hasNext, hi, hr.nil_i, pure, Except.pure]
    | cons w ws =>
      obtain ⟨hi', ⟨c', hc', hnum'⟩, _, _⟩ := cur_step hr
      simp only [hasNext, hi, hi', ↓reduceIte, hc, hc', bind, Except.bind, List.isEmpty_cons]
      cases h1 : c.asRange with
      | none => simp [pure, Except.pure]
      | some nh =>
        obtain ⟨num, hd⟩ := nh
        cases h2 : c'.asRange with
        | none => simp [pure, Except.pure]
        | some nh' =>
          obtain ⟨num', hd'⟩ := nh'
          have := hnum num hd h1
          simp [pure, Except.pure, this]
/-! ### cmp and eq on flat layouts compute the specification -/

theorem cmpScalar_arr_right (c : Cell) (hc : c.isScalar = true) (ety : UInt8) (len len' : Int) :
    cmpScalar c (.arr ety len) = cmpScalar c (.arr ety len') := by
  have := scalar_type_ne_a c hc
  simp [cmpScalar, Cell.type]

theorem cmpScalar_arr_left (c : Cell) (hc : c.isScalar = true) (ety : UInt8) (len len' : Int) :
    cmpScalar (.arr ety len) c = cmpScalar (.arr ety len') c := by
  have := scalar_type_ne_a c hc
  have h' : ¬ tyA = c.type := fun e => this e.symm
  simp [cmpScalar, Cell.type]

theorem asArr_arr (e : UInt8) (l : Int) : (Cell.arr e l).asArr = some (e, l) := rfl

theorem Val.size_pos (v : Val) : 1 ≤ v.size := by
  cases v <;> simp [Val.size] <;> omega

theorem cmpLoop_nonzero {f : Nat} {l r : Itr} {ls rs : Nat} {vl vr : List Val} (hl : Cur l ls vl)
    (hr : Cur r rs vr) (rv : Int) (hrv : rv ≠ 0) : cmpLoop (f + 1) l r ls rs rv = .ok rv := by
  simp only [cmpLoop, hasNext_cur hl hr, bind, Except.bind]
  have : (rv == 0) = false := by simpa using hrv
  simp [this, hrv, pure, Except.pure]

theorem cmp_bridge : ∀ f : Nat,
    (∀ xs ys tx ty vx vy, expandList xs = some vx → expandList ys = some vy →
      Val.sizeList vx + Val.sizeList vy + 2 ≤ f →
      cmp f (flatList xs ++ tx) (flatList ys ++ ty) (flatList xs).length (flatList ys).length
        = .ok (Val.cmpList vx vy)) ∧
    (∀ l r ls rs vl vr, Cur l ls vl → Cur r rs vr → Val.sizeList vl + Val.sizeList vr + 1 ≤ f →
      cmpLoop f l r ls rs 0 = .ok (Val.cmpList vl vr)) ∧
    (∀ p q v w, Denotes p v → Denotes q w → v.size + w.size ≤ f →
      cmpSingle f p q = .ok (Val.cmp v w)) := by
  intro f
  induction f with
  | zero =>
    refine ⟨fun _ _ _ _ _ _ _ _ h => by omega, fun _ _ _ _ _ _ _ _ h => by omega, fun _ _ v w _ _ h => ?_⟩
    have := v.size_pos; have := w.size_pos; omega
  | succ f ih =>
    obtain ⟨ihA, ihB, ihC⟩ := ih
    refine ⟨?_, ?_, ?_⟩
    · intro xs ys tx ty vx vy hx hy hb
      simp only [cmp]
      exact ihB _ _ _ _ vx vy (cur_init xs tx vx hx) (cur_init ys ty vy hy) (by omega)
    · intro l r ls rs vl vr hl hr hb
      simp only [cmpLoop, hasNext_cur hl hr, bind, Except.bind]
      cases vl with
      | nil =>
        simp only [List.isEmpty_nil, Bool.not_true, Bool.false_and, Bool.false_eq_true, ↓reduceIte,
          ne_eq, not_true_eq_false, eqAfterAbort_cur hl hr, Bool.true_and]
        cases vr with
        | nil => simp [Val.cmpList, pure, Except.pure]
        | cons w ws =>
          have h1 := hl.nil_i
          have h2 := (cur_step hr).1
          have h3 : ¬ rs - r.i < ls - l.i := by omega
          simp [Val.cmpList, pure, Except.pure, h1, Nat.le_of_lt h2]
      | cons v vs =>
        cases vr with
        | nil =>
          have h1 := hr.nil_i
          have h2 := (cur_step hl).1
          have h3 : rs - r.i < ls - l.i := by omega
          simp [eqAfterAbort_cur hl hr, Val.cmpList, pure, Except.pure, h1, Nat.le_of_lt h2]
          omega
        | cons w ws =>
          obtain ⟨_, _, ⟨p, hp, hpd⟩, ⟨l', hl', hcl⟩⟩ := cur_step hl
          obtain ⟨_, _, ⟨q, hq, hqd⟩, ⟨r', hr', hcr⟩⟩ := cur_step hr
          simp only [Val.sizeList] at hb
          have hC := ihC p q v w hpd hqd (by omega)
          simp only [List.isEmpty_cons, Bool.not_false, Bool.and_self, beq_self_eq_true, ↓reduceIte,
            hp, hq, hC, hl', hr', Val.cmpList]
          by_cases h0 : Val.cmp v w = 0
          · rw [h0]; simp only [↓reduceIte]
            exact ihB _ _ _ _ vs ws hcl hcr (by have := v.size_pos; omega)
          · simp only [h0, ↓reduceIte]
            cases f with
            | zero => have := v.size_pos; have := w.size_pos; omega
            | succ f => exact cmpLoop_nonzero hcl hcr _ h0
    · intro p q v w hp hq hb
      cases hp with
      | sc c rest hc =>
        cases hq with
        | sc c' rest' hc' =>
          simp [cmpSingle, deref, asArr_scalar hc, Val.cmp, Val.head, bind, Except.bind, pure, Except.pure]
        | arr ety es ves rest' hes =>
          simp [cmpSingle, deref, asArr_scalar hc, Val.cmp, Val.head, bind, Except.bind, pure, Except.pure]
          exact cmpScalar_arr_right c hc ety _ _
      | arr ety es ves rest hes =>
        cases hq with
        | sc c' rest' hc' =>
          simp [cmpSingle, deref, asArr_scalar hc', Val.cmp, asArr_arr, bind, Except.bind, pure, Except.pure]
          exact cmpScalar_arr_left c' hc' ety _ _
        | arr ety' es' ves' rest' hes' =>
          simp only [Val.size] at hb
          have hA := ihA es es' rest rest' ves ves' hes hes' (by omega)
          simp only [cmpSingle, deref, asArr_arr, bind, Except.bind, Val.cmp]
          by_cases hn : normTy ety = normTy ety'
          · simp [hn, hA]
          · simp [hn, pure, Except.pure]

theorem eq_arr_test (lt rt : UInt8) :
    (lt ≠ rt ∧ ¬ (lt = tyT ∧ rt = tyF) ∧ ¬ (lt = tyF ∧ rt = tyT)) ↔ normTy lt ≠ normTy rt := by
  simp only [normTy, tyT, tyF]
  by_cases h1 : lt = 84
  · subst h1
    by_cases h2 : rt = 84
    · subst h2; simp
    · have h2' : ¬ (84 : UInt8) = rt := fun e => h2 e.symm
      simp only [ne_eq, h2', not_false_eq_true, true_and, h2, and_false, ↓reduceIte]
      constructor
      · intro h e; exact h.1 e.symm
      · intro h; exact ⟨fun e => h e.symm, by decide⟩
  · by_cases h2 : rt = 84
    · subst h2
      simp only [ne_eq, h1, not_false_eq_true, false_and, and_true, true_and, ↓reduceIte]
    · simp only [ne_eq, h1, false_and, not_false_eq_true, h2, and_false, and_self, and_true, ↓reduceIte]

theorem eqLoop_false {f : Nat} {l r : Itr} {ls rs : Nat} {vl vr : List Val} (hl : Cur l ls vl)
    (hr : Cur r rs vr) : eqLoop (f + 1) l r ls rs false = .ok false := by
  simp [eqLoop, hasNext_cur hl hr, bind, Except.bind, pure, Except.pure]

theorem eq_bridge : ∀ f : Nat,
    (∀ xs ys tx ty vx vy, expandList xs = some vx → expandList ys = some vy →
      Val.sizeList vx + Val.sizeList vy + 2 ≤ f →
      eq f (flatList xs ++ tx) (flatList ys ++ ty) (flatList xs).length (flatList ys).length
        = .ok (decide (Val.cmpList vx vy = 0))) ∧
    (∀ l r ls rs vl vr, Cur l ls vl → Cur r rs vr → Val.sizeList vl + Val.sizeList vr + 1 ≤ f →
      eqLoop f l r ls rs true = .ok (decide (Val.cmpList vl vr = 0))) ∧
    (∀ p q v w, Denotes p v → Denotes q w → v.size + w.size ≤ f →
      eqSingle f p q = .ok (decide (Val.cmp v w = 0))) := by
  intro f
  induction f with
  | zero =>
    refine ⟨fun _ _ _ _ _ _ _ _ h => by omega, fun _ _ _ _ _ _ _ _ h => by omega, fun _ _ v w _ _ h => ?_⟩
    have := v.size_pos; have := w.size_pos; omega
  | succ f ih =>
    obtain ⟨ihA, ihB, ihC⟩ := ih
    refine ⟨?_, ?_, ?_⟩
    · intro xs ys tx ty vx vy hx hy hb
      simp only [eq]
      exact ihB _ _ _ _ vx vy (cur_init xs tx vx hx) (cur_init ys ty vy hy) (by omega)
    · intro l r ls rs vl vr hl hr hb
      simp only [eqLoop, hasNext_cur hl hr, bind, Except.bind]
      cases vl with
      | nil =>
        cases vr with
        | nil => simp [eqAfterAbort_cur hl hr, Val.cmpList]
        | cons w ws => simp [eqAfterAbort_cur hl hr, Val.cmpList]
      | cons v vs =>
        cases vr with
        | nil => simp [eqAfterAbort_cur hl hr, Val.cmpList]
        | cons w ws =>
          obtain ⟨_, _, ⟨p, hp, hpd⟩, ⟨l', hl', hcl⟩⟩ := cur_step hl
          obtain ⟨_, _, ⟨q, hq, hqd⟩, ⟨r', hr', hcr⟩⟩ := cur_step hr
          simp only [Val.sizeList] at hb
          have hC := ihC p q v w hpd hqd (by omega)
          simp only [List.isEmpty_cons, Bool.not_false, Bool.and_self, ↓reduceIte,
            hp, hq, hC, hl', hr', Val.cmpList]
          by_cases h0 : Val.cmp v w = 0
          · simp only [h0, ↓reduceIte, decide_true]
            exact ihB _ _ _ _ vs ws hcl hcr (by have := v.size_pos; omega)
          · simp only [h0, ↓reduceIte, decide_false]
            cases f with
            | zero => have := v.size_pos; have := w.size_pos; omega
            | succ f => exact eqLoop_false hcl hcr
    · intro p q v w hp hq hb
      cases hp with
      | sc c rest hc =>
        cases hq with
        | sc c' rest' hc' =>
          simp [eqSingle, deref, asArr_scalar hc, Val.cmp, Val.head, bind, Except.bind,
            eqScalar_cmpScalar c c' (Or.inl hc)]
          congr
        | arr ety es ves rest' hes =>
          simp [eqSingle, deref, asArr_scalar hc, Val.cmp, Val.head, bind, Except.bind,
            eqScalar_cmpScalar c _ (Or.inl hc), cmpScalar_arr_right c hc ety _ 0]
          congr
      | arr ety es ves rest hes =>
        cases hq with
        | sc c' rest' hc' =>
          simp [eqSingle, deref, asArr_scalar hc', Val.cmp, asArr_arr, bind, Except.bind,
            eqScalar_cmpScalar _ c' (Or.inr hc'), cmpScalar_arr_left c' hc' ety _ 0]
          congr
        | arr ety' es' ves' rest' hes' =>
          simp only [Val.size] at hb
          have hA := ihA es es' rest rest' ves ves' hes hes' (by omega)
          simp only [eqSingle, deref, asArr_arr, bind, Except.bind, Val.cmp, eq_arr_test]
          by_cases hn : normTy ety = normTy ety'
          · simp [hn, hA]
          · simp only [ne_eq, hn, not_false_eq_true, ↓reduceIte, pure, Except.pure]
            congr 1
            split <;> simp
/-! ### iteration and rtosc_avmessage -/

/-- the yielded pointers denote the values, one by one -/
inductive AllDenote : List (List Cell) → List Val → Prop
  | nil : AllDenote [] []
  | cons {p : List Cell} {v : Val} {ps : List (List Cell)} {vs : List Val} :
      Denotes p v → AllDenote ps vs → AllDenote (p :: ps) (v :: vs)

theorem iterate_cur : ∀ (vs : List Val) (f : Nat) (it : Itr) (size : Nat), Cur it size vs →
    vs.length + 1 ≤ f → ∃ ps, iterate f it size = .ok ps ∧ AllDenote ps vs
  | [], f, it, size, h, hf => by
    cases f with
    | zero => omega
    | succ f =>
      refine ⟨[], ?_, .nil⟩
      simp [iterate, h.nil_i, pure, Except.pure]
  | v :: vs, f, it, size, h, hf => by
    cases f with
    | zero => omega
    | succ f =>
      obtain ⟨hi, _, ⟨p, hp, hpd⟩, ⟨it', hn, hc⟩⟩ := cur_step h
      obtain ⟨ps, hps, hfa⟩ := iterate_cur vs f it' size hc (by simpa using hf)
      refine ⟨p :: ps, ?_, .cons hpd hfa⟩
      simp [iterate, hi, hp, hn, hps, bind, Except.bind, pure, Except.pure]

theorem countLoop_cur : ∀ (vs : List Val) (f : Nat) (it : Itr) (size : Nat), Cur it size vs →
    vs.length + 1 ≤ f → countLoop f it size = .ok vs.length
  | [], f, it, size, h, hf => by
    cases f with
    | zero => omega
    | succ f => simp [countLoop, h.nil_i, pure, Except.pure]
  | v :: vs, f, it, size, h, hf => by
    cases f with
    | zero => omega
    | succ f =>
      obtain ⟨hi, _, _, ⟨it', hn, hc⟩⟩ := cur_step h
      have := countLoop_cur vs f it' size hc (by simpa using hf)
      simp [countLoop, hi, hn, this, bind, Except.bind, pure, Except.pure]

theorem collect_cur : ∀ (vs : List Val) (it : Itr) (size : Nat), Cur it size vs →
    collect vs.length it = msgArgs vs
  | [], it, size, h => by simp [collect, msgArgs]
  | v :: vs, it, size, h => by
    obtain ⟨hi, _, ⟨p, hp, hpd⟩, ⟨it', hn, hc⟩⟩ := cur_step h
    have ih := collect_cur vs it' size hc
    simp only [List.length_cons, collect, msgArgs, hp, hn, ih, bind, Except.bind]
    cases hpd with
    | sc c rest hc' => simp [deref, Val.head]; rfl
    | arr ety es ves rest hes =>
      have : Osc.hasReserved tyA = false := by decide
      simp [deref, Val.head, Cell.type, this]

/-- what `rtosc_avmessage` returns for a list denoting `vs` -/
def msgOf (buffer : Option Bytes) (addr : Bytes) (vs : List Val) : Res (Option Osc.AResult) := do
  let (tags, vals) ← msgArgs vs
  pure (Osc.amessage buffer addr tags vals)

theorem avmessage_bridge (xs : List Item) (vs : List Val) (h : expandList xs = some vs)
    (f : Nat) (hf : vs.length + 1 ≤ f) (buffer : Option Bytes) (addr : Bytes) :
    avmessage f buffer addr (flatList xs).length (flatList xs) = msgOf buffer addr vs := by
  have hc := cur_init xs [] vs h
  simp only [List.append_nil] at hc
  simp only [avmessage, countLoop_cur vs f _ _ hc hf, bind, Except.bind, msgOf]
  cases vs with
  | nil => simp [msgArgs, pure, Except.pure]
  | cons v vs' =>
    have := collect_cur (v :: vs') _ _ hc
    simp only [List.length_cons] at this
    simp [this]
/-! ### expansion: append, leaves are scalars -/

theorem expandList_append (a b : List Item) :
    expandList (a ++ b) = (match expandList a, expandList b with
                           | some va, some vb => some (va ++ vb)
                           | _, _ => none) := by
  induction a with
  | nil => cases h : expandList b <;> simp [expandList, h]
  | cons x xs ih =>
    simp only [List.cons_append, expandList, ih]
    cases x.expand <;> cases expandList xs <;> cases expandList b <;> simp

mutual
/-- every scalar leaf holds a scalar cell (no array / range header used as a value) -/
def Val.leaves : Val → Bool
  | .sc c => c.isScalar
  | .arr _ es => Val.leavesList es
def Val.leavesList : List Val → Bool
  | [] => true
  | v :: vs => v.leaves && Val.leavesList vs
end

theorem leavesList_append (a b : List Val) :
    Val.leavesList (a ++ b) = (Val.leavesList a && Val.leavesList b) := by
  induction a with
  | nil => simp [Val.leavesList]
  | cons x xs ih => simp [Val.leavesList, ih, Bool.and_assoc]

theorem leavesList_replicate (n : Nat) (v : Val) (h : v.leaves = true) :
    Val.leavesList (List.replicate n v) = true := by
  induction n with
  | zero => simp [Val.leavesList]
  | succ n ih => simp [List.replicate_succ, Val.leavesList, h, ih]

theorem rangeVals_leaves (d s : Cell) : ∀ (m i : Nat) (r : List Val), rangeVals d s i m = some r →
    Val.leavesList r = true
  | 0, i, r, h => by simp only [rangeVals, Option.some.injEq] at h; subst h; rfl
  | m + 1, i, r, h => by
    simp only [rangeVals] at h
    split at h
    · rename_i v r' hv hr
      simp only [Option.some.injEq] at h; subst h
      simp [Val.leavesList, Val.leaves, rangeVal_scalar hv, rangeVals_leaves d s m (i + 1) r' hr]
    · cases h

mutual
theorem expand_leaves : ∀ (x : Item) (vx : List Val), x.expand = some vx → Val.leavesList vx = true
  | .val c, vx, h => by
    simp only [Item.expand] at h
    split at h
    · simp only [Option.some.injEq] at h; subst h; simp [Val.leavesList, Val.leaves, *]
    · cases h
  | .arr ety es, vx, h => by
    simp only [Item.expand, Option.map_eq_some_iff] at h
    obtain ⟨vs, h1, h2⟩ := h
    subst h2
    simp [Val.leavesList, Val.leaves, expandList_leaves es vs h1]
  | .rep n (.val c), vx, h => by
    simp only [Item.expand] at h
    split at h
    · rename_i hc
      simp only [Option.some.injEq] at h; subst h
      exact leavesList_replicate n _ (by simp [Val.leaves, hc.2])
    · cases h
  | .rep n (.arr ety es), vx, h => by
    simp only [Item.expand] at h
    split at h
    · simp only [Option.map_eq_some_iff] at h
      obtain ⟨vs, h1, h2⟩ := h
      subst h2
      exact leavesList_replicate n _ (by simp [Val.leaves, expandList_leaves es vs h1])
    · cases h
  | .rep _ (.rep _ _), vx, h => by simp [Item.expand] at h
  | .rep _ (.range _ _ _), vx, h => by simp [Item.expand] at h
  | .range n d s, vx, h => by
    simp only [Item.expand] at h
    split at h
    · exact rangeVals_leaves d s n 0 vx h
    · cases h
theorem expandList_leaves : ∀ (xs : List Item) (vs : List Val), expandList xs = some vs →
    Val.leavesList vs = true
  | [], vs, h => by simp only [expandList, Option.some.injEq] at h; subst h; rfl
  | x :: xs, vs, h => by
    obtain ⟨vx, vr, hx, hxs, hv⟩ := expandList_cons h
    subst hv
    rw [leavesList_append, expand_leaves x vx hx, expandList_leaves xs vr hxs]; rfl
end

mutual
theorem ok_of_leaves_noNaN : ∀ (v : Val), v.leaves = true → v.noNaN = true → v.ok = true
  | .sc c, h1, h2 => by simp_all [Val.leaves, Val.noNaN, Val.ok]
  | .arr _ es, h1, h2 => by
    simp only [Val.leaves, Val.noNaN, Val.ok] at *
    exact okList_of_leaves_noNaN es h1 h2
theorem okList_of_leaves_noNaN : ∀ (vs : List Val), Val.leavesList vs = true →
    Val.noNaNList vs = true → Val.okList vs = true
  | [], _, _ => rfl
  | v :: vs, h1, h2 => by
    simp only [Val.leavesList, Val.noNaNList, Val.okList, Bool.and_eq_true] at *
    exact ⟨ok_of_leaves_noNaN v h1.1 h2.1, okList_of_leaves_noNaN vs h1.2 h2.2⟩
end

theorem length_le_sizeList (vs : List Val) : vs.length ≤ Val.sizeList vs := by
  induction vs with
  | nil => simp [Val.sizeList]
  | cons v vs ih => have := v.size_pos; simp [Val.sizeList]; omega

/-! ### top-level forms used by Props/C16.lean -/

theorem cmp_flat_spec (s t : List Item) (vs vt : List Val)
    (hs : expandList s = some vs) (ht : expandList t = some vt)
    (fuel : Nat) (hf : fuelFor vs vt ≤ fuel) :
    cmp fuel (flatList s) (flatList t) (flatList s).length (flatList t).length
      = .ok (Val.cmpList vs vt) := by
  have := (cmp_bridge fuel).1 s t [] [] vs vt hs ht (by simpa [fuelFor] using hf)
  simpa using this

theorem eq_flat_spec (s t : List Item) (vs vt : List Val)
    (hs : expandList s = some vs) (ht : expandList t = some vt)
    (fuel : Nat) (hf : fuelFor vs vt ≤ fuel) :
    eq fuel (flatList s) (flatList t) (flatList s).length (flatList t).length
      = .ok (decide (Val.cmpList vs vt = 0)) := by
  have := (eq_bridge fuel).1 s t [] [] vs vt hs ht (by simpa [fuelFor] using hf)
  simpa using this

theorem okList_of_expand {s : List Item} {vs : List Val} (hs : expandList s = some vs)
    (hn : Val.noNaNList vs = true) : Val.okList vs = true :=
  okList_of_leaves_noNaN vs (expandList_leaves s vs hs) hn

/-- `rtosc_arg_vals_cmp` on two one-value lists -/
theorem cmp_single_value (a b : Cell) (ha : a.isScalar = true) (hb : b.isScalar = true)
    (fuel : Nat) (hf : 4 ≤ fuel) : cmp fuel [a] [b] 1 1 = .ok (cmpScalar a b) := by
  have h := cmp_flat_spec [.val a] [.val b] [.sc a] [.sc b]
    (by simp [expandList, Item.expand, ha]) (by simp [expandList, Item.expand, hb]) fuel
    (by simpa [fuelFor, Val.sizeList, Val.size] using hf)
  rw [show (flatList [Item.val a]) = [a] from rfl, show (flatList [Item.val b]) = [b] from rfl] at h
  simp only [List.length_cons, List.length_nil, Nat.zero_add] at h
  rw [h]
  simp only [Val.cmpList, Val.cmp, Val.head]
  by_cases e : cmpScalar a b = 0 <;> simp [e]

/-- a proper prefix is smaller in `lexCmp`, whatever follows -/
theorem lexCmp_prefix (a : Bytes) (x : UInt8) (r : Bytes) :
    lexCmp a (a ++ x :: r) = -1 ∧ lexCmp (a ++ x :: r) a = 1 := by
  induction a with
  | nil => simp [lexCmp]
  | cons y ys ih => simp [lexCmp, ih]

end Rtosc.ArgVal
