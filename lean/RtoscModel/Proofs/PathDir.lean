/-
  C18 — the location of a child search: the address of a directory (a port with a
  sub-table) resolves to that port, so the rows offered to the search are the direct
  children of the addressed port (`searchRows_dir`).  The last directory name must have
  its only `/` at its end: `Ports::apropos` tests `strchr(path,'/')[1]`, so a row named
  `a/b/` is not found by the address `a/b/` (it descends with an empty rest and returns
  NULL) — see `dir_multi_slash_counterexample`.
-/
import RtoscModel.Proofs.PathApropos
import RtoscModel.Path.Search
namespace Rtosc.Path
open Rtosc

/-- the address of the directory with index path `ix` (relative to the table) -/
def dirAddrOf : List PortT → List Nat → Option Bytes
  | _, [] => none
  | ps, [i] =>
    match ps[i]? with
    | none => none
    | some p => if p.hasPorts then some (lit p.name) else none
  | ps, i :: j :: ix =>
    match ps[i]? with
    | none => none
    | some p => if p.hasPorts then (dirAddrOf p.children (j :: ix)).map (lit p.name ++ ·) else none

/-- `Level` at every table on the way; every directory name ends in `/`, the last one has
    no other `/` -/
def UnambDir : List PortT → List Nat → Prop
  | _, [] => False
  | ps, [i] => ∃ p, Level ps i p ∧ ∃ l', lit p.name = l' ++ [SLASH] ∧ SLASH ∉ l'
  | ps, i :: j :: ix =>
    ∃ p, Level ps i p ∧ (lit p.name).getLast? = some SLASH ∧ UnambDir p.children (j :: ix)

theorem dropWhile_no_slash : ∀ (l' : Bytes) (r : Bytes), SLASH ∉ l' →
    (l' ++ SLASH :: r).dropWhile (· ≠ SLASH) = SLASH :: r
  | [], r, _ => by simp
  | c :: l', r, h => by
    have hc : c ≠ SLASH := fun e => h (e ▸ List.mem_cons_self)
    rw [List.cons_append, List.dropWhile_cons]
    simp only [ne_eq, hc, not_false_eq_true, decide_true, ↓reduceIte]
    exact dropWhile_no_slash l' r (fun hm => h (List.mem_cons_of_mem _ hm))

theorem apropos_dir : ∀ (ix : List Nat) (ps : List PortT) (a : Bytes),
    dirAddrOf ps ix = some a → UnambDir ps ix →
    apropos ps a = .port ix ∧ (a ≠ [] ∧ hd a ≠ SLASH ∧ ∀ c ∈ a, CleanChar c) := by
  intro ix
  induction ix with
  | nil => intro ps a h _; simp [dirAddrOf] at h
  | cons i t ih =>
    intro ps a haddr hun
    cases t with
    | nil =>
      obtain ⟨p, hlev, l', hl', hns⟩ := hun
      have hlev' := hlev
      obtain ⟨hpi, hlit, hne, hhd, _⟩ := hlev
      simp only [dirAddrOf, hpi] at haddr
      split at haddr
      · rename_i hports
        simp only [Option.some.injEq] at haddr
        subst haddr
        have hpm : p ∈ ps := List.mem_of_getElem? hpi
        have hclean : ∀ c ∈ lit p.name, CleanChar c :=
          fun c hc => ⟨lit_no_colon _ c hc, (hlit p hpm c hc).1⟩
        refine ⟨?_, hne, hhd, hclean⟩
        obtain ⟨pre, post, hsplit, hlen, hpre⟩ := split_at ps i p hpi
        have hsib := sibling_null hlev' hclean (List.prefix_refl _)
        have hpre1 : ∀ q ∈ pre, q.name.contains SLASH = true → matchPath q.name (lit p.name) = .null := by
          intro q hq _
          obtain ⟨j, hj, hqj⟩ := hpre q hq
          exact (hsib j q hqj hj).1
        have hplain := plain_of_lit (hlit p hpm)
        have hplain' : ∀ c ∈ l', PlainChar c := fun c hc => hplain c (by rw [hl']; simp [hc])
        have hdir := matchPath_dir l' (p.name.dropWhile (· ≠ COLON)) [] hplain' (tail_ok _)
        have hname : p.name = l' ++ SLASH :: p.name.dropWhile (· ≠ COLON) := by
          conv => lhs; rw [name_split p.name, hl']
          simp
        have hc : p.name.contains SLASH = true := by
          rw [List.contains_iff_mem]
          rw [hname]; simp
        have hmatch : matchPath p.name (lit p.name) = .ok (p.name.dropWhile (· ≠ COLON)) [] := by
          rw [hl']
          conv => lhs; arg 1; rw [hname]
          simpa using hdir
        unfold apropos
        simp only [stripSlash_id _ hhd]
        rw [hsplit, loop1_skip _ pre _ 0 hpre1, aproposLoop1, if_pos hc, hmatch]
        simp only [hports, ↓reduceIte]
        rw [hl', show l' ++ [SLASH] = l' ++ SLASH :: [] from rfl, dropWhile_no_slash l' [] hns]
        simp [hlen]
      · simp at haddr
    | cons j ix' =>
      obtain ⟨p, hlev, hlast, hun'⟩ := hun
      have hlev' := hlev
      obtain ⟨hpi, hlit, hne, hhd, _⟩ := hlev
      simp only [dirAddrOf, hpi] at haddr
      split at haddr
      · rename_i hports
        obtain ⟨a', ha', rfl⟩ := Option.map_eq_some_iff.mp haddr
        obtain ⟨hrec, hne', hhd', hclean'⟩ := ih p.children a' ha' hun'
        obtain ⟨l', hl'⟩ := List.getLast?_eq_some_iff.mp hlast
        have hpm : p ∈ ps := List.mem_of_getElem? hpi
        have hcl : ∀ c ∈ lit p.name, CleanChar c :=
          fun c hc => ⟨lit_no_colon _ c hc, (hlit p hpm c hc).1⟩
        have hclean : ∀ c ∈ lit p.name ++ a', CleanChar c := by
          intro c hc
          rcases List.mem_append.mp hc with h | h
          · exact hcl c h
          · exact hclean' c h
        have hhd2 : hd (lit p.name ++ a') ≠ SLASH := by
          cases hl : lit p.name with
          | nil => exact absurd hl hne
          | cons c r => rw [hl] at hhd; simpa using hhd
        refine ⟨?_, by simp [hne], hhd2, hclean⟩
        obtain ⟨pre, post, hsplit, hlen, hpre⟩ := split_at ps i p hpi
        have hsib := sibling_null hlev' hclean (List.prefix_append _ _)
        have hpre1 : ∀ q ∈ pre, q.name.contains SLASH = true → matchPath q.name (lit p.name ++ a') = .null := by
          intro q hq _
          obtain ⟨j, hj, hqj⟩ := hpre q hq
          exact (hsib j q hqj hj).1
        have hplain := plain_of_lit (hlit p hpm)
        have hplain' : ∀ c ∈ l', PlainChar c := fun c hc => hplain c (by rw [hl']; simp [hc])
        have hdir := matchPath_dir l' (p.name.dropWhile (· ≠ COLON)) a' hplain' (tail_ok _)
        have hname : p.name = l' ++ SLASH :: p.name.dropWhile (· ≠ COLON) := by
          conv => lhs; rw [name_split p.name, hl']
          simp
        have hc : p.name.contains SLASH = true := by
          rw [List.contains_iff_mem]
          rw [hname]; simp
        obtain ⟨Z, hZ, hdrop⟩ := dropWhile_slash l' a' hne'
        have hZ0 : hd Z ≠ 0 := by
          cases Z with
          | nil => exact absurd rfl hZ
          | cons z zr =>
            have hmem : z ∈ (l' ++ SLASH :: a').dropWhile (· ≠ SLASH) := by rw [hdrop]; simp
            have hsuf : z ∈ l' ++ SLASH :: a' := (List.dropWhile_sublist _).subset hmem
            have : z ∈ lit p.name ++ a' := by rw [hl']; simpa using hsuf
            simpa using (hclean z this).2
        unfold apropos
        simp only [stripSlash_id _ hhd2]
        rw [hsplit, loop1_skip _ pre _ 0 hpre1, aproposLoop1, if_pos hc]
        have hmatch : matchPath p.name (lit p.name ++ a') =
            .ok (p.name.dropWhile (· ≠ COLON)) a' := by
          rw [hl']
          conv => lhs; arg 1; rw [hname]
          simpa using hdir
        rw [hmatch]
        simp only [hports, ↓reduceIte]
        rw [show lit p.name ++ a' = l' ++ SLASH :: a' by rw [hl']; simp, hdrop]
        simp only [ne_eq, hZ0, not_false_eq_true, ↓reduceIte]
        rw [aproposSub_eq, hrec]
        simp [Look.under, hlen]
      · simp at haddr

/-- the port a directory address names -/
theorem portAt_dir : ∀ (ix : List Nat) (ps : List PortT) (a : Bytes), dirAddrOf ps ix = some a →
    ∃ p, portAt ps ix = some p ∧ p.hasPorts = true := by
  intro ix
  induction ix with
  | nil => intro ps a h; simp [dirAddrOf] at h
  | cons i t ih =>
    intro ps a h
    cases t with
    | nil =>
      cases hp : ps[i]? with
      | none => simp [dirAddrOf, hp] at h
      | some p =>
        simp only [dirAddrOf, hp] at h
        split at h
        · rename_i hh; exact ⟨p, by simp [portAt, hp], hh⟩
        · simp at h
    | cons j ix' =>
      cases hp : ps[i]? with
      | none => simp [dirAddrOf, hp] at h
      | some p =>
        simp only [dirAddrOf, hp] at h
        split at h
        · obtain ⟨a', ha', _⟩ := Option.map_eq_some_iff.mp h
          obtain ⟨q, hq, hh⟩ := ih p.children a' ha'
          exact ⟨q, by simp [portAt, hp, hq], hh⟩
        · simp at h

/-- **the location of a child search**: a directory address (with or without the leading
    `/`) makes the search run over exactly the rows of that directory's table -/
theorem searchRows_dir (ps : List PortT) (ix : List Nat) (a : Bytes)
    (h : dirAddrOf ps ix = some a) (hu : UnambDir ps ix) :
    ∃ p, portAt ps ix = some p ∧ searchRows ps a = .ok p.children ∧
      searchRows ps (SLASH :: a) = .ok p.children := by
  obtain ⟨hap, hne, hhd, _⟩ := apropos_dir ix ps a h hu
  obtain ⟨p, hp, hh⟩ := portAt_dir ix ps a h
  have h1 : ¬ (a = [] ∨ a = [SLASH]) := by
    rintro (rfl | rfl)
    · exact hne rfl
    · exact hhd rfl
  have h2 : ¬ (SLASH :: a = [] ∨ SLASH :: a = [SLASH]) := by
    rintro (h | h)
    · cases h
    · simp only [List.cons.injEq, true_and] at h; exact hne h
  have hap2 : apropos ps (SLASH :: a) = .port ix := by
    have : apropos ps (SLASH :: a) = apropos ps a := by
      unfold apropos
      simp [stripSlash, hhd]
    rw [this, hap]
  refine ⟨p, hp, ?_, ?_⟩
  · unfold searchRows; rw [if_neg h1, hap]; simp [hp, hh]
  · unfold searchRows; rw [if_neg h2, hap2]; simp [hp, hh]

/-- why the last directory name may have only its final `/`: the row `a/b/` (with a
    sub-table) is not found by its own address -/
theorem dir_multi_slash_counterexample :
    apropos [.mk [97, 47, 98, 47] none true [.mk [120] none false []]] [97, 47, 98, 47] = .null := by
  decide

end Rtosc.Path
