/-
  C20 (extension) — `cloneValues` beyond the hazard-free case, and the two facts about it that the
  end-to-end value theorem needs besides `cloneValues_keeps_half`:
  * a controller that is NEW in the delivered snapshot starts with 0 in its half,
  * a half that no entry of the delivered snapshot owns is 0.
  Also: `half_survives_bind` for ANY reachable state whose two snapshots are well-formed
  (the hypothesis that a K2 hazard destroys: distinct controller IDs in the old snapshot).
-/
import RtoscModel.Proofs.MidiClone
set_option linter.unusedSimpArgs false
namespace Rtosc.Midi

theorem half_zero (c : Bool) : half c 0 = 0 := by cases c <;> simp [half]

theorem halfAt_replicate {slot n : Nat} (c : Bool) (h : slot < n) :
    halfAt slot c (List.replicate n 0) = some 0 := by
  simp [halfAt, List.getElem?_replicate, h, half_zero]

/-- a destination entry whose controller does not occur in the source keeps what its half held -/
theorem cloneOuter_effect_none (src : Storage) (hs : Small src.values) :
    ∀ (L : List MapEnt) (vals vals' : List Nat), Small vals → (∀ e ∈ L, e.slot < vals.length) → PairInj L →
      cloneOuter src L vals = some vals' → ∀ d ∈ L, lastMatch d src.mapping = none →
      halfAt d.slot d.coarse vals' = halfAt d.slot d.coarse vals := by
  intro L
  induction L with
  | nil => intro _ _ _ _ _ _ d hd; cases hd
  | cons d0 rest ih =>
    intro vals vals' hv hsl hinj h d hd hlm
    unfold cloneOuter at h
    split at h
    · simp at h
    · rename_i v1 h1
      have hd0 := hsl d0 List.mem_cons_self
      have eff := cloneInner_effect d0 src hs _ vals v1 hv hd0 h1
      have hlen := eff.1
      have hv1 := cloneInner_small d0 src hs _ _ _ hv h1
      have hsl1 : ∀ e ∈ rest, e.slot < v1.length := fun e he => by
        rw [hlen]; exact hsl e (List.mem_cons_of_mem _ he)
      -- step 1: the inner loop of `d0` leaves `d`'s half alone
      have step1 : halfAt d.slot d.coarse v1 = halfAt d.slot d.coarse vals := by
        by_cases hown : d0.slot = d.slot ∧ d0.coarse = d.coarse
        · have hdd : d0 = d := hinj d0 List.mem_cons_self d hd hown.1 hown.2
          subst hdd
          obtain ⟨_, _, w, w0, hw, hw0, _, hmatch⟩ := eff
          simp only [hlm] at hmatch
          simp [halfAt, hw, hw0, hmatch]
        · exact cloneInner_pres d0 src hs _ vals v1 hv hd0 h1 d.slot d.coarse hown
      -- step 2: the remaining outer iterations
      have step2 : halfAt d.slot d.coarse vals' = halfAt d.slot d.coarse v1 := by
        by_cases hin : d ∈ rest
        · exact ih v1 vals' hv1 hsl1
            (fun a ha b hb => hinj a (List.mem_cons_of_mem _ ha) b (List.mem_cons_of_mem _ hb)) h d hin hlm
        · apply cloneOuter_pres src hs rest v1 vals' hv1 hsl1 h d.slot d.coarse
          intro e he hc
          have := hinj e (List.mem_cons_of_mem _ he) d hd hc.1 hc.2
          exact hin (this ▸ he)
      rw [step2, step1]

/-- **What `cloneValues` leaves in the new snapshot**, completely: a controller present in both
    snapshots keeps its half, a new controller starts at 0, a half nobody owns is 0. -/
theorem cloneValues_track {ns old ns' : Storage} (hn : StOk ns) (ho : StOk old) (hs : Small old.values)
    (hinj : PairInj ns.mapping) (h : ns.cloneValues old = some ns') :
    ns'.mapping = ns.mapping ∧ ns'.callbacks = ns.callbacks ∧ ns'.values.length = ns.values.length ∧
    (∀ d ∈ ns.mapping, ∀ e ∈ old.mapping, d.id = e.id →
      ∃ sv, old.values[e.slot]? = some sv ∧ halfAt d.slot d.coarse ns'.values = some (half e.coarse sv)) ∧
    (∀ d ∈ ns.mapping, d.id ∉ ids old.mapping → halfAt d.slot d.coarse ns'.values = some 0) ∧
    (∀ slot c, slot < ns.values.length → (∀ e ∈ ns.mapping, ¬(e.slot = slot ∧ e.coarse = c)) →
      halfAt slot c ns'.values = some 0) := by
  have keep := fun d hd e he hid => cloneValues_keeps_half hn ho hs hinj h (d := d) (s := e) hd he hid
  unfold Storage.cloneValues at h
  split at h
  · simp at h
  · rename_i v hv
    simp at h; subst h
    have hslots : ∀ e ∈ ns.mapping, e.slot < (List.replicate ns.values.length 0).length := fun e he => by
      simp only [List.length_replicate]; rw [hn.vals]; exact hn.slots e he
    obtain ⟨v2, hv2, hlen⟩ := cloneOuter_ok old ho ns.mapping (List.replicate ns.values.length 0) hslots
    rw [hv] at hv2; cases hv2
    refine ⟨rfl, rfl, by simpa using hlen, keep, ?_, ?_⟩
    · intro d hd hnot
      have := cloneOuter_effect_none old hs ns.mapping _ v (small_replicate _) hslots hinj hv d hd
        (lastMatch_none hnot)
      simp only at this ⊢
      rw [this]
      exact halfAt_replicate _ (by rw [hn.vals]; exact hn.slots d hd)
    · intro slot c hsl hfree
      have := cloneOuter_pres old hs ns.mapping _ v (small_replicate _) hslots hv slot c hfree
      simp only at this ⊢
      rw [this]; exact halfAt_replicate _ hsl

/-- **half_survives_bind for any reachable state** (hazards allowed in the history) whose delivered and
    current snapshots are well-formed: slots inside the vectors and distinct controller IDs (`StOk`), no
    two entries of the delivered snapshot owning the same half of a slot (`PairInj`).  These are exactly
    the facts a hazard-free history guarantees; after a K2 hazard `StOk old` can fail (one controller
    assigned twice), and then the conclusion is false: `half_survives_bind_counterexample`. -/
theorem half_survives_bind_of_wellformed {P s} (r : Reach P s) {ns ans rest old}
    (hq : s.toRT = .bind ns ans :: rest) (hold : s.rt.storage = some old)
    (hns : StOk ns) (hok : StOk old) (hinj : PairInj ns.mapping) :
    ∃ s' ns', step P s .deliverRT = some (s', []) ∧ s'.rt.storage = some ns' ∧ ns'.mapping = ns.mapping ∧
      ∀ d ∈ ns.mapping, ∀ e ∈ old.mapping, d.id = e.id →
        ∃ sv, old.values[e.slot]? = some sv ∧ halfAt d.slot d.coarse ns'.values = some (half e.coarse sv) := by
  obtain ⟨v, hv, _⟩ := cloneValues_ok hns hok
  have hsmall : Small old.values := ((inv0_of_reach r).rt old hold).2
  refine ⟨{ s with rt := { s.rt with pending := s.rt.pending.drop 1, storage := some { ns with values := v } },
                   toRT := rest }, { ns with values := v }, by simp [step, hq, RT.recv, hold, hv], rfl, rfl, ?_⟩
  intro d hd e he hid
  exact cloneValues_keeps_half hns hok hsmall hinj hv hd he hid

end Rtosc.Midi
