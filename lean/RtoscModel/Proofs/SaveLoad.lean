/-
  C12 / C13 — assembly: `load` dispatches a dependence-respecting permutation of the file
  (dependency scan + Kahn), any two such orders give the same result (independent lines
  commute), and the saved lines in index order rebuild the saved state.
-/
import RtoscModel.Save.Spec
import RtoscModel.Proofs.SaveTopo
import RtoscModel.Proofs.SaveScan
import RtoscModel.Proofs.SaveSem
import Mathlib.Data.List.Nodup
namespace Rtosc.Save


/-- the messages in dispatch order -/
def pick (ls : List Line) (order : List Nat) : List Line := order.map fun i => ls.getD i default

theorem applyOrder_eq_runSteps (app : App) (ls : List Line) (order : List Nat) (h : ∀ i ∈ order, i < ls.length)
    (s : State) : app.applyOrder ls order s = runSteps app.applyLine (pick ls order) s := by
  induction order generalizing s with
  | nil => rfl
  | cons i r ih =>
    have hi : i < ls.length := h i (by simp)
    have hr : ∀ j ∈ r, j < ls.length := fun j hj => h j (by simp [hj])
    simp only [App.applyOrder, pick, List.map_cons, runSteps]
    rw [List.getElem?_eq_getElem hi]
    have : ls.getD i default = ls[i] := by simp [List.getD, List.getElem?_eq_getElem hi]
    rw [this]
    cases hl : app.applyLine ls[i] s with
    | none => simp [hl]
    | some s' => simp only [hl, Option.bind_some]; exact ih hr s'

theorem pick_range (ls : List Line) : pick ls (List.range ls.length) = ls := by
  apply List.ext_getElem
  · simp [pick]
  · intro i h1 h2
    simp only [pick, List.length_map, List.length_range] at h1
    simp [pick, List.getD, List.getElem?_eq_getElem h1]

theorem pick_perm (ls : List Line) (order : List Nat) (h : order.Perm (List.range ls.length)) :
    (pick ls order).Perm ls := by
  have := h.map (fun i => ls.getD i default)
  rw [show (List.range ls.length).map (fun i => ls.getD i default) = ls from pick_range ls] at this
  exact this


theorem pairwise_of_mem {α : Type} {R : α → α → Prop} (hs : ∀ a b, R a b → R b a) {l : List α}
    (h : l.Pairwise R) {a b : α} (ha : a ∈ l) (hb : b ∈ l) (hne : a ≠ b) : R a b := by
  induction h with
  | nil => cases ha
  | cons hx _ ih =>
    simp only [List.mem_cons] at ha hb
    rcases ha with rfl | ha <;> rcases hb with rfl | hb
    · exact absurd rfl hne
    · exact hx _ hb
    · exact hs _ _ (hx _ ha)
    · exact ih ha hb

theorem lines_nodup (ls : List Line) (h : (ls.map (·.addr)).Nodup) : ls.Nodup :=
  List.Nodup.of_map _ h

/-- the result of `load` in terms of the dispatched sequence -/
def resOf (app : App) (n : Nat) (l : List Line) (s : State) : LoadRes :=
  match runSteps app.applyLine l s with
  | some s' => .ok s' n
  | none => .fail

/-- `load` dispatches some permutation of the file that respects the dependence order -/
theorem load_eq (app : App) (hwf : app.WF) (hcov : app.MetaCovers) (hrank : MetaRanked app.apropos)
    (ls : List Line) (hf : app.FileOK ls) (s : State) :
    ∃ l, l.Perm ls ∧ l.Pairwise (fun a b => ¬ app.lineLt b a) ∧ app.load ls s = resOf app ls.length l s := by
  obtain ⟨deps, order, hd, hk, hperm, hresp⟩ := kahn_order_respects app hwf hcov hrank ls hf.addr_nodup hf.line_ok
  have hlt : ∀ i ∈ order, i < ls.length := fun i hi => by
    have := (hperm.mem_iff).1 hi; simpa using this
  refine ⟨pick ls order, pick_perm ls order hperm, ?_, ?_⟩
  · -- topological
    rw [List.pairwise_iff_getElem]
    intro p q hp hq hpq hcontra
    simp only [pick, List.length_map] at hp hq
    simp only [pick, List.getElem_map] at hcontra
    have hip := hlt _ (List.getElem_mem hp)
    have hiq := hlt _ (List.getElem_mem hq)
    have h1 : ls[order[q]]? = some (ls.getD order[q] default) := by
      simp [List.getD, List.getElem?_eq_getElem hiq]
    have h2 : ls[order[p]]? = some (ls.getD order[p] default) := by
      simp [List.getD, List.getElem?_eq_getElem hip]
    have := hresp order[q] order[p] _ _ h1 h2 hcontra q p (List.getElem?_eq_getElem hq) (List.getElem?_eq_getElem hp)
    omega
  · simp only [App.load, hd, hk, resOf]
    rw [applyOrder_eq_runSteps app ls order hlt s]
    cases runSteps app.applyLine (pick ls order) s <;> rfl

theorem fileOK_perm (app : App) (ls ls' : List Line) (hp : ls.Perm ls') (hf : app.FileOK ls) : app.FileOK ls' := by
  refine ⟨(hp.map _).nodup_iff.1 hf.addr_nodup, fun l hl => hf.line_ok l ((hp.mem_iff).2 hl), ?_⟩
  have hsymm : ∀ a b : Line, (∀ p ∈ app.lineParams a, p ∉ app.lineParams b) →
      (∀ p ∈ app.lineParams b, p ∉ app.lineParams a) := fun a b h p hp hpa => h p hpa hp
  exact (hp.pairwise_iff (fun {a b} h => hsymm a b h)).1 hf.disjoint

/-- two dependence-respecting orders of the same file give the same result -/
theorem runSteps_file_agree (app : App) (hwf : app.WF) (ls l₁ l₂ : List Line) (hf : app.FileOK ls)
    (h₁ : l₁.Perm ls) (h₂ : l₂.Perm ls)
    (t₁ : l₁.Pairwise (fun a b => ¬ app.lineLt b a)) (t₂ : l₂.Pairwise (fun a b => ¬ app.lineLt b a))
    (s : State) : runSteps app.applyLine l₁ s = runSteps app.applyLine l₂ s := by
  have hnd : ls.Nodup := lines_nodup ls hf.addr_nodup
  let lt' : Line → Line → Prop := fun a b => a ∉ ls ∨ b ∉ ls ∨ app.lineLt a b
  apply runSteps_topo_agree app.applyLine lt' ?_ l₁ l₂ (h₁.trans h₂.symm) (h₁.nodup_iff.2 hnd)
  · exact t₁.imp_of_mem (fun {a b} ha hb h hc => by
      rcases hc with hc | hc | hc
      · exact hc ((h₁.mem_iff).1 hb)
      · exact hc ((h₁.mem_iff).1 ha)
      · exact h hc)
  · exact t₂.imp_of_mem (fun {a b} ha hb h hc => by
      rcases hc with hc | hc | hc
      · exact hc ((h₂.mem_iff).1 hb)
      · exact hc ((h₂.mem_iff).1 ha)
      · exact h hc)
  · intro a b hne hab hba s
    have ha : a ∈ ls := Classical.byContradiction fun h => hab (Or.inl h)
    have hb : b ∈ ls := Classical.byContradiction fun h => hab (Or.inr (Or.inl h))
    have hnab : ¬ app.lineLt a b := fun h => hab (Or.inr (Or.inr h))
    have hnba : ¬ app.lineLt b a := fun h => hba (Or.inr (Or.inr h))
    have hdis : ∀ p ∈ app.lineParams a, p ∉ app.lineParams b :=
      pairwise_of_mem (fun a b h p hp hpa => h p hpa hp) hf.disjoint ha hb hne
    apply independent_lines_commute app hwf a b
    intro pa hpa pb hpb
    refine ⟨?_, fun h => hnab ⟨pa, hpa, pb, hpb, h⟩, fun h => hnba ⟨pb, hpb, pa, hpa, h⟩⟩
    intro heq; subst heq
    exact hdis pa hpa hpb


/-- T4 -/
theorem kahn_perm_invariant_state' (app : App) (hwf : app.WF) (hcov : app.MetaCovers)
    (hrank : MetaRanked app.apropos) (ls ls' : List Line) (hp : ls.Perm ls') (hf : app.FileOK ls) (s : State) :
    app.load ls' s = app.load ls s := by
  have hf' := fileOK_perm app ls ls' hp hf
  obtain ⟨l, hl, tl, el⟩ := load_eq app hwf hcov hrank ls hf s
  obtain ⟨l', hl', tl', el'⟩ := load_eq app hwf hcov hrank ls' hf' s
  rw [el, el', resOf, resOf, runSteps_file_agree app hwf ls l' l hf (hl'.trans hp.symm) hl tl' tl s, hp.length_eq]

/-- T5 + T6 -/
theorem load_save' (app : App) (hwf : app.WF) (hcov : app.MetaCovers) (hrank : MetaRanked app.apropos)
    (s : State) (hs : app.Inv s) : app.load (app.save s) app.init = .ok s (app.save s).length := by
  obtain ⟨rw, hrw, htile⟩ := hwf.walk_tiles
  have hf := save_fileOK app hwf s hs
  obtain ⟨l, hl, tl, el⟩ := load_eq app hwf hcov hrank (app.save s) hf app.init
  rw [el, resOf, runSteps_file_agree app hwf (app.save s) l (app.saveFrom s rw []) hf hl
      (saveFrom_perm app hwf s rw hrw) tl (saveFrom_topo app hwf s rw hrw htile) app.init,
      restore_sorted app hwf s hs rw hrw htile]

theorem scanBody_none (body : List (Option Line)) (h : none ∈ body) : (scanBody body).2 = false := by
  induction body with
  | nil => cases h
  | cons a r ih =>
    cases a with
    | none => rfl
    | some l =>
      simp only [List.mem_cons] at h
      rcases h with h | h
      · cases h
      · simp only [scanBody]; exact ih h

theorem scanBody_some (ls : List Line) : scanBody (ls.map some) = (ls, true) := by
  induction ls with
  | nil => rfl
  | cons a r ih => simp [scanBody, ih]

theorem loadFile_saveFile (app : App) (hwf : app.WF) (hcov : app.MetaCovers) (hrank : MetaRanked app.apropos)
    (rv av : Nat × Nat × Nat) (hrv : verOk rv = true) (hav : verOk av = true)
    (s : State) (hs : app.Inv s) :
    app.loadFile (app.saveFile rv av s) app.init = .ok s (app.save s).length := by
  simp only [App.loadFile, App.saveFile, hrv, hav, scanBody_some, ne_eq, not_true_eq_false, decide_false,
    Bool.not_true, Bool.or_false, Bool.false_eq_true, ↓reduceIte]
  exact load_save' app hwf hcov hrank s hs

theorem runSteps_fail_mem {σ ι : Type} (step : ι → σ → Option σ) (l : List ι) (x : ι) (hx : x ∈ l)
    (hfail : ∀ s, step x s = none) (s : σ) : runSteps step l s = none := by
  induction l generalizing s with
  | nil => cases hx
  | cons a r ih =>
    simp only [runSteps]
    cases h : step a s with
    | none => rfl
    | some s' =>
      simp only [Option.bind_some]
      rcases List.mem_cons.1 hx with rfl | hr
      · rw [hfail] at h; cases h
      · exact ih hr s'

/-- rejects_unmatched -/
theorem load_unmatched' (app : App) (hrank : MetaRanked app.apropos) (ls : List Line)
    (hnd : (ls.map (·.addr)).Nodup) (l : Line) (hl : l ∈ ls) (hun : ∀ s, app.applyLine l s = none) (s : State) :
    app.load ls s = .fail := by
  obtain ⟨deps, order, hd, hk, hperm⟩ := kahn_defined app.apropos hrank (ls.map (·.addr)) hnd
  rw [List.length_map] at hperm
  have hlt : ∀ i ∈ order, i < ls.length := fun i hi => by
    have := (hperm.mem_iff).1 hi; simpa using this
  simp only [App.load, hd, hk]
  rw [applyOrder_eq_runSteps app ls order hlt s,
    runSteps_fail_mem app.applyLine _ l ((pick_perm ls order hperm).mem_iff.2 hl) hun s]


theorem saveItem_addr (app : App) (s : State) (it : Item) (l : Line) (h : app.saveItem s it = some l) :
    l.addr = app.itemAddr it := by
  cases it with
  | scalar i =>
    simp only [App.saveItem] at h
    split at h
    · cases h
    · split at h
      · cases h
      · cases h; rfl
  | array base first len =>
    simp only [App.saveItem] at h
    split at h
    · cases h
    · split at h
      · cases h
      · cases h; rfl

theorem item_of_addr (app : App) (hwf : app.WF) (it it' : Item) (h : it ∈ app.walk) (h' : it' ∈ app.walk)
    (ha : app.itemAddr it = app.itemAddr it') : it = it' :=
  List.inj_on_of_nodup_map hwf.item_addr_nodup h h' ha

/-- a scalar port has a line iff it is reached and its value differs from its default -/
theorem saved_scalar_iff (app : App) (hwf : app.WF) (s : State) (i : Nat) (hi : Item.scalar i ∈ app.walk) :
    (∃ l ∈ app.save s, l.addr = (app.param i).addr) ↔
      (guardsOn (app.param i) s = true ∧ s i ≠ evalDflt (app.param i) s) := by
  constructor
  · rintro ⟨l, hl, ha⟩
    obtain ⟨it, hit, hr, hs⟩ := (mem_save_iff app hwf s l).1 hl
    have := saveItem_addr app s it l hs
    have hit' : it = Item.scalar i := item_of_addr app hwf it _ hit hi (by rw [← this, ha]; rfl)
    subst hit'
    simp only [App.itemReached] at hr
    simp only [App.saveItem, hr, Bool.not_true, Bool.false_eq_true, ↓reduceIte] at hs
    refine ⟨hr, fun heq => ?_⟩
    rw [if_pos heq.symm] at hs; cases hs
  · rintro ⟨hg, hne⟩
    refine ⟨⟨(app.param i).addr, .plain [mapArgVal (app.param i).kind (s i)]⟩, ?_, rfl⟩
    apply (mem_save_iff app hwf s _).2
    refine ⟨Item.scalar i, hi, hg, ?_⟩
    simp only [App.saveItem, hg, Bool.not_true, Bool.false_eq_true, ↓reduceIte]
    rw [if_neg (fun h => hne h.symm)]

/-- the line of a scalar port carries its current value (option indices as symbols) -/
theorem saved_scalar_value (app : App) (hwf : app.WF) (s : State) (i : Nat) (hi : Item.scalar i ∈ app.walk)
    (l : Line) (hl : l ∈ app.save s) (ha : l.addr = (app.param i).addr) :
    l = ⟨(app.param i).addr, .plain [mapArgVal (app.param i).kind (s i)]⟩ := by
  obtain ⟨it, hit, hr, hs⟩ := (mem_save_iff app hwf s l).1 hl
  have := saveItem_addr app s it l hs
  have hit' : it = Item.scalar i := item_of_addr app hwf it _ hit hi (by rw [← this, ha]; rfl)
  subst hit'
  simp only [App.itemReached] at hr
  simp only [App.saveItem, hr, Bool.not_true, Bool.false_eq_true, ↓reduceIte] at hs
  split at hs
  · cases hs
  · cases hs; rfl

/-- an array port has a line iff it is reached and some element differs from its default -/
theorem saved_array_iff (app : App) (hwf : app.WF) (s : State) (base : Path) (first len : Nat)
    (hi : Item.array base first len ∈ app.walk) :
    (∃ l ∈ app.save s, l.addr = base) ↔
      (guardsOn (app.param first) s = true ∧
        ∃ k, k < len ∧ s (first + k) ≠ evalDflt (app.param (first + k)) s) := by
  have hmap : ((List.range len).map (· + first)).map (fun i => evalDflt (app.param i) s) =
      ((List.range len).map (· + first)).map (fun i => s i) ↔
      ∀ k, k < len → evalDflt (app.param (first + k)) s = s (first + k) := by
    rw [List.map_inj_left]
    constructor
    · intro h k hk
      have := h (k + first) (List.mem_map.2 ⟨k, List.mem_range.2 hk, rfl⟩)
      rwa [Nat.add_comm] at this
    · intro h x hx
      obtain ⟨k, hk, rfl⟩ := List.mem_map.1 hx
      rw [Nat.add_comm]; exact h k (List.mem_range.1 hk)
  constructor
  · rintro ⟨l, hl, ha⟩
    obtain ⟨it, hit, hr, hs⟩ := (mem_save_iff app hwf s l).1 hl
    have := saveItem_addr app s it l hs
    have hit' : it = Item.array base first len := item_of_addr app hwf it _ hit hi (by rw [← this, ha]; rfl)
    subst hit'
    simp only [App.itemReached] at hr
    simp only [App.saveItem, hr, Bool.not_true, Bool.false_eq_true, ↓reduceIte] at hs
    refine ⟨hr, ?_⟩
    apply Classical.byContradiction
    intro hno
    have hall : ∀ k, k < len → evalDflt (app.param (first + k)) s = s (first + k) := by
      intro k hk
      apply Classical.byContradiction
      intro hne
      exact hno ⟨k, hk, fun h => hne h.symm⟩
    rw [if_pos (hmap.2 hall)] at hs
    cases hs
  · rintro ⟨hg, k, hk, hne⟩
    have hnot : ¬ (((List.range len).map (· + first)).map (fun i => evalDflt (app.param i) s) =
      ((List.range len).map (· + first)).map (fun i => s i)) := fun h => hne ((hmap.1 h k hk).symm)
    cases hsi : app.saveItem s (Item.array base first len) with
    | none =>
      simp only [App.saveItem, hg, Bool.not_true, Bool.false_eq_true, ↓reduceIte] at hsi
      rw [if_neg hnot] at hsi
      cases hsi
    | some l =>
      exact ⟨l, (mem_save_iff app hwf s l).2 ⟨_, hi, hg, hsi⟩, saveItem_addr app s _ l hsi⟩

end Rtosc.Save
