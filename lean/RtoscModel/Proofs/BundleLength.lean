/-
  C02 / C08 helper lemmas: `rtosc_message_length(msg, -1)` (`messageLengthU`, every read checked
  against the block) on a block that holds an encoded message followed by anything.
  Same walk as Proofs/OscLength.lean, with `m[p]? = some c` in place of `deref`.
-/
import RtoscModel.Proofs.OscLength
import RtoscModel.Osc.Bundle
namespace Rtosc.Osc
open Rtosc

theorem scanNulU_of_drop {m : Bytes} (s : Bytes) :
    ∀ (p fuel : Nat) (x : Bytes), m.drop p = s ++ 0 :: x → NoNul s → s.length < fuel →
      p + s.length < 4294967296 → scanNulU m fuel p = .ok (p + s.length) := by
  induction s with
  | nil =>
    intro p fuel x hd _ hf _
    obtain ⟨f, rfl⟩ : ∃ f, fuel = f + 1 := ⟨fuel - 1, by simp at hf; omega⟩
    simp [scanNulU, getElem?_of_drop (show m.drop p = 0 :: x by simpa using hd)]
  | cons c s ih =>
    intro p fuel x hd hs hf hlt
    obtain ⟨f, rfl⟩ : ∃ f, fuel = f + 1 := ⟨fuel - 1, by simp at hf; omega⟩
    simp only [List.length_cons] at hf hlt
    have hd' : m.drop (p + 1) = s ++ 0 :: x := by
      have := drop_add_of_drop (x := [c]) (y := s ++ 0 :: x) (by simpa using hd)
      simpa using this
    simp only [scanNulU, getElem?_of_drop (show m.drop p = c :: (s ++ 0 :: x) by simpa using hd),
      hs.head, if_false]
    rw [u32_id (by omega), ih (p + 1) f x hd' hs.tail (by omega) (by omega)]
    simp only [List.length_cons]; congr 1; omega

theorem nullWordU_of_drop {m : Bytes} (j : Nat) :
    ∀ (k p : Nat) (c : UInt8) (x : Bytes), m.drop (p + 1) = zeros j ++ c :: x → c ≠ 0 → j < k →
      p + 1 + j < 4294967296 → nullWordU m k p = .ok (p + 1 + j) := by
  induction j with
  | zero =>
    intro k p c x hd hc hk hlt
    obtain ⟨k', rfl⟩ : ∃ k', k = k' + 1 := ⟨k - 1, by omega⟩
    simp only [nullWordU]
    rw [u32_id (by omega), getElem?_of_drop (show m.drop (p + 1) = c :: x by simpa [zeros] using hd)]
    simp [hc]
  | succ j ih =>
    intro k p c x hd hc hk hlt
    obtain ⟨k', rfl⟩ : ∃ k', k = k' + 1 := ⟨k - 1, by omega⟩
    have hd0 : m.drop (p + 1) = 0 :: (zeros j ++ c :: x) := by rw [hd, zeros_succ]; simp
    have hd' : m.drop (p + 1 + 1) = zeros j ++ c :: x := by
      have := drop_add_of_drop (x := [0]) (y := zeros j ++ c :: x) (by simpa using hd0)
      simpa using this
    simp only [nullWordU]
    rw [u32_id (by omega), getElem?_of_drop hd0]
    simp only [ne_eq, not_true_eq_false, if_false]
    rw [ih k' (p + 1) c x hd' hc (by omega) (by omega)]; congr 1; omega

theorem tagsFromU_of_drop {m : Bytes} (s : Bytes) :
    ∀ (p fuel : Nat) (x : Bytes), m.drop p = s ++ 0 :: x → NoNul s → s.length < fuel →
      p + s.length < 4294967296 → tagsFromU m fuel p = .ok s := by
  induction s with
  | nil =>
    intro p fuel x hd _ hf _
    obtain ⟨f, rfl⟩ : ∃ f, fuel = f + 1 := ⟨fuel - 1, by simp at hf; omega⟩
    simp [tagsFromU, getElem?_of_drop (show m.drop p = 0 :: x by simpa using hd)]
  | cons c s ih =>
    intro p fuel x hd hs hf hlt
    obtain ⟨f, rfl⟩ : ∃ f, fuel = f + 1 := ⟨fuel - 1, by simp at hf; omega⟩
    simp only [List.length_cons] at hf hlt
    have hd' : m.drop (p + 1) = s ++ 0 :: x := by
      have := drop_add_of_drop (x := [c]) (y := s ++ 0 :: x) (by simpa using hd)
      simpa using this
    simp only [tagsFromU, getElem?_of_drop (show m.drop p = c :: (s ++ 0 :: x) by simpa using hd),
      hs.head, if_false]
    rw [u32_id (by omega), ih (p + 1) f x hd' hs.tail (by omega) (by omega)]

theorem rd32U_of_drop {m : Bytes} {p : Nat} {v : UInt32} {x : Bytes}
    (hd : m.drop p = be32 v ++ x) (hlt : p + 3 < 4294967296) : rd32U m p = some v := by
  obtain ⟨b0, b1, b2, b3, hb, hg⟩ := get32_be32 v
  rw [hb] at hd
  have d1 : m.drop (p + 1) = b1 :: b2 :: b3 :: x := by
    have := drop_add_of_drop (x := [b0]) (y := b1 :: b2 :: b3 :: x) (by simpa using hd); simpa using this
  have d2 : m.drop (p + 2) = b2 :: b3 :: x := by
    have := drop_add_of_drop (x := [b0, b1]) (y := b2 :: b3 :: x) (by simpa using hd); simpa using this
  have d3 : m.drop (p + 3) = b3 :: x := by
    have := drop_add_of_drop (x := [b0, b1, b2]) (y := b3 :: x) (by simpa using hd); simpa using this
  simp only [rd32U]
  rw [u32_id (n := p + 1) (by omega), u32_id (n := p + 2) (by omega), u32_id (n := p + 3) (by omega),
    getElem?_of_drop (show m.drop p = b0 :: b1 :: b2 :: b3 :: x by simpa using hd),
    getElem?_of_drop d1, getElem?_of_drop d2, getElem?_of_drop d3]
  simp only [hg]

theorem lenLoopU_zero (m : Bytes) (al : Nat) (ts : Bytes) (pos : Nat) :
    lenLoopU m al 0 ts pos = .ok pos := by simp [lenLoopU]

theorem lenLoopU_spec {m : Bytes} (al : Nat) (tags : Bytes) :
    ∀ (args : List Arg) (pos : Nat) (R : Bytes),
    Matches tags args → (∀ a ∈ args, a.WF) → m.drop pos = args.flatMap encArg ++ R →
    al % 4 = 0 → al ≤ pos → pos % 4 = 0 → pos + (args.flatMap encArg).length < 4294967296 →
    pos + (args.flatMap encArg).length < fuelU m →
    lenLoopU m al (nreserved tags) tags pos = .ok (pos + (args.flatMap encArg).length) := by
  induction tags with
  | nil =>
    intro args pos R hm _ _ _ _ _ _ _
    rw [matches_nil hm]; simp [nreserved, lenLoopU]
  | cons t ts ih =>
    intro args pos R hm hwf hd hal hle hp hlt hfu
    rcases kind_cases t with ⟨hk, hr, ht⟩ | ⟨hk, hr, ht⟩ | ⟨hk, hr, ht⟩ | ⟨hk, hr, ht⟩ | ⟨hk, hr, ht⟩ |
      ⟨hk, hr, h1, h2, h3, h4, h5, h6, h7, h8, h9, h10, h11⟩
    · obtain ⟨a, as, rfl, hak, hm'⟩ := matches_take hk hm
      obtain ⟨v, rfl⟩ := kind_w32_inv hak
      have hwf' : ∀ a ∈ as, a.WF := fun a ha => hwf a (List.mem_cons_of_mem _ ha)
      simp only [List.flatMap_cons, List.append_assoc, List.length_append] at hd hlt hfu ⊢
      have hd' := drop_add_of_drop hd
      simp only [encArg, be32_length] at hd' hlt hfu ⊢
      rw [nreserved_cons_true hr]
      have step : lenLoopU m al (nreserved ts + 1) (t :: ts) pos =
          lenLoopU m al (nreserved ts) ts (u32 (pos + 4)) := by
        rcases ht with rfl | rfl | rfl | rfl <;> simp [lenLoopU]
      rw [step, u32_id (by omega), ih as (pos + 4) R hm' hwf' hd' hal (by omega) (by omega) (by omega)
        (by omega)]
      congr 1; omega
    · obtain ⟨a, as, rfl, hak, hm'⟩ := matches_take hk hm
      obtain ⟨v, rfl⟩ := kind_w64_inv hak
      have hwf' : ∀ a ∈ as, a.WF := fun a ha => hwf a (List.mem_cons_of_mem _ ha)
      simp only [List.flatMap_cons, List.append_assoc, List.length_append] at hd hlt hfu ⊢
      have hd' := drop_add_of_drop hd
      simp only [encArg, be64_length] at hd' hlt hfu ⊢
      rw [nreserved_cons_true hr]
      have step : lenLoopU m al (nreserved ts + 1) (t :: ts) pos =
          lenLoopU m al (nreserved ts) ts (u32 (pos + 8)) := by
        rcases ht with rfl | rfl | rfl <;> simp [lenLoopU]
      rw [step, u32_id (by omega), ih as (pos + 8) R hm' hwf' hd' hal (by omega) (by omega) (by omega)
        (by omega)]
      congr 1; omega
    · obtain ⟨a, as, rfl, hak, hm'⟩ := matches_take hk hm
      obtain ⟨x, y, z, w, rfl⟩ := kind_midi_inv hak
      have hwf' : ∀ a ∈ as, a.WF := fun a ha => hwf a (List.mem_cons_of_mem _ ha)
      simp only [List.flatMap_cons, List.append_assoc, List.length_append] at hd hlt hfu ⊢
      have hd' := drop_add_of_drop hd
      simp only [encArg, List.length_cons, List.length_nil] at hd' hlt hfu ⊢
      rw [nreserved_cons_true hr]
      have step : lenLoopU m al (nreserved ts + 1) (t :: ts) pos =
          lenLoopU m al (nreserved ts) ts (u32 (pos + 4)) := by
        subst ht; simp [lenLoopU]
      rw [step, u32_id (by omega), ih as (pos + 4) R hm' hwf' hd' hal (by omega) (by omega) (by omega)
        (by omega)]
      congr 1; omega
    · -- str
      obtain ⟨a, as, rfl, hak, hm'⟩ := matches_take hk hm
      obtain ⟨s, rfl⟩ := kind_str_inv hak
      have hwf' : ∀ a ∈ as, a.WF := fun a ha => hwf a (List.mem_cons_of_mem _ ha)
      have hs : NoNul s := hwf (.str s) List.mem_cons_self
      simp only [List.flatMap_cons, List.append_assoc, List.length_append] at hd hlt hfu ⊢
      have hd' := drop_add_of_drop hd
      simp only [encArg, padStr_length] at hd' hlt hfu ⊢
      rw [nreserved_cons_true hr]
      have hd0 : m.drop pos = s ++ 0 :: (zeros (3 - s.length % 4) ++ (as.flatMap encArg ++ R)) := by
        rw [hd, encArg, padStr_eq]; simp
      have hq1 : scanNulU m (fuelU m) pos = .ok (pos + s.length) :=
        scanNulU_of_drop s pos (fuelU m) _ hd0 hs (by omega) (by omega)
      have step : lenLoopU m al (nreserved ts + 1) (t :: ts) pos =
          lenLoopU m al (nreserved ts) ts
            (u32 (pos + s.length + (4 - usub (pos + s.length) al % 4))) := by
        rcases ht with rfl | rfl <;> simp [lenLoopU, hq1]
      have hq4 : pos + s.length + (4 - (pos + s.length - al) % 4) =
          pos + (s.length + (4 - s.length % 4)) := by omega
      rw [step, usub_eq (by omega) (by omega), hq4, u32_id (by omega),
        ih as _ R hm' hwf' hd' hal (by omega) (by omega) (by omega) (by omega)]
      congr 1; omega
    · -- blob
      obtain ⟨a, as, rfl, hak, hm'⟩ := matches_take hk hm
      obtain ⟨d, rfl⟩ := kind_blob_inv hak
      have hwf' : ∀ a ∈ as, a.WF := fun a ha => hwf a (List.mem_cons_of_mem _ ha)
      have hb : d.length < 2147483648 := hwf (.blob d) List.mem_cons_self
      simp only [List.flatMap_cons, List.append_assoc, List.length_append] at hd hlt hfu ⊢
      have hd' := drop_add_of_drop hd
      have hl : (UInt32.ofNat d.length).toNat = d.length := by simp; omega
      have hrd : rd32U m pos = some (UInt32.ofNat d.length) := by
        apply rd32U_of_drop (x := d ++ (zeros (pad4 d.length) ++ (as.flatMap encArg ++ R))) _
          (by simp only [encArg, List.length_append, be32_length] at hlt; omega)
        rw [hd]; simp [encArg]
      simp only [encArg, List.length_append, be32_length, zeros_length, pad4] at hd' hlt hfu ⊢
      rw [nreserved_cons_true hr]; subst ht
      simp only [lenLoopU, show ¬ ((98 : UInt8) = 104 ∨ (98 : UInt8) = 116 ∨ (98 : UInt8) = 100) by decide,
        show ¬ ((98 : UInt8) = 109 ∨ (98 : UInt8) = 114 ∨ (98 : UInt8) = 99 ∨ (98 : UInt8) = 102 ∨ (98 : UInt8) = 105) by decide,
        show ¬ ((98 : UInt8) = 83 ∨ (98 : UInt8) = 115) by decide, if_false, if_true, hrd, hl]
      rw [u32_id (n := pos + 4) (by omega), u32_id (n := pos + 4 + d.length) (by omega),
        usub_eq (by omega) (by omega)]
      have hfin : (if (pos + 4 + d.length - al) % 4 ≠ 0 then
            u32 (pos + 4 + d.length + (4 - (pos + 4 + d.length - al) % 4)) else pos + 4 + d.length) =
          pos + (4 + d.length + (4 - d.length % 4) % 4) := by
        split
        · rw [u32_id (by omega)]; omega
        · omega
      rw [hfin, ih as _ R hm' hwf' hd' hal (by omega) (by omega) (by omega) (by omega)]
      congr 1; omega
    · rw [nreserved_cons_false hr]
      have hm' := (matches_skip hk).mp hm
      have := ih args pos R hm' hwf hd hal hle hp hlt hfu
      cases hn : nreserved ts with
      | zero =>
        rw [hn, lenLoopU_zero] at this
        rw [lenLoopU_zero]; exact this
      | succ n =>
        rw [hn] at this
        simp only [lenLoopU, h1, h2, h3, h4, h5, h6, h7, h8, h9, h10, h11, or_self, if_false]
        exact this

/-- the first byte differs from '#': the `&&` chain stops there -/
theorem magicU_head_ne (c : UInt8) (x : Bytes) (hc : c ≠ 35) :
    magicU (c :: x) bundleMagic 0 = some false := by
  simp [magicU, bundleMagic, hc]

theorem messageLengthU_msg (m : Msg) (rest : Bytes) (hwf : m.WF) (hnb : m.addr.head? ≠ some 35) :
    messageLengthU (Spec.encode m ++ rest) = .ok (Spec.encode m).length := by
  have hsz : (Spec.encode m).length < 4294967296 := hwf.size
  have hlen := encode_length m
  have hfuel : fuelU (Spec.encode m ++ rest) = (Spec.encode m).length + rest.length + 2 := by
    simp [fuelU]
  obtain ⟨c, s, hcs⟩ : ∃ c s, m.addr = c :: s := by
    cases h' : m.addr with
    | nil => exact absurd h' hwf.addr_ne
    | cons c s => exact ⟨c, s, rfl⟩
  have hc35 : c ≠ 35 := by intro hc; rw [hcs, hc] at hnb; simp at hnb
  have hl := encode_layout m rest
  have hmagic : magicU (Spec.encode m ++ rest) bundleMagic 0 = some false := by
    rw [hl, hcs, List.cons_append]; exact magicU_head_ne _ _ hc35
  unfold messageLengthU
  rw [hmagic]
  simp only
  have hA : Aoff m = m.addr.length + (4 - m.addr.length % 4) := padStr_length m.addr
  have hB : Boff m = m.tags.length + 1 + (4 - (m.tags.length + 1) % 4) := by
    simp [Boff, padStr_length]
  have haddr : NoNul m.addr := hwf.addr_nonul
  have hs1 : scanNulU (Spec.encode m ++ rest) (fuelU (Spec.encode m ++ rest)) 0 = .ok (0 + m.addr.length) := by
    exact scanNulU_of_drop m.addr 0 _ _ (by rw [List.drop_zero, hl]) haddr (by omega) (by omega)
  rw [hs1]
  simp only [Nat.zero_add]
  have hd1 : (Spec.encode m ++ rest).drop (m.addr.length + 1) =
      zeros (3 - m.addr.length % 4) ++ 44 :: (m.tags ++ 0 ::
        (zeros (3 - (m.tags.length + 1) % 4) ++ (m.args.flatMap encArg ++ rest))) := by
    have hx : (Spec.encode m ++ rest).drop 0 = (m.addr ++ [0]) ++ (zeros (3 - m.addr.length % 4) ++ 44 ::
        (m.tags ++ 0 :: (zeros (3 - (m.tags.length + 1) % 4) ++ (m.args.flatMap encArg ++ rest)))) := by
      rw [List.drop_zero, hl]; simp
    have := drop_add_of_drop hx; simpa using this
  have hnw : nullWordU (Spec.encode m ++ rest) 4 m.addr.length = .ok (Aoff m) := by
    rw [nullWordU_of_drop (3 - m.addr.length % 4) 4 m.addr.length 44 _ hd1 (by decide) (by omega) (by omega)]
    congr 1; omega
  rw [hnw]
  simp only
  have hcomma := drop_comma m rest
  rw [getElem?_of_drop hcomma]
  simp only [ne_eq, not_true_eq_false, if_false]
  have htags : NoNul m.tags := fun x hx => (isTag_ne_zero x (hwf.tags_ok x hx)).1
  have hdt := drop_tags m rest
  rw [u32_id (n := Aoff m + 1) (by omega)]
  rw [scanNulU_of_drop m.tags (Aoff m + 1) _ _ hdt htags (by omega) (by omega)]
  simp only
  rw [usub_eq (by omega) (by omega)]
  have hpos : u32 (Aoff m + 1 + m.tags.length + (4 - (Aoff m + 1 + m.tags.length - Aoff m) % 4)) =
      Aoff m + Boff m := by rw [u32_id (by omega)]; omega
  rw [hpos, tagsFromU_of_drop m.tags (Aoff m + 1) _ _ hdt htags (by omega) (by omega)]
  simp only
  rw [lenLoopU_spec (Aoff m) m.tags m.args (Aoff m + Boff m) rest hwf.matches_ hwf.args_ok (drop_vals m rest)
    (by omega) (by omega) (by omega) (by omega) (by omega)]
  congr 1; omega

end Rtosc.Osc
