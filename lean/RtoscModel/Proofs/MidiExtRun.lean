/-
  C20 (extension) — from single steps of arbitrary histories to the message SEQUENCE of a run of the
  executable model: the state and history in front of step `i` of `run P Sys.init ops` are those of the
  prefix `ops.take i`, and a run on which the trigger predicates are false is hazard-free at every prefix.
-/
import RtoscModel.Proofs.MidiExtEmit
set_option linter.unusedSimpArgs false
namespace Rtosc.Midi

theorem run_append {P : List PortSpec} : ∀ (a b : List Op) (s0 s : Sys) (outs : List (List Msg)),
    run P s0 (a ++ b) = some (s, outs) →
    ∃ s1 o1 o2, run P s0 a = some (s1, o1) ∧ run P s1 b = some (s, o2) ∧ outs = o1 ++ o2 ∧ o1.length = a.length := by
  intro a
  induction a with
  | nil => intro b s0 s outs h; exact ⟨s0, [], outs, rfl, by simpa using h, rfl, rfl⟩
  | cons op a ih =>
    intro b s0 s outs h
    simp only [List.cons_append, run] at h
    cases hs : step P s0 op with
    | none => simp [hs] at h
    | some r =>
      obtain ⟨s1, out⟩ := r
      simp only [hs] at h
      cases hr : run P s1 (a ++ b) with
      | none => simp [hr] at h
      | some r2 =>
        obtain ⟨s2, outs2⟩ := r2
        simp only [hr, Option.some.injEq, Prod.mk.injEq] at h
        obtain ⟨rfl, rfl⟩ := h
        obtain ⟨s3, o1, o2, h1, h2, rfl, hl⟩ := ih b s1 s2 outs2 hr
        exact ⟨s3, out :: o1, o2, by simp [run, hs, h1], h2, rfl, by simp [hl]⟩

theorem run_length {P : List PortSpec} : ∀ (ops : List Op) (s0 s : Sys) (outs : List (List Msg)),
    run P s0 ops = some (s, outs) → outs.length = ops.length := by
  intro ops s0 s outs h
  obtain ⟨s1, o1, o2, h1, h2, rfl, hl⟩ := run_append ops [] s0 s outs (by simpa using h)
  simp only [run, Option.some.injEq, Prod.mk.injEq] at h2
  obtain ⟨_, rfl⟩ := h2
  simpa using hl

theorem anyStep_prefix {P : List PortSpec} (hz : Sys → Op → Bool) : ∀ (a b : List Op) (s0 : Sys),
    anyStep hz P s0 (a ++ b) = false → anyStep hz P s0 a = false := by
  intro a
  induction a with
  | nil => intro b s0 _; rfl
  | cons op a ih =>
    intro b s0 h
    simp only [List.cons_append, anyStep, Bool.or_eq_false_iff] at h ⊢
    refine ⟨h.1, ?_⟩
    cases hs : step P s0 op with
    | none => rfl
    | some r => simp only [hs] at h ⊢; exact ih b r.1 h.2

theorem histOf_hazardFree {P : List PortSpec} : ∀ (ops : List Op) (s0 : Sys),
    anyStep hazard P s0 ops = false → HazardFree (histOf P s0 ops) := by
  intro ops
  induction ops with
  | nil => intro s0 _ x hx; simp [histOf] at hx
  | cons op ops ih =>
    intro s0 h x hx
    simp only [anyStep, Bool.or_eq_false_iff] at h
    simp only [histOf] at hx
    cases hs : step P s0 op with
    | none => simp [hs] at hx
    | some r =>
      obtain ⟨s1, out⟩ := r
      simp only [hs, List.mem_append, List.mem_singleton] at hx h
      rcases hx with hx | rfl
      · exact ih s1 h.2 x hx
      · exact h.1

/-- what a step of a run has to put out: a controller value what `EmitsComposed` says, any other step
    nothing -/
def StepEmits (P : List PortSpec) (h : List (Sys × Op)) (s : Sys) (op : Op) (out : List Msg) : Prop :=
  match op with
  | .cc id val => EmitsComposed P h s id val out
  | _ => out = []

/-- **The message sequence of a whole run**: a run of the executable model from the initial state on
    which neither trigger predicate fires puts out one list of messages per step, and the list of step
    `i` is what `StepEmits` demands for the state and the history in front of that step (those of the
    prefix `ops.take i`). -/
theorem run_stepEmits {P : List PortSpec} {ops s outs} (hP : ∀ p ∈ P, PortOk p) (hwf : ∀ op ∈ ops, op.wf P)
    (k1 : triggerK1 P ops = false) (k2 : triggerK2 P ops = false)
    (hr : run P Sys.init ops = some (s, outs)) :
    outs.length = ops.length ∧
    ∀ i op, ops[i]? = some op →
      ∃ si oi out, run P Sys.init (ops.take i) = some (si, oi) ∧ outs[i]? = some out ∧
        StepEmits P (histOf P Sys.init (ops.take i)) si op out := by
  refine ⟨run_length ops _ _ _ hr, ?_⟩
  intro i op hi
  have hlt : i < ops.length := (List.getElem?_eq_some_iff.mp hi).1
  have hsplit : ops = ops.take i ++ op :: ops.drop (i + 1) := by
    have h1 : ops.drop i = op :: ops.drop (i + 1) := by
      rw [List.drop_eq_getElem_cons hlt]
      congr 1
      exact Option.some.inj ((List.getElem?_eq_getElem hlt).symm.trans hi)
    rw [← h1, List.take_append_drop]
  have hfree : anyStep hazard P Sys.init ops = false := by
    rw [anyStep_hazard]; simp only [triggerK1, triggerK2] at k1 k2; simp [k1, k2]
  rw [hsplit] at hr hfree
  obtain ⟨si, oi, o2, h1, h2, rfl, hl⟩ := run_append _ _ _ _ _ hr
  have hfp := histOf_hazardFree _ _ (anyStep_prefix hazard _ _ _ hfree)
  have hwfp : ∀ o ∈ ops.take i, o.wf P := fun o ho => hwf o (List.mem_of_mem_take ho)
  have t : Trace P (histOf P Sys.init (ops.take i)) si := by
    simpa using trace_histOf (ops.take i) [] Sys.init si oi Trace.init hwfp h1
  simp only [run] at h2
  cases hs : step P si op with
  | none => simp [hs] at h2
  | some r =>
    obtain ⟨s2, out⟩ := r
    simp only [hs] at h2
    cases hr2 : run P s2 (ops.drop (i + 1)) with
    | none => simp [hr2] at h2
    | some r2 =>
      obtain ⟨s3, o3⟩ := r2
      simp only [hr2, Option.some.injEq, Prod.mk.injEq] at h2
      obtain ⟨_, rfl⟩ := h2
      have hli : oi.length = i := by rw [hl]; exact List.length_take_of_le (Nat.le_of_lt hlt)
      refine ⟨si, oi, out, h1, ?_, ?_⟩
      · rw [List.getElem?_append_right (by omega)]; simp [hli]
      · have hopwf : op.wf P := hwf op (List.mem_of_getElem? hi)
        cases op with
        | cc id val => exact emitsComposed_of_trace hP t hfp hopwf hs
        | map a k => exact nocc_step_silent hs (by intro _ _ h; cases h)
        | unmap a k => exact nocc_step_silent hs (by intro _ _ h; cases h)
        | clear => exact nocc_step_silent hs (by intro _ _ h; cases h)
        | deliverRT => exact nocc_step_silent hs (by intro _ _ h; cases h)
        | deliverNRT => exact nocc_step_silent hs (by intro _ _ h; cases h)

end Rtosc.Midi
