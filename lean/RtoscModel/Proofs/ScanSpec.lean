/-
  C11 — from the specification (`Pretty/C11Spec.lean`) to the proof interface:

  * `Tok.proved bl t`: the spellings (with the blanks they get from the layout) for which
    per-token agreement is proved; `valOK_tok`: for those, `ValOK (t.text bl) t.cell`;
  * `plainFrom L i s`: all values of the sentence are scalars with proved spellings;
    `argsLay_values`: the text of such a sentence is a text of good arguments separated by gaps
    (`ArgsLay`), and `cells_plain`: its denotation is the list of the values' cells.
-/
import RtoscModel.Proofs.ScanList
import RtoscModel.Proofs.ScanTokens2
import RtoscModel.Proofs.ScanRep
namespace Rtosc.Pretty.C11
open Rtosc Rtosc.Libc Rtosc.Pretty
open Rtosc.ArgVal (Cell Item flatList)

/-! ### spellings with proved agreement -/

/-- the separators of the bytes of a blob under a layout -/
def blobSeps (bl : List Nat → Blank) : Nat → Bytes → List (Bytes × UInt8)
  | _, [] => []
  | k, b :: r => (blank1Bytes (bl [k]), b) :: blobSeps bl (k + 1) r

/-- the spellings for which scanner / checker agreement is proved (all values of the type;
    `bl`: the blanks the layout puts inside the value) -/
def Tok.proved (bl : List Nat → Blank) : Tok → Bool
  | .int _ .dec _ => true                           -- 42  -42  42i
  | .huge _ .dec => true                            -- 42h
  | .chr _ _ => true                                -- 'x'  '\n'  '\''  '\\'  '\0'
  | .str _ _ => true                                -- "…" with every escape sequence, "…"S, and any
                                                    --   concatenation "…"\ "…" with any white space
  | .ident _ => true                                -- identifiers
  | .kw _ => true                                   -- true false nil inf now immediately
  | .color _ false => true                          -- #8badf00d
  | .midi _ _ _ _ true =>                           -- MIDI [0x01 0x02 0x03 0x04]
    bl [0] == [Ws.sp] && bl [1] == [] && bl [2] == [] && bl [3] == [] && bl [4] == [] && bl [5] == []
  | .blob _ => bl [0] == [Ws.sp] && bl [1] == [] && bl [2] == []   -- BLOB [n 0x.. …], any white space between the bytes
  | _ => false

theorem intText_dec (v : Int) : intText .dec v = fmtDec v := by
  simp only [intText, magText, fmtDec]
  split <;> simp

theorem scharVal_small (c : UInt8) (h : c ≤ 126) : scharVal c = (c.toNat : Int) := by
  revert h; revert c; apply UInt8.forall_of_fin; decide +kernel

theorem charEsc_facts (c : UInt8) (h : (asEscapedChar c true).isSome = true) :
    (getEscapedChar ((asEscapedChar c true).getD 63) true ≠ 0 ∨ (asEscapedChar c true).getD 63 = 48) ∧
    scharVal (getEscapedChar ((asEscapedChar c true).getD 63) true) = (c.toNat : Int) := by
  revert h; revert c; apply UInt8.forall_of_fin; decide +kernel

theorem strEsc_facts (c : UInt8) (h : (asEscapedChar c false).isSome = true) :
    getEscapedChar ((asEscapedChar c false).getD 63) false ≠ 0 ∧
    getEscapedChar ((asEscapedChar c false).getD 63) false = c := by
  revert h; revert c; apply UInt8.forall_of_fin; decide +kernel

/-- one part of a string of the specification is a `Seg` -/
theorem seg_part (p : List StrCh) (h : p.all StrCh.ok = true) :
    Seg (p.map StrCh.text).flatten (p.map StrCh.value) := by
  induction p with
  | nil => exact .nil
  | cons x r ih =>
    simp only [List.all_cons, Bool.and_eq_true] at h
    have ih' := ih h.2
    cases x with
    | raw c =>
      have hc := h.1
      simp only [StrCh.ok, Bool.and_eq_true, decide_eq_true_eq, bne_iff_ne, ne_eq] at hc
      simpa [StrCh.text, StrCh.value] using Seg.plain c _ _ hc.1.2 hc.2 ih'
    | esc c =>
      have hc := h.1
      simp only [StrCh.ok] at hc
      obtain ⟨h0, hv⟩ := strEsc_facts c hc
      have := Seg.esc ((asEscapedChar c false).getD 63) _ _ h0 ih'
      rw [hv] at this
      simpa [StrCh.text, StrCh.value] using this

theorem isspace_blank (b : Blank) : ∀ c ∈ blankBytes b, isspace c = true := by
  intro c hc
  simp only [blankBytes, List.mem_map] at hc
  obtain ⟨w, _, rfl⟩ := hc
  exact isspace_ws w

/-- the parts of a string of the specification, joined under any layout, are a `StrBodyW` -/
theorem strBodyW_parts (bl : List Nat → Blank) : ∀ (parts : List (List StrCh)) (k : Nat), parts ≠ [] →
    parts.all (fun p => p.all StrCh.ok) = true →
    ∃ T, partsText bl k parts = 34 :: T ++ [34] ∧ StrBodyW T ((parts.flatten).map StrCh.value) := by
  intro parts
  induction parts with
  | nil => intro k h; exact absurd rfl h
  | cons p r ih =>
    intro k _ hall
    simp only [List.all_cons, Bool.and_eq_true] at hall
    have hseg := seg_part p hall.1
    cases r with
    | nil =>
      exact ⟨(p.map StrCh.text).flatten, by simp [partsText, partText], by simpa using StrBodyW.last _ _ hseg⟩
    | cons q r' =>
      obtain ⟨T', hT', hB'⟩ := ih (k + 1) (by simp) hall.2
      refine ⟨(p.map StrCh.text).flatten ++ 34 :: 92 :: blankBytes (bl [k]) ++ 34 :: T', ?_, ?_⟩
      · simp [partsText, partText, hT']
      · have := StrBodyW.brk _ _ (blankBytes (bl [k])) T' _ hseg (isspace_blank _) hB'
        simpa using this

theorem hex8_digits (v : Nat) : hexDigits8 v = hex8 v := by
  simp only [hexDigits8, hex8, fmtHex2, List.cons_append, List.nil_append]
  have e1 : v / 16777216 % 256 / 16 % 16 = v / 268435456 % 16 := by omega
  have e2 : v / 16777216 % 256 % 16 = v / 16777216 % 16 := by omega
  have e3 : v / 65536 % 256 / 16 % 16 = v / 1048576 % 16 := by omega
  have e4 : v / 65536 % 256 % 16 = v / 65536 % 16 := by omega
  have e5 : v / 256 % 256 / 16 % 16 = v / 4096 % 16 := by omega
  have e6 : v / 256 % 256 % 16 = v / 256 % 16 := by omega
  have e7 : v % 256 / 16 % 16 = v / 16 % 16 := by omega
  have e8 : v % 256 % 16 = v % 16 := by omega
  rw [e1, e2, e3, e4, e5, e6, e7, e8]

theorem blobSeps_body (bl : List Nat → Blank) : ∀ (k : Nat) (data : Bytes),
    blobBody (blobSeps bl k data) = blobBytesText bl k data ∧
    (blobSeps bl k data).map Prod.snd = data ∧ (blobSeps bl k data).length = data.length ∧
    ∀ p ∈ blobSeps bl k data, WSep p.1 := by
  intro k data
  induction data generalizing k with
  | nil => simp [blobSeps, blobBody, blobBytesText]
  | cons b r ih =>
    obtain ⟨h1, h2, h3, h4⟩ := ih (k + 1)
    refine ⟨?_, ?_, ?_, ?_⟩
    · simp [blobSeps, blobBody, blobBytesText, h1, hexByteText, fmtHex2]
    · simp [blobSeps, h2]
    · simp [blobSeps, h3]
    · intro p hp
      simp only [blobSeps, List.mem_cons] at hp
      rcases hp with rfl | hp
      · refine ⟨?_, ?_⟩
        · simp only [blank1Bytes]; split <;> simp_all [blankBytes]
        · intro c hc
          simp only [blank1Bytes] at hc
          split at hc
          · simp at hc; subst hc; decide
          · simp only [blankBytes, List.mem_map] at hc
            obtain ⟨w, _, rfl⟩ := hc
            exact isspace_ws w
      · exact h4 p hp

theorem fmtDec_nat (n : Nat) : fmtDec (n : Int) = fmtNat n := by
  unfold fmtDec
  have : ¬ ((n : Int) < 0) := by omega
  simp [this]

/-- **per-token agreement** for every proved spelling of the specification -/
theorem valOK_tok (bl : List Nat → Blank) (t : Tok) (hwf : t.wf = true) (hp : t.proved bl = true) :
    ValOK (t.text bl) t.cell := by
  cases t with
  | int v base sfx =>
    cases base <;> simp [Tok.proved] at hp
    simp only [Tok.wf, Bool.and_eq_true, decide_eq_true_eq] at hwf
    cases sfx with
    | false => simpa [Tok.text, Tok.cell, intText_dec] using valOK_int v hwf.1 hwf.2
    | true => simpa [Tok.text, Tok.cell, intText_dec] using valOK_int_i v hwf.1 hwf.2
  | huge v base =>
    cases base <;> simp [Tok.proved] at hp
    simp only [Tok.wf, Bool.and_eq_true, decide_eq_true_eq] at hwf
    simpa [Tok.text, Tok.cell, intText_dec] using valOK_huge v hwf.1.1 hwf.1.2
  | flt dbl sfx l exact => simp [Tok.proved] at hp
  | chr c esc =>
    cases esc with
    | false =>
      simp only [Tok.wf, Bool.false_eq_true, ↓reduceIte, Bool.and_eq_true, decide_eq_true_eq, bne_iff_ne, ne_eq] at hwf
      have := valOK_char_plain c hwf.2
      rw [scharVal_small c hwf.1.1.2] at this
      simpa [Tok.text, Tok.cell] using this
    | true =>
      simp only [Tok.wf, ↓reduceIte] at hwf
      obtain ⟨h1, h2⟩ := charEsc_facts c hwf
      have := valOK_char_esc _ h1
      rw [h2] at this
      simpa [Tok.text, Tok.cell] using this
  | str sym parts =>
    simp only [Tok.wf, Bool.and_eq_true, Bool.not_eq_eq_eq_not, Bool.not_true] at hwf
    have hne : parts ≠ [] := by
      intro h; rw [h] at hwf; simp at hwf
    obtain ⟨T, hT, hB⟩ := strBodyW_parts bl parts 0 hne hwf.2
    cases sym with
    | false =>
      have := valOK_stringW _ _ hB
      simpa [Tok.text, Tok.cell, hT] using this
    | true =>
      have := valOK_symbol_quotedW _ _ hB
      simpa [Tok.text, Tok.cell, hT] using this
  | ident name =>
    simp only [Tok.wf, Bool.and_eq_true, Bool.not_eq_eq_eq_not, Bool.not_true] at hwf
    have hq : symbolPlain name = true := by
      unfold symbolPlain
      have hall : (name.drop 1).all isIdentChar = true := by
        rw [List.all_eq_true] at hwf ⊢
        intro x hx; exact hwf.1.2 x (List.mem_of_mem_drop hx)
      have hres : reservedWords.contains name = false := by
        have : reserved = reservedWords := rfl
        rw [← this]; exact hwf.2
      rw [hwf.1.1, hall, hres]; rfl
    simpa [Tok.text, Tok.cell] using valOK_ident name hq
  | kw k =>
    cases k
    · simpa [Tok.text, Tok.cell, Kw.text, Kw.cell] using valOK_true
    · simpa [Tok.text, Tok.cell, Kw.text, Kw.cell] using valOK_false
    · simpa [Tok.text, Tok.cell, Kw.text, Kw.cell] using valOK_nil
    · simpa [Tok.text, Tok.cell, Kw.text, Kw.cell] using valOK_inf
    · simpa [Tok.text, Tok.cell, Kw.text, Kw.cell] using valOK_now
    · simpa [Tok.text, Tok.cell, Kw.text, Kw.cell] using valOK_immediately
  | color v upper =>
    cases upper <;> simp [Tok.proved] at hp
    simp only [Tok.wf, decide_eq_true_eq] at hwf
    have h1 : -2147483648 ≤ toI32 (v : Int) := by unfold toI32; omega
    have h2 : toI32 (v : Int) ≤ 2147483647 := by unfold toI32; omega
    have hu : (toI32 (v : Int) % 4294967296).toNat = v := by unfold toI32; omega
    have := valOK_color (toI32 v) h1 h2
    rw [hu] at this
    simpa [Tok.text, Tok.cell, hex8_digits] using this
  | midi a b c d pad =>
    cases pad <;> simp [Tok.proved] at hp
    obtain ⟨⟨⟨⟨⟨h0, h1⟩, h2⟩, h3⟩, h4⟩, h5⟩ := hp
    have := valOK_midi a b c d
    simpa [Tok.text, Tok.cell, h0, h1, h2, h3, h4, h5, blankBytes, blank1Bytes, midiText, lit_midi, hexByteText, Ws.byte]
      using this
  | blob data =>
    simp only [Tok.proved, Bool.and_eq_true, beq_iff_eq] at hp
    obtain ⟨⟨h0, h1⟩, h2⟩ := hp
    simp only [Tok.wf, decide_eq_true_eq] at hwf
    obtain ⟨e1, e2, e3, e4⟩ := blobSeps_body bl 3 data
    have := valOK_blob (blobSeps bl 3 data) e4 (by rw [e3]; exact hwf)
    rw [e2, e3] at this
    have etext : blobText ((data.length : Nat) : Int) (blobSeps bl 3 data) = (Tok.blob data).text bl := by
      have hB : lit "BLOB" = [66, 76, 79, 66] := by decide
      simp [Tok.text, blobText, e1, h0, h1, h2, blankBytes, Ws.byte, fmtDec_nat, hB]
    rw [etext] at this
    simpa [Tok.cell] using this

/-! ### sentences of scalar values -/

/-- all values of the sentence (numbered from `i`) are scalars with proved spellings -/
def plainFrom (L : Layout) : Nat → Sentence → Prop
  | _, [] => True
  | i, x :: r => (∃ t, x = SVal.val t ∧ t.wf = true ∧ t.proved (sub L.blank i) = true) ∧ plainFrom L (i + 1) r

/-- the cells of a sentence of scalar values -/
def valCells : Sentence → List Cell
  | [] => []
  | .val t :: r => t.cell :: valCells r
  | _ :: r => valCells r

/-- the token texts and cells of a sentence of scalar values -/
def valArgs (L : Layout) : Nat → Sentence → List (Bytes × List Cell)
  | _, [] => []
  | i, .val t :: r => (t.text (sub L.blank i), [t.cell]) :: valArgs L (i + 1) r
  | i, _ :: r => valArgs L (i + 1) r

theorem allCells_valArgs (L : Layout) : ∀ (i : Nat) (s : Sentence), plainFrom L i s →
    allCells (valArgs L i s) = valCells s := by
  intro i s
  induction s generalizing i with
  | nil => intro _; rfl
  | cons x r ih =>
    intro h
    obtain ⟨⟨t, rfl, _, _⟩, hr⟩ := h
    have := ih (i + 1) hr
    simp only [allCells] at this
    simp [valArgs, valCells, allCells, this]

/-- a separator of the specification is a separating run of gaps -/
def fixSep (g : List Gap) : List Gap :=
  match g with
  | .ws w :: r => .ws w :: r
  | g => .ws .sp :: g

theorem sepBytes_fix (g : List Gap) : sepBytes g = gapsBytes (fixSep g) ∧ SepGaps (fixSep g) := by
  cases g with
  | nil => exact ⟨by simp [sepBytes, fixSep, gapsBytes, Gap.bytes, Ws.byte], ⟨.sp, [], rfl⟩⟩
  | cons x r =>
    cases x with
    | ws w => exact ⟨by simp [sepBytes, fixSep], ⟨w, r, rfl⟩⟩
    | comment b => exact ⟨by simp [sepBytes, fixSep, gapsBytes, Gap.bytes, Ws.byte], ⟨.sp, _, rfl⟩⟩

theorem tail_trail (g : List Gap) (last : Option Bytes) : Tail (trailBytes g last) := by
  cases last with
  | none =>
    cases g with
    | nil => simpa [trailBytes] using Tail.none
    | cons x r =>
      obtain ⟨e, hs⟩ := sepBytes_fix (x :: r)
      have : trailBytes (x :: r) none = sepBytes (x :: r) := by simp [trailBytes]
      rw [this, e]; exact Tail.gaps _ hs
  | some b =>
    obtain ⟨e, hs⟩ := sepBytes_fix g
    have : trailBytes g (some b) = sepBytes g ++ 37 :: commentBody b := by
      cases g <;> simp [trailBytes]
    rw [this, e]; exact Tail.last _ b hs

/-- the values of a non-empty sentence of proved scalars, followed by a tail, are a text of
    good arguments -/
theorem argsLay_values (L : Layout) (tail : Bytes) (htail : Tail tail) :
    ∀ (s : Sentence) (i : Nat), s ≠ [] → plainFrom L i s →
      ArgsLay (valArgs L i s) (valuesText L i s ++ tail) := by
  intro s
  induction s with
  | nil => intro i h; exact absurd rfl h
  | cons x r ih =>
    intro i _ hpl
    obtain ⟨⟨t, rfl, hwf, hp⟩, hr⟩ := hpl
    have harg : Arg11 (t.text (sub L.blank i)) [t.cell] := (valOK_tok _ t hwf hp).arg11
    cases r with
    | nil =>
      simpa [valArgs, valuesText, SVal.text] using ArgsLay.one _ _ tail harg htail
    | cons y r' =>
      obtain ⟨e, hs⟩ := sepBytes_fix (L.sep i)
      have := ih (i + 1) (by simp) hr
      have h2 := ArgsLay.cons _ _ (fixSep (L.sep i)) _ _ harg hs this
      simpa [valArgs, valuesText, SVal.text, e, List.append_assoc] using h2

/-- the denotation of a sentence of scalar values: the values -/
theorem denoteElems_plain (L : Layout) : ∀ (s : Sentence) (i : Nat) (prev : Option Cell), plainFrom L i s →
    denoteElems false prev s = some ((valCells s).map Item.val) := by
  intro s
  induction s with
  | nil => intro i prev _; simp [denoteElems, valCells]
  | cons x r ih =>
    intro i prev hpl
    obtain ⟨⟨t, rfl, _, _⟩, hr⟩ := hpl
    have := ih (i + 1) (some t.cell) hr
    simp [denoteElems, SVal.denote1, this, valCells]

/-! ### sentences of scalar values and repetitions `nxA` of them -/

/-- values with proved agreement: a scalar in a proved spelling, or `nxA` with such a scalar `A` -/
def SVal.proved (bl : List Nat → Blank) : SVal → Prop
  | .val t => t.wf = true ∧ t.proved bl = true
  | .rep n (.val t) => 1 ≤ n ∧ n ≤ 2147483647 ∧ t.wf = true ∧ t.proved (sub bl 0) = true
  | _ => False

/-- the cells such a value denotes -/
def SVal.pcells : SVal → List Cell
  | .val t => [t.cell]
  | .rep n (.val t) => [Cell.rep n 0, t.cell]
  | _ => []

/-- the structured value it denotes, and the left neighbour it provides -/
def SVal.pitem : SVal → Item
  | .val t => .val t.cell
  | .rep n (.val t) => .rep n (.val t.cell)
  | _ => .val (Cell.flag .N)

theorem SVal.proved.arg11 {bl : List Nat → Blank} {x : SVal} (h : x.proved bl) : Arg11 (x.text bl) x.pcells := by
  cases x with
  | val t =>
    simp only [SVal.proved] at h
    simpa [SVal.text, SVal.pcells] using (valOK_tok bl t h.1 h.2).arg11
  | rep n y =>
    cases y with
    | val t =>
      simp only [SVal.proved] at h
      obtain ⟨h1, h2, hwf, hp⟩ := h
      have := ((valOK_tok _ t hwf hp).arg11).rep n h1 h2
      simpa [SVal.text, SVal.pcells, repText, fmtDec_nat] using this
    | rep _ _ => simp [SVal.proved] at h
    | range _ _ => simp [SVal.proved] at h
    | arr _ _ => simp [SVal.proved] at h
  | range _ _ => simp [SVal.proved] at h
  | arr _ _ => simp [SVal.proved] at h

/-- the denotation of a proved value: its item (with the cells as memory layout) -/
theorem SVal.proved.denote1 {bl : List Nat → Blank} {x : SVal} (h : x.proved bl) :
    x.pitem.flat = x.pcells ∧
    ∃ p, ∀ (prev : Option Cell) (r : List SVal),
      denoteElems false prev (x :: r) = (denoteElems false p r).map (x.pitem :: ·) := by
  cases x with
  | val t =>
    refine ⟨by simp [SVal.pitem, SVal.pcells, Rtosc.ArgVal.Item.flat], some t.cell, ?_⟩
    intro prev r
    cases hr : denoteElems false (some t.cell) r <;> simp [denoteElems, SVal.denote1, SVal.pitem, hr]
  | rep n y =>
    cases y with
    | val t =>
      simp only [SVal.proved] at h
      obtain ⟨h1, h2, _, _⟩ := h
      refine ⟨by simp [SVal.pitem, SVal.pcells, Rtosc.ArgVal.Item.flat], some t.cell, ?_⟩
      intro prev r
      cases hr : denoteElems false (some t.cell) r <;> simp [denoteElems, SVal.denote1, SVal.pitem, h1, h2, hr]
    | rep _ _ => simp [SVal.proved] at h
    | range _ _ => simp [SVal.proved] at h
    | arr _ _ => simp [SVal.proved] at h
  | range _ _ => simp [SVal.proved] at h
  | arr _ _ => simp [SVal.proved] at h

/-- all values of the sentence (numbered from `i`) have proved agreement -/
def provedFrom (L : Layout) : Nat → Sentence → Prop
  | _, [] => True
  | i, x :: r => x.proved (sub L.blank i) ∧ provedFrom L (i + 1) r

def pCells : Sentence → List Cell
  | [] => []
  | x :: r => x.pcells ++ pCells r

def pArgs (L : Layout) : Nat → Sentence → List (Bytes × List Cell)
  | _, [] => []
  | i, x :: r => (x.text (sub L.blank i), x.pcells) :: pArgs L (i + 1) r

theorem allCells_pArgs (L : Layout) : ∀ (i : Nat) (s : Sentence), allCells (pArgs L i s) = pCells s := by
  intro i s
  induction s generalizing i with
  | nil => rfl
  | cons x r ih =>
    have := ih (i + 1)
    simp only [allCells] at this
    simp [pArgs, pCells, allCells, this]

theorem argsLay_proved (L : Layout) (tail : Bytes) (htail : Tail tail) :
    ∀ (s : Sentence) (i : Nat), s ≠ [] → provedFrom L i s →
      ArgsLay (pArgs L i s) (valuesText L i s ++ tail) := by
  intro s
  induction s with
  | nil => intro i h; exact absurd rfl h
  | cons x r ih =>
    intro i _ hpl
    obtain ⟨hx, hr⟩ := hpl
    have harg := hx.arg11
    cases r with
    | nil =>
      simpa [pArgs, valuesText] using ArgsLay.one _ _ tail harg htail
    | cons y r' =>
      obtain ⟨e, hs⟩ := sepBytes_fix (L.sep i)
      have := ih (i + 1) (by simp) hr
      have h2 := ArgsLay.cons _ _ (fixSep (L.sep i)) _ _ harg hs this
      simpa [pArgs, valuesText, e, List.append_assoc] using h2

def pItems : Sentence → List Item
  | [] => []
  | x :: r => x.pitem :: pItems r

theorem denoteElems_proved (L : Layout) : ∀ (s : Sentence) (i : Nat) (prev : Option Cell), provedFrom L i s →
    denoteElems false prev s = some (pItems s) := by
  intro s
  induction s with
  | nil => intro i prev _; simp [denoteElems, pItems]
  | cons x r ih =>
    intro i prev hpl
    obtain ⟨hx, hr⟩ := hpl
    obtain ⟨_, p, hstep⟩ := hx.denote1
    rw [hstep prev r, ih (i + 1) p hr]
    simp [pItems]

theorem flatList_pItems (L : Layout) : ∀ (s : Sentence) (i : Nat), provedFrom L i s → flatList (pItems s) = pCells s := by
  intro s
  induction s with
  | nil => intro i _; rfl
  | cons x r ih =>
    intro i hpl
    obtain ⟨hx, hr⟩ := hpl
    obtain ⟨hf, _⟩ := hx.denote1
    simp [pItems, pCells, flatList, hf, ih (i + 1) hr]

theorem cells_proved (L : Layout) (s : Sentence) (h : provedFrom L 0 s) : cells s = some (pCells s) := by
  simp [cells, denote, denoteElems_proved L s 0 none h, flatList_pItems L s 0 h]

theorem plain_proved (L : Layout) : ∀ (s : Sentence) (i : Nat), plainFrom L i s →
    provedFrom L i s ∧ pCells s = valCells s := by
  intro s
  induction s with
  | nil => intro i _; exact ⟨trivial, rfl⟩
  | cons x r ih =>
    intro i h
    obtain ⟨⟨t, rfl, hwf, hp⟩, hr⟩ := h
    obtain ⟨h1, h2⟩ := ih (i + 1) hr
    exact ⟨⟨⟨hwf, hp⟩, h1⟩, by simp [pCells, valCells, SVal.pcells, h2]⟩

theorem flatList_vals (cs : List Cell) : flatList (cs.map Item.val) = cs := by
  induction cs with
  | nil => rfl
  | cons c r ih => simp [flatList, Rtosc.ArgVal.Item.flat, ih]

theorem cells_plain (L : Layout) (s : Sentence) (h : plainFrom L 0 s) : cells s = some (valCells s) := by
  simp [cells, denote, denoteElems_plain L s 0 none h, flatList_vals]

end Rtosc.Pretty.C11
