/-
  C11 — from the specification (`Pretty/C11Spec.lean`) to the proof interface:

  * `Tok.proved bl t`: the spellings (with the blanks they get from the layout) for which
    per-token agreement is proved; `valOK_tok`: for those, `ValOK (t.text bl) t.cell`;
  * `plainFrom L i s`: all values of the sentence are scalars with proved spellings;
    `argsLay_values`: the text of such a sentence is a text of good arguments separated by gaps
    (`ArgsLay`), and `cells_plain`: its denotation is the list of the values' cells.
-/
import RtoscModel.Proofs.ScanList
import RtoscModel.Proofs.ScanTokens2
import RtoscModel.Proofs.ScanTokensHex
import RtoscModel.Proofs.ScanRep
import RtoscModel.Proofs.ScanArray
namespace Rtosc.Pretty.C11
open Rtosc Rtosc.Libc Rtosc.Pretty
open Rtosc.ArgVal (Cell Item flatList)

/-! ### spellings with proved agreement -/

/-- the separators of the bytes of a blob under a layout -/
def blobSeps (bl : List Nat → Blank) : Nat → Bytes → List (Bytes × UInt8)
  | _, [] => []
  | k, b :: r => (blank1Bytes (bl [k]), b) :: blobSeps bl (k + 1) r

/-- the spellings for which scanner / checker agreement is proved (all values of the type;
    `bl`: the blanks the layout puts inside the value) -/
def Tok.proved (bl : List Nat → Blank) : Tok → Bool
  | .int _ .dec _ => true                           -- 42  -42  42i
  | .int _ .hex false => true                       -- 0x2a  -0x2a
  | .int _ .hexUp false => true                     -- 0x2A
  | .int _ .hex2c false => true                     -- 0xffffffd6 (two's complement of -42)
  | .huge _ .dec => true                            -- 42h
  | .chr _ _ => true                                -- 'x'  '\n'  '\''  '\\'  '\0'
  | .str _ _ => true                                -- "…" with every escape sequence, "…"S, and any
                                                    --   concatenation "…"\ "…" with any white space
  | .ident _ => true                                -- identifiers
  | .kw _ => true                                   -- true false nil inf now immediately
  | .color _ false => true                          -- #8badf00d
  | .midi _ _ _ _ true =>                           -- MIDI [0x01 0x02 0x03 0x04]
    bl [0] == [Ws.sp] && bl [1] == [] && bl [2] == [] && bl [3] == [] && bl [4] == [] && bl [5] == []
  | .blob _ => bl [0] == [Ws.sp] && bl [1] == [] && bl [2] == []   -- BLOB [n 0x.. …], any white space between the bytes
  | _ => false

theorem intText_dec (v : Int) : intText .dec v = fmtDec v := by
  simp only [intText, magText, fmtDec]
  split <;> simp

theorem scharVal_small (c : UInt8) (h : c ≤ 126) : scharVal c = (c.toNat : Int) := by
  revert h; revert c; apply UInt8.forall_of_fin; decide +kernel

theorem charEsc_facts (c : UInt8) (h : (asEscapedChar c true).isSome = true) :
    (getEscapedChar ((asEscapedChar c true).getD 63) true ≠ 0 ∨ (asEscapedChar c true).getD 63 = 48) ∧
    scharVal (getEscapedChar ((asEscapedChar c true).getD 63) true) = (c.toNat : Int) := by
  revert h; revert c; apply UInt8.forall_of_fin; decide +kernel

theorem strEsc_facts (c : UInt8) (h : (asEscapedChar c false).isSome = true) :
    getEscapedChar ((asEscapedChar c false).getD 63) false ≠ 0 ∧
    getEscapedChar ((asEscapedChar c false).getD 63) false = c := by
  revert h; revert c; apply UInt8.forall_of_fin; decide +kernel

/-- one part of a string of the specification is a `Seg` -/
theorem seg_part (p : List StrCh) (h : p.all StrCh.ok = true) :
    Seg (p.map StrCh.text).flatten (p.map StrCh.value) := by
  induction p with
  | nil => exact .nil
  | cons x r ih =>
    simp only [List.all_cons, Bool.and_eq_true] at h
    have ih' := ih h.2
    cases x with
    | raw c =>
      have hc := h.1
      simp only [StrCh.ok, Bool.and_eq_true, decide_eq_true_eq, bne_iff_ne, ne_eq] at hc
      simpa [StrCh.text, StrCh.value] using Seg.plain c _ _ hc.1.2 hc.2 ih'
    | esc c =>
      have hc := h.1
      simp only [StrCh.ok] at hc
      obtain ⟨h0, hv⟩ := strEsc_facts c hc
      have := Seg.esc ((asEscapedChar c false).getD 63) _ _ h0 ih'
      rw [hv] at this
      simpa [StrCh.text, StrCh.value] using this

theorem upper_hex_char (c : UInt8) (h : isxdigit c = true) : isxdigit (toupper c) = true ∧ xval (toupper c) = xval c := by
  revert h; revert c; apply UInt8.forall_of_fin; decide +kernel

/-- upper-case hexadecimal digits: the same number -/
theorem upper_hex (ds : Bytes) (h : ∀ c ∈ ds, isxdigit c = true) :
    (∀ c ∈ ds.map toupper, isxdigit c = true) ∧ digitsVal 16 (ds.map toupper) = digitsVal 16 ds := by
  refine ⟨?_, ?_⟩
  · intro c hc
    simp only [List.mem_map] at hc
    obtain ⟨x, hx, rfl⟩ := hc
    exact (upper_hex_char x (h x hx)).1
  · unfold digitsVal
    suffices ∀ a : Nat, List.foldl (fun v c => v * 16 + xval c) a (ds.map toupper) =
        List.foldl (fun v c => v * 16 + xval c) a ds from this 0
    induction ds with
    | nil => intro a; rfl
    | cons c r ih =>
      intro a
      simp only [List.map_cons, List.foldl_cons, (upper_hex_char c (h c (by simp))).2]
      exact ih (fun x hx => h x (by simp [hx])) _

theorem isspace_blank (b : Blank) : ∀ c ∈ blankBytes b, isspace c = true := by
  intro c hc
  simp only [blankBytes, List.mem_map] at hc
  obtain ⟨w, _, rfl⟩ := hc
  exact isspace_ws w

/-- the parts of a string of the specification, joined under any layout, are a `StrBodyW` -/
theorem strBodyW_parts (bl : List Nat → Blank) : ∀ (parts : List (List StrCh)) (k : Nat), parts ≠ [] →
    parts.all (fun p => p.all StrCh.ok) = true →
    ∃ T, partsText bl k parts = 34 :: T ++ [34] ∧ StrBodyW T ((parts.flatten).map StrCh.value) := by
  intro parts
  induction parts with
  | nil => intro k h; exact absurd rfl h
  | cons p r ih =>
    intro k _ hall
    simp only [List.all_cons, Bool.and_eq_true] at hall
    have hseg := seg_part p hall.1
    cases r with
    | nil =>
      exact ⟨(p.map StrCh.text).flatten, by simp [partsText, partText], by simpa using StrBodyW.last _ _ hseg⟩
    | cons q r' =>
      obtain ⟨T', hT', hB'⟩ := ih (k + 1) (by simp) hall.2
      refine ⟨(p.map StrCh.text).flatten ++ 34 :: 92 :: blankBytes (bl [k]) ++ 34 :: T', ?_, ?_⟩
      · simp [partsText, partText, hT']
      · have := StrBodyW.brk _ _ (blankBytes (bl [k])) T' _ hseg (isspace_blank _) hB'
        simpa using this

theorem hex8_digits (v : Nat) : hexDigits8 v = hex8 v := by
  simp only [hexDigits8, hex8, fmtHex2, List.cons_append, List.nil_append]
  have e1 : v / 16777216 % 256 / 16 % 16 = v / 268435456 % 16 := by omega
  have e2 : v / 16777216 % 256 % 16 = v / 16777216 % 16 := by omega
  have e3 : v / 65536 % 256 / 16 % 16 = v / 1048576 % 16 := by omega
  have e4 : v / 65536 % 256 % 16 = v / 65536 % 16 := by omega
  have e5 : v / 256 % 256 / 16 % 16 = v / 4096 % 16 := by omega
  have e6 : v / 256 % 256 % 16 = v / 256 % 16 := by omega
  have e7 : v % 256 / 16 % 16 = v / 16 % 16 := by omega
  have e8 : v % 256 % 16 = v % 16 := by omega
  rw [e1, e2, e3, e4, e5, e6, e7, e8]

theorem blobSeps_body (bl : List Nat → Blank) : ∀ (k : Nat) (data : Bytes),
    blobBody (blobSeps bl k data) = blobBytesText bl k data ∧
    (blobSeps bl k data).map Prod.snd = data ∧ (blobSeps bl k data).length = data.length ∧
    ∀ p ∈ blobSeps bl k data, WSep p.1 := by
  intro k data
  induction data generalizing k with
  | nil => simp [blobSeps, blobBody, blobBytesText]
  | cons b r ih =>
    obtain ⟨h1, h2, h3, h4⟩ := ih (k + 1)
    refine ⟨?_, ?_, ?_, ?_⟩
    · simp [blobSeps, blobBody, blobBytesText, h1, hexByteText, fmtHex2]
    · simp [blobSeps, h2]
    · simp [blobSeps, h3]
    · intro p hp
      simp only [blobSeps, List.mem_cons] at hp
      rcases hp with rfl | hp
      · refine ⟨?_, ?_⟩
        · simp only [blank1Bytes]; split <;> simp_all [blankBytes]
        · intro c hc
          simp only [blank1Bytes] at hc
          split at hc
          · simp at hc; subst hc; decide
          · simp only [blankBytes, List.mem_map] at hc
            obtain ⟨w, _, rfl⟩ := hc
            exact isspace_ws w
      · exact h4 p hp

theorem fmtDec_nat (n : Nat) : fmtDec (n : Int) = fmtNat n := by
  unfold fmtDec
  have : ¬ ((n : Int) < 0) := by omega
  simp [this]

/-- **per-token agreement** for every proved spelling of the specification -/
theorem valOK_tok (bl : List Nat → Blank) (t : Tok) (hwf : t.wf = true) (hp : t.proved bl = true) :
    ValOK (t.text bl) t.cell := by
  cases t with
  | int v base sfx =>
    simp only [Tok.wf, Bool.and_eq_true, decide_eq_true_eq] at hwf
    cases base with
    | dec =>
      cases sfx with
      | false => simpa [Tok.text, Tok.cell, intText_dec] using valOK_int v hwf.1 hwf.2
      | true => simpa [Tok.text, Tok.cell, intText_dec] using valOK_int_i v hwf.1 hwf.2
    | hex =>
      cases sfx <;> simp [Tok.proved] at hp
      obtain ⟨d, ds, e, hall, hval⟩ := fmtHex_facts v.natAbs
      have := valOK_hexText (decide (v < 0)) d ds hall (by rw [hval]; omega)
      rw [hval, ← e] at this
      have hv : hexVal (decide (v < 0)) v.natAbs = v := by
        unfold hexVal toI32
        by_cases h : v < 0 <;> simp [h] <;> omega
      rw [hv] at this
      have ht : (Tok.int v .hex false).text bl = hexText (decide (v < 0)) (fmtHex v.natAbs) := by
        by_cases h : v < 0 <;> simp [Tok.text, intText, magText, hexText, h]
      rw [ht]
      simpa [Tok.cell] using this
    | hexUp =>
      cases sfx <;> simp [Tok.proved] at hp
      obtain ⟨d, ds, e, hall, hval⟩ := fmtHex_facts v.natAbs
      obtain ⟨hall', hval'⟩ := upper_hex (d :: ds) hall
      have := valOK_hexText (decide (v < 0)) (toupper d) (ds.map toupper) (by simpa using hall') (by
        have := hval'; simp only [List.map_cons] at this; rw [this, hval]; omega)
      have hv2 : digitsVal 16 (toupper d :: ds.map toupper) = v.natAbs := by
        have := hval'; simp only [List.map_cons] at this; rw [this, hval]
      rw [hv2] at this
      have hv : hexVal (decide (v < 0)) v.natAbs = v := by
        unfold hexVal toI32
        by_cases h : v < 0 <;> simp [h] <;> omega
      rw [hv] at this
      have ht : (Tok.int v .hexUp false).text bl = hexText (decide (v < 0)) (toupper d :: ds.map toupper) := by
        by_cases h : v < 0 <;> simp [Tok.text, intText, magText, hexText, h, e]
      rw [ht]
      simpa [Tok.cell] using this
    | oct => cases sfx <;> simp [Tok.proved] at hp
    | hex2c =>
      cases sfx <;> simp [Tok.proved] at hp
      obtain ⟨d, ds, e, hall, hval⟩ := fmtHex_facts (v % 4294967296).toNat
      have := valOK_hexText false d ds hall (by rw [hval]; omega)
      rw [hval, ← e] at this
      have hv : hexVal false (v % 4294967296).toNat = v := by
        unfold hexVal toI32
        simp
        omega
      rw [hv] at this
      have ht : (Tok.int v .hex2c false).text bl = hexText false (fmtHex (v % 4294967296).toNat) := by
        simp [Tok.text, intText, magText, hexText]
      rw [ht]
      simpa [Tok.cell] using this
  | huge v base =>
    cases base <;> simp [Tok.proved] at hp
    simp only [Tok.wf, Bool.and_eq_true, decide_eq_true_eq] at hwf
    simpa [Tok.text, Tok.cell, intText_dec] using valOK_huge v hwf.1.1 hwf.1.2
  | flt dbl sfx l exact => simp [Tok.proved] at hp
  | chr c esc =>
    cases esc with
    | false =>
      simp only [Tok.wf, Bool.false_eq_true, ↓reduceIte, Bool.and_eq_true, decide_eq_true_eq, bne_iff_ne, ne_eq] at hwf
      have := valOK_char_plain c hwf.2
      rw [scharVal_small c hwf.1.1.2] at this
      simpa [Tok.text, Tok.cell] using this
    | true =>
      simp only [Tok.wf, ↓reduceIte] at hwf
      obtain ⟨h1, h2⟩ := charEsc_facts c hwf
      have := valOK_char_esc _ h1
      rw [h2] at this
      simpa [Tok.text, Tok.cell] using this
  | str sym parts =>
    simp only [Tok.wf, Bool.and_eq_true, Bool.not_eq_eq_eq_not, Bool.not_true] at hwf
    have hne : parts ≠ [] := by
      intro h; rw [h] at hwf; simp at hwf
    obtain ⟨T, hT, hB⟩ := strBodyW_parts bl parts 0 hne hwf.2
    cases sym with
    | false =>
      have := valOK_stringW _ _ hB
      simpa [Tok.text, Tok.cell, hT] using this
    | true =>
      have := valOK_symbol_quotedW _ _ hB
      simpa [Tok.text, Tok.cell, hT] using this
  | ident name =>
    simp only [Tok.wf, Bool.and_eq_true, Bool.not_eq_eq_eq_not, Bool.not_true] at hwf
    have hq : symbolPlain name = true := by
      unfold symbolPlain
      have hall : (name.drop 1).all isIdentChar = true := by
        rw [List.all_eq_true] at hwf ⊢
        intro x hx; exact hwf.1.2 x (List.mem_of_mem_drop hx)
      have hres : reservedWords.contains name = false := by
        have : reserved = reservedWords := rfl
        rw [← this]; exact hwf.2
      rw [hwf.1.1, hall, hres]; rfl
    simpa [Tok.text, Tok.cell] using valOK_ident name hq
  | kw k =>
    cases k
    · simpa [Tok.text, Tok.cell, Kw.text, Kw.cell] using valOK_true
    · simpa [Tok.text, Tok.cell, Kw.text, Kw.cell] using valOK_false
    · simpa [Tok.text, Tok.cell, Kw.text, Kw.cell] using valOK_nil
    · simpa [Tok.text, Tok.cell, Kw.text, Kw.cell] using valOK_inf
    · simpa [Tok.text, Tok.cell, Kw.text, Kw.cell] using valOK_now
    · simpa [Tok.text, Tok.cell, Kw.text, Kw.cell] using valOK_immediately
  | color v upper =>
    cases upper <;> simp [Tok.proved] at hp
    simp only [Tok.wf, decide_eq_true_eq] at hwf
    have h1 : -2147483648 ≤ toI32 (v : Int) := by unfold toI32; omega
    have h2 : toI32 (v : Int) ≤ 2147483647 := by unfold toI32; omega
    have hu : (toI32 (v : Int) % 4294967296).toNat = v := by unfold toI32; omega
    have := valOK_color (toI32 v) h1 h2
    rw [hu] at this
    simpa [Tok.text, Tok.cell, hex8_digits] using this
  | midi a b c d pad =>
    cases pad <;> simp [Tok.proved] at hp
    obtain ⟨⟨⟨⟨⟨h0, h1⟩, h2⟩, h3⟩, h4⟩, h5⟩ := hp
    have := valOK_midi a b c d
    simpa [Tok.text, Tok.cell, h0, h1, h2, h3, h4, h5, blankBytes, blank1Bytes, midiText, lit_midi, hexByteText, Ws.byte]
      using this
  | blob data =>
    simp only [Tok.proved, Bool.and_eq_true, beq_iff_eq] at hp
    obtain ⟨⟨h0, h1⟩, h2⟩ := hp
    simp only [Tok.wf, decide_eq_true_eq] at hwf
    obtain ⟨e1, e2, e3, e4⟩ := blobSeps_body bl 3 data
    have := valOK_blob (blobSeps bl 3 data) e4 (by rw [e3]; exact hwf)
    rw [e2, e3] at this
    have etext : blobText ((data.length : Nat) : Int) (blobSeps bl 3 data) = (Tok.blob data).text bl := by
      have hB : lit "BLOB" = [66, 76, 79, 66] := by decide
      simp [Tok.text, blobText, e1, h0, h1, h2, blankBytes, Ws.byte, fmtDec_nat, hB]
    rw [etext] at this
    simpa [Tok.cell] using this

/-! ### sentences of scalar values -/

/-- all values of the sentence (numbered from `i`) are scalars with proved spellings -/
def plainFrom (L : Layout) : Nat → Sentence → Prop
  | _, [] => True
  | i, x :: r => (∃ t, x = SVal.val t ∧ t.wf = true ∧ t.proved (sub L.blank i) = true) ∧ plainFrom L (i + 1) r

/-- the cells of a sentence of scalar values -/
def valCells : Sentence → List Cell
  | [] => []
  | .val t :: r => t.cell :: valCells r
  | _ :: r => valCells r

/-- the token texts and cells of a sentence of scalar values -/
def valArgs (L : Layout) : Nat → Sentence → List (Bytes × List Cell)
  | _, [] => []
  | i, .val t :: r => (t.text (sub L.blank i), [t.cell]) :: valArgs L (i + 1) r
  | i, _ :: r => valArgs L (i + 1) r

theorem allCells_valArgs (L : Layout) : ∀ (i : Nat) (s : Sentence), plainFrom L i s →
    allCells (valArgs L i s) = valCells s := by
  intro i s
  induction s generalizing i with
  | nil => intro _; rfl
  | cons x r ih =>
    intro h
    obtain ⟨⟨t, rfl, _, _⟩, hr⟩ := h
    have := ih (i + 1) hr
    simp only [allCells] at this
    simp [valArgs, valCells, allCells, this]

/-- a separator of the specification is a separating run of gaps -/
def fixSep (g : List Gap) : List Gap :=
  match g with
  | .ws w :: r => .ws w :: r
  | g => .ws .sp :: g

theorem sepBytes_fix (g : List Gap) (h : g = [] ∨ startsWs g = true) :
    sepBytes g = gapsBytes (fixSep g) ∧ SepGaps (fixSep g) := by
  cases g with
  | nil => exact ⟨by simp [sepBytes, fixSep, gapsBytes, Gap.bytes, Ws.byte], ⟨.sp, [], rfl⟩⟩
  | cons x r =>
    cases x with
    | ws w => exact ⟨by simp [sepBytes, fixSep], ⟨w, r, rfl⟩⟩
    | comment b => rcases h with h | h <;> simp [startsWs] at h

theorem tail_trail (g : List Gap) (last : Option Bytes) (h : (g = [] ∧ last = none) ∨ startsWs g = true) :
    Tail (trailBytes g last) := by
  cases g with
  | nil =>
    rcases h with ⟨_, rfl⟩ | h
    · simpa [trailBytes, gapsBytes] using Tail.none
    · simp [startsWs] at h
  | cons x r =>
    cases x with
    | comment b => rcases h with ⟨h, _⟩ | h <;> simp [startsWs] at h
    | ws w =>
      cases last with
      | none => simpa [trailBytes] using Tail.gaps _ ⟨w, r, rfl⟩
      | some b => simpa [trailBytes] using Tail.last _ b ⟨w, r, rfl⟩

/-- the values of a non-empty sentence of proved scalars, followed by a tail, are a text of
    good arguments -/
theorem argsLay_values (L : Layout) (hsp : ∀ i, L.sep i = [] ∨ startsWs (L.sep i) = true)
    (tail : Bytes) (htail : Tail tail) :
    ∀ (s : Sentence) (i : Nat), s ≠ [] → plainFrom L i s →
      ArgsLay (valArgs L i s) (valuesText L i s ++ tail) := by
  intro s
  induction s with
  | nil => intro i h; exact absurd rfl h
  | cons x r ih =>
    intro i _ hpl
    obtain ⟨⟨t, rfl, hwf, hp⟩, hr⟩ := hpl
    have harg : Arg11 (t.text (sub L.blank i)) [t.cell] := (valOK_tok _ t hwf hp).arg11
    cases r with
    | nil =>
      simpa [valArgs, valuesText, SVal.text] using ArgsLay.one _ _ tail harg htail
    | cons y r' =>
      obtain ⟨e, hs⟩ := sepBytes_fix (L.sep i) (hsp i)
      have := ih (i + 1) (by simp) hr
      have h2 := ArgsLay.cons _ _ (fixSep (L.sep i)) _ _ harg hs this
      simpa [valArgs, valuesText, SVal.text, e, List.append_assoc] using h2

/-- the denotation of a sentence of scalar values: the values -/
theorem denoteElems_plain (L : Layout) : ∀ (s : Sentence) (i : Nat) (prev : Option Cell), plainFrom L i s →
    denoteElems false prev s = some ((valCells s).map Item.val) := by
  intro s
  induction s with
  | nil => intro i prev _; simp [denoteElems, valCells]
  | cons x r ih =>
    intro i prev hpl
    obtain ⟨⟨t, rfl, _, _⟩, hr⟩ := hpl
    have := ih (i + 1) (some t.cell) hr
    simp [denoteElems, SVal.denote1, this, valCells]

/-! ### values with proved agreement: scalars, `nxA`, arrays (nested) -/

/-- `A` of `nxA`: a scalar or an array -/
def SVal.repeatable : SVal → Prop
  | .val _ => True
  | .arr _ _ => True
  | _ => False

mutual
/-- values with proved agreement: a scalar in a proved spelling; `nxA` (1 ≤ n ≤ 2³¹-1) of a
    scalar or array with proved agreement; an array (without open end) of elements of one type
    with proved agreement.  `bl`: the blanks the layout puts inside the value. -/
def SVal.proved (bl : List Nat → Blank) : SVal → Prop
  | .val t => t.wf = true ∧ t.proved bl = true
  | .rep n x => 1 ≤ n ∧ n ≤ 2147483647 ∧ x.repeatable ∧ x.proved (sub bl 0)
  | .range _ _ => False
  | .arr es opn => opn = false ∧ sameTys es = true ∧ provedElems bl 1 es
/-- the elements of an array, numbered like `elemsText` -/
def provedElems (bl : List Nat → Blank) : Nat → List SVal → Prop
  | _, [] => True
  | k, x :: r => x.proved (sub bl (2 * k + 5)) ∧ provedElems bl (k + 1) r
end

/-- the element type an array header records: the type of the last element, `' '` for none -/
def lastElemTy : List SVal → UInt8
  | [] => 32
  | [x] => x.ty
  | _ :: y :: r => lastElemTy (y :: r)

mutual
/-- the cells such a value denotes -/
def SVal.pcells : SVal → List Cell
  | .val t => [t.cell]
  | .rep n x => Cell.rep n 0 :: x.pcells
  | .range _ _ => [Cell.flag .N]
  | .arr es _ => Cell.arr (lastElemTy es) (pcellsList es).length :: pcellsList es
def pcellsList : List SVal → List Cell
  | [] => []
  | x :: r => x.pcells ++ pcellsList r
end

mutual
/-- the structured value it denotes -/
def SVal.pitem : SVal → Item
  | .val t => .val t.cell
  | .rep n x => .rep n x.pitem
  | .range _ _ => .val (Cell.flag .N)
  | .arr es _ => .arr (lastElemTy es) (pitemsList es)
def pitemsList : List SVal → List Item
  | [] => []
  | x :: r => x.pitem :: pitemsList r
end

/-- the texts and cells of the elements of an array -/
def elemArgs (bl : List Nat → Blank) : Nat → List SVal → List (Bytes × List Cell)
  | _, [] => []
  | k, x :: r => (x.text (sub bl (2 * k + 5)), x.pcells) :: elemArgs bl (k + 1) r

theorem allWs_blank (b : Blank) : AllWs (blankBytes b) := isspace_blank b

theorem allWs_blank1 (b : Blank) : AllWs (blank1Bytes b) ∧ blank1Bytes b ≠ [] := by
  unfold blank1Bytes
  split
  · exact ⟨by intro c hc; simp at hc; subst hc; decide, by simp⟩
  · rename_i h
    refine ⟨isspace_blank b, ?_⟩
    cases b with
    | nil => simp at h
    | cons w r => simp [blankBytes]

theorem allCells_elemArgs (bl : List Nat → Blank) : ∀ (k : Nat) (es : List SVal),
    allCells (elemArgs bl k es) = pcellsList es := by
  intro k es
  induction es generalizing k with
  | nil => rfl
  | cons x r ih =>
    have := ih (k + 1)
    simp only [allCells] at this
    simp [elemArgs, pcellsList, allCells, this]

/-- the cell of a scalar spelling is a scalar cell -/
theorem tok_cell_scalar (t : Tok) : t.cell.isScalar = true := by
  cases t with
  | flt dbl sfx l e => cases dbl <;> simp [Tok.cell, ArgVal.Cell.isScalar]
  | kw k => cases k <;> rfl
  | str sym parts => cases sym <;> rfl
  | _ => rfl

theorem proved_unfold_val (bl : List Nat → Blank) (t : Tok) : (SVal.val t).proved bl ↔ (t.wf = true ∧ t.proved bl = true) := by
  simp [SVal.proved]

theorem proved_unfold_rep (bl : List Nat → Blank) (n : Nat) (x : SVal) :
    (SVal.rep n x).proved bl ↔ (1 ≤ n ∧ n ≤ 2147483647 ∧ x.repeatable ∧ x.proved (sub bl 0)) := by
  simp [SVal.proved]

/-- the element type the scanner records for a value with proved agreement is its type -/
theorem elemTy_pcells (bl : List Nat → Blank) (x : SVal) (h : x.proved bl) : elemTy x.pcells = .ok x.ty := by
  cases x with
  | val t =>
    have hs := tok_cell_scalar t
    simp only [SVal.pcells, SVal.ty]
    generalize t.cell = c at hs
    cases c <;> simp_all [elemTy, deref, ArgVal.Cell.isScalar, bind, Except.bind, pure, Except.pure]
  | rep n y =>
    rw [proved_unfold_rep] at h
    obtain ⟨_, _, hrep, _⟩ := h
    cases y with
    | val t => simp [SVal.pcells, SVal.ty, elemTy, deref, bind, Except.bind, pure, Except.pure]
    | arr es o => simp [SVal.pcells, SVal.ty, elemTy, deref, bind, Except.bind, pure, Except.pure, ArgVal.Cell.type]
    | rep _ _ => simp [SVal.repeatable] at hrep
    | range _ _ => simp [SVal.repeatable] at hrep
  | range _ _ => simp [SVal.proved] at h
  | arr es o => simp [SVal.pcells, SVal.ty, elemTy, deref, bind, Except.bind, pure, Except.pure, ArgVal.Cell.type]

/-- the type the checker reports for it: its type, or '-' for `nxA` -/
theorem skipTy_pcells (bl : List Nat → Blank) (x : SVal) (h : x.proved bl) :
    skipTy x.pcells = x.ty ∨ skipTy x.pcells = 45 := by
  cases x with
  | val t => left; simp [SVal.pcells, SVal.ty, skipTy]
  | rep n y => right; simp [SVal.pcells, skipTy, ArgVal.Cell.type, ArgVal.tyRange]
  | range _ _ => simp [SVal.proved] at h
  | arr es o => left; simp [SVal.pcells, SVal.ty, skipTy, ArgVal.Cell.type]

theorem lastTy_elemArgs (bl : List Nat → Blank) : ∀ (k : Nat) (es : List SVal), provedElems bl k es → es ≠ [] →
    lastTy 32 (elemArgs bl k es) = lastElemTy es := by
  intro k es
  induction es generalizing k with
  | nil => intro _ h; exact absurd rfl h
  | cons x r ih =>
    intro h _
    simp only [provedElems] at h
    cases r with
    | nil => simp [elemArgs, lastTy, lastElemTy, elemTy_pcells _ x h.1]
    | cons y r' =>
      have := ih (k + 1) h.2 (by simp)
      simp only [elemArgs] at this ⊢
      rw [lastTy_cons _ _ _ (by simp)]
      simpa [lastElemTy] using this

theorem sameTy_arraytypes (a b : UInt8) (h : sameTy a b = true) : arraytypesMatch a b = true := by
  have : typesMatch a b = true := by simpa [sameTy, typesMatch] using h
  simp [arraytypesMatch, this]

theorem elemTypesOK_elemArgs (bl : List Nat → Blank) (k : Nat) (es : List SVal) (h : provedElems bl k es)
    (hty : sameTys es = true) : ElemTypesOK (elemArgs bl k es) := by
  cases es with
  | nil => exact trivial
  | cons x r =>
    simp only [provedElems] at h
    simp only [sameTys, List.all_eq_true] at hty
    simp only [elemArgs, ElemTypesOK]
    -- every later element
    have key : ∀ (k' : Nat) (r : List SVal), provedElems bl k' r → (∀ e ∈ r, sameTy x.ty e.ty = true) →
        TypesOK (skipTy x.pcells) (elemArgs bl k' r) := by
      intro k' r
      induction r generalizing k' with
      | nil => intro _ _ p hp; simp [elemArgs] at hp
      | cons y r' ih =>
        intro hr hs p hp
        simp only [provedElems] at hr
        simp only [elemArgs, List.mem_cons] at hp
        rcases hp with rfl | hp
        · simp only
          rcases skipTy_pcells _ x h.1 with hx | hx <;> rcases skipTy_pcells _ y hr.1 with hy | hy
          · rw [hx, hy]; exact sameTy_arraytypes _ _ (hs y (by simp))
          · rw [hy]; simp [arraytypesMatch]
          · rw [hx]; simp [arraytypesMatch]
          · rw [hx]; simp [arraytypesMatch]
        · exact ih (k' + 1) hr.2 (fun e he => hs e (by simp [he])) p hp
    exact key (k + 1) r h.2 hty

mutual
/-- **every value with proved agreement is a good argument** (structural recursion over the value) -/
theorem SVal.proved.arg11 : ∀ (bl : List Nat → Blank) (x : SVal), x.proved bl → Arg11 (x.text bl) x.pcells
  | bl, .val t, h => by
    simp only [SVal.proved] at h
    simpa [SVal.text, SVal.pcells] using (valOK_tok bl t h.1 h.2).arg11
  | bl, .rep n x, h => by
    simp only [SVal.proved] at h
    obtain ⟨h1, h2, _, hx⟩ := h
    have := (SVal.proved.arg11 (sub bl 0) x hx).rep n h1 h2
    simpa [SVal.text, SVal.pcells, repText, fmtDec_nat] using this
  | bl, .range _ _, h => by simp [SVal.proved] at h
  | bl, .arr [] opn, h => by
    simp only [SVal.proved] at h
    obtain ⟨hopn, _, _⟩ := h
    subst hopn
    have hws : AllWs (blankBytes (bl [0]) ++ blankBytes (bl [4])) := by
      intro c hc
      rcases List.mem_append.mp hc with h | h
      · exact isspace_blank _ c h
      · exact isspace_blank _ c h
    have := arg11_array ArrBody.nil _ hws trivial
    simpa [SVal.text, SVal.pcells, arrText, elemsText, pcellsList, lastElemTy, allCells, lastTy] using this
  | bl, .arr (x :: r) opn, h => by
    simp only [SVal.proved] at h
    obtain ⟨hopn, hty, hes⟩ := h
    subst hopn
    have hbody := provedElems.body bl 1 (x :: r) (blankBytes (bl [4])) (by simp) hes (allWs_blank _)
    have := arg11_array hbody (blankBytes (bl [0])) (allWs_blank _) (elemTypesOK_elemArgs bl 1 (x :: r) hes hty)
    rw [allCells_elemArgs, lastTy_elemArgs bl 1 (x :: r) hes (by simp)] at this
    simpa [SVal.text, SVal.pcells, arrText, List.append_assoc] using this
/-- the elements of an array, followed by the blank in front of `]`, form an `ArrBody` -/
theorem provedElems.body : ∀ (bl : List Nat → Blank) (k : Nat) (es : List SVal) (w : Bytes), es ≠ [] →
    provedElems bl k es → AllWs w → ArrBody (elemArgs bl k es) (elemsText bl k es ++ w)
  | bl, k, [], w, hne, _, _ => absurd rfl hne
  | bl, k, [x], w, _, h, hw => by
    simp only [provedElems] at h
    have := ArrBody.last _ _ w (SVal.proved.arg11 _ x h.1) hw
    simpa [elemArgs, elemsText] using this
  | bl, k, x :: y :: r', w, _, h, hw => by
    simp only [provedElems] at h
    obtain ⟨hw1, hne1⟩ := allWs_blank1 (bl [2 * k + 6])
    have hrec := provedElems.body bl (k + 1) (y :: r') w (by simp) ⟨h.2.1, h.2.2⟩ hw
    have := ArrBody.cons _ _ _ _ _ (SVal.proved.arg11 _ x h.1) hw1 hne1 (by simp [elemArgs]) hrec
    simpa [elemArgs, elemsText, List.append_assoc] using this
end

/-! ### the denotation of values with proved agreement -/

theorem itemType_pitem (bl : List Nat → Blank) (x : SVal) (h : x.proved bl) : itemType x.pitem = x.ty := by
  cases x with
  | val t => simp [SVal.pitem, itemType, SVal.ty]
  | rep n y =>
    rw [proved_unfold_rep] at h
    obtain ⟨_, _, hrep, _⟩ := h
    cases y with
    | val t => simp [SVal.pitem, itemType, SVal.ty]
    | arr es o => simp [SVal.pitem, itemType, SVal.ty]
    | rep _ _ => simp [SVal.repeatable] at hrep
    | range _ _ => simp [SVal.repeatable] at hrep
  | range _ _ => simp [SVal.proved] at h
  | arr es o => simp [SVal.pitem, itemType, SVal.ty]

theorem lastItemTy_pitems (bl : List Nat → Blank) : ∀ (k : Nat) (es : List SVal), provedElems bl k es →
    lastItemTy (pitemsList es) = lastElemTy es := by
  intro k es
  induction es generalizing k with
  | nil => intro _; rfl
  | cons x r ih =>
    intro h
    simp only [provedElems] at h
    cases r with
    | nil => simp [lastItemTy, pitemsList, lastElemTy, itemType_pitem _ x h.1]
    | cons y r' =>
      have := ih (k + 1) h.2
      simpa [lastItemTy, pitemsList, lastElemTy, List.getLast?_cons_cons] using this

mutual
/-- the denotation of a value with proved agreement: its item; it provides some left neighbour -/
theorem SVal.proved.denote1 : ∀ (bl : List Nat → Blank) (x : SVal), x.proved bl →
    ∃ p, x.denote1 = some (x.pitem, p)
  | bl, .val t, _ => ⟨some t.cell, by simp [SVal.denote1, SVal.pitem]⟩
  | bl, .rep n (.val t), h => by
    rw [proved_unfold_rep] at h
    exact ⟨some t.cell, by simp [SVal.denote1, SVal.pitem, h.1, h.2.1]⟩
  | bl, .rep n (.arr es opn), h => by
    rw [proved_unfold_rep] at h
    obtain ⟨h1, h2, _, hx⟩ := h
    simp only [SVal.proved] at hx
    obtain ⟨hopn, _, hes⟩ := hx
    subst hopn
    have hd := provedElems.denote (sub bl 0) 1 es none hes
    have hl := lastItemTy_pitems (sub bl 0) 1 es hes
    exact ⟨none, by simp [SVal.denote1, SVal.pitem, h1, h2, hd, hl]⟩
  | bl, .rep n (.rep _ _), h => by
    rw [proved_unfold_rep] at h
    exact absurd h.2.2.1 (by simp [SVal.repeatable])
  | bl, .rep n (.range _ _), h => by
    rw [proved_unfold_rep] at h
    exact absurd h.2.2.1 (by simp [SVal.repeatable])
  | bl, .range _ _, h => by simp [SVal.proved] at h
  | bl, .arr es opn, h => by
    simp only [SVal.proved] at h
    obtain ⟨hopn, _, hes⟩ := h
    subst hopn
    have hd := provedElems.denote bl 1 es none hes
    have hl := lastItemTy_pitems bl 1 es hes
    exact ⟨none, by simp [SVal.denote1, SVal.pitem, hd, hl]⟩
/-- the denotation of the elements of an array / the values of a sentence -/
theorem provedElems.denote : ∀ (bl : List Nat → Blank) (k : Nat) (es : List SVal) (prev : Option Cell),
    provedElems bl k es → denoteElems false prev es = some (pitemsList es)
  | bl, k, [], prev, _ => by simp [denoteElems, pitemsList]
  | bl, k, .val t :: r, prev, h => by
    simp only [provedElems] at h
    have hr := provedElems.denote bl (k + 1) r (some t.cell) h.2
    simp [denoteElems, SVal.denote1, pitemsList, SVal.pitem, hr]
  | bl, k, .rep n y :: r, prev, h => by
    simp only [provedElems] at h
    obtain ⟨p, hp⟩ := SVal.proved.denote1 _ (.rep n y) h.1
    have hr := provedElems.denote bl (k + 1) r p h.2
    simp [denoteElems, hp, pitemsList, hr]
  | bl, k, .range _ _ :: r, prev, h => by
    simp only [provedElems, SVal.proved] at h
    exact absurd h.1 (by simp)
  | bl, k, .arr es o :: r, prev, h => by
    simp only [provedElems] at h
    obtain ⟨p, hp⟩ := SVal.proved.denote1 _ (.arr es o) h.1
    have hr := provedElems.denote bl (k + 1) r p h.2
    simp [denoteElems, hp, pitemsList, hr]
end

mutual
theorem flat_pitem : ∀ (x : SVal), x.pitem.flat = x.pcells
  | .val t => by simp [SVal.pitem, SVal.pcells, Rtosc.ArgVal.Item.flat]
  | .rep n x => by simp [SVal.pitem, SVal.pcells, Rtosc.ArgVal.Item.flat, flat_pitem x]
  | .range _ _ => by simp [SVal.pitem, SVal.pcells, Rtosc.ArgVal.Item.flat]
  | .arr es _ => by simp [SVal.pitem, SVal.pcells, Rtosc.ArgVal.Item.flat, flatList_pitems es]
theorem flatList_pitems : ∀ (es : List SVal), flatList (pitemsList es) = pcellsList es
  | [] => rfl
  | x :: r => by simp [pitemsList, pcellsList, flatList, flat_pitem x, flatList_pitems r]
end

/-! ### sentences of such values -/

/-- all values of the sentence (numbered from `i`) have proved agreement -/
def provedFrom (L : Layout) : Nat → Sentence → Prop
  | _, [] => True
  | i, x :: r => x.proved (sub L.blank i) ∧ provedFrom L (i + 1) r

/-- the cells of the sentence -/
def pCells (s : Sentence) : List Cell := pcellsList s

def pArgs (L : Layout) : Nat → Sentence → List (Bytes × List Cell)
  | _, [] => []
  | i, x :: r => (x.text (sub L.blank i), x.pcells) :: pArgs L (i + 1) r

theorem allCells_pArgs (L : Layout) : ∀ (i : Nat) (s : Sentence), allCells (pArgs L i s) = pCells s := by
  intro i s
  induction s generalizing i with
  | nil => rfl
  | cons x r ih =>
    have := ih (i + 1)
    simp only [allCells, pCells] at this
    simp [pArgs, pCells, pcellsList, allCells, this]

theorem argsLay_proved (L : Layout) (hsp : ∀ i, L.sep i = [] ∨ startsWs (L.sep i) = true)
    (tail : Bytes) (htail : Tail tail) :
    ∀ (s : Sentence) (i : Nat), s ≠ [] → provedFrom L i s →
      ArgsLay (pArgs L i s) (valuesText L i s ++ tail) := by
  intro s
  induction s with
  | nil => intro i h; exact absurd rfl h
  | cons x r ih =>
    intro i _ hpl
    obtain ⟨hx, hr⟩ := hpl
    have harg := SVal.proved.arg11 _ x hx
    cases r with
    | nil =>
      simpa [pArgs, valuesText] using ArgsLay.one _ _ tail harg htail
    | cons y r' =>
      obtain ⟨e, hs⟩ := sepBytes_fix (L.sep i) (hsp i)
      have := ih (i + 1) (by simp) hr
      have h2 := ArgsLay.cons _ _ (fixSep (L.sep i)) _ _ harg hs this
      simpa [pArgs, valuesText, e, List.append_assoc] using h2

/-- the values of a sentence are numbered 0, 1, …; the elements of an array 2k+5: both are
    instances of "every value has proved agreement under some blanks" -/
theorem denoteElems_proved (L : Layout) : ∀ (s : Sentence) (i : Nat) (prev : Option Cell), provedFrom L i s →
    denoteElems false prev s = some (pitemsList s) := by
  intro s
  induction s with
  | nil => intro i prev _; simp [denoteElems, pitemsList]
  | cons x r ih =>
    intro i prev hpl
    obtain ⟨hx, hr⟩ := hpl
    obtain ⟨p, hp⟩ := SVal.proved.denote1 _ x hx
    have hrec := ih (i + 1) p hr
    cases x with
    | val t => simp [denoteElems, hp, pitemsList, hrec]
    | rep n y => simp [denoteElems, hp, pitemsList, hrec]
    | range _ _ => simp [SVal.proved] at hx
    | arr es o => simp [denoteElems, hp, pitemsList, hrec]

theorem cells_proved (L : Layout) (s : Sentence) (h : provedFrom L 0 s) : cells s = some (pCells s) := by
  simp [cells, denote, denoteElems_proved L s 0 none h, flatList_pitems, pCells]

theorem plain_proved (L : Layout) : ∀ (s : Sentence) (i : Nat), plainFrom L i s →
    provedFrom L i s ∧ pCells s = valCells s := by
  intro s
  induction s with
  | nil => intro i _; exact ⟨trivial, rfl⟩
  | cons x r ih =>
    intro i h
    obtain ⟨⟨t, rfl, hwf, hp⟩, hr⟩ := h
    obtain ⟨h1, h2⟩ := ih (i + 1) hr
    refine ⟨⟨(proved_unfold_val _ t).mpr ⟨hwf, hp⟩, h1⟩, ?_⟩
    simp only [pCells] at h2
    simp [pCells, pcellsList, valCells, SVal.pcells, h2]

theorem flatList_vals (cs : List Cell) : flatList (cs.map Item.val) = cs := by
  induction cs with
  | nil => rfl
  | cons c r ih => simp [flatList, Rtosc.ArgVal.Item.flat, ih]

theorem cells_plain (L : Layout) (s : Sentence) (h : plainFrom L 0 s) : cells s = some (valCells s) := by
  simp [cells, denote, denoteElems_plain L s 0 none h, flatList_vals]

end Rtosc.Pretty.C11
