/-
  C16 — helper lemmas: the scalar comparison rules embed into the lexicographic order on
  `List Int` (via `skey`), and the order laws of `Val.cmp` / `Val.cmpList`.
-/
import RtoscModel.ArgVal.Expand
namespace Rtosc.ArgVal
open Rtosc

/-! ### lexicographic comparison of integer lists -/

def lexI : List Int → List Int → Int
  | [], [] => 0
  | [], _ :: _ => -1
  | _ :: _, [] => 1
  | a :: as, b :: bs => if a = b then lexI as bs else if a > b then 1 else -1

theorem lexI_range (a b : List Int) : lexI a b = -1 ∨ lexI a b = 0 ∨ lexI a b = 1 := by
  induction a generalizing b with
  | nil => cases b <;> simp [lexI]
  | cons x xs ih =>
    cases b with
    | nil => simp [lexI]
    | cons y ys =>
      simp only [lexI]
      split
      · exact ih ys
      · split <;> simp

theorem lexI_refl (a : List Int) : lexI a a = 0 := by
  induction a with
  | nil => rfl
  | cons x xs ih => simp [lexI, ih]

theorem lexI_antisymm (a b : List Int) : lexI a b = - lexI b a := by
  induction a generalizing b with
  | nil => cases b <;> simp [lexI]
  | cons x xs ih =>
    cases b with
    | nil => simp [lexI]
    | cons y ys =>
      simp only [lexI]
      by_cases h : x = y
      · subst h; simp [ih ys]
      · have h' : ¬ y = x := fun e => h e.symm
        simp only [h, h', ↓reduceIte]
        by_cases g : x > y
        · have : ¬ y > x := by omega
          simp [g, this]
        · have : y > x := by omega
          simp [g, this]

theorem lexI_eq_zero {a b : List Int} (h : lexI a b = 0) : a = b := by
  induction a generalizing b with
  | nil => cases b <;> simp_all [lexI]
  | cons x xs ih =>
    cases b with
    | nil => simp [lexI] at h
    | cons y ys =>
      simp only [lexI] at h
      by_cases e : x = y
      · subst e; simp only [↓reduceIte] at h; rw [ih h]
      · simp only [e, ↓reduceIte] at h; split at h <;> omega

theorem lexI_trans {a b c : List Int} (h1 : lexI a b ≤ 0) (h2 : lexI b c ≤ 0) : lexI a c ≤ 0 := by
  induction a generalizing b c with
  | nil => cases c <;> simp [lexI]
  | cons x xs ih =>
    cases b with
    | nil => simp [lexI] at h1
    | cons y ys =>
      cases c with
      | nil => simp [lexI] at h2
      | cons z zs =>
        simp only [lexI] at h1 h2 ⊢
        by_cases e1 : x = y
        · subst e1
          simp only [↓reduceIte] at h1
          by_cases e2 : x = z
          · subst e2
            simp only [↓reduceIte] at h2 ⊢
            exact ih h1 h2
          · simp only [e2, ↓reduceIte] at h2 ⊢
            exact h2
        · simp only [e1, ↓reduceIte] at h1
          have hxy : x < y := by
            by_cases g : x > y
            · simp [g] at h1
            · omega
          by_cases e2 : y = z
          · subst e2
            have : ¬ x = y := e1
            simp only [this, ↓reduceIte]
            have : ¬ x > y := by omega
            simp [this]
          · simp only [e2, ↓reduceIte] at h2
            have hyz : y < z := by
              by_cases g : y > z
              · simp [g] at h2
              · omega
            have : ¬ x = z := by omega
            simp only [this, ↓reduceIte]
            have : ¬ x > z := by omega
            simp [this]

/-- strict version: `a ≤ b`, `b ≤ c` and one of them strict gives `a < c` -/
theorem lexI_trans_lt {a b c : List Int} (h1 : lexI a b ≤ 0) (h2 : lexI b c ≤ 0)
    (h : lexI a b < 0 ∨ lexI b c < 0) : lexI a c < 0 := by
  have h3 := lexI_trans h1 h2
  by_cases e : lexI a c = 0
  · have := lexI_eq_zero e
    subst this
    have := lexI_antisymm a b
    omega
  · omega

/-! ### byte strings, keys of scalar cells -/

def bI (l : Bytes) : List Int := l.map fun b => (b.toNat : Int)

theorem lexCmp_eq_lexI (a b : Bytes) : lexCmp a b = lexI (bI a) (bI b) := by
  induction a generalizing b with
  | nil => cases b <;> simp [lexCmp, lexI, bI]
  | cons x xs ih =>
    cases b with
    | nil => simp [lexCmp, lexI, bI]
    | cons y ys =>
      simp only [lexCmp, bI, List.map_cons, lexI]
      have e : (x = y) ↔ ((x.toNat : Int) = (y.toNat : Int)) := by
        constructor
        · intro h; rw [h]
        · intro h; exact UInt8.toNat_inj.mp (by omega)
      have g : (x > y) ↔ ((x.toNat : Int) > (y.toNat : Int)) := by
        rw [gt_iff_lt, UInt8.lt_iff_toNat_lt]; omega
      by_cases h : x = y
      · subst h; simp; exact ih ys
      · have h' := (not_congr e).mp h
        simp only [h, h', ↓reduceIte]
        by_cases k : x > y
        · have k' := g.mp k; simp [k, k']
        · have k' := (not_congr g).mp k; simp [k, k']

theorem blobCmp_eq (a b : Bytes) : blobCmp a b = lexCmp a b := by
  induction a generalizing b with
  | nil => cases b <;> simp [blobCmp, memcmpS, lexCmp]
  | cons x xs ih =>
    cases b with
    | nil => simp [blobCmp, memcmpS, lexCmp]
    | cons y ys =>
      have := ih ys
      simp only [blobCmp, memcmpS] at this ⊢
      simp only [List.length_cons, Nat.add_min_add_right, List.take_succ_cons, lexCmp]
      by_cases h : x = y
      · subst h
        simp only [↓reduceIte]
        rw [← this]
        simp
      · simp only [h, ↓reduceIte]
        by_cases k : x > y <;> simp [k]

/-- key of a cell in the lexicographic order on integer lists -/
def skey : Cell → List Int
  | .int ty v => [schar ty.char, v]
  | .huge v => [schar 104, v]
  | .time v => [schar 116, if v = 1 then -1 else (v : Int)]
  | .flt b => [schar 102, f32.key b.toNat]
  | .dbl b => [schar 100, f64.key b.toNat]
  | .midi a b c d => schar 109 :: bI [a, b, c, d]
  | .str ty none => [schar ty.char]
  | .str ty (some s) => schar ty.char :: 0 :: bI (cstrOf s)
  | .blob d => schar 98 :: bI d
  | .flag ty => [schar ty.char]
  | .arr _ _ => [schar tyA]
  | .rep _ _ => [schar tyRange]

theorem skey_head (c : Cell) : ∃ r, skey c = schar c.type :: r := by
  cases c <;> simp [skey, Cell.type]
  case str ty s => cases s <;> simp

theorem schar_inj {a b : UInt8} (h : schar a = schar b) : a = b := by
  have ha := a.toNat_lt
  have hb := b.toNat_lt
  apply UInt8.toNat_inj.mp
  simp only [schar] at h
  split at h <;> split at h <;> omega

theorem fcmp3_key (F : FFmt) (a b : Nat) (ha : F.isNaN a = false) (hb : F.isNaN b = false) :
    fcmp3 F a b = lexI [F.key a] [F.key b] := by
  simp only [fcmp3, FFmt.feq, FFmt.fgt, ha, hb, lexI]
  by_cases h : F.key a = F.key b
  · simp [h]
  · simp only [Bool.not_false, Bool.true_and, beq_iff_eq, h, ↓reduceIte, decide_eq_true_eq]

theorem cmp3_lexI (a b : Int) : cmp3 a b = lexI [a] [b] := by
  simp only [cmp3, lexI]


set_option hygiene false in
/-- closes a goal whose hypothesis `ht : a.type = b.type` equates two different type characters -/
macro "tyabs" : tactic =>
  `(tactic| (exfalso; revert ht
             simp only [Cell.type, IntTy.char, StrTy.char, FlagTy.char, tyA, tyRange]
             intro ht
             (try (repeat' split at ht)) <;> (revert ht; decide)))

/-- the per-type rules of `rtosc_arg_vals_cmp_single` are the lexicographic order of the keys -/
theorem cmpScalar_key (a b : Cell) (hs : a.isScalar = true ∨ b.isScalar = true)
    (ha : a.isNaN = false) (hb : b.isNaN = false) :
    cmpScalar a b = lexI (skey a) (skey b) := by
  by_cases ht : a.type = b.type
  · -- same type: same constructor
    cases a with
    | int t1 v1 =>
      cases b with
      | int t2 v2 =>
        have : t1 = t2 := by cases t1 <;> cases t2 <;> first | rfl | tyabs
        subst this
        simp [cmpScalar, Cell.type, skey, cmp3_lexI, lexI]
      | _ => tyabs
    | huge v1 =>
      cases b with
      | huge v2 => simp [cmpScalar, Cell.type, skey, cmp3_lexI, lexI]
      | _ => tyabs
    | time v1 =>
      cases b with
      | time v2 =>
        simp only [cmpScalar, Cell.type, skey, lexI, cmp3, ↓reduceIte]
        by_cases h1 : v1 = 1 <;> by_cases h2 : v2 = 1 <;> simp [h1, h2] <;> omega
      | _ => tyabs
    | flt b1 =>
      cases b with
      | flt b2 =>
        simp only [Cell.isNaN] at ha hb
        simp [cmpScalar, Cell.type, skey, fcmp3_key f32 _ _ ha hb, lexI]
      | _ => tyabs
    | dbl b1 =>
      cases b with
      | dbl b2 =>
        simp only [Cell.isNaN] at ha hb
        simp [cmpScalar, Cell.type, skey, fcmp3_key f64 _ _ ha hb, lexI]
      | _ => tyabs
    | midi a1 b1 c1 d1 =>
      cases b with
      | midi a2 b2 c2 d2 =>
        simp [cmpScalar, Cell.type, skey, memcmpS, lexCmp_eq_lexI, lexI]
      | _ => tyabs
    | str t1 s1 =>
      cases b with
      | str t2 s2 =>
        have : t1 = t2 := by cases t1 <;> cases t2 <;> first | rfl | tyabs
        subst this
        cases s1 <;> cases s2 <;> simp [cmpScalar, Cell.type, skey, strcmpS, lexCmp_eq_lexI, lexI]
      | _ => tyabs
    | blob d1 =>
      cases b with
      | blob d2 => simp [cmpScalar, Cell.type, skey, blobCmp_eq, lexCmp_eq_lexI, lexI]
      | _ => tyabs
    | flag t1 =>
      cases b with
      | flag t2 =>
        have : t1 = t2 := by cases t1 <;> cases t2 <;> first | rfl | tyabs
        subst this
        simp [cmpScalar, Cell.type, skey, lexI]
      | _ => tyabs
    | arr e1 l1 =>
      cases b with
      | arr e2 l2 => simp [Cell.isScalar] at hs
      | _ => tyabs
    | rep n1 h1 =>
      cases b with
      | rep n2 h2 => simp [Cell.isScalar] at hs
      | _ => tyabs
  · obtain ⟨ra, hra⟩ := skey_head a
    obtain ⟨rb, hrb⟩ := skey_head b
    have hne : ¬ schar a.type = schar b.type := fun e => ht (schar_inj e)
    simp only [cmpScalar, ht, ↓reduceIte, hra, hrb, lexI, hne]

theorem lexCmp_eq_zero_iff (a b : Bytes) : lexCmp a b = 0 ↔ a = b := by
  induction a generalizing b with
  | nil => cases b <;> simp [lexCmp]
  | cons x xs ih =>
    cases b with
    | nil => simp [lexCmp]
    | cons y ys =>
      simp only [lexCmp]
      by_cases h : x = y
      · subst h; simp [ih ys]
      · simp only [h, ↓reduceIte, List.cons.injEq, false_and, iff_false]
        split <;> omega

theorem cmp3_eq_zero_iff (a b : Int) : cmp3 a b = 0 ↔ a = b := by
  simp only [cmp3]; by_cases h : a = b <;> simp [h]; split <;> omega

/-- `eq_single` and `cmp_single` agree on everything but a pair of arrays / range headers -/
theorem eqScalar_cmpScalar (a b : Cell) (hs : a.isScalar = true ∨ b.isScalar = true) :
    eqScalar a b = .ok (decide (cmpScalar a b = 0)) := by
  by_cases ht : a.type = b.type
  · cases a with
    | int t1 v1 =>
      cases b with
      | int t2 v2 => simp [eqScalar, cmpScalar, ht, cmp3_eq_zero_iff, pure, Except.pure]
      | _ => tyabs
    | huge v1 =>
      cases b with
      | huge v2 => simp [eqScalar, cmpScalar, ht, cmp3_eq_zero_iff, pure, Except.pure]
      | _ => tyabs
    | time v1 =>
      cases b with
      | time v2 =>
        simp only [eqScalar, cmpScalar, ht, ↓reduceIte, pure, Except.pure, cmp3]
        congr 1
        by_cases h1 : v1 = 1 <;> by_cases h2 : v2 = 1 <;> simp [h1, h2]
        · omega
        · by_cases e : v1 = v2
          · simp [e]
          · have : ¬ ((v1 : Int) = (v2 : Int)) := by omega
            simp only [e, this, decide_false, Bool.false_or]
            split <;> simp
      | _ => tyabs
    | flt b1 =>
      cases b with
      | flt b2 =>
        simp only [eqScalar, cmpScalar, ht, ↓reduceIte, pure, Except.pure, fcmp3]
        congr 1
        cases f32.feq b1.toNat b2.toNat <;> simp <;> split <;> omega
      | _ => tyabs
    | dbl b1 =>
      cases b with
      | dbl b2 =>
        simp only [eqScalar, cmpScalar, ht, ↓reduceIte, pure, Except.pure, fcmp3]
        congr 1
        cases f64.feq b1.toNat b2.toNat <;> simp <;> split <;> omega
      | _ => tyabs
    | midi a1 b1 c1 d1 =>
      cases b with
      | midi a2 b2 c2 d2 => simp [eqScalar, cmpScalar, ht, pure, Except.pure]
      | _ => tyabs
    | str t1 s1 =>
      cases b with
      | str t2 s2 => cases s1 <;> cases s2 <;> simp [eqScalar, cmpScalar, ht, pure, Except.pure]
      | _ => tyabs
    | blob d1 =>
      cases b with
      | blob d2 =>
        simp only [eqScalar, cmpScalar, ht, ↓reduceIte, pure, Except.pure, blobCmp_eq, memcmpS]
        by_cases hl : d1.length = d2.length
        · simp [hl]
          rw [← hl]; simp
        · have : d1 ≠ d2 := fun e => hl (by rw [e])
          simp [hl, lexCmp_eq_zero_iff, this]
      | _ => tyabs
    | flag t1 =>
      cases b with
      | flag t2 => simp [eqScalar, cmpScalar, ht, pure, Except.pure]
      | _ => tyabs
    | arr e1 l1 =>
      cases b with
      | arr e2 l2 => simp [Cell.isScalar] at hs
      | _ => tyabs
    | rep n1 h1 =>
      cases b with
      | rep n2 h2 => simp [Cell.isScalar] at hs
      | _ => tyabs
  · simp only [eqScalar, cmpScalar, ht, ↓reduceIte, pure, Except.pure]
    congr 1
    split <;> simp

/-! ### order laws on value trees -/

mutual
/-- every scalar leaf is a scalar cell and not a NaN -/
def Val.ok : Val → Bool
  | .sc c => c.isScalar && !c.isNaN
  | .arr _ es => Val.okList es
def Val.okList : List Val → Bool
  | [] => true
  | v :: vs => v.ok && Val.okList vs
end

/-- key of the part of a value that `cmp_single` looks at before descending into an array -/
def hkey : Val → List Int
  | .sc c => skey c
  | .arr t _ => [schar tyA, schar (normTy t)]

/-- what is compared when the heads are equal -/
def Val.under : Val → Val → Int
  | .arr _ e1, .arr _ e2 => Val.cmpList e1 e2
  | _, _ => 0

theorem scalar_type_ne_a (c : Cell) (h : c.isScalar = true) : c.type ≠ tyA := by
  cases c <;> simp [Cell.isScalar] at h <;> simp only [Cell.type, tyA]
  case int t _ => cases t <;> decide
  case str t _ => cases t <;> decide
  case flag t => cases t <;> decide
  all_goals decide

theorem Val.cmp_char (v w : Val) (hv : v.ok = true) (hw : w.ok = true) :
    Val.cmp v w = if lexI (hkey v) (hkey w) ≠ 0 then lexI (hkey v) (hkey w) else Val.under v w := by
  cases v with
  | sc a =>
    simp only [Val.ok, Bool.and_eq_true, Bool.not_eq_true'] at hv
    cases w with
    | sc b =>
      simp only [Val.ok, Bool.and_eq_true, Bool.not_eq_true'] at hw
      simp only [Val.cmp, Val.head, hkey, Val.under, cmpScalar_key a b (Or.inl hv.1) hv.2 hw.2]
      by_cases h : lexI (skey a) (skey b) = 0 <;> simp [h]
    | arr t e =>
      have h1 := cmpScalar_key a (.arr t 0) (Or.inl hv.1) hv.2 rfl
      obtain ⟨r, hr⟩ := skey_head a
      have hne : schar a.type ≠ schar tyA := fun e => scalar_type_ne_a a hv.1 (schar_inj e)
      have hk : skey (.arr t 0) = [schar tyA] := rfl
      simp only [Val.cmp, Val.head, hkey, Val.under, h1, hk, hr, lexI, hne, ↓reduceIte]
      split <;> simp
  | arr t1 e1 =>
    cases w with
    | sc b =>
      simp only [Val.ok, Bool.and_eq_true, Bool.not_eq_true'] at hw
      have h1 := cmpScalar_key (.arr t1 0) b (Or.inr hw.1) rfl hw.2
      obtain ⟨r, hr⟩ := skey_head b
      have hne : schar tyA ≠ schar b.type := fun e => scalar_type_ne_a b hw.1 (schar_inj e).symm
      have hk : skey (.arr t1 0) = [schar tyA] := rfl
      simp only [Val.cmp, hkey, Val.under, h1, hk, hr, lexI, hne, ↓reduceIte]
      split <;> simp
    | arr t2 e2 =>
      simp only [Val.cmp, hkey, Val.under, lexI, ↓reduceIte]
      by_cases h : normTy t1 = normTy t2
      · simp [h]
      · have hne : ¬ schar (normTy t1) = schar (normTy t2) := fun e => h (schar_inj e)
        simp only [ne_eq, h, not_false_eq_true, ↓reduceIte, gt_iff_lt, hne]
        split <;> simp

theorem Val.under_sc (a : Cell) (w : Val) : Val.under (.sc a) w = 0 := by
  simp [Val.under]

theorem hkey_arr_eq {t : UInt8} {e : List Val} {w : Val} (hw : w.ok = true)
    (h : hkey (.arr t e) = hkey w) : ∃ t' e', w = .arr t' e' := by
  cases w with
  | arr t' e' => exact ⟨t', e', rfl⟩
  | sc b =>
    exfalso
    simp only [Val.ok, Bool.and_eq_true, Bool.not_eq_true'] at hw
    obtain ⟨r, hr⟩ := skey_head b
    simp only [hkey, hr, List.cons.injEq] at h
    exact scalar_type_ne_a b hw.1 (schar_inj h.1).symm

mutual
theorem Val.cmp_refl : ∀ (v : Val), v.ok = true → Val.cmp v v = 0
  | .sc a, h => by
    rw [Val.cmp_char _ _ h h]; simp [lexI_refl, Val.under]
  | .arr t es, h => by
    rw [Val.cmp_char _ _ h h]
    simp only [lexI_refl, ne_eq, not_true_eq_false, ↓reduceIte, Val.under]
    exact Val.cmpList_refl es (by simpa [Val.ok] using h)
theorem Val.cmpList_refl : ∀ (vs : List Val), Val.okList vs = true → Val.cmpList vs vs = 0
  | [], _ => by simp [Val.cmpList]
  | v :: vs, h => by
    simp only [Val.okList, Bool.and_eq_true] at h
    simp [Val.cmpList, Val.cmp_refl v h.1, Val.cmpList_refl vs h.2]
end

mutual
theorem Val.cmp_antisymm : ∀ (v w : Val), v.ok = true → w.ok = true → Val.cmp v w = - Val.cmp w v
  | .sc a, w, hv, hw => by
    rw [Val.cmp_char _ _ hv hw, Val.cmp_char _ _ hw hv, lexI_antisymm (hkey w)]
    by_cases h : lexI (hkey (.sc a)) (hkey w) = 0
    · cases w <;> simp [h, Val.under]
    · simp [h]
  | .arr t es, .sc b, hv, hw => by
    rw [Val.cmp_char _ _ hv hw, Val.cmp_char _ _ hw hv, lexI_antisymm (hkey (.sc b))]
    by_cases h : lexI (hkey (.arr t es)) (hkey (.sc b)) = 0
    · simp [h, Val.under]
    · simp [h]
  | .arr t es, .arr t' es', hv, hw => by
    rw [Val.cmp_char _ _ hv hw, Val.cmp_char _ _ hw hv, lexI_antisymm (hkey (.arr t' es'))]
    by_cases h : lexI (hkey (.arr t es)) (hkey (.arr t' es')) = 0
    · simp only [h, ne_eq, not_true_eq_false, ↓reduceIte, Val.under, Int.neg_zero]
      exact Val.cmpList_antisymm es es' (by simpa [Val.ok] using hv) (by simpa [Val.ok] using hw)
    · simp [h]
theorem Val.cmpList_antisymm : ∀ (vs ws : List Val), Val.okList vs = true → Val.okList ws = true →
    Val.cmpList vs ws = - Val.cmpList ws vs
  | [], [], _, _ => by simp [Val.cmpList]
  | [], _ :: _, _, _ => by simp [Val.cmpList]
  | _ :: _, [], _, _ => by simp [Val.cmpList]
  | v :: vs, w :: ws, hv, hw => by
    simp only [Val.okList, Bool.and_eq_true] at hv hw
    have h1 := Val.cmp_antisymm v w hv.1 hw.1
    have h2 := Val.cmpList_antisymm vs ws hv.2 hw.2
    simp only [Val.cmpList]
    by_cases h : Val.cmp v w = 0
    · have : Val.cmp w v = 0 := by omega
      simp [h, this, h2]
    · have : ¬ Val.cmp w v = 0 := by omega
      simp [this, h1]
end

mutual
theorem Val.cmp_range : ∀ (v w : Val), v.ok = true → w.ok = true →
    Val.cmp v w = -1 ∨ Val.cmp v w = 0 ∨ Val.cmp v w = 1
  | .sc a, w, hv, hw => by
    rw [Val.cmp_char _ _ hv hw]
    have := lexI_range (hkey (.sc a)) (hkey w)
    by_cases h : lexI (hkey (.sc a)) (hkey w) = 0
    · rw [if_neg (fun hn => hn h)]; simp [Val.under_sc]
    · rw [if_pos h]; exact this
  | .arr t es, .sc b, hv, hw => by
    rw [Val.cmp_char _ _ hv hw]
    have := lexI_range (hkey (.arr t es)) (hkey (.sc b))
    by_cases h : lexI (hkey (.arr t es)) (hkey (.sc b)) = 0
    · rw [if_neg (fun hn => hn h)]; simp [Val.under]
    · rw [if_pos h]; exact this
  | .arr t es, .arr t' es', hv, hw => by
    rw [Val.cmp_char _ _ hv hw]
    have := lexI_range (hkey (.arr t es)) (hkey (.arr t' es'))
    by_cases h : lexI (hkey (.arr t es)) (hkey (.arr t' es')) = 0
    · rw [if_neg (fun hn => hn h)]
      simp only [Val.under]
      exact Val.cmpList_range es es' (by simpa [Val.ok] using hv) (by simpa [Val.ok] using hw)
    · rw [if_pos h]; exact this
theorem Val.cmpList_range : ∀ (vs ws : List Val), Val.okList vs = true → Val.okList ws = true →
    Val.cmpList vs ws = -1 ∨ Val.cmpList vs ws = 0 ∨ Val.cmpList vs ws = 1
  | [], [], _, _ => by simp [Val.cmpList]
  | [], _ :: _, _, _ => by simp [Val.cmpList]
  | _ :: _, [], _, _ => by simp [Val.cmpList]
  | v :: vs, w :: ws, hv, hw => by
    simp only [Val.okList, Bool.and_eq_true] at hv hw
    simp only [Val.cmpList]
    split
    · exact Val.cmpList_range vs ws hv.2 hw.2
    · exact Val.cmp_range v w hv.1 hw.1
end

theorem Val.cmp_le_key {v w : Val} (hv : v.ok = true) (hw : w.ok = true) (h : Val.cmp v w ≤ 0) :
    lexI (hkey v) (hkey w) ≤ 0 := by
  rw [Val.cmp_char _ _ hv hw] at h
  by_cases e : lexI (hkey v) (hkey w) = 0
  · omega
  · simpa [e] using h

/-- transitivity at one node, given transitivity for the contents of arrays -/
theorem Val.cmp_trans_step (a b c : Val) (ha : a.ok = true) (hb : b.ok = true) (hc : c.ok = true)
    (h1 : Val.cmp a b ≤ 0) (h2 : Val.cmp b c ≤ 0)
    (ih : ∀ t1 e1 t2 e2 t3 e3, a = .arr t1 e1 → b = .arr t2 e2 → c = .arr t3 e3 →
      Val.cmpList e1 e2 ≤ 0 → Val.cmpList e2 e3 ≤ 0 → Val.cmpList e1 e3 ≤ 0) :
    Val.cmp a c ≤ 0 := by
  have k1 := Val.cmp_le_key ha hb h1
  have k2 := Val.cmp_le_key hb hc h2
  have k3 := lexI_trans k1 k2
  rw [Val.cmp_char _ _ ha hc]
  by_cases e : lexI (hkey a) (hkey c) = 0
  · rw [if_neg (fun hn => hn e)]
    cases a with
    | sc x => simp [Val.under_sc]
    | arr t es =>
      -- all three heads are equal
      have eac := lexI_eq_zero e
      have kba : lexI (hkey b) (hkey (.arr t es)) ≤ 0 := by rw [eac]; exact k2
      have kab : lexI (hkey (.arr t es)) (hkey b) = 0 := by
        have := lexI_antisymm (hkey (.arr t es)) (hkey b); omega
      have eab := lexI_eq_zero kab
      obtain ⟨tb, eb, rfl⟩ := hkey_arr_eq hb eab
      obtain ⟨tc, ec, rfl⟩ := hkey_arr_eq hc eac
      have kbc : lexI (hkey (.arr tb eb)) (hkey (.arr tc ec)) = 0 := by
        rw [← eab, eac]; exact lexI_refl _
      rw [Val.cmp_char _ _ ha hb, if_neg (fun hn => hn kab)] at h1
      rw [Val.cmp_char _ _ hb hc, if_neg (fun hn => hn kbc)] at h2
      simp only [Val.under] at h1 h2 ⊢
      exact ih _ _ _ _ _ _ rfl rfl rfl h1 h2
  · rw [if_pos e]; exact k3

mutual
theorem Val.cmp_trans : ∀ (a b c : Val), a.ok = true → b.ok = true → c.ok = true →
    Val.cmp a b ≤ 0 → Val.cmp b c ≤ 0 → Val.cmp a c ≤ 0
  | .arr t1 e1, .arr t2 e2, .arr t3 e3, ha, hb, hc, h1, h2 =>
    Val.cmp_trans_step _ _ _ ha hb hc h1 h2 (fun _ _ _ _ _ _ ea eb ec g1 g2 => by
      cases ea; cases eb; cases ec
      exact Val.cmpList_trans e1 e2 e3 (by simpa [Val.ok] using ha) (by simpa [Val.ok] using hb)
        (by simpa [Val.ok] using hc) g1 g2)
  | .sc x, b, c, ha, hb, hc, h1, h2 =>
    Val.cmp_trans_step _ _ _ ha hb hc h1 h2 (fun _ _ _ _ _ _ ea _ _ _ _ => by cases ea)
  | a, .sc y, c, ha, hb, hc, h1, h2 =>
    Val.cmp_trans_step _ _ _ ha hb hc h1 h2 (fun _ _ _ _ _ _ _ eb _ _ _ => by cases eb)
  | a, b, .sc z, ha, hb, hc, h1, h2 =>
    Val.cmp_trans_step _ _ _ ha hb hc h1 h2 (fun _ _ _ _ _ _ _ _ ec _ _ => by cases ec)
termination_by a b c => sizeOf a + sizeOf b + sizeOf c
decreasing_by all_goals simp_wf; omega
theorem Val.cmpList_trans : ∀ (as bs cs : List Val), Val.okList as = true → Val.okList bs = true →
    Val.okList cs = true → Val.cmpList as bs ≤ 0 → Val.cmpList bs cs ≤ 0 → Val.cmpList as cs ≤ 0
  | [], _, [], _, _, _, _, _ => by simp [Val.cmpList]
  | [], _, _ :: _, _, _, _, _, _ => by simp [Val.cmpList]
  | _ :: _, [], _, _, _, _, h1, _ => by simp [Val.cmpList] at h1
  | _ :: _, _ :: _, [], _, _, _, _, h2 => by simp [Val.cmpList] at h2
  | x :: xs, y :: ys, z :: zs, ha, hb, hc, h1, h2 => by
    simp only [Val.okList, Bool.and_eq_true] at ha hb hc
    simp only [Val.cmpList] at h1 h2 ⊢
    have axy := Val.cmp_antisymm x y ha.1 hb.1
    have ayz := Val.cmp_antisymm y z hb.1 hc.1
    have axz := Val.cmp_antisymm x z ha.1 hc.1
    have p : Val.cmp x y ≤ 0 := by
      by_cases e : Val.cmp x y = 0
      · omega
      · simpa [e] using h1
    have q : Val.cmp y z ≤ 0 := by
      by_cases e : Val.cmp y z = 0
      · omega
      · simpa [e] using h2
    have r := Val.cmp_trans x y z ha.1 hb.1 hc.1 p q
    by_cases e : Val.cmp x z = 0
    · have zx : Val.cmp z x ≤ 0 := by omega
      have yx := Val.cmp_trans y z x hb.1 hc.1 ha.1 q zx
      have zy := Val.cmp_trans z x y hc.1 ha.1 hb.1 zx p
      have p0 : Val.cmp x y = 0 := by omega
      have q0 : Val.cmp y z = 0 := by omega
      simp only [p0, q0, ↓reduceIte] at h1 h2
      simp only [e, ↓reduceIte]
      exact Val.cmpList_trans xs ys zs ha.2 hb.2 hc.2 h1 h2
    · simpa [e] using r
termination_by as bs cs => sizeOf as + sizeOf bs + sizeOf cs
decreasing_by all_goals simp_wf; omega
end
end Rtosc.ArgVal
