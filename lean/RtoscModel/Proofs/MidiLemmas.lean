/-
  C20 — helper lemmas about the pieces of the MIDI-mapper model (association list,
  killMap, 7-bit blits, the linear bijection).  Core Lean only.
-/
import RtoscModel.Midi
set_option linter.unusedSimpArgs false
namespace Rtosc.Midi

/-! ### association list `inv_map` -/

theorem imLookup_imErase (m : List (Nat × Imap)) (a b : Nat) :
    imLookup (imErase m a) b = if b = a then none else imLookup m b := by
  induction m with
  | nil => simp [imLookup, imErase]
  | cons p t ih =>
    simp only [imLookup, imErase] at ih ⊢
    by_cases h1 : p.1 = a
    · by_cases h2 : b = a
      · simp_all
      · have : ¬ p.1 = b := by omega
        simp_all [List.filter_cons, List.find?_cons]
    · by_cases h2 : p.1 = b
      · have : ¬ b = a := by omega
        simp_all [List.filter_cons, List.find?_cons]
      · simp_all [List.filter_cons, List.find?_cons]

theorem imLookup_imSet (m : List (Nat × Imap)) (a : Nat) (v : Imap) (b : Nat) :
    imLookup (imSet m a v) b = if b = a then some v else imLookup m b := by
  by_cases h : b = a
  · subst h; simp [imSet, imLookup]
  · have h' : ¬ a = b := fun e => h e.symm
    have := imLookup_imErase m a b
    simp only [imLookup] at this
    simp [imSet, imLookup, List.find?_cons, h, h', this]

/-! ### mapping vectors -/

def ids (m : List MapEnt) : List Nat := m.map (·.id)

@[simp] theorem ids_nil : ids [] = [] := rfl
@[simp] theorem ids_cons (e : MapEnt) (m) : ids (e :: m) = e.id :: ids m := rfl
@[simp] theorem ids_append (a b : List MapEnt) : ids (a ++ b) = ids a ++ ids b := by simp [ids]
theorem mem_ids {m : List MapEnt} {c : Nat} : c ∈ ids m ↔ ∃ e ∈ m, e.id = c := by simp [ids]

theorem filter_ne_of_not_mem {m : List MapEnt} {c : Nat} (h : c ∉ ids m) :
    m.filter (fun e => e.id != c) = m := by
  induction m with
  | nil => rfl
  | cons e t ih =>
    simp only [ids_cons, List.mem_cons, not_or] at h
    have : e.id ≠ c := fun x => h.1 x.symm
    simp [List.filter_cons, this, ih h.2]

theorem filter_length_unique {m : List MapEnt} {c : Nat} (nd : (ids m).Nodup) (h : c ∈ ids m) :
    (m.filter (fun e => e.id != c)).length + 1 = m.length := by
  induction m with
  | nil => simp at h
  | cons e t ih =>
    simp only [ids_cons, List.nodup_cons] at nd
    by_cases he : e.id = c
    · subst he
      simp [List.filter_cons, filter_ne_of_not_mem nd.1]
    · simp only [ids_cons, List.mem_cons] at h
      have ht : c ∈ ids t := by
        rcases h with h | h
        · exact absurd h.symm he
        · exact h
      simp [List.filter_cons, he, ih nd.2 ht]

/-- With pairwise distinct controller IDs, `killMap` of a present ID removes exactly that
    entry (no overflow, no junk cell). -/
theorem killMap_unique {m : List MapEnt} {c : Nat} (nd : (ids m).Nodup) (h : c ∈ ids m) :
    killMap c m = some (m.filter (fun e => e.id != c)) := by
  have hl := filter_length_unique nd h
  have hm : m.length ≠ 0 := by omega
  unfold killMap
  simp only [hm, ↓reduceIte]
  have : ¬ (m.filter (fun e => e.id != c)).length > m.length - 1 := by omega
  simp only [this, ↓reduceIte]
  have : m.length - 1 - (m.filter (fun e => e.id != c)).length = 0 := by omega
  simp [this]

theorem ids_filter_sublist (m : List MapEnt) (p : MapEnt → Bool) : (ids (m.filter p)).Sublist (ids m) :=
  List.Sublist.map _ List.filter_sublist

theorem mem_ids_filter {m : List MapEnt} {c d : Nat} :
    d ∈ ids (m.filter (fun e => e.id != c)) ↔ d ∈ ids m ∧ d ≠ c := by
  simp only [mem_ids, List.mem_filter, bne_iff_ne, ne_eq]
  constructor
  · rintro ⟨e, ⟨h1, h2⟩, rfl⟩; exact ⟨⟨e, h1, rfl⟩, h2⟩
  · rintro ⟨⟨e, h1, rfl⟩, h2⟩; exact ⟨e, ⟨h1, h2⟩, rfl⟩

theorem find?_filter_ne {m : List MapEnt} {c d : Nat} (h : d ≠ c) :
    (m.filter (fun e => e.id != c)).find? (fun e => e.id == d) = m.find? (fun e => e.id == d) := by
  induction m with
  | nil => rfl
  | cons e t ih =>
    by_cases he : e.id = c
    · have hcd : (c == d) = false := by simp; omega
      simp [List.find?_cons, he, ih, hcd]
    · simp [List.find?_cons, he, ih]

/-- with distinct IDs the first entry carrying an ID is the only one -/
theorem find?_of_mem_nodup {m : List MapEnt} {e : MapEnt} (nd : (ids m).Nodup) (h : e ∈ m) :
    m.find? (fun x => x.id == e.id) = some e := by
  induction m with
  | nil => simp at h
  | cons x t ih =>
    simp only [ids_cons, List.nodup_cons] at nd
    simp only [List.mem_cons] at h
    rcases h with rfl | h
    · simp
    · have : x.id ≠ e.id := fun hx => nd.1 (hx ▸ mem_ids.mpr ⟨e, h, rfl⟩)
      simp [this, ih nd.2 h]

theorem eq_of_mem_nodup {m : List MapEnt} {e1 e2 : MapEnt} (nd : (ids m).Nodup)
    (h1 : e1 ∈ m) (h2 : e2 ∈ m) (h : e1.id = e2.id) : e1 = e2 := by
  have a := find?_of_mem_nodup nd h1
  have b := find?_of_mem_nodup nd h2
  rw [h] at a; rw [a] at b; exact Option.some.inj b

end Rtosc.Midi
