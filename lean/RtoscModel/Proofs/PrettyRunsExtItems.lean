/-
  C10 — tier 3, compressed runs in context (4): the structured view.  The cells the scanner
  returns for a list of segments are the flat form of the items `itemsAll`, and these items expand
  to the original values.
-/
import RtoscModel.Proofs.PrettyRunsExtPrint
import RtoscModel.ArgVal.Expand
set_option linter.unusedSimpArgs false
set_option linter.unusedVariables false
namespace Rtosc.Pretty
open Rtosc Rtosc.Libc
open Rtosc.ArgVal (Cell Item flatList expandList Val)

/-- the scanned segment as items: a value, a repetition `nxA`, a range (preceded by its first
    value when printed as `a b ... z`) -/
def RSeg.items (L : Option Cell) : RSeg → List Item
  | .tok c => [.val c]
  | .crun n c => [.rep n (.val c)]
  | .irun a d n =>
    if shortForm L a d then [.range n (Cell.int .i d) (Cell.int .i a)]
    else [.val (Cell.int .i a), .range (n - 1) (Cell.int .i d) (Cell.int .i (a + d))]

def itemsAll : Option Cell → List RSeg → List Item
  | _, [] => []
  | L, s :: r => s.items L ++ itemsAll (some s.last) r

theorem flatList_append (xs ys : List Item) : flatList (xs ++ ys) = flatList xs ++ flatList ys := by
  induction xs with
  | nil => simp [flatList]
  | cons x xs ih => simp [flatList, ih]

theorem expandList_append (xs ys : List Item) (a b : List Val) (h1 : expandList xs = some a) (h2 : expandList ys = some b) :
    expandList (xs ++ ys) = some (a ++ b) := by
  induction xs generalizing a with
  | nil => simp [expandList] at h1; subst h1; simpa using h2
  | cons x xs ih =>
    simp only [expandList] at h1
    cases hx : x.expand with
    | none => simp [hx] at h1
    | some ax =>
      cases hxs : expandList xs with
      | none => simp [hx, hxs] at h1
      | some axs =>
        simp only [hx, hxs, Option.some.injEq] at h1
        subst h1
        simp [expandList, hx, ih axs hxs]

theorem wrapI32_idX (v : Int) (h1 : -2147483648 ≤ v) (h2 : v ≤ 2147483647) : ArgVal.wrapI32 v = v := by
  unfold ArgVal.wrapI32; omega

theorem rangeVal_intX (d a : Int) (i : Nat)
    (hm : -2147483648 ≤ (i : Int) * d ∧ (i : Int) * d ≤ 2147483647)
    (hs : -2147483648 ≤ a + (i : Int) * d ∧ a + (i : Int) * d ≤ 2147483647) :
    ArgVal.rangeVal (Cell.int .i d) (Cell.int .i a) i = .ok (Cell.int .i (a + (i : Int) * d)) := by
  simp [ArgVal.rangeVal, ArgVal.fromInt, ArgVal.mult, ArgVal.add, ArgVal.Cell.type, wrapI32_idX _ hm.1 hm.2,
    wrapI32_idX _ hs.1 hs.2]

theorem rangeVals_intX (d a : Int) : ∀ (m i : Nat),
    (∀ k : Nat, i ≤ k → k < i + m →
      (-2147483648 ≤ (k : Int) * d ∧ (k : Int) * d ≤ 2147483647) ∧
      (-2147483648 ≤ a + (k : Int) * d ∧ a + (k : Int) * d ≤ 2147483647)) →
    ArgVal.rangeVals (Cell.int .i d) (Cell.int .i a) i m =
      some ((List.range m).map (fun (j : Nat) => Val.sc (Cell.int .i (a + ((i + j : Nat) : Int) * d)))) := by
  intro m
  induction m with
  | zero => intro i _; simp [ArgVal.rangeVals]
  | succ k ih =>
    intro i h
    have h0 := h i (Nat.le_refl _) (by omega)
    have hrest := ih (i + 1) (fun k' hk1 hk2 => h k' (by omega) (by omega))
    simp only [ArgVal.rangeVals, rangeVal_intX d a i h0.1 h0.2, hrest]
    rw [List.range_succ_eq_map]
    simp only [List.map_cons, List.map_map, Nat.add_zero]
    congr 2
    apply List.map_congr_left
    intro j _
    simp only [Function.comp]
    have : i + 1 + j = i + Nat.succ j := by omega
    rw [this]

/-- a range block of a run expands to the run -/
theorem expand_range_run {a d : Int} {n : Nat} (h : RunHyp a d n) :
    (Item.range n (Cell.int .i d) (Cell.int .i a)).expand = some ((arithRun a d n).map Val.sc) := by
  have hn := h.hn
  simp only [Item.expand, ArgVal.Cell.isScalar, and_self, show 1 ≤ n from by omega, ↓reduceIte]
  rw [rangeVals_intX d a n 0 (by
    intro k _ hk
    have := h.mul k (by omega)
    exact ⟨by omega, h.hrange k (by omega)⟩)]
  simp [arithRun, List.map_map, Function.comp]

/-- the first value and the range block behind it (`a b ... z`) expand to the run -/
theorem expand_range_run_long {a d : Int} {n : Nat} (h : RunHyp a d n) :
    expandList [Item.val (Cell.int .i a), Item.range (n - 1) (Cell.int .i d) (Cell.int .i (a + d))] =
      some ((arithRun a d n).map Val.sc) := by
  have hn := h.hn
  have hr : (Item.range (n - 1) (Cell.int .i d) (Cell.int .i (a + d))).expand =
      some ((List.range (n - 1)).map (fun (j : Nat) => Val.sc (Cell.int .i (a + d + (j : Int) * d)))) := by
    simp only [Item.expand, ArgVal.Cell.isScalar, and_self, show 1 ≤ n - 1 from by omega, ↓reduceIte]
    rw [rangeVals_intX d (a + d) (n - 1) 0 (by
      intro k _ hk
      have := h.mul k (by omega)
      refine ⟨by omega, ?_⟩
      have := h.hrange (k + 1) (by omega)
      have e : a + d + (k : Int) * d = a + ((k + 1 : Nat) : Int) * d := by
        rw [succ_mul']; omega
      rw [e]; exact this)]
    simp
  have h1 : expandList [Item.val (Cell.int .i a)] = some [Val.sc (Cell.int .i a)] := by
    simp [expandList, Item.expand, ArgVal.Cell.isScalar]
  have h2 : expandList [Item.range (n - 1) (Cell.int .i d) (Cell.int .i (a + d))] =
      some ((List.range (n - 1)).map (fun (j : Nat) => Val.sc (Cell.int .i (a + d + (j : Int) * d)))) := by
    simp only [expandList, hr, List.append_nil]
  have := expandList_append _ _ _ _ h1 h2
  simp only [List.singleton_append] at this
  rw [this]
  obtain ⟨m, rfl⟩ : ∃ m, n = m + 1 := ⟨n - 1, by omega⟩
  simp only [Nat.add_sub_cancel, arithRun]
  rw [List.range_succ_eq_map]
  simp only [List.map_cons, List.map_map, Int.natCast_zero, Int.zero_mul, Int.add_zero,
    List.singleton_append, Option.some.injEq, List.cons.injEq, true_and]
  apply List.map_congr_left
  intro j _
  simp only [Function.comp]
  congr 2
  rw [show ((Nat.succ j : Nat) : Int) = (j : Int) + 1 from by simp, Int.add_mul]
  omega

theorem expandList_valsX (cs : List Cell) (h : ∀ c ∈ cs, c.isScalar = true) :
    expandList (cs.map Item.val) = some (cs.map Val.sc) := by
  induction cs with
  | nil => simp [expandList]
  | cons c r ih =>
    simp only [List.map_cons, expandList, Item.expand, h c (by simp), ↓reduceIte,
      ih (fun x hx => h x (by simp [hx]))]
    rfl

theorem flatList_valsX (cs : List Cell) : flatList (cs.map Item.val) = cs := by
  induction cs with
  | nil => simp [flatList]
  | cons c r ih => simp [flatList, Item.flat, ih]

theorem Segmented.scalars {opt : POpt} {segs : List RSeg} (h : Segmented opt segs) :
    ∀ c ∈ cellsAll segs, c.isScalar = true := by
  induction h with
  | nil => simp [cellsAll]
  | tok c segs hsc _ _ _ ih =>
    intro x hx
    simp only [cellsAll, RSeg.cells, List.singleton_append, List.mem_cons] at hx
    rcases hx with rfl | hx
    · exact hsc
    · exact ih x hx
  | crun n c segs hsc _ _ _ _ _ ih =>
    intro x hx
    simp only [cellsAll, RSeg.cells, List.mem_append, List.mem_replicate] at hx
    rcases hx with ⟨_, rfl⟩ | hx
    · exact hsc
    · exact ih x hx
  | irun a d n segs _ _ _ ih =>
    intro x hx
    simp only [cellsAll, RSeg.cells, List.mem_append, arithRun, List.mem_map] at hx
    rcases hx with ⟨k, _, rfl⟩ | hx
    · rfl
    · exact ih x hx

/-- the scanned cells are the flat form of the items -/
theorem flatList_itemsAll {opt : POpt} {segs : List RSeg} (h : Segmented opt segs) :
    ∀ L, flatList (itemsAll L segs) = scannedAll L segs := by
  induction h with
  | nil => intro L; simp [itemsAll, scannedAll, flatList]
  | tok c segs _ _ _ _ ih =>
    intro L
    simp [itemsAll, scannedAll, RSeg.items, RSeg.scanned, flatList, Item.flat, ih]
  | crun n c segs _ _ _ _ _ _ ih =>
    intro L
    simp [itemsAll, scannedAll, RSeg.items, RSeg.scanned, flatList, Item.flat, ih]
  | irun a d n segs hr _ _ ih =>
    intro L
    have hn := hr.hn
    have e : ((n - 1 : Nat) : Int) = (n : Int) - 1 := by omega
    by_cases hs : shortForm L a d = true
    · simp [itemsAll, scannedAll, RSeg.items, RSeg.scanned, hs, flatList, Item.flat, ih]
    · simp [itemsAll, scannedAll, RSeg.items, RSeg.scanned, hs, flatList, Item.flat, ih, e]

/-- the items expand to the original values -/
theorem expandList_itemsAll {opt : POpt} {segs : List RSeg} (h : Segmented opt segs) :
    ∀ L, expandList (itemsAll L segs) = some ((cellsAll segs).map Val.sc) := by
  induction h with
  | nil => intro L; simp [itemsAll, cellsAll, expandList]
  | tok c segs hsc _ _ _ ih =>
    intro L
    simp only [itemsAll, cellsAll, RSeg.items, RSeg.cells, List.map_append]
    exact expandList_append _ _ _ _ (by simp [expandList, Item.expand, hsc]) (ih _)
  | crun n c segs hsc _ hn _ _ _ ih =>
    intro L
    simp only [itemsAll, cellsAll, RSeg.items, RSeg.cells, List.map_append]
    exact expandList_append _ _ _ _ (by simp [expandList, Item.expand, hsc, show 1 ≤ n from by omega]) (ih _)
  | irun a d n segs hr _ _ ih =>
    intro L
    simp only [itemsAll, cellsAll, RSeg.items, RSeg.cells, List.map_append]
    by_cases hs : shortForm L a d = true
    · simp only [hs, ↓reduceIte]
      exact expandList_append _ _ _ _ (by simp [expandList, expand_range_run hr]) (ih _)
    · have hs' : shortForm L a d = false := by simpa using hs
      simp only [hs', Bool.false_eq_true, ↓reduceIte]
      exact expandList_append _ _ _ _ (expand_range_run_long hr) (ih _)

end Rtosc.Pretty
