/-
  C17 — the macros of port-sugar.h (as transcribed in RtoscModel/MetaMacros.lean) produce
  `serialize` of the entries they stand for.
-/
import RtoscModel.MetaMacros
namespace Rtosc.Meta
open Rtosc

theorem Macro.bytes_entry (m : Macro) (e) (h : m.entry = some e) : m.bytes = serEntry e := by
  cases m <;> simp only [Macro.entry, Option.some.injEq, reduceCtorEq] at h <;> subst h <;>
    simp [Macro.bytes, serEntry, asc]

theorem literal_serialize (ms : List Macro) (h : ∀ m ∈ ms, m.entry.isSome) :
    literal ms = serialize (ms.filterMap Macro.entry) := by
  unfold literal serialize
  congr 1
  induction ms with
  | nil => rfl
  | cons m ms ih =>
    have hm := h m (List.mem_cons_self ..)
    obtain ⟨e, he⟩ := Option.isSome_iff_exists.mp hm
    have ih' := ih (fun x hx => h x (List.mem_cons_of_mem _ hx))
    simp only [List.map_cons, List.flatten_cons, List.filterMap_cons, he, ih',
      Macro.bytes_entry m e he]

end Rtosc.Meta
