/-
  C10 — tokens of the types 'c' (char literal `'x'` / `'\n'`), 'r' (colour `#rrggbbaa`) and
  'm' (`MIDI [0xaa 0xbb 0xcc 0xdd]`).  Scanner cases `scanChar`, `scanColor`, `scanMidi`,
  checker cases `skipChar`, `skipColor`, `skipMidi`.
-/
import RtoscModel.Proofs.PrettyTok
namespace Rtosc.Pretty
open Rtosc Rtosc.Libc
open Rtosc.ArgVal (Cell)

/-! ### 'c' -/

/-- values of a char argument the property quantifies over: NUL, the C escapes \a..\r, printable ASCII -/
def CharOK (v : Int) : Prop := v = 0 ∨ (7 ≤ v ∧ v ≤ 13) ∨ (32 ≤ v ∧ v ≤ 126)

/-- the text the printer writes for a char -/
def charText (v : Int) : Bytes :=
  match (if 0 ≤ v ∧ v < 256 then asEscapedChar v.toNat.toUInt8 true else none) with
  | some e => [39, 92, e, 39]
  | none => [39, (v % 256).toNat.toUInt8, 39]

theorem printArgVal_char (fuel : Nat) (opt : POpt) (v : Int) (more : List Cell) (prev : Option Cell) (st : PSt) :
    printArgVal (fuel + 1) opt (Cell.int .c v :: more) prev st =
      .ok (⟨st.out ++ charText v, st.cols + (charText v).length⟩, (charText v).length) := by
  simp only [printArgVal, deref, bind, Except.bind, pure, Except.pure, charText]
  generalize (if 0 ≤ v ∧ v < 256 then asEscapedChar v.toNat.toUInt8 true else none) = o
  cases o <;> rfl

/-- the two shapes of a char token, as a decidable test -/
def charShape (t : Bytes) (v : Int) : Bool :=
  match t with
  | [39, x, 39] => x ≠ 92 && scharVal x = v
  | [39, 92, e, 39] => scharVal (getEscapedChar e true) = v && (getEscapedChar e true ≠ 0 || e = 48)
  | _ => false

theorem charShape_fin : ∀ n : Fin 127, (n.val = 0 ∨ (7 ≤ n.val ∧ n.val ≤ 13) ∨ 32 ≤ n.val) →
    charShape (charText (n.val : Int)) (n.val : Int) = true := by
  decide +kernel

theorem charShape_ok (v : Int) (h : CharOK v) : charShape (charText v) v = true := by
  have hv : 0 ≤ v ∧ v < 127 := by unfold CharOK at h; omega
  have := charShape_fin ⟨v.toNat, by omega⟩ (by unfold CharOK at h; simp only; omega)
  simp only at this
  rwa [show ((v.toNat : Nat) : Int) = v from by omega] at this


theorem charShape_inv (t : Bytes) (v : Int) (h : charShape t v = true) :
    (∃ x, t = [39, x, 39] ∧ x ≠ 92 ∧ scharVal x = v) ∨
    (∃ e, t = [39, 92, e, 39] ∧ scharVal (getEscapedChar e true) = v ∧ (getEscapedChar e true ≠ 0 ∨ e = 48)) := by
  unfold charShape at h
  split at h
  · left; exact ⟨_, rfl, by simpa using h⟩
  · right; exact ⟨_, rfl, by simpa using h⟩
  · cases h

theorem scanValue_char (se : ElemScanner) (s : Bytes) (prev : List Cell) (h : hd s = 39) :
    scanValue se s prev = scanChar s := by
  unfold scanValue
  simp [h]

theorem skipValue_char (sk : ArgSkipper) (s : Bytes) (ty : UInt8) (ib : Bool) (h : hd s = 39) :
    skipValue sk s ty ib = .ok (skipChar s) := by
  unfold skipValue
  simp [h, pure, Except.pure]

theorem tokOK_char_plain (x : UInt8) (hx : x ≠ 92) : TokOK [39, x, 39] (Cell.int .c (scharVal x)) := by
  refine ⟨⟨by simp, by simp only [hd_cons]; decide⟩, ?_, ?_⟩
  · intro rest fuel prev ab hs
    apply scanArgVal_of_value _ _ _ _ _ _ hs
    rw [scanValue_char _ _ _ rfl]
    simp [scanChar, advance, hx, bind, Except.bind, pure, Except.pure]
  · intro rest fuel ty llhs ib hs
    apply skipNext_of_value _ _ 99 0 _ _ _ _ hs
    rw [skipValue_char _ _ _ _ rfl]
    simp [skipChar, hx]

theorem tokOK_char_esc (e : UInt8) (he : getEscapedChar e true ≠ 0 ∨ e = 48) :
    TokOK [39, 92, e, 39] (Cell.int .c (scharVal (getEscapedChar e true))) := by
  refine ⟨⟨by simp, by simp only [hd_cons]; decide⟩, ?_, ?_⟩
  · intro rest fuel prev ab hs
    apply scanArgVal_of_value _ _ _ _ _ _ hs
    rw [scanValue_char _ _ _ rfl]
    simp [scanChar, advance, at?, isspace, bind, Except.bind, pure, Except.pure]
  · intro rest fuel ty llhs ib hs
    apply skipNext_of_value _ _ 99 0 _ _ _ _ hs
    rw [skipValue_char _ _ _ _ rfl]
    simp [skipChar, isspace]
    intro h0; rcases he with he | he
    · exact absurd h0 he
    · exact he

theorem tokOK_char (v : Int) (h : CharOK v) : TokOK (charText v) (Cell.int .c v) := by
  rcases charShape_inv _ _ (charShape_ok v h) with ⟨x, ht, hx, hv⟩ | ⟨e, ht, hv, he⟩
  · rw [ht, ← hv]; exact tokOK_char_plain x hx
  · rw [ht, ← hv]; exact tokOK_char_esc e he

/-- 'c': `'x'`, `'\n'`, `'\''`, `'\\'`, `'\0'` … scan back to the same char -/
theorem printsTok_char (opt : POpt) (v : Int) (h : CharOK v) : PrintsTok opt (Cell.int .c v) := by
  intro fuel more prev st
  exact ⟨charText v, _, printArgVal_char fuel opt v more prev st, tokOK_char v h⟩


/-! ### hexadecimal digit strings -/

theorem isxdigit_facts (c : UInt8) (h : isxdigit c = true) :
    c ≠ 45 ∧ c ≠ 43 ∧ isspace c = false ∧ tolower c ≠ 120 ∧ digitOk 16 c = true := by
  revert h; revert c; apply UInt8.forall_of_fin; decide +kernel

/-- what follows a hexadecimal number -/
def HexEnd (r : Bytes) : Prop := isxdigit (hd r) = false ∧ hd r ≠ 120 ∧ hd r ≠ 88

theorem sep_hexEnd (rest : Bytes) (h : Sep rest) : HexEnd rest := by
  obtain ⟨_, b, c, _, _, _, _, d, _⟩ := sep_hd_facts rest h
  exact ⟨d, b, c⟩

theorem hexEnd_tolower (r : Bytes) (h : HexEnd r) : tolower (hd r) ≠ 120 := by
  obtain ⟨_, h2, h3⟩ := h
  revert h2 h3; generalize hd r = c; revert c; apply UInt8.forall_of_fin; decide +kernel

theorem takeDigits16 (ds rest : Bytes) (hds : ∀ c ∈ ds, isxdigit c = true) (hr : HexEnd rest) :
    takeDigits 16 (ds ++ rest) none = (ds, rest) := by
  induction ds with
  | nil =>
    cases rest with
    | nil => rfl
    | cons c r => have := hr.1; simp only [hd_cons] at this; simp [takeDigits, digitOk, this]
  | cons c r ih =>
    have hc := hds c (by simp)
    have hok := (isxdigit_facts c hc).2.2.2.2
    have := ih (fun x hx => hds x (by simp [hx]))
    simp [takeDigits, wOk, wDec, hok, this]

theorem digitsVal16_zero (ds : Bytes) : digitsVal 16 (48 :: ds) = digitsVal 16 ds := by
  simp [digitsVal, xval, isdigit]

/-- `%x` on a non-empty run of hexadecimal digits -/
theorem scanInt_hex (d : UInt8) (ds rest : Bytes) (hd0 : isxdigit d = true)
    (hds : ∀ c ∈ ds, isxdigit c = true) (hr : HexEnd rest)
    (hsmall : digitsVal 16 (d :: ds) ≤ 18446744073709551615) :
    scanInt .x none (d :: ds ++ rest) = some ((digitsVal 16 (d :: ds) : Int), rest) := by
  obtain ⟨h45, h43, hsp, _, _⟩ := isxdigit_facts d hd0
  have hnx : tolower (hd (ds ++ rest)) ≠ 120 := by
    cases ds with
    | nil => exact hexEnd_tolower rest hr
    | cons c r => exact (isxdigit_facts c (hds c (by simp))).2.2.2.1
  have hall : ∀ c ∈ d :: ds, isxdigit c = true := by
    intro c hc; simp at hc; rcases hc with rfl | hc; exact hd0; exact hds c hc
  have htd := takeDigits16 (d :: ds) rest hall hr
  have htd' := takeDigits16 ds rest hds hr
  simp only [List.cons_append] at htd
  have hsmall' : ¬ digitsVal 16 (d :: ds) > 18446744073709551615 := by omega
  unfold scanInt
  simp only [List.cons_append, skipSpace, hsp, Bool.false_eq_true, ↓reduceIte]
  by_cases h48 : d = 48
  · subst h48
    rw [digitsVal16_zero] at hsmall' ⊢
    simp [intPrefix, wOk, wDec, hnx, htd', intValue, hsmall']
  · simp [h45, h43, intPrefix_nonzero _ _ _ _ h48, htd, intValue, hsmall']

theorem isxdigit_hexDigitChar (d : Nat) (h : d < 16) : isxdigit (hexDigitChar d) = true := by
  have : ∀ d : Fin 16, isxdigit (hexDigitChar d.val) = true := by decide
  exact this ⟨d, h⟩

theorem xval_hexDigitChar (d : Nat) (h : d < 16) : xval (hexDigitChar d) = d := by
  have : ∀ d : Fin 16, xval (hexDigitChar d.val) = d.val := by decide
  exact this ⟨d, h⟩

theorem fmtHex2_xdigit (n : Nat) : ∀ c ∈ fmtHex2 n, isxdigit c = true := by
  intro c hc
  simp only [fmtHex2, List.mem_cons, List.not_mem_nil, or_false] at hc
  rcases hc with rfl | rfl <;> exact isxdigit_hexDigitChar _ (by omega)

theorem digitsVal_fmtHex2 (n : Nat) (h : n < 256) : digitsVal 16 (fmtHex2 n) = n := by
  simp only [fmtHex2, digitsVal, List.foldl_cons, List.foldl_nil, xval_hexDigitChar _ (show n / 16 % 16 < 16 by omega),
    xval_hexDigitChar _ (show n % 16 < 16 by omega)]
  omega


/-! ### 'r' -/

/-- the eight hexadecimal digits of a 32-bit pattern -/
def hex8 (u : Nat) : Bytes :=
  fmtHex2 (u / 16777216 % 256) ++ fmtHex2 (u / 65536 % 256) ++ fmtHex2 (u / 256 % 256) ++ fmtHex2 (u % 256)

theorem hex8_length (u : Nat) : (hex8 u).length = 8 := by simp [hex8, fmtHex2]

theorem hex8_xdigit (u : Nat) : ∀ c ∈ hex8 u, isxdigit c = true := by
  intro c hc
  simp only [hex8, List.mem_append] at hc
  rcases hc with ((hc | hc) | hc) | hc <;> exact fmtHex2_xdigit _ c hc

theorem digitsVal_hex8 (u : Nat) (h : u < 4294967296) : digitsVal 16 (hex8 u) = u := by
  have l2 : ∀ n, (fmtHex2 n).length = 2 := fun n => rfl
  simp only [hex8, digitsVal_append, l2, digitsVal_fmtHex2 _ (show u / 16777216 % 256 < 256 by omega),
    digitsVal_fmtHex2 _ (show u / 65536 % 256 < 256 by omega), digitsVal_fmtHex2 _ (show u / 256 % 256 < 256 by omega),
    digitsVal_fmtHex2 _ (show u % 256 < 256 by omega)]
  omega

theorem hex8_cons (u : Nat) : ∃ d ds, hex8 u = d :: ds := ⟨_, _, rfl⟩

theorem printArgVal_color (fuel : Nat) (opt : POpt) (v : Int) (more : List Cell) (prev : Option Cell) (st : PSt) :
    printArgVal (fuel + 1) opt (Cell.int .r v :: more) prev st =
      .ok (⟨st.out ++ 35 :: hex8 (v % 4294967296).toNat, st.cols + (35 :: hex8 (v % 4294967296).toNat).length⟩,
        (35 :: hex8 (v % 4294967296).toNat).length) := by
  simp [printArgVal, deref, bind, Except.bind, pure, Except.pure, hex8]

theorem scanValue_color (se : ElemScanner) (s : Bytes) (prev : List Cell) (h : hd s = 35) :
    scanValue se s prev = scanColor s := by
  unfold scanValue
  simp [h]

theorem skipValue_color (sk : ArgSkipper) (s : Bytes) (ty : UInt8) (ib : Bool) (h : hd s = 35) :
    skipValue sk s ty ib = .ok (some (skipColor s)) := by
  unfold skipValue
  simp [h, pure, Except.pure]

theorem tokOK_color (v : Int) (h1 : -2147483648 ≤ v) (h2 : v ≤ 2147483647) :
    TokOK (35 :: hex8 (v % 4294967296).toNat) (Cell.int .r v) := by
  have hu : (v % 4294967296).toNat < 4294967296 := by omega
  have hv : toI32 ((v % 4294967296).toNat : Int) = v := by unfold toI32; omega
  generalize (v % 4294967296).toNat = u at hu hv
  refine ⟨⟨by simp, by simp only [hd_cons]; decide⟩, ?_, ?_⟩
  · intro rest fuel prev ab hs
    apply scanArgVal_of_value _ _ _ _ _ _ hs
    rw [scanValue_color _ _ _ rfl]
    obtain ⟨d, ds, he⟩ := hex8_cons u
    have hall := hex8_xdigit u
    have hval := digitsVal_hex8 u hu
    have hlen := hex8_length u
    rw [he] at hall hval hlen
    have hsc := scanInt_hex d ds rest (hall d (by simp)) (fun c hc => hall c (by simp [hc])) (sep_hexEnd rest hs)
      (by rw [hval]; omega)
    rw [hval] at hsc
    have hss : sscanf [.int .x none false] (d :: ds ++ rest) = [.int (u : Int)] := by
      unfold sscanf
      rw [sscanfGo_int_some _ _ _ _ _ _ _ _ _ hsc]
      simp [sscanfGo]
    have hadv : advance (d :: ds ++ rest) 8 = .ok rest := by
      unfold advance
      rw [← hlen]
      simp
    simp only [List.length_cons] at hlen
    simp only [scanColor, he, List.cons_append, List.drop_succ_cons, List.drop_zero]
    simp only [List.cons_append] at hss hadv
    simp [hss, hadv, hv, bind, Except.bind, pure, Except.pure]
  · intro rest fuel ty llhs ib hs
    apply skipNext_of_value _ _ 114 0 _ _ _ _ hs
    rw [skipValue_color _ _ _ _ rfl]
    have hall := hex8_xdigit u
    have hlen := hex8_length u
    have htake : ((35 :: hex8 u ++ rest).drop 1).take 8 = hex8 u := by
      simp only [List.cons_append, List.drop_succ_cons, List.drop_zero]
      rw [← hlen]; simp
    have hdrop : (35 :: hex8 u ++ rest).drop 9 = rest := by
      simp only [List.cons_append, List.drop_succ_cons]
      rw [← hlen]; simp
    unfold skipColor
    rw [htake, hdrop]
    simp [hlen, List.all_eq_true]
    exact hall

/-- 'r': `#rrggbbaa` (val.i is an int32, printed as its 32-bit two's complement pattern) -/
theorem printsTok_color (opt : POpt) (v : Int) (h1 : -2147483648 ≤ v) (h2 : v ≤ 2147483647) :
    PrintsTok opt (Cell.int .r v) := by
  intro fuel more prev st
  exact ⟨_, _, printArgVal_color fuel opt v more prev st, tokOK_color v h1 h2⟩


/-! ### 'm' -/

theorem lit_midi : lit "MIDI" = [77, 73, 68, 73] := by decide
theorem lit_midi_open : lit "MIDI [0x" = [77, 73, 68, 73, 32, 91, 48, 120] := by decide
theorem lit_sp0x : lit " 0x" = [32, 48, 120] := by decide

/-- the text the printer writes for a MIDI message -/
def midiText (a b c d : UInt8) : Bytes :=
  [77, 73, 68, 73, 32, 91, 48, 120] ++ fmtHex2 a.toNat ++ [32, 48, 120] ++ fmtHex2 b.toNat ++ [32, 48, 120] ++
    fmtHex2 c.toNat ++ [32, 48, 120] ++ fmtHex2 d.toNat ++ [93]

theorem midiText_length (a b c d : UInt8) : (midiText a b c d).length = 26 := by simp [midiText, fmtHex2]

theorem printArgVal_midi (fuel : Nat) (opt : POpt) (a b c d : UInt8) (more : List Cell) (prev : Option Cell) (st : PSt) :
    printArgVal (fuel + 1) opt (Cell.midi a b c d :: more) prev st =
      .ok (⟨st.out ++ midiText a b c d, st.cols + (midiText a b c d).length⟩, (midiText a b c d).length) := by
  simp [printArgVal, deref, bind, Except.bind, pure, Except.pure, midiText, lit_midi_open, lit_sp0x]

theorem fmtMidi_eq (sup : Bool) : fmtMidi sup =
    [.lit 77, .lit 73, .lit 68, .lit 73, .ws, .lit 91, .ws,
     .lit 48, .lit 120, .int .x none sup, .ws, .lit 48, .lit 120, .int .x none sup, .ws,
     .lit 48, .lit 120, .int .x none sup, .ws, .lit 48, .lit 120, .int .x none sup, .ws, .lit 93, .n] := by
  cases sup <;> decide

theorem sscanfGo_lit_eq (c : UInt8) (ds : List Dir) (r : Bytes) (k : Nat) (acc : List SVal) :
    sscanfGo (.lit c :: ds) (c :: r) k acc = sscanfGo ds r (k + 1) acc := by
  simp [sscanfGo]

theorem sscanfGo_ws_nospace (ds : List Dir) (c : UInt8) (r : Bytes) (k : Nat) (acc : List SVal)
    (h : isspace c = false) : sscanfGo (.ws :: ds) (c :: r) k acc = sscanfGo ds (c :: r) k acc := by
  simp [sscanfGo, skipSpace, h]

theorem sscanfGo_ws_space1 (ds : List Dir) (c : UInt8) (r : Bytes) (k : Nat) (acc : List SVal)
    (h : isspace c = false) : sscanfGo (.ws :: ds) (32 :: c :: r) k acc = sscanfGo ds (c :: r) (k + 1) acc := by
  have h32 : isspace 32 = true := by decide
  simp [sscanfGo, skipSpace, h, h32]

theorem hexEnd_cons (c : UInt8) (r : Bytes) (h : isxdigit c = false ∧ c ≠ 120 ∧ c ≠ 88) : HexEnd (c :: r) := h

/-- `%x` / `%*x` on the two digits `%02x` printed -/
theorem sscanfGo_hex2 (n : Nat) (hn : n < 256) (sup : Bool) (ds : List Dir) (r : Bytes) (k : Nat)
    (acc : List SVal) (hr : HexEnd r) :
    sscanfGo (.int .x none sup :: ds) (fmtHex2 n ++ r) k acc =
      sscanfGo ds r (k + 2) (if sup then acc else .int (n : Int) :: acc) := by
  have hall := fmtHex2_xdigit n
  have hval := digitsVal_fmtHex2 n hn
  have he : fmtHex2 n = [hexDigitChar (n / 16 % 16), hexDigitChar (n % 16)] := rfl
  rw [he] at hall hval ⊢
  have hsc := scanInt_hex (hexDigitChar (n / 16 % 16)) [hexDigitChar (n % 16)] r (hall _ (by simp))
    (fun c hc => hall c (by simp [hc])) hr
    (by rw [hval]; omega)
  rw [hval] at hsc
  rw [sscanfGo_int_some _ _ _ _ _ _ _ _ _ hsc]
  congr 1
  simp only [List.cons_append, List.nil_append, List.length_cons]
  omega

theorem sscanf_midi (sup : Bool) (a b c d : UInt8) (rest : Bytes) :
    sscanf (fmtMidi sup) (midiText a b c d ++ rest) =
      (if sup then [] else [.int (a.toNat : Int), .int (b.toNat : Int), .int (c.toNat : Int), .int (d.toNat : Int)]) ++
        [.pos 26] := by
  have e32 : isxdigit 32 = false ∧ (32 : UInt8) ≠ 120 ∧ (32 : UInt8) ≠ 88 := by decide
  have e93 : isxdigit 93 = false ∧ (93 : UInt8) ≠ 120 ∧ (93 : UInt8) ≠ 88 := by decide
  have s91 : isspace 91 = false := by decide
  have s48 : isspace 48 = false := by decide
  have s93 : isspace 93 = false := by decide
  unfold sscanf
  rw [fmtMidi_eq]
  simp only [midiText, List.append_assoc, List.cons_append, List.nil_append]
  rw [sscanfGo_lit_eq, sscanfGo_lit_eq, sscanfGo_lit_eq, sscanfGo_lit_eq, sscanfGo_ws_space1 _ _ _ _ _ s91,
    sscanfGo_lit_eq, sscanfGo_ws_nospace _ _ _ _ _ s48, sscanfGo_lit_eq, sscanfGo_lit_eq,
    sscanfGo_hex2 _ a.toNat_lt _ _ _ _ _ (hexEnd_cons _ _ e32),
    sscanfGo_ws_space1 _ _ _ _ _ s48, sscanfGo_lit_eq, sscanfGo_lit_eq,
    sscanfGo_hex2 _ b.toNat_lt _ _ _ _ _ (hexEnd_cons _ _ e32),
    sscanfGo_ws_space1 _ _ _ _ _ s48, sscanfGo_lit_eq, sscanfGo_lit_eq,
    sscanfGo_hex2 _ c.toNat_lt _ _ _ _ _ (hexEnd_cons _ _ e32),
    sscanfGo_ws_space1 _ _ _ _ _ s48, sscanfGo_lit_eq, sscanfGo_lit_eq,
    sscanfGo_hex2 _ d.toNat_lt _ _ _ _ _ (hexEnd_cons _ _ e93),
    sscanfGo_ws_nospace _ _ _ _ _ s93, sscanfGo_lit_eq]
  cases sup <;> simp [sscanfGo]

theorem u8_toNat (a : UInt8) : u8 (a.toNat : Int) = a := by
  revert a; apply UInt8.forall_of_fin; decide +kernel

theorem scanValue_midi (se : ElemScanner) (s : Bytes) (prev : List Cell) (h : hd s = 77) :
    scanValue se s prev = scanMidi s := by
  unfold scanValue
  simp [h]

theorem skipValue_midi (sk : ArgSkipper) (s : Bytes) (ty : UInt8) (ib : Bool) (h : hd s = 77) :
    skipValue sk s ty ib = .ok (some (skipMidi s)) := by
  unfold skipValue
  simp [h, pure, Except.pure]

/-- the `strncmp` / `isspace` test of the 'M' cases -/
theorem midi_guard (a b c d : UInt8) (rest : Bytes) :
    startsWith (midiText a b c d ++ rest) (lit "MIDI") = true ∧
    (isspace (hd ((midiText a b c d ++ rest).drop 4)) = true ∨ hd ((midiText a b c d ++ rest).drop 4) = 91) := by
  have h32 : isspace 32 = true := by decide
  simp [midiText, lit_midi, startsWith, h32]

theorem midi_drop (a b c d : UInt8) (rest : Bytes) : (midiText a b c d ++ rest).drop 26 = rest := by
  rw [← midiText_length a b c d]; simp

theorem tokOK_midi (a b c d : UInt8) : TokOK (midiText a b c d) (Cell.midi a b c d) := by
  refine ⟨⟨by simp [midiText], by simp only [midiText, List.cons_append, hd_cons]; decide⟩, ?_, ?_⟩
  · intro rest fuel prev ab hs
    apply scanArgVal_of_value _ _ _ _ _ _ hs
    rw [scanValue_midi _ _ _ (by simp [midiText])]
    unfold scanMidi
    rw [if_pos (midi_guard a b c d rest), sscanf_midi]
    simp [midi_drop, u8_toNat, pure, Except.pure]
  · intro rest fuel ty llhs ib hs
    apply skipNext_of_value _ _ 109 0 _ _ _ _ hs
    rw [skipValue_midi _ _ _ _ (by simp [midiText])]
    unfold skipMidi skipFmt scanRd
    rw [if_pos (midi_guard a b c d rest), sscanf_midi]
    simp [midi_drop]

/-- 'm': `MIDI [0xaa 0xbb 0xcc 0xdd]` -/
theorem printsTok_midi (opt : POpt) (a b c d : UInt8) : PrintsTok opt (Cell.midi a b c d) := by
  intro fuel more prev st
  exact ⟨_, _, printArgVal_midi fuel opt a b c d more prev st, tokOK_midi a b c d⟩

end Rtosc.Pretty
