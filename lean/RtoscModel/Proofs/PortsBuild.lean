/-
  C04 helper lemmas, part 8: the constructors `ClonePorts` / `MergePorts` (Ports/Build.lean)
  and the index computation of the enumerated recursion callbacks (Ports/Sugar.lean).
-/
import RtoscModel.Ports.Sugar
import RtoscModel.Ports.Build
namespace Rtosc.Ports.Sugar
open Rtosc Rtosc.Ports Rtosc.Match

theorem atoiRun_run (ds : Bytes) (c : UInt8) (tail : Bytes) (acc : Nat)
    (hds : ∀ x ∈ ds, isDigit x = true) (hc : isDigit c = false) :
    atoiRun (ds ++ c :: tail) acc = some (ds.foldl (fun acc c => acc * 10 + (c.toNat - 48)) acc) := by
  induction ds generalizing acc with
  | nil => simp [atoiRun, hc]
  | cons d r ih =>
    have hd : isDigit d = true := hds d List.mem_cons_self
    simp only [List.cons_append, atoiRun, hd, ↓reduceIte, List.foldl_cons]
    exact ih _ (fun x hx => hds x (List.mem_cons_of_mem _ hx))

theorem boilsScan_lit (lit rest mm : Bytes) (hlit : ∀ x ∈ lit, x ≠ 35) :
    boilsScan (lit ++ 35 :: rest) (lit ++ mm) = some (true, mm) := by
  induction lit with
  | nil => simp [boilsScan]
  | cons x r ih =>
    have hx : x ≠ 35 := hlit x List.mem_cons_self
    simp only [List.cons_append, boilsScan, hx, ↓reduceIte]
    exact ih (fun y hy => hlit y (List.mem_cons_of_mem _ hy))

/-- **recursIdx_spelled**: for a port `lit#N…` and a message that spells `lit`, a run of digits
    and then something else, `rBOILS_BEGIN` computes the value of that run — the index the
    address spells for the name's `#N` (C05: `SpellsAll.enum`). -/
theorem recursIdx_spelled (lit rest ds tail : Bytes) (c : UInt8)
    (hlit : ∀ x ∈ lit, x ≠ 35) (hds : ∀ x ∈ ds, isDigit x = true) (hc : isDigit c = false) :
    recursIdx (lit ++ 35 :: rest) (lit ++ (ds ++ c :: tail)) = some (decVal ds) := by
  simp only [recursIdx, boilsScan_lit lit rest _ hlit, atoiRun_run ds c tail 0 hds hc, decVal]

end Rtosc.Ports.Sugar

namespace Rtosc.Ports
open Rtosc

theorem mergeOne_names_sub (acc ps : List Entry) :
    ∀ e ∈ mergeOne acc ps, e ∈ acc ∨ e ∈ ps := by
  induction ps generalizing acc with
  | nil => intro e he; exact Or.inl he
  | cons p r ih =>
    intro e he
    simp only [mergeOne] at he
    rcases ih _ e he with h | h
    · split at h
      · exact Or.inl h
      · rcases List.mem_append.mp h with h | h
        · exact Or.inl h
        · simp only [List.mem_singleton] at h; subst h; exact Or.inr List.mem_cons_self
    · exact Or.inr (List.mem_cons_of_mem _ h)

/-- the names of a merged table are pairwise different if those it started from are -/
theorem mergeOne_nodup (acc ps : List Entry) (h : (acc.map Entry.name).Nodup) :
    ((mergeOne acc ps).map Entry.name).Nodup := by
  induction ps generalizing acc with
  | nil => exact h
  | cons p r ih =>
    simp only [mergeOne]
    apply ih
    split
    · exact h
    · next hany =>
      simp only [List.map_append, List.map_cons, List.map_nil]
      refine List.nodup_append.mpr ⟨h, by simp, ?_⟩
      intro a ha b hb
      simp only [List.mem_singleton] at hb
      subst hb
      intro hab
      subst hab
      obtain ⟨q, hq, hqn⟩ := List.mem_map.mp ha
      exact hany (List.any_eq_true.mpr ⟨q, hq, by simp [hqn]⟩)

/-- **mergePorts_nodup**: `MergePorts` never yields two ports with the same name -/
theorem mergePorts_nodup (parts : List (List Entry)) : ((mergePorts parts).map Entry.name).Nodup := by
  unfold mergePorts
  suffices ∀ acc : List Entry, (acc.map Entry.name).Nodup → ((parts.foldl mergeOne acc).map Entry.name).Nodup from
    this [] (by simp)
  induction parts with
  | nil => intro acc h; exact h
  | cons p r ih => intro acc h; exact ih _ (mergeOne_nodup acc p h)

/-- every port that `MergePorts` keeps is a port of one of the merged tables -/
theorem mergePorts_sub (parts : List (List Entry)) : ∀ e ∈ mergePorts parts, ∃ p ∈ parts, e ∈ p := by
  unfold mergePorts
  suffices ∀ acc : List Entry, ∀ e ∈ parts.foldl mergeOne acc, e ∈ acc ∨ ∃ p ∈ parts, e ∈ p from by
    intro e he
    rcases this [] e he with h | h
    · cases h
    · exact h
  induction parts with
  | nil => intro acc e he; exact Or.inl he
  | cons p r ih =>
    intro acc e he
    rcases ih _ e he with h | ⟨q, hq, hqe⟩
    · rcases mergeOne_names_sub acc p e h with h | h
      · exact Or.inl h
      · exact Or.inr ⟨p, List.mem_cons_self, h⟩
    · exact Or.inr ⟨q, List.mem_cons_of_mem _ hq, hqe⟩

/-- **clonePorts_names**: the table `ClonePorts` builds has exactly the listed names, in list order -/
theorem clonePorts_names (src : List Entry) : ∀ (list : List Bytes) (res : List Entry),
    clonePorts src list = some res → res.map Entry.name = list := by
  have hfind : ∀ (n : Bytes) (p : Entry), findClone src n = some p → p.name = n := by
    intro n p
    unfold findClone
    suffices ∀ (acc : Option Entry), (∀ q, acc = some q → q.name = n) →
        (src.foldl (fun acc p => if p.name = n then some p else acc) acc) = some p → p.name = n from
      this none (by simp)
    induction src with
    | nil => intro acc hacc h; exact hacc p h
    | cons x r ih =>
      intro acc hacc h
      simp only [List.foldl_cons] at h
      refine ih _ ?_ h
      intro q hq
      split at hq
      · next hx => cases hq; exact hx
      · exact hacc q hq
  intro list
  induction list with
  | nil => intro res h; simp [clonePorts] at h; subst h; rfl
  | cons n ns ih =>
    intro res h
    simp only [clonePorts] at h
    split at h
    · next p r hp hr =>
      cases h
      simp [hfind n p hp, ih r hr]
    · cases h

end Rtosc.Ports
