/-
  C04 helper lemmas, part 8: the constructors `ClonePorts` / `MergePorts` (Ports/Build.lean)
  and the index computation of the enumerated recursion callbacks (Ports/Sugar.lean).
-/
import RtoscModel.Ports.Sugar
import RtoscModel.Ports.Build
namespace Rtosc.Ports.Sugar
open Rtosc Rtosc.Ports Rtosc.Match

theorem atoiRun_run (ds : Bytes) (c : UInt8) (tail : Bytes) (acc : Nat)
    (hds : ∀ x ∈ ds, isDigit x = true) (hc : isDigit c = false) :
    atoiRun (ds ++ c :: tail) acc = some (ds.foldl (fun acc c => acc * 10 + (c.toNat - 48)) acc) := by
  induction ds generalizing acc with
  | nil => simp [atoiRun, hc]
  | cons d r ih =>
    have hd : isDigit d = true := hds d List.mem_cons_self
    simp only [List.cons_append, atoiRun, hd, ↓reduceIte, List.foldl_cons]
    exact ih _ (fun x hx => hds x (List.mem_cons_of_mem _ hx))

theorem boilsScan_lit (lit rest mm : Bytes) (hlit : ∀ x ∈ lit, x ≠ 35) :
    boilsScan (lit ++ 35 :: rest) (lit ++ mm) = some (true, mm) := by
  induction lit with
  | nil => simp [boilsScan]
  | cons x r ih =>
    have hx : x ≠ 35 := hlit x List.mem_cons_self
    simp only [List.cons_append, boilsScan, hx, ↓reduceIte]
    exact ih (fun y hy => hlit y (List.mem_cons_of_mem _ hy))

/-- **recursIdx_spelled**: for a port `lit#N…` and a message that spells `lit`, a run of digits
    and then something else, `rBOILS_BEGIN` computes the value of that run — the index the
    address spells for the name's `#N` (C05: `SpellsAll.enum`). -/
theorem recursIdx_spelled (lit rest ds tail : Bytes) (c : UInt8)
    (hlit : ∀ x ∈ lit, x ≠ 35) (hds : ∀ x ∈ ds, isDigit x = true) (hc : isDigit c = false) :
    recursIdx (lit ++ 35 :: rest) (lit ++ (ds ++ c :: tail)) = some (decVal ds) := by
  simp only [recursIdx, boilsScan_lit lit rest _ hlit, atoiRun_run ds c tail 0 hds hc, decVal]

end Rtosc.Ports.Sugar

namespace Rtosc.Ports
open Rtosc

theorem mergeOne_names_sub (acc ps : List Entry) :
    ∀ e ∈ mergeOne acc ps, e ∈ acc ∨ e ∈ ps := by
  induction ps generalizing acc with
  | nil => intro e he; exact Or.inl he
  | cons p r ih =>
    intro e he
    simp only [mergeOne] at he
    rcases ih _ e he with h | h
    · split at h
      · exact Or.inl h
      · rcases List.mem_append.mp h with h | h
        · exact Or.inl h
        · simp only [List.mem_singleton] at h; subst h; exact Or.inr List.mem_cons_self
    · exact Or.inr (List.mem_cons_of_mem _ h)

/-- the names of a merged table are pairwise different if those it started from are -/
theorem mergeOne_nodup (acc ps : List Entry) (h : (acc.map Entry.name).Nodup) :
    ((mergeOne acc ps).map Entry.name).Nodup := by
  induction ps generalizing acc with
  | nil => exact h
  | cons p r ih =>
    simp only [mergeOne]
    apply ih
    split
    · exact h
    · next hany =>
      simp only [List.map_append, List.map_cons, List.map_nil]
      refine List.nodup_append.mpr ⟨h, by simp, ?_⟩
      intro a ha b hb
      simp only [List.mem_singleton] at hb
      subst hb
      intro hab
      subst hab
      obtain ⟨q, hq, hqn⟩ := List.mem_map.mp ha
      exact hany (List.any_eq_true.mpr ⟨q, hq, by simp [hqn]⟩)

/-- **mergePorts_nodup**: `MergePorts` never yields two ports with the same name -/
theorem mergePorts_nodup (parts : List (List Entry)) : ((mergePorts parts).map Entry.name).Nodup := by
  unfold mergePorts
  suffices ∀ acc : List Entry, (acc.map Entry.name).Nodup → ((parts.foldl mergeOne acc).map Entry.name).Nodup from
    this [] (by simp)
  induction parts with
  | nil => intro acc h; exact h
  | cons p r ih => intro acc h; exact ih _ (mergeOne_nodup acc p h)

/-- every port that `MergePorts` keeps is a port of one of the merged tables -/
theorem mergePorts_sub (parts : List (List Entry)) : ∀ e ∈ mergePorts parts, ∃ p ∈ parts, e ∈ p := by
  unfold mergePorts
  suffices ∀ acc : List Entry, ∀ e ∈ parts.foldl mergeOne acc, e ∈ acc ∨ ∃ p ∈ parts, e ∈ p from by
    intro e he
    rcases this [] e he with h | h
    · cases h
    · exact h
  induction parts with
  | nil => intro acc e he; exact Or.inl he
  | cons p r ih =>
    intro acc e he
    rcases ih _ e he with h | ⟨q, hq, hqe⟩
    · rcases mergeOne_names_sub acc p e h with h | h
      · exact Or.inl h
      · exact Or.inr ⟨p, List.mem_cons_self, h⟩
    · exact Or.inr ⟨q, List.mem_cons_of_mem _ hq, hqe⟩

/-- **clonePorts_names**: the table `ClonePorts` builds has exactly the listed names, in list order -/
theorem clonePorts_names (src : List Entry) : ∀ (list : List Bytes) (res : List Entry),
    clonePorts src list = some res → res.map Entry.name = list := by
  have hfind : ∀ (n : Bytes) (p : Entry), findClone src n = some p → p.name = n := by
    intro n p
    unfold findClone
    suffices ∀ (acc : Option Entry), (∀ q, acc = some q → q.name = n) →
        (src.foldl (fun acc p => if p.name = n then some p else acc) acc) = some p → p.name = n from
      this none (by simp)
    induction src with
    | nil => intro acc hacc h; exact hacc p h
    | cons x r ih =>
      intro acc hacc h
      simp only [List.foldl_cons] at h
      refine ih _ ?_ h
      intro q hq
      split at hq
      · next hx => cases hq; exact hx
      · exact hacc q hq
  intro list
  induction list with
  | nil => intro res h; simp [clonePorts] at h; subst h; rfl
  | cons n ns ih =>
    intro res h
    simp only [clonePorts] at h
    split at h
    · next p r hp hr =>
      cases h
      simp [hfind n p hp, ih r hr]
    · cases h

/-! ### exact characterisation of the two constructors (second review) -/

/-- what `MergePorts` is documented to do, said without its loops: go through the ports of all the merged
    tables in order and keep a port iff no port with its name was met before (`seen`: the names met so far) -/
def keepNew (seen : List Bytes) : List Entry → List Entry
  | [] => []
  | e :: r => if e.name ∈ seen then keepNew seen r else e :: keepNew (seen ++ [e.name]) r

theorem mergeOne_eq (acc ps : List Entry) :
    mergeOne acc ps = acc ++ keepNew (acc.map Entry.name) ps := by
  induction ps generalizing acc with
  | nil => simp [mergeOne, keepNew]
  | cons p r ih =>
    simp only [mergeOne, keepNew]
    by_cases h : acc.any (fun pp => pp.name = p.name) = true
    · have hm : p.name ∈ acc.map Entry.name := by
        obtain ⟨q, hq, hqn⟩ := List.any_eq_true.mp h
        exact List.mem_map.mpr ⟨q, hq, by simpa using hqn⟩
      simp only [h, ↓reduceIte, hm, ih]
    · have hm : ¬ p.name ∈ acc.map Entry.name := by
        intro hm
        obtain ⟨q, hq, hqn⟩ := List.mem_map.mp hm
        exact h (List.any_eq_true.mpr ⟨q, hq, by simp [hqn]⟩)
      simp only [h, hm, ↓reduceIte, ih, List.map_append, List.map_cons, List.map_nil, List.append_assoc,
        List.cons_append, List.nil_append, Bool.false_eq_true]

theorem keepNew_append (seen : List Bytes) (a b : List Entry) :
    keepNew seen (a ++ b) = keepNew seen a ++ keepNew (seen ++ (keepNew seen a).map Entry.name) b := by
  induction a generalizing seen with
  | nil => simp [keepNew]
  | cons e r ih =>
    simp only [List.cons_append, keepNew]
    by_cases h : e.name ∈ seen
    · simp only [h, ↓reduceIte, ih]
    · simp only [h, ↓reduceIte, ih, List.cons_append, List.map_cons, List.append_assoc, List.nil_append]

theorem foldl_mergeOne_eq (parts : List (List Entry)) (acc : List Entry) :
    parts.foldl mergeOne acc = acc ++ keepNew (acc.map Entry.name) parts.flatten := by
  induction parts generalizing acc with
  | nil => simp [keepNew]
  | cons p r ih =>
    simp only [List.foldl_cons, ih, mergeOne_eq, List.flatten_cons, keepNew_append, List.map_append,
      List.append_assoc]

/-- **mergePorts_eq_keepNew**: the table `MergePorts` builds is exactly: all ports of all merged tables, in
    order, without those whose name was met before -/
theorem mergePorts_eq_keepNew (parts : List (List Entry)) : mergePorts parts = keepNew [] parts.flatten := by
  simp [mergePorts, foldl_mergeOne_eq]

theorem keepNew_find (seen : List Bytes) (l : List Entry) (n : Bytes) :
    (keepNew seen l).find? (fun e => e.name = n) =
      if n ∈ seen then none else l.find? (fun e => e.name = n) := by
  induction l generalizing seen with
  | nil => simp [keepNew]
  | cons e r ih =>
    simp only [keepNew]
    by_cases h : e.name ∈ seen
    · simp only [h, ↓reduceIte, ih]
      by_cases hn : n ∈ seen
      · simp [hn]
      · have : e.name ≠ n := fun he => hn (he ▸ h)
        simp [hn, this]
    · simp only [h, ↓reduceIte, List.find?_cons]
      by_cases hen : e.name = n
      · have : ¬ n ∈ seen := hen ▸ h
        simp [hen, this]
      · have hmem : (n ∈ seen ++ [e.name]) ↔ n ∈ seen := by
          simp [List.mem_append, Ne.symm hen]
        simp only [hen, decide_false, ih, hmem]

theorem keepNew_sublist (seen : List Bytes) (l : List Entry) : (keepNew seen l).Sublist l := by
  induction l generalizing seen with
  | nil => simp [keepNew]
  | cons e r ih =>
    simp only [keepNew]
    split
    · exact (ih _).cons _
    · exact (ih _).cons_cons _

/-- the last port of the source with the given name: `findClone`'s loop has no `break` -/
theorem findClone_eq (src : List Entry) (n : Bytes) :
    findClone src n = src.reverse.find? (fun p => p.name = n) := by
  unfold findClone
  suffices ∀ acc : Option Entry, src.foldl (fun acc p => if p.name = n then some p else acc) acc =
      (src.reverse.find? (fun p => p.name = n)).or acc from by simpa using this none
  induction src with
  | nil => intro acc; simp
  | cons a r ih =>
    intro acc
    simp only [List.foldl_cons, ih, List.reverse_cons, List.find?_append]
    by_cases h : a.name = n
    · simp [h]
    · simp [h]

theorem clonePorts_get (src : List Entry) : ∀ (list : List Bytes) (res : List Entry),
    clonePorts src list = some res → ∀ i : Nat,
      res[i]? = (list[i]?).bind (fun n => src.reverse.find? (fun p => p.name = n)) := by
  intro list
  induction list with
  | nil => intro res h i; simp [clonePorts] at h; subst h; simp
  | cons n ns ih =>
    intro res h i
    simp only [clonePorts] at h
    split at h
    · next p r hp hr =>
      cases h
      cases i with
      | zero => simp [← findClone_eq, hp]
      | succ j => simpa using ih r hr j
    · cases h

end Rtosc.Ports
