/-
  C02 helper lemmas: a constructor that obeys the fixed-buffer discipline on buffers of every
  length, called by an owner of a block `b` who claims `len ≤ b.length` bytes (`callAt`).
-/
import RtoscModel.Proofs.BundleWrite
namespace Rtosc.Osc
open Rtosc

/-- the fixed-buffer discipline of a message constructor whose result is `enc` -/
def Disciplined (call : Option Bytes → Option AResult) (enc : Bytes) : Prop :=
  call none = some ⟨none, enc.length, false⟩ ∧
  ∀ buf : Bytes, call (some buf) =
    some (if enc.length ≤ buf.length then ⟨some (enc ++ buf.drop enc.length), enc.length, false⟩
          else ⟨some (zeros buf.length), 0, false⟩)

theorem drop_take_append_drop (b : Bytes) (k len : Nat) (hk : k ≤ len) :
    (b.take len).drop k ++ b.drop len = b.drop k := by
  rw [List.drop_take]
  have : b.drop len = (b.drop k).drop (len - k) := by rw [List.drop_drop]; congr 1; omega
  rw [this, List.take_append_drop]

/-- the caller's claim is honest (`len ≤ b.length`): nothing outside the block is stored, the
    bytes behind `len` keep their values, and inside `len` the constructor's discipline holds -/
theorem callAt_fixed (call : Option Bytes → Option AResult) (enc b : Bytes) (len : Nat)
    (hc : Disciplined call enc) (hlen : len ≤ b.length) :
    callAt call (some b) len =
      some (if enc.length ≤ len then ⟨some (enc ++ b.drop enc.length), enc.length, false⟩
            else ⟨some (zeros len ++ b.drop len), 0, false⟩) := by
  have h0 : len - b.length = 0 := by omega
  have hl : (b.take len ++ zeros (len - b.length)).length = len := by
    simp [zeros]; omega
  unfold callAt
  simp only [hc.1, hc.2, hl]
  by_cases hfit : enc.length ≤ len
  · simp only [if_pos hfit, Option.map_some]
    have hnot : ¬ enc.length > len := by omega
    simp only [if_neg hnot]
    have hd : decide (b.length < enc.length) = false := by simp; omega
    rw [hd]
    simp only [h0, zeros, List.replicate_zero, List.append_nil, Bool.or_false]
    have hx : (enc ++ (b.take len).drop enc.length).length ≤ b.length := by
      simp [List.length_take]; omega
    rw [List.take_of_length_le hx, List.append_assoc, drop_take_append_drop b _ _ hfit]
  · simp only [if_neg hfit, Option.map_some]
    have hgt : enc.length > len := by omega
    simp only [if_pos hgt]
    have hd : decide (b.length < len) = false := by simp; omega
    rw [hd]
    have hx : (zeros len).length ≤ b.length := by simp [zeros]; omega
    rw [List.take_of_length_le hx]
    simp

theorem callAt_null (call : Option Bytes → Option AResult) (len : Nat) :
    callAt call none len = call none := rfl

end Rtosc.Osc
