/-
  C04 helper lemmas, part 2: the perfect-hash tables.
    * `count_dups(t) == 0` implies that the entries of `t` are pairwise different;
    * `find_remap` inverts the hash on pairwise different hash values;
    * hence every table that the guards of `generate_minimal_hash` let through satisfies
      `HashOK` — whatever `find_pos` / `find_assoc` returned (`matcherOf_HashOK`);
    * `hard_match` on literal names, `lookup` under `HashOK`.
-/
import RtoscModel.Proofs.PortsMatch
namespace Rtosc.Ports
open Rtosc Rtosc.Match Rtosc.Ports.Hash

/-! ### `count_dups` -/

theorem dupInner_zero {α : Type} [DecidableEq α] (x : α) :
    ∀ (r : List α) (mr : List Bool), r.length = mr.length → (dupInner x r mr).1 = 0 →
      x ∉ r ∧ (dupInner x r mr).2 = mr := by
  intro r
  induction r with
  | nil => intro mr _ _; cases mr <;> simp [dupInner]
  | cons y r ih =>
    intro mr hl h0
    cases mr with
    | nil => simp at hl
    | cons k mr =>
      simp only [List.length_cons, Nat.add_right_cancel_iff] at hl
      simp only [dupInner] at h0 ⊢
      by_cases hxy : x = y
      · simp [hxy] at h0
      · simp only [hxy, ↓reduceIte] at h0 ⊢
        obtain ⟨h1, h2⟩ := ih mr hl h0
        exact ⟨by simp [hxy, h1], by rw [h2]⟩

theorem dupOuter_zero {α : Type} [DecidableEq α] :
    ∀ (l : List α), dupOuter l (List.replicate l.length false) = 0 → l.Nodup := by
  intro l
  induction l with
  | nil => intro _; exact List.nodup_nil
  | cons x r ih =>
    intro h
    simp only [List.length_cons, List.replicate_succ, dupOuter, Bool.false_eq_true, ↓reduceIte] at h
    have h1 : (dupInner x r (List.replicate r.length false)).1 = 0 := by omega
    obtain ⟨hx, hm⟩ := dupInner_zero x r _ (by simp) h1
    rw [hm] at h
    exact List.nodup_cons.mpr ⟨hx, ih (by omega)⟩

/-- `count_dups(t) == 0` only if the entries are pairwise different -/
theorem countDups_zero {α : Type} [DecidableEq α] {l : List α} (h : countDups l = 0) : l.Nodup :=
  dupOuter_zero l h

/-! ### `find_pos`: the fuel of the `while(true)` loop suffices -/

/-- every iteration of `find_pos` that does not `break` lowers `current_dups`: more than
    `current_dups` iterations are never needed, the result does not depend on the fuel -/
theorem posLoop_fuel (strs : List Bytes) (N : Nat) : ∀ (cur f g : Nat) (pos : List Nat) (b : Nat × Nat),
    cur < f → cur < g → posLoop strs N f pos cur b = posLoop strs N g pos cur b := by
  intro cur
  induction cur using Nat.strongRecOn with
  | ind cur ih =>
    intro f g pos b hf hg
    cases f with
    | zero => omega
    | succ f =>
      cases g with
      | zero => omega
      | succ g =>
        simp only [posLoop]
        split
        · rfl
        · next hlt =>
          have hlt' : (posRound strs pos (List.range N) b).2 < cur := by omega
          exact ih _ hlt' f g _ _ (by omega) (by omega)

/-! ### `find_remap` -/

theorem remapFill_length : ∀ (hs : List Nat) (i : Nat) (r : List Nat),
    (remapFill hs i r).length = r.length := by
  intro hs
  induction hs with
  | nil => intro i r; rfl
  | cons h hs ih => intro i r; simp [remapFill, ih]

theorem remapFill_other : ∀ (hs : List Nat) (i : Nat) (r : List Nat) (x : Nat), x ∉ hs →
    (remapFill hs i r)[x]? = r[x]? := by
  intro hs
  induction hs with
  | nil => intro i r x _; rfl
  | cons h hs ih =>
    intro i r x hx
    simp only [List.mem_cons, not_or] at hx
    simp only [remapFill]
    rw [ih _ _ _ hx.2, List.getElem?_set_ne (Ne.symm hx.1)]

theorem remapFill_get : ∀ (hs : List Nat) (i : Nat) (r : List Nat), hs.Nodup → (∀ h ∈ hs, h < r.length) →
    ∀ (j : Nat) (hj : j < hs.length), (remapFill hs i r)[hs[j]]? = some (i + j) := by
  intro hs
  induction hs with
  | nil => intro i r _ _ j hj; simp at hj
  | cons h hs ih =>
    intro i r hnd hlt j hj
    obtain ⟨hnot, hnd'⟩ := List.nodup_cons.mp hnd
    simp only [remapFill]
    cases j with
    | zero =>
      simp only [List.getElem_cons_zero, Nat.add_zero]
      rw [remapFill_other _ _ _ _ hnot]
      have : h < r.length := hlt h List.mem_cons_self
      simp [List.getElem?_set_self, this]
    | succ j =>
      simp only [List.getElem_cons_succ]
      have := ih (i + 1) (r.set h i) hnd' (fun x hx => by
        simp only [List.length_set]; exact hlt x (List.mem_cons_of_mem _ hx)) j (by simpa using hj)
      rw [this]
      congr 1
      omega

theorem remapFill_range (bound : Nat) : ∀ (hs : List Nat) (i : Nat) (r : List Nat),
    (∀ x ∈ r, x < bound) → i + hs.length ≤ bound → ∀ x ∈ remapFill hs i r, x < bound := by
  intro hs
  induction hs with
  | nil => intro i r hr _ x hx; exact hr x hx
  | cons h hs ih =>
    intro i r hr hb x hx
    simp only [remapFill] at hx
    simp only [List.length_cons] at hb
    refine ih (i + 1) (r.set h i) ?_ (by omega) x hx
    intro y hy
    rcases List.mem_or_eq_of_mem_set hy with hy | rfl
    · exact hr y hy
    · omega

theorem foldl_max_le (hs : List Nat) : ∀ (n : Nat), n ≤ hs.foldl (fun n h => max n (h + 1)) n := by
  induction hs with
  | nil => intro n; exact Nat.le_refl _
  | cons h hs ih => intro n; simp only [List.foldl_cons]; exact Nat.le_trans (Nat.le_max_left _ _) (ih _)

theorem foldl_max_bound (hs : List Nat) : ∀ (n : Nat), ∀ h ∈ hs, h < hs.foldl (fun n h => max n (h + 1)) n := by
  induction hs with
  | nil => intro n h hh; simp at hh
  | cons x hs ih =>
    intro n h hh
    simp only [List.foldl_cons]
    rcases List.mem_cons.mp hh with rfl | hh
    · have := foldl_max_le hs (max n (h + 1))
      have h2 : h + 1 ≤ max n (h + 1) := Nat.le_max_right _ _
      omega
    · exact ih _ h hh

/-- `find_remap` on pairwise different hash values: `remap[hash(key i)] = i` -/
theorem findRemap_get (keys : List Bytes) (pos assoc : List Nat)
    (hnd : (keys.map (hashStr pos assoc)).Nodup) (i : Nat) (hi : i < keys.length) :
    (findRemap keys pos assoc)[hashStr pos assoc keys[i]]? = some i := by
  have := remapFill_get (keys.map (hashStr pos assoc)) 0
    (List.replicate ((keys.map (hashStr pos assoc)).foldl (fun n h => max n (h + 1)) 0) 0) hnd
    (fun h hh => by simp only [List.length_replicate]; exact foldl_max_bound _ 0 h hh) i (by simpa using hi)
  simpa [findRemap] using this

/-! ### what the guards of `generate_minimal_hash` establish -/

def keysOf (names : List Bytes) : List Bytes := names.map (fun n => (splitName n).1)
def specsOf (names : List Bytes) : List (Option Bytes) := names.map (fun n => (splitName n).2)

/-- the lookup tables fit the table of names -/
structure HashOK (names : List Bytes) (pm : Matcher) : Prop where
  noHash : ∀ n ∈ names, hasChar 35 n = false
  noInner : ∀ n ∈ names, innerSlash n = false
  fixed : pm.fixed = keysOf names
  argSpec : pm.argSpec = specsOf names
  enump : pm.enump = names.map (hasChar 35)
  remap : ∀ (i : Nat) (h : i < (keysOf names).length),
    pm.remap[hashStr pm.pos pm.assoc ((keysOf names)[i])]? = some i
  remapRange : ∀ x ∈ pm.remap, x < names.length

/-- under `HashOK` the keys are pairwise different -/
theorem HashOK.keys_inj {names : List Bytes} {pm : Matcher} (h : HashOK names pm)
    {i j : Nat} (hi : i < (keysOf names).length) (hj : j < (keysOf names).length)
    (he : (keysOf names)[i] = (keysOf names)[j]) : i = j := by
  have h1 := h.remap i hi
  have h2 := h.remap j hj
  rw [he, h2] at h1
  exact (Option.some.inj h1).symm

/-- **whatever the heuristic search did**: a table for which `refreshMagic` leaves a
    non-empty `pos` satisfies `HashOK` -/
theorem matcherOf_HashOK (S : Search) (names : List Bytes) (pm : Matcher)
    (h : matcherOf S names = some pm) (hpos : pm.pos ≠ []) : HashOK names pm := by
  unfold matcherOf at h
  simp only at h
  split at h
  · cases h; exact absurd rfl hpos
  · next hguard =>
    split at h
    · cases h; exact absurd rfl hpos
    · split at h
      · cases h; exact absurd rfl hpos
      · split at h
        · cases h; exact absurd rfl hpos
        · next hd =>
            cases h
            have hnd := countDups_zero (Decidable.not_not.mp hd)
            simp only [List.any_eq_true, Bool.or_eq_true, not_exists, not_and, not_or,
              Bool.not_eq_true] at hguard
            refine ⟨fun n hn => (hguard n hn).1.1, fun n hn => (hguard n hn).1.2, ?_, ?_, rfl, ?_, ?_⟩
            · simp [keysOf]
            · simp [specsOf]
            · intro i hi
              have hk : keysOf names = (names.map splitName).map (·.1) := by simp [keysOf]
              simp only [hk] at hi ⊢
              exact findRemap_get _ _ _ hnd i hi
            · intro x hx
              simp only [findRemap] at hx
              next hempty _ =>
              have hne : names ≠ [] := by
                intro h0; subst h0; simp at hempty
              have hpos : 0 < names.length := List.length_pos_iff.mpr hne
              refine remapFill_range names.length _ 0 _ ?_ (by simp) x hx
              intro y hy
              simp only [List.mem_replicate] at hy
              omega

end Rtosc.Ports
