/-
  C10 — tier 3, compressed runs in context (6): whole messages (address plus a segmented
  argument list).
-/
import RtoscModel.Proofs.PrettyRunsExtPrint
set_option linter.unusedSimpArgs false
set_option linter.unusedVariables false
namespace Rtosc.Pretty
open Rtosc Rtosc.Libc
open Rtosc.ArgVal (Cell)

theorem SegsText.nargs_le {L : Option Cell} {segs : List RSeg} {text : Bytes} (h : SegsText L segs text) :
    nargsAll L segs ≤ text.length := by
  induction h with
  | nil => simp [nargsAll]
  | cons L s segs T sep text hT _ _ _ ih =>
    have : s.nargs L ≤ T.length := by
      cases hT with
      | tok t c ht _ => have := List.length_pos_iff.mpr ht.start.1; simp [RSeg.nargs]; omega
      | crun m t c ht _ hm _ => have := List.length_pos_iff.mpr (tokStart_run m hm t).1; simp [RSeg.nargs]; omega
      | short a d m sp h hsf _ => simp [RSeg.nargs, hsf, ellRest_length]; omega
      | long a d m sp h hsf _ => simp [RSeg.nargs, hsf, ellRest_length]; omega
    simp only [nargsAll, List.length_append]
    omega

/-- **Tier 3, compressed runs in context, whole messages.** -/
theorem runs_message_roundtrip_cells (opt : POpt) (hc : opt.compress = true) (addr : Bytes) (adrsize : Nat)
    (ha : AddrOK addr) (hal : addr.length < adrsize) (segs : List RSeg) (hseg : Segmented opt segs) :
    ∃ (st : PSt) (ret : Nat),
      printMessage opt addr (cellsAll segs) 0 = .ok (st, ret) ∧ ret = st.out.length ∧
      countPrintedArgValsOfMsg st.out = .ok ((scannedAll none segs).length : Int) ∧
      scanMessage st.out adrsize (scannedAll none segs).length = .ok (st.out.length, addr, scannedAll none segs) := by
  obtain ⟨ha47, hasp⟩ := ha
  have hle := hseg.length_le
  have hane : addr ≠ [] := by intro h; rw [h] at ha47; simp at ha47
  obtain ⟨st', pre, body, hrun, hout, htt, hpre⟩ :=
    printLoop_segs opt hc hseg (cellsAll segs) [] (by simp) ((cellsAll segs).length + 1)
      ⟨addr ++ [32], 0 + ((addr ++ [32]).length : Nat)⟩ 0
      (((addr ++ [32]).length : Int) - 1) (if (0 + ((addr ++ [32]).length : Nat) : Int) ≠ 0 then 1 else 0) (by omega)
      (Or.inr ⟨addr, rfl, by simp⟩)
  simp only [List.length_nil, List.getLast?_nil] at hrun htt
  -- the separator behind the address
  obtain ⟨sep, hsep, hpre'⟩ : ∃ sep, IsSepTxt sep ∧ pre = addr ++ sep := by
    rcases hpre with h | ⟨base, h1, h2⟩
    · exact ⟨[32], Or.inl rfl, h⟩
    · have : base = addr := (List.append_inj_left' h1 rfl).symm
      exact ⟨nl4, Or.inr rfl, by rw [h2, this]⟩
  have hsepsp : isspace (hd sep) = true := by rcases hsep with rfl | rfl <;> rfl
  have hsepne : sep ≠ [] := by rcases hsep with rfl | rfl <;> simp
  have htext : st'.out = addr ++ (sep ++ body) := by rw [hout, hpre', List.append_assoc]
  have hrest : sep ++ body = [] ∨ isspace (hd (sep ++ body)) = true := by
    right; rw [hd_append_of_ne_nil _ _ hsepne]; exact hsepsp
  have hskip : skipSpace (sep ++ body) = body := by
    by_cases hne : segs = []
    · subst hne; cases htt
      rcases hsep with rfl | rfl <;> rfl
    · exact skipSpace_sep sep body hsep (htt.start hne)
  have hlen : st'.out.length = addr.length + sep.length + body.length := by
    rw [htext]; simp only [List.length_append]; omega
  have haddr_sp : skipSpace (addr ++ (sep ++ body)) = addr ++ (sep ++ body) := by
    cases addr with
    | nil => exact absurd rfl hane
    | cons c r => simp [skipSpace, hasp c (by simp)]
  have hhd : hd (addr ++ (sep ++ body)) = 47 := by rw [hd_append_of_ne_nil _ _ hane]; exact ha47
  refine ⟨st', (addr ++ [32]).length + (0 + ((pre ++ body).length - (addr ++ [32]).length)), ?_, ?_, ?_, ?_⟩
  · unfold printMessage printArgVals
    simp only [bind, Except.bind, hrun, pure, Except.pure]
  · rw [hout]
    have : (addr ++ [32]).length ≤ (pre ++ body).length := by
      rw [hpre']; simp only [List.length_append, List.length_singleton]
      have := List.length_pos_iff.mpr hsepne
      omega
    omega
  · rw [htext]
    unfold countPrintedArgValsOfMsg
    simp only [haddr_sp, bind, Except.bind, skipCommentLines_none _ _ (by rw [hhd]; decide), hhd, ↓reduceIte,
      dropWhile_notspace addr (sep ++ body) hasp hrest]
    unfold countPrintedArgVals
    rw [hskip]
    by_cases hne : segs = []
    · subst hne; cases htt
      simp [skipCommentLines, countLoop, bind, Except.bind, scannedAll]
    · have hstart := htt.start hne
      have h37 : hd body ≠ 37 := hstart.2.2.2.2.2.1
      simp only [skipCommentLines_none _ body h37, bind, Except.bind]
      rw [countLoop_segs htt _ none 0 rfl (by have := htt.nargs_le; omega)]
      simp
  · rw [htext]
    unfold scanMessage
    simp only [haddr_sp, Nat.sub_self, hhd, show (47 : UInt8) ≠ 37 from by decide, ↓reduceIte, pure, Except.pure,
      bind, Except.bind, List.drop_zero, Nat.add_zero, Nat.sub_zero,
      takeWhile_notspace addr (sep ++ body) hasp hrest]
    have htake : addr.take adrsize = addr := List.take_of_length_le (by omega)
    simp only [htake, List.drop_left, hskip]
    have := scanArgVals_segs htt
    simp only [this, Nat.zero_add]
    congr 2
    simp only [List.length_append]
    omega

end Rtosc.Pretty
