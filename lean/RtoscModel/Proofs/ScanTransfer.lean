/-
  C11 — from the two `switch`es to the C11 model of `rtosc_scan_arg_val` /
  `rtosc_skip_next_printed_arg`.

  `ValOK t c`: the `switch(*src)` of the scanner and the one of the checker read the text `t` as
  the scalar cell `c`, whatever separator follows and whatever the recursion handlers are.
  Every token lemma of C10 (`Proofs/PrettyTok*.lean`) is proved through exactly these two
  facts, so they are available for every token class of C10; new spellings are added in
  `Proofs/ScanTokens.lean`.

  `Arg11 t cs`: the C11 model (`Pretty/C11Model.lean`, the repaired functions) reads `t` as the
  cells `cs` of one argument.  `ValOK → Arg11` (and `ValOK → TokOK` for C10's functions: both
  models agree on every such token).
-/
import RtoscModel.Pretty.C11Model
import RtoscModel.Proofs.PrettyArg
namespace Rtosc.Pretty.C11
open Rtosc Rtosc.Libc Rtosc.Pretty
open Rtosc.ArgVal (Cell)

/-- both `switch`es read the text `t` as the scalar cell `c` -/
structure ValOK (t : Bytes) (c : Cell) : Prop where
  start : TokStart t
  scalar : c.isScalar = true
  noBracket : hd t ≠ 91
  scan : ∀ (se : ElemScanner) (rest : Bytes) (prev : List Cell), Sep rest →
    Pretty.scanValue se (t ++ rest) prev = .ok ⟨rest, [c], true⟩
  skip : ∀ (sk : ArgSkipper) (rest : Bytes) (ty : UInt8) (ib : Bool), Sep rest →
    ∃ dl, Pretty.skipValue sk (t ++ rest) ty ib = .ok (some ⟨some rest, 1, c.type, dl⟩)

/-- the element type the array scanner records for an element with the cells `cells`
    (`arrtype = arg->type; if(arrtype == '-') arrtype = has_delta ? arg[2].type : arg[1].type`) -/
def elemTy (cells : List Cell) : Res UInt8 := do
  let c0 ← deref cells
  match c0 with
  | .rep _ hdl => (do let c ← deref (cells.drop (if hdl ≠ 0 then 2 else 1)); pure c.type)
  | c => pure c.type

/-- the C11 model reads the text `t` as the cells `cs` of one argument.  The recursion bound only
    has to cover the nesting depth, which never exceeds the length of the text. -/
structure Arg11 (t : Bytes) (cs : List Cell) : Prop where
  start : TokStart t
  ne : cs ≠ []
  /-- `next_arg_offset` at the first cell: all cells -/
  off : nextArgOffset (cs.length + 1) cs = .ok cs.length
  /-- `can_precede_range` is defined on the cells -/
  cpr : ∃ b, canPrecedeRange cs = .ok b
  /-- so is the element type an enclosing array records -/
  ety : ∃ ty, elemTy cs = .ok ty
  scan : ∀ (rest : Bytes) (fuel : Nat) (prev : List Cell) (ab : Nat) (fe : Bool), Sep rest → t.length ≤ fuel →
    C11.scanArgVal (fuel + 1) (t ++ rest) prev ab fe = .ok (t.length, cs)
  skip : ∀ (rest : Bytes) (fuel : Nat) (ty : UInt8) (llhs : Option Bytes) (fe ib : Bool), Sep rest → t.length ≤ fuel →
    ∃ r, C11.skipNextPrintedArg (fuel + 1) (t ++ rest) ty llhs fe ib = .ok r ∧
      r.src = some rest ∧ r.skipped = cs.length ∧ r.type = (cs.headD (Cell.flag .N)).type

theorem Arg11.length_pos {t : Bytes} {cs : List Cell} (h : Arg11 t cs) : 0 < cs.length :=
  List.length_pos_iff.mpr h.ne

/-- a value that is not followed by an ellipsis is what the repaired `rtosc_scan_arg_val` returns -/
theorem finishArg_plain (se : ElemScanner) (t rest : Bytes) (cells : List Cell) (av : Bool)
    (prev : List Cell) (ab : Nat) (fe : Bool) (hs : Sep rest) :
    C11.finishArg se (t ++ rest) ⟨rest, cells, av⟩ prev ab fe = .ok (t.length, cells) := by
  have h3 := (sep_skipSpace_facts rest hs).2
  unfold C11.finishArg
  simp [h3, pure, Except.pure]

theorem scanValue_noBracket (se : ElemScanner) (s : Bytes) (prev : List Cell) (h : hd s ≠ 91) :
    C11.scanValue se s prev = Pretty.scanValue se s prev := by
  unfold C11.scanValue
  simp [h]

theorem canPrecedeRange_scalar (c : Cell) (more : List Cell) (h : c.isScalar = true) :
    canPrecedeRange (c :: more) = .ok true := by
  unfold canPrecedeRange
  cases c <;> simp_all [deref, ArgVal.Cell.isScalar, bind, Except.bind, pure, Except.pure]

theorem ValOK.arg11 {t : Bytes} {c : Cell} (h : ValOK t c) : Arg11 t [c] := by
  refine ⟨h.start, by simp, ?_, ⟨true, canPrecedeRange_scalar c [] h.scalar⟩, ⟨c.type, ?_⟩, ?_, ?_⟩
  · simpa using nextArgOffset_scalar 1 c [] h.scalar
  · have := h.scalar
    cases c <;> simp_all [elemTy, deref, ArgVal.Cell.isScalar, bind, Except.bind, pure, Except.pure]
  · intro rest fuel prev ab fe hs _
    have hb : hd (t ++ rest) ≠ 91 := by rw [hd_append_of_ne_nil _ _ h.start.1]; exact h.noBracket
    unfold C11.scanArgVal
    simp only [scanValue_noBracket _ _ _ hb, h.scan _ rest prev hs, bind, Except.bind]
    exact finishArg_plain _ t rest [c] true prev ab fe hs
  · intro rest fuel ty llhs fe ib hs _
    obtain ⟨dl, hv⟩ := h.skip (C11.skipNextPrintedArg fuel) rest ty ib hs
    have h3 := (sep_skipSpace_facts rest hs).2
    refine ⟨⟨some rest, 1, c.type⟩, ?_, rfl, rfl, rfl⟩
    unfold C11.skipNextPrintedArg
    simp [hv, bind, Except.bind, h3, pure, Except.pure]

/-- C10's model reads the same tokens the same way -/
theorem ValOK.tokOK {t : Bytes} {c : Cell} (h : ValOK t c) : TokOK t c := by
  refine ⟨h.start, ?_, ?_⟩
  · intro rest fuel prev ab hs
    exact scanArgVal_of_value t rest c fuel prev ab hs (h.scan _ rest prev hs)
  · intro rest fuel ty llhs ib hs
    obtain ⟨dl, hv⟩ := h.skip (Pretty.skipNextPrintedArg fuel) rest ty ib hs
    exact skipNext_of_value t rest c.type dl fuel ty llhs ib hs hv

end Rtosc.Pretty.C11
