/-
  C10 — tier 3, compressed runs AND arrays (0): shared definitions.

  A top-level argument list is cut into `ASeg`s: a segment `RSeg` of PrettyRunsExtScan (a value, a
  constant run `nxT`, an int32 arithmetic run), or an ARRAY whose body is again cut into `RSeg`s
  (values and compressed runs inside the array).  Three parties look at "the value to the left":

  * the printer (`prev_arg_if_range`): the last cell in memory — behind an array that is the
    array's last element (`ASeg.plast`);
  * the scanner: `args_before = 0` behind an array (`prev_ok`, fix C11-04): no left neighbour;
  * the checker: `llhssrc` is the array's text, whose type 'a' matches nothing.

  `ASegText pL` / `ASegsText pL` are indexed by the PRINTER's left neighbour `pL` (it decides
  between `a ... z` and `a b ... z`); the readers' context is derived from it (`RdCtx`).
-/
import RtoscModel.Proofs.PrettyRunsExtItems
import RtoscModel.Proofs.PrettyRunsExtConv
import RtoscModel.Proofs.PrettyRunsExtMsg
import RtoscModel.Proofs.PrettyTokArray
set_option linter.unusedSimpArgs false
set_option linter.unusedVariables false
namespace Rtosc.Pretty
open Rtosc Rtosc.Libc
open Rtosc.ArgVal (Cell)

/-- the element-type tag the scanner writes into an array header: the type of the last original
    value of the body (`d` for an empty body) -/
def lastTyS : List RSeg → UInt8 → UInt8
  | [], d => d
  | s :: r, _ => lastTyS r s.last.type

/-- a piece of a top-level argument list: a segment, an array whose body is cut into segments, or
    a run of `n` equal such arrays -/
inductive ASeg
  | seg (s : RSeg)
  | arr (body : List RSeg)
  | arun (n : Nat) (body : List RSeg)     -- `n` copies of the array: `nx[…]`

/-- the header cell of the array in the ORIGINAL argument list -/
def arrHdr (body : List RSeg) : Cell := Cell.arr (lastTyS body 32) (cellsAll body).length

/-- the header cell of the array as the scanner writes it -/
def arrHdrS (body : List RSeg) : Cell := Cell.arr (lastTyS body 32) (scannedAll none body).length

/-- the cells of the piece in the original argument list -/
def ASeg.cells : ASeg → List Cell
  | .seg s => s.cells
  | .arr body => arrHdr body :: cellsAll body
  | .arun n body => (List.replicate n (arrHdr body :: cellsAll body)).flatten

/-- the last original cell of the piece: what the PRINTER takes for the left neighbour of the
    next value (for an array: its last element; the header if it is empty) -/
def ASeg.plast : ASeg → Cell
  | .seg s => s.last
  | .arr body => (cellsAll body).getLast?.getD (arrHdr body)
  | .arun _ body => (cellsAll body).getLast?.getD (arrHdr body)

/-- what the READERS (scanner, checker) know about the value left of the next one: the last
    value of a segment; behind an array only that it was an array -/
def ASeg.rlast : ASeg → Cell
  | .seg s => s.last
  | .arr body => arrHdrS body
  | .arun _ body => arrHdrS body

/-- the cells the scanner returns for the piece (`pL`: the printer's left neighbour) -/
def ASeg.scanned (pL : Option Cell) : ASeg → List Cell
  | .seg s => s.scanned pL
  | .arr body => arrHdrS body :: scannedAll none body
  | .arun n body => Cell.rep n 0 :: arrHdrS body :: scannedAll none body

/-- the number of arguments the scanner's and the checker's top-level loops see in the piece -/
def ASeg.nargs (pL : Option Cell) : ASeg → Nat
  | .seg s => s.nargs pL
  | .arr _ => 1
  | .arun _ _ => 1

def cellsAllA : List ASeg → List Cell
  | [] => []
  | x :: r => x.cells ++ cellsAllA r

def scannedAllA : Option Cell → List ASeg → List Cell
  | _, [] => []
  | L, x :: r => x.scanned L ++ scannedAllA (some x.plast) r

def nargsAllA : Option Cell → List ASeg → Nat
  | _, [] => 0
  | L, x :: r => x.nargs L + nargsAllA (some x.plast) r

/-- the checker's `arraytypes_match` condition on the original values of an array body: every
    value has the type of the first one ('T' and 'F' count as one type) -/
def ArrTypesOK (body : List RSeg) : Prop :=
  ∀ e ∈ cellsAll body, typesMatch ((cellsAll body).headD (Cell.flag .N)).type e.type = true

/-- the text of one piece behind the printer's left neighbour `pL`: a segment text, or
    `[` body `]` where the body is a text of segments (first element: no left neighbour) -/
inductive ASegText (pL : Option Cell) : ASeg → Bytes → Prop
  | seg (s : RSeg) (T : Bytes) : SegText pL s T → ASegText pL (.seg s) T
  | arr (body : List RSeg) (B : Bytes) : SegsText none body B → ArrTypesOK body →
      ASegText pL (.arr body) (91 :: (B ++ [93]))
  | arun (n : Nat) (body : List RSeg) (B : Bytes) : SegsText none body B → ArrTypesOK body → 1 ≤ n → n ≤ 2147483647 →
      ASegText pL (.arun n body) (runText n (91 :: (B ++ [93])))

/-- the text of a list of pieces: piece texts separated by a blank or a line break -/
inductive ASegsText : Option Cell → List ASeg → Bytes → Prop
  | nil (L : Option Cell) : ASegsText L [] []
  | cons (L : Option Cell) (x : ASeg) (xs : List ASeg) (T sep text : Bytes) :
      ASegText L x T → ASegsText (some x.plast) xs text → (xs = [] → sep = []) → (xs ≠ [] → IsSepTxt sep) →
      ASegsText L (x :: xs) (T ++ (sep ++ text))

/-- the readers' knowledge `rL` about the left neighbour agrees with the printer's `pL`, or is
    "an array" (then every range start is useless for the delta) -/
def RdCtx (pL rL : Option Cell) : Prop := rL = pL ∨ ∃ ety len, rL = some (Cell.arr ety len)

theorem rdCtx_refl (L : Option Cell) : RdCtx L L := Or.inl rfl

theorem rdCtx_next (x : ASeg) : RdCtx (some x.plast) (some x.rlast) := by
  cases x with
  | seg s => exact Or.inl rfl
  | arr body => exact Or.inr ⟨_, _, rfl⟩
  | arun n body => exact Or.inr ⟨_, _, rfl⟩

/-- what follows an argument text inside a longer text: `X = sep ++ next` is a separator in the
    sense of `Sep`, and skipping white space leads to `next` -/
def TailR (sep next : Bytes) : Prop := Sep (sep ++ next) ∧ skipSpace (sep ++ next) = next

theorem tailR_close (rest : Bytes) : TailR [] (93 :: rest) :=
  ⟨sep_close rest, skipSpace_close rest⟩

theorem tailR_sep (sep next : Bytes) (hs : IsSepTxt sep) (hn : TokStart next) : TailR sep next :=
  ⟨sep_of_next sep next hs hn, skipSpace_sep sep next hs hn⟩

/-- **the side conditions of the printer** for a list of pieces (cf. `Segmented`): called at the
    start of each piece on the rest of the argument list, `rtosc_convert_to_range` returns nothing
    for a value and for an array header, the whole constant run, resp. the whole arithmetic run;
    the body of an array is `Segmented` on its own (the array loop of the printer calls
    `rtosc_convert_to_range` with the number of cells left IN the array), its values have one
    type (`ArrTypesOK`), its cell count fits an `int32_t`. -/
inductive ASegmented (opt : POpt) : List ASeg → Prop
  | nil : ASegmented opt []
  | tok (c : Cell) (xs : List ASeg) : c.isScalar = true → PrintsTok opt c →
      convertToRange opt (c :: cellsAllA xs) ((cellsAllA xs).length + 1) = .ok none →
      ASegmented opt xs → ASegmented opt (.seg (.tok c) :: xs)
  | crun (n : Nat) (c : Cell) (xs : List ASeg) : c.isScalar = true → PrintsTok opt c → 5 ≤ n → n ≤ 2147483647 →
      convertToRange opt (List.replicate n c ++ cellsAllA xs) (n + (cellsAllA xs).length) =
        .ok (some (n, [Cell.rep n 0, c])) →
      ASegmented opt xs → ASegmented opt (.seg (.crun n c) :: xs)
  | irun (a d : Int) (n : Nat) (xs : List ASeg) : RunHyp a d n →
      convertToRange opt (arithRun a d n ++ cellsAllA xs) (n + (cellsAllA xs).length) =
        .ok (some (n, [Cell.rep n 1, Cell.int .i d, Cell.int .i a])) →
      ASegmented opt xs → ASegmented opt (.seg (.irun a d n) :: xs)
  | arr (body : List RSeg) (xs : List ASeg) : Segmented opt body → ArrTypesOK body →
      convertToRange opt (arrHdr body :: (cellsAll body ++ cellsAllA xs))
        ((cellsAll body).length + 1 + (cellsAllA xs).length) = .ok none →
      ASegmented opt xs → ASegmented opt (.arr body :: xs)
  | arun (n : Nat) (body : List RSeg) (xs : List ASeg) : Segmented opt body → ArrTypesOK body → 5 ≤ n → n ≤ 2147483647 →
      convertToRange opt ((List.replicate n (arrHdr body :: cellsAll body)).flatten ++ cellsAllA xs)
        (n * ((cellsAll body).length + 1) + (cellsAllA xs).length) =
        .ok (some (n * ((cellsAll body).length + 1), Cell.rep n 0 :: arrHdr body :: cellsAll body)) →
      ASegmented opt xs → ASegmented opt (.arun n body :: xs)

theorem ASeg.cells_ne_nil_of (opt : POpt) {xs : List ASeg} (h : ASegmented opt xs) (hne : xs ≠ []) :
    0 < (cellsAllA xs).length := by
  cases h with
  | nil => exact absurd rfl hne
  | tok c xs _ _ _ _ => simp [cellsAllA, ASeg.cells, RSeg.cells]
  | crun n c xs _ _ hn _ _ _ => simp [cellsAllA, ASeg.cells, RSeg.cells]; omega
  | irun a d n xs h _ _ => have := h.hn; simp [cellsAllA, ASeg.cells, RSeg.cells, arithRun_length]; omega
  | arr body xs _ _ _ _ => simp [cellsAllA, ASeg.cells]
  | arun n body xs _ _ hn _ _ _ =>
    obtain ⟨m, rfl⟩ : ∃ m, n = m + 1 := ⟨n - 1, by omega⟩
    simp [cellsAllA, ASeg.cells, List.replicate_succ]

theorem ASegText.start {pL : Option Cell} {x : ASeg} {T : Bytes} (h : ASegText pL x T) : TokStart T := by
  cases h with
  | seg s T hT => exact hT.start
  | arr body B _ _ =>
    refine ⟨by simp, ?_⟩
    simp only [hd_cons]
    decide
  | arun n body B _ _ hn _ => exact tokStart_run n hn _

theorem ASegsText.start {L : Option Cell} {xs : List ASeg} {text : Bytes} (h : ASegsText L xs text) (hne : xs ≠ []) :
    TokStart text := by
  cases h with
  | nil => exact absurd rfl hne
  | cons L x xs T sep text hT _ _ _ => exact tokStart_append_ri _ _ hT.start

theorem ASegsText.tail {L : Option Cell} {xs : List ASeg} {text sep : Bytes} (h : ASegsText L xs text)
    (h1 : xs = [] → sep = []) (h2 : xs ≠ [] → IsSepTxt sep) : Tail sep text := by
  by_cases hne : xs = []
  · subst hne
    cases h
    exact Or.inl ⟨h1 rfl, rfl⟩
  · exact Or.inr ⟨h2 hne, h.start hne⟩

theorem ASegsText.nargs_le {L : Option Cell} {xs : List ASeg} {text : Bytes} (h : ASegsText L xs text) :
    nargsAllA L xs ≤ text.length := by
  induction h with
  | nil => simp [nargsAllA]
  | cons L x xs T sep text hT _ _ _ ih =>
    have : x.nargs L ≤ T.length := by
      cases hT with
      | seg s T hT =>
        have := (SegsText.cons L s [] T [] [] hT (SegsText.nil _) (fun _ => rfl) (fun h => absurd rfl h)).nargs_le
        simpa [nargsAll, ASeg.nargs] using this
      | arr body B _ _ => simp [ASeg.nargs]
      | arun n body B _ _ hn _ =>
        have := List.length_pos_iff.mpr (tokStart_run n hn (91 :: (B ++ [93]))).1
        simp only [ASeg.nargs]; omega
    simp only [nargsAllA, List.length_append]
    omega

theorem scannedAllA_nargs_le (L : Option Cell) (xs : List ASeg) : nargsAllA L xs ≤ (scannedAllA L xs).length := by
  induction xs generalizing L with
  | nil => simp [nargsAllA, scannedAllA]
  | cons x r ih =>
    have := ih (some x.plast)
    have h1 : x.nargs L ≤ (x.scanned L).length := by
      cases x with
      | seg s =>
        have := scannedAll_nargs_le L [s]
        simpa [nargsAll, scannedAll, ASeg.nargs, ASeg.scanned] using this
      | arr body => simp [ASeg.nargs, ASeg.scanned]
      | arun n body => simp [ASeg.nargs, ASeg.scanned]
    simp only [nargsAllA, scannedAllA, List.length_append]
    omega

/-- a body text followed by the closing bracket: what follows the last segment -/
theorem SegsText.tailR_end {L : Option Cell} {segs : List RSeg} {text sep : Bytes} (h : SegsText L segs text)
    (h1 : segs = [] → sep = []) (h2 : segs ≠ [] → IsSepTxt sep) (rest : Bytes) :
    TailR sep (text ++ 93 :: rest) := by
  by_cases hne : segs = []
  · subst hne
    cases h
    rw [h1 rfl]
    exact Rtosc.Pretty.tailR_close rest
  · exact tailR_sep sep _ (h2 hne) (tokStart_append_ri _ _ (h.start hne))

end Rtosc.Pretty
