/-
  C14 — lemmas about the wide integer callbacks of RtoscModel/Param/Wide.lean: they extend
  `intCb` conservatively, and the repaired `rLIMIT` is the mathematical clamp whenever the
  declared bounds are values of the type the comparison is made in.
-/
import RtoscModel.Proofs.ParamLemmas
import RtoscModel.Param.Wide
namespace Rtosc.Param
open Rtosc

/-! ### the types -/

theorem CTy.wrap_of_inRange (t : CTy) (v : Int) (h : t.InRange v) : t.wrap v = v := by
  unfold CTy.InRange at h
  unfold CTy.wrap
  cases t <;> simp only [CTy.min, CTy.max, CTy.modulus] at * <;> omega

theorem CTy.wrap_inRange (t : CTy) (v : Int) : t.InRange (t.wrap v) := by
  unfold CTy.InRange CTy.wrap
  cases t <;> simp only [CTy.min, CTy.max, CTy.modulus] <;> omega

/-- every value of `a` is a value of `b` -/
def CTy.Sub (a b : CTy) : Prop := b.min ≤ a.min ∧ a.max ≤ b.max

theorem CTy.Sub.inRange {a b : CTy} (h : a.Sub b) {v : Int} (hv : a.InRange v) : b.InRange v := by
  unfold CTy.Sub at h; unfold CTy.InRange at *; omega

theorem CTy.sub_refl (a : CTy) : a.Sub a := by unfold CTy.Sub; omega

/-- integer promotion keeps every value -/
theorem CTy.sub_prom (a : CTy) : a.Sub a.prom := by
  unfold CTy.Sub; cases a <;> simp [CTy.prom, CTy.min, CTy.max]

theorem CTy.ofIntTy_wrap (t : IntTy) (v : Int) : (CTy.ofIntTy t).wrap v = t.wrap v := by
  cases t <;> rfl

theorem CTy.ofIntTy_inRange (t : IntTy) (v : Int) : (CTy.ofIntTy t).InRange v ↔ t.InRange v := by
  cases t <;> exact Iff.rfl

theorem CTy.ofIntTy_prom (t : IntTy) : (CTy.ofIntTy t).prom = .i32 := by cases t <;> rfl

theorem CTy.i32_wrap (v : Int) : CTy.i32.wrap v = IntTy.i32.wrap v := rfl

theorem w32_of_inRange (v : Int) (h : IntTy.i32.InRange v) : w32 v = v := IntTy.wrap_of_inRange _ _ h

/-! ### rLIMIT -/

/-- on the four types of `IntTy` and bounds that `atoi` can return, `limitIntW` is `limitInt` -/
theorem limitIntW_ofIntTy (t : IntTy) (lo hi : Option Int) (v : Int)
    (hlo : ∀ l, lo = some l → IntTy.i32.InRange l) (hhi : ∀ h, hi = some h → IntTy.i32.InRange h) :
    limitIntW (CTy.ofIntTy t) lo hi v = limitInt t lo hi v := by
  have e : ∀ b, IntTy.i32.InRange b → (CTy.ofIntTy t).prom.wrap b = b := by
    intro b hb; rw [CTy.ofIntTy_prom, CTy.i32_wrap]; exact IntTy.wrap_of_inRange _ _ hb
  cases lo with
  | none =>
    cases hi with
    | none => rfl
    | some h => simp only [limitIntW, limitInt, e h (hhi h rfl), CTy.ofIntTy_wrap]
  | some l =>
    cases hi with
    | none => simp only [limitIntW, limitInt, e l (hlo l rfl), CTy.ofIntTy_wrap]
    | some h => simp only [limitIntW, limitInt, e l (hlo l rfl), e h (hhi h rfl), CTy.ofIntTy_wrap]

/-- what `rLIMIT` leaves in a variable of type `ty` is a value of `ty` -/
theorem limitIntW_inRange (ty : CTy) (lo hi : Option Int) (v : Int) (hv : ty.InRange v) :
    ty.InRange (limitIntW ty lo hi v) := by
  have hw := CTy.wrap_inRange ty
  cases lo <;> cases hi <;> simp only [limitIntW] <;> (repeat' split) <;> first | exact hv | exact hw _

/-- the result is the incoming value or a converted bound -/
theorem limitIntW_cases (ty : CTy) (lo hi : Option Int) (v : Int) :
    limitIntW ty lo hi v = v ∨ (∃ l, lo = some l ∧ limitIntW ty lo hi v = ty.wrap l) ∨
      (∃ h, hi = some h ∧ limitIntW ty lo hi v = ty.wrap h) := by
  cases lo <;> cases hi <;> simp only [limitIntW] <;> (repeat' split) <;> simp

/-- **the repaired `rLIMIT` is the mathematical clamp** for every C integer type, when the
    declared bounds are values of the type the comparison is made in (`decltype(var+0)`), the
    declared range meets the variable's type and minimum ≤ maximum. -/
theorem limitIntW_eq_limit (ty : CTy) (lo hi : Option Int) (v : Int) (hv : ty.InRange v)
    (hlo : ∀ l, lo = some l → ty.prom.InRange l ∧ l ≤ ty.max)
    (hhi : ∀ h, hi = some h → ty.prom.InRange h ∧ ty.min ≤ h)
    (hord : ∀ l h, lo = some l → hi = some h → l ≤ h) :
    limitIntW ty lo hi v = limit intOps lo hi v := by
  unfold CTy.InRange at hv
  cases lo with
  | none =>
    cases hi with
    | none => simp [limitIntW, limit]
    | some h =>
      obtain ⟨hp, h2⟩ := hhi h rfl
      simp only [limitIntW, limit, intOps, decide_eq_true_eq, CTy.wrap_of_inRange _ _ hp]
      split
      · exact CTy.wrap_of_inRange _ _ ⟨h2, by omega⟩
      · rfl
  | some l =>
    obtain ⟨hpl, h1⟩ := hlo l rfl
    cases hi with
    | none =>
      simp only [limitIntW, limit, intOps, decide_eq_true_eq, CTy.wrap_of_inRange _ _ hpl]
      split
      · exact CTy.wrap_of_inRange _ _ ⟨by omega, h1⟩
      · rfl
    | some h =>
      obtain ⟨hph, h2⟩ := hhi h rfl
      have h3 := hord l h rfl rfl
      simp only [limitIntW, limit, intOps, decide_eq_true_eq, CTy.wrap_of_inRange _ _ hpl,
        CTy.wrap_of_inRange _ _ hph]
      by_cases hvl : v < l
      · have hwl : ty.wrap l = l := CTy.wrap_of_inRange _ _ ⟨by omega, h1⟩
        simp only [hvl, ↓reduceIte, hwl]
        have : ¬ h < l := by omega
        simp [this]
      · simp only [hvl, ↓reduceIte]
        split
        · exact CTy.wrap_of_inRange _ _ ⟨h2, by omega⟩
        · rfl

/-! ### the callback -/

theorem intCbW_set_result (varTy storeTy : CTy) (tag : Int → Arg) (pm : Meta.Ptr) (loc : Bytes)
    (old raw new : Int) (a : Arg) (args : List Arg) (lo hi : Option Int) (ev : List Event)
    (harg : argI a = .ok raw) (hsub : varTy.Sub storeTy)
    (hmn : bound atoi pm kMin = .ok lo) (hmx : bound atoi pm kMax = .ok hi)
    (hres : intCbW varTy storeTy tag pm loc old (a :: args) = .ok (new, ev)) :
    new = limitIntW varTy lo hi (varTy.wrap raw) ∧
    ev = undoEvent intOps (varTy.wrap old) new loc (tag (w32 (varTy.wrap old))) (tag (w32 new))
          ++ [broadcast loc [tag (w32 new)]] := by
  have hvr : varTy.InRange (limitIntW varTy lo hi (varTy.wrap raw)) :=
    limitIntW_inRange varTy lo hi _ (CTy.wrap_inRange varTy raw)
  have hs := CTy.wrap_of_inRange _ _ (hsub.inRange hvr)
  simp only [intCbW, harg, hmn, hmx, bind, Except.bind, pure, Except.pure,
    hs, Except.ok.injEq, Prod.mk.injEq] at hres
  obtain ⟨h1, h2⟩ := hres
  subst h1
  exact ⟨rfl, h2.symm⟩

/-- **conservative extension**: on `char`, `unsigned char`, `short`, `int` the wide callback is
    the callback of Param/Sugar.lean that the `param` engine executes -/
theorem intCbW_eq_intCb (varTy storeTy : IntTy) (tag : Int → Arg) (pm : Meta.Ptr) (loc : Bytes)
    (old : Int) (args : List Arg) :
    intCbW (CTy.ofIntTy varTy) (CTy.ofIntTy storeTy) tag pm loc old args =
      intCb varTy storeTy tag pm loc old args := by
  cases args with
  | nil => rfl
  | cons a rest =>
    simp only [intCbW, intCb, bind, Except.bind]
    cases argI a with
    | error e => rfl
    | ok raw =>
      simp only
      cases hmn : bound atoi pm kMin with
      | error e => rfl
      | ok lo =>
        simp only
        cases hmx : bound atoi pm kMax with
        | error e => rfl
        | ok hi =>
          have hlo : ∀ l, lo = some l → IntTy.i32.InRange l := fun l hl => atoiBound_i32 (by rw [hmn, hl])
          have hhi : ∀ h, hi = some h → IntTy.i32.InRange h := fun h hh => atoiBound_i32 (by rw [hmx, hh])
          have h1 : w32 (varTy.wrap old) = varTy.wrap old :=
            w32_of_inRange _ ((IntTy.sub_i32 varTy).inRange (IntTy.wrap_inRange varTy old))
          simp only [pure, Except.pure, CTy.ofIntTy_wrap, limitIntW_ofIntTy varTy lo hi _ hlo hhi, h1]
          rfl

end Rtosc.Param
