/-
  C11 — sentences with ranges anywhere at top level: texts that consist of good arguments
  (`Arg11`) and ranges `b ... c` of decimal 'i' integers whose left neighbour is nothing (first
  value), a scalar value, a repetition `nx<scalar>` or another such range.  The two list loops
  read such a text as the cells of its arguments (`LayR`, `countPrintedArgVals_layR`,
  `scanArgVals_layR`); no bound on the number of arguments, gaps or characters.
-/
import RtoscModel.Proofs.ScanRangeExt
namespace Rtosc.Pretty.C11
open Rtosc Rtosc.Libc Rtosc.Pretty
open Rtosc.ArgVal (Cell Item flatList)

/-! ### scalar neighbours -/

theorem typesMatch_105 (ty : UInt8) : typesMatch ty 105 = decide (ty = 105) := by
  revert ty; apply UInt8.forall_of_fin; decide +kernel

theorem nbCell_of_scalar (c : Cell) (h : c.isScalar = true) : NbCell c := by
  refine ⟨h, ?_⟩
  cases c with
  | int ty v =>
    cases ty
    · exact Or.inl ⟨v, rfl⟩
    · right; rfl
    · right; rfl
  | str ty s => cases ty <;> (right; rfl)
  | flag ty => cases ty <;> (right; rfl)
  | arr _ _ => simp [ArgVal.Cell.isScalar] at h
  | rep _ _ => simp [ArgVal.Cell.isScalar] at h
  | _ => right; rfl

/-- the 'i' integer a scalar cell offers to a range to its right -/
def nbInt (c : Cell) : Option Int :=
  match c with
  | .int .i p => some p
  | _ => none

/-- a scalar token is not taken for a repetition `nx…` (else the checker's `switch` would call
    its recursion handler) -/
theorem ValOK.nomult {t : Bytes} {c : Cell} (h : ValOK t c) (rest : Bytes) (hs : Sep rest) :
    isRangeMultiplier (t ++ rest) = false := by
  cases hm' : isRangeMultiplier (t ++ rest) with
  | false => rfl
  | true =>
  exfalso
  obtain ⟨dl, hsk⟩ := h.skip (fun _ _ _ _ _ => .error .undef) rest 0 false hs
  have hd1 : isdigit (hd (t ++ rest)) = true := by
    unfold isRangeMultiplier at hm'
    simp only [Bool.and_eq_true] at hm'
    exact hm'.1.1
  have hne : ∀ k : UInt8, isdigit k = true → k ≠ 116 ∧ k ≠ 102 ∧ k ≠ 110 ∧ k ≠ 105 ∧ k ≠ 35 ∧ k ≠ 39 ∧ k ≠ 34 ∧
      k ≠ 77 ∧ k ≠ 91 ∧ k ≠ 66 := by
    apply UInt8.forall_of_fin; decide +kernel
  obtain ⟨a1, a2, a3, a4, a5, a6, a7, a8, a9, a10⟩ := hne _ hd1
  unfold skipValue at hsk
  simp only [a1, a2, a3, a4, a5, a6, a7, a8, a9, a10, or_self, ↓reduceIte, hm', skipMultiplier, bind, Except.bind] at hsk
  cases hsk

/-! ### the cells before an argument -/

/-- none of the last two cells is the header of a range with a delta (so the scanner's test
    `arg[-3]` looks at the header of the value written last, or at no header) -/
def TailOK (done : List Cell) : Prop :=
  ∀ k, k < 2 → ∀ n h, done.reverse[k]? = some (Cell.rep n h) → h = 0

theorem tailOK_nil : TailOK [] := by intro k _ n h hk; simp at hk

/-- no cell is the header of a range with a delta -/
def NoDelta (cs : List Cell) : Prop := ∀ n h, Cell.rep n h ∈ cs → h = 0

theorem TailOK.append_noDelta {done cs : List Cell} (h1 : TailOK done) (h2 : NoDelta cs) : TailOK (done ++ cs) := by
  intro k hk n h hget
  rw [List.reverse_append] at hget
  by_cases hlt : k < cs.reverse.length
  · rw [List.getElem?_append_left hlt] at hget
    have hm := List.mem_of_getElem? hget
    exact h2 n h (List.mem_reverse.mp hm)
  · rw [List.getElem?_append_right (by omega)] at hget
    exact h1 _ (by omega) n h hget

/-- appending the cells keeps `TailOK` -/
def TailKeep (cs : List Cell) : Prop := ∀ done, TailOK done → TailOK (done ++ cs)

theorem NoDelta.tailKeep {cs : List Cell} (h : NoDelta cs) : TailKeep cs := fun _ h1 => h1.append_noDelta h

theorem TailKeep.append {a b : List Cell} (ha : TailKeep a) (hb : TailKeep b) : TailKeep (a ++ b) := by
  intro done h
  rw [← List.append_assoc]
  exact hb _ (ha _ h)

theorem tailKeep_nil : TailKeep [] := fun done h => by simpa using h

theorem TailOK.append_range (done : List Cell) (num : Int) (d x : Int) :
    TailOK (done ++ [Cell.rep num 1, Cell.int .i d, Cell.int .i x]) := by
  intro k hk n h hget
  simp only [List.reverse_append, List.reverse_cons, List.reverse_nil, List.nil_append, List.cons_append] at hget
  match k, hk with
  | 0, _ => simp at hget
  | 1, _ => simp at hget

/-! ### the range and its step -/

/-- the step of `b ... c` (b = `x`, c = `z`) whose left neighbour offers `nb` -/
def rangeStepI (nb : Option Int) (x z : Int) : Int :=
  match nb with
  | some p => if p = x then (if x < z then 1 else -1) else x - p
  | none => if x < z then 1 else -1

/-- the side conditions on a range of 'i' integers: both ends and the step are `int32_t`, the end
    is reached in 1 … 2³¹-2 steps, and the width `c - b` is an `int32_t` (the code computes it) -/
structure RangeOK (nb : Option Int) (x z : Int) : Prop where
  hx1 : -2147483648 ≤ x
  hx2 : x ≤ 2147483647
  hz1 : -2147483648 ≤ z
  hz2 : z ≤ 2147483647
  hd1 : -2147483648 ≤ rangeStepI nb x z
  hd2 : rangeStepI nb x z ≤ 2147483647
  hmod : (z - x) % rangeStepI nb x z = 0
  hq1 : 1 ≤ (z - x) / rangeStepI nb x z
  hq2 : (z - x) / rangeStepI nb x z < 2147483647
  hw1 : -2147483647 ≤ z - x
  hw2 : z - x ≤ 2147483647

/-- the cells of the range: count, step, start -/
def rangeCellsNb (nb : Option Int) (x z : Int) : List Cell :=
  [Cell.rep ((((z - x) / rangeStepI nb x z).toNat + 1 : Nat) : Int) 1, Cell.int .i (rangeStepI nb x z), Cell.int .i x]

theorem RangeOK.ne {nb : Option Int} {x z : Int} (h : RangeOK nb x z) : x ≠ z := by
  intro e
  have := h.hq1
  rw [e] at this
  simp at this

theorem rangeStepI_ne {nb : Option Int} {x z : Int} : rangeStepI nb x z ≠ 0 := by
  unfold rangeStepI
  cases nb with
  | none => simp only []; split <;> omega
  | some p => simp only []; split <;> (try split) <;> omega

theorem RangeOK.mul {nb : Option Int} {x z : Int} (h : RangeOK nb x z) :
    z - x = (z - x) / rangeStepI nb x z * rangeStepI nb x z := by
  exact (Int.ediv_mul_cancel (Int.dvd_of_emod_eq_zero h.hmod)).symm

theorem RangeOK.count {nb : Option Int} {x z : Int} (h : RangeOK nb x z) :
    ((((z - x) / rangeStepI nb x z).toNat + 1 : Nat) : Int) = (z - x) / rangeStepI nb x z + 1 := by
  have := h.hq1
  omega

/-- `delta_from_arg_vals` when the left neighbour is useless: whatever `llhsarg` is -/
theorem RangeOK.delta_unit {nb : Option Int} {x z : Int} (h : RangeOK nb x z) (hu : nb = none ∨ nb = some x)
    (ll : Option Cell) :
    C11.deltaFromArgVals ll (Cell.int .i x) (some (Cell.int .i z)) true =
      .ok ((z - x) / rangeStepI nb x z + 1, Cell.int .i (rangeStepI nb x z)) := by
  have hne := h.ne
  have hstep : rangeStepI nb x z = if x < z then 1 else -1 := by
    rcases hu with rfl | rfl <;> simp [rangeStepI]
  apply deltaUnity11 ll x z ((z - x) / rangeStepI nb x z) (rangeStepI nb x z)
  · rw [hstep]
    by_cases hlt : x < z
    · left; simp [hlt]
    · right; simp [hlt]; omega
  · exact h.mul
  · exact h.hw1
  · exact h.hw2
  · have := h.hq1; omega
  · have := h.hq2; omega

/-- `delta_from_arg_vals` with the usable left neighbour `p` -/
theorem RangeOK.delta_step {p x z : Int} (h : RangeOK (some p) x z) (hp : p ≠ x) :
    C11.deltaFromArgVals (some (Cell.int .i p)) (Cell.int .i x) (some (Cell.int .i z)) false =
      .ok ((z - x) / rangeStepI (some p) x z + 1, Cell.int .i (rangeStepI (some p) x z)) := by
  have hstep : rangeStepI (some p) x z = x - p := by simp [rangeStepI, hp]
  apply deltaStep11 p x z ((z - x) / rangeStepI (some p) x z) (rangeStepI (some p) x z) rangeStepI_ne hstep.symm
    h.hd1 h.hd2 h.mul h.hw1 h.hw2
  · have := h.hq1; omega
  · have := h.hq2; omega


theorem rangeArgF_int (hdr : Cell) (d a k : Int) (more : List Cell) :
    rangeArgF (hdr :: Cell.int .i d :: Cell.int .i a :: more) k =
      .ok (some (Cell.int .i (toI32 (a + toI32 (k * d))))) := by
  simp [rangeArgF, fromIntF, fromInt, multF, addF, multAV_int, addAV_int, bind, Except.bind]

/-- the last value of the range is its right end -/
theorem RangeOK.last {nb : Option Int} {x z : Int} (h : RangeOK nb x z) :
    rangeArgF (rangeCellsNb nb x z) (((((z - x) / rangeStepI nb x z).toNat + 1 : Nat) : Int) - 1) =
      .ok (some (Cell.int .i z)) := by
  unfold rangeCellsNb
  rw [rangeArgF_int, h.count]
  have e : (z - x) / rangeStepI nb x z + 1 - 1 = (z - x) / rangeStepI nb x z := by omega
  rw [e, ← h.mul, toI32_id (z - x) (by have := h.hw1; omega) (by have := h.hw2; omega)]
  have e2 : x + (z - x) = z := by omega
  rw [e2, toI32_id _ h.hz1 h.hz2]

/-! ### what stands to the left of a range -/

/-- the argument `t` with the cells `cs` offers `nb` to a range that follows it: a scalar value or a
    repetition of a scalar value offers the value if it is an 'i' integer; a range of 'i' integers
    offers its right end; an array or a repeated array offers nothing (fix C11-04: the last element
    inside the array is not the left neighbour) -/
inductive Prov : Bytes → List Cell → Option Int → Prop
  | scalar (t : Bytes) (c0 : Cell) : ValOK t c0 → Prov t [c0] (nbInt c0)
  | rep (n : Nat) (t : Bytes) (c0 : Cell) : 1 ≤ n → n ≤ 2147483647 → ValOK t c0 →
      Prov (repText n t) [Cell.rep n 0, c0] (nbInt c0)
  | range (nb : Option Int) (p q : Int) (w1 w2 : Bytes) : RangeOK nb p q → AllWs w1 → w1 ≠ [] → AllWs w2 →
      Prov (rangeTok p q w1 w2) (rangeCellsNb nb p q) (some q)
  | arr (t : Bytes) (ty : UInt8) (len : Int) (more : List Cell) : Arg11 t (Cell.arr ty len :: more) → hd t = 91 →
      Prov t (Cell.arr ty len :: more) none
  | repArr (n : Nat) (t : Bytes) (ty : UInt8) (len : Int) (more : List Cell) : 1 ≤ n → n ≤ 2147483647 →
      Arg11 t (Cell.arr ty len :: more) → hd t = 91 → Prov (repText n t) (Cell.rep n 0 :: Cell.arr ty len :: more) none

/-- `delta_from_arg_vals` as both functions call it when the scalar cell `c0` stands to the left -/
theorem RangeOK.delta_cell (c0 : Cell) {x z : Int} (h : RangeOK (nbInt c0) x z) :
    C11.deltaFromArgVals (some c0) (Cell.int .i x) (some (Cell.int .i z)) (uselessI c0 x) =
      .ok ((z - x) / rangeStepI (nbInt c0) x z + 1, Cell.int .i (rangeStepI (nbInt c0) x z)) := by
  by_cases hi : ∃ p, c0 = Cell.int .i p
  · obtain ⟨p, rfl⟩ := hi
    by_cases hpx : p = x
    · subst hpx
      have : uselessI (Cell.int .i p) p = true := by simp [uselessI]
      rw [this]
      exact h.delta_unit (Or.inr rfl) _
    · have : uselessI (Cell.int .i p) x = false := by simp [uselessI, hpx]
      rw [this]
      exact h.delta_step hpx
  · have hn : nbInt c0 = none := by
      cases c0 with
      | int ty v => cases ty <;> first | exact absurd ⟨v, rfl⟩ hi | rfl
      | _ => rfl
    have hu : uselessI c0 x = true := by
      cases c0 with
      | int ty v => cases ty <;> first | exact absurd ⟨v, rfl⟩ hi | rfl
      | _ => rfl
    rw [hu]
    rw [hn] at h ⊢
    exact h.delta_unit (Or.inl rfl) _

theorem canPrecedeRange11_rep_scalar (n : Int) (c : Cell) (more : List Cell) (hsc : c.isScalar = true) :
    C11.canPrecedeRange (Cell.rep n 0 :: c :: more) = .ok true := by
  unfold C11.canPrecedeRange
  cases c with
  | int ty v => cases ty <;> simp [deref, ArgVal.Cell.type, ArgVal.tyA, ArgVal.IntTy.char, bind, Except.bind, pure, Except.pure]
  | str ty v => cases ty <;> simp [deref, ArgVal.Cell.type, ArgVal.tyA, ArgVal.StrTy.char, bind, Except.bind, pure, Except.pure]
  | flag ty => cases ty <;> simp [deref, ArgVal.Cell.type, ArgVal.tyA, ArgVal.FlagTy.char, bind, Except.bind, pure, Except.pure]
  | _ => simp_all [deref, ArgVal.Cell.isScalar, ArgVal.Cell.type, ArgVal.tyA, bind, Except.bind, pure, Except.pure]

theorem len_sub (a b : Bytes) : (a ++ b).length - b.length = a.length := by simp

/-- **the scanner reads a range behind a provider** -/
theorem Prov.scanRange {tp : Bytes} {csp : List Cell} {nb : Option Int} (hp : Prov tp csp nb) (done0 : List Cell)
    (hT : TailOK done0) (pok : Bool) (hcpr : canPrecedeRange csp = .ok pok) (extra : List Cell) (f : Nat) (x z : Int)
    (hr : RangeOK nb x z) (w1 w2 rest : Bytes) (hw1 : AllWs w1) (hne : w1 ≠ []) (hw2 : AllWs w2) (hs : Sep rest) :
    C11.scanArgVal (f + 2) (rangeTok x z w1 w2 ++ rest) ((done0 ++ csp).reverse ++ extra)
        (if pok then (done0 ++ csp).length else 0) true =
      .ok ((rangeTok x z w1 w2).length, rangeCellsNb nb x z) := by
  rw [rangeTok_append, ← rangeTok_length x z w1 w2 rest]
  unfold rangeCellsNb
  rw [hr.count]
  cases hp with
  | scalar t c0 hv =>
    have hsc := hv.scalar
    have : pok = true := by
      rw [canPrecedeRange_scalar c0 [] hsc] at hcpr; injection hcpr with e; exact e.symm
    subst this
    simp only [List.reverse_append, List.reverse_cons, List.reverse_nil, List.nil_append, List.cons_append, ↓reduceIte,
      List.append_assoc]
    apply scanArgVal_rangeB f x z hr.hx1 hr.hx2 hr.hz1 hr.hz2 w1 w2 rest hw1 hne hw2 hs c0 (done0.reverse ++ extra) _
      (by simp) _ (nbCell_of_scalar c0 hsc)
    · exact hr.delta_cell c0
    · by_cases hl : done0.length ≤ 1
      · left; simp only [List.length_append, List.length_singleton]; omega
      · right
        intro n h hk
        rw [List.getElem?_append_left (by simp only [List.length_reverse]; omega)] at hk
        exact hT 1 (by omega) n h hk
  | rep n t c0 h1 h2 hv =>
    have hsc := hv.scalar
    have : pok = true := by
      rw [canPrecedeRange11_rep_scalar (n : Int) c0 [] hsc] at hcpr; injection hcpr with e; exact e.symm
    subst this
    simp only [List.reverse_append, List.reverse_cons, List.reverse_nil, List.nil_append, List.cons_append, ↓reduceIte,
      List.append_assoc]
    apply scanArgVal_rangeB f x z hr.hx1 hr.hx2 hr.hz1 hr.hz2 w1 w2 rest hw1 hne hw2 hs c0
      (Cell.rep n 0 :: (done0.reverse ++ extra)) _ (by simp) _ (nbCell_of_scalar c0 hsc)
    · exact hr.delta_cell c0
    · by_cases hl : done0.length = 0
      · left; simp only [List.length_append, List.length_cons, List.length_nil]; omega
      · right
        intro n h hk
        have hk' : (done0.reverse ++ extra)[0]? = some (Cell.rep n h) := by simpa using hk
        rw [List.getElem?_append_left (by simp only [List.length_reverse]; omega)] at hk'
        exact hT 0 (by omega) n h hk'
  | range nb' p q v1 v2 hpq hv1 hvne hv2 =>
    have : pok = true := by
      simp [rangeCellsNb, canPrecedeRange, deref, bind, Except.bind, pure, Except.pure] at hcpr
      exact hcpr
    subst this
    have hl := hpq.last
    simp only [rangeCellsNb] at hl ⊢
    simp only [List.reverse_append, List.reverse_cons, List.reverse_nil, List.nil_append, List.cons_append, ↓reduceIte,
      List.append_assoc]
    apply scanArgVal_rangeC f x z hr.hx1 hr.hx2 hr.hz1 hr.hz2 w1 w2 rest hw1 hne hw2 hs _ _ _ 1 (done0.reverse ++ extra) _
      (by simp) (by decide) (Cell.int .i q) hl (nbCell_of_scalar _ rfl)
    exact hr.delta_cell (Cell.int .i q)
  | arr t ty len more ht h91 =>
    have : pok = false := by
      simp [canPrecedeRange, deref, bind, Except.bind, pure, Except.pure] at hcpr
      exact hcpr
    subst this
    simp only [Bool.false_eq_true, ↓reduceIte]
    exact scanArgVal_range0 f x z hr.hx1 hr.hx2 hr.hz1 hr.hz2 w1 w2 rest hw1 hne hw2 hs _ _ _
      (fun ll => hr.delta_unit (Or.inl rfl) ll)
  | repArr n t ty len more h1 h2 ht h91 =>
    have : pok = false := by
      simp [canPrecedeRange, deref, bind, Except.bind, pure, Except.pure, ArgVal.Cell.type] at hcpr
      exact hcpr
    subst this
    simp only [Bool.false_eq_true, ↓reduceIte]
    exact scanArgVal_range0 f x z hr.hx1 hr.hx2 hr.hz1 hr.hz2 w1 w2 rest hw1 hne hw2 hs _ _ _
      (fun ll => hr.delta_unit (Or.inl rfl) ll)


/-! ### the checker behind a provider -/

/-- the repaired checker skips a scalar token, whatever the recursion bound -/
theorem ValOK.skip11 {t : Bytes} {c : Cell} (h : ValOK t c) (rest : Bytes) (hs : Sep rest) (fuel : Nat) (ty : UInt8)
    (llhs : Option Bytes) (fe ib : Bool) :
    C11.skipNextPrintedArg (fuel + 1) (t ++ rest) ty llhs fe ib = .ok ⟨some rest, 1, c.type⟩ := by
  obtain ⟨dl, hv⟩ := h.skip (C11.skipNextPrintedArg fuel) rest ty ib hs
  have h3 := (sep_skipSpace_facts rest hs).2
  unfold C11.skipNextPrintedArg
  simp [hv, bind, Except.bind, h3, pure, Except.pure]

/-- the checker's auxiliary scan of an 'i' integer token -/
theorem ValOK.scanOne11 {t : Bytes} {p : Int} (h : ValOK t (Cell.int .i p)) (rest : Bytes) (hs : Sep rest) :
    C11.scanOne (t ++ rest) = .ok (Cell.int .i p) := by
  unfold C11.scanOne
  have := h.arg11.scan rest ((t ++ rest).length + 1) [] 0 false hs (by simp only [List.length_append]; omega)
  rw [show (t ++ rest).length + 2 = (t ++ rest).length + 1 + 1 from rfl, this]
  rfl

/-- the left neighbour as the checker finds it at a scalar token: type test, auxiliary scan, delta -/
theorem ValOK.nbCheck {t : Bytes} {c0 : Cell} (hv : ValOK t c0) (R : Bytes) (hsR : Sep R) (x z : Int)
    (hr : RangeOK (nbInt c0) x z) :
    ∃ (u : Bool) (ll : Option Cell),
      ((typesMatch c0.type 105 = false ∧ u = true ∧ ll = none) ∨
        (typesMatch c0.type 105 = true ∧ ∃ p, C11.scanOne (t ++ R) = .ok (Cell.int .i p) ∧ ll = some (Cell.int .i p) ∧
          u = decide (p = x))) ∧
      C11.deltaFromArgVals ll (Cell.int .i x) (some (Cell.int .i z)) u =
        .ok ((z - x) / rangeStepI (nbInt c0) x z + 1, Cell.int .i (rangeStepI (nbInt c0) x z)) := by
  obtain ⟨_, hp | ht⟩ := nbCell_of_scalar c0 hv.scalar
  · obtain ⟨p, rfl⟩ := hp
    refine ⟨decide (p = x), some (Cell.int .i p), Or.inr ⟨rfl, p, hv.scanOne11 R hsR, rfl, rfl⟩, ?_⟩
    have := hr.delta_cell (Cell.int .i p)
    simpa [uselessI] using this
  · have hn : nbInt c0 = none := by
      cases c0 with
      | int ty v => cases ty <;> first | rfl | exact absurd ht (by simp [ArgVal.Cell.type, ArgVal.IntTy.char, typesMatch])
      | _ => rfl
    refine ⟨true, none, Or.inl ⟨ht, rfl, rfl⟩, ?_⟩
    rw [hn] at hr ⊢
    exact hr.delta_unit (Or.inl rfl) none

theorem rangeTok_tokStart (x z : Int) (hx1 : -2147483648 ≤ x) (hx2 : x ≤ 2147483647) (w1 w2 : Bytes) :
    TokStart (rangeTok x z w1 w2) := tokStart_append_ri _ _ (tokStart_fmtDec x hx1 hx2)

/-- **the checker reads a range behind a provider** -/
theorem Prov.skipRange {tp : Bytes} {csp : List Cell} {nb : Option Int} (hp : Prov tp csp nb) (g : List Gap)
    (hg : SepGaps g) (f : Nat) (x z : Int) (hr : RangeOK nb x z) (w1 w2 rest : Bytes) (hw1 : AllWs w1) (hne : w1 ≠ [])
    (hw2 : AllWs w2) (hs : Sep rest) (ty : UInt8) (ib : Bool) (hfu : tp.length ≤ f + 1) :
    C11.skipNextPrintedArg (f + 3) (rangeTok x z w1 w2 ++ rest) ty
        (some (tp ++ (gapsBytes g ++ (rangeTok x z w1 w2 ++ rest)))) true ib = .ok ⟨some rest, 3, 45⟩ := by
  have hstart := rangeTok_tokStart x z hr.hx1 hr.hx2 w1 w2
  have hsR : Sep (gapsBytes g ++ (rangeTok x z w1 w2 ++ rest)) :=
    sep_gaps g hg _ (Body.of_tokStart hstart rest)
  have hnodots := hsR.2.2
  have hnum : (z - x) / rangeStepI nb x z + 1 ≠ -1 := by have := hr.hq1; omega
  generalize hR : gapsBytes g ++ (rangeTok x z w1 w2 ++ rest) = R at *
  rw [rangeTok_append]
  cases hp with
  | scalar t c0 hv =>
    obtain ⟨u, ll, hnb, hdelta⟩ := hv.nbCheck R hsR x z hr
    have hra := hv.skip11 R hsR (f + 1) 0 none false ib
    have hll1 : (if List.length (skipSpace R) > (46 :: 46 :: 46 :: (w2 ++ (fmtDec z ++ rest))).length ∧
        startsWith (skipSpace R) [46, 46, 46] = true then skipSpace (List.drop 3 (skipSpace R))
      else if isRangeMultiplier (tp ++ R) = true then afterX (tp ++ R) else tp ++ R) = tp ++ R := by
      simp [hnodots, hv.nomult R hsR]
    exact skipNext_rangeL (f + 1) x z hr.hx1 hr.hx2 hr.hz1 hr.hz2 w1 w2 rest hw1 hne hw2 hs ty ib (tp ++ R) R
      ⟨some R, 1, c0.type⟩ hra rfl (tp ++ R) ⟨some R, 1, c0.type⟩ hll1 hra u ll hnb _ _ hdelta hnum
  | rep n t c0 h1 h2 hv =>
    obtain ⟨u, ll, hnb, hdelta⟩ := hv.nbCheck R hsR x z hr
    have hrl := hv.skip11 R hsR (f + 1) 0 none false ib
    have hdig : isdigit (hd (fmtDec (n : Int) ++ 120 :: (t ++ R))) = true := hd_mult n h1 _
    have happ : repText n t ++ R = fmtDec (n : Int) ++ 120 :: (t ++ R) := by simp [repText]
    have hra : C11.skipNextPrintedArg (f + 2) (repText n t ++ R) 0 none false ib = .ok ⟨some R, 1 + 1, 45⟩ := by
      have hin := hv.skip11 R hsR f 0 none false ib
      unfold C11.skipNextPrintedArg
      rw [happ, skipValue_mult _ _ _ _ hdig (isRangeMultiplier_mult n h1 _)]
      unfold skipMultiplier
      simp only [afterX_mult n h1 (t ++ R), hin, bind, Except.bind, pure, Except.pure,
        Bool.false_eq_true, false_and, ↓reduceIte]
    have hll1 : (if List.length (skipSpace R) > (46 :: 46 :: 46 :: (w2 ++ (fmtDec z ++ rest))).length ∧
        startsWith (skipSpace R) [46, 46, 46] = true then skipSpace (List.drop 3 (skipSpace R))
      else if isRangeMultiplier (repText n t ++ R) = true then afterX (repText n t ++ R) else repText n t ++ R) =
        t ++ R := by
      rw [happ]
      simp [hnodots, isRangeMultiplier_mult n h1 _, afterX_mult n h1 (t ++ R)]
    exact skipNext_rangeL (f + 1) x z hr.hx1 hr.hx2 hr.hz1 hr.hz2 w1 w2 rest hw1 hne hw2 hs ty ib (repText n t ++ R) R
      ⟨some R, 1 + 1, 45⟩ hra rfl (t ++ R) ⟨some R, 1, c0.type⟩ hll1 hrl u ll hnb _ _ hdelta hnum
  | range nb' p q v1 v2 hpq hv1 hvne hv2 =>
    obtain ⟨hW, hsk1, hsk2⟩ := rangeRest_facts v1 v2 (fmtDec q) R hv1 hvne hv2 (tokStart_fmtDec q hpq.hz1 hpq.hz2)
    have hra := skipNext11_int_noell (f + 1) p hpq.hx1 hpq.hx2 _ hW 0 none ib
    have hrl := skipNext11_int_noell (f + 1) q hpq.hz1 hpq.hz2 R hsR.toW 0 none ib
    have hsc := scanOne11_int q hpq.hz1 hpq.hz2 R hsR.toW
    have hdelta := hr.delta_cell (Cell.int .i q)
    rw [rangeTok_append]
    have hlen : (46 :: 46 :: 46 :: (v2 ++ (fmtDec q ++ R))).length > (46 :: 46 :: 46 :: (w2 ++ (fmtDec z ++ rest))).length := by
      rw [← hR]
      simp only [rangeTok, rangeRest, List.length_cons, List.length_append, List.length_nil]
      omega
    have hll1 : (if List.length (skipSpace (rangeRest v1 v2 (fmtDec q) R)) >
          (46 :: 46 :: 46 :: (w2 ++ (fmtDec z ++ rest))).length ∧
        startsWith (skipSpace (rangeRest v1 v2 (fmtDec q) R)) [46, 46, 46] = true then
          skipSpace (List.drop 3 (skipSpace (rangeRest v1 v2 (fmtDec q) R)))
      else if isRangeMultiplier (fmtDec p ++ rangeRest v1 v2 (fmtDec q) R) = true then
        afterX (fmtDec p ++ rangeRest v1 v2 (fmtDec q) R) else fmtDec p ++ rangeRest v1 v2 (fmtDec q) R) =
        fmtDec q ++ R := by
      rw [hsk1, if_pos ⟨hlen, by simp [startsWith, List.isPrefixOf]⟩]
      simp [hsk2]
    have hdelta' : C11.deltaFromArgVals (some (Cell.int .i q)) (Cell.int .i x) (some (Cell.int .i z)) (decide (q = x)) =
        .ok ((z - x) / rangeStepI (some q) x z + 1, Cell.int .i (rangeStepI (some q) x z)) := by
      simpa [uselessI, nbInt] using hdelta
    exact skipNext_rangeL (f + 1) x z hr.hx1 hr.hx2 hr.hz1 hr.hz2 w1 w2 rest hw1 hne hw2 hs ty ib
      (fmtDec p ++ rangeRest v1 v2 (fmtDec q) R) (rangeRest v1 v2 (fmtDec q) R) ⟨some (rangeRest v1 v2 (fmtDec q) R), 1, 105⟩
      hra rfl (fmtDec q ++ R) ⟨some R, 1, 105⟩ hll1 hrl (decide (q = x)) (some (Cell.int .i q))
      (Or.inr ⟨rfl, q, hsc, rfl, rfl⟩) _ _ hdelta' hnum
  | arr t aty len more ht h91 =>
    obtain ⟨ra, hra, hsrc, _, hty⟩ := ht.skip R (f + 1) 0 none false ib hsR hfu
    have htyA : typesMatch ra.type 105 = false := by
      rw [hty]; simp [ArgVal.Cell.type, ArgVal.tyA, typesMatch]
    have hnm : isRangeMultiplier (tp ++ R) = false := by
      unfold isRangeMultiplier
      rw [hd_append_of_ne_nil _ _ ht.start.1, h91]
      rfl
    have hll1 : (if List.length (skipSpace R) > (46 :: 46 :: 46 :: (w2 ++ (fmtDec z ++ rest))).length ∧
        startsWith (skipSpace R) [46, 46, 46] = true then skipSpace (List.drop 3 (skipSpace R))
      else if isRangeMultiplier (tp ++ R) = true then afterX (tp ++ R) else tp ++ R) = tp ++ R := by
      simp [hnodots, hnm]
    exact skipNext_rangeL (f + 1) x z hr.hx1 hr.hx2 hr.hz1 hr.hz2 w1 w2 rest hw1 hne hw2 hs ty ib (tp ++ R) R
      ra hra hsrc (tp ++ R) ra hll1 hra true none (Or.inl ⟨htyA, rfl, rfl⟩) _ _ (hr.delta_unit (Or.inl rfl) none) hnum
  | repArr n t aty len more h1 h2 ht h91 =>
    obtain ⟨ra, hra, hsrc, _, _⟩ := (ht.rep n h1 h2).skip R (f + 1) 0 none false ib hsR hfu
    obtain ⟨rl, hrl, _, _, hty⟩ := ht.skip R (f + 1) 0 none false ib hsR (by rw [repText_length] at hfu; omega)
    have htyA : typesMatch rl.type 105 = false := by
      rw [hty]; simp [ArgVal.Cell.type, ArgVal.tyA, typesMatch]
    have happ : repText n t ++ R = fmtDec (n : Int) ++ 120 :: (t ++ R) := by simp [repText]
    have hll1 : (if List.length (skipSpace R) > (46 :: 46 :: 46 :: (w2 ++ (fmtDec z ++ rest))).length ∧
        startsWith (skipSpace R) [46, 46, 46] = true then skipSpace (List.drop 3 (skipSpace R))
      else if isRangeMultiplier (repText n t ++ R) = true then afterX (repText n t ++ R) else repText n t ++ R) =
        t ++ R := by
      rw [happ]
      simp [hnodots, isRangeMultiplier_mult n h1 _, afterX_mult n h1 (t ++ R)]
    exact skipNext_rangeL (f + 1) x z hr.hx1 hr.hx2 hr.hz1 hr.hz2 w1 w2 rest hw1 hne hw2 hs ty ib (repText n t ++ R) R
      ra hra hsrc (t ++ R) rl hll1 hrl true none (Or.inl ⟨htyA, rfl, rfl⟩) _ _ (hr.delta_unit (Or.inl rfl) none) hnum


/-! ### texts of arguments and ranges -/

/-- what stands to the left of the first argument of a text -/
inductive Ctx where
  | first                                                         -- nothing
  | any                                                           -- something unknown (no range may follow)
  | after (tp : Bytes) (g : List Gap) (csp : List Cell) (nb : Option Int)   -- a provider and the gaps behind it

/-- the 'i' integer the context offers -/
def Ctx.nb : Ctx → Option Int
  | .after _ _ _ nb => nb
  | _ => none

/-- `text` consists of good arguments and ranges of 'i' integers, separated by separating runs of
    gaps, with a tail; a range stands first or behind a provider (`Prov`) -/
inductive LayR : Ctx → List (Bytes × List Cell) → Bytes → Prop
  | oneA (ctx : Ctx) (t : Bytes) (cs : List Cell) (tail : Bytes) : Arg11 t cs → Tail tail → LayR ctx [(t, cs)] (t ++ tail)
  | oneR (ctx : Ctx) (x z : Int) (w1 w2 tail : Bytes) : ctx ≠ .any → RangeOK ctx.nb x z → AllWs w1 → w1 ≠ [] → AllWs w2 →
      Tail tail → LayR ctx [(rangeTok x z w1 w2, rangeCellsNb ctx.nb x z)] (rangeTok x z w1 w2 ++ tail)
  | consA (ctx : Ctx) (t : Bytes) (cs : List Cell) (g : List Gap) (more : List (Bytes × List Cell)) (text : Bytes) :
      Arg11 t cs → TailKeep cs → SepGaps g → LayR .any more text → LayR ctx ((t, cs) :: more) (t ++ (gapsBytes g ++ text))
  | consP (ctx : Ctx) (t : Bytes) (cs : List Cell) (nb : Option Int) (g : List Gap) (more : List (Bytes × List Cell))
      (text : Bytes) : Arg11 t cs → TailKeep cs → Prov t cs nb → SepGaps g → LayR (.after t g cs nb) more text →
      LayR ctx ((t, cs) :: more) (t ++ (gapsBytes g ++ text))
  | consR (ctx : Ctx) (x z : Int) (w1 w2 : Bytes) (g : List Gap) (more : List (Bytes × List Cell)) (text : Bytes) :
      ctx ≠ .any → RangeOK ctx.nb x z → AllWs w1 → w1 ≠ [] → AllWs w2 → SepGaps g →
      LayR (.after (rangeTok x z w1 w2) g (rangeCellsNb ctx.nb x z) (some z)) more text →
      LayR ctx ((rangeTok x z w1 w2, rangeCellsNb ctx.nb x z) :: more) (rangeTok x z w1 w2 ++ (gapsBytes g ++ text))

theorem LayR.start {ctx : Ctx} {tcs : List (Bytes × List Cell)} {text : Bytes} (h : LayR ctx tcs text) : TokStart text := by
  cases h with
  | oneA _ t cs tail ht _ => exact tokStart_append_ri _ _ ht.start
  | oneR _ x z w1 w2 tail _ hr _ _ _ _ => exact tokStart_append_ri _ _ (rangeTok_tokStart x z hr.hx1 hr.hx2 w1 w2)
  | consA _ t cs g more text ht _ _ _ => exact tokStart_append_ri _ _ ht.start
  | consP _ t cs nb g more text ht _ _ _ _ => exact tokStart_append_ri _ _ ht.start
  | consR _ x z w1 w2 g more text _ hr _ _ _ _ _ => exact tokStart_append_ri _ _ (rangeTok_tokStart x z hr.hx1 hr.hx2 w1 w2)

theorem LayR.length_le {ctx : Ctx} {tcs : List (Bytes × List Cell)} {text : Bytes} (h : LayR ctx tcs text) :
    tcs.length ≤ text.length := by
  induction h with
  | oneA _ t cs tail ht _ =>
    have := List.length_pos_iff.mpr ht.start.1
    simp only [List.length_singleton, List.length_append]; omega
  | oneR _ x z w1 w2 tail _ hr _ _ _ _ =>
    have := List.length_pos_iff.mpr (rangeTok_tokStart x z hr.hx1 hr.hx2 w1 w2).1
    simp only [List.length_singleton, List.length_append]; omega
  | consA _ t cs g more text ht _ _ _ ih =>
    have := List.length_pos_iff.mpr ht.start.1
    simp only [List.length_cons, List.length_append]; omega
  | consP _ t cs nb g more text ht _ _ _ _ ih =>
    have := List.length_pos_iff.mpr ht.start.1
    simp only [List.length_cons, List.length_append]; omega
  | consR _ x z w1 w2 g more text _ hr _ _ _ _ _ ih =>
    have := List.length_pos_iff.mpr (rangeTok_tokStart x z hr.hx1 hr.hx2 w1 w2).1
    simp only [List.length_cons, List.length_append]; omega

theorem LayR.length_le_cells {ctx : Ctx} {tcs : List (Bytes × List Cell)} {text : Bytes} (h : LayR ctx tcs text) :
    tcs.length ≤ (allCells tcs).length := by
  induction h with
  | oneA _ t cs tail ht _ => have := ht.length_pos; simp [allCells]; omega
  | oneR _ x z w1 w2 tail _ hr _ _ _ _ => simp [allCells, rangeCellsNb]
  | consA _ t cs g more text ht _ _ _ ih =>
    have := ht.length_pos
    simp only [allCells, List.map_cons, List.flatten_cons, List.length_cons, List.length_append] at ih ⊢
    omega
  | consP _ t cs nb g more text ht _ _ _ _ ih =>
    have := ht.length_pos
    simp only [allCells, List.map_cons, List.flatten_cons, List.length_cons, List.length_append] at ih ⊢
    omega
  | consR _ x z w1 w2 g more text _ hr _ _ _ _ _ ih =>
    simp only [allCells, List.map_cons, List.flatten_cons, List.length_cons, List.length_append, rangeCellsNb] at ih ⊢
    simp only [List.length_nil]
    omega

/-- the state of the scanner's loop in front of a text with the left context `ctx` -/
def SInv (ctx : Ctx) (done : List Cell) (pok : Bool) : Prop :=
  TailOK done ∧
  match ctx with
  | .first => done = []
  | .any => True
  | .after tp _ csp nb => Prov tp csp nb ∧ ∃ done0, done = done0 ++ csp ∧ TailOK done0 ∧ canPrecedeRange csp = .ok pok

/-- the state of the checker's loop -/
def CInv (ctx : Ctx) (recent : Option Bytes) (text : Bytes) : Prop :=
  match ctx with
  | .first => recent = none
  | .any => True
  | .after tp g csp nb => Prov tp csp nb ∧ SepGaps g ∧ recent = some (tp ++ (gapsBytes g ++ text))

/-- one turn of the scanner's loop, with the `can_precede_range` result exposed -/
theorem scanLoop_stepB (t : Bytes) (cs : List Cell) (rest : Bytes) (f n i : Nat) (prevOk : Bool)
    (done : List Cell) (rd sk : Nat) (b : Bool)
    (hscan : C11.scanArgVal ((t ++ rest).length + 2) (t ++ rest) done.reverse (if prevOk then i else 0) true =
      .ok (t.length, cs))
    (hcpr : canPrecedeRange cs = .ok b) (hoff : nextArgOffset (cs.length + 1) cs = .ok cs.length)
    (hi : i < n) (hsk : skipSpaceComments (rest.length + 1) rest = .ok sk) :
    C11.scanArgValsLoop (f + 1) (t ++ rest) n i prevOk done rd =
      C11.scanArgValsLoop f (rest.drop sk) n (i + cs.length) b (done ++ cs) (rd + t.length + sk) := by
  conv => lhs; unfold C11.scanArgValsLoop
  simp only [hi, ↓reduceIte, hscan, hcpr, advance_append, hoff, hsk, bind, Except.bind, pure, Except.pure,
    ne_eq, not_true_eq_false]

/-- the scanner reads the range at the head of a text in its context -/
theorem scan_rangeHead (ctx : Ctx) (hctx : ctx ≠ .any) (x z : Int) (hr : RangeOK ctx.nb x z) (w1 w2 rest : Bytes)
    (hw1 : AllWs w1) (hne : w1 ≠ []) (hw2 : AllWs w2) (hs : Sep rest) (done : List Cell) (pok : Bool)
    (hinv : SInv ctx done pok) (f : Nat) :
    C11.scanArgVal (f + 2) (rangeTok x z w1 w2 ++ rest) done.reverse (if pok then done.length else 0) true =
      .ok ((rangeTok x z w1 w2).length, rangeCellsNb ctx.nb x z) := by
  cases ctx with
  | any => exact absurd rfl hctx
  | first =>
    have hd : done = [] := hinv.2
    subst hd
    have := scanArgVal_range0 f x z hr.hx1 hr.hx2 hr.hz1 hr.hz2 w1 w2 rest hw1 hne hw2 hs [] _ _
      (fun ll => hr.delta_unit (Or.inl rfl) ll)
    rw [rangeTok_append, ← rangeTok_length x z w1 w2 rest]
    simp only [List.reverse_nil, List.length_nil, ite_self]
    unfold rangeCellsNb
    rw [hr.count]
    exact this
  | after tp g csp nb =>
    obtain ⟨_, hp, done0, rfl, hT0, hcpr⟩ := hinv
    have := hp.scanRange done0 hT0 pok hcpr [] f x z hr w1 w2 rest hw1 hne hw2 hs
    rwa [List.append_nil] at this

theorem cpr_rangeCells (nb : Option Int) (x z : Int) : canPrecedeRange (rangeCellsNb nb x z) = .ok true := by
  simp [rangeCellsNb, canPrecedeRange, deref, bind, Except.bind, pure, Except.pure]

theorem off_rangeCells (nb : Option Int) (x z : Int) :
    nextArgOffset ((rangeCellsNb nb x z).length + 1) (rangeCellsNb nb x z) = .ok (rangeCellsNb nb x z).length :=
  nextArgOffset_range _ _ _ rfl

/-- the scanner's loop reads a text of arguments and ranges back as their cells -/
theorem scanLoop_layR {ctx : Ctx} {tcs : List (Bytes × List Cell)} {text : Bytes} (h : LayR ctx tcs text) :
    ∀ (fuel n : Nat) (pok : Bool) (done : List Cell) (rd : Nat),
      n = done.length + (allCells tcs).length → tcs.length + 1 ≤ fuel → SInv ctx done pok →
      C11.scanArgValsLoop fuel text n done.length pok done rd = .ok (rd + text.length, done ++ allCells tcs) := by
  induction h with
  | oneA ctx t cs tail ht htail =>
    intro fuel n pok done rd hn hf _
    have := scanLoop_argsLay (ArgsLay.one t cs tail ht htail) fuel n done.length pok done rd hn hf
    exact this
  | oneR ctx x z w1 w2 tail hctx hr hw1 hne hw2 htail =>
    intro fuel n pok done rd hn hf hinv
    obtain ⟨f, rfl⟩ : ∃ f, fuel = f + 1 := ⟨fuel - 1, by omega⟩
    simp only [allCells, List.map_cons, List.map_nil, List.flatten_cons, List.flatten_nil, List.append_nil] at hn ⊢
    have hlen : (rangeCellsNb ctx.nb x z).length = 3 := rfl
    rw [scanLoop_stepB (rangeTok x z w1 w2) _ tail f n done.length pok done rd tail.length true
      (scan_rangeHead ctx hctx x z hr w1 w2 tail hw1 hne hw2 htail.sep done pok hinv _)
      (cpr_rangeCells _ _ _) (off_rangeCells _ _ _) (by omega) (scanSkip_tail htail)]
    obtain ⟨f', rfl⟩ : ∃ f', f = f' + 1 := ⟨f - 1, by simp at hf; omega⟩
    unfold C11.scanArgValsLoop
    have : ¬ (done.length + (rangeCellsNb ctx.nb x z).length < n) := by omega
    simp only [this, ↓reduceIte, pure, Except.pure, List.length_append]
    congr 2; omega
  | consA ctx t cs g more text ht hnd hg hmore ih =>
    intro fuel n pok done rd hn hf hinv
    obtain ⟨f, rfl⟩ : ∃ f, fuel = f + 1 := ⟨fuel - 1, by omega⟩
    have hpos := ht.length_pos
    have hstart := hmore.start
    simp only [allCells, List.map_cons, List.flatten_cons, List.length_append] at hn ⊢
    have hsep : Sep (gapsBytes g ++ text) := sep_gaps g hg text (by simpa using Body.of_tokStart hstart [])
    have hstop : Stop text := by simpa using Stop.of_tokStart hstart []
    obtain ⟨b, hb⟩ := ht.cpr
    have hscan := ht.scan (gapsBytes g ++ text) ((t ++ (gapsBytes g ++ text)).length + 1) done.reverse
      (if pok then done.length else 0) true hsep (by simp only [List.length_append]; omega)
    rw [scanLoop_stepB t cs (gapsBytes g ++ text) f n done.length pok done rd (gapsBytes g).length b hscan hb ht.off
      (by omega) (scanSkip_gaps g text hstop), List.drop_left]
    have e : done.length + cs.length = (done ++ cs).length := by simp
    rw [e, ih f n b (done ++ cs) (rd + t.length + (gapsBytes g).length)
      (by simp only [allCells, List.length_append]; omega) (by simp at hf; omega)
      ⟨hnd _ hinv.1, trivial⟩]
    simp only [List.length_append, List.append_assoc, allCells]
    congr 2; omega
  | consP ctx t cs nb g more text ht hnd hp hg hmore ih =>
    intro fuel n pok done rd hn hf hinv
    obtain ⟨f, rfl⟩ : ∃ f, fuel = f + 1 := ⟨fuel - 1, by omega⟩
    have hpos := ht.length_pos
    have hstart := hmore.start
    simp only [allCells, List.map_cons, List.flatten_cons, List.length_append] at hn ⊢
    have hsep : Sep (gapsBytes g ++ text) := sep_gaps g hg text (by simpa using Body.of_tokStart hstart [])
    have hstop : Stop text := by simpa using Stop.of_tokStart hstart []
    obtain ⟨b, hb⟩ := ht.cpr
    have hscan := ht.scan (gapsBytes g ++ text) ((t ++ (gapsBytes g ++ text)).length + 1) done.reverse
      (if pok then done.length else 0) true hsep (by simp only [List.length_append]; omega)
    rw [scanLoop_stepB t cs (gapsBytes g ++ text) f n done.length pok done rd (gapsBytes g).length b hscan hb ht.off
      (by omega) (scanSkip_gaps g text hstop), List.drop_left]
    have e : done.length + cs.length = (done ++ cs).length := by simp
    rw [e, ih f n b (done ++ cs) (rd + t.length + (gapsBytes g).length)
      (by simp only [allCells, List.length_append]; omega) (by simp at hf; omega)
      ⟨hnd _ hinv.1, hp, done, rfl, hinv.1, hb⟩]
    simp only [List.length_append, List.append_assoc, allCells]
    congr 2; omega
  | consR ctx x z w1 w2 g more text hctx hr hw1 hne hw2 hg hmore ih =>
    intro fuel n pok done rd hn hf hinv
    obtain ⟨f, rfl⟩ : ∃ f, fuel = f + 1 := ⟨fuel - 1, by omega⟩
    have hstart := hmore.start
    simp only [allCells, List.map_cons, List.flatten_cons, List.length_append] at hn ⊢
    have hlen : (rangeCellsNb ctx.nb x z).length = 3 := rfl
    have hsep : Sep (gapsBytes g ++ text) := sep_gaps g hg text (by simpa using Body.of_tokStart hstart [])
    have hstop : Stop text := by simpa using Stop.of_tokStart hstart []
    rw [scanLoop_stepB (rangeTok x z w1 w2) _ (gapsBytes g ++ text) f n done.length pok done rd (gapsBytes g).length true
      (scan_rangeHead ctx hctx x z hr w1 w2 _ hw1 hne hw2 hsep done pok hinv _)
      (cpr_rangeCells _ _ _) (off_rangeCells _ _ _) (by omega) (scanSkip_gaps g text hstop), List.drop_left]
    have e : done.length + (rangeCellsNb ctx.nb x z).length = (done ++ rangeCellsNb ctx.nb x z).length := by simp
    rw [e, ih f n true (done ++ rangeCellsNb ctx.nb x z) (rd + (rangeTok x z w1 w2).length + (gapsBytes g).length)
      (by simp only [allCells, List.length_append]; omega) (by simp at hf; omega)
      ⟨TailOK.append_range done _ _ _, Prov.range ctx.nb x z w1 w2 hr hw1 hne hw2, done, rfl, hinv.1, cpr_rangeCells _ _ _⟩]
    simp only [List.length_append, List.append_assoc, allCells]
    congr 2; omega


/-- the checker reads the range at the head of a text in its context -/
theorem skip_rangeHead (ctx : Ctx) (hctx : ctx ≠ .any) (x z : Int) (hr : RangeOK ctx.nb x z) (w1 w2 rest : Bytes)
    (hw1 : AllWs w1) (hne : w1 ≠ []) (hw2 : AllWs w2) (hs : Sep rest) (recent : Option Bytes)
    (hinv : CInv ctx recent (rangeTok x z w1 w2 ++ rest)) :
    ∃ r, C11.skipNextPrintedArg (lookBackFuel (rangeTok x z w1 w2 ++ rest) recent) (rangeTok x z w1 w2 ++ rest) 0 recent
      true false = .ok r ∧ r.src = some rest ∧ r.skipped = (rangeCellsNb ctx.nb x z).length := by
  have hpos := List.length_pos_iff.mpr (rangeTok_tokStart x z hr.hx1 hr.hx2 w1 w2).1
  obtain ⟨f, hf⟩ : ∃ f, lookBackFuel (rangeTok x z w1 w2 ++ rest) recent = f + 3 :=
    ⟨lookBackFuel (rangeTok x z w1 w2 ++ rest) recent - 3, by
      unfold lookBackFuel; simp only [List.length_append]; omega⟩
  rw [hf]
  cases ctx with
  | any => exact absurd rfl hctx
  | first =>
    have hrec : recent = none := hinv
    subst hrec
    refine ⟨⟨some rest, 3, 45⟩, ?_, rfl, rfl⟩
    rw [rangeTok_append]
    exact skipNext_range0 (f + 1) x z hr.hx1 hr.hx2 hr.hz1 hr.hz2 w1 w2 rest hw1 hne hw2 hs 0 false _ _
      (fun ll => hr.delta_unit (Or.inl rfl) ll) (by have := hr.hq1; omega)
  | after tp g csp nb =>
    obtain ⟨hp, hg, hrec⟩ := hinv
    subst hrec
    exact ⟨⟨some rest, 3, 45⟩, hp.skipRange g hg f x z hr w1 w2 rest hw1 hne hw2 hs 0 false (by
      unfold lookBackFuel at hf; simp only [List.length_append] at hf; omega), rfl, rfl⟩


/-- the checker's loop counts the cells of a text of arguments and ranges -/
theorem countLoop_layR {ctx : Ctx} {tcs : List (Bytes × List Cell)} {text : Bytes} (h : LayR ctx tcs text) :
    ∀ (fuel : Nat) (recent : Option Bytes) (num : Int), tcs.length + 1 ≤ fuel → CInv ctx recent text →
      C11.countLoop fuel (some text) recent num = .ok (num + (allCells tcs).length) := by
  induction h with
  | oneA ctx t cs tail ht htail =>
    intro fuel recent num hf _
    exact countLoop_argsLay (ArgsLay.one t cs tail ht htail) fuel recent num hf
  | oneR ctx x z w1 w2 tail hctx hr hw1 hne hw2 htail =>
    intro fuel recent num hf hinv
    obtain ⟨f, rfl⟩ : ∃ f, fuel = f + 1 := ⟨fuel - 1, by omega⟩
    have hstart := rangeTok_tokStart x z hr.hx1 hr.hx2 w1 w2
    have hpos := List.length_pos_iff.mpr hstart.1
    rw [countLoop_step' (rangeTok x z w1 w2) (rangeCellsNb ctx.nb x z).length tail [] f recent num hstart
      (skip_rangeHead ctx hctx x z hr w1 w2 tail hw1 hne hw2 htail.sep recent hinv) (checkSkip_tail htail)
      (by simp only [List.length_nil, List.length_append]; omega)]
    obtain ⟨f', rfl⟩ : ∃ f', f = f' + 1 := ⟨f - 1, by simp at hf; omega⟩
    unfold C11.countLoop
    simp [allCells]
  | consA ctx t cs g more text ht hnd hg hmore ih =>
    intro fuel recent num hf _
    obtain ⟨f, rfl⟩ : ∃ f, fuel = f + 1 := ⟨fuel - 1, by omega⟩
    have hpos := List.length_pos_iff.mpr ht.start.1
    have hstart := hmore.start
    have hsep : Sep (gapsBytes g ++ text) := sep_gaps g hg text (by simpa using Body.of_tokStart hstart [])
    have hstop : Stop text := by simpa using Stop.of_tokStart hstart []
    rw [countLoop_step t cs (gapsBytes g ++ text) text f recent num ht hsep (checkSkip_gaps g text hstop)
      (by simp only [List.length_append]; omega)]
    rw [ih f _ _ (by simp at hf; omega) trivial]
    simp only [allCells, List.map_cons, List.flatten_cons, List.length_append]
    congr 1
    push_cast
    omega
  | consP ctx t cs nb g more text ht hnd hp hg hmore ih =>
    intro fuel recent num hf _
    obtain ⟨f, rfl⟩ : ∃ f, fuel = f + 1 := ⟨fuel - 1, by omega⟩
    have hpos := List.length_pos_iff.mpr ht.start.1
    have hstart := hmore.start
    have hsep : Sep (gapsBytes g ++ text) := sep_gaps g hg text (by simpa using Body.of_tokStart hstart [])
    have hstop : Stop text := by simpa using Stop.of_tokStart hstart []
    rw [countLoop_step t cs (gapsBytes g ++ text) text f recent num ht hsep (checkSkip_gaps g text hstop)
      (by simp only [List.length_append]; omega)]
    rw [ih f _ _ (by simp at hf; omega) ⟨hp, hg, rfl⟩]
    simp only [allCells, List.map_cons, List.flatten_cons, List.length_append]
    congr 1
    push_cast
    omega
  | consR ctx x z w1 w2 g more text hctx hr hw1 hne hw2 hg hmore ih =>
    intro fuel recent num hf hinv
    obtain ⟨f, rfl⟩ : ∃ f, fuel = f + 1 := ⟨fuel - 1, by omega⟩
    have hstartR := rangeTok_tokStart x z hr.hx1 hr.hx2 w1 w2
    have hpos := List.length_pos_iff.mpr hstartR.1
    have hstart := hmore.start
    have hsep : Sep (gapsBytes g ++ text) := sep_gaps g hg text (by simpa using Body.of_tokStart hstart [])
    have hstop : Stop text := by simpa using Stop.of_tokStart hstart []
    rw [countLoop_step' (rangeTok x z w1 w2) (rangeCellsNb ctx.nb x z).length (gapsBytes g ++ text) text f recent num
      hstartR (skip_rangeHead ctx hctx x z hr w1 w2 _ hw1 hne hw2 hsep recent hinv) (checkSkip_gaps g text hstop)
      (by simp only [List.length_append]; omega)]
    rw [ih f _ _ (by simp at hf; omega) ⟨Prov.range ctx.nb x z w1 w2 hr hw1 hne hw2, hg, rfl⟩]
    simp only [allCells, List.map_cons, List.flatten_cons, List.length_append]
    congr 1
    push_cast
    omega

/-! ### the two entry points -/

/-- **`rtosc_count_printed_arg_vals`** on gaps, arguments and ranges, tail: the number of cells -/
theorem countPrintedArgVals_layR (lead : List Gap) {tcs : List (Bytes × List Cell)} {text : Bytes}
    (h : LayR .first tcs text) :
    C11.countPrintedArgVals (gapsBytes lead ++ text) = .ok ((allCells tcs).length : Int) := by
  have hstop : Stop text := by simpa using Stop.of_tokStart h.start []
  have hle := numComments_le_skipSpace lead text
  unfold C11.countPrintedArgVals
  show (do let s1 ← skipCommentLines ((skipSpace (gapsBytes lead ++ text)).length + 1) (skipSpace (gapsBytes lead ++ text))
           C11.countLoop (s1.length + 1) (some s1) none 0) = _
  rw [skipCommentLines_gaps lead text _ (by omega)]
  obtain ⟨f, hf⟩ : ∃ f, (skipSpace (gapsBytes lead ++ text)).length + 1 - numComments lead = f + 1 :=
    ⟨(skipSpace (gapsBytes lead ++ text)).length - numComments lead, by omega⟩
  rw [hf, skipCommentLines_stop f text hstop]
  simp only [bind, Except.bind]
  have := countLoop_layR h (text.length + 1) none 0 (by have := h.length_le; omega) rfl
  simpa using this

/-- **`rtosc_scan_arg_vals`** on the same text: the cells, and the whole text is consumed -/
theorem scanArgVals_layR (lead : List Gap) {tcs : List (Bytes × List Cell)} {text : Bytes}
    (h : LayR .first tcs text) :
    C11.scanArgVals (gapsBytes lead ++ text) (allCells tcs).length =
      .ok ((gapsBytes lead ++ text).length, allCells tcs) := by
  have hstop : Stop text := by simpa using Stop.of_tokStart h.start []
  unfold C11.scanArgVals
  rw [scanSkip_gaps lead text hstop]
  simp only [bind, Except.bind, List.drop_left]
  have := scanLoop_layR h ((allCells tcs).length + 1) (allCells tcs).length true [] (gapsBytes lead).length
    (by simp) (by have := h.length_le_cells; omega) ⟨tailOK_nil, rfl⟩
  simpa using this

end Rtosc.Pretty.C11
