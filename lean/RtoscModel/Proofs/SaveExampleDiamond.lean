/-
  C12 / C13 — a third concrete application for the non-vacuity examples of Props/C12.lean and
  Props/C13.lean: two mutually independent ports that share a dependant (the shape of the
  generated applications A6-A9: an `rDepends` list naming independent ports), and an array port
  whose per-element defaults are selected by a preset port (A9, A10).  It satisfies every
  hypothesis of the theorems (App.WF, MetaCovers, MetaRanked) and violates `App.AncChain`.
-/
import RtoscModel.Proofs.SaveExample
namespace Rtosc.Save.DiamondExample
open Rtosc.Save Rtosc.Save.Example

/-- A five-instance application:
      /p     rParamI, rDefault(0)                                              (a preset port)
      /q     rParamI, rDefault(0)
      /d     rParamI, rDefaultDepends(p) rPreset(1, 10) rDefault(3), rDepends(q)
      /a#2   rArrayI, rDefaultDepends(p) rPreset(1, [7 8]) rDefault([1 2])
    `/p` and `/q` are independent of each other and both re-apply the default of `/d`. -/
def dParams : List Param := [
  { addr := "/p".toList, kind := .int none none, dflt := .const (.int 0), guards := [], anc := [], canon := .int 0 },
  { addr := "/q".toList, kind := .int none none, dflt := .const (.int 0), guards := [], anc := [], canon := .int 0 },
  { addr := "/d".toList, kind := .int none none, dflt := .preset 0 [(1, .int 10)] (.int 3), guards := [], anc := [0, 1],
    canon := .int 3 },
  { addr := "/a0".toList, kind := .int none none, dflt := .preset 0 [(1, .int 7)] (.int 1), guards := [], anc := [0],
    canon := .int 1 },
  { addr := "/a1".toList, kind := .int none none, dflt := .preset 0 [(1, .int 8)] (.int 2), guards := [], anc := [0],
    canon := .int 2 } ]

def dKeys : List Path := ["/d".toList, "/a".toList, "/a0".toList, "/a1".toList]

def dApropos (p : Path) : Option DepMeta :=
  if p = "/d".toList then some ⟨none, some "q".toList, some "p".toList⟩
  else if p = "/a".toList ∨ p = "/a0".toList ∨ p = "/a1".toList then some ⟨none, none, some "p".toList⟩
  else none

def dApp : App :=
  { name := "diamond".toList, params := dParams,
    walk := [.scalar 0, .scalar 1, .scalar 2, .array "/a".toList 3 2], apropos := dApropos }

theorem d_size : dApp.size = 5 := rfl

theorem d_cases {i : Nat} (hi : i < dApp.size) : i = 0 ∨ i = 1 ∨ i = 2 ∨ i = 3 ∨ i = 4 := by
  rw [d_size] at hi; omega

/-- `/p` and `/q` are both ancestors of `/d` and neither is an ancestor of the other: the application is outside
    the chain condition the theorems used to need -/
theorem d_not_chain : ¬ dApp.AncChain := by
  intro h
  have := h 2 (by decide) 0 (by decide) 1 (by decide)
  revert this
  decide

theorem d_walk_array {base : Path} {first len : Nat} (h : Item.array base first len ∈ dApp.walk) :
    base = "/a".toList ∧ first = 3 ∧ len = 2 := by
  change _ ∈ [Item.scalar 0, Item.scalar 1, Item.scalar 2, Item.array "/a".toList 3 2] at h
  simp only [List.mem_cons, List.not_mem_nil, or_false, reduceCtorEq, false_or, Item.array.injEq] at h
  exact h

set_option maxRecDepth 4000 in
theorem d_wf : dApp.WF where
  addr_nodup := by decide
  anc_lt := by decide
  anc_closed := by decide
  guards_anc := by decide
  preset_anc := by
    intro i hi par tbl fb h
    rcases d_cases hi with rfl | rfl | rfl | rfl | rfl
    · cases h
    · cases h
    · cases h; decide
    · cases h; decide
    · cases h; decide
  kind_ok := by
    intro i hi
    rcases d_cases hi with rfl | rfl | rfl | rfl | rfl <;> exact trivial
  dflt_storable := by
    intro i hi
    rcases d_cases hi with rfl | rfl | rfl | rfl | rfl <;> (unfold Storable; decide)
  canon_ok := by
    intro i hi
    rcases d_cases hi with rfl | rfl | rfl | rfl | rfl <;> rfl
  walk_tiles := ⟨[.scalar 0, .scalar 1, .scalar 2, .array "/a".toList 3 2], List.Perm.refl _, by
    simp [Tiling, Item.lo, Item.hi, d_size]⟩
  item_addr_nodup := by decide
  array_ok := by
    intro base first len h
    obtain ⟨rfl, rfl, rfl⟩ := d_walk_array h
    refine ⟨by decide, ?_⟩
    intro k hk
    have : k = 0 ∨ k = 1 := by omega
    rcases this with rfl | rfl <;> refine ⟨by decide, by decide, by decide, by decide⟩

theorem d_refs_d : refsOf dApropos "/d".toList = ["/q".toList, "/p".toList] := by decide
theorem d_refs_a : refsOf dApropos "/a".toList = ["/p".toList] := by decide
theorem d_refs_a0 : refsOf dApropos "/a0".toList = ["/p".toList] := by decide
theorem d_refs_a1 : refsOf dApropos "/a1".toList = ["/p".toList] := by decide

theorem d_covers : dApp.MetaCovers := by
  constructor
  · intro d hd a ha
    rcases d_cases hd with rfl | rfl | rfl | rfl | rfl
    · cases ha
    · cases ha
    · change a ∈ ([0, 1] : List Nat) at ha
      left
      show (dApp.param a).addr ∈ refsOf dApropos "/d".toList
      rw [d_refs_d]
      simp only [List.mem_cons, List.not_mem_nil, or_false] at ha
      rcases ha with rfl | rfl <;> decide
    · change a ∈ ([0] : List Nat) at ha
      simp only [List.mem_cons, List.not_mem_nil, or_false] at ha
      subst ha
      left
      show "/p".toList ∈ refsOf dApropos "/a0".toList
      rw [d_refs_a0]; simp
    · change a ∈ ([0] : List Nat) at ha
      simp only [List.mem_cons, List.not_mem_nil, or_false] at ha
      subst ha
      left
      show "/p".toList ∈ refsOf dApropos "/a1".toList
      rw [d_refs_a1]; simp
  · intro base first len h a ha
    obtain ⟨rfl, rfl, rfl⟩ := d_walk_array h
    change a ∈ ([0] : List Nat) at ha
    simp only [List.mem_cons, List.not_mem_nil, or_false] at ha
    subst ha
    left
    show "/p".toList ∈ refsOf dApropos "/a".toList
    rw [d_refs_a]; simp

theorem d_apropos_slash (p : Path) : dApropos (p ++ ['/']) = none := by
  have h : ∀ k ∈ dKeys, p ++ ['/'] ≠ k := by
    intro k hk h
    have := congrArg List.reverse h
    simp [dKeys] at hk
    rcases hk with rfl | rfl | rfl | rfl <;> simp at this
  unfold dApropos
  rw [if_neg (h _ (by decide)), if_neg]
  rintro (h' | h' | h')
  · exact h _ (by decide) h'
  · exact h _ (by decide) h'
  · exact h _ (by decide) h'

theorem d_apropos_self (q : Path) : dApropos (q ++ selfName) = none := by
  have h : ∀ k ∈ dKeys, q ++ selfName ≠ k := by
    intro k hk h
    have := congrArg List.reverse h
    simp [dKeys] at hk
    rcases hk with rfl | rfl | rfl | rfl <;> simp [selfName] at this
  unfold dApropos
  rw [if_neg (h _ (by decide)), if_neg]
  rintro (h' | h' | h')
  · exact h _ (by decide) h'
  · exact h _ (by decide) h'
  · exact h _ (by decide) h'

theorem d_selfMeta (l : Path) : selfMeta dApropos l = none := by
  unfold selfMeta
  rw [d_apropos_self]

/-- a path that is no key of the metadata refers to nothing -/
theorem d_refs_other (X : Path) (h : dApropos X = none) : refsOf dApropos X = [] := by
  apply List.eq_nil_iff_forall_not_mem.mpr
  intro Y hY0
  have hY := (List.mem_filter.1 hY0).1
  clear hY0
  unfold rawRefs lvlArgs at hY
  cases hl : levels (X.length + 1) X with
  | nil => rw [hl] at hY; simp at hY
  | cons l r =>
    rw [hl] at hY
    have hlX := levels_head _ _ _ _ hl
    subst hlX
    simp only [List.flatMap_cons, List.mem_append, List.mem_flatMap, List.mem_map, refsAt, d_selfMeta,
      List.append_nil] at hY
    rcases hY with hY | ⟨la, ⟨p, _, rfl⟩, hY⟩
    · simp [h] at hY
    · simp only [d_apropos_slash] at hY
      simp at hY

def dRank (X : Path) : Nat := if X ∈ dKeys then 1 else 0

theorem d_ranked : MetaRanked dApropos := by
  refine ⟨dRank, ?_, ?_⟩
  · intro X Y hY
    cases hX : dApropos X with
    | none => rw [d_refs_other X hX] at hY; cases hY
    | some m =>
      have hk : X ∈ dKeys := by
        unfold dApropos at hX
        simp only [dKeys, List.mem_cons, List.not_mem_nil, or_false]
        split at hX
        · left; assumption
        · split at hX
          · right; assumption
          · cases hX
      simp only [dKeys, List.mem_cons, List.not_mem_nil, or_false] at hk
      rcases hk with rfl | rfl | rfl | rfl
      · rw [d_refs_d] at hY; simp at hY; rcases hY with rfl | rfl <;> decide
      · rw [d_refs_a] at hY; simp at hY; subst hY; decide
      · rw [d_refs_a0] at hY; simp at hY; subst hY; decide
      · rw [d_refs_a1] at hY; simp at hY; subst hY; decide
  · intro X
    unfold dRank scanFuel
    split <;> omega

/-- `/p := 1` selects the presets (`/d` 10, `/a` [7 8]); `/d := 6`; `/q := 5` re-applies `/d`'s default (10);
    `/d := 4`; `/a1 := 9` -/
def dState : State :=
  dApp.run [("/p".toList, [.int 1]), ("/d".toList, [.int 6]), ("/q".toList, [.int 5]), ("/d".toList, [.int 4]),
    ("/a1".toList, [.int 9])] dApp.init

/-- a file with a line for every port: the shared dependant first, the array line before the preset port -/
def dFile : List Line :=
  [⟨"/d".toList, .plain [.int 4]⟩, ⟨"/a".toList, .arr [.int 7, .int 9]⟩, ⟨"/q".toList, .plain [.int 5]⟩,
   ⟨"/p".toList, .plain [.int 1]⟩]

theorem dFile_ok : dApp.FileOK dFile where
  addr_nodup := by decide
  line_ok := by
    intro l hl
    simp [dFile] at hl
    rcases hl with rfl | rfl | rfl | rfl
    · trivial
    · exact ⟨3, 2, List.mem_cons_of_mem _ (List.mem_cons_of_mem _ (List.mem_cons_of_mem _ List.mem_cons_self)), by decide⟩
    · trivial
    · trivial
  disjoint := by decide

end Rtosc.Save.DiamondExample
