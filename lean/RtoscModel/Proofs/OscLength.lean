/-
  C01 helper lemmas about `rtosc_message_ring_length` run on a ring that holds
  `Spec.encode m ++ rest`.  Property theorems are in Props/C01.lean.
-/
import RtoscModel.Proofs.OscRead
namespace Rtosc.Osc
open Rtosc

theorem deref_eq (r : Ring) (pos : Nat) : r.deref pos = (r.d0 ++ r.d1)[pos]?.getD 0 := by
  unfold Ring.deref
  split
  · next h => simp [List.getElem?_append_left h, List.getElem?_eq_getElem h]
  · next h =>
    have h' : r.d0.length ≤ pos := Nat.le_of_not_lt h
    split
    · next h2 => simp [List.getElem?_append_right h', List.getElem?_eq_getElem h2]
    · next h2 =>
      have : (r.d0 ++ r.d1)[pos]? = none := by
        apply List.getElem?_eq_none; simp only [List.length_append]; omega
      simp [this]

theorem deref_of_drop {r : Ring} {msg : Bytes} {p : Nat} {c : UInt8} {x : Bytes}
    (h : r.d0 ++ r.d1 = msg) (hd : msg.drop p = c :: x) : r.deref p = c := by
  rw [deref_eq, h, getElem?_of_drop hd]; rfl

theorem scanNul_of_drop {r : Ring} {msg : Bytes} (h : r.d0 ++ r.d1 = msg) (s : Bytes) :
    ∀ (p fuel : Nat) (x : Bytes), msg.drop p = s ++ 0 :: x → NoNul s → s.length < fuel →
      p + s.length < 4294967296 → scanNul r fuel p = some (p + s.length) := by
  induction s with
  | nil =>
    intro p fuel x hd _ hf _
    obtain ⟨f, rfl⟩ : ∃ f, fuel = f + 1 := ⟨fuel - 1, by simp at hf; omega⟩
    simp [scanNul, deref_of_drop h (by simpa using hd)]
  | cons c s ih =>
    intro p fuel x hd hs hf hlt
    obtain ⟨f, rfl⟩ : ∃ f, fuel = f + 1 := ⟨fuel - 1, by simp at hf; omega⟩
    simp only [List.length_cons] at hf hlt
    have hd' : msg.drop (p + 1) = s ++ 0 :: x := by
      have := drop_add_of_drop (x := [c]) (y := s ++ 0 :: x) (by simpa using hd)
      simpa using this
    simp only [scanNul, deref_of_drop h (by simpa using hd), hs.head, if_false]
    rw [u32_id (by omega), ih (p + 1) f x hd' hs.tail (by omega) (by omega)]
    simp only [List.length_cons]; congr 1; omega

theorem nullWord_of_drop {r : Ring} {msg : Bytes} (h : r.d0 ++ r.d1 = msg) (j : Nat) :
    ∀ (k p : Nat) (c : UInt8) (x : Bytes), msg.drop (p + 1) = zeros j ++ c :: x → c ≠ 0 → j < k →
      p + 1 + j < 4294967296 → nullWord r k p = p + 1 + j := by
  induction j with
  | zero =>
    intro k p c x hd hc hk hlt
    obtain ⟨k', rfl⟩ : ∃ k', k = k' + 1 := ⟨k - 1, by omega⟩
    simp only [nullWord]
    rw [u32_id (by omega), deref_of_drop h (by simpa [zeros] using hd)]
    simp [hc]
  | succ j ih =>
    intro k p c x hd hc hk hlt
    obtain ⟨k', rfl⟩ : ∃ k', k = k' + 1 := ⟨k - 1, by omega⟩
    have hd0 : msg.drop (p + 1) = 0 :: (zeros j ++ c :: x) := by rw [hd, zeros_succ]; simp
    have hd' : msg.drop (p + 1 + 1) = zeros j ++ c :: x := by
      have := drop_add_of_drop (x := [0]) (y := zeros j ++ c :: x) (by simpa using hd0)
      simpa using this
    simp only [nullWord]
    rw [u32_id (by omega), deref_of_drop h hd0]
    simp only [ne_eq, not_true_eq_false, if_false]
    rw [ih k' (p + 1) c x hd' hc (by omega) (by omega)]; omega

theorem tagsFrom_of_drop {r : Ring} {msg : Bytes} (h : r.d0 ++ r.d1 = msg) (s : Bytes) :
    ∀ (p fuel : Nat) (x : Bytes), msg.drop p = s ++ 0 :: x → NoNul s → s.length < fuel →
      p + s.length < 4294967296 → tagsFrom r fuel p = some s := by
  induction s with
  | nil =>
    intro p fuel x hd _ hf _
    obtain ⟨f, rfl⟩ : ∃ f, fuel = f + 1 := ⟨fuel - 1, by simp at hf; omega⟩
    simp [tagsFrom, deref_of_drop h (by simpa using hd)]
  | cons c s ih =>
    intro p fuel x hd hs hf hlt
    obtain ⟨f, rfl⟩ : ∃ f, fuel = f + 1 := ⟨fuel - 1, by simp at hf; omega⟩
    simp only [List.length_cons] at hf hlt
    have hd' : msg.drop (p + 1) = s ++ 0 :: x := by
      have := drop_add_of_drop (x := [c]) (y := s ++ 0 :: x) (by simpa using hd)
      simpa using this
    simp only [tagsFrom, deref_of_drop h (by simpa using hd), hs.head, if_false]
    rw [u32_id (by omega), ih (p + 1) f x hd' hs.tail (by omega) (by omega)]
    simp

theorem ring_rd32_of_drop {r : Ring} {msg : Bytes} (h : r.d0 ++ r.d1 = msg) {p : Nat} {v : UInt32}
    {x : Bytes} (hd : msg.drop p = be32 v ++ x) (hlt : p + 3 < 4294967296) : r.rd32 p = v := by
  obtain ⟨b0, b1, b2, b3, hb, hg⟩ := get32_be32 v
  rw [hb] at hd
  have d1 : msg.drop (p + 1) = b1 :: b2 :: b3 :: x := by
    have := drop_add_of_drop (x := [b0]) (y := b1 :: b2 :: b3 :: x) (by simpa using hd); simpa using this
  have d2 : msg.drop (p + 2) = b2 :: b3 :: x := by
    have := drop_add_of_drop (x := [b0, b1]) (y := b2 :: b3 :: x) (by simpa using hd); simpa using this
  have d3 : msg.drop (p + 3) = b3 :: x := by
    have := drop_add_of_drop (x := [b0, b1, b2]) (y := b3 :: x) (by simpa using hd); simpa using this
  simp only [Ring.rd32]
  rw [u32_id (n := p + 1) (by omega), u32_id (n := p + 2) (by omega), u32_id (n := p + 3) (by omega),
    deref_of_drop h (by simpa using hd), deref_of_drop h d1, deref_of_drop h d2, deref_of_drop h d3, hg]

theorem usub_eq {a b : Nat} (hb : b ≤ a) (ha : a < 4294967296) : usub a b = a - b := by
  unfold usub
  have : b % 4294967296 = b := by omega
  rw [this]; omega


theorem lenLoop_zero (r : Ring) (al : Nat) (ts : Bytes) (pos : Nat) :
    lenLoop r al 0 ts pos = some (if pos ≤ r.total then pos else 0) := by simp [lenLoop]

theorem lenLoop_spec {r : Ring} {msg : Bytes} (h : r.d0 ++ r.d1 = msg) (al : Nat) (tags : Bytes) :
    ∀ (args : List Arg) (pos : Nat) (R : Bytes),
    Matches tags args → (∀ a ∈ args, a.WF) → msg.drop pos = args.flatMap encArg ++ R →
    al % 4 = 0 → al ≤ pos → pos % 4 = 0 → pos + (args.flatMap encArg).length < 4294967296 →
    pos + (args.flatMap encArg).length ≤ r.total →
    lenLoop r al (nreserved tags) tags pos = some (pos + (args.flatMap encArg).length) := by
  induction tags with
  | nil =>
    intro args pos R hm _ _ _ _ _ _ hfu
    rw [matches_nil hm] at hfu ⊢
    simp only [List.flatMap_nil, List.length_nil, Nat.add_zero] at hfu ⊢
    simp [nreserved, lenLoop, hfu]
  | cons t ts ih =>
    intro args pos R hm hwf hd hal hle hp hlt hfu
    have hfuel : r.fuel = r.total + 2 := rfl
    rcases kind_cases t with ⟨hk, hr, ht⟩ | ⟨hk, hr, ht⟩ | ⟨hk, hr, ht⟩ | ⟨hk, hr, ht⟩ | ⟨hk, hr, ht⟩ |
      ⟨hk, hr, h1, h2, h3, h4, h5, h6, h7, h8, h9, h10, h11⟩
    · obtain ⟨a, as, rfl, hak, hm'⟩ := matches_take hk hm
      obtain ⟨v, rfl⟩ := kind_w32_inv hak
      have hwf' : ∀ a ∈ as, a.WF := fun a ha => hwf a (List.mem_cons_of_mem _ ha)
      simp only [List.flatMap_cons, List.append_assoc, List.length_append] at hd hlt hfu ⊢
      have hd' := drop_add_of_drop hd
      simp only [encArg, be32_length] at hd' hlt hfu ⊢
      rw [nreserved_cons_true hr]
      have hin : ¬ pos > r.total := by omega
      have step : lenLoop r al (nreserved ts + 1) (t :: ts) pos =
          lenLoop r al (nreserved ts) ts (u32 (pos + 4)) := by
        rcases ht with rfl | rfl | rfl | rfl <;> simp [lenLoop, hin]
      rw [step, u32_id (by omega), ih as (pos + 4) R hm' hwf' hd' hal (by omega) (by omega) (by omega)
        (by omega)]
      congr 1; omega
    · obtain ⟨a, as, rfl, hak, hm'⟩ := matches_take hk hm
      obtain ⟨v, rfl⟩ := kind_w64_inv hak
      have hwf' : ∀ a ∈ as, a.WF := fun a ha => hwf a (List.mem_cons_of_mem _ ha)
      simp only [List.flatMap_cons, List.append_assoc, List.length_append] at hd hlt hfu ⊢
      have hd' := drop_add_of_drop hd
      simp only [encArg, be64_length] at hd' hlt hfu ⊢
      rw [nreserved_cons_true hr]
      have hin : ¬ pos > r.total := by omega
      have step : lenLoop r al (nreserved ts + 1) (t :: ts) pos =
          lenLoop r al (nreserved ts) ts (u32 (pos + 8)) := by
        rcases ht with rfl | rfl | rfl <;> simp [lenLoop, hin]
      rw [step, u32_id (by omega), ih as (pos + 8) R hm' hwf' hd' hal (by omega) (by omega) (by omega)
        (by omega)]
      congr 1; omega
    · obtain ⟨a, as, rfl, hak, hm'⟩ := matches_take hk hm
      obtain ⟨x, y, z, w, rfl⟩ := kind_midi_inv hak
      have hwf' : ∀ a ∈ as, a.WF := fun a ha => hwf a (List.mem_cons_of_mem _ ha)
      simp only [List.flatMap_cons, List.append_assoc, List.length_append] at hd hlt hfu ⊢
      have hd' := drop_add_of_drop hd
      simp only [encArg, List.length_cons, List.length_nil] at hd' hlt hfu ⊢
      rw [nreserved_cons_true hr]
      have hin : ¬ pos > r.total := by omega
      have step : lenLoop r al (nreserved ts + 1) (t :: ts) pos =
          lenLoop r al (nreserved ts) ts (u32 (pos + 4)) := by
        subst ht; simp [lenLoop, hin]
      rw [step, u32_id (by omega), ih as (pos + 4) R hm' hwf' hd' hal (by omega) (by omega) (by omega)
        (by omega)]
      congr 1; omega
    · -- str
      obtain ⟨a, as, rfl, hak, hm'⟩ := matches_take hk hm
      obtain ⟨s, rfl⟩ := kind_str_inv hak
      have hwf' : ∀ a ∈ as, a.WF := fun a ha => hwf a (List.mem_cons_of_mem _ ha)
      have hs : NoNul s := hwf (.str s) List.mem_cons_self
      simp only [List.flatMap_cons, List.append_assoc, List.length_append] at hd hlt hfu ⊢
      have hd' := drop_add_of_drop hd
      simp only [encArg, padStr_length] at hd' hlt hfu ⊢
      rw [nreserved_cons_true hr]
      have hin : ¬ pos > r.total := by omega
      have hd0 : msg.drop pos = s ++ 0 :: (zeros (3 - s.length % 4) ++ (as.flatMap encArg ++ R)) := by
        rw [hd, encArg, padStr_eq]; simp
      have hq1 : scanNul r r.fuel pos = some (pos + s.length) :=
        scanNul_of_drop h s pos r.fuel _ hd0 hs (by omega) (by omega)
      have step : lenLoop r al (nreserved ts + 1) (t :: ts) pos =
          lenLoop r al (nreserved ts) ts
            (u32 (pos + s.length + (4 - usub (pos + s.length) al % 4))) := by
        rcases ht with rfl | rfl <;> simp [lenLoop, hq1, hin]
      have hq4 : pos + s.length + (4 - (pos + s.length - al) % 4) =
          pos + (s.length + (4 - s.length % 4)) := by omega
      rw [step, usub_eq (by omega) (by omega), hq4, u32_id (by omega),
        ih as _ R hm' hwf' hd' hal (by omega) (by omega) (by omega) (by omega)]
      congr 1; omega
    · -- blob
      obtain ⟨a, as, rfl, hak, hm'⟩ := matches_take hk hm
      obtain ⟨d, rfl⟩ := kind_blob_inv hak
      have hwf' : ∀ a ∈ as, a.WF := fun a ha => hwf a (List.mem_cons_of_mem _ ha)
      have hb : d.length < 2147483648 := hwf (.blob d) List.mem_cons_self
      simp only [List.flatMap_cons, List.append_assoc, List.length_append] at hd hlt hfu ⊢
      have hd' := drop_add_of_drop hd
      have hl : (UInt32.ofNat d.length).toNat = d.length := by simp; omega
      have hrd : r.rd32 pos = UInt32.ofNat d.length := by
        apply ring_rd32_of_drop h (x := d ++ (zeros (pad4 d.length) ++ (as.flatMap encArg ++ R))) _
          (by simp only [encArg, List.length_append, be32_length] at hlt; omega)
        rw [hd]; simp [encArg]
      simp only [encArg, List.length_append, be32_length, zeros_length, pad4] at hd' hlt hfu ⊢
      rw [nreserved_cons_true hr]; subst ht
      have hin : ¬ pos > r.total := by omega
      have hfit : ¬ (pos + 4 > r.total ∨ d.length > r.total - (pos + 4)) := by omega
      simp only [lenLoop, hin, show ¬ ((98 : UInt8) = 104 ∨ (98 : UInt8) = 116 ∨ (98 : UInt8) = 100) by decide,
        show ¬ ((98 : UInt8) = 109 ∨ (98 : UInt8) = 114 ∨ (98 : UInt8) = 99 ∨ (98 : UInt8) = 102 ∨ (98 : UInt8) = 105) by decide,
        show ¬ ((98 : UInt8) = 83 ∨ (98 : UInt8) = 115) by decide, if_false, if_true, hrd, hl]
      rw [u32_id (n := pos + 4) (by omega), if_neg hfit, u32_id (n := pos + 4 + d.length) (by omega),
        usub_eq (by omega) (by omega)]
      have hfin : (if (pos + 4 + d.length - al) % 4 ≠ 0 then
            u32 (pos + 4 + d.length + (4 - (pos + 4 + d.length - al) % 4)) else pos + 4 + d.length) =
          pos + (4 + d.length + (4 - d.length % 4) % 4) := by
        split
        · rw [u32_id (by omega)]; omega
        · omega
      rw [hfin, ih as _ R hm' hwf' hd' hal (by omega) (by omega) (by omega) (by omega)]
      congr 1; omega
    · rw [nreserved_cons_false hr]
      have hm' := (matches_skip hk).mp hm
      have := ih args pos R hm' hwf hd hal hle hp hlt hfu
      have hin : ¬ pos > r.total := by omega
      cases hn : nreserved ts with
      | zero =>
        rw [hn, lenLoop_zero] at this
        rw [lenLoop_zero]; exact this
      | succ n =>
        rw [hn] at this
        simp only [lenLoop, hin, h1, h2, h3, h4, h5, h6, h7, h8, h9, h10, h11, or_self, if_false]
        exact this

/-- the address `"#bundle"`: the only address whose encoding starts with the 8 bytes
    `"#bundle\0"` that `rtosc_message_ring_length` takes for the start of a bundle -/
def bundleAddr : Bytes := [35, 98, 117, 110, 100, 108, 101]

/-- two NUL-free strings followed by a NUL and anything: equal memory, equal strings -/
theorem nonul_prefix_eq : ∀ (s t x y : Bytes), NoNul s → NoNul t → s ++ 0 :: x = t ++ 0 :: y → s = t := by
  intro s
  induction s with
  | nil =>
    intro t x y _ ht h
    cases t with
    | nil => rfl
    | cons c t =>
      simp only [List.nil_append, List.cons_append, List.cons.injEq] at h
      exact absurd h.1.symm (ht c List.mem_cons_self)
  | cons c s ih =>
    intro t x y hs ht h
    cases t with
    | nil =>
      simp only [List.nil_append, List.cons_append, List.cons.injEq] at h
      exact absurd h.1 (hs c List.mem_cons_self)
    | cons d t =>
      simp only [List.cons_append, List.cons.injEq] at h
      rw [h.1, ih t x y (fun z hz => hs z (List.mem_cons_of_mem _ hz))
        (fun z hz => ht z (List.mem_cons_of_mem _ hz)) h.2]

theorem map_deref_take (r : Ring) (n : Nat) (hn : n ≤ (r.d0 ++ r.d1).length) :
    (List.range n).map r.deref = (r.d0 ++ r.d1).take n := by
  apply List.ext_getElem
  · simp only [List.length_map, List.length_range, List.length_take]; omega
  · intro i h1 h2
    simp only [List.length_map, List.length_range] at h1
    have hi : i < (r.d0 ++ r.d1).length := by omega
    simp only [List.getElem_map, List.getElem_range, List.getElem_take, deref_eq,
      List.getElem?_eq_getElem hi, Option.getD_some]

/-- the bundle test of `rtosc_message_ring_length` fails on every encoded message whose
    address is not exactly `"#bundle"` -/
theorem not_magic_of_encode (m : Msg) (rest : Bytes) (r : Ring) (hwf : m.WF)
    (hnb : m.addr ≠ bundleAddr) (h : r.d0 ++ r.d1 = Spec.encode m ++ rest) :
    ¬ ((List.range 8).map r.deref = bundleMagic) := by
  intro hx
  have hlen := encode_length m
  have h8 : 8 ≤ (r.d0 ++ r.d1).length := by
    rw [h, List.length_append]
    have := padStr_length m.addr
    have := padStr_length (44 :: m.tags)
    simp only [List.length_cons] at *
    omega
  rw [map_deref_take r 8 h8, h] at hx
  have hsplit : Spec.encode m ++ rest = bundleAddr ++ 0 :: (Spec.encode m ++ rest).drop 8 := by
    conv => lhs; rw [← List.take_append_drop 8 (Spec.encode m ++ rest), hx]
    rfl
  rw [encode_layout m rest] at hsplit
  exact hnb (nonul_prefix_eq _ _ _ _ hwf.addr_nonul (by decide) hsplit)

/-- an address that does not start with '#' is not `"#bundle"` -/
theorem ne_bundleAddr_of_head {a : Bytes} (h : a.head? ≠ some 35) : a ≠ bundleAddr := by
  intro e; rw [e] at h; exact h rfl

theorem ringLength_spec' (m : Msg) (rest : Bytes) (r : Ring) (hwf : m.WF)
    (hnb : m.addr ≠ bundleAddr) (h : r.d0 ++ r.d1 = Spec.encode m ++ rest) :
    ringLength r = some (Spec.encode m).length := by
  have hsz : (Spec.encode m).length < 4294967296 := hwf.size
  have hlen := encode_length m
  have htot : r.total = (Spec.encode m).length + rest.length := by
    have := congrArg List.length h
    simpa [Ring.total] using this
  have hfuel : r.fuel = (Spec.encode m).length + rest.length + 2 := by simp [Ring.fuel, htot]
  have hl := encode_layout m rest
  have hmagic := not_magic_of_encode m rest r hwf hnb h
  unfold ringLength
  rw [if_neg hmagic]
  -- the address
  have hA : Aoff m = m.addr.length + (4 - m.addr.length % 4) := padStr_length m.addr
  have hB : Boff m = m.tags.length + 1 + (4 - (m.tags.length + 1) % 4) := by
    simp [Boff, padStr_length]
  have haddr : NoNul m.addr := hwf.addr_nonul
  have hs1 : scanNul r r.fuel 0 = some (0 + m.addr.length) := by
    exact scanNul_of_drop h m.addr 0 r.fuel _ (by rw [List.drop_zero, hl]) haddr (by omega) (by omega)
  rw [hs1]
  simp only [Nat.zero_add]
  have hd1 : (Spec.encode m ++ rest).drop (m.addr.length + 1) =
      zeros (3 - m.addr.length % 4) ++ 44 :: (m.tags ++ 0 ::
        (zeros (3 - (m.tags.length + 1) % 4) ++ (m.args.flatMap encArg ++ rest))) := by
    have hx : (Spec.encode m ++ rest).drop 0 = (m.addr ++ [0]) ++ (zeros (3 - m.addr.length % 4) ++ 44 ::
        (m.tags ++ 0 :: (zeros (3 - (m.tags.length + 1) % 4) ++ (m.args.flatMap encArg ++ rest)))) := by
      rw [List.drop_zero, hl]; simp
    have := drop_add_of_drop hx; simpa using this
  have hnw : nullWord r 4 m.addr.length = Aoff m := by
    rw [nullWord_of_drop h (3 - m.addr.length % 4) 4 m.addr.length 44 _ hd1 (by decide) (by omega) (by omega)]
    omega
  rw [hnw]
  have hcomma := drop_comma m rest
  rw [deref_of_drop h hcomma]
  simp only [ne_eq, not_true_eq_false, if_false]
  -- the type tags
  have htags : NoNul m.tags := fun x hx => (isTag_ne_zero x (hwf.tags_ok x hx)).1
  have hdt := drop_tags m rest
  rw [u32_id (n := Aoff m + 1) (by omega)]
  rw [scanNul_of_drop h m.tags (Aoff m + 1) r.fuel _ hdt htags (by omega) (by omega)]
  simp only
  rw [usub_eq (by omega) (by omega)]
  have hpos : u32 (Aoff m + 1 + m.tags.length + (4 - (Aoff m + 1 + m.tags.length - Aoff m) % 4)) =
      Aoff m + Boff m := by rw [u32_id (by omega)]; omega
  rw [hpos, tagsFrom_of_drop h m.tags (Aoff m + 1) r.fuel _ hdt htags (by omega) (by omega)]
  simp only
  rw [lenLoop_spec h (Aoff m) m.tags m.args (Aoff m + Boff m) rest hwf.matches_ hwf.args_ok (drop_vals m rest)
    (by omega) (by omega) (by omega) (by omega) (by omega)]
  congr 1; omega

/-- the older form (address does not start with '#'); kept for its users -/
theorem ringLength_spec (m : Msg) (rest : Bytes) (r : Ring) (hwf : m.WF)
    (hnb : m.addr.head? ≠ some 35) (h : r.d0 ++ r.d1 = Spec.encode m ++ rest) :
    ringLength r = some (Spec.encode m).length :=
  ringLength_spec' m rest r hwf (ne_bundleAddr_of_head hnb) h
end Rtosc.Osc
