/-
  C14 — the bridge between the restricted matcher of RtoscModel/Param/Port.lean (what the
  `param` engine runs for one port) and C05's matcher as C04's `Ports::dispatch` model uses
  it (`Ports.matchB` on structured names): on the names the parameter macros generate,
  `name:t1:t2…` and `name#N:t1:t2…`, the two agree.
-/
import RtoscModel.Proofs.ParamWalk
import RtoscModel.Proofs.ParamDeliveryArr
namespace Rtosc.Param
open Rtosc Rtosc.Match

/-- `rtosc_match_args` of Param/Port.lean on a rendered list of type alternatives is C05's `typesCode` -/
theorem matchArgs_typesCode : ∀ (ts : List Bytes) (tags : Bytes) (fuel : Nat),
    ts ≠ [] → (∀ t ∈ ts, ∀ c ∈ t, c ≠ 58) → ts.length ≤ fuel →
    matchArgs fuel (renderTypeAlts ts) tags = typesCode ts tags := by
  intro ts
  induction ts with
  | nil => intro _ _ h; exact absurd rfl h
  | cons a r ih =>
    intro tags fuel _ hch hf
    cases fuel with
    | zero => simp at hf
    | succ f =>
      have ha : ∀ c ∈ a, c ≠ 58 := hch a (List.mem_cons_self)
      have htw : ∀ (x : Bytes), (a ++ x).takeWhile (· ≠ 58) = a ++ x.takeWhile (· ≠ 58) := by
        intro x
        rw [List.takeWhile_append_of_pos (by intro c hc; simpa using ha c hc)]
      have hdw : ∀ (x : Bytes), (a ++ x).dropWhile (· ≠ 58) = x.dropWhile (· ≠ 58) := by
        intro x
        rw [List.dropWhile_append_of_pos (by intro c hc; simpa using ha c hc)]
      cases r with
      | nil =>
        simp only [renderTypeAlts, List.append_nil, matchArgs, typesCode]
        have h1 := htw []; have h2 := hdw []
        simp only [List.append_nil, List.takeWhile_nil, List.dropWhile_nil] at h1 h2
        rw [h1, h2]
        by_cases hae : a = []
        · subst hae; cases tags <;> simp
        · have : a.isEmpty = false := by cases a <;> simp_all
          simp only [this, Bool.not_false, Bool.true_or, Bool.true_and, hae, ↓reduceIte]
          rw [Bool.eq_iff_iff]
          simp only [beq_iff_eq, List.isPrefixOf_iff_prefix]
          constructor
          · intro h; rw [h]; exact List.take_prefix _ _
          · intro h; exact (List.prefix_iff_eq_take.mp h)
      | cons b r' =>
        have hr : ∀ t ∈ b :: r', ∀ c ∈ t, c ≠ 58 := fun t ht => hch t (List.mem_cons_of_mem _ ht)
        have ih' := ih tags f (by simp) hr (by simp at hf ⊢; omega)
        have hren : renderTypeAlts (a :: b :: r') = 58 :: (a ++ 58 :: (b ++ renderTypeAlts r')) := by
          simp [renderTypeAlts]
        have hren' : renderTypeAlts (b :: r') = 58 :: (b ++ renderTypeAlts r') := by
          simp [renderTypeAlts]
        rw [hren, matchArgs, htw, hdw]
        have e1 : ∀ X : Bytes, List.takeWhile (fun x => decide (x ≠ 58)) ((58 : UInt8) :: X) = [] := by
          intro X; simp
        have e2 : ∀ X : Bytes, List.dropWhile (fun x => decide (x ≠ 58)) ((58 : UInt8) :: X) = 58 :: X := by
          intro X; simp
        have hne : (a ++ 58 :: (b ++ renderTypeAlts r')).isEmpty = false := by cases a <;> simp
        simp only [e1, e2, List.append_nil, hne, Bool.not_false, Bool.true_or, Bool.true_and]
        rw [← hren', ih', typesCode]
        by_cases hat : a = tags
        · subst hat; simp
        · have : ((a == List.take a.length tags) && (List.drop a.length tags).isEmpty) = false := by
            rw [Bool.eq_false_iff]
            intro h
            simp only [Bool.and_eq_true, beq_iff_eq, List.isEmpty_iff] at h
            apply hat
            have := List.take_append_drop a.length tags
            rw [h.2, List.append_nil] at this
            rw [← this]; exact h.1
          simp [this, hat]

/-- the structured name (C05 `Pat`) of a scalar macro port: `name:t1:t2…` -/
def scalarPat (name : Bytes) (ts : List Bytes) : Pat := ⟨[.lit name], false, some ts⟩
/-- the structured name of an array macro port: `name#N:t1:t2…` -/
def arrayPat (name nd : Bytes) (ts : List Bytes) : Pat := ⟨[.lit name, .enum nd], false, some ts⟩

/-- the type specification behind the first ':' -/
def specOf : List Bytes → Bytes
  | [] => []
  | t :: r => t ++ renderTypeAlts r

theorem renderTypeAlts_spec (ts : List Bytes) (h : ts ≠ []) : renderTypeAlts ts = 58 :: specOf ts := by
  cases ts with
  | nil => exact absurd rfl h
  | cons t r => simp [renderTypeAlts, specOf]

theorem scalarPat_render (name : Bytes) (ts : List Bytes) (h : ts ≠ []) :
    (scalarPat name ts).render = name ++ 58 :: specOf ts := by
  simp [scalarPat, Pat.render, renderSegs, Seg.render, Pat.tail, renderTypes, renderTypeAlts_spec ts h]

theorem arrayPat_render (name nd : Bytes) (ts : List Bytes) (h : ts ≠ []) :
    (arrayPat name nd ts).render = arrPattern name nd (specOf ts) := by
  simp [arrayPat, arrPattern, Pat.render, renderSegs, Seg.render, Pat.tail, renderTypes, renderTypeAlts_spec ts h]

theorem specLen (ts : List Bytes) : ts.length ≤ (renderTypeAlts ts).length := by
  induction ts with
  | nil => simp
  | cons t r ih => simp [renderTypeAlts]; omega

theorem isDigit_eq (c : UInt8) : Match.isDigit c = Param.isDigit c := rfl
theorem decVal_eq (ds : Bytes) : Match.decVal ds = digitsVal ds := rfl

/-- the type part: `matchArgs` with the fuel `portMatches` gives it -/
theorem matchArgs_spec (ts : List Bytes) (tags : Bytes) (h : ts ≠ []) (hch : ∀ t ∈ ts, ∀ c ∈ t, c ≠ 58) :
    matchArgs ((58 :: specOf ts).length + 2) (58 :: specOf ts) tags = typesCode ts tags := by
  rw [← renderTypeAlts_spec ts h]
  exact matchArgs_typesCode ts tags _ h hch (by have := specLen ts; omega)

/-- **the restricted matcher of Param/Port.lean is C05's matcher on a scalar macro name** -/
theorem matchB_scalar (name : Bytes) (ts : List Bytes) (path tags : Bytes) (hn : PlainName name)
    (h : ts ≠ []) (hch : ∀ t ∈ ts, ∀ c ∈ t, c ≠ 58) :
    portMatches (scalarPat name ts).render path tags = .ok (Ports.matchB (scalarPat name ts) path tags).isSome ∧
    ∀ t', Ports.matchB (scalarPat name ts) path tags = some t' → path = name := by
  rw [scalarPat_render name ts h, portMatches_scalar name _ path tags hn, matchArgs_spec ts tags h hch]
  simp only [Ports.matchB, scalarPat, greedy]
  by_cases hp : path = name
  · subst hp
    simp
    cases typesCode ts tags <;> simp
  · have : ¬ (name.isPrefixOf path = true ∧ path.drop name.length = []) := by
      rintro ⟨h1, h2⟩
      obtain ⟨t, rfl⟩ := List.isPrefixOf_iff_prefix.mp h1
      simp at h2
      subst h2
      simp at hp
    by_cases h1 : name.isPrefixOf path = true
    · have h2 : path.drop name.length ≠ [] := fun h2 => this ⟨h1, h2⟩
      simp [h1, h2, hp]
    · simp [h1, hp]


/-- **… and on an array macro name**: what C05's matcher accepts is `name<digits>` with an
    index below `N`, and the restricted matcher accepts it too -/
theorem matchB_array (name nd : Bytes) (ts : List Bytes) (path tags t' : Bytes) (hn : PlainName name)
    (hnd : AllDigits nd) (hnne : nd ≠ []) (hnv : digitsVal nd ≤ 2147483647)
    (h : ts ≠ []) (hch : ∀ t ∈ ts, ∀ c ∈ t, c ≠ 58)
    (hm : Ports.matchB (arrayPat name nd ts) path tags = some t') :
    portMatches (arrayPat name nd ts).render path tags = .ok true ∧
    ∃ ds, path = name ++ ds ∧ ds ≠ [] ∧ AllDigits ds ∧ digitsVal ds < digitsVal nd := by
  simp only [Ports.matchB, arrayPat, greedy] at hm
  split at hm
  · cases hm
  · rename_i t hg
    have hty : typesCode ts tags = true := by
      by_cases hc : typesCode ts tags = true
      · exact hc
      · simp [hc] at hm
    split at hg
    · rename_i hpre
      obtain ⟨r, rfl⟩ := List.isPrefixOf_iff_prefix.mp hpre
      simp only [List.drop_left'] at hg
      split at hg
      · rename_i hdig
        split at hg
        · rename_i hdw
          have hr : r = r.takeWhile Match.isDigit := by
            have := List.takeWhile_append_dropWhile (p := Match.isDigit) (l := r)
            rw [hdw, List.append_nil] at this
            exact this.symm
          have hds : AllDigits r := by
            intro c hc
            rw [hr] at hc
            exact mem_takeWhile_sat _ _ _ hc
          rw [← hr] at hdig
          have hlt : digitsVal r < digitsVal nd := hdig.2
          refine ⟨?_, r, rfl, hdig.1, hds, hlt⟩
          rw [arrayPat_render name nd ts h,
            portMatches_array name nd _ r tags hn hnd hnne hnv hds hdig.1 (by omega),
            matchArgs_spec ts tags h hch, hty]
          simp [hlt]
        · cases hg
      · cases hg
    · cases hg

theorem matchB_array_conv (name nd : Bytes) (ts : List Bytes) (path tags : Bytes) (hn : PlainName name)
    (hnd : AllDigits nd) (hnne : nd ≠ []) (hnv : digitsVal nd ≤ 2147483647)
    (h : ts ≠ []) (hch : ∀ t ∈ ts, ∀ c ∈ t, c ≠ 58)
    (hm : portMatches (arrayPat name nd ts).render path tags = .ok true) :
    Ports.matchB (arrayPat name nd ts) path tags = some [] := by
  rw [arrayPat_render name nd ts h] at hm
  obtain ⟨ds, rfl, hdne, hds, hlt⟩ := portMatches_array_only name nd _ path tags hn hnd hnne hnv hm
  rw [portMatches_array name nd _ ds tags hn hnd hnne hnv hds hdne (by omega), matchArgs_spec ts tags h hch] at hm
  simp only [hlt, decide_true, Bool.true_and, Except.ok.injEq] at hm
  have htw : ds.takeWhile Match.isDigit = ds := Ports.takeWhile_self _ ds hds
  have hdw : ds.dropWhile Match.isDigit = [] := by
    have := List.takeWhile_append_dropWhile (p := Match.isDigit) (l := ds)
    rw [htw] at this
    exact List.append_right_eq_self.mp this
  have hlt' : Match.decVal ds < Match.decVal nd := hlt
  simp [Ports.matchB, arrayPat, greedy, htw, hdw, hdne, hlt', hm]

/-! ### what well-formedness of the tree (C04) says about such names -/

theorem tagChar_all {ts : List Bytes} (h : ts.all (·.all tagChar) = true) : ∀ t ∈ ts, ∀ c ∈ t, c ≠ 58 := by
  intro t ht c hc
  simp only [List.all_eq_true] at h
  have := h t ht c hc
  simp only [tagChar, Bool.and_eq_true, bne_iff_ne, ne_eq] at this
  exact this.2

theorem scalarPat_facts {name : Bytes} {ts : List Bytes} (h : Ports.nameWf (scalarPat name ts) = true) :
    ts ≠ [] ∧ ∀ t ∈ ts, ∀ c ∈ t, c ≠ 58 := by
  simp only [Ports.nameWf, Pat.wf0, scalarPat, typesWf, Bool.and_eq_true, Bool.not_eq_eq_eq_not, Bool.not_true,
    List.isEmpty_eq_false_iff] at h
  exact ⟨h.1.1.2.1, tagChar_all h.1.1.2.2⟩

theorem arrayPat_facts {name nd : Bytes} {ts : List Bytes} (h : Ports.nameWf (arrayPat name nd ts) = true) :
    (ts ≠ [] ∧ ∀ t ∈ ts, ∀ c ∈ t, c ≠ 58) ∧ AllDigits nd ∧ nd ≠ [] ∧ digitsVal nd ≤ 2147483647 := by
  simp only [Ports.nameWf, Pat.wf0, arrayPat, typesWf, segsWf, Seg.wf, Bool.and_eq_true, Bool.not_eq_eq_eq_not,
    Bool.not_true, List.isEmpty_eq_false_iff, decide_eq_true_eq, List.all_eq_true] at h
  obtain ⟨⟨⟨⟨_, ⟨⟨h1, h2⟩, h3⟩, _⟩, h4, h5⟩, _⟩, _⟩ := h
  refine ⟨⟨h4, tagChar_all (by simpa using h5)⟩, h2, h1, ?_⟩
  have : digitsVal nd = Match.decVal nd := rfl
  omega

end Rtosc.Param
