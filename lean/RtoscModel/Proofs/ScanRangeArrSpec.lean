/-
  C11 — from the specification to arrays with ranges inside: values with proved agreement in the wider
  sense (`SVal.rproved`): scalars in proved spellings, `nxA`, and arrays (without open end) whose
  elements are such values or ranges `b ... c` of decimal 'i' integers, each range standing first in the
  array or behind a scalar, `nx<scalar>`, another such range, an array or `nx[array]` (`rangedElemsG`,
  the same predicate describes the values of a sentence).  Such a value is a good argument
  (`SVal.rproved.arg11`), its denotation is `SVal.rcellsV` (`SVal.rproved.denote1`), and the text of a
  sentence of such values and ranges is a `LayR` (`layR_rangedA`).
-/
import RtoscModel.Proofs.ScanRangeArr
import RtoscModel.Proofs.ScanRangeSpec
namespace Rtosc.Pretty.C11
open Rtosc Rtosc.Libc Rtosc.Pretty
open Rtosc.ArgVal (Cell Item flatList)

/-- what a value hands to the value to its right: a range its right end, everything else `SVal.offer` -/
def SVal.next (v : SVal) : Option (Option Int) :=
  match v.iRange with
  | some (_, z) => some (some z)
  | none => v.offer

mutual
/-- values with proved agreement, arrays with ranges included.  `bl`: the blanks inside the value -/
def SVal.rproved (bl : List Nat → Blank) : SVal → Prop
  | .val t => t.wf = true ∧ t.proved bl = true
  | .rep n x => 1 ≤ n ∧ n ≤ 2147483647 ∧ x.repeatable ∧ x.rproved (sub bl 0)
  | .range _ _ => False
  | .arr es opn => opn = false ∧ sameTys es = true ∧ rangedElemsG (fun k => 2 * k + 5) bl 1 (some none) es
/-- the values of a sentence (`ix = id`, numbered from `k`) or the elements of an array
    (`ix k = 2k+5`, like `elemsText`): each is a value with proved agreement, or a range `b ... c` of
    two decimal 'i' integers with `RangeOK`, at least one white-space character in front of the dots,
    and a provider or nothing to its left (`o`: what the value to the left offers) -/
def rangedElemsG (ix : Nat → Nat) (bl : List Nat → Blank) : Nat → Option (Option Int) → List SVal → Prop
  | _, _, [] => True
  | k, o, v :: r =>
    (match v.iRange with
     | some (x, z) => (∃ nb, o = some nb ∧ RangeOK nb x z) ∧ bl [ix k, 1] ≠ []
     | none => v.rproved (sub bl (ix k))) ∧
    rangedElemsG ix bl (k + 1) v.next r
end

mutual
/-- the cells such a value denotes -/
def SVal.rcellsV : SVal → List Cell
  | .val t => [t.cell]
  | .rep n x => Cell.rep n 0 :: x.rcellsV
  | .range _ _ => [Cell.flag .N]
  | .arr es _ => Cell.arr (lastElemTy es) (rcellsE (some none) es).length :: rcellsE (some none) es
/-- the cells of the values of a sentence / the elements of an array -/
def rcellsE : Option (Option Int) → List SVal → List Cell
  | _, [] => []
  | o, v :: r =>
    (match v.iRange with
     | some (x, z) => rangeCellsNb (o.getD none) x z
     | none => v.rcellsV) ++ rcellsE v.next r
end

/-- the cells of one value of the list in its context -/
def argCells (o : Option (Option Int)) (v : SVal) : List Cell :=
  match v.iRange with
  | some (x, z) => rangeCellsNb (o.getD none) x z
  | none => v.rcellsV

theorem rcellsE_cons (o : Option (Option Int)) (v : SVal) (r : List SVal) :
    rcellsE o (v :: r) = argCells o v ++ rcellsE v.next r := by
  simp only [rcellsE, argCells]

theorem rproved_unfold_val (bl : List Nat → Blank) (t : Tok) : (SVal.val t).rproved bl ↔ (t.wf = true ∧ t.proved bl = true) := by
  simp [SVal.rproved]

theorem rproved_unfold_rep (bl : List Nat → Blank) (n : Nat) (x : SVal) :
    (SVal.rep n x).rproved bl ↔ (1 ≤ n ∧ n ≤ 2147483647 ∧ x.repeatable ∧ x.rproved (sub bl 0)) := by
  simp [SVal.rproved]

theorem rproved_unfold_arr (bl : List Nat → Blank) (es : List SVal) (opn : Bool) :
    (SVal.arr es opn).rproved bl ↔ (opn = false ∧ sameTys es = true ∧ rangedElemsG (fun k => 2 * k + 5) bl 1 (some none) es) := by
  simp [SVal.rproved]

theorem rangedElemsG_cons (ix : Nat → Nat) (bl : List Nat → Blank) (k : Nat) (o : Option (Option Int)) (v : SVal)
    (r : List SVal) :
    rangedElemsG ix bl k o (v :: r) ↔
      ((match v.iRange with
        | some (x, z) => (∃ nb, o = some nb ∧ RangeOK nb x z) ∧ bl [ix k, 1] ≠ []
        | none => v.rproved (sub bl (ix k))) ∧ rangedElemsG ix bl (k + 1) v.next r) := by
  simp [rangedElemsG]

/-! ### `TailOK` is kept by the cells -/

mutual
theorem tailKeep_rcellsV : ∀ (x : SVal), TailKeep x.rcellsV
  | .val t => by
    have : NoDelta [t.cell] := by
      intro n h hm
      simp only [List.mem_singleton] at hm
      have := tok_cell_scalar t
      rw [← hm] at this
      simp [ArgVal.Cell.isScalar] at this
    simpa [SVal.rcellsV] using this.tailKeep
  | .rep k x => by
    have h1 : NoDelta [Cell.rep k 0] := by
      intro n h hm
      simp only [List.mem_singleton] at hm
      cases hm; rfl
    have := h1.tailKeep.append (tailKeep_rcellsV x)
    simpa [SVal.rcellsV] using this
  | .range _ _ => by
    have : NoDelta [Cell.flag .N] := by intro n h hm; simp at hm
    simpa [SVal.rcellsV] using this.tailKeep
  | .arr es _ => by
    have h1 : NoDelta [Cell.arr (lastElemTy es) (rcellsE (some none) es).length] := by intro n h hm; simp at hm
    have := h1.tailKeep.append (tailKeep_rcellsE (some none) es)
    simpa [SVal.rcellsV] using this
theorem tailKeep_rcellsE : ∀ (o : Option (Option Int)) (es : List SVal), TailKeep (rcellsE o es)
  | _, [] => by simpa [rcellsE] using tailKeep_nil
  | o, v :: r => by
    rw [rcellsE_cons]
    refine TailKeep.append ?_ (tailKeep_rcellsE v.next r)
    unfold argCells
    cases hv : v.iRange with
    | none => exact tailKeep_rcellsV v
    | some p =>
      obtain ⟨x, z⟩ := p
      exact fun done _ => TailOK.append_range done _ _ _
end

theorem tailKeep_argCells (o : Option (Option Int)) (v : SVal) : TailKeep (argCells o v) := by
  unfold argCells
  cases hv : v.iRange with
  | none => exact tailKeep_rcellsV v
  | some p =>
    obtain ⟨x, z⟩ := p
    exact fun done _ => TailOK.append_range done _ _ _

/-! ### the types the scanner and the checker record -/

theorem elemTy_rcellsV (bl : List Nat → Blank) (x : SVal) (h : x.rproved bl) : elemTy x.rcellsV = .ok x.ty := by
  cases x with
  | val t =>
    have hs := tok_cell_scalar t
    simp only [SVal.rcellsV, SVal.ty]
    generalize t.cell = c at hs
    cases c <;> simp_all [elemTy, deref, ArgVal.Cell.isScalar, bind, Except.bind, pure, Except.pure]
  | rep n y =>
    rw [rproved_unfold_rep] at h
    obtain ⟨_, _, hrep, _⟩ := h
    cases y with
    | val t => simp [SVal.rcellsV, SVal.ty, elemTy, deref, bind, Except.bind, pure, Except.pure]
    | arr es o => simp [SVal.rcellsV, SVal.ty, elemTy, deref, bind, Except.bind, pure, Except.pure, ArgVal.Cell.type]
    | rep _ _ => simp [SVal.repeatable] at hrep
    | range _ _ => simp [SVal.repeatable] at hrep
  | range _ _ => simp [SVal.rproved] at h
  | arr es o => simp [SVal.rcellsV, SVal.ty, elemTy, deref, bind, Except.bind, pure, Except.pure, ArgVal.Cell.type]

theorem skipTy_rcellsV (bl : List Nat → Blank) (x : SVal) (h : x.rproved bl) :
    skipTy x.rcellsV = x.ty ∨ skipTy x.rcellsV = 45 := by
  cases x with
  | val t => left; simp [SVal.rcellsV, SVal.ty, skipTy]
  | rep n y => right; simp [SVal.rcellsV, skipTy, ArgVal.Cell.type, ArgVal.tyRange]
  | range _ _ => simp [SVal.rproved] at h
  | arr es o => left; simp [SVal.rcellsV, SVal.ty, skipTy, ArgVal.Cell.type]

/-- one value of the list is fine in its context -/
def ElemOK (bl : List Nat → Blank) (o : Option (Option Int)) (v : SVal) : Prop :=
  match v.iRange with
  | some (x, z) => (∃ nb, o = some nb ∧ RangeOK nb x z) ∧ bl [1] ≠ []
  | none => v.rproved bl

theorem rangedElemsG_cons' (ix : Nat → Nat) (bl : List Nat → Blank) (k : Nat) (o : Option (Option Int)) (v : SVal)
    (r : List SVal) :
    rangedElemsG ix bl k o (v :: r) ↔ (ElemOK (sub bl (ix k)) o v ∧ rangedElemsG ix bl (k + 1) v.next r) := by
  rw [rangedElemsG_cons]
  unfold ElemOK
  cases v.iRange with
  | none => rfl
  | some p => obtain ⟨x, z⟩ := p; simp [sub]

theorem ty_iRange {v : SVal} {x z : Int} (h : v.iRange = some (x, z)) : v.ty = 105 := by
  rw [iRange_some h]
  simp [SVal.ty, Tok.cell, ArgVal.Cell.type, ArgVal.IntTy.char]

theorem elemTy_argCells (bl : List Nat → Blank) (o : Option (Option Int)) (v : SVal) (h : ElemOK bl o v) :
    elemTy (argCells o v) = .ok v.ty := by
  unfold ElemOK at h
  unfold argCells
  cases hv : v.iRange with
  | none => rw [hv] at h; exact elemTy_rcellsV bl v h
  | some p =>
    obtain ⟨x, z⟩ := p
    simp only [ty_iRange hv]
    exact ety_rangeCells _ _ _

theorem skipTy_argCells (bl : List Nat → Blank) (o : Option (Option Int)) (v : SVal) (h : ElemOK bl o v) :
    skipTy (argCells o v) = v.ty ∨ skipTy (argCells o v) = 45 := by
  unfold ElemOK at h
  unfold argCells
  cases hv : v.iRange with
  | none => rw [hv] at h; exact skipTy_rcellsV bl v h
  | some p =>
    obtain ⟨x, z⟩ := p
    right
    exact skipTy_rangeCells _ _ _

/-- the texts and cells of the elements of an array -/
def elemArgsR (bl : List Nat → Blank) : Nat → Option (Option Int) → List SVal → List (Bytes × List Cell)
  | _, _, [] => []
  | k, o, v :: r => (v.text (sub bl (2 * k + 5)), argCells o v) :: elemArgsR bl (k + 1) v.next r

theorem allCells_elemArgsR (bl : List Nat → Blank) : ∀ (es : List SVal) (k : Nat) (o : Option (Option Int)),
    allCells (elemArgsR bl k o es) = rcellsE o es := by
  intro es
  induction es with
  | nil => intro k o; rfl
  | cons v r ih =>
    intro k o
    have := ih (k + 1) v.next
    simp only [allCells] at this
    simp [elemArgsR, rcellsE_cons, allCells, this]

theorem lastTy_elemArgsR (bl : List Nat → Blank) : ∀ (es : List SVal) (k : Nat) (o : Option (Option Int)),
    rangedElemsG (fun k => 2 * k + 5) bl k o es → es ≠ [] → lastTy 32 (elemArgsR bl k o es) = lastElemTy es := by
  intro es
  induction es with
  | nil => intro k o _ h; exact absurd rfl h
  | cons x r ih =>
    intro k o h _
    rw [rangedElemsG_cons'] at h
    cases r with
    | nil => simp [elemArgsR, lastTy, lastElemTy, elemTy_argCells _ o x h.1]
    | cons y r' =>
      have := ih (k + 1) x.next h.2 (by simp)
      simp only [elemArgsR] at this ⊢
      rw [lastTy_cons _ _ _ (by simp)]
      simpa [lastElemTy] using this

theorem elemTypesOK_elemArgsR (bl : List Nat → Blank) (k : Nat) (o : Option (Option Int)) (es : List SVal)
    (h : rangedElemsG (fun k => 2 * k + 5) bl k o es) (hty : sameTys es = true) : ElemTypesOK (elemArgsR bl k o es) := by
  cases es with
  | nil => exact trivial
  | cons x r =>
    rw [rangedElemsG_cons'] at h
    simp only [sameTys, List.all_eq_true] at hty
    simp only [elemArgsR, ElemTypesOK]
    have key : ∀ (r : List SVal) (k' : Nat) (o' : Option (Option Int)), rangedElemsG (fun k => 2 * k + 5) bl k' o' r →
        (∀ e ∈ r, sameTy x.ty e.ty = true) → TypesOK (skipTy (argCells o x)) (elemArgsR bl k' o' r) := by
      intro r
      induction r with
      | nil => intro k' o' _ _ p hp; simp [elemArgsR] at hp
      | cons y r' ih =>
        intro k' o' hr hs p hp
        rw [rangedElemsG_cons'] at hr
        simp only [elemArgsR, List.mem_cons] at hp
        rcases hp with rfl | hp
        · simp only
          rcases skipTy_argCells _ o x h.1 with hx | hx <;> rcases skipTy_argCells _ o' y hr.1 with hy | hy
          · rw [hx, hy]; exact sameTy_arraytypes _ _ (hs y (by simp))
          · rw [hy]; simp [arraytypesMatch]
          · rw [hx]; simp [arraytypesMatch]
          · rw [hx]; simp [arraytypesMatch]
        · exact ih (k' + 1) y.next hr.2 (fun e he => hs e (by simp [he])) p hp
    exact key r (k + 1) x.next h.2 hty

/-! ### providers -/

/-- a value with proved agreement that offers something is a provider -/
theorem prov_of_offerR (bl : List Nat → Blank) (v : SVal) (hv : v.rproved bl) (harg : Arg11 (v.text bl) v.rcellsV)
    (hinner : ∀ n x, v = .rep n x → Arg11 (x.text (sub bl 0)) x.rcellsV)
    (nb : Option Int) (ho : v.offer = some nb) : Prov (v.text bl) v.rcellsV nb := by
  cases v with
  | val t =>
    simp only [SVal.rproved] at hv
    simp only [SVal.offer, Option.some.injEq] at ho
    subst ho
    simpa [SVal.text, SVal.rcellsV] using Prov.scalar _ _ (valOK_tok bl t hv.1 hv.2)
  | rep n x =>
    rw [rproved_unfold_rep] at hv
    obtain ⟨h1, h2, _, hx⟩ := hv
    cases x with
    | val t =>
      simp only [SVal.rproved] at hx
      simp only [SVal.offer, Option.some.injEq] at ho
      subst ho
      have := Prov.rep n _ _ h1 h2 (valOK_tok (sub bl 0) t hx.1 hx.2)
      simpa [SVal.text, SVal.rcellsV, repText, fmtDec_nat] using this
    | arr es o =>
      simp only [SVal.offer, Option.some.injEq] at ho
      subst ho
      have := Prov.repArr n _ _ _ _ h1 h2 (by simpa [SVal.rcellsV] using hinner n _ rfl) (by simp [SVal.text])
      simpa [SVal.text, SVal.rcellsV, repText, fmtDec_nat] using this
    | _ => simp [SVal.offer] at ho
  | range _ _ => simp [SVal.offer] at ho
  | arr es o =>
    simp only [SVal.offer, Option.some.injEq] at ho
    subst ho
    have := Prov.arr _ _ _ _ (by simpa [SVal.rcellsV] using harg) (by simp [SVal.text])
    simpa [SVal.rcellsV] using this

/-- white space of the specification between two elements, as gaps -/
def blankGaps (b : Blank) : List Gap := if b.isEmpty then [Gap.ws .sp] else b.map Gap.ws

theorem blankGaps_facts (b : Blank) : gapsBytes (blankGaps b) = blank1Bytes b ∧ WsGaps (blankGaps b) := by
  unfold blankGaps blank1Bytes
  cases b with
  | nil => exact ⟨by simp [gapsBytes, Gap.bytes, Ws.byte], by simp, by simp⟩
  | cons w r =>
    refine ⟨?_, by simp, ?_⟩
    · simp only [List.isEmpty_cons, Bool.false_eq_true, ↓reduceIte, gapsBytes, blankBytes]
      induction (w :: r) with
      | nil => rfl
      | cons a t ih => simpa [Gap.bytes] using ih
    · intro x hx
      simp only [List.isEmpty_cons, Bool.false_eq_true, ↓reduceIte, List.mem_map] at hx
      obtain ⟨a, _, rfl⟩ := hx
      exact ⟨a, rfl⟩

theorem next_of_iRange {v : SVal} {x z : Int} (h : v.iRange = some (x, z)) : v.next = some (some z) := by
  simp [SVal.next, h]

theorem next_of_none {v : SVal} (h : v.iRange = none) : v.next = v.offer := by
  simp [SVal.next, h]

theorem argCells_of_none {v : SVal} (o : Option (Option Int)) (h : v.iRange = none) : argCells o v = v.rcellsV := by
  simp [argCells, h]

/-! ### every such value is a good argument -/

mutual
/-- **every value with proved agreement (arrays with ranges included) is a good argument** -/
theorem SVal.rproved.arg11 : ∀ (bl : List Nat → Blank) (x : SVal), x.rproved bl → Arg11 (x.text bl) x.rcellsV
  | bl, .val t, h => by
    simp only [SVal.rproved] at h
    simpa [SVal.text, SVal.rcellsV] using (valOK_tok bl t h.1 h.2).arg11
  | bl, .rep n x, h => by
    simp only [SVal.rproved] at h
    obtain ⟨h1, h2, _, hx⟩ := h
    have := (SVal.rproved.arg11 (sub bl 0) x hx).rep n h1 h2
    simpa [SVal.text, SVal.rcellsV, repText, fmtDec_nat] using this
  | bl, .range _ _, h => by simp [SVal.rproved] at h
  | bl, .arr [] opn, h => by
    simp only [SVal.rproved] at h
    obtain ⟨hopn, _, _⟩ := h
    subst hopn
    have hws : AllWs (blankBytes (bl [0]) ++ blankBytes (bl [4])) := by
      intro c hc
      rcases List.mem_append.mp hc with h | h
      · exact isspace_blank _ c h
      · exact isspace_blank _ c h
    have := arg11_array ArrBody.nil _ hws trivial
    simpa [SVal.text, SVal.rcellsV, arrText, elemsText, rcellsE, lastElemTy, allCells, lastTy] using this
  | bl, .arr (x :: r) opn, h => by
    simp only [SVal.rproved] at h
    obtain ⟨hopn, hty, hes⟩ := h
    subst hopn
    have hbody := rangedElems.body bl 1 (some none) (x :: r) .first (blankBytes (bl [4])) (by simp) ⟨by simp, rfl⟩ hes
      (allWs_blank _)
    have := arg11_arrayR hbody (blankBytes (bl [0])) (allWs_blank _) (elemTypesOK_elemArgsR bl 1 _ (x :: r) hes hty)
    rw [allCells_elemArgsR, lastTy_elemArgsR bl (x :: r) 1 _ hes (by simp)] at this
    simpa [SVal.text, SVal.rcellsV, arrText, List.append_assoc] using this
/-- the elements of an array, followed by the blank in front of `]`, form an `ArrR` -/
theorem rangedElems.body : ∀ (bl : List Nat → Blank) (k : Nat) (o : Option (Option Int)) (es : List SVal) (c : Ctx)
    (w : Bytes), es ≠ [] → CtxRel c o → rangedElemsG (fun k => 2 * k + 5) bl k o es → AllWs w →
    ArrR c (elemArgsR bl k o es) (elemsText bl k es ++ w)
  | bl, k, o, [], c, w, hne, _, _, _ => absurd rfl hne
  | bl, k, o, [v], c, w, _, hrel, h, hw => by
    rw [rangedElemsG_cons] at h
    cases hv : v.iRange with
    | some p =>
      obtain ⟨x, z⟩ := p
      rw [hv] at h
      obtain ⟨⟨⟨nb, ho, hr⟩, hb⟩, _⟩ := h
      subst ho
      obtain ⟨hc1, hc2⟩ := hrel
      have hvx := iRange_some hv
      subst hvx
      have hw1 : blankBytes (sub bl (2 * k + 5) [1]) ≠ [] := by
        simp only [sub]
        cases hh : bl [2 * k + 5, 1] with
        | nil => exact absurd hh hb
        | cons a b => simp [blankBytes]
      rw [← hc2] at hr
      have := ArrR.lastR c x z _ _ w hc1 hr (allWs_blank (sub bl (2 * k + 5) [1])) hw1
        (allWs_blank (sub bl (2 * k + 5) [2])) hw
      simpa [elemArgsR, elemsText, text_iRange, argCells, SVal.iRange, hc2] using this
    | none =>
      rw [hv] at h
      have := ArrR.lastA c _ _ w (SVal.rproved.arg11 _ v h.1) hw
      simpa [elemArgsR, elemsText, argCells_of_none o hv] using this
  | bl, k, o, v :: y :: r', c, w, _, hrel, h, hw => by
    rw [rangedElemsG_cons] at h
    obtain ⟨hg1, hg2⟩ := blankGaps_facts (bl [2 * k + 6])
    cases hv : v.iRange with
    | some p =>
      obtain ⟨x, z⟩ := p
      rw [hv] at h
      obtain ⟨⟨⟨nb, ho, hr⟩, hb⟩, hrest⟩ := h
      subst ho
      obtain ⟨hc1, hc2⟩ := hrel
      have hvx := iRange_some hv
      subst hvx
      have hw1 : blankBytes (sub bl (2 * k + 5) [1]) ≠ [] := by
        simp only [sub]
        cases hh : bl [2 * k + 5, 1] with
        | nil => exact absurd hh hb
        | cons a b => simp [blankBytes]
      rw [← hc2] at hr
      rw [next_of_iRange hv] at hrest
      have hrec := rangedElems.body bl (k + 1) (some (some z)) (y :: r')
        (.after (rangeTok x z (blankBytes (sub bl (2 * k + 5) [1])) (blankBytes (sub bl (2 * k + 5) [2])))
          (blankGaps (bl [2 * k + 6])) (rangeCellsNb c.nb x z) (some z)) w (by simp) ⟨by simp, rfl⟩ hrest hw
      have := ArrR.consR c x z _ _ (blankGaps (bl [2 * k + 6])) _ _ hc1 hr (allWs_blank (sub bl (2 * k + 5) [1])) hw1
        (allWs_blank (sub bl (2 * k + 5) [2])) hg2 hrec
      simpa [elemArgsR, elemsText, text_iRange, argCells, SVal.iRange, SVal.next, hc2, hg1, List.append_assoc] using this
    | none =>
      rw [hv] at h
      obtain ⟨hx, hrest⟩ := h
      rw [next_of_none hv] at hrest
      have harg := SVal.rproved.arg11 _ v hx
      cases ho : v.offer with
      | none =>
        rw [ho] at hrest
        have hrec := rangedElems.body bl (k + 1) none (y :: r') .any w (by simp) trivial hrest hw
        have := ArrR.consA c _ _ (blankGaps (bl [2 * k + 6])) _ _ harg (tailKeep_rcellsV v) hg2 hrec
        simpa [elemArgsR, elemsText, argCells_of_none o hv, next_of_none hv, ho, hg1, List.append_assoc] using this
      | some nb =>
        rw [ho] at hrest
        have hp := prov_of_offerR _ v hx harg (fun n x' hvx => by
          subst hvx
          rw [rproved_unfold_rep] at hx
          exact SVal.rproved.arg11 _ x' hx.2.2.2) nb ho
        have hrec := rangedElems.body bl (k + 1) (some nb) (y :: r')
          (.after (v.text (sub bl (2 * k + 5))) (blankGaps (bl [2 * k + 6])) v.rcellsV nb) w (by simp) ⟨by simp, rfl⟩ hrest hw
        have := ArrR.consP c _ _ nb (blankGaps (bl [2 * k + 6])) _ _ harg (tailKeep_rcellsV v) hp hg2 hrec
        simpa [elemArgsR, elemsText, argCells_of_none o hv, next_of_none hv, ho, hg1, List.append_assoc] using this
end

/-! ### the denotation -/

theorem offer_leftCell (v : SVal) (nb : Option Int) (h : v.offer = some nb) : v.leftCell.bind nbInt = nb := by
  cases v with
  | val t => simp only [SVal.offer, Option.some.injEq] at h; simp [SVal.leftCell, h]
  | rep n y =>
    cases y with
    | val t => simp only [SVal.offer, Option.some.injEq] at h; simp [SVal.leftCell, h]
    | arr _ _ => simp only [SVal.offer, Option.some.injEq] at h; simp [SVal.leftCell, h]
    | _ => simp [SVal.offer] at h
  | arr _ _ => simp only [SVal.offer, Option.some.injEq] at h; simp [SVal.leftCell, h]
  | _ => simp [SVal.offer] at h

theorem lastItemTy_step (it : Item) (its : List Item) (v : SVal) (r : List SVal) (hlen : its.length = r.length)
    (hit : itemType it = v.ty) (hl : lastItemTy its = lastElemTy r) : lastItemTy (it :: its) = lastElemTy (v :: r) := by
  cases r with
  | nil =>
    have : its = [] := List.length_eq_zero_iff.mp (by simpa using hlen)
    subst this
    simp [lastItemTy, lastElemTy, hit]
  | cons y r' =>
    cases its with
    | nil => simp at hlen
    | cons i1 its' =>
      have e : lastItemTy (it :: i1 :: its') = lastItemTy (i1 :: its') := by
        simp [lastItemTy, List.getLast?_cons_cons]
      rw [e, hl]
      simp [lastElemTy]

mutual
/-- the denotation of a value with proved agreement: an item with the cells `rcellsV` and the type of the
    value; the left neighbour it provides -/
theorem SVal.rproved.denote1 : ∀ (bl : List Nat → Blank) (x : SVal), x.rproved bl →
    ∃ it, x.denote1 = some (it, x.leftCell) ∧ it.flat = x.rcellsV ∧ itemType it = x.ty
  | bl, .val t, _ => ⟨.val t.cell, by simp [SVal.denote1, SVal.leftCell],
      by simp [Rtosc.ArgVal.Item.flat, SVal.rcellsV], by simp [itemType, SVal.ty]⟩
  | bl, .rep n (.val t), h => by
    rw [rproved_unfold_rep] at h
    exact ⟨.rep n (.val t.cell), by simp [SVal.denote1, SVal.leftCell, h.1, h.2.1],
      by simp [Rtosc.ArgVal.Item.flat, SVal.rcellsV], by simp [itemType, SVal.ty]⟩
  | bl, .rep n (.arr es opn), h => by
    rw [rproved_unfold_rep] at h
    obtain ⟨h1, h2, _, hx⟩ := h
    rw [rproved_unfold_arr] at hx
    obtain ⟨hopn, _, hes⟩ := hx
    subst hopn
    obtain ⟨its, hd, hfl, _, hl⟩ := rangedElems.denote _ (sub bl 0) 1 (some none) es none hes (by intro nb h; cases h; rfl)
    exact ⟨.rep n (.arr (lastItemTy its) its), by simp [SVal.denote1, SVal.leftCell, h1, h2, hd],
      by simp [Rtosc.ArgVal.Item.flat, SVal.rcellsV, hfl, hl], by simp [itemType, SVal.ty]⟩
  | bl, .rep n (.rep _ _), h => by
    rw [rproved_unfold_rep] at h
    exact absurd h.2.2.1 (by simp [SVal.repeatable])
  | bl, .rep n (.range _ _), h => by
    rw [rproved_unfold_rep] at h
    exact absurd h.2.2.1 (by simp [SVal.repeatable])
  | bl, .range _ _, h => by simp [SVal.rproved] at h
  | bl, .arr es opn, h => by
    rw [rproved_unfold_arr] at h
    obtain ⟨hopn, _, hes⟩ := h
    subst hopn
    obtain ⟨its, hd, hfl, _, hl⟩ := rangedElems.denote _ bl 1 (some none) es none hes (by intro nb h; cases h; rfl)
    exact ⟨.arr (lastItemTy its) its, by simp [SVal.denote1, SVal.leftCell, hd],
      by simp [Rtosc.ArgVal.Item.flat, SVal.rcellsV, hfl, hl], by simp [itemType, SVal.ty]⟩
/-- the denotation of the values of a sentence / the elements of an array: items with the cells `rcellsE` -/
theorem rangedElems.denote : ∀ (ix : Nat → Nat) (bl : List Nat → Blank) (k : Nat) (o : Option (Option Int)) (es : List SVal)
    (prev : Option Cell), rangedElemsG ix bl k o es → (∀ nb, o = some nb → prev.bind nbInt = nb) →
    ∃ its, denoteElems false prev es = some its ∧ flatList its = rcellsE o es ∧ its.length = es.length ∧
      lastItemTy its = lastElemTy es
  | ix, bl, k, o, [], prev, _, _ => ⟨[], by simp [denoteElems], by simp [flatList, rcellsE], rfl, rfl⟩
  | ix, bl, k, o, .range b c :: r, prev, h, hrel => by
    rw [rangedElemsG_cons] at h
    cases hv : (SVal.range b c).iRange with
    | none => rw [hv] at h; exact absurd h.1 (by simp [SVal.rproved])
    | some p =>
      obtain ⟨x, z⟩ := p
      rw [hv, next_of_iRange hv] at h
      obtain ⟨⟨⟨nb, ho, hr⟩, _⟩, hrest⟩ := h
      subst ho
      have hnb := hrel nb rfl
      subst hnb
      have hvx := iRange_some hv
      injection hvx with hb hc
      subst hb; subst hc
      have hne := hr.ne
      have hneq : numEq (Cell.int .i x) (Cell.int .i z) = false := by
        simp [numEq, cmpScalar_int, cmp3_ne x z hne]
      obtain ⟨its, hd, hfl, hlen, hl⟩ := rangedElems.denote ix bl (k + 1) (some (some z)) r (some (Cell.int .i z)) hrest
        (by intro nb h; cases h; rfl)
      refine ⟨.range (((z - x) / rangeStepI (prev.bind nbInt) x z).toNat + 1) (Cell.int .i (rangeStepI (prev.bind nbInt) x z))
        (Cell.int .i x) :: its, ?_, ?_, by simp [hlen], ?_⟩
      · simp [denoteElems, floatRangeBlocks, Tok.cell, isNumTy, hneq, rangeStep_int prev x z hr, stepsOf_int hr,
          rangeLast_int hr, hd, ArgVal.Cell.type]
      · rw [rcellsE_cons, next_of_iRange hv]
        simp [flatList, Rtosc.ArgVal.Item.flat, hfl, argCells, SVal.iRange, rangeCellsNb]
      · exact lastItemTy_step _ its _ r hlen (by simp [itemType, SVal.ty, Tok.cell]) hl
  | ix, bl, k, o, .val t :: r, prev, h, hrel => by
    rw [rangedElemsG_cons] at h
    have hv : (SVal.val t).iRange = none := rfl
    rw [hv, next_of_none hv] at h
    obtain ⟨hx, hrest⟩ := h
    obtain ⟨it, hd1, hf1, ht1⟩ := SVal.rproved.denote1 _ (.val t) hx
    obtain ⟨its, hd, hfl, hlen, hl⟩ := rangedElems.denote ix bl (k + 1) (SVal.val t).offer r (SVal.val t).leftCell hrest
      (offer_leftCell _)
    refine ⟨it :: its, ?_, ?_, by simp [hlen], lastItemTy_step it its _ r hlen ht1 hl⟩
    · simp [denoteElems, hd1, hd]
    · rw [rcellsE_cons, next_of_none hv, argCells_of_none o hv]
      simp [flatList, hf1, hfl]
  | ix, bl, k, o, .rep n y :: r, prev, h, hrel => by
    rw [rangedElemsG_cons] at h
    have hv : (SVal.rep n y).iRange = none := rfl
    rw [hv, next_of_none hv] at h
    obtain ⟨hx, hrest⟩ := h
    obtain ⟨it, hd1, hf1, ht1⟩ := SVal.rproved.denote1 _ (.rep n y) hx
    obtain ⟨its, hd, hfl, hlen, hl⟩ := rangedElems.denote ix bl (k + 1) (SVal.rep n y).offer r (SVal.rep n y).leftCell hrest
      (offer_leftCell _)
    refine ⟨it :: its, ?_, ?_, by simp [hlen], lastItemTy_step it its _ r hlen ht1 hl⟩
    · simp [denoteElems, hd1, hd]
    · rw [rcellsE_cons, next_of_none hv, argCells_of_none o hv]
      simp [flatList, hf1, hfl]
  | ix, bl, k, o, .arr es op :: r, prev, h, hrel => by
    rw [rangedElemsG_cons] at h
    have hv : (SVal.arr es op).iRange = none := rfl
    rw [hv, next_of_none hv] at h
    obtain ⟨hx, hrest⟩ := h
    obtain ⟨it, hd1, hf1, ht1⟩ := SVal.rproved.denote1 _ (.arr es op) hx
    obtain ⟨its, hd, hfl, hlen, hl⟩ := rangedElems.denote ix bl (k + 1) (SVal.arr es op).offer r (SVal.arr es op).leftCell hrest
      (offer_leftCell _)
    refine ⟨it :: its, ?_, ?_, by simp [hlen], lastItemTy_step it its _ r hlen ht1 hl⟩
    · simp [denoteElems, hd1, hd]
    · rw [rcellsE_cons, next_of_none hv, argCells_of_none o hv]
      simp [flatList, hf1, hfl]
end

/-! ### sentences -/

/-- all values of the sentence (numbered from `i`) have proved agreement in the wider sense or are
    decimal 'i' ranges with `RangeOK`, white space in front of the dots and a provider (or nothing) to
    their left -/
def rangedFromA (L : Layout) (i : Nat) (o : Option (Option Int)) (s : Sentence) : Prop :=
  rangedElemsG (fun i => i) L.blank i o s

/-- texts and cells of the arguments -/
def rArgsA (L : Layout) : Nat → Option (Option Int) → Sentence → List (Bytes × List Cell)
  | _, _, [] => []
  | i, o, v :: r => (v.text (sub L.blank i), argCells o v) :: rArgsA L (i + 1) v.next r

theorem allCells_rArgsA (L : Layout) : ∀ (s : Sentence) (i : Nat) (o : Option (Option Int)),
    allCells (rArgsA L i o s) = rcellsE o s := by
  intro s
  induction s with
  | nil => intro i o; rfl
  | cons v r ih =>
    intro i o
    have := ih (i + 1) v.next
    simp only [allCells] at this
    simp [rArgsA, rcellsE_cons, allCells, this]

/-- **the values of a non-empty sentence of the class, followed by a tail, are a `LayR`** -/
theorem layR_rangedA (L : Layout) (hsp : ∀ i, L.sep i = [] ∨ startsWs (L.sep i) = true)
    (tail : Bytes) (htail : Tail tail) :
    ∀ (s : Sentence) (i : Nat) (c : Ctx) (o : Option (Option Int)), s ≠ [] → CtxRel c o → rangedFromA L i o s →
      LayR c (rArgsA L i o s) (valuesText L i s ++ tail) := by
  intro s
  induction s with
  | nil => intro i c o h; exact absurd rfl h
  | cons v r ih =>
    intro i c o _ hrel hpl
    unfold rangedFromA at hpl
    rw [rangedElemsG_cons] at hpl
    unfold rArgsA
    cases hv : v.iRange with
    | some p =>
      obtain ⟨x, z⟩ := p
      rw [hv, next_of_iRange hv] at hpl
      obtain ⟨⟨⟨nb, ho, hr⟩, hb⟩, hrest⟩ := hpl
      subst ho
      obtain ⟨hc1, hc2⟩ := hrel
      have hvx := iRange_some hv
      subst hvx
      have hw1 : blankBytes (sub L.blank i [1]) ≠ [] := by
        simp only [sub]
        cases h : L.blank [i, 1] with
        | nil => exact absurd h hb
        | cons a b => simp [blankBytes]
      rw [← hc2] at hr
      cases r with
      | nil =>
        have := LayR.oneR c x z _ _ tail hc1 hr (allWs_blank (sub L.blank i [1])) hw1
          (allWs_blank (sub L.blank i [2])) htail
        simpa [rArgsA, valuesText, text_iRange, argCells, SVal.iRange, hc2] using this
      | cons y r' =>
        obtain ⟨e, hs⟩ := sepBytes_fix (L.sep i) (hsp i)
        have hrec := ih (i + 1) (.after (rangeTok x z (blankBytes (sub L.blank i [1])) (blankBytes (sub L.blank i [2])))
          (fixSep (L.sep i)) (rangeCellsNb c.nb x z) (some z)) (some (some z)) (by simp) ⟨by simp, rfl⟩ hrest
        have := LayR.consR c x z _ _ (fixSep (L.sep i)) _ _ hc1 hr (allWs_blank (sub L.blank i [1])) hw1
          (allWs_blank (sub L.blank i [2])) hs hrec
        simpa [valuesText, text_iRange, argCells, SVal.iRange, SVal.next, hc2, e, List.append_assoc] using this
    | none =>
      rw [hv, next_of_none hv] at hpl
      obtain ⟨hx, hrest⟩ := hpl
      have harg := SVal.rproved.arg11 _ v hx
      rw [argCells_of_none o hv, next_of_none hv]
      cases r with
      | nil => simpa [rArgsA, valuesText] using LayR.oneA c _ _ tail harg htail
      | cons y r' =>
        obtain ⟨e, hs⟩ := sepBytes_fix (L.sep i) (hsp i)
        cases ho : v.offer with
        | none =>
          rw [ho] at hrest
          have hrec := ih (i + 1) .any none (by simp) trivial hrest
          have := LayR.consA c _ _ (fixSep (L.sep i)) _ _ harg (tailKeep_rcellsV v) hs hrec
          simpa [valuesText, e, List.append_assoc] using this
        | some nb =>
          rw [ho] at hrest
          have hp := prov_of_offerR _ v hx harg (fun n x' hvx => by
            subst hvx
            rw [rproved_unfold_rep] at hx
            exact SVal.rproved.arg11 _ x' hx.2.2.2) nb ho
          have hrec := ih (i + 1) (.after (v.text (sub L.blank i)) (fixSep (L.sep i)) v.rcellsV nb) (some nb) (by simp)
            ⟨by simp, rfl⟩ hrest
          have := LayR.consP c _ _ nb (fixSep (L.sep i)) _ _ harg (tailKeep_rcellsV v) hp hs hrec
          simpa [valuesText, e, List.append_assoc] using this

/-- the cells a sentence of the class denotes -/
theorem cells_rangedA (L : Layout) (s : Sentence) (h : rangedFromA L 0 (some none) s) :
    cells s = some (rcellsE (some none) s) := by
  obtain ⟨its, hd, hfl, _, _⟩ := rangedElems.denote _ L.blank 0 (some none) s none h (by intro nb h; cases h; rfl)
  simp [cells, denote, hd, hfl]

/-! ### the narrower class lies inside -/

mutual
theorem rproved_of_proved : ∀ (bl : List Nat → Blank) (x : SVal), x.proved bl → x.rproved bl
  | bl, .val t, h => by simpa [SVal.proved, SVal.rproved] using h
  | bl, .rep n x, h => by
    rw [proved_unfold_rep] at h
    rw [rproved_unfold_rep]
    exact ⟨h.1, h.2.1, h.2.2.1, rproved_of_proved _ x h.2.2.2⟩
  | bl, .range _ _, h => by simp [SVal.proved] at h
  | bl, .arr es opn, h => by
    simp only [SVal.proved] at h
    rw [rproved_unfold_arr]
    exact ⟨h.1, h.2.1, rangedElems_of_proved bl 1 (some none) es h.2.2⟩
theorem rangedElems_of_proved : ∀ (bl : List Nat → Blank) (k : Nat) (o : Option (Option Int)) (es : List SVal),
    provedElems bl k es → rangedElemsG (fun k => 2 * k + 5) bl k o es
  | bl, k, o, [], _ => by simp [rangedElemsG]
  | bl, k, o, v :: r, h => by
    simp only [provedElems] at h
    rw [rangedElemsG_cons]
    have hv : v.iRange = none := by
      cases v with
      | range _ _ => exact absurd h.1 (by simp [SVal.proved])
      | _ => rfl
    rw [hv]
    exact ⟨rproved_of_proved _ v h.1, rangedElems_of_proved bl (k + 1) _ r h.2⟩
end

theorem rangedFromA_of_proved (L : Layout) : ∀ (s : Sentence) (i : Nat) (o : Option (Option Int)),
    provedFrom L i s → rangedFromA L i o s := by
  intro s
  induction s with
  | nil => intro i o _; simp [rangedFromA, rangedElemsG]
  | cons v r ih =>
    intro i o hp
    obtain ⟨hv, hr⟩ := hp
    unfold rangedFromA
    rw [rangedElemsG_cons]
    have : v.iRange = none := by
      cases v with
      | range _ _ => simp [SVal.proved] at hv
      | _ => rfl
    rw [this]
    exact ⟨rproved_of_proved _ v hv, ih (i + 1) _ hr⟩

end Rtosc.Pretty.C11
