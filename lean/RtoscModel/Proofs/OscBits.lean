/-
  C01 helper lemmas: the shift/or byte packing of the C code is big-endian arithmetic.
  (`put32 = be32`, `get32 ∘ be32 = id`, and the 64-bit versions.)
-/
import RtoscModel.Osc.Length
namespace Rtosc.Osc
open Rtosc

theorem put32_eq (v : UInt32) : put32 v = be32 v := by
  have h := v.toNat_lt
  simp only [put32, be32, beN, List.cons.injEq, and_true]
  refine ⟨?_, ?_, ?_, ?_⟩ <;> apply UInt8.toNat_inj.mp <;> simp [UInt32.toNat_shiftRight] <;> omega

theorem put64_eq (v : UInt64) : put64 v = be64 v := by
  have h := v.toNat_lt
  simp only [put64, be64, beN, List.cons.injEq, and_true]
  refine ⟨?_, ?_, ?_, ?_, ?_, ?_, ?_, ?_⟩ <;> apply UInt8.toNat_inj.mp <;>
    simp [UInt64.toNat_shiftRight] <;> omega

theorem or4 (a b c d : Nat) (_ha : a < 256) (hb : b < 256) (hc : c < 256) (hd : d < 256) :
    (a <<< 24 ||| b <<< 16 ||| c <<< 8 ||| d) = a * 16777216 + b * 65536 + c * 256 + d := by
  have s1 : c <<< 8 ||| d = c <<< 8 + d :=
    (Nat.shiftLeft_add_eq_or_of_lt (i := 8) (by omega) c).symm
  have s2 : b <<< 16 ||| (c <<< 8 + d) = b <<< 16 + (c <<< 8 + d) :=
    (Nat.shiftLeft_add_eq_or_of_lt (i := 16) (by simp only [Nat.shiftLeft_eq]; omega) b).symm
  have s3 : a <<< 24 ||| (b <<< 16 + (c <<< 8 + d)) = a <<< 24 + (b <<< 16 + (c <<< 8 + d)) :=
    (Nat.shiftLeft_add_eq_or_of_lt (i := 24) (by simp only [Nat.shiftLeft_eq]; omega) a).symm
  rw [Nat.or_assoc, Nat.or_assoc, s1, s2, s3]
  simp only [Nat.shiftLeft_eq]; omega

theorem get32_toNat (b0 b1 b2 b3 : UInt8) :
    (get32 b0 b1 b2 b3).toNat =
      b0.toNat * 16777216 + b1.toNat * 65536 + b2.toNat * 256 + b3.toNat := by
  have h0 := b0.toNat_lt; have h1 := b1.toNat_lt; have h2 := b2.toNat_lt; have h3 := b3.toNat_lt
  have := or4 b0.toNat b1.toNat b2.toNat b3.toNat (by omega) (by omega) (by omega) (by omega)
  simp only [get32, UInt32.toNat_or, UInt32.toNat_shiftLeft, UInt8.toNat_toUInt32]
  have e0 : b0.toNat <<< 24 % 4294967296 = b0.toNat <<< 24 := by
    simp only [Nat.shiftLeft_eq]; omega
  have e1 : b1.toNat <<< 16 % 4294967296 = b1.toNat <<< 16 := by
    simp only [Nat.shiftLeft_eq]; omega
  have e2 : b2.toNat <<< 8 % 4294967296 = b2.toNat <<< 8 := by
    simp only [Nat.shiftLeft_eq]; omega
  simp only [UInt32.toNat_ofNat, Nat.reducePow] at *
  rw [e0, e1, e2]; exact this

/-- reading back four big-endian bytes -/
theorem get32_beN (n : Nat) (h : n < 4294967296) :
    get32 (UInt8.ofNat (n / 256 ^ 3 % 256)) (UInt8.ofNat (n / 256 ^ 2 % 256))
      (UInt8.ofNat (n / 256 ^ 1 % 256)) (UInt8.ofNat (n / 256 ^ 0 % 256)) = UInt32.ofNat n := by
  apply UInt32.toNat_inj.mp
  rw [get32_toNat]
  simp only [UInt8.toNat_ofNat', UInt32.toNat_ofNat', Nat.reducePow]
  omega

theorem get32_be32 (v : UInt32) :
    ∃ b0 b1 b2 b3, be32 v = [b0, b1, b2, b3] ∧ get32 b0 b1 b2 b3 = v := by
  refine ⟨_, _, _, _, rfl, ?_⟩
  rw [get32_beN _ v.toNat_lt]; simp

theorem be32_length (v : UInt32) : (be32 v).length = 4 := rfl
theorem be64_length (v : UInt64) : (be64 v).length = 8 := rfl

theorem or8 (a b c d e f g h : Nat) (_ha : a < 256) (hb : b < 256) (hc : c < 256) (hd : d < 256)
    (he : e < 256) (hf : f < 256) (hg : g < 256) (hh : h < 256) :
    (a <<< 56 ||| b <<< 48 ||| c <<< 40 ||| d <<< 32 ||| e <<< 24 ||| f <<< 16 ||| g <<< 8 ||| h) =
      a * 72057594037927936 + b * 281474976710656 + c * 1099511627776 + d * 4294967296 +
        e * 16777216 + f * 65536 + g * 256 + h := by
  have s1 : g <<< 8 ||| h = g <<< 8 + h :=
    (Nat.shiftLeft_add_eq_or_of_lt (i := 8) (by omega) g).symm
  have s2 : f <<< 16 ||| (g <<< 8 + h) = f <<< 16 + (g <<< 8 + h) :=
    (Nat.shiftLeft_add_eq_or_of_lt (i := 16) (by simp only [Nat.shiftLeft_eq]; omega) f).symm
  have s3 : e <<< 24 ||| (f <<< 16 + (g <<< 8 + h)) = e <<< 24 + (f <<< 16 + (g <<< 8 + h)) :=
    (Nat.shiftLeft_add_eq_or_of_lt (i := 24) (by simp only [Nat.shiftLeft_eq]; omega) e).symm
  have s4 : d <<< 32 ||| (e <<< 24 + (f <<< 16 + (g <<< 8 + h))) =
      d <<< 32 + (e <<< 24 + (f <<< 16 + (g <<< 8 + h))) :=
    (Nat.shiftLeft_add_eq_or_of_lt (i := 32) (by simp only [Nat.shiftLeft_eq]; omega) d).symm
  have s5 : c <<< 40 ||| (d <<< 32 + (e <<< 24 + (f <<< 16 + (g <<< 8 + h)))) =
      c <<< 40 + (d <<< 32 + (e <<< 24 + (f <<< 16 + (g <<< 8 + h)))) :=
    (Nat.shiftLeft_add_eq_or_of_lt (i := 40) (by simp only [Nat.shiftLeft_eq]; omega) c).symm
  have s6 : b <<< 48 ||| (c <<< 40 + (d <<< 32 + (e <<< 24 + (f <<< 16 + (g <<< 8 + h))))) =
      b <<< 48 + (c <<< 40 + (d <<< 32 + (e <<< 24 + (f <<< 16 + (g <<< 8 + h))))) :=
    (Nat.shiftLeft_add_eq_or_of_lt (i := 48) (by simp only [Nat.shiftLeft_eq]; omega) b).symm
  have s7 : a <<< 56 ||| (b <<< 48 + (c <<< 40 + (d <<< 32 + (e <<< 24 + (f <<< 16 + (g <<< 8 + h)))))) =
      a <<< 56 + (b <<< 48 + (c <<< 40 + (d <<< 32 + (e <<< 24 + (f <<< 16 + (g <<< 8 + h)))))) :=
    (Nat.shiftLeft_add_eq_or_of_lt (i := 56) (by simp only [Nat.shiftLeft_eq]; omega) a).symm
  rw [Nat.or_assoc, Nat.or_assoc, Nat.or_assoc, Nat.or_assoc, Nat.or_assoc, Nat.or_assoc,
    s1, s2, s3, s4, s5, s6, s7]
  simp only [Nat.shiftLeft_eq]; omega

theorem get64_toNat (b0 b1 b2 b3 b4 b5 b6 b7 : UInt8) :
    (get64 b0 b1 b2 b3 b4 b5 b6 b7).toNat =
      b0.toNat * 72057594037927936 + b1.toNat * 281474976710656 + b2.toNat * 1099511627776 +
        b3.toNat * 4294967296 + b4.toNat * 16777216 + b5.toNat * 65536 + b6.toNat * 256 +
        b7.toNat := by
  have h0 := b0.toNat_lt; have h1 := b1.toNat_lt; have h2 := b2.toNat_lt; have h3 := b3.toNat_lt
  have h4 := b4.toNat_lt; have h5 := b5.toNat_lt; have h6 := b6.toNat_lt; have h7 := b7.toNat_lt
  have := or8 b0.toNat b1.toNat b2.toNat b3.toNat b4.toNat b5.toNat b6.toNat b7.toNat
    (by omega) (by omega) (by omega) (by omega) (by omega) (by omega) (by omega) (by omega)
  simp only [get64, UInt64.toNat_or, UInt64.toNat_shiftLeft, UInt8.toNat_toUInt64]
  have e0 : b0.toNat <<< 56 % 18446744073709551616 = b0.toNat <<< 56 := by
    simp only [Nat.shiftLeft_eq]; omega
  have e1 : b1.toNat <<< 48 % 18446744073709551616 = b1.toNat <<< 48 := by
    simp only [Nat.shiftLeft_eq]; omega
  have e2 : b2.toNat <<< 40 % 18446744073709551616 = b2.toNat <<< 40 := by
    simp only [Nat.shiftLeft_eq]; omega
  have e3 : b3.toNat <<< 32 % 18446744073709551616 = b3.toNat <<< 32 := by
    simp only [Nat.shiftLeft_eq]; omega
  have e4 : b4.toNat <<< 24 % 18446744073709551616 = b4.toNat <<< 24 := by
    simp only [Nat.shiftLeft_eq]; omega
  have e5 : b5.toNat <<< 16 % 18446744073709551616 = b5.toNat <<< 16 := by
    simp only [Nat.shiftLeft_eq]; omega
  have e6 : b6.toNat <<< 8 % 18446744073709551616 = b6.toNat <<< 8 := by
    simp only [Nat.shiftLeft_eq]; omega
  simp only [UInt64.toNat_ofNat, Nat.reducePow] at *
  rw [e0, e1, e2, e3, e4, e5, e6]; exact this

theorem beN8 (n : Nat) : beN 8 n =
    [UInt8.ofNat (n / 72057594037927936 % 256), UInt8.ofNat (n / 281474976710656 % 256),
     UInt8.ofNat (n / 1099511627776 % 256), UInt8.ofNat (n / 4294967296 % 256),
     UInt8.ofNat (n / 16777216 % 256), UInt8.ofNat (n / 65536 % 256),
     UInt8.ofNat (n / 256 % 256), UInt8.ofNat (n % 256)] := by
  simp only [beN, Nat.reducePow, Nat.div_one]

theorem beN4 (n : Nat) : beN 4 n =
    [UInt8.ofNat (n / 16777216 % 256), UInt8.ofNat (n / 65536 % 256),
     UInt8.ofNat (n / 256 % 256), UInt8.ofNat (n % 256)] := by
  simp only [beN, Nat.reducePow, Nat.div_one]

theorem bytes4 (n : Nat) (h : n < 4294967296) :
    n / 16777216 % 256 * 16777216 + n / 65536 % 256 * 65536 + n / 256 % 256 * 256 + n % 256 = n := by omega


theorem bytes8 (n : Nat) (h : n < 18446744073709551616) :
    n / 72057594037927936 % 256 * 72057594037927936 + n / 281474976710656 % 256 * 281474976710656 +
      n / 1099511627776 % 256 * 1099511627776 + n / 4294967296 % 256 * 4294967296 +
      n / 16777216 % 256 * 16777216 + n / 65536 % 256 * 65536 + n / 256 % 256 * 256 + n % 256 = n := by
  have e1 : n / 72057594037927936 = n / 4294967296 / 16777216 := by rw [Nat.div_div_eq_div_mul]
  have e2 : n / 281474976710656 = n / 4294967296 / 65536 := by rw [Nat.div_div_eq_div_mul]
  have e3 : n / 1099511627776 = n / 4294967296 / 256 := by rw [Nat.div_div_eq_div_mul]
  have hhi : n / 4294967296 < 4294967296 := by omega
  have a := bytes4 (n / 4294967296) hhi
  have b := bytes4 (n % 4294967296) (by omega)
  have f1 : n % 4294967296 / 16777216 % 256 = n / 16777216 % 256 := by omega
  have f2 : n % 4294967296 / 65536 % 256 = n / 65536 % 256 := by omega
  have f3 : n % 4294967296 / 256 % 256 = n / 256 % 256 := by omega
  have f4 : n % 4294967296 % 256 = n % 256 := by omega
  rw [e1, e2, e3]
  rw [f1, f2, f3, f4] at b
  have hn : n = n / 4294967296 * 4294967296 + n % 4294967296 := by omega
  generalize n / 4294967296 / 16777216 % 256 = A at *
  generalize n / 4294967296 / 65536 % 256 = B at *
  generalize n / 4294967296 / 256 % 256 = C at *
  generalize n / 4294967296 % 256 = D at *
  generalize n / 16777216 % 256 = E at *
  generalize n / 65536 % 256 = F at *
  generalize n / 256 % 256 = G at *
  generalize n % 256 = H at *
  generalize n / 4294967296 = hi at *
  generalize n % 4294967296 = lo at *
  clear e1 e2 e3 f1 f2 f3 f4 h hhi
  subst hn; rw [← a, ← b]; simp only [Nat.add_mul, Nat.mul_assoc, Nat.reduceMul, Nat.add_assoc]

theorem get64_be64 (v : UInt64) :
    ∃ b0 b1 b2 b3 b4 b5 b6 b7, be64 v = [b0, b1, b2, b3, b4, b5, b6, b7] ∧
      get64 b0 b1 b2 b3 b4 b5 b6 b7 = v := by
  refine ⟨_, _, _, _, _, _, _, _, beN8 v.toNat, ?_⟩
  apply UInt64.toNat_inj.mp
  rw [get64_toNat]
  have h : v.toNat < 18446744073709551616 := v.toNat_lt
  have e : ∀ x, x % 256 % 256 = x % 256 := fun x => by omega
  simp only [UInt8.toNat_ofNat', Nat.reducePow, e]
  exact bytes8 v.toNat h

end Rtosc.Osc
