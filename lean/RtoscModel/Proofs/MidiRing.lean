/-
  C20 — `MidiMapperRT::PendingQueue` (include/rtosc/miditable.h) as the code has it: a ring of
  32 `int` cells (`-1` = free), a read cursor, a write cursor and a size; `has` scans all 32
  cells.  The model (`RtoscModel/Midi.lean`) uses the FIFO list of the occupied cells
  (`pendInsert`, `List.drop 1`, `List.contains`).  Here: the list is a sound abstraction of the
  ring — for every sequence of insert / pop from the initial state, in particular when the
  cursors wrap around (more than 32 pops in one session).
-/
import RtoscModel.Midi
namespace Rtosc.Midi

/-- `PendingQueue`: `vals[32]` (`none` = `-1`), `pos_r`, `pos_w`, `size` -/
structure Ring where
  vals : Nat → Option Nat
  posR : Nat
  posW : Nat
  size : Nat

def Ring.init : Ring := ⟨fun _ => none, 0, 0, 0⟩

/-- `has`: `for(i<32) if(vals[i]==x) return true` -/
def Ring.has (r : Ring) (x : Nat) : Bool := (List.range 32).any (fun j => r.vals j == some x)

/-- `insert` -/
def Ring.insert (r : Ring) (x : Nat) : Ring :=
  if r.has x ∨ r.size > 31 then r
  else ⟨fun j => if j = r.posW then some x else r.vals j, r.posR, (r.posW + 1) % 32, r.size + 1⟩

/-- `pop` -/
def Ring.pop (r : Ring) : Ring :=
  if r.size = 0 then r
  else ⟨fun j => if j = r.posR then none else r.vals j, (1 + r.posR) % 32, r.posW, r.size - 1⟩

/-- the ring `r` holds exactly the list `l`, oldest first -/
structure RingOk (r : Ring) (l : List Nat) : Prop where
  posR : r.posR < 32
  len : l.length = r.size
  size : r.size ≤ 32
  posW : r.posW = (r.posR + r.size) % 32
  cells : ∀ i, i < r.size → r.vals ((r.posR + i) % 32) = l[i]?
  free : ∀ j, j < 32 → (∀ i, i < r.size → j ≠ (r.posR + i) % 32) → r.vals j = none

theorem ringOk_init : RingOk Ring.init [] :=
  ⟨by decide, rfl, by decide, rfl, fun i h => absurd h (Nat.not_lt_zero i), fun _ _ _ => rfl⟩

theorem Ring.has_eq {r : Ring} {l : List Nat} (h : RingOk r l) (x : Nat) : r.has x = l.contains x := by
  rw [Bool.eq_iff_iff]
  simp only [Ring.has, List.any_eq_true, List.mem_range, beq_iff_eq, List.contains_iff_mem]
  constructor
  · rintro ⟨j, hj, hv⟩
    by_cases hex : ∃ i, i < r.size ∧ j = (r.posR + i) % 32
    · obtain ⟨i, hi, rfl⟩ := hex
      rw [h.cells i hi] at hv
      exact List.mem_of_getElem? hv
    · have := h.free j hj (fun i hi e => hex ⟨i, hi, e⟩)
      rw [this] at hv; cases hv
  · intro hm
    obtain ⟨i, hi, rfl⟩ := List.getElem_of_mem hm
    have hi' : i < r.size := h.len ▸ hi
    refine ⟨(r.posR + i) % 32, Nat.mod_lt _ (by decide), ?_⟩
    rw [h.cells i hi', List.getElem?_eq_getElem hi]

theorem ringOk_insert {r : Ring} {l : List Nat} (h : RingOk r l) (x : Nat) :
    RingOk (r.insert x) (pendInsert l x) := by
  unfold Ring.insert pendInsert
  rw [Ring.has_eq h, h.len]
  by_cases hc : l.contains x = true ∨ r.size > 31
  · simp only [hc, if_true]; exact h
  · simp only [hc, if_false]
    have hs : r.size ≤ 31 := by omega
    have hR := h.posR
    have hW := h.posW
    refine ⟨hR, by simp [h.len], by simp only; omega, by simp only; omega, ?_, ?_⟩
    · intro i hi
      simp only at hi ⊢
      by_cases hlast : i = r.size
      · subst hlast
        rw [if_pos hW.symm, ← h.len]; simp
      · have hi' : i < r.size := by omega
        have hne : (r.posR + i) % 32 ≠ r.posW := by omega
        rw [if_neg hne, h.cells i hi', List.getElem?_append_left (by rw [h.len]; exact hi')]
    · intro j hj hfree
      simp only at hfree ⊢
      have hne : j ≠ r.posW := by have := hfree r.size (by omega); omega
      rw [if_neg hne]
      exact h.free j hj (fun i hi => hfree i (by omega))

theorem ringOk_pop {r : Ring} {l : List Nat} (h : RingOk r l) : RingOk r.pop (l.drop 1) := by
  unfold Ring.pop
  by_cases hz : r.size = 0
  · simp only [hz, if_true]
    have : l = [] := List.eq_nil_of_length_eq_zero (by rw [h.len, hz])
    subst this; exact h
  · simp only [hz, if_false]
    have hR := h.posR
    have hS := h.size
    have hW := h.posW
    refine ⟨Nat.mod_lt _ (by decide), by simp [h.len], by simp only; omega, by simp only; omega, ?_, ?_⟩
    · intro i hi
      simp only at hi ⊢
      have e : ((1 + r.posR) % 32 + i) % 32 = (r.posR + (i + 1)) % 32 := by omega
      have hne : (r.posR + (i + 1)) % 32 ≠ r.posR := by omega
      rw [e, if_neg hne, h.cells (i + 1) (by omega), List.getElem?_drop, Nat.add_comm 1 i]
    · intro j hj hfree
      simp only at hfree ⊢
      by_cases hjr : j = r.posR
      · rw [if_pos hjr]
      · rw [if_neg hjr]
        apply h.free j hj
        intro i hi
        by_cases hi0 : i = 0
        · subst hi0; omega
        · have := hfree (i - 1) (by omega)
          omega

/-- the three operations of the queue -/
inductive QOp where
  | insert (x : Nat)
  | pop

def Ring.apply (r : Ring) : QOp → Ring
  | .insert x => r.insert x
  | .pop => r.pop

def pendApply (l : List Nat) : QOp → List Nat
  | .insert x => pendInsert l x
  | .pop => l.drop 1

/-- **The FIFO list of the model is a sound abstraction of the 32-cell ring of the code**: after
    ANY sequence of `insert`/`pop` from the initial state (any number of wrap-arounds of the two
    cursors) the ring holds exactly the model's list, `has` answers what `List.contains` answers,
    and `size` is the list's length. -/
theorem pending_list_refines_ring (ops : List QOp) :
    RingOk (ops.foldl Ring.apply Ring.init) (ops.foldl pendApply []) ∧
    ∀ x, (ops.foldl Ring.apply Ring.init).has x = (ops.foldl pendApply []).contains x := by
  have key : ∀ (ops : List QOp) r l, RingOk r l → RingOk (ops.foldl Ring.apply r) (ops.foldl pendApply l) := by
    intro ops
    induction ops with
    | nil => intro r l h; exact h
    | cons op rest ih =>
      intro r l h
      simp only [List.foldl_cons]
      apply ih
      cases op with
      | insert x => exact ringOk_insert h x
      | pop => exact ringOk_pop h
  have h := key ops _ _ ringOk_init
  exact ⟨h, fun x => Ring.has_eq h x⟩

end Rtosc.Midi
