/-
  C04 helper lemmas, part 7: `Ports::dispatch` at the root (`base_dispatch`, the
  `if(d.loc[0] == 0)` initialisation) in terms of `semNo` / `semLoc`.
-/
import RtoscModel.Proofs.PortsProps
namespace Rtosc.Ports
open Rtosc Rtosc.Match Rtosc.Ports.Hash

/-- `if(m && *m == '/') m++;` on the address -/
def stripSlash : Bytes → Bytes
  | 47 :: r => r
  | a => a

/-- the address the root table is searched with -/
def rootAddr (base : Bool) (addr : Bytes) : Bytes := if base then stripSlash addr else addr

theorem stripSlash_suffix (a : Bytes) : ∃ pre, a = pre ++ stripSlash a := by
  unfold stripSlash
  split
  · exact ⟨[47], rfl⟩
  · exact ⟨[], rfl⟩

theorem rootAddr_suffix (base : Bool) (a : Bytes) : ∃ pre, a = pre ++ rootAddr base a := by
  unfold rootAddr
  split
  · exact stripSlash_suffix a
  · exact ⟨[], rfl⟩

theorem MsgOK.root {a tags rst : Bytes} {n : Nat} (h : MsgOK a tags rst n) (base : Bool) :
    MsgOK (rootAddr base a) tags rst n := by
  obtain ⟨pre, hpre⟩ := rootAddr_suffix base a
  refine ⟨?_, ?_, h.t_nul⟩
  · intro c hc; exact h.a_nul c (by rw [hpre]; exact List.mem_append_right _ hc)
  · have := h.a_idx; rw [hpre] at this; exact this.suffix

/-- the message pointer after the `base_dispatch` step -/
theorem root_msg (base : Bool) (a ex : Bytes) (ha : NulFree a) :
    (if base then
        (match (a ++ 0 :: ex) with
         | [] => none
         | c :: r => some (if c = 47 then r else c :: r))
     else some (a ++ 0 :: ex)) = some (rootAddr base a ++ 0 :: ex) := by
  cases base with
  | false => simp [rootAddr]
  | true =>
    simp only [↓reduceIte, rootAddr]
    cases a with
    | nil => simp [stripSlash]
    | cons c r =>
      by_cases h : c = 47
      · subst h; simp [stripSlash]
      · simp only [List.cons_append, h, ↓reduceIte, Option.some.injEq]
        unfold stripSlash
        split
        · next heq => simp only [List.cons.injEq] at heq; exact absurd heq.1 h
        · rfl

/-! ### without location buffer -/

/-- `RtData` after the `base_dispatch` step when `d.loc` is NULL -/
def rootDataNo (base : Bool) (d : RtData) : RtData := if base then { d with nmatches := 0 } else d

theorem dispatch_noLoc (mk : List Bytes → Option Matcher) {P : PPorts} (hwf : P.tab.WF) {n : Nat}
    {addr tags rst : Bytes} (k : Nat) (hm : MsgOK addr tags rst n)
    (base : Bool) (d : RtData) (hd : d.loc = none) :
    dispatch mk P.render (addr ++ 0 :: msgTail k tags rst) d base =
      some (finNo P.dflt [] d.obj (rootAddr base addr ++ 0 :: msgTail k tags rst)
        (semNo P.tab [] 0 d.obj (rootAddr base addr) tags (msgTail k tags rst) (rootDataNo base d) false)) := by
  obtain ⟨loc, locSize, locHigh, obj, nmatches, port⟩ := d
  simp only at hd
  subst hd
  have hsc := scanNoLoc_sem k tags rst n P.tab hwf [] 0 obj (rootAddr base addr)
    (rootDataNo base ⟨none, locSize, locHigh, obj, nmatches, port⟩) false (hm.root base)
  unfold dispatch
  cases base with
  | false =>
    simp only [Bool.false_eq_true, ↓reduceIte, Option.isNone_none, Bool.true_or, PPorts.render]
    simp only [rootAddr, rootDataNo, Bool.false_eq_true, ↓reduceIte] at hsc ⊢
    rw [hsc, finishNoLoc_some]
  | true =>
    have hmsg := root_msg true addr (msgTail k tags rst) hm.a_nul
    simp only [↓reduceIte] at hmsg
    simp only [↓reduceIte, PPorts.render]
    cases hmm : (addr ++ 0 :: msgTail k tags rst) with
    | nil => simp at hmm
    | cons c r =>
      rw [hmm] at hmsg
      simp only [Option.some.injEq] at hmsg
      simp only [hmsg, Option.isNone_none, Bool.true_or, ↓reduceIte]
      simp only [rootDataNo, ↓reduceIte] at hsc ⊢
      rw [hsc, finishNoLoc_some]

/-! ### with location buffer -/

/-- `RtData` after the `base_dispatch` step and the `if(d.loc[0] == 0)` initialisation,
    when `d.loc` is not NULL -/
def rootDataLoc (base : Bool) (d : RtData) : RtData :=
  let d1 : RtData := if base then { d with nmatches := 0, loc := some [], locHigh := max d.locHigh 1 } else d
  if d1.locStr.isEmpty then { d1 with loc := some [47], locHigh := max d1.locHigh d1.locSize } else d1

/-- the content of `loc` while the root table is searched -/
def rootLoc (base : Bool) (L0 : Bytes) : Bytes := if base || L0.isEmpty then [47] else L0

theorem rootDataLoc_loc (base : Bool) (d : RtData) (L0 : Bytes) (hd : d.loc = some L0) :
    (rootDataLoc base d).loc = some (rootLoc base L0) := by
  cases base with
  | true => simp [rootDataLoc, rootLoc, RtData.locStr]
  | false =>
    simp only [rootDataLoc, Bool.false_eq_true, ↓reduceIte, RtData.locStr, hd, Option.getD_some, rootLoc,
      Bool.false_or]
    split <;> simp_all

theorem rootLoc_ne (base : Bool) (L0 : Bytes) : rootLoc base L0 ≠ [] := by
  unfold rootLoc
  split
  · simp
  · next h => simp only [Bool.or_eq_true, not_or, Bool.not_eq_true] at h; simpa using h.2

theorem rootDataLoc_obj (base : Bool) (d : RtData) : (rootDataLoc base d).obj = d.obj := by
  simp only [rootDataLoc]; cases base <;> simp <;> split <;> rfl

theorem rootDataLoc_port (base : Bool) (d : RtData) : (rootDataLoc base d).port = d.port := by
  simp only [rootDataLoc]; cases base <;> simp <;> split <;> rfl

theorem rootDataLoc_nmatches (base : Bool) (d : RtData) :
    (rootDataLoc base d).nmatches = if base then 0 else d.nmatches := by
  simp only [rootDataLoc]; cases base <;> simp <;> split <;> rfl

/-- entering with an empty `loc` is entering with "/" -/
theorem enterLoc_empty (mk : List Bytes → Option Matcher) (names : List Bytes) (dflt : Bool) (tp : List Nat)
    (m : Bytes) (d : RtData) (lin : Nat → RtData → ScanOut) (hsh : Nat → Nat → Bytes → Bool → RtData → Out)
    (h : d.locStr.isEmpty = true) :
    enterLoc mk names dflt tp m d lin hsh =
      enterLoc mk names dflt tp m { d with loc := some [47], locHigh := max d.locHigh d.locSize } lin hsh := by
  have h' : d.loc.getD [] = [] := by simpa [RtData.locStr] using h
  unfold enterLoc
  simp [h', RtData.locStr]

theorem dispatch_loc {mk : List Bytes → Option Matcher} (hmk : MkOK mk) {P : PPorts} (hwf : P.tab.WF) {n : Nat}
    {addr tags rst : Bytes} (k : Nat) (hm : MsgOK addr tags rst n)
    (base : Bool) (d : RtData) (L0 : Bytes) (hd : d.loc = some L0) (hsz : d.locSize ≠ 0) :
    dispatch mk P.render (addr ++ 0 :: msgTail k tags rst) d base =
      some (finLoc P.dflt [] d.obj (rootAddr base addr ++ 0 :: msgTail k tags rst)
        (semLoc P.tab [] 0 d.obj (rootLoc base L0) (rootAddr base addr) tags (msgTail k tags rst)
          (rootDataLoc base d) false)) := by
  obtain ⟨hL, hH⟩ := lin_hsh hmk k tags rst n P.tab hwf
  have hent := ent_of hmk hwf hL hH
  have hE := hent P.dflt [] (rootLoc base L0) (rootAddr base addr) (rootDataLoc base d) (hm.root base)
    (rootDataLoc_loc base d L0 hd) (rootLoc_ne base L0)
  rw [rootDataLoc_obj] at hE
  have hszb : (d.locSize == 0) = false := by simpa using hsz
  unfold dispatch
  cases base with
  | false =>
    simp only [Bool.false_eq_true, ↓reduceIte, hd, Option.isNone_some, hszb, Bool.or_self, PPorts.render]
    simp only [rootAddr, Bool.false_eq_true, ↓reduceIte] at hE ⊢
    by_cases he : d.locStr.isEmpty = true
    · rw [enterLoc_empty _ _ _ _ _ _ _ _ he]
      have : rootDataLoc false d = { d with loc := some [47], locHigh := max d.locHigh d.locSize } := by
        simp [rootDataLoc, he]
      rw [this] at hE ⊢
      exact hE
    · have : rootDataLoc false d = d := by simp [rootDataLoc, he]
      rw [this] at hE ⊢
      exact hE
  | true =>
    have hmsg := root_msg true addr (msgTail k tags rst) hm.a_nul
    simp only [↓reduceIte] at hmsg
    simp only [↓reduceIte, PPorts.render]
    cases hmm : (addr ++ 0 :: msgTail k tags rst) with
    | nil => simp at hmm
    | cons c r =>
      rw [hmm] at hmsg
      simp only [Option.some.injEq] at hmsg
      simp only [hd, hmsg, Option.isNone_some, hszb, Bool.or_self, Bool.false_eq_true, ↓reduceIte]
      rw [enterLoc_empty _ _ _ _ _ _ _ _ (by simp [RtData.locStr])]
      have : rootDataLoc true d =
          { ({ d with nmatches := 0, loc := some [], locHigh := max d.locHigh 1 } : RtData) with
            loc := some [47], locHigh := max (max d.locHigh 1) d.locSize } := by
        simp [rootDataLoc, RtData.locStr]
      rw [this] at hE ⊢
      exact hE

end Rtosc.Ports
