/-
  C12, text level — the savefile text stage (RtoscModel/Save/Text.lean) is transparent:
  * `LineTextOK` / `ValTextOK`: the lines and values for which C10's token theorems apply; an array
    line may contain compressed runs (`ArrCutOK`: the printer's decisions on its elements are plain
    values, constant runs `nxT` and int32 arithmetic runs `a ... z`; Proofs/SaveTextCut.lean);
  * `lineText_msgText`: the printed line is read back by the checker and the scanner wherever it
    stands in a file (`ScansAs`, Proofs/SaveTextRunsMsg.lean), and the scanned cells — repetition and
    range blocks expanded by the dispatch loop's iterator (Proofs/SaveTextExpand.lean) — convert
    back to the line's arguments;
  * `scanBodyText_lines`: the message loop of `dispatch_printed_messages` reads the lines back;
  * `parseHeader_fileTextOf`: the two header lines are read back;
  * `loadText_saveText`: `load_from_file` on the text of `save_to_file` is `App.loadFile` on the
    abstract file.
-/
import RtoscModel.Save.Text
import RtoscModel.Proofs.SaveTextMsg
import RtoscModel.Proofs.SaveTextRunsMsg
import RtoscModel.Proofs.SaveTextExpand
import RtoscModel.Proofs.SaveTextCut
import RtoscModel.Proofs.PrettyTokHuge
import RtoscModel.Proofs.PrettyTokWord
import RtoscModel.Proofs.PrettyTokChar
import RtoscModel.Proofs.PrettyTokStr
import RtoscModel.Proofs.PrettyTokSym
import RtoscModel.Proofs.PrettyTokFloat
namespace Rtosc.Save.Text
open Rtosc Rtosc.Libc Rtosc.Pretty Rtosc.Save
open Rtosc.ArgVal (Cell)

/-! ### the values and lines the text stages are proved for -/

/-- a character of a port name or symbol that is one byte of text -/
def CharByte (c : Char) : Prop := c.toNat < 256

instance (c : Char) : Decidable (CharByte c) := inferInstanceAs (Decidable (c.toNat < 256))

/-- **the parameter values covered**: every `int32_t`; the chars NUL, 7..13 and 32..126 (C10's `CharOK`:
    what the printer writes as a character literal or escape); every finite float (printed lossless,
    `0.50 (0x1p-1)`; not ±infinity, not NaN); both toggles; option symbols and strings of printable
    characters and C escapes (bytes 7..13, 32..126: C10's `StrByteOK`; quotes, backslashes, '%',
    newlines — which start a continuation line — included). -/
def ValTextOK : Val → Prop
  | .int i => -2147483648 ≤ i ∧ i ≤ 2147483647
  | .chr c => CharOK c
  | .flt b => f32.expField b.toNat ≠ 255
  | .bool _ => True
  | .sym s => ∀ c ∈ s, CharByte c ∧ StrByteOK (byteOfChar c)
  | .str bs => ∀ b ∈ bs, StrByteOK b

/-- an address the text stages handle: starts with '/', one-byte characters, no white space, shorter
    than the port name buffer of `dispatch_printed_messages` (the newline in front of the first
    message counts) -/
def AddrTextOK (a : Path) : Prop :=
  a.head? = some '/' ∧ (∀ c ∈ a, CharByte c ∧ isspace (byteOfChar c) = false) ∧ a.length + 2 ≤ nameBufSize

/-- **the printer cuts the elements `vs` of an array line into the segments `body`**: plain values,
    constant runs of five or more equal values (printed `nxT`) and int32 arithmetic runs of five or
    more values (printed `a ... z` or `a b ... z`), in any number and order; `CutOK`: at the start of
    every segment `rtosc_convert_to_range`, called on the elements left in the array, gives exactly
    that segment (and an arithmetic run satisfies C10's overflow guards `RunHyp`).
    Proofs/SaveTextCut.lean has the decision procedure `cutOf` (`cutOf_sound`) and criteria on the
    values (`SegStep.tok_of_short`, `SegStep.crun_of_next`, `SegStep.irun_of_next`,
    `cutOK_of_noLongRun`). -/
def ArrCutOK (vs : List Val) (body : List RSeg) : Prop :=
  cellsAll body = vs.map cellOfVal ∧ CutOK body

/-- **the savefile lines covered**: a scalar port's line `addr value`; an array port's line
    `addr [v0 v1 …]` with at least one element, all covered values of one type (true/false count as
    one), of any length, whose elements the printer cuts into plain values, constant runs and int32
    arithmetic runs (`ArrCutOK`) — `rtosc_print_arg_vals` compresses five or more equal or
    equidistant values (`[5x7]`, `[1 ... 6]`).  Not covered: the other answers of
    `rtosc_convert_to_range` — an arithmetic run of chars (`['a' ... 'f']`) — and nested arrays
    (no savefile has them). -/
def LineTextOK (l : Line) : Prop :=
  AddrTextOK l.addr ∧
  match l.args with
  | .plain vs => ∃ v, vs = [v] ∧ ValTextOK v
  | .arr vs => vs ≠ [] ∧ (∀ v ∈ vs, ValTextOK v) ∧
      (∀ v ∈ vs, typesMatch ((vs.map cellOfVal).headD (Cell.flag .N)).type (cellOfVal v).type = true) ∧
      ∃ body, ArrCutOK vs body

/-- the application name in the second header line: what `%127s` reads back -/
def NameTextOK (n : Path) : Prop :=
  n ≠ [] ∧ n.length ≤ 127 ∧ ∀ c ∈ n, CharByte c ∧ isspace (byteOfChar c) = false ∧ byteOfChar c ≠ 0

/-! ### conversions -/

theorem charOfByte_byteOfChar (c : Char) (h : CharByte c) : charOfByte (byteOfChar c) = c := by
  unfold charOfByte byteOfChar CharByte at *
  have : c.toNat.toUInt8.toNat = c.toNat := by
    simp [Nat.toUInt8, UInt8.toNat_ofNat', Nat.mod_eq_of_lt h]
  rw [this]
  exact Char.ofNat_toNat c

theorem bytesPath_pathBytes (p : Path) (h : ∀ c ∈ p, CharByte c) : bytesPath (pathBytes p) = p := by
  induction p with
  | nil => rfl
  | cons c r ih =>
    simp only [pathBytes, bytesPath, List.map_cons, List.map_map] at ih ⊢
    rw [charOfByte_byteOfChar c (h c (by simp))]
    congr 1
    exact ih (fun x hx => h x (by simp [hx]))

theorem valOfCell_cellOfVal (v : Val) (h : ValTextOK v) : valOfCell (cellOfVal v) = some v := by
  cases v with
  | int i => rfl
  | chr c => rfl
  | flt b => rfl
  | bool b => cases b <;> rfl
  | sym s =>
    simp only [cellOfVal, valOfCell]
    rw [bytesPath_pathBytes s (fun c hc => (h c hc).1)]
  | str bs => rfl

theorem mapM_valOfCell (vs : List Val) (h : ∀ v ∈ vs, ValTextOK v) :
    (vs.map cellOfVal).mapM valOfCell = some vs := by
  induction vs with
  | nil => rfl
  | cons v r ih =>
    simp only [List.map_cons, List.mapM_cons, valOfCell_cellOfVal v (h v (by simp)),
      ih (fun x hx => h x (by simp [hx]))]
    rfl

theorem cellOfVal_scalar (v : Val) : (cellOfVal v).isScalar = true := by
  cases v with
  | bool b => cases b <;> rfl
  | _ => rfl

/-- every covered value has a proved token under the default print options -/
theorem printsTok_cellOfVal (v : Val) (h : ValTextOK v) : PrintsTok defaultOpt (cellOfVal v) := by
  cases v with
  | int i => exact printsTok_int _ i h.1 h.2
  | chr c => exact printsTok_char _ c h
  | flt b => exact printsTok_float _ rfl (by decide) b h
  | bool b => cases b <;> exact printsTok_flag _ _
  | sym s =>
    have hb : ∀ b ∈ pathBytes s, StrByteOK b := by
      intro b hb
      simp only [pathBytes, List.mem_map] at hb
      obtain ⟨c, hc, rfl⟩ := hb
      exact (h c hc).2
    by_cases hp : symbolPlain (pathBytes s) = true
    · exact printsTok_symbol_plain _ _ hp
    · exact printsTok_symbol_quoted _ _ hb (by simpa using hp)
  | str bs => exact printsTok_string _ bs h

theorem arrTy_eq_lastTy (cs : List Cell) : arrTy cs = lastTy cs 32 := rfl

/-- the arguments of a line, grouped as the printer's loop sees them: one value, or one array -/
def groupsOf : Args → List (List Cell)
  | .plain vs => vs.map fun v => [cellOfVal v]
  | .arr vs => [Cell.arr (arrTy (vs.map cellOfVal)) (vs.length : Nat) :: vs.map cellOfVal]

theorem groupsOf_flatten (a : Args) : (groupsOf a).flatten = cellsOfArgs a := by
  cases a with
  | plain vs =>
    simp only [groupsOf, cellsOfArgs]
    induction vs with
    | nil => rfl
    | cons v r ih => simp [ih]
  | arr vs => simp [groupsOf, cellsOfArgs]

/-- an array at the head of the argument list is no run: `rtosc_convert_to_range` counts one
    argument of type 'a' -/
theorem convertToRange_arrayHead (opt : POpt) (ety : UInt8) (es : List Cell) :
    convertToRange opt (Cell.arr ety (es.length : Nat) :: es) (es.length + 1) = .ok none := by
  unfold convertToRange
  by_cases hs : es.length + 1 < rangeMin
  · simp [hs, pure, Except.pure]
  · simp only [hs, ↓reduceIte, Pretty.deref, bind, Except.bind]
    by_cases hcr : (Cell.arr ety (es.length : Nat)).type = ArgVal.tyRange ∨ (!opt.compress) = true
    · rcases hcr with hcr | hcr <;> simp [hcr, pure, Except.pure]
    · simp only [hcr, ↓reduceIte]
      have hcc : countCommon (es.length + 1 + 1) (Cell.arr ety (es.length : Nat)).type
          (Cell.arr ety (es.length : Nat) :: es) (es.length + 1) 0 0 = .ok 1 := by
        unfold countCommon
        have hneg : ¬ (((es.length : Nat) : Int) < 0) := by omega
        simp only [Nat.zero_lt_succ, ↓reduceIte, List.drop_zero, Pretty.deref, bind, Except.bind, ne_eq,
          not_true_eq_false, incsize, hneg, pure, Except.pure, Int.toNat_natCast, Nat.zero_add]
        unfold countCommon
        simp [pure, Except.pure]
      simp [hcc, rangeMin, pure, Except.pure]

/-! ### the dispatch loop's iterator on plain values -/

/-- the pointers `rtosc_arg_val_itr_get` yields over a list without ranges and arrays -/
def sufs : List Cell → List (List Cell)
  | [] => []
  | c :: r => (c :: r) :: sufs r

theorem iterate_scalars : ∀ (rest : List Cell), (∀ c ∈ rest, c.isScalar = true) →
    ∀ (k size fuel : Nat), size = k + rest.length → rest.length + 1 ≤ fuel →
      ArgVal.iterate fuel ⟨rest, k, 0⟩ size = .ok (sufs rest) := by
  intro rest
  induction rest with
  | nil =>
    intro _ k size fuel hs hf
    cases fuel with
    | zero => omega
    | succ f => simp [ArgVal.iterate, hs, sufs, pure, Except.pure]
  | cons c r ih =>
    intro hsc k size fuel hs hf
    cases fuel with
    | zero => omega
    | succ f =>
      have hc := hsc c (by simp)
      have hlt : k < size := by simp only [List.length_cons] at hs; omega
      have hget : (ArgVal.Itr.mk (c :: r) k 0).get = .ok (c :: r) := by
        cases c <;> simp_all [ArgVal.Itr.get, ArgVal.deref, ArgVal.Cell.asRange, ArgVal.Cell.isScalar, bind, Except.bind,
          pure, Except.pure]
      have hnext : (ArgVal.Itr.mk (c :: r) k 0).next = .ok ⟨r, k + 1, 0⟩ := by
        cases c <;> simp_all [ArgVal.Itr.next, ArgVal.deref, ArgVal.Cell.asRange, ArgVal.Cell.asArr,
          ArgVal.Cell.isScalar, bind, Except.bind, pure, Except.pure]
      unfold ArgVal.iterate
      simp only [hlt, ↓reduceIte, hget, hnext, bind, Except.bind]
      rw [ih (fun x hx => hsc x (by simp [hx])) (k + 1) size f (by simp only [List.length_cons] at hs; omega)
        (by simp only [List.length_cons] at hf; omega)]
      rfl

theorem iterFuel_ge (cs : List Cell) : cs.length + 1 ≤ iterFuel cs := by
  induction cs with
  | nil => simp [iterFuel]
  | cons c r ih => cases c <;> simp [iterFuel] <;> omega

theorem mapM_sufs (cs : List Cell) : (sufs cs).mapM headCell = .ok cs := by
  induction cs with
  | nil => rfl
  | cons c r ih => simp only [sufs, List.mapM_cons, headCell, ih, bind, Except.bind, pure, Except.pure]

/-- without ranges there is nothing to expand -/
theorem expandCells_scalars (cs : List Cell) (h : ∀ c ∈ cs, c.isScalar = true) : expandCells cs = .ok cs := by
  unfold expandCells
  have := iterate_scalars cs h 0 cs.length (iterFuel cs) (by simp) (iterFuel_ge cs)
  simp only [ArgVal.Itr.init, this, liftAV, bind, Except.bind]
  exact mapM_sufs cs

theorem argsOfCells_plain (vs : List Val) (h : ∀ v ∈ vs, ValTextOK v) (hne : vs ≠ []) :
    argsOfCells (vs.map cellOfVal) = .ok (.plain vs) := by
  have hexp := expandCells_scalars (vs.map cellOfVal) (by
    intro c hc; simp only [List.mem_map] at hc; obtain ⟨v, _, rfl⟩ := hc; exact cellOfVal_scalar v)
  obtain ⟨v, r, rfl⟩ := List.exists_cons_of_ne_nil hne
  have hnotarr : ∀ ety len, cellOfVal v ≠ Cell.arr ety len := by
    intro ety len; cases v with
    | bool b => cases b <;> simp [cellOfVal]
    | _ => simp [cellOfVal]
  simp only [List.map_cons] at hexp ⊢
  unfold argsOfCells
  split
  · rename_i ety len es heq
    simp only [List.cons.injEq] at heq
    exact absurd heq.1 (hnotarr ety len)
  · have hm := mapM_valOfCell (v :: r) h
    simp only [List.map_cons] at hm
    simp only [hexp, bind, Except.bind, hm, pure, Except.pure]

theorem argsOfCells_arr (vs : List Val) (h : ∀ v ∈ vs, ValTextOK v) (ety : UInt8) :
    argsOfCells (Cell.arr ety (vs.length : Nat) :: vs.map cellOfVal) = .ok (.arr vs) := by
  have hexp := expandCells_scalars (vs.map cellOfVal) (by
    intro c hc; simp only [List.mem_map] at hc; obtain ⟨v, _, rfl⟩ := hc; exact cellOfVal_scalar v)
  simp only [argsOfCells, List.length_map, ↓reduceIte, hexp, bind, Except.bind, mapM_valOfCell vs h, pure, Except.pure]

/-! ### one line -/

/-- what the load side needs to know about a line and its text: wherever the text stands in a file,
    checker and scanner read it as the address and some cells (`ScansAs`), and these cells are the
    line's arguments (after the expansion of repetitions and ranges) -/
structure LineScans (l : Line) (t : Bytes) : Prop where
  scans : ∃ cells, ScansAs (pathBytes l.addr) cells t ∧ argsOfCells cells = .ok l.args
  addr_back : bytesPath (pathBytes l.addr) = l.addr
  addr_len : (pathBytes l.addr).length + 2 ≤ nameBufSize

theorem addrOK_of_text {a : Path} (h : AddrTextOK a) : AddrOK (pathBytes a) := by
  obtain ⟨h1, h2, _⟩ := h
  constructor
  · cases a with
    | nil => cases h1
    | cons c r =>
      simp only [List.head?_cons, Option.some.injEq] at h1
      subst h1
      rfl
  · intro b hb
    simp only [pathBytes, List.mem_map] at hb
    obtain ⟨c, hc, rfl⟩ := hb
    exact (h2 c hc).2

/-- **a covered line is printed as a message text** that converts back to the line -/
theorem lineText_msgText (l : Line) (h : LineTextOK l) : ∃ t, lineText l = .ok t ∧ LineScans l t := by
  obtain ⟨haddr, hargs⟩ := h
  have hA := addrOK_of_text haddr
  have hback : bytesPath (pathBytes l.addr) = l.addr := bytesPath_pathBytes _ (fun c hc => (haddr.2.1 c hc).1)
  have hlen : (pathBytes l.addr).length + 2 ≤ nameBufSize := by
    simpa [pathBytes] using haddr.2.2
  obtain ⟨addr, args⟩ := l
  simp only at hargs hA hback hlen ⊢
  have key : ∀ (hne : groupsOf args ≠ []) (hP : ∀ cs ∈ groupsOf args, PrintsArg defaultOpt cs)
      (hconv : ∀ done cs rem, groupsOf args = done ++ cs :: rem →
        convertToRange defaultOpt (cs :: rem).flatten (cs :: rem).flatten.length = .ok none)
      (hb : argsOfCells (groupsOf args).flatten = .ok args),
      ∃ t, lineText ⟨addr, args⟩ = .ok t ∧ LineScans ⟨addr, args⟩ t := by
    intro hne hP hconv hb
    obtain ⟨st, ret, hpr, hmsg⟩ := printMessage_msgText defaultOpt (pathBytes addr) (groupsOf args) hA hne hP hconv
    refine ⟨st.out, ?_, ⟨⟨_, hmsg.scansAs, hb⟩, hback, hlen⟩⟩
    unfold lineText
    rw [groupsOf_flatten] at hpr
    simp only [hpr, bind, Except.bind, pure, Except.pure]
  cases args with
  | plain vs =>
    obtain ⟨v, rfl, hv⟩ := hargs
    apply key
    · simp [groupsOf]
    · intro cs hcs
      simp only [groupsOf, List.map_cons, List.map_nil, List.mem_singleton] at hcs
      subst hcs
      exact printsArg_of_printsTok (printsTok_cellOfVal v hv) (cellOfVal_scalar v)
    · exact noConversion_args_small defaultOpt _ (by simp [groupsOf])
    · rw [groupsOf_flatten]
      exact argsOfCells_plain [v] (by intro x hx; simp only [List.mem_singleton] at hx; subst hx; exact hv) (by simp)
  | arr vs =>
    obtain ⟨hne, hv, hty, body, hcells, hcut⟩ := hargs
    have hseg : Segmented defaultOpt body := hcut.segmented (by
      intro c hc
      rw [hcells] at hc
      simp only [List.mem_map] at hc
      obtain ⟨v, hvm, rfl⟩ := hc
      exact ⟨cellOfVal_scalar v, printsTok_cellOfVal v (hv v hvm)⟩)
    have htyB : ArrTypesOK body := by
      intro e he
      rw [hcells] at he ⊢
      simp only [List.mem_map] at he
      obtain ⟨v, hvm, rfl⟩ := he
      exact hty v hvm
    have hhdr : cellsOfArgs (.arr vs) = arrHdr body :: cellsAll body := by
      simp only [cellsOfArgs, arrHdr, lastTyS_eq_lastTy hseg 32, hcells, arrTy_eq_lastTy, List.length_map]
    obtain ⟨st, ret, sep, B, hpr, hout, hsep, hB⟩ := printMessage_arrSegs defaultOpt rfl (pathBytes addr) hA hseg htyB
    refine ⟨st.out, ?_, ⟨⟨arrHdrS body :: scannedAll none body, ?_, ?_⟩, hback, hlen⟩⟩
    · unfold lineText
      simp only [hhdr, hpr, bind, Except.bind, pure, Except.pure]
    · rw [hout]
      exact arrSegs_scansAs hA hsep hB htyB
    · have hexp := expandCells_scannedAll hseg
      simp only [argsOfCells, arrHdrS, ↓reduceIte, hexp, bind, Except.bind, hcells, mapM_valOfCell vs hv, pure,
        Except.pure]

/-- **the old clause is an instance**: an array line without five same-typed neighbours (what
    `LineTextOK` demanded before runs inside arrays were proved) is cut into plain values -/
theorem arrCutOK_of_noLongRun (vs : List Val) (h : NoLongRun (vs.map cellOfVal)) :
    ArrCutOK vs ((vs.map cellOfVal).map RSeg.tok) :=
  cutOK_of_noLongRun (vs.map cellOfVal) (by
    intro c hc
    simp only [List.mem_map] at hc
    obtain ⟨v, _, rfl⟩ := hc
    exact cellOfVal_scalar v) h

/-- the decision procedure: `cutOf` (the model of `rtosc_convert_to_range` run on the elements,
    every answer checked) returns segments -/
theorem arrCutOK_of_cutOf (vs : List Val) (body : List RSeg)
    (h : cutOf (vs.length + 1) (vs.map cellOfVal) = some body) : ArrCutOK vs body :=
  cutOf_sound _ _ _ h

/-- the decidable form: the printer's decisions on the elements are all of the covered kinds -/
def arrCutB (vs : List Val) : Bool := (cutOf (vs.length + 1) (vs.map cellOfVal)).isSome

theorem arrCutOK_of_arrCutB (vs : List Val) (h : arrCutB vs = true) : ∃ body, ArrCutOK vs body := by
  unfold arrCutB at h
  cases hc : cutOf (vs.length + 1) (vs.map cellOfVal) with
  | none => rw [hc] at h; cases h
  | some body => exact ⟨body, arrCutOK_of_cutOf vs body hc⟩

/-! ### the message loop -/

theorem joinLines_cons2 (t t2 : Bytes) (ts : List Bytes) :
    joinLines (t :: t2 :: ts) = t ++ 10 :: joinLines (t2 :: ts) := rfl

theorem joinLines_head (t : Bytes) (ts : List Bytes) : ∃ x, joinLines (t :: ts) = t ++ x := by
  cases ts with
  | nil => exact ⟨[], by simp [joinLines]⟩
  | cons t2 r => exact ⟨10 :: joinLines (t2 :: r), rfl⟩

theorem scanBodyText_nil (fuel : Nat) : scanBodyText (fuel + 1) [] = .ok [] := by
  simp [scanBodyText]

/-- **the first loop of `dispatch_printed_messages` reads the lines of a file back**, in order -/
theorem scanBodyText_lines : ∀ (ls : List Line) (ts : List Bytes), List.Forall₂ LineScans ls ts → ls ≠ [] →
    ∀ (lead : Bytes), (∀ c ∈ lead, isspace c = true) → lead.length ≤ 1 →
    ∀ fuel, (lead ++ joinLines ts).length + 1 ≤ fuel →
      scanBodyText fuel (lead ++ joinLines ts) = .ok (ls.map some) := by
  intro ls ts h
  induction h with
  | nil => intro hne; exact absurd rfl hne
  | @cons l t ls' ts' hlt hrest ih =>
    intro _ lead hlead hl1 fuel hf
    obtain ⟨cells, hmsg, hcback⟩ := hlt.scans
    have ht47 := hmsg.1
    have htne : t ≠ [] := by intro e; rw [e] at ht47; simp at ht47
    have htpos : 0 < t.length := List.length_pos_iff.mpr htne
    have hal : lead.length + (pathBytes l.addr).length < nameBufSize := by
      have := hlt.addr_len; omega
    cases fuel with
    | zero => omega
    | succ f =>
      -- the tail behind this message
      have htail : ∃ tl, joinLines (t :: ts') = t ++ tl ∧ MsgTail tl ∧
          (tl = [] → ls' = []) ∧ (∀ r, tl = 10 :: r → r = joinLines ts' ∧ ls' ≠ []) := by
        cases hrest with
        | nil => exact ⟨[], by simp [joinLines], Or.inl rfl, fun _ => rfl, fun r hr => by cases hr⟩
        | @cons l2 t2 ls2 ts2 hlt2 hrest2 =>
          obtain ⟨x, hx⟩ := joinLines_head t2 ts2
          obtain ⟨_, hmsg2, _⟩ := hlt2.scans
          have h47 := hmsg2.1
          have ht2ne : t2 ≠ [] := by intro e; rw [e] at h47; simp at h47
          obtain ⟨c, r, hcr⟩ := List.exists_cons_of_ne_nil ht2ne
          rw [hcr, hd_cons] at h47
          refine ⟨10 :: joinLines (t2 :: ts2), rfl, Or.inr ⟨r ++ x, ?_⟩, (fun h => (by cases h)), (fun r' hr' => ?_)⟩
          · rw [hx, hcr, h47]; rfl
          · simp only [List.cons.injEq, true_and] at hr'
            exact ⟨hr'.symm, by simp⟩
      obtain ⟨tl, hjoin, htl, htlnil, htlcons⟩ := htail
      obtain ⟨hcount, hscan⟩ := hmsg.2 lead hlead tl htl nameBufSize hal
      rw [hjoin]
      have hnonempty : (lead ++ (t ++ tl)).isEmpty = false := by
        cases lead <;> cases t <;> simp_all
      have hnn : (0 : Int) ≤ (cells.length : Int) := by omega
      have hrd : lead.length + t.length + wsLen tl ≠ 0 := by omega
      unfold scanBodyText
      simp only [hnonempty, Bool.false_eq_true, ↓reduceIte, hcount, bind, Except.bind, hnn, Int.toNat_natCast, hscan,
        hrd, hcback, hlt.addr_back]
      -- the rest of the text
      have hdrop : (lead ++ (t ++ tl)).drop (lead.length + t.length + wsLen tl) = tl.drop (wsLen tl) := by
        rw [show lead ++ (t ++ tl) = (lead ++ t) ++ tl from by simp,
          show lead.length + t.length + wsLen tl = (lead ++ t).length + wsLen tl from by simp,
          List.drop_append]
        simp
      rw [hdrop]
      rcases htl with rfl | ⟨r, rfl⟩
      · have := htlnil rfl
        subst this
        cases f with
        | zero =>
          rw [hjoin] at hf
          simp only [List.length_append] at hf
          omega
        | succ g =>
          simp [wsLen, scanBodyText_nil, pure, Except.pure]
      · obtain ⟨hr, hne'⟩ := htlcons _ rfl
        have hws : wsLen (10 :: 47 :: r) = 1 := rfl
        rw [hws, List.drop_succ_cons, List.drop_zero, hr]
        have := ih hne' [] (by simp) (by simp) f (by
          rw [hjoin, hr] at hf
          simp only [List.length_append, List.length_cons, List.nil_append] at hf ⊢
          omega)
        simp only [List.nil_append] at this
        rw [this]
        cases l
        rfl

/-- a file without messages: the newline that ends the header is all there is -/
theorem scanBodyText_blank : scanBodyText 2 [10] = .ok [] := by decide

/-! ### the two header lines -/

theorem expect_append (w r : Bytes) : expect w (w ++ r) = some r := by
  simp [expect]

theorem fmtNat_digits (n : Nat) : (∀ c ∈ fmtNat n, isdigit c = true) ∧ fmtNat n ≠ [] ∧ digitsVal 10 (fmtNat n) = n := by
  unfold fmtNat
  by_cases h : n = 0
  · subst h; simp only [↓reduceIte]; decide
  · simp only [h, ↓reduceIte]
    refine ⟨decDigits_all_digit n, ?_, digitsVal_decDigits n⟩
    obtain ⟨d, ds, he, _⟩ := decDigits_head n (by omega)
    rw [he]; simp

theorem takeWhile_prefix {p : UInt8 → Bool} (a r : Bytes) (ha : ∀ c ∈ a, p c = true) (hr : r = [] ∨ p (hd r) = false) :
    (a ++ r).takeWhile p = a := by
  induction a with
  | nil =>
    rcases hr with rfl | hr
    · rfl
    · cases r with
      | nil => rfl
      | cons c r => simp only [hd_cons] at hr; simp [hr]
  | cons c a ih => simp [ha c (by simp), ih (fun x hx => ha x (by simp [hx]))]

theorem isdigit_not_space (c : UInt8) (h : isdigit c = true) : isspace c = false := by
  revert h; revert c; apply UInt8.forall_of_fin; decide +kernel

theorem isdigit_not_sign (c : UInt8) (r : Bytes) (h : isdigit c = true) : (hd (c :: r) == 43 || hd (c :: r) == 45) = false := by
  rw [hd_cons]; revert h; revert c; apply UInt8.forall_of_fin; decide +kernel

theorem scanU_fmtNat (n : Nat) (r : Bytes) (hr : isdigit (hd r) = false) : scanU (fmtNat n ++ r) = some (n, r) := by
  obtain ⟨hd1, hne, hval⟩ := fmtNat_digits n
  obtain ⟨c, cs, hcs⟩ := List.exists_cons_of_ne_nil hne
  have hsp : skipSpace (fmtNat n ++ r) = fmtNat n ++ r := by
    rw [hcs]
    exact skipSpace_nonspace c _ (isdigit_not_space c (hd1 c (by rw [hcs]; simp)))
  have htw : (fmtNat n ++ r).takeWhile isdigit = fmtNat n :=
    takeWhile_prefix _ _ hd1 (by cases r with | nil => left; rfl | cons x y => right; simpa using hr)
  have hsg : (hd (fmtNat n ++ r) == 43 || hd (fmtNat n ++ r) == 45) = false := by
    rw [hcs]; exact isdigit_not_sign c _ (hd1 c (by rw [hcs]; simp))
  have hsg2 : (hd (fmtNat n ++ r) == 45) = false := by
    rw [Bool.or_eq_false_iff] at hsg; exact hsg.2
  unfold scanU
  simp only [hsp]
  rw [hsg, hsg2]
  simp only [Bool.false_eq_true, if_false, htw, hval, List.drop_left, wrapU, Bool.false_and]
  rw [hcs]
  simp

theorem scanVer_verText (v : Nat × Nat × Nat) (r : Bytes) (hr : isdigit (hd r) = false) :
    scanVer (verText v ++ r) = some (v, r) := by
  obtain ⟨a, b, c⟩ := v
  unfold scanVer verText
  simp only [List.append_assoc, List.cons_append]
  rw [scanU_fmtNat a _ (by simp; decide)]
  simp only [Option.bind_eq_bind, Option.bind_some]
  rw [show (46 : UInt8) :: (fmtNat b ++ 46 :: (fmtNat c ++ r)) = [46] ++ (fmtNat b ++ 46 :: (fmtNat c ++ r)) from rfl,
    expect_append]
  simp only [Option.bind_some]
  rw [scanU_fmtNat b _ (by simp; decide)]
  simp only [Option.bind_some]
  rw [show (46 : UInt8) :: (fmtNat c ++ r) = [46] ++ (fmtNat c ++ r) from rfl, expect_append]
  simp only [Option.bind_some]
  rw [scanU_fmtNat c _ hr]
  rfl

theorem parseHeader1_header1 (v : Nat × Nat × Nat) (r : Bytes) :
    parseHeader1 (header1 v ++ r) = some (v, r) := by
  unfold parseHeader1 header1
  have e1 : skipSpace (37 :: 32 :: hdrRtosc ++ 32 :: hdrOsc ++ 32 :: 118 :: verText v ++ 32 :: hdrSavefile ++ r) =
      [37] ++ (32 :: hdrRtosc ++ 32 :: hdrOsc ++ 32 :: 118 :: verText v ++ 32 :: hdrSavefile ++ r) := by
    simp [skipSpace, show isspace 37 = false from by decide]
  rw [e1, expect_append]
  simp only [Option.bind_eq_bind, Option.bind_some]
  have e2 : skipSpace (32 :: hdrRtosc ++ 32 :: hdrOsc ++ 32 :: 118 :: verText v ++ 32 :: hdrSavefile ++ r) =
      hdrRtosc ++ (32 :: hdrOsc ++ 32 :: 118 :: verText v ++ 32 :: hdrSavefile ++ r) := by
    simp [skipSpace, hdrRtosc, show isspace 32 = true from by decide, show isspace 82 = false from by decide]
  rw [e2, expect_append]
  simp only [Option.bind_some]
  have e3 : skipSpace (32 :: hdrOsc ++ 32 :: 118 :: verText v ++ 32 :: hdrSavefile ++ r) =
      hdrOsc ++ (32 :: 118 :: verText v ++ 32 :: hdrSavefile ++ r) := by
    simp [skipSpace, hdrOsc, show isspace 32 = true from by decide, show isspace 79 = false from by decide]
  rw [e3, expect_append]
  simp only [Option.bind_some]
  have e4 : skipSpace (32 :: 118 :: verText v ++ 32 :: hdrSavefile ++ r) =
      [118] ++ (verText v ++ (32 :: hdrSavefile ++ r)) := by
    simp [skipSpace, show isspace 32 = true from by decide, show isspace 118 = false from by decide]
  rw [e4, expect_append]
  simp only [Option.bind_some]
  rw [scanVer_verText v _ (by simp; decide)]
  simp only [Option.bind_some]
  have e5 : skipSpace (32 :: hdrSavefile ++ r) = hdrSavefile ++ r := by
    simp [skipSpace, hdrSavefile, show isspace 32 = true from by decide, show isspace 115 = false from by decide]
  rw [e5, expect_append]
  rfl

theorem parseHeader2_header2 (name : Path) (hn : NameTextOK name) (v : Nat × Nat × Nat) (r : Bytes)
    (hr : isdigit (hd r) = false) :
    parseHeader2 (10 :: header2 name v ++ r) = some (pathBytes name, v, r) := by
  obtain ⟨hne, hlen, hch⟩ := hn
  have hbne : pathBytes name ≠ [] := by simpa [pathBytes] using hne
  obtain ⟨c0, cs0, hc0⟩ := List.exists_cons_of_ne_nil hbne
  have hb : ∀ b ∈ pathBytes name, (!isspace b && decide (b ≠ 0)) = true := by
    intro b hb
    simp only [pathBytes, List.mem_map] at hb
    obtain ⟨c, hc, rfl⟩ := hb
    simp [(hch c hc).2.1, (hch c hc).2.2]
  have hc0sp : isspace c0 = false := by
    have := hb c0 (by rw [hc0]; simp)
    simp only [Bool.and_eq_true, Bool.not_eq_eq_eq_not, Bool.not_true] at this
    exact this.1
  unfold parseHeader2 header2
  have e1 : skipSpace (10 :: (37 :: 32 :: pathBytes name ++ 32 :: 118 :: verText v) ++ r) =
      [37] ++ (32 :: pathBytes name ++ 32 :: 118 :: verText v ++ r) := by
    simp [skipSpace, show isspace 10 = true from by decide, show isspace 37 = false from by decide]
  rw [e1, expect_append]
  simp only [Option.bind_eq_bind, Option.bind_some]
  have e2 : skipSpace (32 :: pathBytes name ++ 32 :: 118 :: verText v ++ r) =
      pathBytes name ++ (32 :: 118 :: (verText v ++ r)) := by
    rw [hc0]
    simp [skipSpace, show isspace 32 = true from by decide, hc0sp]
  rw [e2]
  have htw : (pathBytes name ++ (32 :: 118 :: (verText v ++ r))).takeWhile (fun c => !isspace c && decide (c ≠ 0)) =
      pathBytes name := takeWhile_prefix _ _ hb (Or.inr (by simp; decide))
  have htake : (pathBytes name).take 127 = pathBytes name :=
    List.take_of_length_le (by simpa [pathBytes] using hlen)
  simp only [htw, htake, List.drop_left]
  have hemp : (pathBytes name).isEmpty = false := by rw [hc0]; rfl
  simp only [hemp, Bool.false_eq_true, ↓reduceIte]
  have e3 : skipSpace (32 :: 118 :: (verText v ++ r)) = [118] ++ (verText v ++ r) := by
    simp [skipSpace, show isspace 32 = true from by decide, show isspace 118 = false from by decide]
  simp only [pure, e3, expect_append, Option.bind_some, scanVer_verText v r hr]

/-- **the two header lines are read back** -/
theorem parseHeader_fileTextOf (rv av : Nat × Nat × Nat) (name : Path) (hn : NameTextOK name) (ts : List Bytes) :
    parseHeader (fileTextOf rv name av ts) = some (rv, pathBytes name, av, 10 :: joinLines ts) := by
  have e : fileTextOf rv name av ts = header1 rv ++ (10 :: header2 name av ++ 10 :: joinLines ts) := by
    simp [fileTextOf]
  unfold parseHeader
  rw [e, parseHeader1_header1 rv _]
  simp only [Option.bind_eq_bind, Option.bind_some]
  rw [parseHeader2_header2 name hn av _ (by simp; decide)]
  rfl

/-! ### the file -/

theorem mapM_lineText (ls : List Line) (h : ∀ l ∈ ls, LineTextOK l) :
    ∃ ts, ls.mapM lineText = .ok ts ∧ List.Forall₂ LineScans ls ts := by
  induction ls with
  | nil => exact ⟨[], rfl, .nil⟩
  | cons l r ih =>
    obtain ⟨t, ht, hs⟩ := lineText_msgText l (h l (by simp))
    obtain ⟨ts, hts, hf⟩ := ih (fun x hx => h x (by simp [hx]))
    refine ⟨t :: ts, ?_, .cons hs hf⟩
    simp only [List.mapM_cons, ht, hts, bind, Except.bind, pure, Except.pure]

/-- **the text stage is transparent**: for an application whose name is a word and a state whose
    saved lines are all covered (`LineTextOK`), `save_to_file` produces a text, and `load_from_file`
    on that text — header `sscanf`s, `rtosc_count_printed_arg_vals_of_msg` / `rtosc_scan_message` per
    message — is `App.loadFile` on the abstract file, for any instance `t` it is loaded into. -/
theorem loadText_saveText (app : App) (rtoscVer appVer : Nat × Nat × Nat)
    (hrv : verOk rtoscVer = true) (hav : verOk appVer = true) (hname : NameTextOK app.name)
    (s : State) (hlines : ∀ l ∈ app.save s, LineTextOK l) (t : State) :
    ∃ text, app.saveText rtoscVer appVer s = .ok text ∧
      app.loadText text t = .ok (app.loadFile (app.saveFile rtoscVer appVer s) t) := by
  obtain ⟨ts, hts, hf⟩ := mapM_lineText (app.save s) hlines
  have hbody : ((app.saveFile rtoscVer appVer s).body.filterMap id) = app.save s := by
    simp [App.saveFile, List.filterMap_map]
  refine ⟨fileTextOf rtoscVer app.name appVer ts, ?_, ?_⟩
  · unfold App.saveText fileText
    rw [hbody]
    simp only [hts, bind, Except.bind, pure, Except.pure, App.saveFile]
  · have hnb : bytesPath (pathBytes app.name) = app.name :=
      bytesPath_pathBytes _ (fun c hc => (hname.2.2 c hc).1)
    unfold App.loadText
    simp only [parseHeader_fileTextOf rtoscVer appVer app.name hname ts, hrv, hav, hnb, Bool.not_true, ne_eq,
      not_true_eq_false, decide_false, Bool.or_self, Bool.false_eq_true, ↓reduceIte]
    have hscan : scanBodyText ((10 :: joinLines ts).length + 1) (10 :: joinLines ts) = .ok ((app.save s).map some) := by
      by_cases hne : app.save s = []
      · rw [hne] at hf ⊢
        cases hf
        exact scanBodyText_blank
      · have := scanBodyText_lines (app.save s) ts hf hne [10] (by simp; decide) (by simp)
          ((10 :: joinLines ts).length + 1) (by simp)
        simpa using this
    simp only [hscan, bind, Except.bind, pure, Except.pure, App.saveFile]

end Rtosc.Save.Text
