/-
  C10 — the interface between the per-type token lemmas and the list-level round-trip proof.

  A *token* is the text the printer writes for one scalar argument.  `TokOK t c` says that the
  scanner and the syntax checker read the text `t` back as exactly the cell `c`, consuming
  exactly `t`, whatever follows it in printed text (`Sep`): nothing, white space and the next
  token, or a closing bracket.  `PrintsTok opt c` says that the printer, in any state, appends
  such a token and returns its length.
-/
import RtoscModel.Pretty.Check
import RtoscModel.Proofs.PrettyLibc
namespace Rtosc.Pretty
open Rtosc Rtosc.Libc
open Rtosc.ArgVal (Cell)

/-- what may follow a token in printed text: the end, white space, or a closing bracket; and
    behind the white space neither "(" (exact value of a float) nor "..." (a range) -/
def Sep (rest : Bytes) : Prop :=
  (rest = [] ∨ isspace (hd rest) = true ∨ hd rest = 93) ∧
  hd (skipSpace rest) ≠ 40 ∧ startsWith (skipSpace rest) [46, 46, 46] = false

/-- the first character of a token: not white space, NUL, "(", ".", "%", "/" or "]" -/
def TokStart (t : Bytes) : Prop :=
  t ≠ [] ∧ isspace (hd t) = false ∧ hd t ≠ 0 ∧ hd t ≠ 40 ∧ hd t ≠ 46 ∧ hd t ≠ 37 ∧ hd t ≠ 47 ∧ hd t ≠ 93

/-- scanner and checker read the text `t` as the single cell `c`, whatever follows -/
structure TokOK (t : Bytes) (c : Cell) : Prop where
  start : TokStart t
  scan : ∀ (rest : Bytes) (fuel : Nat) (prev : List Cell) (ab : Nat), Sep rest →
    scanArgVal (fuel + 1) (t ++ rest) prev ab true = .ok (t.length, [c])
  skip : ∀ (rest : Bytes) (fuel : Nat) (ty : UInt8) (llhs : Option Bytes) (ib : Bool), Sep rest →
    ∃ r, skipNextPrintedArg (fuel + 1) (t ++ rest) ty llhs true ib = .ok r ∧
      r.src = some rest ∧ r.skipped = 1 ∧ r.type = c.type

/-- the printer appends a good token for the scalar cell `c` and returns its length -/
def PrintsTok (opt : POpt) (c : Cell) : Prop :=
  ∀ (fuel : Nat) (more : List Cell) (prev : Option Cell) (st : PSt),
    ∃ (t : Bytes) (cols' : Int),
      printArgVal (fuel + 1) opt (c :: more) prev st = .ok (⟨st.out ++ t, cols'⟩, t.length) ∧ TokOK t c

/-! ### general lemmas for token proofs -/

/-- a character that can occur inside a numeric word and is not a dot: not one of the characters at
    which `scanf_fmtstr` ends the word (white space, ')' , ']', and since fix C11-08 the comment sign '%') -/
def wordChar (c : UInt8) : Bool := !isspace c && c ≠ 41 && c ≠ 93 && c ≠ 46 && c ≠ 0 && c ≠ 37

theorem numWordLen_sep (rest : Bytes) (h : Sep rest) : numWordLen rest = 0 := by
  cases rest with
  | nil => rfl
  | cons c r =>
    rcases h.1 with h | h | h
    · cases h
    · simp only [hd_cons] at h; simp [numWordLen, h]
    · simp only [hd_cons] at h; simp [numWordLen, h]

theorem numWordLen_word (t rest : Bytes) (ht : ∀ c ∈ t, wordChar c = true) (h : Sep rest) :
    numWordLen (t ++ rest) = t.length := by
  induction t with
  | nil => simpa using numWordLen_sep rest h
  | cons c r ih =>
    have hc := ht c (by simp)
    simp only [wordChar, Bool.and_eq_true, ne_eq, decide_eq_true_eq, Bool.not_eq_eq_eq_not, Bool.not_true] at hc
    obtain ⟨⟨⟨⟨⟨h1, h2⟩, h3⟩, h4⟩, _⟩, h37⟩ := hc
    have := ih (fun x hx => ht x (by simp [hx]))
    simp [numWordLen, h1, h2, h3, h37, startsWith, List.isPrefixOf, this]
    intro h46; exact absurd h46.symm h4

theorem isdigit_wordChar (c : UInt8) (h : isdigit c = true) : wordChar c = true := by
  revert h; revert c; apply UInt8.forall_of_fin; decide +kernel

/-- the character behind a token -/
theorem sep_hd_facts (rest : Bytes) (h : Sep rest) :
    isdigit (hd rest) = false ∧ hd rest ≠ 120 ∧ hd rest ≠ 88 ∧ hd rest ≠ 45 ∧ hd rest ≠ 104 ∧ hd rest ≠ 46 ∧
    isIdentChar (hd rest) = false ∧ isxdigit (hd rest) = false ∧ hd rest ≠ 39 ∧ hd rest ≠ 34 ∧ hd rest ≠ 40 ∧
    hd rest ≠ 105 ∧ hd rest ≠ 100 ∧ hd rest ≠ 102 := by
  rcases h.1 with h | h | h
  · subst h; decide
  · revert h; generalize hd rest = c; revert c; apply UInt8.forall_of_fin; decide +kernel
  · rw [h]; decide

theorem skipDigits_digits (ds rest : Bytes) (hds : ∀ c ∈ ds, isdigit c = true) (hr : isdigit (hd rest) = false) :
    skipDigits (ds ++ rest) = rest := by
  induction ds with
  | nil =>
    cases rest with
    | nil => rfl
    | cons c r => simp only [hd_cons] at hr; simp [skipDigits, hr]
  | cons c r ih =>
    simp [skipDigits, hds c (by simp), ih (fun x hx => hds x (by simp [hx]))]

theorem sscanfGo_int_some (conv : IntConv) (w : Option Nat) (sup : Bool) (ds : List Dir) (s : Bytes) (k : Nat)
    (acc : List SVal) (v : Int) (r : Bytes) (h : scanInt conv w s = some (v, r)) :
    sscanfGo (.int conv w sup :: ds) s k acc =
      sscanfGo ds r (k + (s.length - r.length)) (if sup then acc else .int v :: acc) := by
  simp [sscanfGo, h]

theorem sscanfGo_int_none (conv : IntConv) (w : Option Nat) (sup : Bool) (ds : List Dir) (s : Bytes) (k : Nat)
    (acc : List SVal) (h : scanInt conv w s = none) :
    sscanfGo (.int conv w sup :: ds) s k acc = acc.reverse := by
  simp [sscanfGo, h]

theorem sscanfGo_lit_ne (c : UInt8) (ds : List Dir) (s : Bytes) (k : Nat) (acc : List SVal) (h : hd s ≠ c) :
    sscanfGo (.lit c :: ds) s k acc = acc.reverse := by
  cases s with
  | nil => simp [sscanfGo]
  | cons x r => simp only [hd_cons] at h; simp [sscanfGo, h]

theorem hd_append_of_ne_nil (t r : Bytes) (h : t ≠ []) : hd (t ++ r) = hd t := by
  cases t with
  | nil => exact absurd rfl h
  | cons c t' => rfl

theorem hd_mem (t : Bytes) (h : t ≠ []) : hd t ∈ t := by
  cases t with
  | nil => exact absurd rfl h
  | cons c t' => simp

theorem sep_skipSpace_facts (rest : Bytes) (h : Sep rest) :
    hd (skipSpace rest) ≠ 40 ∧ startsWith (skipSpace rest) [46, 46, 46] = false := h.2

/-- a value that is not followed by an ellipsis is what `rtosc_scan_arg_val` returns -/
theorem finishArg_plain (se : ElemScanner) (t rest : Bytes) (cells : List Cell) (av : Bool)
    (prev : List Cell) (ab : Nat) (fe : Bool) (hs : Sep rest) :
    finishArg se (t ++ rest) ⟨rest, cells, av⟩ prev ab fe = .ok (t.length, cells) := by
  have h3 := (sep_skipSpace_facts rest hs).2
  unfold finishArg
  simp [h3, pure, Except.pure]

/-- scanner part of `TokOK` from the value the `switch` delivers -/
theorem scanArgVal_of_value (t rest : Bytes) (c : Cell) (fuel : Nat) (prev : List Cell) (ab : Nat) (hs : Sep rest)
    (h : scanValue (scanArgVal fuel) (t ++ rest) prev = .ok ⟨rest, [c], true⟩) :
    scanArgVal (fuel + 1) (t ++ rest) prev ab true = .ok (t.length, [c]) := by
  unfold scanArgVal
  simp only [h, bind, Except.bind]
  exact finishArg_plain _ t rest [c] true prev ab true hs

/-- checker part of `TokOK` from what the `switch` delivers -/
theorem skipNext_of_value (t rest : Bytes) (tyOut : UInt8) (dl : UInt8) (fuel : Nat) (ty : UInt8)
    (llhs : Option Bytes) (ib : Bool) (hs : Sep rest)
    (h : skipValue (skipNextPrintedArg fuel) (t ++ rest) ty ib = .ok (some ⟨some rest, 1, tyOut, dl⟩)) :
    ∃ r, skipNextPrintedArg (fuel + 1) (t ++ rest) ty llhs true ib = .ok r ∧
      r.src = some rest ∧ r.skipped = 1 ∧ r.type = tyOut := by
  have h3 := (sep_skipSpace_facts rest hs).2
  refine ⟨⟨some rest, 1, tyOut⟩, ?_, rfl, rfl, rfl⟩
  unfold skipNextPrintedArg
  simp [h, bind, Except.bind, h3, pure, Except.pure]

end Rtosc.Pretty
