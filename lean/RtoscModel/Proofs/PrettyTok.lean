/-
  C10 — the interface between the per-type token lemmas and the list-level round-trip proof.

  A *token* is the text the printer writes for one scalar argument.  `TokOK t c` says that the
  scanner and the syntax checker read the text `t` back as exactly the cell `c`, consuming
  exactly `t`, whatever follows it in printed text (`Sep`): nothing, white space and the next
  token, or a closing bracket.  `PrintsTok opt c` says that the printer, in any state, appends
  such a token and returns its length.
-/
import RtoscModel.Pretty.Check
import RtoscModel.Proofs.PrettyLibc
namespace Rtosc.Pretty
open Rtosc Rtosc.Libc
open Rtosc.ArgVal (Cell)

/-- what may follow a token in printed text: the end, white space, or a closing bracket; and
    behind the white space neither "(" (exact value of a float) nor "..." (a range) -/
def Sep (rest : Bytes) : Prop :=
  (rest = [] ∨ isspace (hd rest) = true ∨ hd rest = 93) ∧
  hd (skipSpace rest) ≠ 40 ∧ startsWith (skipSpace rest) [46, 46, 46] = false

/-- the first character of a token: not white space, NUL, "(", ".", "%", "/" or "]" -/
def TokStart (t : Bytes) : Prop :=
  t ≠ [] ∧ isspace (hd t) = false ∧ hd t ≠ 0 ∧ hd t ≠ 40 ∧ hd t ≠ 46 ∧ hd t ≠ 37 ∧ hd t ≠ 47 ∧ hd t ≠ 93

/-- scanner and checker read the text `t` as the single cell `c`, whatever follows -/
structure TokOK (t : Bytes) (c : Cell) : Prop where
  start : TokStart t
  scan : ∀ (rest : Bytes) (fuel : Nat) (prev : List Cell) (ab : Nat), Sep rest →
    scanArgVal (fuel + 1) (t ++ rest) prev ab true = .ok (t.length, [c])
  skip : ∀ (rest : Bytes) (fuel : Nat) (ty : UInt8) (llhs : Option Bytes) (ib : Bool), Sep rest →
    ∃ r, skipNextPrintedArg (fuel + 1) (t ++ rest) ty llhs true ib = .ok r ∧
      r.src = some rest ∧ r.skipped = 1 ∧ r.type = c.type

/-- the printer appends a good token for the scalar cell `c` and returns its length -/
def PrintsTok (opt : POpt) (c : Cell) : Prop :=
  ∀ (fuel : Nat) (more : List Cell) (prev : Option Cell) (st : PSt),
    ∃ (t : Bytes) (cols' : Int),
      printArgVal (fuel + 1) opt (c :: more) prev st = .ok (⟨st.out ++ t, cols'⟩, t.length) ∧ TokOK t c

end Rtosc.Pretty
