/-
  C12, text level — the C10 round trip of one message *inside a file*: the text of a message is
  followed by the newline and the next message (whose address starts with '/'), or by nothing, and
  it may be preceded by white space (the newline that ends the header).  C10's theorems
  (`message_roundtrip_args`) are about a text that is scanned to its end; their building blocks —
  `ArgOK` (each argument text is read back whatever follows it, `Sep`), `printLoop_spec_args` — are
  stated for any continuation, so the loops of the scanner and the checker are re-run here with a
  tail (`MsgTail`).
-/
import RtoscModel.Proofs.PrettyTokArray
namespace Rtosc.Save.Text
open Rtosc Rtosc.Libc Rtosc.Pretty
open Rtosc.ArgVal (Cell)

/-- what follows a message in a savefile: nothing, or a newline and the '/' of the next address -/
def MsgTail (tl : Bytes) : Prop := tl = [] ∨ ∃ r, tl = 10 :: 47 :: r

/-- the white space the scanner consumes behind the last argument -/
def wsLen (tl : Bytes) : Nat := if tl.isEmpty then 0 else 1

theorem MsgTail.skipSpace_eq {tl : Bytes} (h : MsgTail tl) : skipSpace tl = tl.drop (wsLen tl) := by
  rcases h with rfl | ⟨r, rfl⟩
  · rfl
  · simp [skipSpace, wsLen, show isspace 10 = true from by decide, show isspace 47 = false from by decide]

theorem MsgTail.hd_drop {tl : Bytes} (h : MsgTail tl) : hd (tl.drop (wsLen tl)) = 0 ∨ hd (tl.drop (wsLen tl)) = 47 := by
  rcases h with rfl | ⟨r, rfl⟩
  · left; rfl
  · right; simp [wsLen]

theorem MsgTail.wsLen_le {tl : Bytes} (_h : MsgTail tl) : wsLen tl ≤ tl.length := by
  unfold wsLen
  cases tl <;> simp

theorem MsgTail.sep {tl : Bytes} (h : MsgTail tl) : Sep tl := by
  rcases h with rfl | ⟨r, rfl⟩
  · exact sep_nil
  · refine ⟨Or.inr (Or.inl (by rw [hd_cons]; decide)), ?_, ?_⟩
    · simp [skipSpace, show isspace 10 = true from by decide, show isspace 47 = false from by decide]
    · simp [skipSpace, show isspace 10 = true from by decide, show isspace 47 = false from by decide, startsWith,
        List.isPrefixOf]

theorem MsgTail.space_or_nil {tl : Bytes} (h : MsgTail tl) : tl = [] ∨ isspace (hd tl) = true := by
  rcases h with rfl | ⟨r, rfl⟩
  · left; rfl
  · right; rw [hd_cons]; decide

theorem skipSpaceComments_msgTail (fuel : Nat) {tl : Bytes} (h : MsgTail tl) :
    skipSpaceComments (fuel + 1) tl = .ok (wsLen tl) := by
  have h1 := h.skipSpace_eq
  have hle := h.wsLen_le
  have h37 : hd (tl.drop (wsLen tl)) ≠ 37 := by
    rcases h.hd_drop with h | h <;> rw [h] <;> decide
  unfold skipSpaceComments
  simp only [skipFmt_space, h1, List.length_drop]
  have e : tl.length - (tl.length - wsLen tl) = wsLen tl := by omega
  simp only [e, h37, ↓reduceIte]
  rfl

theorem tokStart_append {t : Bytes} (r : Bytes) (h : TokStart t) : TokStart (t ++ r) := by
  obtain ⟨h0, h1⟩ := h
  refine ⟨by simp [h0], ?_⟩
  rw [hd_append_of_ne_nil _ _ h0]; exact h1

/-- the scanner's loop reads a text of arguments, followed by the tail of a message, back as their
    cells, and consumes the newline behind it -/
theorem scanLoop_argsText_tail {css : List (List Cell)} {text : Bytes} (h : ArgsText css text) (hne : css ≠ [])
    {tl : Bytes} (htl : MsgTail tl) :
    ∀ (fuel n i : Nat) (pok : Bool) (done : List Cell) (rd : Nat), n = i + css.flatten.length → css.length + 1 ≤ fuel →
      scanArgValsLoop fuel (text ++ tl) n i pok done rd = .ok (rd + text.length + wsLen tl, done ++ css.flatten) := by
  induction h with
  | nil => exact absurd rfl hne
  | one t cs ht =>
    intro fuel n i pok done rd hn hf
    cases fuel with
    | zero => omega
    | succ f =>
      cases f with
      | zero => simp at hf
      | succ g =>
        have hscan := ht.scan tl (t ++ tl).length done.reverse (if pok then i else 0) htl.sep
        obtain ⟨b, hcpr⟩ := canPrecedeRange_argCells ht.cells
        have hpos := ht.cells.length_pos
        simp only [List.flatten_cons, List.flatten_nil, List.append_nil] at hn ⊢
        unfold scanArgValsLoop
        have hlt : i < n := by omega
        have hnao := nextArgOffset_argCells cs.length [] ht.cells
        simp only [List.append_nil] at hnao
        have hadv : advance (t ++ tl) t.length = .ok tl := by simp [advance]
        simp only [hlt, ↓reduceIte, hscan, bind, Except.bind, hadv, hnao, ne_eq, not_true_eq_false,
          skipSpaceComments_msgTail _ htl, hcpr]
        unfold scanArgValsLoop
        have : ¬ (i + cs.length < n) := by omega
        simp [this, pure, Except.pure]
  | cons t cs sep css text ht hsep hne' hrest ih =>
    intro fuel n i pok done rd hn hf
    cases fuel with
    | zero => omega
    | succ f =>
      have hstart := tokStart_append tl (hrest.start hne')
      have hS := sep_of_next sep (text ++ tl) hsep hstart
      have hassoc : t ++ (sep ++ text) ++ tl = t ++ (sep ++ (text ++ tl)) := by simp
      rw [hassoc]
      have hscan := ht.scan (sep ++ (text ++ tl)) (t ++ (sep ++ (text ++ tl))).length done.reverse (if pok then i else 0) hS
      obtain ⟨b, hcpr⟩ := canPrecedeRange_argCells ht.cells
      have hpos := ht.cells.length_pos
      simp only [List.length_cons, List.flatten_cons, List.length_append] at hn hf
      unfold scanArgValsLoop
      have hlt : i < n := by omega
      have hadv : advance (t ++ (sep ++ (text ++ tl))) t.length = .ok (sep ++ (text ++ tl)) := by
        simp [advance]
      have hnao := nextArgOffset_argCells cs.length [] ht.cells
      simp only [List.append_nil] at hnao
      simp only [hlt, ↓reduceIte, hscan, bind, Except.bind, hadv, hnao, ne_eq, not_true_eq_false, hcpr]
      rw [skipSpaceComments_sep _ sep (text ++ tl) hsep hstart]
      simp only [List.drop_left]
      rw [ih hne' f n (i + cs.length) b (done ++ cs) (rd + t.length + sep.length) (by omega) (by omega)]
      simp only [List.length_append, List.append_assoc, List.flatten_cons]
      congr 2
      omega

/-- `rtosc_scan_arg_vals` on the arguments of a message inside a file -/
theorem scanArgVals_argsText_tail {css : List (List Cell)} {text : Bytes} (h : ArgsText css text) (hne : css ≠ [])
    {tl : Bytes} (htl : MsgTail tl) :
    scanArgVals (text ++ tl) css.flatten.length = .ok (text.length + wsLen tl, css.flatten) := by
  unfold scanArgVals
  have hsk : skipSpaceComments ((text ++ tl).length + 1) (text ++ tl) = .ok 0 :=
    skipSpaceComments_tokStart _ _ (tokStart_append tl (h.start hne))
  have := scanLoop_argsText_tail h hne htl (css.flatten.length + 1) css.flatten.length 0 true [] 0 (by simp)
    (by have := h.length_le_flatten; omega)
  simp only [hsk, bind, Except.bind, List.drop_zero]
  simpa using this

/-- the checker's loop counts the cells of the arguments and stops at the next address -/
theorem countLoop_argsText_tail {css : List (List Cell)} {text : Bytes} (h : ArgsText css text) (hne : css ≠ [])
    {tl : Bytes} (htl : MsgTail tl) :
    ∀ (fuel : Nat) (recent : Option Bytes) (num : Int), css.length + 1 ≤ fuel →
      countLoop fuel (some (text ++ tl)) recent num = .ok (num + css.flatten.length) := by
  induction h with
  | nil => exact absurd rfl hne
  | one t cs ht =>
    intro fuel recent num hf
    cases fuel with
    | zero => omega
    | succ f =>
      cases f with
      | zero => simp at hf
      | succ g =>
        obtain ⟨hne0, _, h0, _, _, _, h47, _⟩ := ht.start
        obtain ⟨r, hr, hsrc, hsk, _⟩ := ht.skip tl (t ++ tl).length 0 recent false htl.sep
        have hr := skipNextPrintedArg_checkFuel hr
        have hhd : hd (t ++ tl) = hd t := hd_append_of_ne_nil _ _ hne0
        have hpos : 0 < t.length := List.length_pos_iff.mpr hne0
        have hle := htl.wsLen_le
        have h37 : hd (tl.drop (wsLen tl)) ≠ 37 := by
          rcases htl.hd_drop with h | h <;> rw [h] <;> decide
        have hcl : skipCommentLines ((tl.drop (wsLen tl)).length + 1) (tl.drop (wsLen tl)) = .ok (tl.drop (wsLen tl)) :=
          skipCommentLines_none _ _ h37
        have hlen : ¬ ((tl.drop (wsLen tl)).length ≥ (t ++ tl).length) := by
          simp only [List.length_drop, List.length_append]; omega
        unfold countLoop
        simp only [hhd, h0, h47, ne_eq, not_false_eq_true, and_self, ↓reduceIte, hr, bind, Except.bind, hsrc, hsk,
          htl.skipSpace_eq]
        rcases htl.hd_drop with h | h
        · simp only [h, not_true_eq_false, ↓reduceIte, pure, Except.pure]
          simp only [ge_iff_le] at hlen
          simp only [ge_iff_le, hlen, ↓reduceIte]
          unfold countLoop
          simp [h]
        · have h0x : ¬ (hd (tl.drop (wsLen tl)) = 0) := by rw [h]; decide
          simp only [h0x, not_false_eq_true, ↓reduceIte, hcl, pure, Except.pure]
          simp only [ge_iff_le] at hlen
          simp only [ge_iff_le, hlen, ↓reduceIte]
          unfold countLoop
          simp [h]
  | cons t cs sep css text ht hsep hne' hrest ih =>
    intro fuel recent num hf
    cases fuel with
    | zero => omega
    | succ f =>
      have hstart := tokStart_append tl (hrest.start hne')
      have hS := sep_of_next sep (text ++ tl) hsep hstart
      have hassoc : t ++ (sep ++ text) ++ tl = t ++ (sep ++ (text ++ tl)) := by simp
      rw [hassoc]
      obtain ⟨hne0, _, h0, _, _, _, h47, _⟩ := ht.start
      obtain ⟨r, hr, hsrc, hsk, _⟩ :=
        ht.skip (sep ++ (text ++ tl)) (t ++ (sep ++ (text ++ tl))).length 0 recent false hS
      have hr := skipNextPrintedArg_checkFuel hr
      have hhd : hd (t ++ (sep ++ (text ++ tl))) = hd t := hd_append_of_ne_nil _ _ hne0
      have h0' : hd (text ++ tl) ≠ 0 := hstart.2.2.1
      have h37 : hd (text ++ tl) ≠ 37 := hstart.2.2.2.2.2.1
      simp only [List.length_cons] at hf
      unfold countLoop
      simp only [hhd, h0, h47, ne_eq, not_false_eq_true, and_self, ↓reduceIte, hr, bind, Except.bind, hsrc, hsk,
        skipSpace_sep sep (text ++ tl) hsep hstart, h0', skipCommentLines_none _ (text ++ tl) h37, pure, Except.pure]
      have hpos : 0 < t.length := List.length_pos_iff.mpr hne0
      have : ¬ ((text ++ tl).length ≥ (t ++ (sep ++ (text ++ tl))).length) := by
        simp only [List.length_append]; omega
      simp only [ge_iff_le, this, ↓reduceIte]
      rw [ih hne' f (some (t ++ (sep ++ (text ++ tl)))) (num + cs.length) (by omega)]
      simp only [List.flatten_cons, List.length_append]
      congr 1
      omega

/-! ### a whole message -/

/-- `text` is a printed message: the address, a separator, the texts of the arguments -/
structure MsgText (addr : Bytes) (argss : List (List Cell)) (text : Bytes) : Prop where
  addr_ok : AddrOK addr
  nonempty : argss ≠ []
  split : ∃ sep body, text = addr ++ (sep ++ body) ∧ IsSepTxt sep ∧ ArgsText argss body

theorem MsgText.hd_eq {addr : Bytes} {argss : List (List Cell)} {text : Bytes} (h : MsgText addr argss text) :
    hd text = 47 := by
  obtain ⟨sep, body, rfl, _, _⟩ := h.split
  obtain ⟨h47, _⟩ := h.addr_ok
  have : addr ≠ [] := by intro e; rw [e] at h47; simp at h47
  rw [hd_append_of_ne_nil _ _ this]; exact h47

theorem skipSpace_lead (lead x : Bytes) (hl : ∀ c ∈ lead, isspace c = true) (hx : x = [] ∨ isspace (hd x) = false) :
    skipSpace (lead ++ x) = x := by
  induction lead with
  | nil =>
    cases x with
    | nil => rfl
    | cons c r =>
      rcases hx with hx | hx
      · cases hx
      · simp only [hd_cons] at hx; simp [skipSpace, hx]
  | cons c r ih =>
    simp [skipSpace, hl c (by simp), ih (fun y hy => hl y (by simp [hy]))]

/-- **one message inside a file**: preceded by white space `lead`, followed by `tl` (nothing, or the
    newline and the next address): the checker counts its cells and the scanner returns its address
    and cells, consuming the white space in front and the newline behind. -/
theorem MsgText.scans {addr : Bytes} {argss : List (List Cell)} {text : Bytes} (h : MsgText addr argss text)
    (lead : Bytes) (hl : ∀ c ∈ lead, isspace c = true) {tl : Bytes} (htl : MsgTail tl)
    (adrsize : Nat) (hal : lead.length + addr.length < adrsize) :
    countPrintedArgValsOfMsg (lead ++ (text ++ tl)) = .ok (argss.flatten.length : Int) ∧
    scanMessage (lead ++ (text ++ tl)) adrsize argss.flatten.length =
      .ok (lead.length + text.length + wsLen tl, addr, argss.flatten) := by
  obtain ⟨sep, body, rfl, hsep, htt⟩ := h.split
  obtain ⟨ha47, hasp⟩ := h.addr_ok
  have hne := h.nonempty
  have hane : addr ≠ [] := by intro e; rw [e] at ha47; simp at ha47
  have hsepsp : isspace (hd sep) = true := by rcases hsep with rfl | rfl <;> rfl
  have hsepne : sep ≠ [] := by rcases hsep with rfl | rfl <;> simp
  have hassoc : addr ++ (sep ++ body) ++ tl = addr ++ (sep ++ (body ++ tl)) := by simp
  have hstart := tokStart_append tl (htt.start hne)
  have hrest : sep ++ (body ++ tl) = [] ∨ isspace (hd (sep ++ (body ++ tl))) = true := by
    right; rw [hd_append_of_ne_nil _ _ hsepne]; exact hsepsp
  have hskip : skipSpace (sep ++ (body ++ tl)) = body ++ tl := skipSpace_sep sep _ hsep hstart
  have hhd : hd (addr ++ (sep ++ (body ++ tl))) = 47 := by rw [hd_append_of_ne_nil _ _ hane]; exact ha47
  have hlead : skipSpace (lead ++ (addr ++ (sep ++ (body ++ tl)))) = addr ++ (sep ++ (body ++ tl)) := by
    apply skipSpace_lead _ _ hl
    right; rw [hhd]; decide
  have h37 : hd (body ++ tl) ≠ 37 := hstart.2.2.2.2.2.1
  rw [hassoc]
  constructor
  · unfold countPrintedArgValsOfMsg
    simp only [hlead, bind, Except.bind, skipCommentLines_none _ _ (by rw [hhd]; decide), hhd, ↓reduceIte,
      dropWhile_notspace addr (sep ++ (body ++ tl)) hasp hrest]
    unfold countPrintedArgVals
    rw [hskip]
    simp only [skipCommentLines_none _ _ h37, bind, Except.bind]
    rw [countLoop_argsText_tail htt hne htl _ none 0 (by have := htt.length_le; simp only [List.length_append]; omega)]
    simp
  · unfold scanMessage
    simp only [hlead, hhd, show (47 : UInt8) ≠ 37 from by decide, ↓reduceIte, pure, Except.pure,
      bind, Except.bind, List.drop_zero, Nat.add_zero,
      takeWhile_notspace addr (sep ++ (body ++ tl)) hasp hrest]
    have hl1 : (lead ++ (addr ++ (sep ++ (body ++ tl)))).length - (addr ++ (sep ++ (body ++ tl))).length = lead.length := by
      simp only [List.length_append]; omega
    have htake : addr.take (adrsize - lead.length) = addr := List.take_of_length_le (by omega)
    simp only [hl1, htake, List.drop_left, hskip]
    have := scanArgVals_argsText_tail htt hne htl
    simp only [this]
    congr 2
    simp only [List.length_append]
    omega

/-- the printer writes a message text (the first half of C10's `message_roundtrip_args`) -/
theorem printMessage_msgText (opt : POpt) (addr : Bytes) (argss : List (List Cell)) (ha : AddrOK addr)
    (hne : argss ≠ [])
    (hP : ∀ cs ∈ argss, PrintsArg opt cs)
    (hconv : ∀ done cs rem, argss = done ++ cs :: rem →
      convertToRange opt (cs :: rem).flatten (cs :: rem).flatten.length = .ok none) :
    ∃ (st : PSt) (ret : Nat), printMessage opt addr argss.flatten 0 = .ok (st, ret) ∧ MsgText addr argss st.out := by
  have hle := length_le_flatten_of_printsArg opt argss hP
  obtain ⟨st', pre, body, hrun, hout, htt, hpre⟩ :=
    printLoop_spec_args opt argss hP hconv argss [] (by simp) (argss.flatten.length + 1)
      ⟨addr ++ [32], 0 + ((addr ++ [32]).length : Nat)⟩ 0
      (((addr ++ [32]).length : Int) - 1) (if (0 + ((addr ++ [32]).length : Nat) : Int) ≠ 0 then 1 else 0) (by omega)
      (Or.inr ⟨addr, rfl, by simp⟩)
  simp only [List.flatten_nil, List.length_nil] at hrun
  obtain ⟨sep, hsep, hpre'⟩ : ∃ sep, IsSepTxt sep ∧ pre = addr ++ sep := by
    rcases hpre with h | ⟨base, h1, h2⟩
    · exact ⟨[32], Or.inl rfl, h⟩
    · have : base = addr := (List.append_inj_left' h1 rfl).symm
      exact ⟨nl4, Or.inr rfl, by rw [h2, this]⟩
  refine ⟨st', (addr ++ [32]).length + (0 + ((pre ++ body).length - (addr ++ [32]).length)), ?_,
    ⟨ha, hne, sep, body, by rw [hout, hpre', List.append_assoc], hsep, htt⟩⟩
  unfold printMessage printArgVals
  simp only [bind, Except.bind, hrun, pure, Except.pure]

end Rtosc.Save.Text
