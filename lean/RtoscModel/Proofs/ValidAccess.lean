/-
  C07 helper lemmas, part 3: on a buffer with the `Layout` of part 2 every reader stays inside the
  buffer and returns the tags / values of the layout (`Spec.valuesOf tags args`).
  The loop lemmas follow those of C01 (`Proofs/OscRead.lean`), generalised from the canonical
  encoding to lax encodings (arbitrary padding bytes, unknown tags = tags without payload).  Property theorems are in Props/C07.lean.
-/
import RtoscModel.Proofs.ValidLayout
import RtoscModel.Proofs.OscAccess
namespace Rtosc.Osc.V
open Rtosc Rtosc.Osc

theorem kind_none_of_not_reserved {t : UInt8} (hr : hasReserved t = false) : kind t = none := by
  have := hasReserved_eq t; rw [hr] at this
  cases hk : kind t with
  | none => rfl
  | some k => rw [hk] at this; simp at this

theorem laxArgs_skip_inv {t : UInt8} {ts : Bytes} {args : List Arg} {A : Bytes} (hk : kind t = none)
    (h : LaxArgs (t :: ts) args A) : LaxArgs ts args A := by
  cases h with
  | skip _ h' => exact h'
  | take hk' _ _ => rw [hk] at hk'; cases hk'

theorem laxArgs_take_inv {t : UInt8} {ts : Bytes} {args : List Arg} {A : Bytes} {k : Kind}
    (hk : kind t = some k) (h : LaxArgs (t :: ts) args A) :
    ∃ a as e A', args = a :: as ∧ A = e ++ A' ∧ kind t = some a.kind ∧ LaxEnc a e ∧ LaxArgs ts as A' := by
  cases h with
  | skip hk' _ => rw [hk] at hk'; cases hk'
  | take hk' he h' => exact ⟨_, _, _, _, rfl, rfl, hk', he, h'⟩

theorem laxArgs_matches : ∀ {tags : Bytes} {args : List Arg} {A : Bytes}, LaxArgs tags args A → Matches tags args := by
  intro tags args A h
  induction h with
  | nil => simp [Matches, matchesB]
  | skip hk _ ih => exact (matches_skip hk).mpr ih
  | take hk _ _ ih => simp only [Matches, matchesB, hk, Bool.and_eq_true, decide_eq_true_eq]; exact ⟨trivial, ih⟩

/-- one step of a walk over the tags of a lax encoding: bracket / flag / payload -/
theorem lax_step {t : UInt8} {ts : Bytes} {args : List Arg} {A : Bytes} (h : LaxArgs (t :: ts) args A) :
    (isBracket t = true ∧ hasReserved t = false ∧ LaxArgs ts args A ∧
      Spec.valuesOf (t :: ts) args = Spec.valuesOf ts args) ∨
    (isBracket t = false ∧ hasReserved t = false ∧ LaxArgs ts args A ∧
      Spec.valuesOf (t :: ts) args = (t, flagVal t) :: Spec.valuesOf ts args) ∨
    (isBracket t = false ∧ hasReserved t = true ∧ ∃ a as e A', args = a :: as ∧ A = e ++ A' ∧
      kind t = some a.kind ∧ LaxEnc a e ∧ LaxArgs ts as A' ∧
      Spec.valuesOf (t :: ts) args = (t, .arg a) :: Spec.valuesOf ts as) := by
  rcases tag_step (laxArgs_matches h) with ⟨hb, hk, hr, _, hv⟩ | ⟨hb, hk, hr, _, hv⟩ | ⟨hb, hr, a, as, rfl, hka, _, hv⟩
  · exact Or.inl ⟨hb, hr, laxArgs_skip_inv hk h, hv⟩
  · exact Or.inr (Or.inl ⟨hb, hr, laxArgs_skip_inv hk h, hv⟩)
  · obtain ⟨a', as', e, A', hargs, hA, hk', he, h'⟩ := laxArgs_take_inv hka h
    cases hargs
    exact Or.inr (Or.inr ⟨hb, hr, a, as, e, A', rfl, hA, hk', he, h', hv⟩)

theorem laxArgs_length : ∀ {tags : Bytes} {args : List Arg} {A : Bytes}, LaxArgs tags args A →
    ∀ a ∈ args, ∃ e, LaxEnc a e ∧ e.length ≤ A.length := by
  intro tags args A h
  induction h with
  | nil => intro a ha; cases ha
  | skip _ _ ih => exact ih
  | take _ he _ ih =>
    intro a ha
    rcases List.mem_cons.mp ha with rfl | ha'
    · exact ⟨_, he, by simp⟩
    · obtain ⟨e, h1, h2⟩ := ih a ha'
      exact ⟨e, h1, by simp; omega⟩

/-! ### walking the type tags (tags are NUL-free; unknown tags count as flags) -/

theorem countArgs_lax : ∀ {tags : Bytes} {args : List Arg} {A : Bytes} (X : Bytes), LaxArgs tags args A →
    NoNul tags → countArgs (tags ++ 0 :: X) = some (Spec.valuesOf tags args).length := by
  intro tags
  induction tags with
  | nil => intro args A X _ _; simp [countArgs, Spec.valuesOf]
  | cons t ts ih =>
    intro args A X h hnn
    have ht0 := hnn.head
    rcases lax_step h with ⟨hb, _, h', hv⟩ | ⟨hb, _, h', hv⟩ | ⟨hb, _, a, as, e, A', rfl, _, _, _, h', hv⟩
    · rw [hv]; have := (isBracket_iff t).mp hb
      simp only [List.cons_append, countArgs, ht0, if_false, ih X h' hnn.tail, Option.map_some]
      rcases this with rfl | rfl <;> simp
    · rw [hv]
      have : ¬ (t = 93 ∨ t = 91) := by
        intro h; have := (isBracket_iff t).mpr (h.symm); simp [hb] at this
      simp [countArgs, ht0, ih X h' hnn.tail, this]
    · rw [hv]
      have : ¬ (t = 93 ∨ t = 91) := by
        intro h; have := (isBracket_iff t).mpr (h.symm); simp [hb] at this
      simp [countArgs, ht0, ih X h' hnn.tail, this]

theorem typeLoop_lax : ∀ {tags : Bytes} {args : List Arg} {A : Bytes} (X : Bytes) (n : Nat) (t : UInt8) (v : Val),
    LaxArgs tags args A → NoNul tags → (Spec.valuesOf tags args)[n]? = some (t, v) →
    typeLoop (tags ++ 0 :: X) n = some t := by
  intro tags
  induction tags with
  | nil => intro args A X n t v _ _ h; simp [Spec.valuesOf] at h
  | cons c ts ih =>
    intro args A X n t v hl hnn h
    have ht0 := hnn.head
    rcases lax_step hl with ⟨hb, _, h', hv⟩ | ⟨hb, _, h', hv⟩ | ⟨hb, _, a, as, e, A', rfl, _, _, _, h', hv⟩
    · rw [hv] at h
      have := (isBracket_iff c).mp hb
      simp only [List.cons_append, typeLoop, this, if_true]
      exact ih X n t v h' hnn.tail h
    · rw [hv] at h
      have hnb : ¬ (c = 91 ∨ c = 93) := by
        intro h; have := (isBracket_iff c).mpr h; simp [hb] at this
      simp only [List.cons_append, typeLoop, hnb, if_false, ht0, or_false]
      cases n with
      | zero => simp at h; simp [h.1]
      | succ n =>
        simp only [List.getElem?_cons_succ] at h
        simp only [Nat.add_one_ne_zero, if_false, Nat.add_sub_cancel]
        exact ih X n t v h' hnn.tail h
    · rw [hv] at h
      have hnb : ¬ (c = 91 ∨ c = 93) := by
        intro h; have := (isBracket_iff c).mpr h; simp [hb] at this
      simp only [List.cons_append, typeLoop, hnb, if_false, ht0, or_false]
      cases n with
      | zero => simp at h; simp [h.1]
      | succ n =>
        simp only [List.getElem?_cons_succ] at h
        simp only [Nat.add_one_ne_zero, if_false, Nat.add_sub_cancel]
        exact ih X n t v h' hnn.tail h

/-- `rtosc_type` with an index behind the last argument returns the terminator -/
theorem lead_lax : ∀ {tags : Bytes} {args : List Arg} {A : Bytes} (X : Bytes), LaxArgs tags args A → NoNul tags →
    ∃ j ts', bracketRun (tags ++ 0 :: X) = some j ∧ tags.drop j = ts' ∧ NoLead ts' ∧
      Spec.valuesOf ts' args = Spec.valuesOf tags args ∧ LaxArgs ts' args A ∧ NoNul ts' ∧
      j ≤ tags.length := by
  intro tags
  induction tags with
  | nil =>
    intro args A X h hnn
    exact ⟨0, [], (by simp [bracketRun]), rfl, (fun c r h => by cases h), rfl, h, hnn, Nat.le_refl _⟩
  | cons c ts ih =>
    intro args A X h hnn
    cases hb : isBracket c with
    | true =>
      obtain ⟨hk, _, _⟩ := bracket_kind c hb
      obtain ⟨j, ts', h1, h2, h3, h4, h5, h6, h7⟩ := ih X (laxArgs_skip_inv hk h) hnn.tail
      refine ⟨j + 1, ts', ?_, (by simpa using h2), h3, (by rw [h4, valuesOf_bracket ts args hb]), h5, h6,
        (by simp; omega)⟩
      simp [bracketRun, (isBracket_iff c).mp hb, h1]
    | false =>
      have hnb : ¬ (c = 91 ∨ c = 93) := by
        intro h; have := (isBracket_iff c).mpr h; simp [hb] at this
      refine ⟨0, c :: ts, (by simp [bracketRun, hnb]), rfl, ?_, rfl, h, hnn, Nat.zero_le _⟩
      intro c' r h; cases h; exact hb

/-! ### one argument -/

theorem rd32_of_drop4 {m : Bytes} {p : Nat} {b0 b1 b2 b3 : UInt8} {r : Bytes}
    (h : m.drop p = b0 :: b1 :: b2 :: b3 :: r) : Osc.rd32 m p = some (get32 b0 b1 b2 b3) := by
  have e0 := getElem?_of_drop' (j := 0) h
  have e1 := getElem?_of_drop' (j := 1) h
  have e2 := getElem?_of_drop' (j := 2) h
  have e3 := getElem?_of_drop' (j := 3) h
  simp at e0 e1 e2 e3
  simp [Osc.rd32, e0, e1, e2, e3]

theorem rd64_of_drop8 {m : Bytes} {p : Nat} {b0 b1 b2 b3 b4 b5 b6 b7 : UInt8} {r : Bytes}
    (h : m.drop p = b0 :: b1 :: b2 :: b3 :: b4 :: b5 :: b6 :: b7 :: r) :
    Osc.rd64 m p = some (get64 b0 b1 b2 b3 b4 b5 b6 b7) := by
  have e0 := getElem?_of_drop' (j := 0) h
  have e1 := getElem?_of_drop' (j := 1) h
  have e2 := getElem?_of_drop' (j := 2) h
  have e3 := getElem?_of_drop' (j := 3) h
  have e4 := getElem?_of_drop' (j := 4) h
  have e5 := getElem?_of_drop' (j := 5) h
  have e6 := getElem?_of_drop' (j := 6) h
  have e7 := getElem?_of_drop' (j := 7) h
  simp at e0 e1 e2 e3 e4 e5 e6 e7
  simp [Osc.rd64, e0, e1, e2, e3, e4, e5, e6, e7]

/-- `arg_size` on a lax encoding is its length -/
theorem argSize_lax {m : Bytes} {p : Nat} {t : UInt8} {a : Arg} {e R : Bytes}
    (hd : m.drop p = e ++ R) (hk : kind t = some a.kind) (he : LaxEnc a e)
    (hsz : e.length < 4294967296) : argSize m p t = some e.length := by
  cases a with
  | w32 v =>
    obtain ⟨hr, ht⟩ := kind_w32 t hk
    obtain ⟨b0, b1, b2, b3, rfl, _⟩ := he
    rcases ht with rfl | rfl | rfl | rfl <;> simp [argSize, hasReserved]
  | w64 v =>
    obtain ⟨hr, ht⟩ := kind_w64 t hk
    obtain ⟨b0, b1, b2, b3, b4, b5, b6, b7, rfl, _⟩ := he
    rcases ht with rfl | rfl | rfl <;> simp [argSize, hasReserved]
  | midi x y z w =>
    obtain ⟨hr, ht⟩ := kind_midi t hk
    have he' : e = [x, y, z, w] := he
    subst ht; subst he'; simp [argSize, hasReserved]
  | str s =>
    obtain ⟨hr, ht⟩ := kind_str t hk
    obtain ⟨hs, pad, rfl, hpad⟩ := he
    have hq : scanToNul m p = some (p + s.length) :=
      scanToNul_of_drop (r := pad ++ R) (by rw [hd]; simp) hs
    have hl : (s ++ 0 :: pad).length = s.length + (4 - s.length % 4) := by
      simp only [List.length_append, List.length_cons]; omega
    rw [hl] at hsz ⊢
    have he : p + s.length - p = s.length := by omega
    rcases ht with rfl | rfl <;> simp [argSize, hasReserved, hq, he, u32_id hsz]
  | blob d =>
    obtain ⟨hr, ht⟩ := kind_blob t hk
    obtain ⟨b0, b1, b2, b3, pad, rfl, hlen, hlt, hpad⟩ := he
    subst ht
    have hrd := rd32_of_drop4 (r := (d ++ pad) ++ R) (by simpa using hd)
    simp only [argSize, hasReserved, hrd, hlen]
    simp only [List.length_cons, List.length_append, hpad, pad4] at hsz ⊢
    simp
    split
    · rw [u32_id (by omega)]; omega
    · rw [u32_id (n := d.length + (4 - d.length % 4)) (by omega), u32_id (by omega)]; omega

/-- `extract_arg` on a lax encoding, pointers followed, gives the argument back -/
theorem extract_lax {m : Bytes} {p : Nat} {t : UInt8} {a : Arg} {e R : Bytes}
    (hd : m.drop p = e ++ R) (hk : kind t = some a.kind) (he : LaxEnc a e) :
    (extractArg m p t).bind (CVal.view m) = some (.arg a) := by
  cases a with
  | w32 v =>
    obtain ⟨hr, ht⟩ := kind_w32 t hk
    obtain ⟨b0, b1, b2, b3, rfl, rfl⟩ := he
    have := rd32_of_drop4 (r := R) (by simpa using hd)
    rcases ht with rfl | rfl | rfl | rfl <;> simp [extractArg, hasReserved, this, CVal.view]
  | w64 v =>
    obtain ⟨hr, ht⟩ := kind_w64 t hk
    obtain ⟨b0, b1, b2, b3, b4, b5, b6, b7, rfl, rfl⟩ := he
    have := rd64_of_drop8 (r := R) (by simpa using hd)
    rcases ht with rfl | rfl | rfl <;> simp [extractArg, hasReserved, this, CVal.view]
  | midi x y z w =>
    obtain ⟨hr, ht⟩ := kind_midi t hk
    have he' : e = [x, y, z, w] := he
    subst ht; subst he'
    have e0 := getElem?_of_drop' (j := 0) hd
    have e1 := getElem?_of_drop' (j := 1) hd
    have e2 := getElem?_of_drop' (j := 2) hd
    have e3 := getElem?_of_drop' (j := 3) hd
    simp at e0 e1 e2 e3
    simp [extractArg, hasReserved, e0, e1, e2, e3, CVal.view]
  | str s =>
    obtain ⟨hr, ht⟩ := kind_str t hk
    obtain ⟨hs, pad, rfl, hpad⟩ := he
    have hc : cstr (m.drop p) = some s := by
      rw [hd]
      have : (s ++ 0 :: pad) ++ R = s ++ 0 :: (pad ++ R) := by simp
      rw [this]; exact cstr_append s _ hs
    rcases ht with rfl | rfl <;> simp [extractArg, hasReserved, CVal.view, hc]
  | blob d =>
    obtain ⟨hr, ht⟩ := kind_blob t hk
    obtain ⟨b0, b1, b2, b3, pad, rfl, hlen, hlt, hpad⟩ := he
    subst ht
    have hd' : m.drop p = b0 :: b1 :: b2 :: b3 :: (d ++ (pad ++ R)) := by simpa using hd
    have hrd := rd32_of_drop4 hd'
    have hml := length_of_drop hd' (by simp)
    have hd4 : m.drop (p + 4) = d ++ (pad ++ R) := by
      have := drop_add_of_drop (x := [b0, b1, b2, b3]) (y := d ++ (pad ++ R)) (by simpa using hd')
      simpa using this
    simp only [extractArg, hasReserved, hrd]
    simp only [List.length_cons, List.length_append] at hml
    simp [CVal.view, hlen, hd4, hlt]
    omega

/-! ### `arg_off` and the iterator -/

theorem offLoop_lax (m : Bytes) : ∀ {tags : Bytes} {args : List Arg} {A : Bytes} (idx pos : Nat) (R X : Bytes)
    (t : UInt8) (v : Val),
    LaxArgs tags args A → NoNul tags →
    m.drop pos = A ++ R → pos + A.length < 4294967296 →
    (Spec.valuesOf tags args)[idx]? = some (t, v) →
    ∃ pos', offLoop m (tags ++ 0 :: X) idx pos = some pos' ∧
      pos' ≤ pos + A.length ∧
      (∀ a, v = .arg a → ∃ e R', m.drop pos' = e ++ R' ∧ kind t = some a.kind ∧ LaxEnc a e) := by
  intro tags
  induction tags with
  | nil => intro args A idx pos R X t v _ _ _ _ h; simp [Spec.valuesOf] at h
  | cons c ts ih =>
    intro args A idx pos R X t v hl hnn hd hlt h
    have hc0 := hnn.head
    rcases lax_step hl with ⟨hb, hr, h', hv⟩ | ⟨hb, hr, h', hv⟩ | ⟨hb, hr, a, as, e, A', rfl, rfl, hka, he, h', hv⟩
    · -- bracket
      rw [hv] at h
      obtain ⟨pos', h1, h2, h3⟩ := ih idx pos R X t v h' hnn.tail hd hlt h
      refine ⟨pos', ?_, h2, h3⟩
      cases idx with
      | zero => rw [offLoop_zero] at h1 ⊢; exact h1
      | succ n => simp only [List.cons_append, offLoop, (isBracket_iff c).mp hb, if_true]; exact h1
    · -- flag
      rw [hv] at h
      have hnb : ¬ (c = 91 ∨ c = 93) := by
        intro h; have := (isBracket_iff c).mpr h; simp [hb] at this
      cases idx with
      | zero =>
        simp only [List.getElem?_cons_zero, Option.some.injEq, Prod.mk.injEq] at h
        refine ⟨pos, offLoop_zero _ _ _, Nat.le_add_right _ _, ?_⟩
        intro a ha; rw [← h.2] at ha; exact absurd ha (flagVal_ne_arg c a)
      | succ n =>
        simp only [List.getElem?_cons_succ] at h
        obtain ⟨pos', h1, h2, h3⟩ := ih n pos R X t v h' hnn.tail hd hlt h
        refine ⟨pos', ?_, h2, h3⟩
        simp only [List.cons_append, offLoop, hnb, if_false, argSize, hr, Bool.not_false, if_true,
          Nat.add_zero]
        exact h1
    · -- payload
      rw [hv] at h
      have hnb : ¬ (c = 91 ∨ c = 93) := by
        intro h; have := (isBracket_iff c).mpr h; simp [hb] at this
      simp only [List.append_assoc, List.length_append] at hd hlt ⊢
      cases idx with
      | zero =>
        simp only [List.getElem?_cons_zero, Option.some.injEq, Prod.mk.injEq] at h
        refine ⟨pos, offLoop_zero _ _ _, Nat.le_add_right _ _, ?_⟩
        intro a' ha'
        rw [← h.2] at ha'; cases ha'
        exact ⟨e, _, hd, by rw [← h.1]; exact hka, he⟩
      | succ n =>
        simp only [List.getElem?_cons_succ] at h
        have hsz := argSize_lax hd hka he (by omega)
        have hd' := drop_add_of_drop hd
        obtain ⟨pos', h1, h2, h3⟩ := ih n (pos + e.length) R X t v h' hnn.tail hd' (by omega) h
        refine ⟨pos', ?_, by omega, h3⟩
        simp only [List.cons_append, offLoop, hnb, if_false, hsz]
        exact h1

theorem iterLoop_lax (m : Bytes) : ∀ (fuel : Nat) {tags : Bytes} {args : List Arg} {A : Bytes} (tp vp : Nat)
    (R X : Bytes),
    LaxArgs tags args A → NoNul tags → NoLead tags →
    m.drop tp = tags ++ 0 :: X → m.drop vp = A ++ R →
    vp + A.length < 2147483648 → tags.length < fuel →
    ∃ l, iterLoop m fuel ⟨tp, vp⟩ = some l ∧ l.mapM (viewPair m) = some (Spec.valuesOf tags args) := by
  intro fuel
  induction fuel with
  | zero => intro tags args A tp vp R X _ _ _ _ _ _ h; omega
  | succ fuel ih =>
    intro tags args A tp vp R X hl hnn hnl htp hvp hlt hfuel
    cases tags with
    | nil =>
      have h0 : m[tp]? = some 0 := getElem?_of_drop (by simpa using htp)
      exact ⟨[], by simp [iterLoop, itrEnd, h0], by simp [Spec.valuesOf]⟩
    | cons c ts =>
      have hc0 := hnn.head
      have hcb : isBracket c = false := hnl c ts rfl
      have hmc : m[tp]? = some c := getElem?_of_drop (by simpa using htp)
      have htp1 : m.drop (tp + 1) = ts ++ 0 :: X := by
        have := drop_add_of_drop (x := [c]) (y := ts ++ 0 :: X) (by simpa using htp)
        simpa using this
      rcases lax_step hl with ⟨hb, _⟩ | ⟨_, hr, h', hv⟩ | ⟨_, hr, a, as, e, A', rfl, rfl, hka, he, h', hv⟩
      · rw [hcb] at hb; cases hb
      · -- flag
        obtain ⟨j, ts', hj1, hj2, hj3, hj4, hj5, hj6, hj7⟩ := lead_lax X h' hnn.tail
        have hadv : advancePast m (tp + 1) = some (j + (tp + 1)) := by
          simp [advancePast, htp1, hj1]
        have htp' : m.drop (j + (tp + 1)) = ts' ++ 0 :: X := by
          rw [Nat.add_comm, ← List.drop_drop, htp1, List.drop_append_of_le_length hj7, hj2]
        have hlen : ts'.length < fuel := by
          have : ts'.length ≤ ts.length := by rw [← hj2, List.length_drop]; omega
          simp only [List.length_cons] at hfuel; omega
        obtain ⟨l, hl1, hl2⟩ := ih (j + (tp + 1)) vp R X hj5 hj6 hj3 htp' hvp hlt hlen
        have hex := extract_flag m vp hr
        cases hx : extractArg m vp c with
        | none => rw [hx] at hex; simp at hex
        | some cv =>
          rw [hx] at hex; simp only [Option.bind_some] at hex
          refine ⟨(c, cv) :: l, ?_, ?_⟩
          · simp [iterLoop, itrEnd, itrNext, hmc, hc0, hx, hadv, argSize, hr, hl1]
          · rw [hv, ← hj4]
            simp [List.mapM_cons, viewPair, hex, hl2]
      · -- payload
        simp only [List.append_assoc, List.length_append] at hvp hlt
        obtain ⟨j, ts', hj1, hj2, hj3, hj4, hj5, hj6, hj7⟩ := lead_lax X h' hnn.tail
        have hadv : advancePast m (tp + 1) = some (j + (tp + 1)) := by
          simp [advancePast, htp1, hj1]
        have htp' : m.drop (j + (tp + 1)) = ts' ++ 0 :: X := by
          rw [Nat.add_comm, ← List.drop_drop, htp1, List.drop_append_of_le_length hj7, hj2]
        have hlen : ts'.length < fuel := by
          have : ts'.length ≤ ts.length := by rw [← hj2, List.length_drop]; omega
          simp only [List.length_cons] at hfuel; omega
        have hsz := argSize_lax hvp hka he (by omega)
        have hvp' := drop_add_of_drop hvp
        obtain ⟨l, hl1, hl2⟩ := ih (j + (tp + 1)) (vp + e.length) R X hj5 hj6 hj3
          htp' hvp' (by omega) hlen
        have hex := extract_lax hvp hka he
        cases hx : extractArg m vp c with
        | none => rw [hx] at hex; simp at hex
        | some cv =>
          rw [hx] at hex; simp only [Option.bind_some] at hex
          refine ⟨(c, cv) :: l, ?_, ?_⟩
          · have hlt' : e.length < 2147483648 := by omega
            simp [iterLoop, itrEnd, itrNext, hmc, hc0, hx, hadv, hsz, hlt', hl1]
          · rw [hv, ← hj4]
            simp [List.mapM_cons, viewPair, hex, hl2]

/-! ### all readers on a buffer with the message layout -/

theorem isprint_ne_zero {x : UInt8} (h : isprint x = true) : x ≠ 0 := by
  intro h0; rw [h0] at h; simp [isprint] at h

theorem readers_of_layout {bs s tags pad : Bytes} {j : Nat} {args : List Arg} {A : Bytes}
    (L : Layout bs s tags pad j args A) (h31 : bs.length < 2147483648) :
    argString bs = some (s.length + 2 + j + 1) ∧
    cstrAt bs (s.length + 2 + j + 1) = some tags ∧
    narguments bs = some (Spec.valuesOf tags args).length ∧
    (∀ i t v, (Spec.valuesOf tags args)[i]? = some (t, v) →
      typeAt bs i = some t ∧ argumentView bs i = some v) ∧
    iterateView bs = some (Spec.valuesOf tags args) := by
  have hsnn : NoNul s := fun x hx => isprint_ne_zero (L.printable x hx)
  have hnn := L.tags_nn
  have hla := L.args
  have hpad := L.pad_len
  -- the pieces of the buffer
  have h0 : bs.drop 0 = 47 :: (s ++ 0 :: (zeros j ++ 44 :: (tags ++ 0 :: (pad ++ A)))) := by
    rw [List.drop_zero]; exact L.eq
  have h1 : bs.drop (0 + 1 + s.length) = 0 :: (zeros j ++ 44 :: (tags ++ 0 :: (pad ++ A))) := by
    have := drop_add_of_drop (p := 0) (x := 47 :: s) (y := 0 :: (zeros j ++ 44 :: (tags ++ 0 :: (pad ++ A))))
      (by rw [h0]; simp)
    simp only [List.length_cons] at this
    rw [show 0 + 1 + s.length = 0 + (s.length + 1) by omega]; exact this
  have h2 : bs.drop (s.length + 2 + j) = 44 :: (tags ++ 0 :: (pad ++ A)) := by
    have := drop_add_of_drop (x := 0 :: zeros j) (y := 44 :: (tags ++ 0 :: (pad ++ A))) (by simpa using h1)
    simp only [List.length_cons, zeros_length] at this
    rw [show s.length + 2 + j = 0 + 1 + s.length + (j + 1) by omega]; exact this
  have h3 : bs.drop (s.length + 2 + j + 1) = tags ++ 0 :: (pad ++ A) := by
    have := drop_add_of_drop (x := [44]) (y := tags ++ 0 :: (pad ++ A)) (by simpa using h2)
    simpa using this
  have h4 : bs.drop (s.length + 2 + j + 1 + tags.length + 1 + pad.length) = A ++ [] := by
    have := drop_add_of_drop (x := tags ++ 0 :: pad) (y := A) (by simpa using h3)
    simp only [List.length_append, List.length_cons] at this
    rw [List.append_nil, ← this]; congr 1; omega
  have hlen : bs.length = s.length + 2 + j + 1 + tags.length + 1 + pad.length + A.length := by
    have := congrArg List.length L.eq
    simp only [List.length_cons, List.length_append, zeros_length] at this
    omega
  -- argument string
  have hs1 : skipToNul bs 0 = some (0 + 1 + s.length) := skipToNul_of_drop h0 hsnn
  have hs2 := skipNuls_of_drop h1 (by decide : (44 : UInt8) ≠ 0)
  have has : argString bs = some (s.length + 2 + j + 1) := by
    simp only [argString, hs1, hs2]; congr 1; omega
  have hcs : cstrAt bs (s.length + 2 + j + 1) = some tags := by
    simp only [cstrAt, h3]; exact cstr_append tags _ hnn
  -- count
  have hvl := valuesOf_length tags args (laxArgs_matches hla)
  have hcnt : (Spec.valuesOf tags args).length ≤ tags.length := by
    rw [hvl]; exact List.length_filter_le _ _
  have hn : narguments bs = some (Spec.valuesOf tags args).length := by
    simp only [narguments, has, h3, countArgs_lax _ hla hnn, Option.map_some]
    rw [u32_id (by omega)]
  -- first argument
  have hbase : argBase bs (s.length + 2 + j + 1) =
      some (s.length + 2 + j + 1 + tags.length + 1 + pad.length) := by
    simp only [argBase, scanToNul_of_drop h3 hnn]
    congr 1; omega
  obtain ⟨jb, ts', hj1, hj2, hj3, hj4, hj5, hj6, hj7⟩ := lead_lax (pad ++ A) hla hnn
  have hadv : advancePast bs (s.length + 2 + j + 1) = some (jb + (s.length + 2 + j + 1)) := by
    simp [advancePast, h3, hj1]
  have hdrop : bs.drop (jb + (s.length + 2 + j + 1)) = ts' ++ 0 :: (pad ++ A) := by
    rw [Nat.add_comm, ← List.drop_drop, h3, List.drop_append_of_le_length hj7, hj2]
  refine ⟨has, hcs, hn, ?_, ?_⟩
  · -- type and argument by index
    intro i t v h
    have hty : typeAt bs i = some t := by
      simp only [typeAt, has, h3]
      exact typeLoop_lax _ i t v hla hnn h
    refine ⟨hty, ?_⟩
    rcases valuesOf_entry tags args i t v (laxArgs_matches hla) h with ⟨hr, hv⟩ | ⟨hr, a, hv⟩
    · have := extract_flag bs 0 hr
      simp only [argumentView, argument, hty, argOff, hr, Bool.not_false, if_true]
      cases hx : extractArg bs 0 t with
      | none => rw [hx] at this; simp at this
      | some cv => rw [hx] at this; simp only [Option.bind_some] at this; simp [this, hv]
    · have h' : (Spec.valuesOf ts' args)[i]? = some (t, v) := by rw [hj4]; exact h
      obtain ⟨pos', hp1, hp2, hp3⟩ := offLoop_lax bs i _ [] (pad ++ A) t v hj5 hj6 h4 (by omega) h'
      obtain ⟨e, R', hd', hk, he⟩ := hp3 a hv
      have hoff : argOff bs i = some pos' := by
        simp only [argOff, hty, hr, Bool.not_true, if_false, has, hbase, hadv, hdrop, hp1,
          Option.map_some, Bool.false_eq_true]
        rw [u32_id (by omega)]
      have := extract_lax hd' hk he
      simp only [argumentView, argument, hty, hoff]
      cases hx : extractArg bs pos' t with
      | none => rw [hx] at this; simp at this
      | some cv => rw [hx] at this; simp only [Option.bind_some] at this; simp [this, hv]
  · -- iterator
    have hstart : argStart bs = some (s.length + 2 + j + 1 + tags.length + 1 + pad.length) := by
      simp only [argStart, has, hbase, Option.map_some]
      rw [u32_id (by omega)]
    have hbeg : itrBegin bs = some ⟨jb + (s.length + 2 + j + 1), s.length + 2 + j + 1 + tags.length + 1 + pad.length⟩ := by
      simp [itrBegin, has, hadv, hstart]
    have hfuel : ts'.length < bs.length + 1 := by
      have : ts'.length ≤ tags.length := by rw [← hj2, List.length_drop]; omega
      omega
    obtain ⟨l, hl1, hl2⟩ := iterLoop_lax bs _ (jb + (s.length + 2 + j + 1))
      (s.length + 2 + j + 1 + tags.length + 1 + pad.length) [] (pad ++ A) hj5 hj6 hj3 hdrop h4 (by omega) hfuel
    simp only [iterateView, iterate, hbeg, hl1]
    rw [← hj4]; exact hl2

end Rtosc.Osc.V
