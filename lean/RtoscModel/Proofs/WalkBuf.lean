/-
  C09 helper lemmas, part 1: the name buffer.  Every primitive of Walk/Buf.lean applied
  to a buffer of the shape `X ++ J` at offset `X.length` ("the part in front stays, the
  junk behind is overwritten").
-/
import RtoscModel.Walk.Spec
namespace Rtosc.Walk
open Rtosc Rtosc.Path Rtosc.Match

theorem rd_at (X Y : Buf) (d : UInt8) : rd (X ++ d :: Y) X.length = .ok d := by
  simp [rd]

theorem wr_at (X Y : Buf) (c d : UInt8) : wr (X ++ d :: Y) X.length c = .ok (X ++ c :: Y) := by
  simp [wr]

theorem wr_junk (X J : Buf) (c : UInt8) (h : 1 ≤ J.length) :
    ∃ J', wr (X ++ J) X.length c = .ok (X ++ c :: J') ∧ J'.length + 1 = J.length := by
  cases J with
  | nil => simp at h
  | cons d Y => exact ⟨Y, wr_at X Y c d, by simp⟩

theorem writeBytes_junk : ∀ (s X J : Buf), s.length ≤ J.length →
    ∃ J', writeBytes s (X ++ J) X.length = .ok (X ++ s ++ J') ∧ J'.length + s.length = J.length := by
  intro s
  induction s with
  | nil => intro X J _; exact ⟨J, by simp [writeBytes], by simp⟩
  | cons c r ih =>
    intro X J h
    cases J with
    | nil => simp at h
    | cons d Y =>
      simp only [List.length_cons, Nat.add_le_add_iff_right] at h
      obtain ⟨J', h1, h2⟩ := ih (X ++ [c]) Y h
      refine ⟨J', ?_, by simp only [List.length_cons]; omega⟩
      simp only [writeBytes, wr_at]
      have : X ++ c :: Y = (X ++ [c]) ++ Y := by simp
      rw [this]
      have hl : (X ++ [c]).length = X.length + 1 := by simp
      rw [← hl, h1]
      simp

/-- `while(*src && *src != ':') *dst++ = *src++` on `s ++ tl` where `s` has no ':' and `tl`
    is empty or begins with ':' -/
theorem copyName_junk : ∀ (s tl X J : Buf), (∀ c ∈ s, c ≠ 58) → (tl = [] ∨ ∃ r, tl = 58 :: r) →
    s.length ≤ J.length →
    ∃ J', copyName (s ++ tl) (X ++ J) X.length = .ok (X ++ s ++ J', X.length + s.length) ∧
      J'.length + s.length = J.length := by
  intro s
  induction s with
  | nil =>
    intro tl X J _ htl _
    refine ⟨J, ?_, by simp⟩
    rcases htl with rfl | ⟨r, rfl⟩ <;> simp [copyName]
  | cons c r ih =>
    intro tl X J hs htl h
    cases J with
    | nil => simp at h
    | cons d Y =>
      simp only [List.length_cons, Nat.add_le_add_iff_right] at h
      have hc : c ≠ 58 := hs c List.mem_cons_self
      obtain ⟨J', h1, h2⟩ := ih tl (X ++ [c]) Y (fun x hx => hs x (List.mem_cons_of_mem _ hx)) htl h
      refine ⟨J', ?_, by simp only [List.length_cons]; omega⟩
      simp only [List.cons_append, copyName, hc, ↓reduceIte, wr_at]
      have : X ++ c :: Y = (X ++ [c]) ++ Y := by simp
      rw [this]
      have hl : (X ++ [c]).length = X.length + 1 := by simp
      rw [← hl, h1]
      have e : X.length + 1 + r.length = X.length + (r.length + 1) := by omega
      simp only [List.append_assoc, List.cons_append, List.nil_append, List.length_append,
        List.length_cons, List.length_nil, e]

theorem strlenGo_nulfree (s J : Buf) (hs : NulFree s) : strlenGo (s ++ 0 :: J) = .ok s.length := by
  induction s with
  | nil => simp [strlenGo]
  | cons c r ih =>
    have hc : c ≠ 0 := hs c List.mem_cons_self
    simp only [List.cons_append, strlenGo, hc, ↓reduceIte, ih (fun x hx => hs x (List.mem_cons_of_mem _ hx))]
    rfl

theorem cstrGo_nulfree (s J : Buf) (hs : NulFree s) : cstrGo (s ++ 0 :: J) = .ok s := by
  induction s with
  | nil => simp [cstrGo]
  | cons c r ih =>
    have hc : c ≠ 0 := hs c List.mem_cons_self
    simp only [List.cons_append, cstrGo, hc, ↓reduceIte, ih (fun x hx => hs x (List.mem_cons_of_mem _ hx))]
    rfl

theorem strlenAt_zero (s J : Buf) (hs : NulFree s) : strlenAt (s ++ 0 :: J) 0 = .ok s.length := by
  simp [strlenAt, strlenGo_nulfree s J hs]

theorem cstrAt_zero (s J : Buf) (hs : NulFree s) : cstrAt (s ++ 0 :: J) 0 = .ok s := by
  simp [cstrAt, cstrGo_nulfree s J hs]

theorem cstrAt_mid (X s J : Buf) (hs : NulFree s) : cstrAt (X ++ s ++ 0 :: J) X.length = .ok s := by
  simp [cstrAt, cstrGo_nulfree s J hs]

theorem eraseGo_spec : ∀ (s : Buf) (f : Nat) (X J : Buf), NulFree s → s.length < f →
    eraseGo f (X ++ s ++ 0 :: J) X.length = .ok (X ++ List.replicate s.length 0 ++ 0 :: J) := by
  intro s
  induction s with
  | nil =>
    intro f X J _ hf
    cases f with
    | zero => simp at hf
    | succ f => simp [eraseGo, rd_at]
  | cons c r ih =>
    intro f X J hs hf
    cases f with
    | zero => simp at hf
    | succ f =>
      have hc : c ≠ 0 := hs c List.mem_cons_self
      simp only [List.length_cons, Nat.add_lt_add_iff_right] at hf
      have e1 : X ++ c :: r ++ 0 :: J = X ++ c :: (r ++ 0 :: J) := by simp
      have e2 : X ++ (0 : UInt8) :: (r ++ 0 :: J) = (X ++ [0]) ++ r ++ 0 :: J := by simp
      have hl : (X ++ [(0 : UInt8)]).length = X.length + 1 := by simp
      rw [eraseGo, e1, rd_at]
      simp only [hc, ↓reduceIte, wr_at]
      rw [e2, ← hl, ih f (X ++ [0]) J (fun x hx => hs x (List.mem_cons_of_mem _ hx)) hf]
      simp [List.replicate_succ]

/-- "remove the rest of the path": the buffer holds the prefix again, the junk keeps its size -/
theorem erase_spec (pre s J : Buf) (hs : NulFree s) :
    ∃ J', erase (pre ++ s ++ 0 :: J) pre.length = .ok (pre ++ 0 :: J') ∧ J'.length = s.length + J.length := by
  refine ⟨List.replicate s.length 0 ++ J, ?_, by simp⟩
  rw [erase, eraseGo_spec s _ pre J hs (by simp; omega)]
  congr 1
  have : ∀ n : Nat, List.replicate n (0 : UInt8) ++ 0 :: J = 0 :: (List.replicate n 0 ++ J) := by
    intro n
    induction n with
    | zero => rfl
    | succ n ih => simp [List.replicate_succ, ih]
  simp [this]

theorem snprintfAt_junk (s X J : Buf) (size : Nat) (hsz : s.length < size) (h : s.length + 1 ≤ J.length) :
    ∃ J', snprintfAt (X ++ J) X.length size s = .ok (X ++ s ++ 0 :: J', s.length) ∧
      J'.length + s.length + 1 = J.length := by
  have hsz0 : size ≠ 0 := by omega
  have htake : s.take (size - 1) = s := List.take_of_length_le (by omega)
  obtain ⟨J1, h1, h2⟩ := writeBytes_junk s X J (by omega)
  obtain ⟨J2, h3, h4⟩ := wr_junk (X ++ s) J1 0 (by omega)
  refine ⟨J2, ?_, by omega⟩
  simp only [snprintfAt, hsz0, ↓reduceIte, htake, h1]
  have : X.length + s.length = (X ++ s).length := by simp
  rw [this, h3]

/-- `scat(name_buffer, name)`: the literal part of the name is appended -/
theorem scat_spec (pre J s tl : Buf) (hpre : NulFree pre) (hs : ∀ c ∈ s, c ≠ 58)
    (htl : tl = [] ∨ ∃ r, tl = 58 :: r) (h : s.length ≤ J.length) :
    ∃ J', scat (pre ++ 0 :: J) (s ++ tl) = .ok (pre ++ s ++ 0 :: J') ∧ J'.length + s.length = J.length := by
  obtain ⟨J1, h1, h2⟩ := copyName_junk s tl pre (0 :: J) hs htl (by simp; omega)
  obtain ⟨J2, h3, h4⟩ := wr_junk (pre ++ s) J1 0 (by simp at h2; omega)
  refine ⟨J2, ?_, by simp at h2; omega⟩
  simp only [scat, strlenAt_zero pre J hpre, bind, Except.bind, h1]
  have : pre.length + s.length = (pre ++ s).length := by simp
  rw [this, h3]

end Rtosc.Walk
