/-
  C10 / C12: the nesting bound (first argument) of `skipNextPrintedArg` is monotone: a result
  obtained with a bound `f` is obtained with every bound `g ≥ f`.  `countLoop` hands
  `checkFuel src recent` to the skipper; lemmas that know a skip fact at a smaller bound lift it
  with `skipNextPrintedArg_fuel_mono`.
-/
import RtoscModel.Pretty.Check
namespace Rtosc.Pretty
open Rtosc Rtosc.Libc

def SkLe (sk sk' : ArgSkipper) : Prop :=
  ∀ a b c d e r, sk a b c d e = .ok r → sk' a b c d e = .ok r

theorem skipArrayElems_skLe {sk sk' : ArgSkipper} (h : SkLe sk sk') :
    ∀ n s rc at' k r, skipArrayElems sk n s rc at' k = .ok r → skipArrayElems sk' n s rc at' k = .ok r := by
  intro n
  induction n with
  | zero => intro s rc a k r hr; simp [skipArrayElems] at hr
  | succ n ih =>
    intro s rc a k r hr
    cases s with
    | none => simpa [skipArrayElems] using hr
    | some src =>
      unfold skipArrayElems at hr ⊢
      simp only at hr ⊢
      split
      · rename_i hc
        rw [if_pos hc] at hr
        cases hsk : sk src 20 rc true true with
        | error e => rw [hsk] at hr; simp [bind, Except.bind] at hr
        | ok q =>
          rw [hsk] at hr
          rw [h _ _ _ _ _ _ hsk]
          simp only [bind, Except.bind] at hr ⊢
          generalize (if a = 0 then (q.type, Option.map skipSpace q.src)
            else if (!arraytypesMatch a q.type) = true then (a, none) else (a, Option.map skipSpace q.src)) = p at hr ⊢
          rcases p with ⟨t, _ | s2⟩
          · exact ih _ _ _ _ _ hr
          · simp only at hr ⊢
            split
            · rename_i hl
              rw [if_pos hl] at hr
              simp [throw, throwThe, MonadExceptOf.throw] at hr
            · rename_i hl
              rw [if_neg hl] at hr
              exact ih _ _ _ _ _ hr
      · rename_i hc
        rw [if_neg hc] at hr
        exact hr

theorem bind_ok_iff {α β : Type} (x : Res α) (k : α → Res β) (r : β) :
    (x >>= k) = .ok r ↔ ∃ a, x = .ok a ∧ k a = .ok r := by
  cases x <;> simp [bind, Except.bind]

theorem skipArray_skLe {sk sk' : ArgSkipper} (h : SkLe sk sk') (src : Bytes) (r : SwRes)
    (hr : skipArray sk src = .ok r) : skipArray sk' src = .ok r := by
  unfold skipArray at hr ⊢
  simp only [bind_ok_iff] at hr ⊢
  obtain ⟨a, ha, hk⟩ := hr
  exact ⟨a, skipArrayElems_skLe h _ _ _ _ _ _ ha, hk⟩

theorem skipMultiplier_skLe {sk sk' : ArgSkipper} (h : SkLe sk sk') (src : Bytes) (t : UInt8) (ib : Bool)
    (r : SwRes) (hr : skipMultiplier sk src t ib = .ok r) : skipMultiplier sk' src t ib = .ok r := by
  unfold skipMultiplier at hr ⊢
  simp only [bind_ok_iff] at hr ⊢
  obtain ⟨a, ha, hk⟩ := hr
  exact ⟨a, h _ _ _ _ _ _ ha, hk⟩

theorem skipValue_skLe {sk sk' : ArgSkipper} (h : SkLe sk sk') (src : Bytes) (t : UInt8) (ib : Bool)
    (r : Option SwRes) (hr : skipValue sk src t ib = .ok r) : skipValue sk' src t ib = .ok r := by
  unfold skipValue at hr ⊢
  simp only at hr ⊢
  by_cases c0 : hd src = 116 ∨ hd src = 102 ∨ hd src = 110 ∨ hd src = 105
  · rw [if_pos c0] at hr ⊢; exact hr
  rw [if_neg c0] at hr ⊢
  by_cases c1 : hd src = 35
  · rw [if_pos c1] at hr ⊢; exact hr
  rw [if_neg c1] at hr ⊢
  by_cases c2 : hd src = 39
  · rw [if_pos c2] at hr ⊢; exact hr
  rw [if_neg c2] at hr ⊢
  by_cases c3 : hd src = 34
  · rw [if_pos c3] at hr ⊢; exact hr
  rw [if_neg c3] at hr ⊢
  by_cases c4 : hd src = 77
  · rw [if_pos c4] at hr ⊢; exact hr
  rw [if_neg c4] at hr ⊢
  by_cases c5 : hd src = 91
  · rw [if_pos c5] at hr ⊢
    simp only [bind_ok_iff] at hr ⊢
    obtain ⟨a, ha, hk⟩ := hr
    exact ⟨a, skipArray_skLe h _ _ ha, hk⟩
  rw [if_neg c5] at hr ⊢
  by_cases c6 : hd src = 66
  · rw [if_pos c6] at hr ⊢; exact hr
  rw [if_neg c6] at hr ⊢
  by_cases c7 : isRangeMultiplier src = true
  · rw [if_pos c7] at hr ⊢
    simp only [bind_ok_iff] at hr ⊢
    obtain ⟨a, ha, hk⟩ := hr
    exact ⟨a, skipMultiplier_skLe h _ _ _ _ ha, hk⟩
  rw [if_neg c7] at hr ⊢
  by_cases c8 : isIdentStart (hd src) = true
  · rw [if_pos c8] at hr ⊢; exact hr
  rw [if_neg c8] at hr ⊢
  by_cases c9 : skipFmt fmtIsDate src ≠ 0
  · rw [if_pos c9] at hr ⊢; exact hr
  rw [if_neg c9] at hr ⊢
  exact hr

structure RLe {α : Type} (x y : Res α) : Prop where
  le : ∀ r, x = .ok r → y = .ok r

theorem RLe.refl {α : Type} (x : Res α) : RLe x x := ⟨fun _ h => h⟩

theorem RLe.bind {α β : Type} {x x' : Res α} {k k' : α → Res β} (hx : RLe x x')
    (hk : ∀ a, RLe (k a) (k' a)) : RLe (x >>= k) (x' >>= k') := by
  constructor
  intro r hr
  rw [bind_ok_iff] at hr ⊢
  obtain ⟨a, ha, hka⟩ := hr
  exact ⟨a, hx.le _ ha, (hk _).le _ hka⟩

theorem SkLe.rle {sk sk' : ArgSkipper} (h : SkLe sk sk') (a b c d e) : RLe (sk a b c d e) (sk' a b c d e) :=
  ⟨fun r hr => h a b c d e r hr⟩

theorem RLe.ite {α : Type} {c : Prop} [Decidable c] {a a' b b' : Res α}
    (h1 : c → RLe a a') (h2 : ¬c → RLe b b') : RLe (if c then a else b) (if c then a' else b') := by
  by_cases hc : c
  · rw [if_pos hc, if_pos hc]; exact h1 hc
  · rw [if_neg hc, if_neg hc]; exact h2 hc

theorem ellipsisTail_skLe {sk sk' : ArgSkipper} (h : SkLe sk sk') (oldSrc : Bytes) (sw : SwRes) (src2 : Bytes)
    (ll : Option Bytes) (ib : Bool) :
    RLe (ellipsisTail sk oldSrc sw src2 ll ib) (ellipsisTail sk' oldSrc sw src2 ll ib) := by
  cases ll with
  | none =>
    unfold ellipsisTail
    simp (config := {maxSteps := 4000000}) only [pure_bind]
    repeat (first | exact RLe.refl _ | exact h.rle _ _ _ _ _ | apply RLe.ite | apply RLe.bind | intro _)
  | some ll0 =>
    unfold ellipsisTail
    simp (config := {maxSteps := 4000000}) only [pure_bind]
    apply RLe.ite
    · intro _
      repeat (first | exact RLe.refl _ | exact h.rle _ _ _ _ _ | apply RLe.ite | apply RLe.bind | intro _)
    · intro _
      apply RLe.ite
      · intro _
        repeat (first | exact RLe.refl _ | exact h.rle _ _ _ _ _ | apply RLe.ite | apply RLe.bind | intro _)
      · intro _
        apply RLe.bind (h.rle _ _ _ _ _)
        intro r
        generalize r.src = o
        cases o <;> simp only []
        all_goals
          repeat (first | exact RLe.refl _ | exact h.rle _ _ _ _ _ | apply RLe.ite | apply RLe.bind | intro _)

theorem skipNextPrintedArg_skLe_succ (f : Nat) : ∀ g, f ≤ g →
    SkLe (skipNextPrintedArg f) (skipNextPrintedArg g) := by
  induction f with
  | zero => intro g _ a b c d e r hr; simp [skipNextPrintedArg] at hr
  | succ f ih =>
    intro g hg
    obtain ⟨g', rfl⟩ : ∃ g', g = g' + 1 := ⟨g - 1, by omega⟩
    have hle : SkLe (skipNextPrintedArg f) (skipNextPrintedArg g') := ih g' (by omega)
    intro src ty ll fe ib r hr
    unfold skipNextPrintedArg at hr ⊢
    rw [bind_ok_iff] at hr ⊢
    obtain ⟨v, hv, hk⟩ := hr
    refine ⟨v, skipValue_skLe hle _ _ _ _ hv, ?_⟩
    cases v with
    | none => exact hk
    | some sw =>
      simp only at hk ⊢
      cases hs : sw.src with
      | none => rw [hs] at hk; exact hk
      | some s =>
        rw [hs] at hk
        simp only at hk ⊢
        split
        · rename_i hc
          rw [if_pos hc] at hk
          exact (ellipsisTail_skLe hle _ _ _ _ _).le _ hk
        · rename_i hc
          rw [if_neg hc] at hk
          exact hk

/-- the nesting bound of `skipNextPrintedArg` only ever turns an answer into `Err.fuel`: an answer
    obtained with the bound `f` is obtained with every larger bound -/
theorem skipNextPrintedArg_fuel_mono : ∀ (f g : Nat), f ≤ g → ∀ src ty ll fe ib r,
    skipNextPrintedArg f src ty ll fe ib = .ok r → skipNextPrintedArg g src ty ll fe ib = .ok r :=
  fun f g h => skipNextPrintedArg_skLe_succ f g h

theorem le_checkFuel_sub (src : Bytes) (recent : Option Bytes) : src.length ≤ checkFuel src recent - 2 := by
  unfold checkFuel; omega

theorem le_checkFuel (src : Bytes) (recent : Option Bytes) : src.length + 2 ≤ checkFuel src recent := by
  unfold checkFuel; omega

theorem checkFuel_none (src : Bytes) : checkFuel src none = src.length + 2 := by
  simp only [checkFuel]; omega

/-- a skip fact at the bound `src.length + 2` (the bound `countLoop` used before `checkFuel`) lifted to
    the bound `countLoop` uses -/
theorem skipNextPrintedArg_checkFuel {src : Bytes} {recent : Option Bytes} {ty : UInt8} {fe ib : Bool}
    {r : SkipRes} (h : skipNextPrintedArg (src.length + 2) src ty recent fe ib = .ok r) :
    skipNextPrintedArg (checkFuel src recent) src ty recent fe ib = .ok r :=
  skipNextPrintedArg_fuel_mono _ _ (le_checkFuel src recent) _ _ _ _ _ _ h

end Rtosc.Pretty
