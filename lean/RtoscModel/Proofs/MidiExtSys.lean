/-
  C20 (extension) — `Track` is an invariant of hazard-free histories, and the end-to-end theorem it
  gives: the message a bound controller produces carries the value composed from the incoming value
  and the LAST value of the address's other controller.
-/
import RtoscModel.Proofs.MidiExtTrack
set_option linter.unusedSimpArgs false
namespace Rtosc.Midi

theorem one_msg {P s id val s' out} (h : step P s (.cc id val) = some (s', out)) : out.length ≤ 1 := by
  rcases cc_step_spec h with ⟨_, rfl⟩ | ⟨_, _, _, _, _, _, _, _, _, rfl, _⟩ <;> simp

/-- a handled controller value: its own half takes the value, every other half is untouched -/
theorem track_cc_handled {P h0 s0 s1 id val m} (t : Trace P h0 s0) (hf : HazardFree h0) (hv : val ≤ 127)
    (hs : step P s0 (.cc id val) = some (s1, [m])) (T : Track h0 s0) :
    Track ((s0, .cc id val) :: h0) s1 := by
  have hi := inv_of_trace t hf
  rcases cc_step_spec hs with ⟨_, hout⟩ | ⟨st, e, old, cb, hst, hfind, hold, hcb, hb, _, hst1, _, _, _, hto, _⟩
  · cases hout
  · have hok : StOk st := hi.rts st hst
    have hinj := rt_pairInj t hf hst
    have hsmall : Small st.values := ((inv0_of_reach (reach_of_trace t)).rt st hst).2
    have hem : e ∈ st.mapping := List.mem_of_find?_eq_some hfind
    have hid : e.id = id := by have := List.find?_some hfind; simpa using this
    have holdlt : old < 16384 := hsmall old (List.mem_of_getElem? hold)
    have hl : ∀ x, lastVals ((s0, .cc id val) :: h0) x = if x = id then val else lastVals h0 x := by
      intro x; rw [lastVals_cc]; simp [hb]
    have hbind : s1.rt.binding = s0.rt.binding := by
      funext x; simp only [RT.binding, hst, hst1]; rfl
    constructor
    · intro st' ans hin; rw [hto] at hin; exact T.zero st' ans hin
    · intro x hx
      rw [hbind] at hx
      rw [hl]
      have : x ≠ id := by intro e'; subst e'; rw [hb] at hx; cases hx
      simp only [this, if_false]; exact T.unb x hx
    · intro st' hst' e' he'
      rw [hst1] at hst'; cases hst'
      simp only at he' ⊢
      rw [halfAt_set e.coarse hold (by omega) holdlt, hl]
      by_cases hc : e'.slot = e.slot ∧ e'.coarse = e.coarse
      · have : e' = e := hinj e' he' e hem hc.1 hc.2
        subst this
        simp [hid]
      · have hne : e'.id ≠ id := by
          intro heq
          have : e' = e := eq_of_mem_nodup hok.nodup he' hem (heq.trans hid.symm)
          exact hc (by rw [this]; exact ⟨rfl, rfl⟩)
        simp only [hc, hne, if_false]
        exact T.own st hst e' he'
    · intro st' hst' slot c hsl hfree
      rw [hst1] at hst'; cases hst'
      simp only at hsl hfree ⊢
      rw [halfAt_set e.coarse hold (by omega) holdlt]
      have hc : ¬(slot = e.slot ∧ c = e.coarse) := fun h => hfree e hem ⟨h.1.symm, h.2.symm⟩
      simp only [hc, if_false]
      exact T.free st hst slot c (by simpa using hsl) hfree

/-- a controller value the realtime half does not handle -/
theorem track_cc_unhandled {P h0 s0 s1 id val} (hs : step P s0 (.cc id val) = some (s1, [])) (T : Track h0 s0) :
    Track ((s0, .cc id val) :: h0) s1 := by
  obtain ⟨hst, hto⟩ := cc_step_unhandled hs
  have hb : s0.rt.binding id = none := by
    rcases cc_step_spec hs with ⟨hb, _⟩ | ⟨_, _, _, _, _, _, _, _, _, hout, _⟩
    · exact hb
    · cases hout
  have hl : lastVals ((s0, .cc id val) :: h0) = lastVals h0 := by
    funext x; rw [lastVals_cc]; simp [hb]
  have hbind := rt_binding_storage hst
  constructor
  · intro st ans hin; rw [hto] at hin; exact T.zero st ans hin
  · intro x hx; rw [hl]; rw [hbind] at hx; exact T.unb x hx
  · intro st hst'; rw [hl]; rw [hst] at hst'; exact T.own st hst'
  · intro st hst'; rw [hst] at hst'; exact T.free st hst'

theorem binding_isSome_of_mem {st : Storage} (hs : StOk st) {e : MapEnt} (he : e ∈ st.mapping) :
    (st.binding e.id).isSome = true := by
  cases hb : st.binding e.id with
  | none => exact absurd (mem_ids.mpr ⟨e, he, rfl⟩) (not_mem_of_binding_none hs hb)
  | some b => rfl

theorem halfAt_zero {st : Storage} (hz : ZeroVals st) {slot : Nat} (c : Bool) (h : slot < st.values.length) :
    halfAt slot c st.values = some 0 := by
  have : st.values[slot]? = some 0 := by
    rw [List.getElem?_eq_getElem h]; congr 1; exact hz _ (List.getElem_mem h)
  simp [halfAt, this, half_zero]

/-- a `midi-bind` reaches the realtime half -/
theorem track_bind {P h0 s0 s1 ns ans rest out} (t : Trace P h0 s0) (hf : HazardFree h0)
    (hq : s0.toRT = .bind ns ans :: rest) (hs : step P s0 .deliverRT = some (s1, out)) (T : Track h0 s0) :
    Track ((s0, .deliverRT) :: h0) s1 := by
  have hi := inv_of_trace t hf
  have hin : RtMsg.bind ns ans ∈ s0.toRT := by rw [hq]; exact List.mem_cons_self
  have hns : StOk ns := hi.fl (ns, ans) (by simp [hq, flightOf])
  have hinj := flight_pairInj t hf hin
  have hzero := T.zero ns ans hin
  have hl := lastVals_bind (h := h0) hq
  have hrest : ∀ st a, RtMsg.bind st a ∈ rest → ZeroVals st :=
    fun st a h' => T.zero st a (by rw [hq]; exact List.mem_cons_of_mem _ h')
  simp only [step, hq, RT.recv] at hs
  cases hold : s0.rt.storage with
  | none =>
    simp [hold] at hs; obtain ⟨rfl, _⟩ := hs
    have hnone : ∀ x, lastVals h0 x = 0 := fun x => T.unb x (by simp [RT.binding, hold])
    constructor
    · exact hrest
    · intro x hx; rw [hl, hnone]; simp
    · intro st hst e he
      simp at hst; subst hst
      rw [hl, hnone]; simp only [ite_self]
      exact halfAt_zero hzero _ (by rw [hns.vals]; exact hns.slots e he)
    · intro st hst slot c hsl _
      simp at hst; subst hst
      exact halfAt_zero hzero _ hsl
  | some old =>
    simp only [hold] at hs
    cases hc : ns.cloneValues old with
    | none => simp [hc] at hs
    | some ns' =>
      simp [hc] at hs; obtain ⟨rfl, _⟩ := hs
      have hok : StOk old := hi.rts old hold
      have hsmall : Small old.values := ((inv0_of_reach (reach_of_trace t)).rt old hold).2
      obtain ⟨hm, hcb, hlen, hkeep, hnew, hfree⟩ := cloneValues_track hns hok hsmall hinj hc
      have hbind : ns'.binding = ns.binding := binding_congr hm hcb
      constructor
      · exact hrest
      · intro x hx
        simp only [RT.binding, hbind] at hx
        rw [hl, hx]; rfl
      · intro st hst e he
        simp at hst; subst hst
        rw [hm] at he
        rw [hl, binding_isSome_of_mem hns he]; simp only [if_true]
        by_cases hmem : e.id ∈ ids old.mapping
        · obtain ⟨e0, he0, hid0⟩ := mem_ids.mp hmem
          obtain ⟨sv, hsv, hhalf⟩ := hkeep e he e0 he0 hid0.symm
          rw [hhalf]
          have := T.own old hold e0 he0
          simp only [halfAt, hsv, Option.map_some, Option.some.injEq] at this
          rw [this, hid0]
        · rw [hnew e he hmem]
          have : s0.rt.binding e.id = none := by
            simp only [RT.binding, hold]; exact binding_none_of_not_mem hmem
          rw [T.unb _ this]
      · intro st hst slot c hsl hfr
        simp at hst; subst hst
        rw [hm] at hfr
        exact hfree slot c (by rw [← hlen]; exact hsl) hfr

/-- **`Track` is preserved by every hazard-free step.** -/
theorem track_step {P h0 s0 s1 op out} (t : Trace P h0 s0) (hf : HazardFree h0) (hwf : op.wf P)
    (hs : step P s0 op = some (s1, out)) (T : Track h0 s0) : Track ((s0, op) :: h0) s1 := by
  have hi := inv_of_trace t hf
  cases op with
  | map a k =>
    simp only [step] at hs
    cases hm : s0.nrt.map a k with
    | none => simp [hm] at hs
    | some r =>
      obtain ⟨n', ms⟩ := r
      simp [hm] at hs; obtain ⟨rfl, _⟩ := hs
      exact track_nrt T (lastVals_map _ _ _ _) rfl ms rfl (map_zero hi.nrt hwf hm)
  | unmap a k =>
    simp only [step] at hs
    cases hm : s0.nrt.unMap a k with
    | none => simp [hm] at hs
    | some r =>
      obtain ⟨n', ms⟩ := r
      simp [hm] at hs; obtain ⟨rfl, _⟩ := hs
      exact track_nrt T (lastVals_unmap _ _ _ _) rfl ms rfl (unMap_zero hi.nrt hm)
  | clear =>
    simp [step, NRT.clear] at hs; obtain ⟨rfl, _⟩ := hs
    refine track_nrt T (lastVals_clear _ _) rfl [.bind Storage.empty none] rfl ?_
    intro st ans hin
    simp only [List.mem_singleton, RtMsg.bind.injEq] at hin
    obtain ⟨rfl, _⟩ := hin
    intro v hv; simp [Storage.empty] at hv
  | deliverNRT =>
    simp only [step] at hs
    cases hq : s0.toNRT with
    | nil =>
      simp [hq] at hs; obtain ⟨rfl, _⟩ := hs
      exact track_nrt T (lastVals_deliverNRT _ _) rfl [] (by simp) (by simp)
    | cons id rest =>
      simp only [hq] at hs
      cases hu : NRT.useFreeID P s0.nrt id with
      | none => simp [hu] at hs
      | some r =>
        obtain ⟨n', ms⟩ := r
        simp [hu] at hs; obtain ⟨rfl, _⟩ := hs
        exact track_nrt T (lastVals_deliverNRT _ _) rfl ms rfl (useFreeID_zero hi.nrt hu)
  | cc id val =>
    cases out with
    | nil => exact track_cc_unhandled hs T
    | cons m rest =>
      have hlen := (one_msg hs)
      cases rest with
      | nil => exact track_cc_handled t hf hwf hs T
      | cons m2 r2 => simp at hlen
  | deliverRT =>
    cases hq : s0.toRT with
    | nil =>
      simp [step, hq] at hs; obtain ⟨rfl, _⟩ := hs
      exact track_nrt T (lastVals_nobind (by simp [hq]) _) rfl [] (by simp) (by simp)
    | cons m rest =>
      cases m with
      | bind ns ans => exact track_bind t hf hq hs T
      | addWatch =>
        simp [step, hq, RT.recv] at hs; obtain ⟨rfl, _⟩ := hs
        have hl : lastVals ((s0, .deliverRT) :: h0) = lastVals h0 := lastVals_nobind (by simp [hq]) _
        constructor
        · intro st ans hin; exact T.zero st ans (by rw [hq]; exact List.mem_cons_of_mem _ hin)
        · intro x hx; rw [hl]; exact T.unb x (by simpa [RT.binding] using hx)
        · intro st hst; rw [hl]; exact T.own st hst
        · intro st hst; exact T.free st hst

theorem track_of_trace {P h s} (t : Trace P h s) (hf : HazardFree h) : Track h s := by
  induction t with
  | init => exact track_init
  | step t hwf hs ih =>
    have hf0 : HazardFree _ := fun x hx => hf x (List.mem_cons_of_mem _ hx)
    exact track_step t hf0 hwf hs (ih hf0)

/-! ### the end-to-end theorem -/

/-- two mapping entries that drive the same address share its value slot -/
theorem slot_of_addr {P n} (h : NrtOk P n) {e1 e2 : MapEnt} (h1 : e1 ∈ n.mapping) (h2 : e2 ∈ n.mapping)
    {cb1 cb2 : Cb} (c1 : n.callbacks[e1.slot]? = some cb1) (c2 : n.callbacks[e2.slot]? = some cb2)
    (ha : cb1.addr = cb2.addr) : e1.slot = e2.slot := by
  obtain ⟨cb1', im1, hcb1, hl1, hs1, _⟩ := h.map_inv e1 h1
  obtain ⟨cb2', im2, hcb2, hl2, hs2, _⟩ := h.map_inv e2 h2
  rw [c1] at hcb1; cases hcb1
  rw [c2] at hcb2; cases hcb2
  rw [ha, hl2] at hl1; cases hl1
  omega

theorem view_eq {n : NRT} {st : Storage} (hv : viewOf (some st) = viewOf n.storage) :
    n.mapping = st.mapping ∧ n.callbacks = st.callbacks := by
  cases hs : n.storage with
  | none => simp [viewOf, hs] at hv; simp [NRT.mapping, NRT.callbacks, hs, hv.1, hv.2]
  | some st2 =>
    simp only [viewOf, hs, Prod.mk.injEq] at hv
    simp [NRT.mapping, NRT.callbacks, hs, hv.1, hv.2]

theorem half_not (k : Bool) (old : Nat) : half (!k) old = if k then old % 128 else old / 128 := by
  cases k
  · simp [half_true]
  · simp [half_false]

/-- **What a controller value makes the realtime half send**, in terms of the history: nothing if the
    controller is bound to nothing; otherwise exactly one message, the callback of the port at the
    bound address applied to the 14-bit value composed from the incoming value (in the controller's
    half) and `o` (in the other half), where `o` is the LAST value of the controller bound to the other
    half of the same address — 0 if there is no such controller. -/
theorem cc_emits_composed {P h s} (t : Trace P h s) (hf : HazardFree h) {id val s' out} (hv : val ≤ 127)
    (hs : step P s (.cc id val) = some (s', out)) :
    (s.rt.binding id = none → out = []) ∧
    ∀ a k, s.rt.binding id = some (a, k) →
      ∃ p o, P[a]? = some p ∧ o < 128 ∧
        (∀ id', s.rt.binding id' = some (a, !k) → o = lastVals h id') ∧
        ((∀ id', s.rt.binding id' ≠ some (a, !k)) → o = 0) ∧
        out = [(portCb a p).fire (compose14 k val o)] := by
  have hi := inv_of_trace t hf
  have T := track_of_trace t hf
  rcases cc_step_spec hs with ⟨hb, hout⟩ | ⟨st, e, old, cb, hst, hfind, hold, hcb, hb, hout, _⟩
  · exact ⟨fun _ => hout, fun a k h' => (by rw [hb] at h'; cases h')⟩
  · refine ⟨fun h' => (by rw [hb] at h'; cases h'), ?_⟩
    intro a k hb'
    rw [hb] at hb'; cases hb'
    have hok : StOk st := hi.rts st hst
    obtain ⟨hcbs, hsmall⟩ := (inv0_of_reach (reach_of_trace t)).rt st hst
    obtain ⟨p, hp, hcbeq⟩ := hcbs cb (List.mem_of_getElem? hcb)
    have holdlt : old < 16384 := hsmall old (List.mem_of_getElem? hold)
    have hem : e ∈ st.mapping := List.mem_of_find?_eq_some hfind
    obtain ⟨o, ho, hblit, hoeq⟩ := blit_compose e.coarse val old hv holdlt
    have hohalf : o = half (!e.coarse) old := by rw [half_not]; exact hoeq
    have hat : halfAt e.slot (!e.coarse) st.values = some o := by
      simp [halfAt, hold, hohalf]
    obtain ⟨n, hnok, hview⟩ := rt_view_ok t hf
    rw [hst] at hview
    obtain ⟨hvm, hvc⟩ := view_eq hview
    refine ⟨p, o, hp, ho, ?_, ?_, by rw [hout, hblit]; congr 2⟩
    · intro id' hb2
      simp only [RT.binding, hst, Storage.binding] at hb2
      cases hf2 : st.mapping.find? (fun x => x.id == id') with
      | none => simp [hf2] at hb2
      | some e' =>
        simp only [hf2] at hb2
        cases hcb2 : st.callbacks[e'.slot]? with
        | none => simp [hcb2] at hb2
        | some cb' =>
          simp only [hcb2, Option.map_some, Option.some.injEq, Prod.mk.injEq] at hb2
          have hem' : e' ∈ st.mapping := List.mem_of_find?_eq_some hf2
          have hid' : e'.id = id' := by have := List.find?_some hf2; simpa using this
          have hslot : e'.slot = e.slot :=
            slot_of_addr hnok (by rw [hvm]; exact hem') (by rw [hvm]; exact hem)
              (by rw [hvc]; exact hcb2) (by rw [hvc]; exact hcb) hb2.1
          have := T.own st hst e' hem'
          rw [hslot, hb2.2, hat, hid'] at this
          exact Option.some.inj this
    · intro hno
      have := T.free st hst e.slot (!e.coarse) (List.getElem?_eq_some_iff.mp hold).1 (by
        intro e2 he2 hc
        apply hno e2.id
        have hf2 := find?_of_mem_nodup hok.nodup he2
        simp [RT.binding, hst, Storage.binding, hf2, hc.1, hcb, hc.2])
      rw [hat] at this
      exact Option.some.inj this

end Rtosc.Midi
