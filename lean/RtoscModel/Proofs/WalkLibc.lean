/-
  C09 helper lemmas, part 2: `%d` / `atoi` on the numbers of port names.
-/
import RtoscModel.Proofs.WalkBuf
import RtoscModel.Proofs.MatchLemmas
namespace Rtosc.Walk
open Rtosc Rtosc.Path Rtosc.Match

theorem digit_toNat (k : Nat) (hk : k ≤ 9) : (UInt8.ofNat (48 + k)).toNat = 48 + k := by
  rw [UInt8.toNat_ofNat']
  omega

theorem digit_isDigit (k : Nat) (hk : k ≤ 9) : Match.isDigit (UInt8.ofNat (48 + k)) = true := by
  have h : k = 0 ∨ k = 1 ∨ k = 2 ∨ k = 3 ∨ k = 4 ∨ k = 5 ∨ k = 6 ∨ k = 7 ∨ k = 8 ∨ k = 9 := by omega
  rcases h with rfl | rfl | rfl | rfl | rfl | rfl | rfl | rfl | rfl | rfl <;> decide

theorem decVal_snoc (a : Bytes) (d : UInt8) : decVal (a ++ [d]) = decVal a * 10 + (d.toNat - 48) := by
  simp [decVal, List.foldl_append]

theorem natDigitsF_spec : ∀ (f n : Nat), n ≤ f →
    decVal (natDigitsF f n) = n ∧ (∀ c ∈ natDigitsF f n, Match.isDigit c = true) ∧ natDigitsF f n ≠ [] := by
  intro f
  induction f with
  | zero =>
    intro n hn
    have : n = 0 := by omega
    subst this
    refine ⟨by decide, by decide, by decide⟩
  | succ f ih =>
    intro n hn
    unfold natDigitsF
    by_cases h10 : n < 10
    · simp only [h10, ↓reduceIte]
      refine ⟨?_, ?_, by simp⟩
      · simp [decVal]; omega
      · intro c hc
        simp only [List.mem_singleton] at hc
        subst hc
        exact digit_isDigit n (by omega)
    · simp only [h10, ↓reduceIte]
      obtain ⟨h1, h2, _⟩ := ih (n / 10) (by omega)
      refine ⟨?_, ?_, by simp⟩
      · rw [decVal_snoc, h1, digit_toNat (n % 10) (by omega)]
        omega
      · intro c hc
        simp only [List.mem_append, List.mem_singleton] at hc
        rcases hc with hc | rfl
        · exact h2 c hc
        · exact digit_isDigit (n % 10) (by omega)

theorem decVal_natDigits (n : Nat) : decVal (natDigits n) = n := (natDigitsF_spec n n (Nat.le_refl _)).1

theorem natDigits_digits (n : Nat) : ∀ c ∈ natDigits n, Match.isDigit c = true :=
  (natDigitsF_spec n n (Nat.le_refl _)).2.1

theorem natDigits_ne_nil (n : Nat) : natDigits n ≠ [] := (natDigitsF_spec n n (Nat.le_refl _)).2.2

theorem natDigitsF_length : ∀ (f n k : Nat), 1 ≤ k → n < 10 ^ k → (natDigitsF f n).length ≤ k := by
  intro f
  induction f with
  | zero => intro n k hk _; simp [natDigitsF]; omega
  | succ f ih =>
    intro n k hk hn
    unfold natDigitsF
    by_cases h10 : n < 10
    · simp [h10]; omega
    · simp only [h10, ↓reduceIte, List.length_append, List.length_cons, List.length_nil]
      have hk2 : 2 ≤ k := by
        rcases Nat.lt_or_ge k 2 with h | h
        · have : k = 1 := by omega
          subst this
          simp at hn
          omega
        · exact h
      have : n / 10 < 10 ^ (k - 1) := by
        have e : 10 ^ k = 10 ^ (k - 1) * 10 := by
          rw [← Nat.pow_succ]; congr 1; omega
        rw [e] at hn
        exact Nat.div_lt_of_lt_mul (by rw [Nat.mul_comm]; exact hn)
      have := ih (n / 10) (k - 1) (by omega) this
      omega

theorem natDigits_length (n : Nat) (h : n < 2 ^ 31) : (natDigits n).length ≤ 10 :=
  natDigitsF_length n n 10 (by omega) (by omega)

theorem isDigit_ne {c : UInt8} (h : Match.isDigit c = true) :
    c ≠ 0 ∧ c ≠ 35 ∧ c ≠ 58 ∧ c ≠ 47 ∧ c ≠ 45 ∧ c ≠ 43 ∧ isSpace c = false := by
  simp only [Match.isDigit, Bool.and_eq_true, decide_eq_true_eq] at h
  have h1 : 48 ≤ c.toNat := by simpa using UInt8.le_iff_toNat_le.mp h.1
  have h2 : c.toNat ≤ 57 := by simpa using UInt8.le_iff_toNat_le.mp h.2
  have hne : ∀ k : UInt8, (k.toNat < 48 ∨ 57 < k.toNat) → c ≠ k := by
    intro k hk e; subst e; omega
  refine ⟨hne 0 (by decide), hne 35 (by decide), hne 58 (by decide), hne 47 (by decide),
    hne 45 (by decide), hne 43 (by decide), ?_⟩
  simp only [isSpace, Bool.or_eq_false_iff, decide_eq_false_iff_not, Bool.and_eq_false_iff]
  refine ⟨hne 32 (by decide), Or.inr ?_⟩
  intro h13
  have : c.toNat ≤ 13 := by simpa using UInt8.le_iff_toNat_le.mp h13
  omega

theorem natDigits_nulfree (n : Nat) : NulFree (natDigits n) :=
  fun c hc => (isDigit_ne (natDigits_digits n c hc)).1

theorem natDigits_no_colon (n : Nat) : ∀ c ∈ natDigits n, c ≠ 58 :=
  fun c hc => (isDigit_ne (natDigits_digits n c hc)).2.2.1

theorem fmtD_small (i : Nat) (h : i < 2 ^ 31) : fmtD i = natDigits i := by simp [fmtD, h]

theorem takeWhile_digits_append (ds rest : Bytes) (hds : ∀ c ∈ ds, Match.isDigit c = true)
    (hr : startsWithDigit rest = false) : (ds ++ rest).takeWhile isDigit = ds := by
  induction ds with
  | nil =>
    cases rest with
    | nil => rfl
    | cons c r =>
      simp only [startsWithDigit] at hr
      simp [isDigit, hr]
  | cons c r ih =>
    have := hds c List.mem_cons_self
    simp [isDigit, this]
    exact ih (fun x hx => hds x (List.mem_cons_of_mem _ hx))

theorem dropWhile_digits_append (ds rest : Bytes) (hds : ∀ c ∈ ds, Match.isDigit c = true)
    (hr : startsWithDigit rest = false) : (ds ++ rest).dropWhile isDigit = rest := by
  induction ds with
  | nil =>
    cases rest with
    | nil => rfl
    | cons c r =>
      simp only [startsWithDigit] at hr
      simp [isDigit, hr]
  | cons c r ih =>
    have := hds c List.mem_cons_self
    simp [isDigit, this]
    exact ih (fun x hx => hds x (List.mem_cons_of_mem _ hx))

/-- `atoi` on a well-formed number followed by something that is not a digit -/
theorem atoiC_num (ds rest : Bytes) (hne : ds ≠ []) (hds : ∀ c ∈ ds, Match.isDigit c = true)
    (hlt : decVal ds < 2 ^ 31) (hr : startsWithDigit rest = false) : atoiC (ds ++ rest) = decVal ds := by
  cases ds with
  | nil => exact absurd rfl hne
  | cons c r =>
    have hc := hds c List.mem_cons_self
    obtain ⟨_, _, _, _, h45, h43, hsp⟩ := isDigit_ne hc
    have htw := takeWhile_digits_append (c :: r) rest hds hr
    have hdrop : (c :: r ++ rest).dropWhile isSpace = c :: r ++ rest := by
      simp [List.dropWhile_cons, hsp]
    have e1 : signNeg (c :: r ++ rest) = false := by
      simp only [List.cons_append]
      unfold signNeg
      split
      · next h => simp only [List.cons.injEq] at h; exact absurd h.1 h45
      · rfl
    have e2 : skipSign (c :: r ++ rest) = c :: r ++ rest := by
      simp only [List.cons_append]
      unfold skipSign
      split
      · next h => simp only [List.cons.injEq] at h; exact absurd h.1 h45
      · next h => simp only [List.cons.injEq] at h; exact absurd h.1 h43
      · rfl
    unfold atoiC
    simp only [hdrop, e1, e2, htw, Bool.false_eq_true, ↓reduceIte]
    have h1 : min (decVal (c :: r)) (2 ^ 63 - 1) = decVal (c :: r) := Nat.min_eq_left (by omega)
    rw [h1]
    exact Nat.mod_eq_of_lt (by omega)

end Rtosc.Walk
