/-
  C04 helper lemmas, part 11 (review item A7): the hand-down of the runtime object through the
  library's own recursion macros `rRecur` / `rRecurp` (`name/`: one sub-object) and `rRecurs` /
  `rRecursp` (`name#N/`: the array element `obj->name[idx]`, `idx` computed from the message by
  `rBOILS_BEGIN`), as modelled in Ports/Sugar.lean (`recursIdx`, `objIdx`).

  Specification (independent of the code: no `boilsScan`, no `atoi`, no `SNIP`):
    `spelledElem segs a`   the element the remaining address `a` names for the first `#N` of a name:
                           (value of the run of digits found where the name has its `#N`, N);
    `PTable.elemsFrom`     for a path of table indices (the identity of a table's object in the
                           model of `dispatch`): per sub-tree port on the path its index and the
                           element it selects — the address split level by level with `levelTail`.
  Theorems: `recursIdx_of_match` (one name: what `rBOILS_BEGIN` computes on a message that
  `rtosc_match`es the name is that element, and it is below N) and `semNo_elems` (the whole chain:
  for every callback of a dispatch, `Sugar.objIdx` of the object it is handed is `elemsFrom`).
-/
import RtoscModel.Proofs.PortsProps
import RtoscModel.Proofs.PortsBuild
import RtoscModel.Proofs.PortsObj
namespace Rtosc.Ports
open Rtosc Rtosc.Match Rtosc.Ports.Sugar

/-! ### specification -/

/-- the element (and the array length N) the address names for the first `#N` of a name; `none`
    for a name without `#N` -/
def spelledElem : List Seg → Bytes → Option (Nat × Nat)
  | [], _ => none
  | .lit s :: r, a => spelledElem r (a.drop s.length)
  | .enum ds :: _, a => some (decVal (a.takeWhile isDigit), decVal ds)
  | .alts _ :: _, _ => none

/-- for the table reached from `t` (whose first port has index `i`) by the path `j :: s` of table
    indices while the remaining address is `a`: per sub-tree port of the path its index and, for a
    port `name#N/`, the element the address names and N -/
def PTable.elemsFrom : PTable → Nat → Bytes → List Nat → Option (List (Nat × Option (Nat × Nat)))
  | .nil, _, _, [] => some []
  | .nil, _, _, _ :: _ => none
  | .leaf _ _, _, _, [] => some []
  | .leaf _ r, i, a, j :: s => if j = i then none else r.elemsFrom (i + 1) a (j :: s)
  | .node _ _ _ _, _, _, [] => some []
  | .node p c _ r, i, a, j :: s =>
    if j = i then (c.elemsFrom 0 (levelTail a) s).map ((i, spelledElem p.segs a) :: ·)
    else r.elemsFrom (i + 1) a (j :: s)

/-- the object of a table of the tree, as the sugar tree's callbacks identify it -/
def PPorts.elems (P : PPorts) (addr : Bytes) (q : List Nat) : Option (List (Nat × Option (Nat × Nat))) :=
  P.tab.elemsFrom 0 addr q

/-- what `Sugar.objIdx` prints of it: the element without N -/
def stripN (es : List (Nat × Option (Nat × Nat))) : List (Nat × Option Nat) :=
  es.map (fun e => (e.1, e.2.map (·.1)))

/-- every selected element exists: index below N -/
def ElemsInRange (es : List (Nat × Option (Nat × Nat))) : Prop :=
  ∀ e ∈ es, ∀ v n, e.2 = some (v, n) → v < n

/-- the names the recursion macros generate (`name/`, `name#N/`) carry no type specification -/
def PTable.sugarNodes : PTable → Bool
  | .nil => true
  | .leaf _ r => r.sugarNodes
  | .node p c _ r => p.types.isNone && c.sugarNodes && r.sugarNodes

theorem elemsFrom_nil (t : PTable) (i : Nat) (a : Bytes) : t.elemsFrom i a [] = some [] := by
  cases t <;> rfl

/-! ### one name -/

theorem boilsScan_prefix (lit pp mm : Bytes) (hlit : ∀ x ∈ lit, x ≠ 35) :
    boilsScan (lit ++ pp) (lit ++ mm) = boilsScan pp mm := by
  induction lit with
  | nil => rfl
  | cons x r ih =>
    have hx : x ≠ 35 := hlit x List.mem_cons_self
    simp only [List.cons_append, boilsScan, hx, ↓reduceIte]
    exact ih (fun y hy => hlit y (List.mem_cons_of_mem _ hy))

theorem spelledElem_lits : ∀ (segs : List Seg) (a : Bytes), allLit segs = true → spelledElem segs a = none := by
  intro segs
  induction segs with
  | nil => intro a _; rfl
  | cons s r ih =>
    intro a h
    simp only [allLit, List.all_cons, Bool.and_eq_true] at h
    cases s with
    | lit x => simp only [spelledElem]; exact ih _ (by simpa [allLit] using h.2)
    | enum ds => simp [Seg.isLit] at h
    | alts as => simp [Seg.isLit] at h

/-- `rBOILS_BEGIN`'s scan over a name that spells the address: it stops at the first `#N`, the message
    pointer where the address has its index -/
theorem boilsScan_segs {sub : Bool} : ∀ (segs : List Seg) (a t tl x : Bytes), segsWf sub segs = true →
    noAlts segs = true → greedy segs sub a = some t → allLit segs = false →
    ∃ a' n, spelledElem segs a = some (decVal (a'.takeWhile isDigit), n) ∧
      a'.takeWhile isDigit ≠ [] ∧ decVal (a'.takeWhile isDigit) < n ∧
      boilsScan (renderSegs segs ++ tl) (a ++ x) = some (true, a' ++ x) := by
  intro segs
  induction segs with
  | nil => intro a t tl x _ _ _ h; simp [allLit] at h
  | cons s r ih =>
    intro a t tl x hwf hna hg hl
    obtain ⟨hs, hr, _, _⟩ := segsWf_cons hwf
    simp only [noAlts, List.all_cons, Bool.and_eq_true] at hna
    cases s with
    | lit y =>
      simp only [greedy] at hg
      split at hg
      · next hp =>
        obtain ⟨a1, rfl⟩ := List.isPrefixOf_iff_prefix.mp hp
        have hd : (y ++ a1).drop y.length = a1 := List.drop_left' rfl
        rw [hd] at hg
        have hl' : allLit r = false := by
          simpa [allLit, Seg.isLit] using hl
        obtain ⟨a', n, h1, h2, h3, h4⟩ := ih a1 t tl x hr (by simpa [noAlts] using hna.2) hg hl'
        refine ⟨a', n, by simp only [spelledElem, hd]; exact h1, h2, h3, ?_⟩
        have hy : ∀ c ∈ y, c ≠ 35 := by
          simp only [Seg.wf, Bool.and_eq_true, List.all_eq_true] at hs
          intro c hc
          exact (litChar_ne (hs.2 c hc)).2.1
        simp only [renderSegs, Seg.render, List.append_assoc]
        rw [boilsScan_prefix y _ _ hy]
        exact h4
      · cases hg
    | enum ds =>
      simp only [greedy] at hg
      split at hg
      · next hc =>
        exact ⟨a, decVal ds, rfl, hc.1, hc.2, by simp [renderSegs, Seg.render, boilsScan]⟩
      · cases hg
    | alts as => simp [Seg.isAlts] at hna

/-- `atoi` at the index: the value of the whole run of digits -/
theorem atoiRun_takeWhile (a ex : Bytes) :
    atoiRun (a ++ 0 :: ex) 0 = some (decVal (a.takeWhile isDigit)) := by
  have hsplit : a = a.takeWhile isDigit ++ a.dropWhile isDigit := (List.takeWhile_append_dropWhile).symm
  have hds : ∀ c ∈ a.takeWhile isDigit, isDigit c = true := fun c hc => mem_takeWhile_digit hc
  cases hdw : a.dropWhile isDigit with
  | nil =>
    rw [hdw, List.append_nil] at hsplit
    have := atoiRun_run (a.takeWhile isDigit) 0 ex 0 hds isDigit_zero
    rw [← hsplit] at this
    rw [this, decVal, ← hsplit]
  | cons c tl =>
    have hc : isDigit c = false := dropWhile_head_not hdw
    have := atoiRun_run (a.takeWhile isDigit) c (tl ++ 0 :: ex) 0 hds hc
    rw [hdw] at hsplit
    have e : a ++ 0 :: ex = a.takeWhile isDigit ++ c :: (tl ++ 0 :: ex) := by
      conv => lhs; rw [hsplit]
      simp
    rw [e, this, decVal]

theorem noHash_lits {sub : Bool} : ∀ {segs : List Seg}, segsWf sub segs = true → allLit segs = true →
    (35 : UInt8) ∉ renderSegs segs := by
  intro segs
  induction segs with
  | nil => intro _ _; simp [renderSegs]
  | cons s r ih =>
    intro hwf hl
    obtain ⟨hs, hr, _, _⟩ := segsWf_cons hwf
    simp only [allLit, List.all_cons, Bool.and_eq_true] at hl
    cases s with
    | lit y =>
      simp only [renderSegs, Seg.render, List.mem_append, not_or]
      refine ⟨?_, ih hr (by simpa [allLit] using hl.2)⟩
      simp only [Seg.wf, Bool.and_eq_true, List.all_eq_true] at hs
      intro hc
      exact (litChar_ne (hs.2 _ hc)).2.1 rfl
    | enum ds => simp [Seg.isLit] at hl
    | alts as => simp [Seg.isLit] at hl

/-- **what the enumerated recursion callbacks compute**: for a name of the documented form without
    type specification and a message that `rtosc_match`es it, the element index of `rBOILS_BEGIN`
    (none is computed for a name without '#': `rRecurCb` / `rRecurpCb`) is the element the address
    names for the name's first `#N`, and that element exists (index < N) -/
theorem recursIdx_of_match {p : Pat} (hnw : nameWf p = true) (hty : p.types = none) {a tags t : Bytes}
    (hm : matchB p a tags = some t) (ex : Bytes) :
    (if hasChar 35 p.render then (recursIdx p.render (a ++ 0 :: ex)).map some else some none) =
      some ((spelledElem p.segs a).map (·.1)) ∧
    ∀ v n, spelledElem p.segs a = some (v, n) → v < n := by
  obtain ⟨hp0, hpne, hpna, _⟩ := nameWf_unpack hnw
  have hg := matchB_greedy hm
  cases hl : allLit p.segs with
  | true =>
    have hno : hasChar 35 p.render = false := by
      have h1 := noHash_lits (wf0_segs hp0) hl
      have : (35 : UInt8) ∉ p.render := by
        simp only [Pat.render, Pat.tail, hty, renderTypes, List.append_nil, List.mem_append, not_or]
        refine ⟨h1, ?_⟩
        split <;> simp
      cases hh : hasChar 35 p.render with
      | false => rfl
      | true => exact absurd (List.contains_iff_mem.mp hh) this
    simp only [hno, Bool.false_eq_true, ↓reduceIte, spelledElem_lits _ a hl, Option.map_none, true_and]
    intro v n h; cases h
  | false =>
    obtain ⟨a', n, h1, h2, h3, h4⟩ := boilsScan_segs p.segs a t p.tail (0 :: ex) (wf0_segs hp0) hpna hg hl
    have hyes : hasChar 35 p.render = true := by
      cases hh : hasChar 35 p.render with
      | true => rfl
      | false => rw [allLit_of_noHash hpna hh] at hl; cases hl
    have hr : recursIdx p.render (a ++ 0 :: ex) = some (decVal (a'.takeWhile isDigit)) := by
      simp only [recursIdx, Pat.render, h4, atoiRun_takeWhile]
    simp only [hyes, ↓reduceIte, hr, h1, Option.map_some, true_and]
    intro v n' h
    simp only [Option.some.injEq, Prod.mk.injEq] at h
    rw [← h.1, ← h.2]
    exact h3

/-! ### the model's `objIdx`, for a table whose first port has index `i` -/

def objIdxFrom : Table → Nat → Bytes → List Nat → Option (List (Nat × Option Nat))
  | .nil, _, _, [] => some []
  | .nil, _, _, _ :: _ => none
  | .leaf _ _, _, _, [] => some []
  | .leaf _ r, i, m, j :: s => if j = i then none else objIdxFrom r (i + 1) m (j :: s)
  | .node _ _ _ _, _, _, [] => some []
  | .node name c _ r, i, m, j :: s =>
    if j = i then
      match (if hasChar 35 name then (recursIdx name m).map some else some none), snip m with
      | some ix, some m' => (objIdxFrom c 0 m' s).map ((i, ix) :: ·)
      | _, _ => none
    else objIdxFrom r (i + 1) m (j :: s)

theorem objIdxFrom_nil (t : Table) (i : Nat) (m : Bytes) : objIdxFrom t i m [] = some [] := by
  cases t <;> rfl

theorem objIdxFrom_entry : ∀ (t : Table) (i j : Nat) (m : Bytes) (s : List Nat), i ≤ j →
    objIdxFrom t i m (j :: s) =
      match entryAt t (j - i) with
      | some (name, some child) =>
        (match (if hasChar 35 name then (recursIdx name m).map some else some none), snip m with
         | some ix, some m' => (objIdxFrom child 0 m' s).map ((j, ix) :: ·)
         | _, _ => none)
      | _ => none := by
  intro t
  induction t with
  | nil => intro i j m s _; simp [objIdxFrom, entryAt]
  | leaf n r ih =>
    intro i j m s hij
    by_cases h : j = i
    · subst h; simp [objIdxFrom, entryAt]
    · have hk : j - i = (j - (i + 1)) + 1 := by omega
      simp only [objIdxFrom, h, ↓reduceIte]
      rw [ih (i + 1) j m s (by omega), hk]
      simp only [entryAt]
  | node n c cd r _ ih =>
    intro i j m s hij
    by_cases h : j = i
    · subst h; simp [objIdxFrom, entryAt]
    · have hk : j - i = (j - (i + 1)) + 1 := by omega
      simp only [objIdxFrom, h, ↓reduceIte]
      rw [ih (i + 1) j m s (by omega), hk]
      simp only [entryAt]

/-- `objIdxFrom` from index 0 is `Sugar.objIdx` -/
theorem objIdxFrom_eq : ∀ (s : List Nat) (T : Table) (m : Bytes), objIdxFrom T 0 m s = objIdx T m s := by
  intro s
  induction s with
  | nil => intro T m; rw [objIdxFrom_nil]; rfl
  | cons j s ih =>
    intro T m
    rw [objIdxFrom_entry T 0 j m s (Nat.zero_le _), Nat.sub_zero]
    simp only [objIdx]
    cases he : entryAt T j with
    | none => rfl
    | some e =>
      obtain ⟨name, ch⟩ := e
      cases ch with
      | none => rfl
      | some child =>
        simp only
        split <;> simp_all

/-! ### the chain -/

theorem elemsFrom_ge : ∀ (t : PTable) (i : Nat) (a : Bytes) (j : Nat) (s : List Nat) es,
    t.elemsFrom i a (j :: s) = some es → i ≤ j := by
  intro t
  induction t with
  | nil => intro i a j s es h; simp [PTable.elemsFrom] at h
  | leaf p r ih =>
    intro i a j s es h
    simp only [PTable.elemsFrom] at h
    split at h
    · cases h
    · have := ih _ _ _ _ _ h; omega
  | node p c cd r _ ih =>
    intro i a j s es h
    simp only [PTable.elemsFrom] at h
    split at h
    · omega
    · have := ih _ _ _ _ _ h; omega

/-- what the lemma says about one object path -/
def ElemsAgree (t : PTable) (i : Nat) (a ex : Bytes) (s : List Nat) : Prop :=
  ∃ es, t.elemsFrom i a s = some es ∧ objIdxFrom t.render i (a ++ 0 :: ex) s = some (stripN es) ∧
    ElemsInRange es

theorem elemsAgree_nil (t : PTable) (i : Nat) (a ex : Bytes) : ElemsAgree t i a ex [] :=
  ⟨[], elemsFrom_nil t i a, objIdxFrom_nil _ _ _, by intro e he; cases he⟩

theorem elemsAgree_leaf_rest {p0 : Pat} {r : PTable} {i : Nat} {a ex : Bytes} {s : List Nat}
    (h : ElemsAgree r (i + 1) a ex s) : ElemsAgree (.leaf p0 r) i a ex s := by
  cases s with
  | nil => exact elemsAgree_nil _ _ _ _
  | cons j s =>
    obtain ⟨es, h1, h2, h3⟩ := h
    have hge := elemsFrom_ge _ _ _ _ _ _ h1
    have hne : ¬ j = i := by omega
    exact ⟨es, by simp only [PTable.elemsFrom, hne, ↓reduceIte]; exact h1,
      by simp only [PTable.render, objIdxFrom, hne, ↓reduceIte]; exact h2, h3⟩

theorem elemsAgree_node_rest {p0 : Pat} {ch r : PTable} {cd : Bool} {i : Nat} {a ex : Bytes} {s : List Nat}
    (h : ElemsAgree r (i + 1) a ex s) : ElemsAgree (.node p0 ch cd r) i a ex s := by
  cases s with
  | nil => exact elemsAgree_nil _ _ _ _
  | cons j s =>
    obtain ⟨es, h1, h2, h3⟩ := h
    have hge := elemsFrom_ge _ _ _ _ _ _ h1
    have hne : ¬ j = i := by omega
    exact ⟨es, by simp only [PTable.elemsFrom, hne, ↓reduceIte]; exact h1,
      by simp only [PTable.render, objIdxFrom, hne, ↓reduceIte]; exact h2, h3⟩

theorem elemsAgree_node_child {p : Pat} {ch r : PTable} {cd : Bool} {i : Nat} {a tags t ex : Bytes} {s : List Nat}
    (hnw : nameWf p = true) (hty : p.types = none) (ha : NulFree a) (hm : matchB p a tags = some t)
    (h : ElemsAgree ch 0 (levelTail a) ex s) : ElemsAgree (.node p ch cd r) i a ex (i :: s) := by
  obtain ⟨es, h1, h2, h3⟩ := h
  obtain ⟨hidx, hbound⟩ := recursIdx_of_match hnw hty hm ex
  refine ⟨(i, spelledElem p.segs a) :: es, ?_, ?_, ?_⟩
  · simp only [PTable.elemsFrom, ↓reduceIte, h1, Option.map_some]
  · simp only [PTable.render, objIdxFrom, ↓reduceIte, hidx, snip_addr a ex ha, h2, Option.map_some, stripN,
      List.map_cons]
  · intro e he v n hv
    rcases List.mem_cons.mp he with rfl | he
    · exact hbound v n hv
    · exact h3 e he v n hv

/-- **the object every callback of a dispatch is handed, through the recursion macros**: its path in
    the model continues the path of the table the dispatch started in, and along that continuation the
    elements `rBOILS_BEGIN` computes level by level (`objIdxFrom` = `Sugar.objIdx`) are the ones the
    address names (`elemsFrom`), each of them in range -/
theorem semNo_elems : ∀ (t : PTable), t.WF → t.sugarNodes = true →
    ∀ (tp : List Nat) (i : Nat) (a tags ex : Bytes) (d : RtData) (mt : Bool), NulFree a → d.obj = tp →
    ∀ c ∈ (semNo t tp i tp a tags ex d mt).1, ∃ s, c.obj = tp ++ s ∧ ElemsAgree t i a ex s := by
  intro t
  induction t with
  | nil => intro _ _ tp i a tags ex d mt _ _ c hc; simp [semNo] at hc
  | leaf p rest ih =>
    intro hwf hsn tp i a tags ex d mt ha hobj c hc
    simp only [PTable.WF, PTable.wf, Bool.and_eq_true] at hwf
    simp only [PTable.sugarNodes] at hsn
    simp only [semNo] at hc
    split at hc
    · obtain ⟨s, h1, h2⟩ := ih hwf.2 hsn tp (i + 1) a tags ex d mt ha hobj c hc
      exact ⟨s, h1, elemsAgree_leaf_rest h2⟩
    · rcases List.mem_cons.mp hc with rfl | hc
      · exact ⟨[], by simp [callOf, hobj], elemsAgree_nil _ _ _ _⟩
      · obtain ⟨s, h1, h2⟩ := ih hwf.2 hsn tp (i + 1) a tags ex _ true ha rfl c hc
        exact ⟨s, h1, elemsAgree_leaf_rest h2⟩
  | node p child cd rest ihc ihr =>
    intro hwf hsn tp i a tags ex d mt ha hobj c hc
    simp only [PTable.WF, PTable.wf, Bool.and_eq_true, nodeNameWf] at hwf
    simp only [PTable.sugarNodes, Bool.and_eq_true, Option.isNone_iff_eq_none] at hsn
    have hnw := hwf.1.1.1.1
    simp only [semNo] at hc
    split at hc
    · obtain ⟨s, h1, h2⟩ := ihr hwf.2 hsn.2 tp (i + 1) a tags ex d mt ha hobj c hc
      exact ⟨s, h1, elemsAgree_node_rest h2⟩
    · next t hm =>
      rcases List.mem_cons.mp hc with rfl | hc
      · exact ⟨[], by simp [callOf, hobj], elemsAgree_nil _ _ _ _⟩
      · rcases List.mem_append.mp hc with hc | hc
        · have hsub : ∃ s, c.obj = (tp ++ [i]) ++ s ∧ ElemsAgree child 0 (levelTail a) ex s := by
            simp only [finNo] at hc
            split at hc
            · rcases List.mem_append.mp hc with hc | hc
              · exact ihc hwf.1.2 hsn.1.2 (tp ++ [i]) 0 (levelTail a) tags ex _ false (NulFree.levelTail ha) rfl c hc
              · simp only [List.mem_singleton] at hc
                subst hc
                refine ⟨[], ?_, elemsAgree_nil _ _ _ _⟩
                simp only [dfltCallOf, List.append_nil]
                exact semNo_obj _ _ _ _ _ _ _ _ _ rfl
            · exact ihc hwf.1.2 hsn.1.2 (tp ++ [i]) 0 (levelTail a) tags ex _ false (NulFree.levelTail ha) rfl c hc
          obtain ⟨s, h1, h2⟩ := hsub
          exact ⟨i :: s, by rw [h1]; simp, elemsAgree_node_child hnw hsn.1.1 ha hm h2⟩
        · obtain ⟨s, h1, h2⟩ := ihr hwf.2 hsn.2 tp (i + 1) a tags ex _ true ha rfl c hc
          exact ⟨s, h1, elemsAgree_node_rest h2⟩

/-- **the object a callback is handed, seen through the recursion macros**: for the object `c.obj` (in
    the model of `dispatch`: the path of the table the callback belongs to) the elements that
    `rRecursCb` / `rRecurspCb` select level by level on the message the root table sees
    (`Sugar.objIdx`, i.e. `rBOILS_BEGIN` and `SNIP` at every level) are the elements the address `a`
    names (`PPorts.elems`), and every one of them exists (index below the port's N) -/
def SugarObj (P : PPorts) (a ex : Bytes) (c : Call) : Prop :=
  ∃ es, P.elems a c.obj = some es ∧ Sugar.objIdx P.render.tab (a ++ 0 :: ex) c.obj = some (stripN es) ∧
    ElemsInRange es

end Rtosc.Ports
