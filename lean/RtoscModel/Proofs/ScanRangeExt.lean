/-
  C11 — a range `b ... c` of decimal 'i' integers WITH something to its left: what the repaired
  scanner and checker (`Pretty/C11Model.lean`) do on
      <b> <white space, at least one> ... <white space> <c> <rest>
  when the value to the left is a scalar of any type (an 'i' integer `a ≠ b` gives the step
  `b - a`, everything else the step ±1) or another range (its last value is the neighbour).
  Extends `Proofs/ScanRange.lean` (no left neighbour).
-/
import RtoscModel.Proofs.ScanRange
namespace Rtosc.Pretty.C11
open Rtosc Rtosc.Libc Rtosc.Pretty
open Rtosc.ArgVal (Cell Item flatList)

/-! ### `delta_from_arg_vals` with a usable left neighbour -/

/-- the delta is `lhs - llhs`, the count `q + 1` -/
theorem deltaStep11 (p x z q dl : Int) (hdl0 : dl ≠ 0) (hp : x - p = dl) (hd1 : -2147483648 ≤ dl) (hd2 : dl ≤ 2147483647)
    (hq : z - x = q * dl)
    (hw1 : -2147483647 ≤ z - x) (hw2 : z - x ≤ 2147483647) (hq1 : -2147483648 ≤ q + 1) (hq2 : q + 1 ≤ 2147483647) :
    C11.deltaFromArgVals (some (Cell.int .i p)) (Cell.int .i x) (some (Cell.int .i z)) false = .ok (q + 1, Cell.int .i dl) := by
  have htd : Int.tdiv (z - x) dl = q := by rw [hq]; exact Int.mul_tdiv_cancel _ hdl0
  have hsub : subAV (Cell.int .i z) (Cell.int .i x) = .ok (some (Cell.int .i (z - x))) := by
    rw [subAV_int, toI32_id _ (by omega) (by omega)]
  have hsub0 : subAV (Cell.int .i x) (Cell.int .i p) = .ok (some (Cell.int .i dl)) := by
    rw [subAV_int, hp, toI32_id _ hd1 hd2]
  have hmul : multAV (Cell.int .i q) (Cell.int .i dl) = .ok (some (Cell.int .i (z - x))) := by
    rw [multAV_int, ← hq, toI32_id _ (by omega) (by omega)]
  have hcmp0 : ¬ (ArgVal.cmp3 dl 0 = 0) := cmp3_ne dl 0 hdl0
  have hov : ¬ (q + 1 > 2147483647 ∨ q + 1 < -2147483648) := by omega
  unfold C11.deltaFromArgVals
  simp only [Bool.false_eq_true, ↓reduceIte, orUndef, subF_int, hsub0, nullVal, cmpCell_int, must, bind, Except.bind,
    pure, Except.pure]
  simp only [hcmp0, ↓reduceIte, hsub, divF_int, divAV_int (z - x) dl hdl0 (by omega), htd, roundF_int, roundAV,
    multF_int, hmul, toIntF_int, toIntAV,
    eqTolCell_int, eqCell_int, decide_true, Bool.not_true, Bool.false_eq_true, hov]

/-! ### the scanner -/

/-- "is llhs useless?" for the left neighbour `c` of the 'i' value `x` -/
def uselessI (c : Cell) (x : Int) : Bool :=
  match c with
  | .int .i p => decide (p = x)
  | _ => true

/-- the left neighbour is a scalar cell that is an 'i' integer or of a type that does not match 'i' -/
def NbCell (c : Cell) : Prop := c.isScalar = true ∧ ((∃ p, c = Cell.int .i p) ∨ typesMatch c.type 105 = false)

/-- **the repaired scanner on `b ... c` behind a scalar value `c0`** (the last cell written, with at
    least one argument value before the range and no range header two cells back) -/
theorem scanArgVal_rangeB (f : Nat) (x z : Int) (hx1 : -2147483648 ≤ x) (hx2 : x ≤ 2147483647)
    (hz1 : -2147483648 ≤ z) (hz2 : z ≤ 2147483647) (w1 w2 rest : Bytes) (hw1 : AllWs w1) (hne : w1 ≠ [])
    (hw2 : AllWs w2) (hs : Sep rest) (c0 : Cell) (older : List Cell) (ab : Nat) (hab : 1 ≤ ab)
    (hold : ab ≤ 2 ∨ ∀ n h, older[1]? = some (Cell.rep n h) → h = 0) (hc0 : NbCell c0) (num : Int) (dl : Cell)
    (hdelta : C11.deltaFromArgVals (some c0) (Cell.int .i x) (some (Cell.int .i z)) (uselessI c0 x) = .ok (num, dl)) :
    C11.scanArgVal (f + 2) (fmtDec x ++ rangeRest w1 w2 (fmtDec z) rest) (c0 :: older) ab true =
      .ok ((fmtDec x ++ rangeRest w1 w2 (fmtDec z) rest).length - rest.length, [Cell.rep num 1, dl, Cell.int .i x]) := by
  obtain ⟨hW, hsk1, hsk2⟩ := rangeRest_facts w1 w2 (fmtDec z) rest hw1 hne hw2 (tokStart_fmtDec z hz1 hz2)
  have hrhs := scanArgVal11_int_noell f z hz1 hz2 rest hs.toW [] 0
  have h93 : hd (fmtDec z ++ rest) ≠ 93 := (tokStart_append_ri _ rest (tokStart_fmtDec z hz1 hz2)).2.2.2.2.2.2.2
  have hnot : ¬ (ab < 1) := by omega
  have hty : (Cell.int ArgVal.IntTy.i x).type = 105 := rfl
  have hnr : ¬ ((105 : UInt8) = ArgVal.tyRange) := by decide
  unfold C11.scanArgVal
  rw [scanValue_noBracket _ _ _ (hd_fmtDec_ne91 x hx1 hx2 _)]
  simp only [scanValue_intW _ x hx1 hx2 _ hW, bind, Except.bind]
  unfold C11.finishArg
  simp only [hsk1, startsWith, List.isPrefixOf, BEq.rfl, Bool.and_self, and_self,
    ↓reduceIte, Bool.not_true, Bool.false_eq_true, deref, bind, Except.bind, List.drop_succ_cons, List.drop_zero,
    hsk2, h93, decide_false, pure, Except.pure, hrhs, advance, List.length_append, Nat.le_add_right,
    List.drop_left, hnot, List.head?_cons, hty, hnr,
    show numericRangeTypes.contains (105 : UInt8) = true from by decide]
  rw [if_neg]
  · obtain ⟨_, hp | ht⟩ := hc0
    · obtain ⟨p, rfl⟩ := hp
      have htm : typesMatch (Cell.int ArgVal.IntTy.i p).type 105 = true := rfl
      by_cases hpx : p = x
      · subst hpx
        have hu : uselessI (Cell.int ArgVal.IntTy.i p) p = true := by simp [uselessI]
        rw [hu] at hdelta
        simp [htm, cmpCell_int, ArgVal.cmp3, hdelta]
      · have hu : uselessI (Cell.int ArgVal.IntTy.i p) x = false := by simp [uselessI, hpx]
        rw [hu] at hdelta
        simp [htm, cmpCell_int, cmp3_ne p x hpx, hdelta]
    · have hu : uselessI c0 x = true := by
        cases c0 with
        | int ty v => cases ty <;> first | rfl | (exact absurd ht (by simp [ArgVal.Cell.type, ArgVal.IntTy.char, typesMatch]))
        | _ => rfl
      rw [hu] at hdelta
      simp [ht, hdelta]
  · intro hc
    simp only [Bool.and_eq_true, decide_eq_true_eq] at hc
    obtain ⟨h2, hm⟩ := hc
    rcases hold with h | h
    · omega
    · have e : (List.drop 1 older).head? = older[1]? := by simp [List.head?_drop]
      rw [e] at hm
      cases hb : older[1]? with
      | none => rw [hb] at hm; simp at hm
      | some b =>
        rw [hb] at hm
        cases b with
        | rep n hh => have := h n hh hb; subst this; simp at hm
        | _ => simp at hm


/-- **the repaired scanner on `b ... c` directly behind a range with a delta**: the left neighbour
    is the last value of that range, `start + (num - 1) delta` -/
theorem scanArgVal_rangeC (f : Nat) (x z : Int) (hx1 : -2147483648 ≤ x) (hx2 : x ≤ 2147483647)
    (hz1 : -2147483648 ≤ z) (hz2 : z ≤ 2147483647) (w1 w2 rest : Bytes) (hw1 : AllWs w1) (hne : w1 ≠ [])
    (hw2 : AllWs w2) (hs : Sep rest) (s0 d0 : Cell) (n0 h0 : Int) (older : List Cell) (ab : Nat) (hab : 2 < ab)
    (hh0 : h0 ≠ 0) (c0 : Cell) (hlast : rangeArgF [Cell.rep n0 h0, d0, s0] (n0 - 1) = .ok (some c0))
    (hc0 : NbCell c0) (num : Int) (dl : Cell)
    (hdelta : C11.deltaFromArgVals (some c0) (Cell.int .i x) (some (Cell.int .i z)) (uselessI c0 x) = .ok (num, dl)) :
    C11.scanArgVal (f + 2) (fmtDec x ++ rangeRest w1 w2 (fmtDec z) rest) (s0 :: d0 :: Cell.rep n0 h0 :: older) ab true =
      .ok ((fmtDec x ++ rangeRest w1 w2 (fmtDec z) rest).length - rest.length, [Cell.rep num 1, dl, Cell.int .i x]) := by
  obtain ⟨hW, hsk1, hsk2⟩ := rangeRest_facts w1 w2 (fmtDec z) rest hw1 hne hw2 (tokStart_fmtDec z hz1 hz2)
  have hrhs := scanArgVal11_int_noell f z hz1 hz2 rest hs.toW [] 0
  have h93 : hd (fmtDec z ++ rest) ≠ 93 := (tokStart_append_ri _ rest (tokStart_fmtDec z hz1 hz2)).2.2.2.2.2.2.2
  have hnot : ¬ (ab < 1) := by omega
  have hty : (Cell.int ArgVal.IntTy.i x).type = 105 := rfl
  have hnr : ¬ ((105 : UInt8) = ArgVal.tyRange) := by decide
  have hab' : decide (ab > 2) = true := by simp; omega
  have hh0' : decide (h0 ≠ 0) = true := by simp [hh0]
  unfold C11.scanArgVal
  rw [scanValue_noBracket _ _ _ (hd_fmtDec_ne91 x hx1 hx2 _)]
  simp only [scanValue_intW _ x hx1 hx2 _ hW, bind, Except.bind]
  unfold C11.finishArg
  simp only [hsk1, startsWith, List.isPrefixOf, BEq.rfl, Bool.and_self, and_self,
    ↓reduceIte, Bool.not_true, Bool.false_eq_true, deref, bind, Except.bind, List.drop_succ_cons, List.drop_zero,
    hsk2, h93, pure, Except.pure, hrhs, advance, List.length_append, Nat.le_add_right,
    List.drop_left, hnot, List.head?_cons, hty, hnr, hab', hh0', List.headD_cons, List.getD_cons_zero,
    List.getD_cons_succ, hlast,
    show numericRangeTypes.contains (105 : UInt8) = true from by decide]
  obtain ⟨_, hp | ht⟩ := hc0
  · obtain ⟨p, rfl⟩ := hp
    have htm : typesMatch (Cell.int ArgVal.IntTy.i p).type 105 = true := rfl
    by_cases hpx : p = x
    · subst hpx
      have hu : uselessI (Cell.int ArgVal.IntTy.i p) p = true := by simp [uselessI]
      rw [hu] at hdelta
      simp [htm, cmpCell_int, ArgVal.cmp3, hdelta]
    · have hu : uselessI (Cell.int ArgVal.IntTy.i p) x = false := by simp [uselessI, hpx]
      rw [hu] at hdelta
      simp [htm, cmpCell_int, cmp3_ne p x hpx, hdelta]
  · have hu : uselessI c0 x = true := by
      cases c0 with
      | int ty v => cases ty <;> first | rfl | (exact absurd ht (by simp [ArgVal.Cell.type, ArgVal.IntTy.char, typesMatch]))
      | _ => rfl
    rw [hu] at hdelta
    simp [ht, hdelta]


/-! ### the checker -/

/-- **the repaired checker on `b ... c` with something to its left** (`ll0`: where the previous
    argument starts; `ll1`: where the checker finds the left neighbour: behind the dots of a range,
    behind the `x` of a repetition, or `ll0`) -/
theorem skipNext_rangeL (f : Nat) (x z : Int) (hx1 : -2147483648 ≤ x) (hx2 : x ≤ 2147483647)
    (hz1 : -2147483648 ≤ z) (hz2 : z ≤ 2147483647) (w1 w2 rest : Bytes) (hw1 : AllWs w1) (hne : w1 ≠ [])
    (hw2 : AllWs w2) (hs : Sep rest) (ty : UInt8) (ib : Bool) (ll0 r1 : Bytes) (ra : SkipRes)
    (hra : C11.skipNextPrintedArg (f + 1) ll0 0 none false ib = .ok ra) (hsrc : ra.src = some r1)
    (ll1 : Bytes) (rl : SkipRes)
    (hll1 : (if List.length (skipSpace r1) > (46 :: 46 :: 46 :: (w2 ++ (fmtDec z ++ rest))).length ∧
        startsWith (skipSpace r1) [46, 46, 46] = true then skipSpace (List.drop 3 (skipSpace r1))
      else if isRangeMultiplier ll0 = true then afterX ll0 else ll0) = ll1)
    (hrl : C11.skipNextPrintedArg (f + 1) ll1 0 none false ib = .ok rl)
    (u : Bool) (ll : Option Cell)
    (hnb : (typesMatch rl.type 105 = false ∧ u = true ∧ ll = none) ∨
      (typesMatch rl.type 105 = true ∧ ∃ p, scanOne ll1 = .ok (Cell.int .i p) ∧ ll = some (Cell.int .i p) ∧
        u = decide (p = x)))
    (num : Int) (dl : Cell)
    (hdelta : C11.deltaFromArgVals ll (Cell.int .i x) (some (Cell.int .i z)) u = .ok (num, dl)) (hnum : num ≠ -1) :
    C11.skipNextPrintedArg (f + 2) (fmtDec x ++ rangeRest w1 w2 (fmtDec z) rest) ty (some ll0) true ib =
      .ok ⟨some rest, 3, 45⟩ := by
  have hZs := tokStart_fmtDec z hz1 hz2
  obtain ⟨hW, hsk1, hsk2⟩ := rangeRest_facts w1 w2 (fmtDec z) rest hw1 hne hw2 hZs
  have h93 : hd (fmtDec z ++ rest) ≠ 93 := (tokStart_append_ri _ rest hZs).2.2.2.2.2.2.2
  have hrsk := skipNext11_int_noell f z hz1 hz2 rest hs.toW 120 none ib
  have hrsc := scanOne11_int z hz1 hz2 rest hs.toW
  have hlsc := scanOne11_int x hx1 hx2 _ hW
  have hnm := nomult_int x hx1 hx2 _ hW
  unfold C11.skipNextPrintedArg
  simp only [skipValue_intW _ x _ hW ty ib hx1 hx2, bind, Except.bind, hsk1, startsWith,
    List.isPrefixOf, BEq.rfl, Bool.and_self, and_self, ↓reduceIte]
  unfold C11.ellipsisTail
  simp only [List.drop_succ_cons, List.drop_zero, hsk2, hnm, Bool.false_eq_true, ↓reduceIte, ne_eq,
    not_true_eq_false, show numericRangeTypes.contains (105 : UInt8) = true from by decide, or_true, h93,
    Bool.not_true, hrsk, hrsc, hlsc, bind, Except.bind, pure, Except.pure, true_or, and_true,
    decide_true, hra, hsrc, Option.map_some]
  rw [hll1]
  simp only [hrl]
  rcases hnb with ⟨htm, rfl, rfl⟩ | ⟨htm, p, hsc, rfl, rfl⟩
  · simp [htm, orUndef, hdelta, hnum]
  · by_cases hpx : p = x
    · subst hpx
      simp only [decide_true] at hdelta
      simp [htm, hsc, orUndef, cmpCell_int, ArgVal.cmp3, hdelta, hnum]
    · simp only [hpx, decide_false] at hdelta
      simp [htm, hsc, orUndef, cmpCell_int, cmp3_ne p x hpx, hdelta, hnum]

end Rtosc.Pretty.C11
