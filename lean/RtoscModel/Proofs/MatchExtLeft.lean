/-
  C05, proof extension, part 2: the leftmost-alternative reading.

  * `greedy` (what the code computes, Proofs/MatchLemmas.lean) against `SpellsLeftmost`:
    `greedy_leftmost_sound`, `greedy_leftmost_complete` — an equivalence for every segment
    list, prefix-related alternatives included.
  * `SpellsLeftmost` against `SpellsAll`: `SpellsLeftmost.spells` (always),
    `spellsAll_leftmost` (prefix-free groups).
  * `EnumRunsBounded` against its decidable form `enumIdxCheck`
    (`enumRunsBounded_iff_check`), from `IdxBounded` (`enumIdxCheck_of_idxBounded`), and
    for free on any address that has a leftmost reading (`enumIdxCheck_of_leftmost`).
-/
import RtoscModel.Proofs.MatchExtPath
namespace Rtosc.Match
open Rtosc

/-- a leftmost reading is a reading -/
theorem SpellsLeftmost.spells {segs : List Seg} {a r : Bytes} (h : SpellsLeftmost segs a r) :
    SpellsAll segs a r := by
  induction h with
  | nil r => exact .nil r
  | lit s _ ih => exact .lit s ih
  | enum ds idx h1 h2 h3 h4 _ ih => exact .enum ds idx h1 h2 h3 h4 ih
  | alts as before x after has _ _ ih => exact .alts as x (by simp [has]) ih

/-- the first alternative that is a prefix: `find?` against the explicit split -/
theorem find_of_split {as before after : List Bytes} {x w : Bytes}
    (has : as = before ++ x :: after) (hb : ∀ y ∈ before, ¬ y <+: w) (hx : x <+: w) :
    as.find? (·.isPrefixOf w) = some x := by
  rw [List.find?_eq_some_iff_append]
  refine ⟨List.isPrefixOf_iff_prefix.mpr hx, before, after, has, ?_⟩
  intro y hy
  have := hb y hy
  cases hyw : y.isPrefixOf w with
  | false => simp
  | true => exact absurd (List.isPrefixOf_iff_prefix.mp hyw) this

theorem split_of_find {as : List Bytes} {x w : Bytes} (h : as.find? (·.isPrefixOf w) = some x) :
    x <+: w ∧ ∃ before after, as = before ++ x :: after ∧ ∀ y ∈ before, ¬ y <+: w := by
  rw [List.find?_eq_some_iff_append] at h
  obtain ⟨hx, before, after, has, hb⟩ := h
  refine ⟨List.isPrefixOf_iff_prefix.mp hx, before, after, has, ?_⟩
  intro y hy hyw
  have := hb y hy
  simp [List.isPrefixOf_iff_prefix.mpr hyw] at this

/-- **`greedy` only accepts leftmost readings** -/
theorem greedy_leftmost_sound (sub : Bool) : ∀ (segs : List Seg) (a t : Bytes),
    greedy segs sub a = some t →
    ∃ rest, SpellsLeftmost segs a rest ∧ (if sub then rest = 47 :: t else rest = [] ∧ t = []) := by
  intro segs
  induction segs with
  | nil =>
    intro a t h
    cases sub with
    | false =>
      simp only [greedy] at h
      split at h
      · next ha => subst ha; simp only [Option.some.injEq] at h; subst h; exact ⟨[], .nil [], by simp⟩
      · simp at h
    | true =>
      simp only [greedy] at h
      split at h
      · simp at h
      · next d t' =>
        split at h
        · next hd => subst hd; simp only [Option.some.injEq] at h; subst h; exact ⟨_, .nil _, by simp⟩
        · simp at h
  | cons s r ih =>
    intro a t h
    cases s with
    | lit s =>
      simp only [greedy] at h
      split at h
      · next hp =>
        obtain ⟨rest, h1, h2⟩ := ih _ _ h
        have : s ++ a.drop s.length = a := List.prefix_iff_eq_append.mp (List.isPrefixOf_iff_prefix.mp hp)
        refine ⟨rest, ?_, h2⟩
        rw [← this]
        exact .lit s h1
      · simp at h
    | enum ds =>
      simp only [greedy] at h
      split at h
      · next hp =>
        obtain ⟨rest, h1, h2⟩ := ih _ _ h
        refine ⟨rest, ?_, h2⟩
        have : a.takeWhile isDigit ++ a.dropWhile isDigit = a := List.takeWhile_append_dropWhile
        rw [← this]
        exact .enum ds _ hp.1 (fun c hc => mem_takeWhile_digit hc)
          (fun c t hct => dropWhile_head_not hct) hp.2 h1
      · simp at h
    | alts as =>
      simp only [greedy] at h
      split at h
      · next x hf =>
        obtain ⟨rest, h1, h2⟩ := ih _ _ h
        obtain ⟨hp, before, after, has, hb⟩ := split_of_find hf
        have : x ++ a.drop x.length = a := List.prefix_iff_eq_append.mp hp
        refine ⟨rest, ?_, h2⟩
        rw [← this]
        exact .alts as before x after has (by rw [this]; exact hb) h1
      · simp at h

/-- **`greedy` follows every leftmost reading** (no condition on the groups): spelling a
    prefix of the segment list leftmost moves `greedy` on. -/
theorem greedy_leftmost_complete (sub : Bool) (post : List Seg) {pre : List Seg} {a x : Bytes}
    (h : SpellsLeftmost pre a x) : greedy (pre ++ post) sub a = greedy post sub x := by
  induction h with
  | nil r => rfl
  | @lit segs a' r s _ ih =>
    have hp : s.isPrefixOf (s ++ a') = true := List.isPrefixOf_iff_prefix.mpr (List.prefix_append _ _)
    simp only [List.cons_append, greedy, hp, ↓reduceIte, List.drop_left]
    exact ih
  | @enum segs a' r ds idx hne hd hm hlt _ ih =>
    obtain ⟨h1, h2⟩ := takeWhile_run hd hm
    simp only [List.cons_append, greedy, h1, h2, ne_eq, hne, not_false_eq_true, hlt, and_self, ↓reduceIte]
    exact ih
  | @alts segs a' r as before y after has hb _ ih =>
    have := find_of_split has hb (List.prefix_append y a')
    simp only [List.cons_append, greedy, this, List.drop_left]
    exact ih

/-- on prefix-free groups every reading is the leftmost one -/
theorem spellsAll_leftmost {segs : List Seg} {a r : Bytes} (h : SpellsAll segs a r)
    (hpf : segsPrefixFree segs = true) : SpellsLeftmost segs a r := by
  induction h with
  | nil r => exact .nil r
  | lit s _ ih =>
    simp only [segsPrefixFree, List.all_cons, Bool.and_eq_true] at hpf
    exact .lit s (ih hpf.2)
  | enum ds idx h1 h2 h3 h4 _ ih =>
    simp only [segsPrefixFree, List.all_cons, Bool.and_eq_true] at hpf
    exact .enum ds idx h1 h2 h3 h4 (ih hpf.2)
  | @alts segs a' r as y hy _ ih =>
    simp only [segsPrefixFree, List.all_cons, Bool.and_eq_true] at hpf
    obtain ⟨_, before, after, has, hb⟩ := split_of_find (find_prefixFree hpf.1 hy (List.prefix_append y a'))
    exact .alts as before y after has hb (ih hpf.2)

/-! ### the digit runs at enumerations -/

/-- the check moves along a leftmost reading -/
theorem enumIdxCheck_move (post : List Seg) {pre : List Seg} {a x : Bytes}
    (h : SpellsLeftmost pre a x) (hck : enumIdxCheck (pre ++ post) a = true) :
    enumIdxCheck post x = true := by
  induction h with
  | nil r => exact hck
  | @lit segs a' r s _ ih =>
    have hp : s.isPrefixOf (s ++ a') = true := List.isPrefixOf_iff_prefix.mpr (List.prefix_append _ _)
    simp only [List.cons_append, enumIdxCheck, hp, ↓reduceIte, List.drop_left] at hck
    exact ih hck
  | @enum segs a' r ds idx hne hd hm hlt _ ih =>
    obtain ⟨h1, h2⟩ := takeWhile_run hd hm
    simp only [List.cons_append, enumIdxCheck, h1, h2, ne_eq, hne, not_false_eq_true, hlt, and_self,
      ↓reduceIte, Bool.and_eq_true, decide_eq_true_eq] at hck
    exact ih hck.2
  | @alts segs a' r as before y after has hb _ ih =>
    have := find_of_split has hb (List.prefix_append y a')
    simp only [List.cons_append, enumIdxCheck, this, List.drop_left] at hck
    exact ih hck

/-- an address that has a leftmost reading carries an index below N < 2^31 at every
    enumeration of the segments it spells -/
theorem enumIdxCheck_of_leftmost {segs : List Seg} {a r : Bytes} (h : SpellsLeftmost segs a r)
    (hN : ∀ ds, Seg.enum ds ∈ segs → decVal ds < 2 ^ 31) : enumIdxCheck segs a = true := by
  induction h with
  | nil r => rfl
  | @lit segs a' r s _ ih =>
    have hp : s.isPrefixOf (s ++ a') = true := List.isPrefixOf_iff_prefix.mpr (List.prefix_append _ _)
    simp only [enumIdxCheck, hp, ↓reduceIte, List.drop_left]
    exact ih (fun ds h => hN ds (List.mem_cons_of_mem _ h))
  | @enum segs a' r ds idx hne hd hm hlt _ ih =>
    obtain ⟨h1, h2⟩ := takeWhile_run hd hm
    have hb : decVal idx < 2 ^ 31 := Nat.lt_trans hlt (hN ds List.mem_cons_self)
    simp only [enumIdxCheck, h1, h2, ne_eq, hne, not_false_eq_true, hlt, and_self, ↓reduceIte,
      Bool.and_eq_true, decide_eq_true_eq]
    exact ⟨hb, ih (fun ds h => hN ds (List.mem_cons_of_mem _ h))⟩
  | @alts segs a' r as before y after has hb _ ih =>
    have := find_of_split has hb (List.prefix_append y a')
    simp only [enumIdxCheck, this, List.drop_left]
    exact ih (fun ds h => hN ds (List.mem_cons_of_mem _ h))

/-- the same for a leftmost reading of a *prefix* of the segment list, up to the digit run
    that stands at the enumeration behind it -/
theorem enumIdxCheck_prefix {pre : List Seg} {a x : Bytes} (h : SpellsLeftmost pre a x)
    (hN : ∀ ds, Seg.enum ds ∈ pre → decVal ds < 2 ^ 31) (post : List Seg) :
    enumIdxCheck (pre ++ post) a = enumIdxCheck post x := by
  induction h with
  | nil r => rfl
  | @lit segs a' r s _ ih =>
    have hp : s.isPrefixOf (s ++ a') = true := List.isPrefixOf_iff_prefix.mpr (List.prefix_append _ _)
    simp only [List.cons_append, enumIdxCheck, hp, ↓reduceIte, List.drop_left]
    exact ih (fun ds h => hN ds (List.mem_cons_of_mem _ h))
  | @enum segs a' r ds idx hne hd hm hlt _ ih =>
    obtain ⟨h1, h2⟩ := takeWhile_run hd hm
    have hb : decVal idx < 2 ^ 31 := Nat.lt_trans hlt (hN ds List.mem_cons_self)
    simp only [List.cons_append, enumIdxCheck, h1, h2, ne_eq, hne, not_false_eq_true, hlt, and_self,
      ↓reduceIte, hb, decide_true, Bool.true_and]
    exact ih (fun ds h => hN ds (List.mem_cons_of_mem _ h))
  | @alts segs a' r as before y after has hb _ ih =>
    have := find_of_split has hb (List.prefix_append y a')
    simp only [List.cons_append, enumIdxCheck, this, List.drop_left]
    exact ih (fun ds h => hN ds (List.mem_cons_of_mem _ h))

/-- **`enumIdxCheck` decides `EnumRunsBounded`** -/
theorem enumRunsBounded_iff_check (segs : List Seg) (a : Bytes) :
    EnumRunsBounded segs a ↔ enumIdxCheck segs a = true := by
  constructor
  · induction segs generalizing a with
    | nil => intro _; rfl
    | cons s r ih =>
      intro H
      cases s with
      | lit s =>
        simp only [enumIdxCheck]
        split
        · next hp =>
          have hsa : s ++ a.drop s.length = a := List.prefix_iff_eq_append.mp (List.isPrefixOf_iff_prefix.mp hp)
          apply ih
          intro pre ds post x hr hsp
          refine H (.lit s :: pre) ds post x (by simp [hr]) ?_
          rw [← hsa]
          exact .lit s hsp
        · rfl
      | enum ds =>
        have h0 := H [] ds r a rfl (.nil a)
        simp only [enumIdxCheck, Bool.and_eq_true, decide_eq_true_eq]
        refine ⟨h0, ?_⟩
        split
        · next hp =>
          apply ih
          intro pre ds' post x hr hsp
          refine H (.enum ds :: pre) ds' post x (by simp [hr]) ?_
          have : a.takeWhile isDigit ++ a.dropWhile isDigit = a := List.takeWhile_append_dropWhile
          rw [← this]
          exact .enum ds _ hp.1 (fun c hc => mem_takeWhile_digit hc)
            (fun c t hct => dropWhile_head_not hct) hp.2 hsp
        · rfl
      | alts as =>
        simp only [enumIdxCheck]
        split
        · next y hf =>
          obtain ⟨hp, before, after, has, hb⟩ := split_of_find hf
          have hya : y ++ a.drop y.length = a := List.prefix_iff_eq_append.mp hp
          apply ih
          intro pre ds post x hr hsp
          refine H (.alts as :: pre) ds post x (by simp [hr]) ?_
          rw [← hya]
          exact .alts as before y after has (by rw [hya]; exact hb) hsp
        · rfl
  · intro hck pre ds post x hsegs hsp
    subst hsegs
    have := enumIdxCheck_move (.enum ds :: post) hsp hck
    simp only [enumIdxCheck, Bool.and_eq_true, decide_eq_true_eq] at this
    exact this.1

/-- `IdxBounded` (every digit run of the whole address) is the stronger condition -/
theorem enumIdxCheck_of_idxBounded : ∀ (segs : List Seg) (a : Bytes), IdxBounded a →
    enumIdxCheck segs a = true := by
  intro segs
  induction segs with
  | nil => intro _ _; rfl
  | cons s r ih =>
    intro a hb
    cases s with
    | lit s =>
      simp only [enumIdxCheck]
      split
      · exact ih _ (hb.drop _)
      · rfl
    | enum ds =>
      simp only [enumIdxCheck, Bool.and_eq_true, decide_eq_true_eq]
      refine ⟨hb.takeWhile, ?_⟩
      split
      · exact ih _ hb.dropWhile
      · rfl
    | alts as =>
      simp only [enumIdxCheck]
      split
      · exact ih _ (hb.drop _)
      · rfl

instance (p : Pat) (addr : Bytes) : Decidable (EnumIdxBounded p addr) :=
  decidable_of_iff _ (enumRunsBounded_iff_check p.segs addr).symm

theorem enumRunsBounded_of_idxBounded (segs : List Seg) {a : Bytes} (hb : IdxBounded a) :
    EnumRunsBounded segs a :=
  (enumRunsBounded_iff_check segs a).mpr (enumIdxCheck_of_idxBounded segs a hb)

/-- the digit runs at the enumerations are also bounded when they are bounded on *every*
    reading of the segments in front (the form that does not mention the leftmost reading) -/
theorem enumRunsBounded_of_all {segs : List Seg} {a : Bytes}
    (h : ∀ pre ds post x, segs = pre ++ .enum ds :: post → SpellsAll pre a x →
      decVal (x.takeWhile isDigit) < 2 ^ 31) : EnumRunsBounded segs a :=
  fun pre ds post x hs hsp => h pre ds post x hs hsp.spells

/-! ### rendered patterns under the weakened hypothesis -/

theorem greedyU_eq_greedy_of {p : Pat} (hwf : p.WF0) {addr : Bytes} (hb : EnumIdxBounded p addr) :
    greedyU p.segs p.sub addr = greedy p.segs p.sub addr :=
  greedyU_eq_greedy p.sub p.segs (segsWf_enum (wf0_segs hwf)) addr
    ((enumRunsBounded_iff_check _ _).mp hb)

/-- `path_rendered` with `IdxBounded` weakened to `EnumIdxBounded` -/
theorem path_rendered_enum {p : Pat} (hwf : p.WF0) {addr : Bytes} (ex : Bytes)
    (ha : NulFree addr) (hb : EnumIdxBounded p addr) :
    path p.cstr (addr ++ 0 :: ex) =
      match greedy p.segs p.sub addr with
      | none => .fail
      | some t => .ok (renderTypes p.types ++ [0], t ++ 0 :: ex) := by
  rw [path_renderedU hwf ex ha, greedyU_eq_greedy_of hwf hb]
  cases greedy p.segs p.sub addr <;> rfl

/-- `full_rendered` with `IdxBounded` weakened to `EnumIdxBounded` -/
theorem full_rendered_enum {p : Pat} (hwf : p.WF0) {addr tags : Bytes} (rest : Bytes)
    (ha : NulFree addr) (hb : EnumIdxBounded p addr) (ht : NulFree tags) :
    ∃ ex, mkMsg addr tags rest = addr ++ 0 :: ex ∧
    full p.cstr (mkMsg addr tags rest) =
      match greedy p.segs p.sub addr with
      | none => some (false, none)
      | some t => some (match p.types with
                        | none => true
                        | some ts => typesCode ts tags, some (t ++ 0 :: ex)) := by
  obtain ⟨ex, hex, hfull⟩ := full_renderedU hwf rest ha ht
  refine ⟨ex, hex, ?_⟩
  rw [hfull, greedyU_eq_greedy_of hwf hb]
  cases greedy p.segs p.sub addr <;> rfl

/-- an address with a leftmost reading of the whole pattern needs no hypothesis on its
    digit runs: the indices it carries are below N < 2^31 -/
theorem enumIdxBounded_of_leftmost {p : Pat} (hwf : p.WF0) {addr rest : Bytes}
    (h : SpellsLeftmost p.segs addr rest) : EnumIdxBounded p addr :=
  (enumRunsBounded_iff_check _ _).mpr (enumIdxCheck_of_leftmost h (segsWf_enum (wf0_segs hwf)))

/-- the type alternatives of a well-formed pattern are C strings -/
theorem wf0_types_nulFree {p : Pat} (hwf : p.WF0) {ts : List Bytes} (hty : p.types = some ts)
    {tags : Bytes} (hmem : tags ∈ ts) : NulFree tags := by
  have htw := wf0_types hwf
  simp only [hty, typesWf, Bool.and_eq_true, List.all_eq_true] at htw
  intro c hc
  exact (tagChar_ne (htw.2 tags hmem c hc)).1

/-- `greedy` accepts exactly the addresses with a leftmost reading of the whole pattern -/
theorem greedy_iff_leftmost (p : Pat) (addr : Bytes) :
    (∃ t, greedy p.segs p.sub addr = some t) ↔ PathSpecLeftmost p addr := by
  constructor
  · rintro ⟨t, hg⟩
    obtain ⟨rest, h1, h2⟩ := greedy_leftmost_sound p.sub p.segs addr t hg
    refine ⟨rest, h1, ?_⟩
    cases hs : p.sub with
    | true => simp only [hs, ↓reduceIte] at h2 ⊢; exact ⟨t, h2⟩
    | false => simp only [hs, Bool.false_eq_true, ↓reduceIte] at h2 ⊢; exact h2.1
  · rintro ⟨rest, h1, h2⟩
    have hg := greedy_leftmost_complete p.sub [] h1
    rw [List.append_nil] at hg
    rw [hg]
    cases hsub : p.sub with
    | true =>
      simp only [hsub, ↓reduceIte] at h2
      obtain ⟨t, rfl⟩ := h2
      exact ⟨t, by simp [greedy]⟩
    | false =>
      simp only [hsub, Bool.false_eq_true, ↓reduceIte] at h2
      subst h2
      exact ⟨[], by simp [greedy]⟩

/-- the leftmost reading is unique: what is left of the address is determined -/
theorem spellsLeftmost_unique : ∀ {segs : List Seg} {a r1 : Bytes}, SpellsLeftmost segs a r1 →
    ∀ {b r2 : Bytes}, SpellsLeftmost segs b r2 → a = b → r1 = r2 := by
  intro segs a r1 h1
  induction h1 with
  | nil r => intro b r2 h2 hab; cases h2; exact hab
  | @lit segs a' r s _ ih =>
    intro b r2 h2 hab
    cases h2 with
    | lit _ h2' => exact ih h2' (List.append_cancel_left hab)
  | @enum segs a' r ds idx hne hd hm hlt _ ih =>
    intro b r2 h2 hab
    cases h2 with
    | enum _ idx2 hne2 hd2 hm2 hlt2 h2' =>
      have e1 := takeWhile_run hd hm
      have e2 := takeWhile_run hd2 hm2
      rw [hab] at e1
      exact ih h2' (e1.2.symm.trans e2.2)
  | @alts segs a' r as before y after has hb _ ih =>
    intro b r2 h2 hab
    cases h2 with
    | @alts _ a2 _ _ before2 y2 after2 has2 hb2 h2' =>
      have f1 := find_of_split has hb (List.prefix_append y a')
      have f2 := find_of_split has2 hb2 (List.prefix_append y2 a2)
      rw [hab, f2] at f1
      simp only [Option.some.injEq] at f1
      subst f1
      exact ih h2' (List.append_cancel_left hab)

end Rtosc.Match
