/-
  C02 / C08 helper lemmas: layout of an encoded bundle, the size walk over its elements
  (`bundle_ring_length`, checked and bounded form), the writer `rtosc_bundle`.
  Property theorems are in Props/C02.lean and Props/C08.lean.
-/
import RtoscModel.Proofs.BundleLength
namespace Rtosc.Osc
open Rtosc

/-! ### layout -/

theorem bundleMagic_length : bundleMagic.length = 8 := rfl

theorem encodeElem_bundle_length (tt : UInt64) (es : List Elem) :
    (Spec.encodeElem (.bundle tt es)).length = 16 + (Spec.encodeElems es).length := by
  simp only [Spec.encodeElem, List.length_append, be64_length, bundleMagic_length]

theorem encodeElems_cons_length (e : Elem) (es : List Elem) :
    (Spec.encodeElems (e :: es)).length = 4 + (Spec.encodeElem e).length + (Spec.encodeElems es).length := by
  simp only [Spec.encodeElems, List.length_append, be32_length]

/-- every packet has at least 8 bytes -/
theorem encodeElem_length_ge (e : Elem) : 8 ≤ (Spec.encodeElem e).length := by
  cases e with
  | msg m => simp only [Spec.encodeElem]; rw [encode_length]; omega
  | bundle tt es => rw [encodeElem_bundle_length]; omega

mutual
/-- every packet is a whole number of 32-bit words, whatever its nesting depth -/
theorem encodeElem_mod4 : ∀ e : Elem, (Spec.encodeElem e).length % 4 = 0
  | .msg m => by simp only [Spec.encodeElem]; exact encode_length_mod m
  | .bundle tt es => by
    have := encodeElems_mod4 es
    rw [encodeElem_bundle_length]; omega
theorem encodeElems_mod4 : ∀ es : List Elem, (Spec.encodeElems es).length % 4 = 0
  | [] => by simp [Spec.encodeElems]
  | e :: es => by
    have h1 := encodeElem_mod4 e
    have h2 := encodeElems_mod4 es
    rw [encodeElems_cons_length]; omega
end

theorem encodeElems_append (es : List Elem) (e : Elem) :
    Spec.encodeElems (es ++ [e]) =
      Spec.encodeElems es ++ (be32 (UInt32.ofNat (Spec.encodeElem e).length) ++ Spec.encodeElem e) := by
  induction es with
  | nil => simp [Spec.encodeElems]
  | cons a es ih => simp [Spec.encodeElems, ih]

theorem ofNat_toNat_of_lt {n : Nat} (h : n < 4294967296) : (UInt32.ofNat n).toNat = n := by
  simp; omega

theorem drop16_bundle (tt : UInt64) (es : List Elem) (rest : Bytes) :
    (Spec.encodeElem (.bundle tt es) ++ rest).drop 16 = Spec.encodeElems es ++ rest := by
  have : Spec.encodeElem (.bundle tt es) ++ rest = (bundleMagic ++ be64 tt) ++ (Spec.encodeElems es ++ rest) := by
    simp [Spec.encodeElem]
  rw [this]
  exact List.drop_left' (by simp [bundleMagic_length, be64_length])

theorem drop8_bundle (tt : UInt64) (es : List Elem) (rest : Bytes) :
    (Spec.encodeElem (.bundle tt es) ++ rest).drop 8 = be64 tt ++ (Spec.encodeElems es ++ rest) := by
  have : Spec.encodeElem (.bundle tt es) ++ rest = bundleMagic ++ (be64 tt ++ (Spec.encodeElems es ++ rest)) := by
    simp [Spec.encodeElem]
  rw [this]
  exact List.drop_left' bundleMagic_length

/-! ### `strcmp(msg,"#bundle")` and the `&&` chain -/

/-- `magicU` as a recursion over the memory from `p` on -/
def magicL : Bytes → Bytes → Option Bool
  | _, [] => some true
  | [], _ :: _ => none
  | c :: cs, e :: es => if c = e then magicL cs es else some false

theorem magicU_eq (m : Bytes) : ∀ (es : Bytes) (p : Nat), magicU m es p = magicL (m.drop p) es := by
  intro es
  induction es with
  | nil => intro p; cases m.drop p <;> simp [magicU, magicL]
  | cons e es ih =>
    intro p
    cases h : m.drop p with
    | nil =>
      have : m[p]? = none := by
        apply List.getElem?_eq_none
        have := congrArg List.length h
        simp at this; omega
      simp [magicU, magicL, this]
    | cons c cs =>
      have h1 : m.drop (p + 1) = cs := by
        have := drop_add_of_drop (x := [c]) (y := cs) (by simpa using h); simpa using this
      simp only [magicU, getElem?_of_drop h, magicL, ih (p + 1), h1]

theorem magicL_magic (y : Bytes) : magicL (bundleMagic ++ y) bundleMagic = some true := by
  simp [magicL, bundleMagic]

/-- comparing two C strings: equal iff the contents are equal -/
theorem magicL_cstr : ∀ (s t x : Bytes), NoNul s → NoNul t →
    magicL (s ++ 0 :: x) (t ++ [0]) = some (decide (s = t))
  | [], [], x, _, _ => by simp [magicL]
  | [], e :: t, x, _, ht => by
    have : (0 : UInt8) ≠ e := fun h => ht.head h.symm
    simp [magicL, this]
  | c :: s, [], x, hs, _ => by
    have : c ≠ 0 := hs.head
    simp [magicL, this]
  | c :: s, e :: t, x, hs, ht => by
    simp only [List.cons_append, magicL]
    by_cases h : c = e
    · subst h
      rw [if_pos rfl, magicL_cstr s t x hs.tail ht.tail]
      simp
    · rw [if_neg h]; simp [h]

/-! ### the size walk -/

/-- a run of size-prefixed chunks -/
def frames : List Bytes → Bytes
  | [] => []
  | c :: cs => be32 (UInt32.ofNat c.length) ++ c ++ frames cs

theorem frames_cons_length (c : Bytes) (cs : List Bytes) :
    (frames (c :: cs)).length = 4 + c.length + (frames cs).length := by
  simp only [frames, List.length_append, be32_length]

theorem encodeElems_frames (es : List Elem) : Spec.encodeElems es = frames (es.map Spec.encodeElem) := by
  induction es with
  | nil => rfl
  | cons e es ih => simp [Spec.encodeElems, frames, ih]

/-- `bundle_ring_length` with an unbounded `len`: hops over the chunks and stops at the zero
    word, which it has to *read*. -/
theorem bundleLoopU_frames {m : Bytes} : ∀ (cs : List Bytes) (p fuel : Nat) (x : Bytes),
    m.drop p = frames cs ++ 0 :: 0 :: 0 :: 0 :: x → (∀ c ∈ cs, c ≠ []) →
    p + (frames cs).length + 3 < 4294967296 → cs.length < fuel →
    bundleLoopU m fuel p = .ok (p + (frames cs).length) := by
  intro cs
  induction cs with
  | nil =>
    intro p fuel x hd _ hlt hf
    obtain ⟨f, rfl⟩ : ∃ f, fuel = f + 1 := ⟨fuel - 1, by simp at hf; omega⟩
    have : rd32U m p = some 0 := by
      apply rd32U_of_drop (v := 0) (x := x) _ (by simp [frames] at hlt; omega)
      simpa [frames, be32, beN] using hd
    simp [bundleLoopU, this, frames]
  | cons c cs ih =>
    intro p fuel x hd hne hlt hf
    obtain ⟨f, rfl⟩ : ∃ f, fuel = f + 1 := ⟨fuel - 1, by simp at hf; omega⟩
    rw [frames_cons_length] at hlt
    have hc : c.length ≠ 0 := by
      have := hne c List.mem_cons_self
      simpa using this
    have hv : (UInt32.ofNat c.length).toNat = c.length := ofNat_toNat_of_lt (by omega)
    have hrd : rd32U m p = some (UInt32.ofNat c.length) := by
      apply rd32U_of_drop (x := c ++ (frames cs ++ 0 :: 0 :: 0 :: 0 :: x)) _ (by omega)
      rw [hd]; simp [frames]
    have hd' : m.drop (p + (4 + c.length)) = frames cs ++ 0 :: 0 :: 0 :: 0 :: x := by
      have := drop_add_of_drop (x := be32 (UInt32.ofNat c.length) ++ c)
        (y := frames cs ++ 0 :: 0 :: 0 :: 0 :: x) (by rw [hd]; simp [frames])
      simpa [be32_length] using this
    have hnw : ¬ (p + 4 + c.length > 4294967295) := by omega
    simp only [bundleLoopU, hrd, hv, ne_eq, hc, not_false_eq_true, if_true, hnw, and_false, if_false]
    rw [u32_id (n := 4 + c.length) (by omega), u32_id (by omega),
      ih (p + (4 + c.length)) f x hd' (fun c hc => hne c (List.mem_cons_of_mem _ hc)) (by omega)
        (by simp at hf; omega)]
    rw [frames_cons_length]; congr 1; omega

/-- four `deref`s at and behind the end of the data are 0: the block ends or holds zeros -/
theorem ring_rd32_zeros {r : Ring} {msg : Bytes} (h : r.d0 ++ r.d1 = msg) {p k : Nat}
    (hd : msg.drop p = zeros k) (hlt : p + 3 < 4294967296) : r.rd32 p = 0 := by
  have hz : ∀ j, r.deref (p + j) = 0 := by
    intro j
    rw [deref_eq, h, getElem?_of_drop' hd]
    simp only [zeros]
    by_cases hj : j < k
    · simp [hj]
    · simp [List.getElem?_eq_none (l := List.replicate k (0 : UInt8)) (i := j) (by simp; omega)]
  simp only [Ring.rd32]
  rw [u32_id (n := p + 1) (by omega), u32_id (n := p + 2) (by omega), u32_id (n := p + 3) (by omega),
    hz 1, hz 2, hz 3]
  have := hz 0
  simp only [Nat.add_zero] at this
  rw [this]; rfl

/-- `bundle_ring_length` with the real `len`: behind the chunks `deref` yields 0 (zero bytes of
    the buffer, or the end of the ring) -/
theorem bundleLoop_frames {r : Ring} {msg : Bytes} (h : r.d0 ++ r.d1 = msg) :
    ∀ (cs : List Bytes) (p fuel k : Nat),
    msg.drop p = frames cs ++ zeros k → (∀ c ∈ cs, c ≠ []) →
    p + (frames cs).length + 3 < 4294967296 → cs.length < fuel →
    p + (frames cs).length ≤ r.total →
    bundleLoop r fuel p = some (p + (frames cs).length) := by
  intro cs
  induction cs with
  | nil =>
    intro p fuel k hd _ hlt hf htot
    obtain ⟨f, rfl⟩ : ∃ f, fuel = f + 1 := ⟨fuel - 1, by simp at hf; omega⟩
    have : r.rd32 p = 0 := ring_rd32_zeros h (k := k) (by simpa [frames] using hd) (by simp [frames] at hlt; omega)
    simp only [frames, List.length_nil, Nat.add_zero] at htot ⊢
    have hin : ¬ p > r.total := by omega
    simp [bundleLoop, this, hin, htot]
  | cons c cs ih =>
    intro p fuel k hd hne hlt hf htot
    obtain ⟨f, rfl⟩ : ∃ f, fuel = f + 1 := ⟨fuel - 1, by simp at hf; omega⟩
    rw [frames_cons_length] at hlt htot
    have hc : c.length ≠ 0 := by
      have := hne c List.mem_cons_self
      simpa using this
    have hv : (UInt32.ofNat c.length).toNat = c.length := ofNat_toNat_of_lt (by omega)
    have hrd : r.rd32 p = UInt32.ofNat c.length := by
      apply ring_rd32_of_drop h (x := c ++ (frames cs ++ zeros k)) _ (by omega)
      rw [hd]; simp [frames]
    have hd' : msg.drop (p + (4 + c.length)) = frames cs ++ zeros k := by
      have := drop_add_of_drop (x := be32 (UInt32.ofNat c.length) ++ c)
        (y := frames cs ++ zeros k) (by rw [hd]; simp [frames])
      simpa [be32_length] using this
    have hin : ¬ p > r.total := by omega
    have hfit : ¬ c.length > r.total - p := by omega
    have hnw : ¬ (p + 4 + c.length > 4294967295) := by omega
    simp only [bundleLoop, hin, hrd, hv, hfit, ne_eq, hc, not_false_eq_true, if_true, if_false, hnw,
      and_false, or_self]
    rw [u32_id (n := 4 + c.length) (by omega), u32_id (by omega),
      ih (p + (4 + c.length)) f k hd' (fun c hc => hne c (List.mem_cons_of_mem _ hc)) (by omega)
        (by simp at hf; omega) (by omega)]
    rw [frames_cons_length]; congr 1; omega

theorem chunks_nonempty (es : List Elem) : ∀ c ∈ es.map Spec.encodeElem, c ≠ [] := by
  intro c hc
  obtain ⟨e, _, rfl⟩ := List.mem_map.mp hc
  have := encodeElem_length_ge e
  intro h; rw [h] at this; simp at this

theorem length_le_frames (cs : List Bytes) : cs.length ≤ (frames cs).length := by
  induction cs with
  | nil => simp [frames]
  | cons c cs ih => rw [frames_cons_length]; simp only [List.length_cons]; omega

/-- `rtosc_message_length(bundle, -1)`: correct when a zero word follows the bundle -/
theorem messageLengthU_bundle (tt : UInt64) (es : List Elem) (x : Bytes)
    (hsz : (Spec.encodeElem (.bundle tt es)).length < 4294967296) :
    messageLengthU (Spec.encodeElem (.bundle tt es) ++ 0 :: 0 :: 0 :: 0 :: x) =
      .ok (Spec.encodeElem (.bundle tt es)).length := by
  have hl := encodeElem_bundle_length tt es
  have hm4 := encodeElem_mod4 (.bundle tt es)
  unfold messageLengthU
  have hm : magicU (Spec.encodeElem (.bundle tt es) ++ 0 :: 0 :: 0 :: 0 :: x) bundleMagic 0 = some true := by
    rw [magicU_eq, List.drop_zero]
    have : Spec.encodeElem (.bundle tt es) ++ 0 :: 0 :: 0 :: 0 :: x =
        bundleMagic ++ (be64 tt ++ (Spec.encodeElems es ++ 0 :: 0 :: 0 :: 0 :: x)) := by
      simp [Spec.encodeElem]
    rw [this]; exact magicL_magic _
  rw [hm]
  simp only
  have hd := drop16_bundle tt es (0 :: 0 :: 0 :: 0 :: x)
  rw [encodeElems_frames] at hd hl
  have hfl := length_le_frames (es.map Spec.encodeElem)
  rw [bundleLoopU_frames (es.map Spec.encodeElem) 16 _ x hd (chunks_nonempty es) (by omega)
    (by simp only [fuelU, List.length_append, List.length_cons, List.length_map] at hfl ⊢; omega)]
  rw [hl]

/-- `rtosc_message_length(bundle, len)` with the true `len`: zero bytes (or nothing) behind it -/
theorem messageLength_bundle_spec (tt : UInt64) (es : List Elem) (k : Nat)
    (hsz : (Spec.encodeElem (.bundle tt es)).length < 4294967296) :
    messageLength (Spec.encodeElem (.bundle tt es) ++ zeros k) =
      some (Spec.encodeElem (.bundle tt es)).length := by
  have hl := encodeElem_bundle_length tt es
  have hm4 := encodeElem_mod4 (.bundle tt es)
  let r : Ring := ⟨Spec.encodeElem (.bundle tt es) ++ zeros k, []⟩
  have hr : r.d0 ++ r.d1 = Spec.encodeElem (.bundle tt es) ++ zeros k := by simp [r]
  have hmagic : (List.range 8).map r.deref = bundleMagic := by
    have hj : ∀ j, j < 8 → r.deref j = (bundleMagic[j]?).getD 0 := by
      intro j hj
      rw [deref_eq, hr]
      have : Spec.encodeElem (.bundle tt es) ++ zeros k =
          bundleMagic ++ (be64 tt ++ (Spec.encodeElems es ++ zeros k)) := by simp [Spec.encodeElem]
      rw [this, List.getElem?_append_left (by rw [bundleMagic_length]; exact hj)]
    simp only [List.range, List.range.loop, List.map]
    rw [hj 0 (by omega), hj 1 (by omega), hj 2 (by omega), hj 3 (by omega), hj 4 (by omega),
      hj 5 (by omega), hj 6 (by omega), hj 7 (by omega)]
    rfl
  have hd : (Spec.encodeElem (.bundle tt es) ++ zeros k).drop 16 =
      frames (es.map Spec.encodeElem) ++ zeros k := by
    rw [drop16_bundle, encodeElems_frames]
  rw [encodeElems_frames] at hl
  have hfl := length_le_frames (es.map Spec.encodeElem)
  have htot : r.total = (Spec.encodeElem (.bundle tt es)).length + k := by simp [Ring.total, r]
  show ringLength r = _
  unfold ringLength
  rw [if_pos hmagic]
  unfold bundleRingLength
  rw [bundleLoop_frames hr (es.map Spec.encodeElem) 16 r.fuel k hd (chunks_nonempty es) (by omega)
    (by simp only [Ring.fuel, htot, List.length_map] at hfl ⊢; omega) (by omega), hl]

end Rtosc.Osc
