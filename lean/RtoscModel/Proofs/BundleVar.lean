/-
  C02 helper lemmas: the variadic constructors without any hypothesis on the float conversions.

  `rtosc_v2args` rebuilds the argument array from the promoted values of the call site; the only
  values that change on the way are those under an `'f'` tag (`float → double` at the call site,
  `double → float` in `args[..].f = va_arg(ap,double)`).  `viaDoubleC g` / `viaDoubleA g` send
  exactly these values through `g`; with `g = narrow ∘ widen` the variadic constructor *is*
  `rtosc_amessage` on the converted array, whatever `narrow` and `widen` are.  The converted
  message has the same address, the same type string, the same kinds and sizes of arguments, hence
  the same encoded length: buffer discipline does not depend on float bits.
-/
import RtoscModel.Proofs.BundleAt
namespace Rtosc.Osc
open Rtosc

/-- the argument array with the values under an `'f'` tag sent through `g` -/
def viaDoubleC (g : UInt32 → UInt32) : Bytes → List CArg → List CArg
  | [], args => args
  | t :: ts, args =>
    if !hasReserved t then viaDoubleC g ts args
    else
      match args with
      | [] => []
      | a :: as =>
        (match a with
          | .w32 v => if t = 102 then CArg.w32 (g v) else a
          | _ => a) :: viaDoubleC g ts as

/-- the same on abstract arguments -/
def viaDoubleA (g : UInt32 → UInt32) : Bytes → List Arg → List Arg
  | [], args => args
  | t :: ts, args =>
    if !hasReserved t then viaDoubleA g ts args
    else
      match args with
      | [] => []
      | a :: as =>
        (match a with
          | .w32 v => if t = 102 then Arg.w32 (g v) else a
          | _ => a) :: viaDoubleA g ts as

/-- the message a variadic call site really builds: every `float` argument went through `g`
    (`g v = narrow (widen v)`), everything else is as the caller wrote it -/
def Msg.viaDouble (g : UInt32 → UInt32) (m : Msg) : Msg := ⟨m.addr, m.tags, viaDoubleA g m.tags m.args⟩

/-- what a variadic call site sends for `m` on a target whose `float → double` promotion is `widen`
    and whose `double → float` conversion is `narrow` (both on bit patterns, both arbitrary) -/
def Msg.sent (narrow : UInt64 → UInt32) (widen : UInt32 → UInt64) (m : Msg) : Msg :=
  m.viaDouble (fun v => narrow (widen v))

theorem viaDoubleC_skip {t : UInt8} (g : UInt32 → UInt32) (ts : Bytes) (args : List CArg)
    (hr : hasReserved t = false) : viaDoubleC g (t :: ts) args = viaDoubleC g ts args := by
  simp [viaDoubleC, hr]

theorem viaDoubleC_cons {t : UInt8} (g : UInt32 → UInt32) (ts : Bytes) (a : CArg) (as : List CArg)
    (hr : hasReserved t = true) :
    viaDoubleC g (t :: ts) (a :: as) =
      (match a with
        | .w32 v => if t = 102 then CArg.w32 (g v) else a
        | _ => a) :: viaDoubleC g ts as := by
  simp [viaDoubleC, hr]

theorem viaDoubleA_skip {t : UInt8} (g : UInt32 → UInt32) (ts : Bytes) (args : List Arg)
    (hr : hasReserved t = false) : viaDoubleA g (t :: ts) args = viaDoubleA g ts args := by
  simp [viaDoubleA, hr]

theorem viaDoubleA_cons {t : UInt8} (g : UInt32 → UInt32) (ts : Bytes) (a : Arg) (as : List Arg)
    (hr : hasReserved t = true) :
    viaDoubleA g (t :: ts) (a :: as) =
      (match a with
        | .w32 v => if t = 102 then Arg.w32 (g v) else a
        | _ => a) :: viaDoubleA g ts as := by
  simp [viaDoubleA, hr]

theorem viaDoubleC_nil (g : UInt32 → UInt32) : ∀ tags : Bytes, viaDoubleC g tags [] = [] := by
  intro tags
  induction tags with
  | nil => rfl
  | cons t ts ih =>
    cases hr : hasReserved t with
    | false => rw [viaDoubleC_skip g ts [] hr]; exact ih
    | true => simp [viaDoubleC, hr]

theorem viaDoubleA_nil (g : UInt32 → UInt32) : ∀ tags : Bytes, viaDoubleA g tags [] = [] := by
  intro tags
  induction tags with
  | nil => rfl
  | cons t ts ih =>
    cases hr : hasReserved t with
    | false => rw [viaDoubleA_skip g ts [] hr]; exact ih
    | true => simp [viaDoubleA, hr]

/-- `rtosc_v2args` on the promoted values of a call site: the argument array of the call site
    with the `'f'` values converted there and back — no hypothesis on the conversions. -/
theorem v2args_promote_any (narrow : UInt64 → UInt32) (widen : UInt32 → UInt64) (tags : Bytes) :
    ∀ (cargs : List CArg) (args : List Arg), Matches tags args → Denote cargs args →
      v2args narrow (nreserved tags) tags (promote widen tags cargs) =
        some (viaDoubleC (fun v => narrow (widen v)) tags cargs) := by
  induction tags with
  | nil =>
    intro cargs args hm hd
    rw [matches_nil hm] at hd; rw [denote_nil hd]; simp [nreserved, v2args, viaDoubleC]
  | cons t ts ih =>
    intro cargs args hm hd
    rcases kind_cases t with ⟨hk, hr, ht⟩ | ⟨hk, hr, ht⟩ | ⟨hk, hr, ht⟩ | ⟨hk, hr, ht⟩ | ⟨hk, hr, ht⟩ |
      ⟨hk, hr, h1, h2, h3, h4, h5, h6, h7, h8, h9, h10, h11⟩
    · obtain ⟨a, as, rfl, hak, hm'⟩ := matches_take hk hm
      obtain ⟨v, rfl⟩ := kind_w32_inv hak
      obtain ⟨c, cs, rfl, hc, hd'⟩ := denote_cons hd
      rw [abs_w32 hc, nreserved_cons_true hr, viaDoubleC_cons _ ts _ cs hr]
      rcases ht with rfl | rfl | rfl | rfl <;>
        simp [promote, hr, v2args, ih cs as hm' hd']
    · obtain ⟨a, as, rfl, hak, hm'⟩ := matches_take hk hm
      obtain ⟨v, rfl⟩ := kind_w64_inv hak
      obtain ⟨c, cs, rfl, hc, hd'⟩ := denote_cons hd
      rw [abs_w64 hc, nreserved_cons_true hr, viaDoubleC_cons _ ts _ cs hr]
      rcases ht with rfl | rfl | rfl <;>
        simp [promote, hr, v2args, ih cs as hm' hd']
    · obtain ⟨a, as, rfl, hak, hm'⟩ := matches_take hk hm
      obtain ⟨x, y, z, w, rfl⟩ := kind_midi_inv hak
      obtain ⟨c, cs, rfl, hc, hd'⟩ := denote_cons hd
      rw [abs_midi hc, nreserved_cons_true hr, viaDoubleC_cons _ ts _ cs hr]
      subst ht
      simp [promote, hr, v2args, ih cs as hm' hd']
    · obtain ⟨a, as, rfl, hak, hm'⟩ := matches_take hk hm
      obtain ⟨s, rfl⟩ := kind_str_inv hak
      obtain ⟨c, cs, rfl, hc, hd'⟩ := denote_cons hd
      rw [abs_str hc, nreserved_cons_true hr, viaDoubleC_cons _ ts _ cs hr]
      rcases ht with rfl | rfl <;>
        simp [promote, hr, v2args, ih cs as hm' hd']
    · obtain ⟨a, as, rfl, hak, hm'⟩ := matches_take hk hm
      obtain ⟨dd, rfl⟩ := kind_blob_inv hak
      obtain ⟨c, cs, rfl, hc, hd'⟩ := denote_cons hd
      obtain ⟨len, data, rfl, _, _⟩ := abs_blob hc
      rw [nreserved_cons_true hr, viaDoubleC_cons _ ts _ cs hr]
      subst ht
      simp [promote, hr, v2args, ih cs as hm' hd']
    · rw [nreserved_cons_false hr, viaDoubleC_skip _ ts cargs hr]
      have hm' := (matches_skip hk).mp hm
      have := ih cargs args hm' hd
      have hp : promote widen (t :: ts) cargs = promote widen ts cargs := by simp [promote, hr]
      rw [hp]
      cases hn : nreserved ts with
      | zero =>
        rw [hn, v2args_zero] at this
        rw [v2args_zero]; exact this
      | succ n =>
        rw [hn] at this
        simp only [v2args, h1, h2, h3, h4, h5, h6, h7, h8, h9, h10, h11, or_self, if_false]
        exact this

/-- `rtosc_vmessage` on the promoted values of a call site is `rtosc_amessage` on the converted
    argument array, for the NULL buffer and for every buffer — no hypothesis on the conversions. -/
theorem vmessage_promote_any (narrow : UInt64 → UInt32) (widen : UInt32 → UInt64) (buffer : Option Bytes)
    (addr tags : Bytes) (cargs : List CArg) (args : List Arg) (hm : Matches tags args)
    (hd : Denote cargs args) :
    vmessage narrow buffer addr tags (promote widen tags cargs) =
      amessage buffer addr tags (viaDoubleC (fun v => narrow (widen v)) tags cargs) := by
  simp only [vmessage]
  rw [v2args_promote_any narrow widen tags cargs args hm hd]
  split
  · next h0 => rw [cargs_nil_of_nreserved_zero tags cargs args hm hd h0, viaDoubleC_nil]
  · rfl

/-! ### the converted message is as well-formed and as long as the caller's -/

theorem denote_viaDouble (g : UInt32 → UInt32) (tags : Bytes) : ∀ (cargs : List CArg) (args : List Arg),
    Denote cargs args → Denote (viaDoubleC g tags cargs) (viaDoubleA g tags args) := by
  induction tags with
  | nil => intro cargs args hd; exact hd
  | cons t ts ih =>
    intro cargs args hd
    cases hr : hasReserved t with
    | false => rw [viaDoubleC_skip g ts cargs hr, viaDoubleA_skip g ts args hr]; exact ih cargs args hd
    | true =>
      cases args with
      | nil => rw [denote_nil hd, viaDoubleC_nil, viaDoubleA_nil]; trivial
      | cons a as =>
        obtain ⟨c, cs, rfl, hc, hd'⟩ := denote_cons hd
        rw [viaDoubleC_cons g ts c cs hr, viaDoubleA_cons g ts a as hr]
        refine ⟨?_, ih cs as hd'⟩
        cases a with
        | w32 v =>
          rw [abs_w32 hc]
          by_cases ht : t = 102 <;> simp [ht, CArg.abs]
        | w64 v => rw [abs_w64 hc]; rfl
        | midi x y z w => rw [abs_midi hc]; rfl
        | str s => rw [abs_str hc]; rfl
        | blob d =>
          obtain ⟨len, data, rfl, _, _⟩ := abs_blob hc
          exact hc

theorem kind_none_of_not_reserved {t : UInt8} (hr : hasReserved t = false) : kind t = none := by
  have := hasReserved_eq t
  rw [hr] at this
  cases h : kind t with
  | none => rfl
  | some k => rw [h] at this; simp at this

theorem kind_some_of_reserved {t : UInt8} (hr : hasReserved t = true) : ∃ k, kind t = some k := by
  have := hasReserved_eq t
  rw [hr] at this
  exact Option.isSome_iff_exists.mp this.symm

theorem matches_viaDouble (g : UInt32 → UInt32) (tags : Bytes) : ∀ (args : List Arg),
    Matches tags args → Matches tags (viaDoubleA g tags args) := by
  induction tags with
  | nil => intro args hm; exact hm
  | cons t ts ih =>
    intro args hm
    cases hr : hasReserved t with
    | false =>
      have hk := kind_none_of_not_reserved hr
      rw [viaDoubleA_skip g ts args hr]
      exact (matches_skip hk).mpr (ih args ((matches_skip hk).mp hm))
    | true =>
      obtain ⟨k, hk⟩ := kind_some_of_reserved hr
      obtain ⟨a, as, rfl, hak, hm'⟩ := matches_take hk hm
      rw [viaDoubleA_cons g ts a as hr]
      have hm'' := ih as hm'
      simp only [Matches] at hm'' ⊢
      simp only [matchesB, hk, Bool.and_eq_true, decide_eq_true_eq]
      refine ⟨?_, hm''⟩
      cases a with
      | w32 v => by_cases ht : t = 102 <;> simp [ht] <;> exact hak
      | _ => exact hak

theorem wf_viaDouble (g : UInt32 → UInt32) (tags : Bytes) : ∀ (args : List Arg),
    (∀ a ∈ args, a.WF) → ∀ a ∈ viaDoubleA g tags args, a.WF := by
  induction tags with
  | nil => intro args h; exact h
  | cons t ts ih =>
    intro args h
    cases hr : hasReserved t with
    | false => rw [viaDoubleA_skip g ts args hr]; exact ih args h
    | true =>
      cases args with
      | nil => rw [viaDoubleA_nil]; intro a ha; cases ha
      | cons a as =>
        rw [viaDoubleA_cons g ts a as hr]
        intro x hx
        rcases List.mem_cons.mp hx with rfl | hx
        · cases a with
          | w32 v => by_cases ht : t = 102 <;> simp [ht, Arg.WF]
          | _ => exact h _ List.mem_cons_self
        · exact ih as (fun y hy => h y (List.mem_cons_of_mem _ hy)) x hx

theorem flat_length_viaDouble (g : UInt32 → UInt32) (tags : Bytes) : ∀ (args : List Arg),
    ((viaDoubleA g tags args).flatMap encArg).length = (args.flatMap encArg).length := by
  induction tags with
  | nil => intro args; rfl
  | cons t ts ih =>
    intro args
    cases hr : hasReserved t with
    | false => rw [viaDoubleA_skip g ts args hr]; exact ih args
    | true =>
      cases args with
      | nil => rw [viaDoubleA_nil]
      | cons a as =>
        rw [viaDoubleA_cons g ts a as hr]
        simp only [List.flatMap_cons, List.length_append, ih as]
        congr 1
        cases a with
        | w32 v => by_cases ht : t = 102 <;> simp [ht, encArg, be32_length]
        | _ => rfl

/-- **the size does not depend on float bits** -/
theorem encode_length_viaDouble (g : UInt32 → UInt32) (m : Msg) :
    (Spec.encode (m.viaDouble g)).length = (Spec.encode m).length := by
  rw [encode_length, encode_length]
  simp only [Msg.viaDouble, flat_length_viaDouble]

theorem wf_msg_viaDouble (g : UInt32 → UInt32) (m : Msg) (hwf : m.WF) : (m.viaDouble g).WF :=
  ⟨hwf.addr_ne, hwf.addr_nonul, hwf.tags_ok, matches_viaDouble g m.tags m.args hwf.matches_,
   wf_viaDouble g m.tags m.args hwf.args_ok, by rw [encode_length_viaDouble]; exact hwf.size⟩

/-- the conversions give every `'f'` value back: the converted message is the caller's -/
theorem viaDoubleA_id (g : UInt32 → UInt32) (tags : Bytes) : ∀ (cargs : List CArg) (args : List Arg),
    Denote cargs args → (∀ v ∈ fArgs tags cargs, g v = v) → viaDoubleA g tags args = args := by
  induction tags with
  | nil => intro cargs args _ _; rfl
  | cons t ts ih =>
    intro cargs args hd hf
    cases hr : hasReserved t with
    | false =>
      rw [viaDoubleA_skip g ts args hr]
      rw [fArgs_skip ts cargs hr] at hf
      exact ih cargs args hd hf
    | true =>
      cases args with
      | nil => rw [viaDoubleA_nil]
      | cons a as =>
        obtain ⟨c, cs, rfl, hc, hd'⟩ := denote_cons hd
        rw [viaDoubleA_cons g ts a as hr]
        rw [fArgs_cons ts c cs hr] at hf
        rw [ih cs as hd' (fun v hv => hf v (List.mem_append_right _ hv))]
        congr 1
        cases a with
        | w32 v =>
          rw [abs_w32 hc] at hf
          by_cases ht : t = 102
          · have : g v = v := hf v (by simp [ht])
            simp [ht, this]
          · simp [ht]
        | _ => rfl

theorem msg_viaDouble_id (g : UInt32 → UInt32) (m : Msg) (cargs : List CArg) (hd : Denote cargs m.args)
    (hf : ∀ v ∈ fArgs m.tags cargs, g v = v) : m.viaDouble g = m := by
  cases m with
  | mk addr tags args =>
    simp only [Msg.viaDouble]
    rw [viaDoubleA_id g tags cargs args hd hf]

theorem encode_length_sent (narrow : UInt64 → UInt32) (widen : UInt32 → UInt64) (m : Msg) :
    (Spec.encode (m.sent narrow widen)).length = (Spec.encode m).length :=
  encode_length_viaDouble _ m

theorem sent_id (narrow : UInt64 → UInt32) (widen : UInt32 → UInt64) (m : Msg) (cargs : List CArg)
    (hd : Denote cargs m.args) (hf : ∀ v ∈ fArgs m.tags cargs, narrow (widen v) = v) :
    m.sent narrow widen = m :=
  msg_viaDouble_id _ m cargs hd hf

/-! ### the variadic constructor obeys the discipline, with no float hypothesis -/

/-- `rtosc_vmessage` at a call site that passes the promoted values of `cargs`: disciplined, and
    what it writes is the encoding of the converted message (same length as `Spec.encode m`). -/
theorem vmessage_disciplined_any (narrow : UInt64 → UInt32) (widen : UInt32 → UInt64) (m : Msg)
    (cargs : List CArg) (hwf : m.WF) (hd : Denote cargs m.args) :
    Disciplined (fun buf => vmessage narrow buf m.addr m.tags (promote widen m.tags cargs))
      (Spec.encode (m.sent narrow widen)) := by
  unfold Msg.sent
  have hwf' := wf_msg_viaDouble (fun v => narrow (widen v)) m hwf
  have hd' := denote_viaDouble (fun v => narrow (widen v)) m.tags cargs m.args hd
  have key : ∀ buf, vmessage narrow buf m.addr m.tags (promote widen m.tags cargs) =
      amessage buf (m.viaDouble (fun v => narrow (widen v))).addr (m.viaDouble (fun v => narrow (widen v))).tags
        (viaDoubleC (fun v => narrow (widen v)) m.tags cargs) :=
    fun buf => vmessage_promote_any narrow widen buf m.addr m.tags cargs m.args hwf.matches_ hd
  constructor
  · show vmessage narrow none m.addr m.tags (promote widen m.tags cargs) = _
    rw [key]
    exact amessage_null_spec _ _ hwf' hd'
  · intro buf
    show vmessage narrow (some buf) m.addr m.tags (promote widen m.tags cargs) = _
    rw [key]
    split
    · next h => exact amessage_spec _ _ buf hwf' hd' h
    · next h =>
      simp only [amessage, sizeNull_spec _ _ hwf' hd']
      rw [if_pos (by omega)]

/-! ### `append_bundle`: the failure case, and the way `subtree_serialize` chains it -/

/-- the guard of `append_bundle`: `max_len < dst_len + src_len + 4 || dst_len == 0 || src_len == 0` -/
def AppendFails (maxLen dstLen srcLen : Nat) : Prop := maxLen < dstLen + srcLen + 4 ∨ dstLen = 0 ∨ srcLen = 0

instance (maxLen dstLen srcLen : Nat) : Decidable (AppendFails maxLen dstLen srcLen) := by
  unfold AppendFails; exact inferInstance

/-- the guard fires: return value 0, destination as it was (not zero-filled), the source is not read -/
theorem appendBundle_fails (dst src : Bytes) (maxLen dstLen srcLen : Nat)
    (h : AppendFails maxLen dstLen srcLen) :
    appendBundle dst src maxLen dstLen srcLen = .ok ⟨dst, 0, false⟩ := by
  have h' : maxLen < dstLen + srcLen + 4 ∨ dstLen = 0 ∨ srcLen = 0 := h
  simp only [appendBundle]
  rw [if_pos h']

/-- the guard does not fire and `src_len` bytes of the source block exist, `max_len` is honest:
    the result is a splice of size field and element at `dst_len`, everything else is untouched -/
theorem appendBundle_fits (dst src : Bytes) (maxLen dstLen srcLen : Nat)
    (h : ¬ AppendFails maxLen dstLen srcLen) (hsrc : srcLen ≤ src.length) (hmax : maxLen ≤ dst.length) :
    appendBundle dst src maxLen dstLen srcLen =
      .ok ⟨dst.take dstLen ++ put32 (UInt32.ofNat srcLen) ++ src.take srcLen ++ dst.drop (dstLen + 4 + srcLen),
        dstLen + srcLen + 4, false⟩ := by
  simp only [AppendFails, not_or, Nat.not_lt] at h
  have hp : (put32 (UInt32.ofNat srcLen)).length = 4 := by simp [put32]
  simp only [appendBundle]
  rw [if_neg (by simp only [not_or, Nat.not_lt]; exact h), if_pos hsrc]
  have s1 : (⟨dst, false⟩ : BW).stores dstLen (put32 (UInt32.ofNat srcLen)) =
      ⟨dst.take dstLen ++ put32 (UInt32.ofNat srcLen) ++ dst.drop (dstLen + 4), false⟩ := by
    rw [stores_eq _ _ _ (by rw [hp]; show dstLen + 4 ≤ dst.length; omega), hp]
  rw [s1]
  have hl : (dst.take dstLen ++ put32 (UInt32.ofNat srcLen)).length = dstLen + 4 := by
    rw [List.length_append, List.length_take, hp, Nat.min_eq_left (by omega)]
  have htk : (src.take srcLen).length = srcLen := by rw [List.length_take, Nat.min_eq_left hsrc]
  rw [stores_eq _ _ _ (by
    show dstLen + 4 + (src.take srcLen).length ≤ (dst.take dstLen ++ put32 (UInt32.ofNat srcLen) ++ dst.drop (dstLen + 4)).length
    rw [List.length_append, hl, htk, List.length_drop]; omega)]
  simp only [htk]
  have e1 : (dst.take dstLen ++ put32 (UInt32.ofNat srcLen) ++ dst.drop (dstLen + 4)).take (dstLen + 4) =
      dst.take dstLen ++ put32 (UInt32.ofNat srcLen) := by
    rw [← hl, List.take_left]
  have e2 : (dst.take dstLen ++ put32 (UInt32.ofNat srcLen) ++ dst.drop (dstLen + 4)).drop (dstLen + 4 + srcLen) =
      dst.drop (dstLen + 4 + srcLen) := by
    rw [← List.drop_drop, ← hl, List.drop_left, hl, List.drop_drop]
  rw [e1, e2]

/-- `subtree_serialize`'s loop: `len = append_bundle(buffer, src_i, buffer_size, len, src_len_i)` for
    every captured message in turn (`srcs` = the source blocks with the lengths passed). -/
def appendAll (dst : Bytes) (maxLen : Nat) : Nat → List (Bytes × Nat) → Rd BResult
  | len, [] => .ok ⟨dst, len, false⟩
  | len, (src, srcLen) :: rest =>
    match appendBundle dst src maxLen len srcLen with
    | .ok r =>
      (match appendAll r.buf maxLen r.ret rest with
        | .ok r' => .ok ⟨r'.buf, r'.ret, r.oob || r'.oob⟩
        | .oob => .oob
        | .hang => .hang)
    | .oob => .oob
    | .hang => .hang
termination_by _ srcs => srcs.length

/-- once the length is 0 every further append returns 0 and leaves the destination as it is -/
theorem appendAll_zero (dst : Bytes) (maxLen : Nat) : ∀ srcs : List (Bytes × Nat),
    appendAll dst maxLen 0 srcs = .ok ⟨dst, 0, false⟩ := by
  intro srcs
  induction srcs with
  | nil => simp [appendAll]
  | cons s rest ih =>
    obtain ⟨src, srcLen⟩ := s
    rw [appendAll, appendBundle_fails dst src maxLen 0 srcLen (Or.inr (Or.inl rfl))]
    simp only [ih, Bool.or_false]

/-- an append that fails: it and every later append of the chain return 0, the destination keeps
    exactly the bytes it had before the failing call -/
theorem appendAll_after_failure (dst src : Bytes) (maxLen dstLen srcLen : Nat) (rest : List (Bytes × Nat))
    (h : AppendFails maxLen dstLen srcLen) :
    appendAll dst maxLen dstLen ((src, srcLen) :: rest) = .ok ⟨dst, 0, false⟩ := by
  rw [appendAll, appendBundle_fails dst src maxLen dstLen srcLen h]
  simp only [appendAll_zero, Bool.or_false]

/-- the whole chain never stores outside the destination block -/
theorem appendAll_safe (maxLen : Nat) : ∀ (srcs : List (Bytes × Nat)) (dst : Bytes) (len : Nat) (r : BResult),
    maxLen ≤ dst.length → appendAll dst maxLen len srcs = .ok r → r.oob = false ∧ r.buf.length = dst.length := by
  intro srcs
  induction srcs with
  | nil =>
    intro dst len r _ h
    simp only [appendAll, Rd.ok.injEq] at h
    subst h; exact ⟨rfl, rfl⟩
  | cons s rest ih =>
    intro dst len r hmax h
    obtain ⟨src, srcLen⟩ := s
    rw [appendAll] at h
    cases h1 : appendBundle dst src maxLen len srcLen with
    | oob => rw [h1] at h; cases h
    | hang => rw [h1] at h; cases h
    | ok r1 =>
      simp only [h1] at h
      have s1 := appendBundle_safe dst src maxLen len srcLen r1 hmax h1
      cases h2 : appendAll r1.buf maxLen r1.ret rest with
      | oob => simp only [h2] at h; cases h
      | hang => simp only [h2] at h; cases h
      | ok r2 =>
        simp only [h2] at h
        have s2 := ih r1.buf r1.ret r2 (by rw [s1.2]; exact hmax) h2
        simp only [Rd.ok.injEq] at h
        subst h
        exact ⟨by simp [s1.1, s2.1], by rw [s2.2, s1.2]⟩

end Rtosc.Osc
