/-
  C19 — the default mapping of a logarithmic-scale parameter over the real numbers, with
  Mathlib's `Real.log` and `Real.exp`: the statement's "maps slot values 0..1 onto min..max"
  for a log-scale port, in the arithmetic the property is phrased in.  `realArith` performs
  every operation of the code exactly (no float rounding); `roundf` rounds halves away from
  zero and `(int)` truncates, as in `exact`.
-/
import Mathlib.Analysis.SpecialFunctions.Log.Basic
import RtoscModel.Proofs.AutoExtLog
namespace Rtosc.Auto
open Rtosc

/-- exact real arithmetic with the real logarithm and exponential -/
noncomputable def realArith : Arith ℝ :=
  { le := fun x y => decide (x ≤ y)
    zero := 0, one := 1, half := 1/2, two := 2, hundred := 100
    ofInt := fun n => (n : ℝ)
    add32 := (· + ·), sub32 := (· - ·), mul32 := (· * ·)
    add64 := (· + ·), sub64 := (· - ·), mul64 := (· * ·), div64 := (· / ·)
    to32 := id
    roundf := fun x => if x < 0 then -((⌊-x + 1/2⌋ : ℤ) : ℝ) else ((⌊x + 1/2⌋ : ℤ) : ℝ)
    toInt := fun x => if x < 0 then -⌊-x⌋ else ⌊x⌋
    logf := Real.log
    expf := Real.exp }

/-- the message the logarithmic map prescribes over the reals at slot value `x` for a
    parameter of type `ty` bound under `path` with declared range `lo..hi`: the value
    `exp(log lo + x·(log hi − log lo))`, rounded to the nearest integer (halves away from zero)
    for an integer parameter -/
noncomputable def logMsgReal (path : Bytes) (ty : Char) (lo hi x : ℝ) : Msg ℝ :=
  let a := Real.log lo + x * (Real.log hi - Real.log lo)
  if ty = 'i' then
    { addr := path, ty := 'i', val := .int (realArith.toInt (realArith.roundf (Real.exp a))), expArg := some a }
  else { addr := path, ty := 'f', val := .flt (Real.exp a), expArg := some a }

theorem logMsgK_real (path : Bytes) (ty : Char) (lo hi x : ℝ) :
    logMsgK realArith path ty lo hi x = logMsgReal path ty lo hi x := rfl

theorem realArith_isExact : IsExact realArith := by
  constructor <;> intros <;> simp [realArith]

theorem realLog_mono_pos : ∀ a b : ℝ, 0 < a → a ≤ b → realArith.logf a ≤ realArith.logf b :=
  fun _ _ ha hab => Real.log_le_log ha hab

/-- the logarithmic interpolation stays between the bounds: for `0 < lo ≤ hi` and `x ∈ [0,1]`,
    `lo ≤ exp(log lo + x(log hi − log lo)) ≤ hi` -/
theorem logInterp_range (lo hi x : ℝ) (hpos : 0 < lo) (hle : lo ≤ hi) (hx0 : 0 ≤ x) (hx1 : x ≤ 1) :
    lo ≤ Real.exp (Real.log lo + x * (Real.log hi - Real.log lo)) ∧
    Real.exp (Real.log lo + x * (Real.log hi - Real.log lo)) ≤ hi := by
  have hl : Real.log lo ≤ Real.log hi := Real.log_le_log hpos hle
  have hd : 0 ≤ Real.log hi - Real.log lo := by linarith
  constructor
  · calc lo = Real.exp (Real.log lo) := (Real.exp_log hpos).symm
      _ ≤ _ := Real.exp_le_exp.mpr (by nlinarith)
  · calc _ ≤ Real.exp (Real.log hi) := Real.exp_le_exp.mpr (by nlinarith)
      _ = hi := Real.exp_log (lt_of_lt_of_le hpos hle)

/-- the interpolation hits the bounds at 0 and 1 -/
theorem logInterp_ends (lo hi : ℝ) (hpos : 0 < lo) (hle : lo ≤ hi) :
    Real.exp (Real.log lo + 0 * (Real.log hi - Real.log lo)) = lo ∧
    Real.exp (Real.log lo + 1 * (Real.log hi - Real.log lo)) = hi := by
  constructor
  · rw [zero_mul, add_zero, Real.exp_log hpos]
  · rw [one_mul, add_sub_cancel, Real.exp_log (lt_of_lt_of_le hpos hle)]

end Rtosc.Auto
