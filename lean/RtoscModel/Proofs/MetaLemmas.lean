/-
  Helper lemmas for C17 (metadata reader).  Property theorems are in Props/C17.lean.
-/
import RtoscModel.Meta
namespace Rtosc.Meta
open Rtosc

theorem NoNul.tail {c : UInt8} {k : Bytes} (h : NoNul (c :: k)) : NoNul k :=
  fun x hx => h x (List.mem_cons_of_mem _ hx)

theorem NoNul.head {c : UInt8} {k : Bytes} (h : NoNul (c :: k)) : c ≠ 0 :=
  h c (List.mem_cons_self)

theorem toNul_append (k r : Bytes) (h : NoNul k) : toNul (k ++ 0 :: r) = some (0 :: r) := by
  induction k with
  | nil => simp [toNul]
  | cons c k ih =>
    have hc : c ≠ 0 := h.head
    simp [toNul, hc, ih h.tail]

theorem cstr_append (k r : Bytes) (h : NoNul k) : cstr (k ++ 0 :: r) = some k := by
  induction k with
  | nil => simp [cstr]
  | cons c k ih =>
    have hc : c ≠ 0 := h.head
    simp [cstr, hc, ih h.tail]

theorem scanNext_run (prev : UInt8) (k r : Bytes) (hp : prev ≠ 0) (h : NoNul k) :
    scanNext prev (k ++ 0 :: r) = scanNext 0 r := by
  induction k generalizing prev with
  | nil => simp [scanNext, hp]
  | cons c k ih =>
    have hc : c ≠ 0 := h.head
    simp only [List.cons_append, scanNext, hp, ne_eq, not_false_eq_true, true_or, ↓reduceIte]
    exact ih c hc h.tail

theorem lenScan_run (prev : UInt8) (k r : Bytes) (hp : prev ≠ 0) (h : NoNul k) :
    lenScan prev (k ++ 0 :: r) = (lenScan 0 r).map (· + (k.length + 1)) := by
  induction k generalizing prev with
  | nil =>
    simp only [List.nil_append, lenScan, hp, ne_eq, not_false_eq_true, true_or, ↓reduceIte,
      List.length_nil, Nat.zero_add]
  | cons c k ih =>
    have hc : c ≠ 0 := h.head
    simp only [List.cons_append, lenScan, hp, ne_eq, not_false_eq_true, true_or, ↓reduceIte,
      List.length_cons]
    rw [ih c hc h.tail]
    cases lenScan 0 r <;> simp <;> omega

/-- What follows an entry's key NUL, given the remainder `R` of the block. -/
def tl (e : Bytes × Option Bytes) (R : Bytes) : Bytes :=
  match e.2 with
  | none => R
  | some v => 61 :: (v ++ 0 :: R)

/-- An entry without its leading ':' followed by the remainder `R`. -/
def ent (e : Bytes × Option Bytes) (R : Bytes) : Bytes := e.1 ++ 0 :: tl e R

/-- The rest of a block after some entries: remaining entries and the final NUL. -/
def rest : List (Bytes × Option Bytes) → Bytes
  | [] => [0]
  | e :: es => 58 :: ent e (rest es)

theorem serialize_eq (es : List (Bytes × Option Bytes)) : serialize es = rest es := by
  induction es with
  | nil => rfl
  | cons e es ih =>
    simp only [serialize] at ih
    simp only [serialize, List.map_cons, List.flatten_cons, List.append_assoc, ih, rest, ent, tl,
      serEntry]
    cases e.2 <;> simp

/-- The first byte of `rest es` is NUL or ':' — never '='. -/
theorem rest_head (es : List (Bytes × Option Bytes)) :
    ∃ d r, rest es = d :: r ∧ (d = 0 ∨ d = 58) := by
  cases es with
  | nil => exact ⟨0, [], rfl, Or.inl rfl⟩
  | cons e es => exact ⟨58, _, rfl, Or.inr rfl⟩

/-- pointer to the value of entry `e` when the block continues with `R` -/
def valuePtr (e : Bytes × Option Bytes) (R : Bytes) : Ptr :=
  match e.2 with
  | none => none
  | some v => some (v ++ 0 :: R)

theorem key_cons {e : Bytes × Option Bytes} (hwf : EntryWF e) :
    ∃ c k, e.1 = c :: k ∧ c ≠ 0 ∧ c ≠ 58 ∧ NoNul k := by
  obtain ⟨hk, ⟨c, k, hek, hc58⟩, _⟩ := hwf
  have hk' : NoNul (c :: k) := hek ▸ hk
  exact ⟨c, k, hek, hk'.head, hc58, hk'.tail⟩

theorem advance_ent (e : Bytes × Option Bytes) (es) (hwf : EntryWF e) :
    advance (some (ent e (rest es))) = some (valuePtr e (rest es)) := by
  obtain ⟨c, k, hek, hc, _, hkk⟩ := key_cons hwf
  obtain ⟨d, r, hr, hd⟩ := rest_head es
  have hk : NoNul e.1 := hwf.1
  unfold ent
  rw [hek]; simp only [List.cons_append, advance, hc, ↓reduceIte]
  rw [← List.cons_append, ← hek, toNul_append _ _ hk]
  unfold tl valuePtr
  cases h2 : e.2 with
  | none => simp only [hr]; rcases hd with rfl | rfl <;> simp
  | some v => simp

theorem deref_ent (e : Bytes × Option Bytes) (R : Bytes) (hwf : EntryWF e) :
    (Iter.mk (some (ent e R)) (valuePtr e R)).deref = some (e.1, e.2) := by
  obtain ⟨hk, _, hv⟩ := hwf
  unfold Iter.deref ent valuePtr
  simp only [cstr_append _ _ hk]
  cases h2 : e.2 with
  | none => simp
  | some v => simp [cstr_append _ _ (hv v h2)]

theorem scanNext_stop (es : List (Bytes × Option Bytes)) :
    scanNext 0 (rest es) = some (rest es) := by
  obtain ⟨d, r, hr, hd⟩ := rest_head es
  rw [hr]; rcases hd with rfl | rfl <;> simp [scanNext]

theorem scanNext_ent (e : Bytes × Option Bytes) (es) (hwf : EntryWF e) :
    scanNext 0 (ent e (rest es)) = some (rest es) := by
  obtain ⟨c, k, hek, hc, hc58, hkk⟩ := key_cons hwf
  unfold ent
  rw [hek]
  simp only [List.cons_append, scanNext, hc, hc58, ne_eq, not_false_eq_true, and_self, or_true,
    ↓reduceIte]
  rw [scanNext_run c k _ hc hkk]
  unfold tl
  cases h2 : e.2 with
  | none => exact scanNext_stop es
  | some v =>
    simp only [scanNext]
    have : ((0:UInt8) ≠ 0 ∨ (61:UInt8) ≠ 0 ∧ (61:UInt8) ≠ 58) := Or.inr (by decide)
    simp only [this, ↓reduceIte]
    rw [scanNext_run 61 v _ (by decide) (hwf.2.2 v h2)]
    exact scanNext_stop es

/-- The iterator standing on entry `e` with `es` still to come. -/
def iterAt (e : Bytes × Option Bytes) (es : List (Bytes × Option Bytes)) : Iter :=
  ⟨some (ent e (rest es)), valuePtr e (rest es)⟩

theorem mk'_ent (e : Bytes × Option Bytes) (es) (hwf : EntryWF e) :
    Iter.mk' (some (ent e (rest es))) = some (iterAt e es) := by
  simp [Iter.mk', advance_ent e es hwf, iterAt]

/-- `operator++` on entry `e`: moves to the next entry, or to the end iterator. -/
theorem next_iterAt (e : Bytes × Option Bytes) (es) (hwf : EntryWF e)
    (hes : ∀ x ∈ es, EntryWF x) :
    (iterAt e es).next =
      match es with
      | [] => some ⟨none, none⟩
      | e' :: es' => some (iterAt e' es') := by
  obtain ⟨c, k, hek, hc, _, _⟩ := key_cons hwf
  have hsc := scanNext_ent e es hwf
  unfold Iter.next iterAt
  have hshape : ent e (rest es) = c :: (k ++ 0 :: tl e (rest es)) := by simp [ent, hek]
  simp only [hshape, hc, ↓reduceIte]
  rw [← hshape, hsc]
  cases es with
  | nil => simp [rest, Iter.mk', advance]
  | cons e' es' =>
    simp only [rest]
    simp only [show ((58:UInt8) = 0) = False by decide, ↓reduceIte]
    exact mk'_ent e' es' (hes e' (List.mem_cons_self))

theorem iterate_iterAt (fuel : Nat) (e : Bytes × Option Bytes) (es) (hwf : EntryWF e)
    (hes : ∀ x ∈ es, EntryWF x)
    (hf : es.length + 2 ≤ fuel) : iterate fuel (iterAt e es) = some (e :: es) := by
  induction es generalizing e fuel with
  | nil =>
    match fuel, hf with
    | f + 2, _ =>
      have hd := deref_ent e (rest []) hwf
      have hn := next_iterAt e [] hwf hes
      simp only [iterAt] at hn
      simp [iterate, iterAt, hd, hn]
  | cons e' es' ih =>
    match fuel, hf with
    | f + 1, hf =>
      have hd := deref_ent e (rest (e' :: es')) hwf
      have hn := next_iterAt e (e' :: es') hwf hes
      have hwf' := hes e' (List.mem_cons_self)
      have hes' : ∀ x ∈ es', EntryWF x := fun x hx => hes x (List.mem_cons_of_mem _ hx)
      have := ih f e' hwf' hes' (by simp at hf ⊢; omega)
      simp only [iterAt] at hn this
      simp [iterate, iterAt, hd, hn, this]

theorem lookupFuel_iterAt (fuel : Nat) (e : Bytes × Option Bytes) (es) (key : Bytes)
    (hwf : EntryWF e)
    (hes : ∀ x ∈ es, EntryWF x) (hf : es.length + 2 ≤ fuel) :
    lookupFuel fuel (iterAt e es) key =
      some (match (e :: es).find? (fun x => x.1 = key) with
            | none => none
            | some x => x.2) := by
  induction es generalizing e fuel with
  | nil =>
    match fuel, hf with
    | f + 2, _ =>
      have hd := deref_ent e (rest []) hwf
      have hn := next_iterAt e [] hwf hes
      simp only [iterAt] at hn
      by_cases hk : e.1 = key <;> simp [lookupFuel, iterAt, hd, hn, hk]
  | cons e' es' ih =>
    match fuel, hf with
    | f + 1, hf =>
      have hd := deref_ent e (rest (e' :: es')) hwf
      have hn := next_iterAt e (e' :: es') hwf hes
      have hwf' := hes e' (List.mem_cons_self)
      have hes' : ∀ x ∈ es', EntryWF x := fun x hx => hes x (List.mem_cons_of_mem _ hx)
      have := ih f e' hwf' hes' (by simp at hf ⊢; omega)
      simp only [iterAt] at hn this
      by_cases hk : e.1 = key
      · simp [lookupFuel, iterAt, hd, hk]
      · simp [lookupFuel, iterAt, hd, hn, hk, this]

theorem findFuel_iterAt (fuel : Nat) (e : Bytes × Option Bytes) (es) (key : Bytes)
    (hwf : EntryWF e)
    (hes : ∀ x ∈ es, EntryWF x) (hf : es.length + 2 ≤ fuel) :
    findFuel fuel (iterAt e es) key = some ((e :: es).any (fun x => x.1 = key)) := by
  induction es generalizing e fuel with
  | nil =>
    match fuel, hf with
    | f + 2, _ =>
      have hd := deref_ent e (rest []) hwf
      have hn := next_iterAt e [] hwf hes
      simp only [iterAt] at hn
      by_cases hk : e.1 = key <;> simp [findFuel, iterAt, hd, hn, hk]
  | cons e' es' ih =>
    match fuel, hf with
    | f + 1, hf =>
      have hd := deref_ent e (rest (e' :: es')) hwf
      have hn := next_iterAt e (e' :: es') hwf hes
      have hwf' := hes e' (List.mem_cons_self)
      have hes' : ∀ x ∈ es', EntryWF x := fun x hx => hes x (List.mem_cons_of_mem _ hx)
      have := ih f e' hwf' hes' (by simp at hf ⊢; omega)
      simp only [iterAt] at hn this
      by_cases hk : e.1 = key
      · simp [findFuel, iterAt, hd, hk]
      · simp [findFuel, iterAt, hd, hn, hk, this]

theorem rest_length (es : List (Bytes × Option Bytes)) : es.length + 1 ≤ (rest es).length := by
  induction es with
  | nil => simp [rest]
  | cons e es ih =>
    have : (rest es).length ≤ (tl e (rest es)).length := by
      unfold tl; cases e.2 <;> simp <;> omega
    simp only [rest, ent, List.length_cons, List.length_append]; omega

/-- `lenScan` from inside an entry (previous byte non-NUL) up to the block's end. -/
theorem lenScan_ent (prev : UInt8) (hp : prev ≠ 0) (e : Bytes × Option Bytes) (R : Bytes)
    (hwf : EntryWF e) :
    lenScan prev (ent e R) = (lenScan 0 R).map (· + ((ent e R).length - R.length)) := by
  unfold ent
  rw [lenScan_run prev e.1 _ hp hwf.1]
  unfold tl
  cases h2 : e.2 with
  | none =>
    cases lenScan 0 R <;> simp <;> omega
  | some v =>
    simp only [lenScan]
    have : ((0:UInt8) ≠ 0 ∨ (61:UInt8) ≠ 0) := Or.inr (by decide)
    simp only [this, ↓reduceIte]
    rw [lenScan_run 61 v _ (by decide) (hwf.2.2 v h2)]
    cases lenScan 0 R <;> simp <;> omega

/-- From the ':' of an entry (previous byte NUL) `lenScan` counts up to the block's
    final NUL, i.e. `|rest es| - 1` bytes. -/
theorem lenScan_rest (es : List (Bytes × Option Bytes)) (hes : ∀ x ∈ es, EntryWF x) :
    lenScan 0 (rest es) = some ((rest es).length - 1) := by
  induction es with
  | nil => simp [rest, lenScan]
  | cons e es ih =>
    have hwf := hes e (List.mem_cons_self)
    have hes' : ∀ x ∈ es, EntryWF x := fun x hx => hes x (List.mem_cons_of_mem _ hx)
    simp only [rest, lenScan]
    have : ((0:UInt8) ≠ 0 ∨ (58:UInt8) ≠ 0) := Or.inr (by decide)
    simp only [this, ↓reduceIte]
    rw [lenScan_ent 58 (by decide) e _ hwf, ih hes']
    have h1 := rest_length es
    have h2 : (rest es).length ≤ (ent e (rest es)).length := by
      simp only [ent, tl]; cases e.2 <;> simp <;> omega
    simp only [Option.map_some, List.length_cons]
    congr 1; omega

/-- `lenScan` started on the first key byte (after `Port::meta()` stripped the ':'). -/
theorem lenScan_first (e : Bytes × Option Bytes) (es) (hwf : EntryWF e)
    (hes : ∀ x ∈ es, EntryWF x) :
    lenScan 0 (ent e (rest es)) = some ((ent e (rest es)).length - 1) := by
  obtain ⟨c, k, hek, hc, _, _⟩ := key_cons hwf
  have h := lenScan_ent 58 (by decide) e (rest es) hwf
  have hshape : ent e (rest es) = c :: (k ++ 0 :: tl e (rest es)) := by simp [ent, hek]
  rw [lenScan_rest es hes] at h
  have h1 := rest_length es
  have h2 : (rest es).length ≤ (ent e (rest es)).length := by
    simp only [ent, tl]; cases e.2 <;> simp <;> omega
  have hE : lenScan 0 (ent e (rest es)) = lenScan 58 (ent e (rest es)) := by
    rw [hshape]; simp [lenScan, hc]
  rw [hE, h]; simp only [Option.map_some]; congr 1; omega

end Rtosc.Meta
