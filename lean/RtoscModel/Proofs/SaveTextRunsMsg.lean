/-
  C12, text level — a message *inside a file* whose single argument is an array with compressed
  runs (`[5x7 1 ... 6 9]`).  The cells the readers return (`arrHdrS body :: scannedAll none body`:
  repetition and range blocks) differ from the cells the printer was given
  (`arrHdr body :: cellsAll body`), so `MsgText` (one cell list for both sides) is replaced by the
  conclusion both kinds of message share: `ScansAs addr cells text`.

  C10's cell-level results are used as they are: `printLoop_asegs` (the printer on a list of
  pieces), `scanArgVal_arrSegs` / `skipNext_arrSegs` (scanner / checker on `[` body `]` followed
  by any separator `Sep rest`); only the two top-level loops are re-run here with the tail of a
  message (`MsgTail`), as in Proofs/SaveTextMsg.lean.
-/
import RtoscModel.Proofs.SaveTextMsg
import RtoscModel.Proofs.PrettyRunsArrMsg
set_option linter.unusedSimpArgs false
set_option linter.unusedVariables false
namespace Rtosc.Save.Text
open Rtosc Rtosc.Libc Rtosc.Pretty
open Rtosc.ArgVal (Cell)

/-- **what the readers make of the text of one message standing in a file**: preceded by white
    space `lead`, followed by `tl` (nothing, or the newline and the '/' of the next address), the
    checker counts `cells.length` argument values and the scanner returns the address and `cells`,
    consuming the white space in front, the text and the newline behind it. -/
def ScansAs (addr : Bytes) (cells : List Cell) (text : Bytes) : Prop :=
  hd text = 47 ∧
  ∀ (lead : Bytes), (∀ c ∈ lead, isspace c = true) → ∀ (tl : Bytes), MsgTail tl →
    ∀ (adrsize : Nat), lead.length + addr.length < adrsize →
      countPrintedArgValsOfMsg (lead ++ (text ++ tl)) = .ok (cells.length : Int) ∧
      scanMessage (lead ++ (text ++ tl)) adrsize cells.length =
        .ok (lead.length + text.length + wsLen tl, addr, cells)

theorem MsgText.scansAs {addr : Bytes} {argss : List (List Cell)} {text : Bytes} (h : MsgText addr argss text) :
    ScansAs addr argss.flatten text :=
  ⟨h.hd_eq, fun lead hl _ htl adrsize hal => h.scans lead hl htl adrsize hal⟩

/-! ### one argument followed by the tail of a message -/

/-- the scanner's loop on a single argument text followed by the tail of a message -/
theorem scanArgVals_one_tail (T : Bytes) (cells : List Cell) (hT : TokStart T) {tl : Bytes} (htl : MsgTail tl)
    (hpos : 0 < cells.length) (b : Bool)
    (hscan : scanArgVal ((T ++ tl).length + 2) (T ++ tl) [] 0 true = .ok (T.length, cells))
    (hcpr : canPrecedeRange cells = .ok b)
    (hnao : nextArgOffset (cells.length + 1) cells = .ok cells.length) :
    scanArgVals (T ++ tl) cells.length = .ok (T.length + wsLen tl, cells) := by
  unfold scanArgVals
  have hsk : skipSpaceComments ((T ++ tl).length + 1) (T ++ tl) = .ok 0 :=
    skipSpaceComments_tokStart _ _ (tokStart_append tl hT)
  have hadv : advance (T ++ tl) T.length = .ok tl := by simp [advance]
  obtain ⟨k, hk⟩ : ∃ k, cells.length = k + 1 := ⟨cells.length - 1, by omega⟩
  simp only [hsk, bind, Except.bind, List.drop_zero]
  rw [scanArgValsLoop]
  simp only [hpos, ↓reduceIte, List.reverse_nil, hscan, bind, Except.bind, hcpr, hadv, hnao, ne_eq, not_true_eq_false,
    skipSpaceComments_msgTail _ htl]
  rw [hk, scanArgValsLoop]
  simp [pure, Except.pure]

/-- the checker's loop on a single argument text followed by the tail of a message -/
theorem countLoop_one_tail (T : Bytes) (hT : TokStart T) {tl : Bytes} (htl : MsgTail tl) (f : Nat)
    (recent : Option Bytes) (num k : Int) (ty : UInt8)
    (hskip : skipNextPrintedArg ((T ++ tl).length + 2) (T ++ tl) 0 recent true false = .ok ⟨some tl, k, ty⟩) :
    countLoop (f + 2) (some (T ++ tl)) recent num = .ok (num + k) := by
  have hskip := skipNextPrintedArg_checkFuel hskip
  obtain ⟨hne0, _, h0, _, _, _, h47, _⟩ := hT
  have hhd : hd (T ++ tl) = hd T := hd_append_of_ne_nil _ _ hne0
  have hpos : 0 < T.length := List.length_pos_iff.mpr hne0
  have hle := htl.wsLen_le
  have h37 : hd (tl.drop (wsLen tl)) ≠ 37 := by
    rcases htl.hd_drop with h | h <;> rw [h] <;> decide
  have hcl : skipCommentLines ((tl.drop (wsLen tl)).length + 1) (tl.drop (wsLen tl)) = .ok (tl.drop (wsLen tl)) :=
    skipCommentLines_none _ _ h37
  have hlen : ¬ ((tl.drop (wsLen tl)).length ≥ (T ++ tl).length) := by
    simp only [List.length_drop, List.length_append]; omega
  rw [countLoop]
  simp only [hhd, h0, h47, ne_eq, not_false_eq_true, and_self, ↓reduceIte, hskip, bind, Except.bind,
    htl.skipSpace_eq]
  rcases htl.hd_drop with h | h
  · simp only [h, not_true_eq_false, ↓reduceIte, pure, Except.pure]
    simp only [ge_iff_le] at hlen
    simp only [ge_iff_le, hlen, ↓reduceIte]
    rw [countLoop]
    simp [h]
  · have h0x : ¬ (hd (tl.drop (wsLen tl)) = 0) := by rw [h]; decide
    simp only [h0x, not_false_eq_true, ↓reduceIte, hcl, pure, Except.pure]
    simp only [ge_iff_le] at hlen
    simp only [ge_iff_le, hlen, ↓reduceIte]
    rw [countLoop]
    simp [h]

/-- **a message with one argument inside a file**, given what scanner and checker do with the
    argument text in front of the tail of a message -/
theorem oneArg_scansAs {addr : Bytes} (ha : AddrOK addr) {sep : Bytes} (hsep : IsSepTxt sep) {cells : List Cell}
    {T : Bytes} (hT : TokStart T) (hpos : 0 < cells.length) (b : Bool) (hcpr : canPrecedeRange cells = .ok b)
    (hnao : nextArgOffset (cells.length + 1) cells = .ok cells.length)
    (hscan : ∀ tl, MsgTail tl → scanArgVal ((T ++ tl).length + 2) (T ++ tl) [] 0 true = .ok (T.length, cells))
    (hskip : ∀ tl, MsgTail tl → ∃ ty, skipNextPrintedArg ((T ++ tl).length + 2) (T ++ tl) 0 none true false =
      .ok ⟨some tl, (cells.length : Int), ty⟩) :
    ScansAs addr cells (addr ++ (sep ++ T)) := by
  obtain ⟨ha47, hasp⟩ := ha
  have hane : addr ≠ [] := by intro e; rw [e] at ha47; simp at ha47
  refine ⟨by rw [hd_append_of_ne_nil _ _ hane]; exact ha47, ?_⟩
  intro lead hl tl htl adrsize hal
  have hsepsp : isspace (hd sep) = true := by rcases hsep with rfl | rfl <;> rfl
  have hsepne : sep ≠ [] := by rcases hsep with rfl | rfl <;> simp
  have hassoc : addr ++ (sep ++ T) ++ tl = addr ++ (sep ++ (T ++ tl)) := by simp
  have hstart := tokStart_append tl hT
  have hrest : sep ++ (T ++ tl) = [] ∨ isspace (hd (sep ++ (T ++ tl))) = true := by
    right; rw [hd_append_of_ne_nil _ _ hsepne]; exact hsepsp
  have hskipS : skipSpace (sep ++ (T ++ tl)) = T ++ tl := skipSpace_sep sep _ hsep hstart
  have hhd : hd (addr ++ (sep ++ (T ++ tl))) = 47 := by rw [hd_append_of_ne_nil _ _ hane]; exact ha47
  have hlead : skipSpace (lead ++ (addr ++ (sep ++ (T ++ tl)))) = addr ++ (sep ++ (T ++ tl)) := by
    apply skipSpace_lead _ _ hl
    right; rw [hhd]; decide
  have h37 : hd (T ++ tl) ≠ 37 := hstart.2.2.2.2.2.1
  have hTpos : 0 < T.length := List.length_pos_iff.mpr hT.1
  rw [hassoc]
  constructor
  · unfold countPrintedArgValsOfMsg
    simp only [hlead, bind, Except.bind, skipCommentLines_none _ _ (by rw [hhd]; decide), hhd, ↓reduceIte,
      dropWhile_notspace addr (sep ++ (T ++ tl)) hasp hrest]
    unfold countPrintedArgVals
    rw [hskipS]
    simp only [skipCommentLines_none _ _ h37, bind, Except.bind]
    obtain ⟨ty, hsk⟩ := hskip tl htl
    obtain ⟨g, hg⟩ : ∃ g, (T ++ tl).length + 1 = g + 2 := ⟨(T ++ tl).length - 1, by
      simp only [List.length_append]; omega⟩
    rw [hg, countLoop_one_tail T hT htl g none 0 _ ty hsk]
    simp
  · unfold scanMessage
    simp only [hlead, hhd, show (47 : UInt8) ≠ 37 from by decide, ↓reduceIte, pure, Except.pure,
      bind, Except.bind, List.drop_zero, Nat.add_zero,
      takeWhile_notspace addr (sep ++ (T ++ tl)) hasp hrest]
    have hl1 : (lead ++ (addr ++ (sep ++ (T ++ tl)))).length - (addr ++ (sep ++ (T ++ tl))).length = lead.length := by
      simp only [List.length_append]; omega
    have htake : addr.take (adrsize - lead.length) = addr := List.take_of_length_le (by omega)
    simp only [hl1, htake, List.drop_left, hskipS]
    have := scanArgVals_one_tail T cells hT htl hpos b (hscan tl htl) hcpr hnao
    simp only [this]
    congr 2
    simp only [List.length_append]
    omega

/-! ### the array with runs as the argument of a message -/

/-- **an array line inside a file**: `addr`, a separator, `[` body `]` where the body is a text of
    segments (values, `nxT`, `a ... z`): the readers return the array block
    `arrHdrS body :: scannedAll none body` -/
theorem arrSegs_scansAs {addr : Bytes} (ha : AddrOK addr) {sep : Bytes} (hsep : IsSepTxt sep) {body : List RSeg}
    {B : Bytes} (hB : SegsText none body B) (hty : ArrTypesOK body) :
    ScansAs addr (arrHdrS body :: scannedAll none body) (addr ++ (sep ++ 91 :: (B ++ [93]))) := by
  have hT : TokStart (91 :: (B ++ [93])) := (ASegText.arr (pL := none) body B hB hty).start
  refine oneArg_scansAs ha hsep hT (by simp) false ?_ ?_ ?_ ?_
  · simp [arrHdrS, canPrecedeRange, Pretty.deref, bind, Except.bind, pure, Except.pure]
  · simpa [arrHdrS] using nextArgOffset_arrBlock (lastTyS body 32) (scannedAll none body)
  · intro tl htl
    have htxt : (91 :: (B ++ [93])) ++ tl = 91 :: (B ++ 93 :: tl) := by simp
    have hlen : (91 :: (B ++ [93]) ++ tl).length + 2 = ((91 :: (B ++ [93]) ++ tl).length - 1) + 3 := by
      simp only [List.length_cons, List.length_append]; omega
    obtain ⟨hscan, _⟩ := scanArgVal_arrSegs ((91 :: (B ++ [93]) ++ tl).length - 1) hB tl htl.sep [] 0
    rw [← htxt, ← hlen] at hscan
    exact hscan
  · intro tl htl
    have htxt : (91 :: (B ++ [93])) ++ tl = 91 :: (B ++ 93 :: tl) := by simp
    have hlen : (91 :: (B ++ [93]) ++ tl).length - 2 + 4 = (91 :: (B ++ [93]) ++ tl).length + 2 := by
      simp only [List.length_cons, List.length_append]; omega
    have hskip := skipNext_arrSegs ((91 :: (B ++ [93]) ++ tl).length - 2) hB hty tl htl.sep 0 none true false
    rw [← htxt, hlen] at hskip
    refine ⟨97, ?_⟩
    rw [hskip]
    congr 2
    simp only [List.length_cons, Int.natCast_add, Int.natCast_one]
    omega

/-- **the printer on an array line**: address, separator, `[` body `]` -/
theorem printMessage_arrSegs (opt : POpt) (hc : opt.compress = true) (addr : Bytes) (ha : AddrOK addr)
    {body : List RSeg} (hseg : Segmented opt body) (hty : ArrTypesOK body) :
    ∃ (st : PSt) (ret : Nat) (sep B : Bytes),
      printMessage opt addr (arrHdr body :: cellsAll body) 0 = .ok (st, ret) ∧
      st.out = addr ++ (sep ++ 91 :: (B ++ [93])) ∧ IsSepTxt sep ∧ SegsText none body B := by
  have hA : ASegmented opt [ASeg.arr body] := by
    refine .arr body [] hseg hty ?_ .nil
    have := convertToRange_arr_next opt (lastTyS body 32) (cellsAll body) [] ((cellsAll body).length + 1 + 0)
      (Or.inr (by omega))
    simpa [arrHdr, cellsAllA] using this
  have hcells : cellsAllA [ASeg.arr body] = arrHdr body :: cellsAll body := by
    simp [cellsAllA, ASeg.cells]
  obtain ⟨st', pre, bodyT, hrun, hout, htt, hpre⟩ :=
    printLoop_asegs opt hc hA (cellsAllA [ASeg.arr body]) [] (by simp) ((cellsAllA [ASeg.arr body]).length + 1)
      ⟨addr ++ [32], 0 + ((addr ++ [32]).length : Nat)⟩ 0
      (((addr ++ [32]).length : Int) - 1) (if (0 + ((addr ++ [32]).length : Nat) : Int) ≠ 0 then 1 else 0)
      (by rw [hcells]; simp)
      (Or.inr ⟨addr, rfl, by simp⟩)
  simp only [List.length_nil, List.getLast?_nil] at hrun htt
  obtain ⟨sep, hsep, hpre'⟩ : ∃ sep, IsSepTxt sep ∧ pre = addr ++ sep := by
    rcases hpre with h | ⟨base, h1, h2⟩
    · exact ⟨[32], Or.inl rfl, h⟩
    · have : base = addr := (List.append_inj_left' h1 rfl).symm
      exact ⟨nl4, Or.inr rfl, by rw [h2, this]⟩
  -- the text of the single piece
  obtain ⟨B, hBT, hB⟩ : ∃ B, bodyT = 91 :: (B ++ [93]) ∧ SegsText none body B := by
    cases htt with
    | cons L x xs T sp text hT hrest h1 h2 =>
      cases hrest
      have := h1 rfl
      subst this
      cases hT with
      | arr _ B hB _ => exact ⟨B, by simp, hB⟩
  refine ⟨st', (addr ++ [32]).length + (0 + ((pre ++ bodyT).length - (addr ++ [32]).length)), sep, B, ?_, ?_, hsep, hB⟩
  · unfold printMessage printArgVals
    rw [hcells] at hrun
    simp only [bind, Except.bind, hrun, pure, Except.pure]
  · rw [hout, hpre', hBT, List.append_assoc]

end Rtosc.Save.Text
