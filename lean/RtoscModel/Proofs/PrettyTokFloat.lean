/-
  C10 — tokens of the floating-point types in lossless mode:
  `<%#.Nf text> (<%a text>)` of a `float` ('f'), `<%#.Nlf text>d (<%la text>)` of a `double` ('d').
  The decimal text only selects the type; the hexadecimal text in parentheses carries the value.
-/
import RtoscModel.Proofs.PrettyTokNum
import RtoscModel.Proofs.PrettyLibcFloat
namespace Rtosc.Pretty
open Rtosc Rtosc.Libc
open Rtosc.ArgVal (Cell)
set_option linter.unusedSimpArgs false

/-! ### the numeric word -/

theorem numWordLen_stop (c : UInt8) (r : Bytes) (h : isspace c = true ∨ c = 41) : numWordLen (c :: r) = 0 := by
  rcases h with h | h <;> simp [numWordLen, h]

theorem numWordLen_app (t r : Bytes) (ht : ∀ c ∈ t, wordChar c = true) :
    numWordLen (t ++ r) = t.length + numWordLen r := by
  induction t with
  | nil => simp
  | cons c t ih =>
    have hc := ht c (by simp)
    simp only [wordChar, Bool.and_eq_true, ne_eq, decide_eq_true_eq, Bool.not_eq_eq_eq_not, Bool.not_true] at hc
    obtain ⟨⟨⟨⟨⟨h1, h2⟩, h3⟩, h4⟩, _⟩, h37⟩ := hc
    have := ih (fun x hx => ht x (by simp [hx]))
    have h46 : ¬ (46 = c) := fun h => h4 h.symm
    simp [numWordLen, h1, h2, h3, h37, startsWith, List.isPrefixOf, this, h46]
    omega

theorem numWordLen_dot (r : Bytes) (h : hd r ≠ 46) : numWordLen (46 :: r) = numWordLen r + 1 := by
  have hsp : isspace 46 = false := by decide
  cases r with
  | nil => simp [numWordLen, hsp, startsWith, List.isPrefixOf]
  | cons c t =>
    simp only [hd_cons] at h
    have : ¬ (46 = c) := fun h' => h h'.symm
    simp [numWordLen, hsp, startsWith, List.isPrefixOf, this]

theorem isxdigit_wordChar (c : UInt8) (h : isxdigit c = true) : wordChar c = true := by
  revert h; revert c; apply UInt8.forall_of_fin; decide +kernel

/-! ### sscanf steps with a float directive -/

theorem sscanfGo_flt_some (dbl sup : Bool) (ds : List Dir) (s : Bytes) (k : Nat) (acc : List SVal) (v : Nat) (r : Bytes)
    (h : scanFloat (if dbl then f64 else f32) s = some (v, r)) :
    sscanfGo (.flt dbl sup :: ds) s k acc =
      sscanfGo ds r (k + (s.length - r.length)) (if sup then acc else .flt v :: acc) := by
  simp [sscanfGo, h]

/-- "%f%n" / "%*f%n" / "%lf%n" on a float text -/
theorem sscanf_flt_n (dbl sup : Bool) (t r : Bytes) (v : Nat)
    (h : scanFloat (if dbl then f64 else f32) (t ++ r) = some (v, r)) :
    sscanf [.flt dbl sup, .n] (t ++ r) = (if sup then [] else [.flt v]) ++ [.pos t.length] := by
  unfold sscanf
  rw [sscanfGo_flt_some _ _ _ _ _ _ _ _ h]
  cases sup <;> simp [sscanfGo]

/-- "%*lfd%n" / "%*ff%n": the letter behind the number is missing -/
theorem sscanf_flt_lit_fail (dbl : Bool) (c : UInt8) (t r : Bytes) (v : Nat)
    (h : scanFloat (if dbl then f64 else f32) (t ++ r) = some (v, r)) (hr : hd r ≠ c) :
    sscanf [.flt dbl true, .lit c, .n] (t ++ r) = [] := by
  unfold sscanf
  rw [sscanfGo_flt_some _ _ _ _ _ _ _ _ h, sscanfGo_lit_ne _ _ _ _ _ hr]
  rfl

/-- "%lfd%n" / "%*lfd%n" on a float text with the letter -/
theorem sscanf_flt_lit_n (dbl sup : Bool) (c : UInt8) (t r : Bytes) (v : Nat)
    (h : scanFloat (if dbl then f64 else f32) (t ++ c :: r) = some (v, c :: r)) :
    sscanf [.flt dbl sup, .lit c, .n] (t ++ c :: r) = (if sup then [] else [.flt v]) ++ [.pos (t.length + 1)] := by
  unfold sscanf
  rw [sscanfGo_flt_some _ _ _ _ _ _ _ _ h]
  cases sup <;> simp [sscanfGo]

theorem sscanf_int_lit_fail (conv : IntConv) (c : UInt8) (s r : Bytes) (v : Int)
    (h : scanInt conv none s = some (v, r)) (hr : hd r ≠ c) :
    sscanf [.int conv none true, .lit c, .n] s = [] := by
  unfold sscanf
  rw [sscanfGo_int_some _ _ _ _ _ _ _ _ _ h, sscanfGo_lit_ne _ _ _ _ _ hr]
  rfl

theorem sscanf_int_n (conv : IntConv) (t r : Bytes) (v : Int)
    (h : scanInt conv none (t ++ r) = some (v, r)) :
    sscanf [.int conv none true, .n] (t ++ r) = [.pos t.length] := by
  unfold sscanf
  rw [sscanfGo_int_some _ _ _ _ _ _ _ _ _ h]
  simp [sscanfGo]

/-! ### the decimal text `[-]digits.digits` -/

/-- the digits of a decimal float text: leading digit, more integer digits, fraction digits -/
structure FNum (d : UInt8) (ds fr : Bytes) : Prop where
  hd0 : isdigit d = true
  hds : ∀ c ∈ ds, isdigit c = true
  hnlz : d = 48 → ds = []
  hfr : ∀ c ∈ fr, isdigit c = true

/-- `[-]digits.digits` -/
def fnum (neg : Bool) (d : UInt8) (ds fr : Bytes) : Bytes := decText neg d ds ++ 46 :: fr

theorem numEnd_dot (r : Bytes) : NumEnd (46 :: r) := by
  refine ⟨?_, ?_, ?_, ?_⟩ <;> rw [hd_cons] <;> decide

theorem numEnd_tolower (r : Bytes) (h : NumEnd r) : tolower (hd r) ≠ 120 := by
  obtain ⟨_, _, h3, h4⟩ := h
  revert h3 h4; generalize hd r = c; revert c; apply UInt8.forall_of_fin; decide +kernel

theorem decText_chars (neg : Bool) (d : UInt8) (ds : Bytes) (hd0 : isdigit d = true)
    (hds : ∀ c ∈ ds, isdigit c = true) : ∀ c ∈ decText neg d ds, c = 45 ∨ isdigit c = true := by
  intro c hc
  cases neg <;> simp [decText] at hc
  · rcases hc with rfl | hc; right; exact hd0; right; exact hds c hc
  · rcases hc with rfl | rfl | hc; left; rfl; right; exact hd0; right; exact hds c hc

theorem decText_ne (neg : Bool) (d : UInt8) (ds : Bytes) : decText neg d ds ≠ [] := by
  cases neg <;> simp [decText]

/-- `%d` / `%i` read the integer part -/
theorem intpart_scan (conv : IntConv) (hconv : conv ≠ .x) (neg : Bool) (d : UInt8) (ds fr : Bytes)
    (h : FNum d ds fr) (r : Bytes) (hr : NumEnd r) :
    ∃ v, scanInt conv none (decText neg d ds ++ r) = some (v, r) := by
  by_cases h48 : d = 48
  · have hnil := h.hnlz h48
    subst h48; subst hnil
    cases neg
    · simp only [decText, Bool.false_eq_true, ↓reduceIte, List.nil_append, List.cons_append]
      cases conv with
      | x => exact absurd rfl hconv
      | d => exact ⟨_, scanInt_zero_d r hr.1⟩
      | i => exact ⟨_, scanInt_zero_i r hr⟩
    · simp only [decText, ↓reduceIte, List.cons_append, List.nil_append]
      exact ⟨_, scanInt_negzero conv hconv r hr.1 (numEnd_tolower r hr)⟩
  · exact ⟨_, scanInt_decText conv hconv neg d ds r h.hd0 h48 h.hds hr⟩

theorem isRangeMultiplier_decText (neg : Bool) (d : UInt8) (ds r : Bytes)
    (hds : ∀ c ∈ ds, isdigit c = true) (hr : NumEnd r) : isRangeMultiplier (decText neg d ds ++ r) = false := by
  cases neg
  · simp only [decText, Bool.false_eq_true, ↓reduceIte, List.nil_append, List.cons_append, isRangeMultiplier,
      hd_cons, List.drop_succ_cons, List.drop_zero, skipDigits_digits ds r hds hr.1]
    simp [hr.2.2.1]
  · simp [decText, isRangeMultiplier, isdigit]

theorem space_facts (c : UInt8) (h : isspace c = true) :
    isdigit c = false ∧ tolower c ≠ 101 ∧ c ≠ 46 ∧ c ≠ 100 ∧ c ≠ 102 := by
  revert h; revert c; apply UInt8.forall_of_fin; decide +kernel

theorem hd_digits_append (fr tail : Bytes) (hfr : ∀ c ∈ fr, isdigit c = true) (ht : hd tail ≠ 46) :
    hd (fr ++ tail) ≠ 46 := by
  cases fr with
  | nil => simpa using ht
  | cons c t =>
    have := hfr c (by simp)
    simp only [List.cons_append, hd_cons]
    intro h; subst h; revert this; decide

/-- length of the numeric word that starts with a decimal float text -/
theorem numWordLen_fnum (neg : Bool) (d : UInt8) (ds fr tail : Bytes) (h : FNum d ds fr) (ht : hd tail ≠ 46) :
    numWordLen (fnum neg d ds fr ++ tail) = (fnum neg d ds fr).length + numWordLen tail := by
  unfold fnum
  rw [List.append_assoc, numWordLen_app _ _ (fun c hc =>
    (numStart_facts c (decText_chars neg d ds h.hd0 h.hds c hc)).2.2.2.2.2.2.2.2.2.2.2.1)]
  rw [List.cons_append, numWordLen_dot _ (hd_digits_append fr tail h.hfr ht),
    numWordLen_app _ _ (fun c hc => isdigit_wordChar c (h.hfr c hc))]
  simp; omega

theorem fnum_scanFloat (F : FFmt) (neg : Bool) (d : UInt8) (ds fr tail : Bytes) (h : FNum d ds fr)
    (h1 : isdigit (hd tail) = false) (h2 : tolower (hd tail) ≠ 101) :
    ∃ v, scanFloat F (fnum neg d ds fr ++ tail) = some (v, tail) := by
  obtain ⟨v, hv⟩ := scanFloat_dec F neg d ds fr tail h.hd0 h.hds h.hfr h1 h2
  refine ⟨v, ?_⟩
  rw [← hv]
  simp [fnum, decText]

theorem fnum_eq (neg : Bool) (d : UInt8) (ds fr tail : Bytes) :
    fnum neg d ds fr ++ tail = decText neg d ds ++ 46 :: (fr ++ tail) := by
  simp [fnum]

theorem fnum_length (neg : Bool) (d : UInt8) (ds fr : Bytes) :
    (fnum neg d ds fr).length = (decText neg d ds).length + 1 + fr.length := by
  simp [fnum]; omega

/-- the integer formats do not match a decimal float text -/
theorem fnum_int_tries (neg : Bool) (d : UInt8) (ds fr tail : Bytes) (h : FNum d ds fr) :
    scanRd NumFmt.h.tryDirs (fnum neg d ds fr ++ tail) = 0 ∧
    scanRd NumFmt.d.tryDirs (fnum neg d ds fr ++ tail) = (decText neg d ds).length ∧
    scanRd NumFmt.ii.tryDirs (fnum neg d ds fr ++ tail) = 0 ∧
    scanRd NumFmt.x.tryDirs (fnum neg d ds fr ++ tail) = (decText neg d ds).length := by
  rw [fnum_eq]
  have hne := numEnd_dot (fr ++ tail)
  obtain ⟨vd, hvd⟩ := intpart_scan .d (by decide) neg d ds fr h _ hne
  obtain ⟨vi, hvi⟩ := intpart_scan .i (by decide) neg d ds fr h _ hne
  refine ⟨?_, ?_, ?_, ?_⟩
  · unfold scanRd NumFmt.tryDirs
    rw [sscanf_int_lit_fail .i 104 _ _ vi hvi (by rw [hd_cons]; decide)]
  · unfold scanRd NumFmt.tryDirs
    rw [sscanf_int_n .d _ _ vd hvd]
  · unfold scanRd NumFmt.tryDirs
    rw [sscanf_int_lit_fail .i 105 _ _ vi hvi (by rw [hd_cons]; decide)]
  · unfold scanRd NumFmt.tryDirs
    rw [sscanf_int_n .i _ _ vi hvi]

/-- format selection, decimal text of a float: "%*f%n" -/
theorem scanfFmtstr_fnum_f (neg : Bool) (d : UInt8) (ds fr : Bytes) (c : UInt8) (tl : Bytes) (h : FNum d ds fr)
    (hc : isspace c = true) :
    scanfFmtstr (fnum neg d ds fr ++ c :: tl) = some .f := by
  obtain ⟨s1, s2, s3, s4, s5⟩ := space_facts c hc
  obtain ⟨t1, t2, t3, t4⟩ := fnum_int_tries neg d ds fr (c :: tl) h
  obtain ⟨v64, hv64⟩ := fnum_scanFloat f64 neg d ds fr (c :: tl) h (by simpa using s1) (by simpa using s2)
  obtain ⟨v32, hv32⟩ := fnum_scanFloat f32 neg d ds fr (c :: tl) h (by simpa using s1) (by simpa using s2)
  have hlen : numWordLen (fnum neg d ds fr ++ c :: tl) = (fnum neg d ds fr).length := by
    rw [numWordLen_fnum neg d ds fr _ h (by simpa using s3), numWordLen_stop c tl (Or.inl hc)]; rfl
  have t5 : scanRd NumFmt.lfd.tryDirs (fnum neg d ds fr ++ c :: tl) = 0 := by
    unfold scanRd NumFmt.tryDirs
    rw [sscanf_flt_lit_fail true 100 _ _ v64 hv64 (by simpa using s4)]
  have t6 : scanRd NumFmt.ff.tryDirs (fnum neg d ds fr ++ c :: tl) = 0 := by
    unfold scanRd NumFmt.tryDirs
    rw [sscanf_flt_lit_fail false 102 _ _ v32 hv32 (by simpa using s5)]
  have t7 : scanRd NumFmt.f.tryDirs (fnum neg d ds fr ++ c :: tl) = (fnum neg d ds fr).length := by
    unfold scanRd NumFmt.tryDirs
    rw [sscanf_flt_n false true _ _ v32 hv32]; rfl
  have hl := fnum_length neg d ds fr
  have hpos : 0 < (decText neg d ds).length := List.length_pos_iff.mpr (decText_ne neg d ds)
  unfold scanfFmtstr
  simp only [hlen, List.find?, t1, t2, t3, t4, t5, t6, t7]
  have e1 : (0 : Nat) ≠ (fnum neg d ds fr).length := by omega
  have e2 : (decText neg d ds).length ≠ (fnum neg d ds fr).length := by omega
  simp [e1, e2]

/-- format selection, decimal text of a double: "%*lfd%n" -/
theorem scanfFmtstr_fnum_lfd (neg : Bool) (d : UInt8) (ds fr : Bytes) (c : UInt8) (tl : Bytes) (h : FNum d ds fr)
    (hc : isspace c = true) :
    scanfFmtstr (fnum neg d ds fr ++ 100 :: c :: tl) = some .lfd := by
  obtain ⟨t1, t2, t3, t4⟩ := fnum_int_tries neg d ds fr (100 :: c :: tl) h
  obtain ⟨v64, hv64⟩ := fnum_scanFloat f64 neg d ds fr (100 :: c :: tl) h (by rw [hd_cons]; decide) (by rw [hd_cons]; decide)
  have hlen : numWordLen (fnum neg d ds fr ++ 100 :: c :: tl) = (fnum neg d ds fr).length + 1 := by
    rw [numWordLen_fnum neg d ds fr _ h (by rw [hd_cons]; decide)]
    have := numWordLen_app [100] (c :: tl) (by intro x hx; simp at hx; subst hx; decide)
    simp only [List.cons_append, List.nil_append, List.length_singleton] at this
    rw [this, numWordLen_stop c tl (Or.inl hc)]
  have t5 : scanRd NumFmt.lfd.tryDirs (fnum neg d ds fr ++ 100 :: c :: tl) = (fnum neg d ds fr).length + 1 := by
    unfold scanRd NumFmt.tryDirs
    rw [sscanf_flt_lit_n true true 100 _ _ v64 hv64]; rfl
  have hl := fnum_length neg d ds fr
  have hpos : 0 < (decText neg d ds).length := List.length_pos_iff.mpr (decText_ne neg d ds)
  unfold scanfFmtstr
  simp only [hlen, List.find?, t1, t2, t3, t4, t5]
  have e1 : (0 : Nat) ≠ (fnum neg d ds fr).length + 1 := by omega
  have e2 : (decText neg d ds).length ≠ (fnum neg d ds fr).length + 1 := by omega
  simp [e1, e2]

/-! ### the hexadecimal text -/

/-- hypotheses on the parts of a hexadecimal float text -/
structure HNum (lead : UInt8) (fr eds : Bytes) : Prop where
  hlead : isdigit lead = true
  hfr : ∀ c ∈ fr, isxdigit c = true
  hne : eds ≠ []
  heds : ∀ c ∈ eds, isdigit c = true

def hexPre (neg : Bool) (lead : UInt8) : Bytes := (if neg then [45] else []) ++ [48, 120, lead]
def hexSgn0 (neg : Bool) : Bytes := (if neg then [45] else []) ++ [48]

theorem hexTxt_split1 (neg : Bool) (lead : UInt8) (fr : Bytes) (eneg : Bool) (eds tail : Bytes) :
    hexTxt neg lead fr eneg eds ++ tail = hexPre neg lead ++ (hexRest fr eneg eds ++ tail) := by
  rw [hexTxt_eq, hexBody_eq]; simp [hexPre]

theorem hexTxt_split2 (neg : Bool) (lead : UInt8) (fr : Bytes) (eneg : Bool) (eds tail : Bytes) :
    hexTxt neg lead fr eneg eds ++ tail = hexSgn0 neg ++ (120 :: lead :: (hexRest fr eneg eds ++ tail)) := by
  rw [hexTxt_eq, hexBody_eq]; simp [hexSgn0]

theorem hexTxt_ne (neg : Bool) (lead : UInt8) (fr : Bytes) (eneg : Bool) (eds : Bytes) :
    hexTxt neg lead fr eneg eds ≠ [] := by
  rw [hexTxt_eq]; cases neg <;> simp

theorem hexTxt_hd (neg : Bool) (lead : UInt8) (fr : Bytes) (eneg : Bool) (eds : Bytes) :
    hd (hexTxt neg lead fr eneg eds) = 45 ∨ hd (hexTxt neg lead fr eneg eds) = 48 := by
  rw [hexTxt_eq]; cases neg <;> simp

theorem numWordLen_hexTxt (neg : Bool) (lead : UInt8) (fr : Bytes) (eneg : Bool) (eds rest : Bytes)
    (h : HNum lead fr eds) :
    numWordLen (hexTxt neg lead fr eneg eds ++ 41 :: rest) = (hexTxt neg lead fr eneg eds).length := by
  have hstop : numWordLen (41 :: rest) = 0 := numWordLen_stop 41 rest (Or.inr rfl)
  have hpre : ∀ c ∈ hexPre neg lead, wordChar c = true := by
    intro c hc
    cases neg <;> simp [hexPre] at hc
    · rcases hc with rfl | rfl | rfl
      · decide
      · decide
      · exact isdigit_wordChar _ h.hlead
    · rcases hc with rfl | rfl | rfl | rfl
      · decide
      · decide
      · decide
      · exact isdigit_wordChar _ h.hlead
  have hexp : ∀ c ∈ 112 :: (if eneg then 45 else 43) :: eds, wordChar c = true := by
    intro c hc
    simp at hc
    rcases hc with rfl | rfl | hc
    · decide
    · cases eneg <;> decide
    · exact isdigit_wordChar _ (h.heds c hc)
  have hlen := (hexTxt_length neg lead fr eneg eds).1
  rw [hexTxt_split1, numWordLen_app _ _ hpre, hlen]
  have : numWordLen (hexRest fr eneg eds ++ 41 :: rest) = (hexRest fr eneg eds).length := by
    unfold hexRest
    by_cases hfe : fr.isEmpty = true
    · simp only [hfe, ↓reduceIte, List.nil_append]
      rw [numWordLen_app _ _ hexp, hstop]; rfl
    · simp only [hfe, Bool.false_eq_true, ↓reduceIte, List.cons_append, List.append_assoc]
      have hd46 : hd (fr ++ (112 :: (if eneg then 45 else 43) :: eds ++ 41 :: rest)) ≠ 46 := by
        cases fr with
        | nil => simp at hfe
        | cons c t =>
          have := h.hfr c (by simp)
          simp only [List.cons_append, hd_cons]
          intro h46; subst h46; revert this; decide
      show numWordLen (46 :: (fr ++ ((112 :: (if eneg then 45 else 43) :: eds) ++ 41 :: rest))) = _
      rw [numWordLen_dot _ hd46, numWordLen_app _ _ (fun c hc => isxdigit_wordChar c (h.hfr c hc)),
        numWordLen_app _ _ hexp, hstop]
      simp
  rw [this]
  cases neg <;> simp [hexPre]

/-- format selection for the hexadecimal text in parentheses: "%*f%n" -/
theorem scanfFmtstr_hex (neg : Bool) (lead : UInt8) (fr : Bytes) (eneg : Bool) (eds rest : Bytes)
    (h : HNum lead fr eds) :
    scanfFmtstr (hexTxt neg lead fr eneg eds ++ 41 :: rest) = some .f := by
  have hlen := numWordLen_hexTxt neg lead fr eneg eds rest h
  obtain ⟨hl1, hl2⟩ := hexTxt_length neg lead fr eneg eds
  obtain ⟨vi, hvi⟩ := scanInt_i_hexTxt neg lead fr eneg eds (41 :: rest) h.hlead
  obtain ⟨vd, hvd⟩ := scanInt_d_hexTxt neg lead fr eneg eds (41 :: rest)
  have hv64 := scanFloat_hexTxt f64 neg lead fr eneg eds rest h.hlead h.hfr h.hne h.heds
  have hv32 := scanFloat_hexTxt f32 neg lead fr eneg eds rest h.hlead h.hfr h.hne h.heds
  have hr104 : hd (hexRest fr eneg eds ++ 41 :: rest) ≠ 104 := by
    rcases hexRest_hd fr eneg eds (41 :: rest) with h | h <;> rw [h] <;> decide
  have hr105 : hd (hexRest fr eneg eds ++ 41 :: rest) ≠ 105 := by
    rcases hexRest_hd fr eneg eds (41 :: rest) with h | h <;> rw [h] <;> decide
  have t1 : scanRd NumFmt.h.tryDirs (hexTxt neg lead fr eneg eds ++ 41 :: rest) = 0 := by
    unfold scanRd NumFmt.tryDirs
    rw [sscanf_int_lit_fail .i 104 _ _ vi hvi hr104]
  have t3 : scanRd NumFmt.ii.tryDirs (hexTxt neg lead fr eneg eds ++ 41 :: rest) = 0 := by
    unfold scanRd NumFmt.tryDirs
    rw [sscanf_int_lit_fail .i 105 _ _ vi hvi hr105]
  have t2 : scanRd NumFmt.d.tryDirs (hexTxt neg lead fr eneg eds ++ 41 :: rest) = (hexSgn0 neg).length := by
    unfold scanRd NumFmt.tryDirs
    rw [hexTxt_split2] at hvd ⊢
    rw [sscanf_int_n .d _ _ vd hvd]
  have t4 : scanRd NumFmt.x.tryDirs (hexTxt neg lead fr eneg eds ++ 41 :: rest) = (hexPre neg lead).length := by
    unfold scanRd NumFmt.tryDirs
    rw [hexTxt_split1] at hvi ⊢
    rw [sscanf_int_n .i _ _ vi hvi]
  have t5 : scanRd NumFmt.lfd.tryDirs (hexTxt neg lead fr eneg eds ++ 41 :: rest) = 0 := by
    unfold scanRd NumFmt.tryDirs
    rw [sscanf_flt_lit_fail true 100 _ _ _ hv64 (by rw [hd_cons]; decide)]
  have t6 : scanRd NumFmt.ff.tryDirs (hexTxt neg lead fr eneg eds ++ 41 :: rest) = 0 := by
    unfold scanRd NumFmt.tryDirs
    rw [sscanf_flt_lit_fail false 102 _ _ _ hv32 (by rw [hd_cons]; decide)]
  have t7 : scanRd NumFmt.f.tryDirs (hexTxt neg lead fr eneg eds ++ 41 :: rest) = (hexTxt neg lead fr eneg eds).length := by
    unfold scanRd NumFmt.tryDirs
    rw [sscanf_flt_n false true _ _ _ hv32]; rfl
  have hs0 : (hexSgn0 neg).length = (if neg then 1 else 0) + 1 := by cases neg <;> simp [hexSgn0]
  have hp0 : (hexPre neg lead).length = (if neg then 1 else 0) + 3 := by cases neg <;> simp [hexPre]
  unfold scanfFmtstr
  simp only [hlen, List.find?, t1, t2, t3, t4, t5, t6, t7]
  have e1 : (0 : Nat) ≠ (hexTxt neg lead fr eneg eds).length := by omega
  have e2 : (hexSgn0 neg).length ≠ (hexTxt neg lead fr eneg eds).length := by omega
  have e3 : (hexPre neg lead).length ≠ (hexTxt neg lead fr eneg eds).length := by omega
  simp [e1, e2, e3]

/-! ### the numeric case of scanner and checker on the whole token -/

theorem skipSpace_hexTxt (neg : Bool) (lead : UInt8) (fr : Bytes) (eneg : Bool) (eds tail : Bytes) :
    skipSpace (hexTxt neg lead fr eneg eds ++ tail) = hexTxt neg lead fr eneg eds ++ tail := by
  rw [hexTxt_eq]
  cases neg <;> simp [skipSpace, isspace]

theorem skipFmt_closeParen (rest : Bytes) : skipFmt fmtCloseParen (41 :: rest) = 1 := by
  have h : isspace 41 = false := by decide
  simp [skipFmt, scanRd, sscanf, fmtCloseParen, sscanfGo, skipSpace, h]

theorem skipSpace_sp_paren (tail : Bytes) : skipSpace (32 :: 40 :: tail) = 40 :: tail := by
  have h1 : isspace 32 = true := by decide
  have h2 : isspace 40 = false := by decide
  simp [skipSpace, h1, h2]

/-- scanner, float token -/
theorem scanNumeric_float (neg : Bool) (d : UInt8) (ds fr : Bytes) (hneg : Bool) (lead : UInt8)
    (hfr : Bytes) (eneg : Bool) (eds : Bytes) (hF : FNum d ds fr) (hH : HNum lead hfr eds)
    (b : Nat) (hb : b < 2 ^ 32) (rest : Bytes)
    (hscan : scanFloat f32 (hexTxt hneg lead hfr eneg eds ++ 41 :: rest) = some (b, 41 :: rest)) :
    scanNumeric (fnum neg d ds fr ++ 32 :: 40 :: (hexTxt hneg lead hfr eneg eds ++ 41 :: rest)) =
      .ok ⟨rest, [Cell.flt b.toUInt32], true⟩ := by
  have hsp : isspace 32 = true := by decide
  obtain ⟨s1, s2, _⟩ := space_facts 32 hsp
  obtain ⟨v, hv⟩ := fnum_scanFloat f32 neg d ds fr (32 :: 40 :: (hexTxt hneg lead hfr eneg eds ++ 41 :: rest)) hF
    (by simpa using s1) (by simpa using s2)
  have hfmt1 := scanfFmtstr_fnum_f neg d ds fr 32 (40 :: (hexTxt hneg lead hfr eneg eds ++ 41 :: rest)) hF hsp
  have hsc1 := sscanf_flt_n false false _ _ v hv
  have hpass1 : scanNumberPass (fnum neg d ds fr ++ 32 :: 40 :: (hexTxt hneg lead hfr eneg eds ++ 41 :: rest)) 0 none =
      .ok ((fnum neg d ds fr).length, 102, v % 4294967296) := by
    simp [scanNumberPass, hfmt1, NumFmt.type, NumFmt.dirs, hsc1, bind, Except.bind, pure, Except.pure]
  have hfmt2 := scanfFmtstr_hex hneg lead hfr eneg eds rest hH
  have hsc2 := sscanf_flt_n false false _ _ b hscan
  have hpass2 : scanNumberPass (hexTxt hneg lead hfr eneg eds ++ 41 :: rest) 102 (some (v % 4294967296)) =
      .ok ((hexTxt hneg lead hfr eneg eds).length, 102,
        v % 4294967296 / 4294967296 * 4294967296 + b % 4294967296) := by
    simp [scanNumberPass, hfmt2, NumFmt.type, NumFmt.dirs, hsc2, bind, Except.bind, pure, Except.pure]
  have hcell : cellOfRaw 102 (v % 4294967296 / 4294967296 * 4294967296 + b % 4294967296) = .ok (Cell.flt b.toUInt32) := by
    have hb' : b < 4294967296 := by
      have : (2 : Nat) ^ 32 = 4294967296 := by norm_num
      omega
    have : (v % 4294967296 / 4294967296 * 4294967296 + b % 4294967296) % 4294967296 = b := by omega
    unfold cellOfRaw
    simp only [show (102 : UInt8) ≠ 104 from by decide, show (102 : UInt8) ≠ 105 from by decide, ↓reduceIte, this]
  unfold scanNumeric
  simp only [hpass1, bind, Except.bind, List.drop_left, skipSpace_sp_paren, hd_cons, ↓reduceIte,
    List.drop_succ_cons, List.drop_zero, skipSpace_hexTxt, hpass2, skipFmt_closeParen, hcell, pure, Except.pure]

theorem fnum_d_assoc (neg : Bool) (d : UInt8) (ds fr tail : Bytes) :
    fnum neg d ds fr ++ 100 :: tail = (fnum neg d ds fr ++ [100]) ++ tail := by simp

/-- scanner, double token -/
theorem scanNumeric_double (neg : Bool) (d : UInt8) (ds fr : Bytes) (hneg : Bool) (lead : UInt8)
    (hfr : Bytes) (eneg : Bool) (eds : Bytes) (hF : FNum d ds fr) (hH : HNum lead hfr eds)
    (B : Nat) (rest : Bytes)
    (hscan : scanFloat f64 (hexTxt hneg lead hfr eneg eds ++ 41 :: rest) = some (B, 41 :: rest)) :
    scanNumeric (fnum neg d ds fr ++ 100 :: 32 :: 40 :: (hexTxt hneg lead hfr eneg eds ++ 41 :: rest)) =
      .ok ⟨rest, [Cell.dbl B.toUInt64], true⟩ := by
  have hsp : isspace 32 = true := by decide
  obtain ⟨v, hv⟩ := fnum_scanFloat f64 neg d ds fr (100 :: 32 :: 40 :: (hexTxt hneg lead hfr eneg eds ++ 41 :: rest)) hF
    (by rw [hd_cons]; decide) (by rw [hd_cons]; decide)
  have hfmt1 := scanfFmtstr_fnum_lfd neg d ds fr 32 (40 :: (hexTxt hneg lead hfr eneg eds ++ 41 :: rest)) hF hsp
  have hsc1 := sscanf_flt_lit_n true false 100 _ _ v hv
  have hpass1 : scanNumberPass (fnum neg d ds fr ++ 100 :: 32 :: 40 :: (hexTxt hneg lead hfr eneg eds ++ 41 :: rest)) 0 none =
      .ok ((fnum neg d ds fr).length + 1, 100, v) := by
    simp [scanNumberPass, hfmt1, NumFmt.type, NumFmt.dirs, hsc1, bind, Except.bind, pure, Except.pure]
  have hfmt2 := scanfFmtstr_hex hneg lead hfr eneg eds rest hH
  have hsc2 := sscanf_flt_n true false _ _ B hscan
  have hpass2 : scanNumberPass (hexTxt hneg lead hfr eneg eds ++ 41 :: rest) 100 (some v) =
      .ok ((hexTxt hneg lead hfr eneg eds).length, 100, B) := by
    simp [scanNumberPass, hfmt2, NumFmt.type, hsc2, bind, Except.bind, pure, Except.pure]
  have hcell : cellOfRaw 100 B = .ok (Cell.dbl B.toUInt64) := by
    unfold cellOfRaw
    simp only [show (100 : UInt8) ≠ 104 from by decide, show (100 : UInt8) ≠ 105 from by decide,
      show (100 : UInt8) ≠ 102 from by decide, ↓reduceIte]
  have hdrop : (fnum neg d ds fr ++ 100 :: 32 :: 40 :: (hexTxt hneg lead hfr eneg eds ++ 41 :: rest)).drop
      ((fnum neg d ds fr).length + 1) = 32 :: 40 :: (hexTxt hneg lead hfr eneg eds ++ 41 :: rest) := by
    rw [fnum_d_assoc]
    have : (fnum neg d ds fr).length + 1 = (fnum neg d ds fr ++ [100]).length := by simp
    rw [this, List.drop_left]
  unfold scanNumeric
  simp only [hpass1, bind, Except.bind, hdrop, List.drop_left, skipSpace_sp_paren, hd_cons, ↓reduceIte,
    List.drop_succ_cons, List.drop_zero, skipSpace_hexTxt, hpass2, skipFmt_closeParen, hcell, pure, Except.pure]

/-- what the checker's numeric case does behind the decimal text -/
theorem skipNumericArg_tail (s : Bytes) (rd : Nat) (ty : UInt8) (typeIn : UInt8) (hneg : Bool) (lead : UInt8)
    (hfr : Bytes) (eneg : Bool) (eds rest : Bytes) (hH : HNum lead hfr eds)
    (hsk : skipNumeric s = some (rd, ty)) (hrd : rd ≠ 0) (hty : ty = 102 ∨ ty = 100)
    (hdrop : s.drop rd = 32 :: 40 :: (hexTxt hneg lead hfr eneg eds ++ 41 :: rest)) :
    skipNumericArg s typeIn = ⟨some rest, 1, ty, 0⟩ := by
  have hfmt2 := scanfFmtstr_hex hneg lead hfr eneg eds rest hH
  have hv32 := scanFloat_hexTxt f32 hneg lead hfr eneg eds rest hH.hlead hH.hfr hH.hne hH.heds
  have hskip2 : skipFmt (NumFmt.f.dirs true) (hexTxt hneg lead hfr eneg eds ++ 41 :: rest) =
      (hexTxt hneg lead hfr eneg eds).length := by
    unfold skipFmt scanRd NumFmt.dirs
    rw [sscanf_flt_n false true _ _ _ hv32]; rfl
  have hlen : (hexTxt hneg lead hfr eneg eds).length ≠ 0 := by
    have := (hexTxt_length hneg lead hfr eneg eds).1; omega
  have hsk2 : skipNumeric (hexTxt hneg lead hfr eneg eds ++ 41 :: rest) =
      some ((hexTxt hneg lead hfr eneg eds).length, 102) := by
    simp [skipNumeric, hfmt2, hskip2, NumFmt.type]
  unfold skipNumericArg
  simp only [hsk, hrd, ↓reduceIte, hdrop, skipSpace_sp_paren, hd_cons, hty, List.drop_succ_cons, List.drop_zero,
    skipSpace_hexTxt, hsk2, hlen, List.drop_left, skipFmt_closeParen]
  simp

/-- checker, float token -/
theorem skipNumericArg_float (neg : Bool) (d : UInt8) (ds fr : Bytes) (hneg : Bool) (lead : UInt8)
    (hfr : Bytes) (eneg : Bool) (eds : Bytes) (hF : FNum d ds fr) (hH : HNum lead hfr eds)
    (rest : Bytes) (typeIn : UInt8) :
    skipNumericArg (fnum neg d ds fr ++ 32 :: 40 :: (hexTxt hneg lead hfr eneg eds ++ 41 :: rest)) typeIn =
      ⟨some rest, 1, 102, 0⟩ := by
  have hsp : isspace 32 = true := by decide
  obtain ⟨s1, s2, _⟩ := space_facts 32 hsp
  obtain ⟨v, hv⟩ := fnum_scanFloat f32 neg d ds fr (32 :: 40 :: (hexTxt hneg lead hfr eneg eds ++ 41 :: rest)) hF
    (by simpa using s1) (by simpa using s2)
  have hfmt1 := scanfFmtstr_fnum_f neg d ds fr 32 (40 :: (hexTxt hneg lead hfr eneg eds ++ 41 :: rest)) hF hsp
  have hskip1 : skipFmt (NumFmt.f.dirs true) (fnum neg d ds fr ++ 32 :: 40 :: (hexTxt hneg lead hfr eneg eds ++ 41 :: rest)) =
      (fnum neg d ds fr).length := by
    unfold skipFmt scanRd NumFmt.dirs
    rw [sscanf_flt_n false true _ _ _ hv]; rfl
  apply skipNumericArg_tail _ (fnum neg d ds fr).length 102 typeIn hneg lead hfr eneg eds rest hH
  · simp [skipNumeric, hfmt1, hskip1, NumFmt.type]
  · have := fnum_length neg d ds fr; omega
  · left; rfl
  · rw [List.drop_left]

/-- checker, double token -/
theorem skipNumericArg_double (neg : Bool) (d : UInt8) (ds fr : Bytes) (hneg : Bool) (lead : UInt8)
    (hfr : Bytes) (eneg : Bool) (eds : Bytes) (hF : FNum d ds fr) (hH : HNum lead hfr eds)
    (rest : Bytes) (typeIn : UInt8) :
    skipNumericArg (fnum neg d ds fr ++ 100 :: 32 :: 40 :: (hexTxt hneg lead hfr eneg eds ++ 41 :: rest)) typeIn =
      ⟨some rest, 1, 100, 0⟩ := by
  have hsp : isspace 32 = true := by decide
  obtain ⟨v, hv⟩ := fnum_scanFloat f64 neg d ds fr (100 :: 32 :: 40 :: (hexTxt hneg lead hfr eneg eds ++ 41 :: rest)) hF
    (by rw [hd_cons]; decide) (by rw [hd_cons]; decide)
  have hfmt1 := scanfFmtstr_fnum_lfd neg d ds fr 32 (40 :: (hexTxt hneg lead hfr eneg eds ++ 41 :: rest)) hF hsp
  have hskip1 : skipFmt (NumFmt.lfd.dirs true) (fnum neg d ds fr ++ 100 :: 32 :: 40 :: (hexTxt hneg lead hfr eneg eds ++ 41 :: rest)) =
      (fnum neg d ds fr).length + 1 := by
    unfold skipFmt scanRd NumFmt.dirs
    rw [sscanf_flt_lit_n true true 100 _ _ _ hv]; rfl
  apply skipNumericArg_tail _ ((fnum neg d ds fr).length + 1) 100 typeIn hneg lead hfr eneg eds rest hH
  · simp [skipNumeric, hfmt1, hskip1, NumFmt.type]
  · omega
  · right; rfl
  · rw [fnum_d_assoc]
    have : (fnum neg d ds fr).length + 1 = (fnum neg d ds fr ++ [100]).length := by simp
    rw [this, List.drop_left]

/-! ### the tokens -/

/-- the text of a lossless float token -/
def floatTok (neg : Bool) (d : UInt8) (ds fr : Bytes) (hx : Bytes) : Bytes :=
  fnum neg d ds fr ++ 32 :: 40 :: (hx ++ [41])

/-- the text of a lossless double token -/
def doubleTok (neg : Bool) (d : UInt8) (ds fr : Bytes) (hx : Bytes) : Bytes :=
  fnum neg d ds fr ++ 100 :: 32 :: 40 :: (hx ++ [41])

theorem fnum_hd (neg : Bool) (d : UInt8) (ds fr tail : Bytes) (hd0 : isdigit d = true) :
    hd (fnum neg d ds fr ++ tail) = 45 ∨ isdigit (hd (fnum neg d ds fr ++ tail)) = true := by
  cases neg
  · right; simpa [fnum, decText] using hd0
  · left; simp [fnum, decText]

/-- dispatch facts for a text that starts with a decimal float text -/
theorem fnum_dispatch (neg : Bool) (d : UInt8) (ds fr tail : Bytes) (h : FNum d ds fr) :
    isRangeMultiplier (fnum neg d ds fr ++ tail) = false ∧ skipFmt fmtIsDate (fnum neg d ds fr ++ tail) = 0 := by
  rw [fnum_eq]
  exact ⟨isRangeMultiplier_decText neg d ds _ h.hds (numEnd_dot _),
    isDate_dec neg d ds _ h.hd0 h.hds (numEnd_dot _)⟩

theorem tokStart_of_num (t : Bytes) (hne : t ≠ []) (h : hd t = 45 ∨ isdigit (hd t) = true) : TokStart t := by
  obtain ⟨_, _, _, _, _, _, _, _, _, _, _, _, b1, b2, b3, b4, b5, b6, b7⟩ := numStart_facts _ h
  exact ⟨hne, b1, b2, b3, b4, b5, b6, b7⟩

/-- **float token** (text level) -/
theorem tokOK_floatTok (neg : Bool) (d : UInt8) (ds fr : Bytes) (hneg : Bool) (lead : UInt8)
    (hfr : Bytes) (eneg : Bool) (eds : Bytes) (hF : FNum d ds fr) (hH : HNum lead hfr eds) (b : UInt32)
    (hscan : ∀ rest, scanFloat f32 (hexTxt hneg lead hfr eneg eds ++ 41 :: rest) = some (b.toNat, 41 :: rest)) :
    TokOK (floatTok neg d ds fr (hexTxt hneg lead hfr eneg eds)) (Cell.flt b) := by
  have happ : ∀ rest, floatTok neg d ds fr (hexTxt hneg lead hfr eneg eds) ++ rest =
      fnum neg d ds fr ++ 32 :: 40 :: (hexTxt hneg lead hfr eneg eds ++ 41 :: rest) := by
    intro rest; simp [floatTok]
  have hne : floatTok neg d ds fr (hexTxt hneg lead hfr eneg eds) ≠ [] := by
    cases neg <;> simp [floatTok, fnum, decText]
  have hstart : ∀ tail, hd (fnum neg d ds fr ++ tail) = 45 ∨ isdigit (hd (fnum neg d ds fr ++ tail)) = true :=
    fun tail => fnum_hd neg d ds fr tail hF.hd0
  refine ⟨tokStart_of_num _ hne (hstart _), ?_, ?_⟩
  · intro rest fuel prev ab hs
    apply scanArgVal_of_value _ _ _ _ _ _ hs
    rw [happ]
    obtain ⟨hm, hdate⟩ := fnum_dispatch neg d ds fr (32 :: 40 :: (hexTxt hneg lead hfr eneg eds ++ 41 :: rest)) hF
    rw [scanValue_num _ _ _ (hstart _) hm hdate]
    have := scanNumeric_float neg d ds fr hneg lead hfr eneg eds hF hH b.toNat b.toNat_lt rest (hscan rest)
    simpa using this
  · intro rest fuel ty llhs ib hs
    apply skipNext_of_value _ _ 102 0 _ _ _ _ hs
    rw [happ]
    obtain ⟨hm, hdate⟩ := fnum_dispatch neg d ds fr (32 :: 40 :: (hexTxt hneg lead hfr eneg eds ++ 41 :: rest)) hF
    rw [skipValue_num _ _ _ _ (hstart _) hm hdate, skipNumericArg_float neg d ds fr hneg lead hfr eneg eds hF hH rest ty]

/-- **double token** (text level) -/
theorem tokOK_doubleTok (neg : Bool) (d : UInt8) (ds fr : Bytes) (hneg : Bool) (lead : UInt8)
    (hfr : Bytes) (eneg : Bool) (eds : Bytes) (hF : FNum d ds fr) (hH : HNum lead hfr eds) (b : UInt64)
    (hscan : ∀ rest, scanFloat f64 (hexTxt hneg lead hfr eneg eds ++ 41 :: rest) = some (b.toNat, 41 :: rest)) :
    TokOK (doubleTok neg d ds fr (hexTxt hneg lead hfr eneg eds)) (Cell.dbl b) := by
  have happ : ∀ rest, doubleTok neg d ds fr (hexTxt hneg lead hfr eneg eds) ++ rest =
      fnum neg d ds fr ++ 100 :: 32 :: 40 :: (hexTxt hneg lead hfr eneg eds ++ 41 :: rest) := by
    intro rest; simp [doubleTok]
  have hne : doubleTok neg d ds fr (hexTxt hneg lead hfr eneg eds) ≠ [] := by
    cases neg <;> simp [doubleTok, fnum, decText]
  have hstart : ∀ tail, hd (fnum neg d ds fr ++ tail) = 45 ∨ isdigit (hd (fnum neg d ds fr ++ tail)) = true :=
    fun tail => fnum_hd neg d ds fr tail hF.hd0
  refine ⟨tokStart_of_num _ hne (hstart _), ?_, ?_⟩
  · intro rest fuel prev ab hs
    apply scanArgVal_of_value _ _ _ _ _ _ hs
    rw [happ]
    obtain ⟨hm, hdate⟩ := fnum_dispatch neg d ds fr (100 :: 32 :: 40 :: (hexTxt hneg lead hfr eneg eds ++ 41 :: rest)) hF
    rw [scanValue_num _ _ _ (hstart _) hm hdate]
    have := scanNumeric_double neg d ds fr hneg lead hfr eneg eds hF hH b.toNat rest (hscan rest)
    simpa using this
  · intro rest fuel ty llhs ib hs
    apply skipNext_of_value _ _ 100 0 _ _ _ _ hs
    rw [happ]
    obtain ⟨hm, hdate⟩ := fnum_dispatch neg d ds fr (100 :: 32 :: 40 :: (hexTxt hneg lead hfr eneg eds ++ 41 :: rest)) hF
    rw [skipValue_num _ _ _ _ (hstart _) hm hdate, skipNumericArg_double neg d ds fr hneg lead hfr eneg eds hF hH rest ty]

/-! ### the printer -/

/-- `remove_trailing_zeroes` leaves `%a` output (which has no trailing zeros) unchanged -/
theorem removeTrailingZeroes_hexTxt (neg : Bool) (lead : UInt8) (fr : Bytes) (eneg : Bool) (eds : Bytes)
    (h : HNum lead fr eds) (hstrip : stripZeros fr = fr) :
    removeTrailingZeroes (hexTxt neg lead fr eneg eds ++ [41]) = .ok (hexTxt neg lead fr eneg eds ++ [41], 0) := by
  have hx112 : isxdigit 112 = false := by decide
  rw [hexTxt_eq, hexBody_eq]
  unfold hexRest
  by_cases hfe : fr.isEmpty = true
  · have hnil : fr = [] := by simpa using hfe
    subst hnil
    cases neg <;> simp [removeTrailingZeroes]
  · have hfe' : fr.isEmpty = false := by simpa using hfe
    have hne : fr ≠ [] := by intro h0; subst h0; simp at hfe
    have htw : List.takeWhile isxdigit (fr ++ 112 :: (if eneg then 45 else 43) :: (eds ++ [41])) = fr := by
      rw [List.takeWhile_append_of_pos h.hfr]
      simp [List.takeWhile, hx112]
    have hk : (stripZeros fr).isEmpty = false := by rw [hstrip]; exact hfe'
    cases neg
    · simp [removeTrailingZeroes, hfe', htw, hstrip, hk]
    · simp [removeTrailingZeroes, hfe', htw, hstrip, hk]

theorem lit_sp_paren : lit " (" = [32, 40] := by decide

/-- `%#.Nf` output of a finite double as a decimal float text -/
theorem fmtF_fnum (p B : Nat) (hfin : f64.expField B ≠ 2047) :
    ∃ d ds fr, FNum d ds fr ∧ fmtF true p B = fnum (f64.sign B) d ds fr := by
  obtain ⟨n, fr, he, hfr, _⟩ := fmtF_fin p B hfin
  obtain ⟨d, ds, hn, hd0, hds, hnlz⟩ := fmtNat_shape n
  refine ⟨d, ds, fr, ⟨hd0, hds, hnlz, hfr⟩, ?_⟩
  rw [he, hn]
  simp [fnum, decText]

/-- `%a` output of a finite double as a hexadecimal float text -/
theorem fmtA_hnum (B : Nat) (hfin : f64.expField B ≠ 2047) :
    ∃ lead fr eneg eds, HNum lead fr eds ∧ stripZeros fr = fr ∧ fmtA B = hexTxt (f64.sign B) lead fr eneg eds := by
  obtain ⟨lead, fr, eneg, eds, htxt, hlead, hfr, hstrip, hne, heds, _⟩ := fmtA_fin B hfin
  exact ⟨lead, fr, eneg, eds, ⟨hlead, hfr, hne, heds⟩, hstrip, htxt⟩

/-- 'd' in lossless mode: `<%#.Nlf text>d (<%la text>)`, e.g. `0.50d (0x1p-1)` -/
theorem printsTok_double (opt : POpt) (hl : opt.lossless = true) (hp : opt.prec ≤ 9) (b : UInt64)
    (hfin : f64.expField b.toNat ≠ 2047) : PrintsTok opt (Cell.dbl b) := by
  intro fuel more prev st
  obtain ⟨d, ds, fr, hF, hnum⟩ := fmtF_fnum opt.prec b.toNat hfin
  obtain ⟨lead, hfr, eneg, eds, hH, _, hhex⟩ := fmtA_hnum b.toNat hfin
  have hscan : ∀ rest, scanFloat f64 (hexTxt (f64.sign b.toNat) lead hfr eneg eds ++ 41 :: rest) =
      some (b.toNat, 41 :: rest) := by
    intro rest
    rw [← hhex]
    exact scanFloat_fmtA_f64 b.toNat b.toNat_lt hfin rest
  have hok := tokOK_doubleTok (f64.sign b.toNat) d ds fr (f64.sign b.toNat) lead hfr eneg eds hF hH b hscan
  have hprec : ¬ (opt.prec > 9) := by omega
  refine ⟨doubleTok (f64.sign b.toNat) d ds fr (hexTxt (f64.sign b.toNat) lead hfr eneg eds),
    st.cols + ((doubleTok (f64.sign b.toNat) d ds fr (hexTxt (f64.sign b.toNat) lead hfr eneg eds)).length : Nat), ?_, hok⟩
  have htxt : fmtF true opt.prec b.toNat ++ [100] ++ lit " (" ++ fmtA b.toNat ++ [41] =
      doubleTok (f64.sign b.toNat) d ds fr (hexTxt (f64.sign b.toNat) lead hfr eneg eds) := by
    rw [hnum, hhex, lit_sp_paren]; simp [doubleTok]
  simp only [printArgVal, deref, bind, Except.bind, hprec, ↓reduceIte, hl, pure, Except.pure, htxt]

/-- 'f' in lossless mode: `<%#.Nf text> (<%a text>)`, e.g. `1.50 (0x1.8p+0)` -/
theorem printsTok_float (opt : POpt) (hl : opt.lossless = true) (hp : opt.prec ≤ 9) (b : UInt32)
    (hfin : f32.expField b.toNat ≠ 255) : PrintsTok opt (Cell.flt b) := by
  intro fuel more prev st
  obtain ⟨hPfin, _, _, _⟩ := promote_fin b.toNat hfin
  obtain ⟨d, ds, fr, hF, hnum⟩ := fmtF_fnum opt.prec (promote b.toNat) hPfin
  obtain ⟨lead, hfr, eneg, eds, hH, hstrip, hhex⟩ := fmtA_hnum (promote b.toNat) hPfin
  generalize hsg : f64.sign (promote b.toNat) = sg at hnum hhex
  have hscan : ∀ rest, scanFloat f32 (hexTxt sg lead hfr eneg eds ++ 41 :: rest) =
      some (b.toNat, 41 :: rest) := by
    intro rest
    rw [← hhex]
    exact scanFloat_fmtA_f32 b.toNat b.toNat_lt hfin rest
  have hok := tokOK_floatTok sg d ds fr sg lead hfr eneg eds hF hH b hscan
  have hprec : ¬ (opt.prec > 9) := by omega
  have hrtz := removeTrailingZeroes_hexTxt sg lead hfr eneg eds hH hstrip
  refine ⟨floatTok sg d ds fr (hexTxt sg lead hfr eneg eds),
    st.cols + ((floatTok sg d ds fr (hexTxt sg lead hfr eneg eds)).length : Nat), ?_, hok⟩
  have hlen : (floatTok sg d ds fr (hexTxt sg lead hfr eneg eds)).length =
      (fnum sg d ds fr).length + (2 + (hexTxt sg lead hfr eneg eds ++ [41]).length) - 0 := by
    simp [floatTok]; omega
  have hout : ∀ o : Bytes, o ++ fnum sg d ds fr ++ lit " (" ++ (hexTxt sg lead hfr eneg eds ++ [41]) =
      o ++ floatTok sg d ds fr (hexTxt sg lead hfr eneg eds) := by
    intro o; rw [lit_sp_paren]; simp [floatTok]
  simp only [printArgVal, deref, bind, Except.bind, hprec, ↓reduceIte, hl, pure, Except.pure, hnum, hhex, hrtz,
    hout, ← hlen]

end Rtosc.Pretty
