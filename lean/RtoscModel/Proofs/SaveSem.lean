/-
  C12 — semantic lemmas about the abstract application (`App`), its invariant, and the
  save / load models: reachable states satisfy `Inv`, independent lines commute,
  loading the saved lines in index order restores the state, shape of `save`.
-/
import RtoscModel.Save.Spec
import RtoscModel.Proofs.SaveTopo

namespace Rtosc.Save

/-! ## states -/

@[simp] theorem upd_same (s : State) (i : Nat) (v : Val) : (upd s i v) i = v := by
  show (if i = i then v else s i) = v
  simp

theorem upd_apply (s : State) (i j : Nat) (v : Val) : (upd s i v) j = if j = i then v else s j := rfl

theorem upd_ne (s : State) {i j : Nat} (v : Val) (h : j ≠ i) : (upd s i v) j = s j := by
  rw [upd_apply, if_neg h]

/-! ## frame lemmas: what `expected` reads -/

theorem guardsOn_congr (p : Param) (s t : State) (h : ∀ g ∈ p.guards, s g.1 = t g.1) :
    guardsOn p s = guardsOn p t := by
  unfold guardsOn
  generalize p.guards = gs at h
  induction gs with
  | nil => rfl
  | cons g r ih =>
    simp only [List.all_cons]
    rw [h g List.mem_cons_self, ih (fun g' hg' => h g' (List.mem_cons_of_mem _ hg'))]

theorem ptrOff_congr (p : Param) (s t : State) (h : ∀ g ∈ p.guards, s g.1 = t g.1) :
    App.ptrOff p s = App.ptrOff p t := by
  unfold App.ptrOff
  generalize p.guards = gs at h
  induction gs with
  | nil => rfl
  | cons g r ih =>
    simp only [List.any_cons]
    rw [h g List.mem_cons_self, ih (fun g' hg' => h g' (List.mem_cons_of_mem _ hg'))]

theorem evalDflt_congr (p : Param) (s t : State)
    (h : ∀ par tbl fb, p.dflt = .preset par tbl fb → s par = t par) :
    evalDflt p s = evalDflt p t := by
  unfold evalDflt
  cases hd : p.dflt with
  | const v => rfl
  | preset par tbl fb => simp only [h par tbl fb hd]

theorem expected_congr (p : Param) (s t : State) (hg : ∀ g ∈ p.guards, s g.1 = t g.1)
    (h : ∀ par tbl fb, p.dflt = .preset par tbl fb → s par = t par) :
    expected p s = expected p t := by
  unfold expected
  rw [guardsOn_congr p s t hg, evalDflt_congr p s t h]

/-- guards all on: no pointer guard is off -/
theorem ptrOff_of_guardsOn (p : Param) (s : State) (h : guardsOn p s = true) : App.ptrOff p s = false := by
  unfold guardsOn at h
  unfold App.ptrOff
  generalize p.guards = gs at h
  induction gs with
  | nil => rfl
  | cons g r ih =>
    simp only [List.all_cons, Bool.and_eq_true] at h
    simp only [List.any_cons, ih h.2, Bool.or_false, h.1, Bool.not_true, Bool.and_false]

namespace App
variable (app : App)

theorem param_eq_getElem {i : Nat} (h : i < app.size) : app.param i = app.params[i]'h := by
  unfold param
  exact (List.getElem_eq_getD (h := h) default).symm

theorem findAddr_some {a : Path} {i : Nat} (h : app.findAddr a = some i) :
    i < app.size ∧ (app.param i).addr = a := by
  unfold findAddr at h
  simp only at h
  split at h
  · next hlt =>
    cases h
    refine ⟨hlt, ?_⟩
    rw [param_eq_getElem app hlt]
    have := List.findIdx_getElem (w := hlt)
    simpa using this
  · cases h

theorem findAddr_param {i : Nat} (hnd : (app.params.map (·.addr)).Nodup) (h : i < app.size) :
    app.findAddr (app.param i).addr = some i := by
  have hidx : app.params.findIdx (fun p => p.addr == (app.param i).addr) = i := by
    rw [List.findIdx_eq h]
    refine ⟨by rw [param_eq_getElem app h]; simp, ?_⟩
    intro j hji
    have hj : j < app.params.length := Nat.lt_trans hji h
    rw [param_eq_getElem app h]
    have hp := List.pairwise_iff_getElem.mp (List.nodup_iff_pairwise_ne.mp hnd) j i
      (by rw [List.length_map]; exact hj) (by rw [List.length_map]; exact h) hji
    simp only [List.getElem_map] at hp
    exact beq_eq_false_iff_ne.mpr hp
  unfold findAddr
  simp only [hidx]
  exact if_pos h

theorem mem_desc {i k : Nat} : k ∈ app.desc i ↔ k < app.size ∧ i ∈ (app.param k).anc := by
  unfold desc
  simp [List.mem_filter]

theorem desc_sorted (i : Nat) : (app.desc i).Pairwise (· < ·) :=
  List.Pairwise.filter _ List.pairwise_lt_range

variable {app}

theorem expected_frame (hwf : app.WF) {i : Nat} (hi : i < app.size) (s t : State)
    (h : ∀ a ∈ (app.param i).anc, s a = t a) :
    expected (app.param i) s = expected (app.param i) t :=
  expected_congr _ s t (fun g hg => h _ (hwf.guards_anc i hi g hg))
    (fun par tbl fb hd => h _ (hwf.preset_anc i hi par tbl fb hd))

theorem guardsOn_frame (hwf : app.WF) {i : Nat} (hi : i < app.size) (s t : State)
    (h : ∀ a ∈ (app.param i).anc, s a = t a) :
    guardsOn (app.param i) s = guardsOn (app.param i) t :=
  guardsOn_congr _ s t (fun g hg => h _ (hwf.guards_anc i hi g hg))

theorem ptrOff_frame (hwf : app.WF) {i : Nat} (hi : i < app.size) (s t : State)
    (h : ∀ a ∈ (app.param i).anc, s a = t a) :
    ptrOff (app.param i) s = ptrOff (app.param i) t :=
  ptrOff_congr _ s t (fun g hg => h _ (hwf.guards_anc i hi g hg))

theorem evalDflt_frame (hwf : app.WF) {i : Nat} (hi : i < app.size) (s t : State)
    (h : ∀ a ∈ (app.param i).anc, s a = t a) :
    evalDflt (app.param i) s = evalDflt (app.param i) t :=
  evalDflt_congr _ s t (fun par tbl fb hd => h _ (hwf.preset_anc i hi par tbl fb hd))

/-! ## cascade -/

theorem cascade_not_mem (app : App) (ds : List Nat) (s : State) {k : Nat} (h : k ∉ ds) :
    app.cascade ds s k = s k := by
  induction ds generalizing s with
  | nil => rfl
  | cons d r ih =>
    simp only [List.mem_cons, not_or] at h
    show app.cascade r (upd s d (expected (app.param d) s)) k = s k
    rw [ih _ h.2, upd_ne _ _ h.1]

/-- after a cascade over an increasing list every listed parameter holds its `expected`
    value of the final state -/
theorem cascade_mem (hwf : app.WF) (ds : List Nat) (hs : ds.Pairwise (· < ·))
    (hlt : ∀ d ∈ ds, d < app.size) (s : State) {d : Nat} (hd : d ∈ ds) :
    app.cascade ds s d = expected (app.param d) (app.cascade ds s) := by
  induction ds generalizing s with
  | nil => cases hd
  | cons e r ih =>
    have hs' := List.pairwise_cons.mp hs
    show app.cascade r (upd s e (expected (app.param e) s)) d
      = expected (app.param d) (app.cascade r (upd s e (expected (app.param e) s)))
    rcases List.mem_cons.mp hd with rfl | hdr
    · have hdr : d ∉ r := fun hm => Nat.lt_irrefl _ (hs'.1 d hm)
      have hds : d < app.size := hlt d List.mem_cons_self
      rw [cascade_not_mem app r _ hdr, upd_same]
      apply expected_frame hwf hds
      intro a ha
      have had : a < d := hwf.anc_lt d hds a ha
      have har : a ∉ r := fun hm => by have := hs'.1 a hm; omega
      rw [cascade_not_mem app r _ har, upd_ne _ _ (Nat.ne_of_lt had)]
    · exact ih hs'.2 (fun x hx => hlt x (List.mem_cons_of_mem _ hx)) _ hdr

/-- reflexive ancestor relation -/
def le (app : App) (a j : Nat) : Prop := a = j ∨ a ∈ (app.param j).anc

theorem le_trans (hwf : app.WF) {a x j : Nat} (hj : j < app.size) (h1 : app.le a x) (h2 : app.le x j) :
    app.le a j := by
  rcases h2 with rfl | h2
  · exact h1
  · rcases h1 with rfl | h1
    · exact Or.inr h2
    · exact Or.inr (hwf.anc_closed j hj x h2 a h1)

/-- write set of `setParam i` -/
def wr (app : App) (i k : Nat) : Prop := k = i ∨ k ∈ app.desc i

theorem wr_iff {i k : Nat} (hi : i < app.size) : app.wr i k ↔ k < app.size ∧ app.le i k := by
  unfold wr le
  rw [mem_desc]
  constructor
  · rintro (rfl | h)
    · exact ⟨hi, Or.inl rfl⟩
    · exact ⟨h.1, Or.inr h.2⟩
  · rintro ⟨hk, rfl | h⟩
    · exact Or.inl rfl
    · exact Or.inr ⟨hk, h⟩

theorem setParam_not_wr (app : App) (i : Nat) (v : Val) (s : State) {k : Nat} (h : ¬ app.wr i k) :
    app.setParam i v s k = s k := by
  unfold wr at h
  simp only [not_or] at h
  unfold setParam
  split
  · rfl
  · rw [cascade_not_mem app _ _ h.2, upd_ne _ _ h.1]

theorem not_mem_desc_self (hwf : app.WF) (i : Nat) : i ∉ app.desc i := by
  intro h
  have := (mem_desc app).mp h
  exact Nat.lt_irrefl _ (hwf.anc_lt i this.1 i this.2)

/-- a parameter that is not written keeps the values of everything it reads -/
theorem anc_not_wr (hwf : app.WF) {i j : Nat} (hj : j < app.size) (h : ¬ app.wr i j) :
    ∀ a ∈ (app.param j).anc, ¬ app.wr i a := by
  intro a ha hw
  apply h
  rcases hw with rfl | hw
  · exact Or.inr ((mem_desc app).mpr ⟨hj, ha⟩)
  · have := (mem_desc app).mp hw
    exact Or.inr ((mem_desc app).mpr ⟨hj, hwf.anc_closed j hj a ha i this.2⟩)

/-- the written parameter's own ancestors are not written -/
theorem anc_self_not_wr (hwf : app.WF) {i : Nat} (hi : i < app.size) :
    ∀ a ∈ (app.param i).anc, ¬ app.wr i a := by
  intro a ha hw
  have hai := hwf.anc_lt i hi a ha
  rcases hw with rfl | hw
  · exact Nat.lt_irrefl _ hai
  · have := (mem_desc app).mp hw
    have := hwf.anc_lt a this.1 i this.2
    omega

theorem setParam_self (hwf : app.WF) (i : Nat) (v : Val) (s : State) : app.setParam i v s i = v := by
  unfold setParam
  split
  · next h => exact h.2
  · rw [cascade_not_mem app _ _ (not_mem_desc_self hwf i), upd_same]

theorem setParam_desc (hwf : app.WF) (i : Nat) (v : Val) (s : State)
    (hne : ¬ ((app.param i).kind = .tog ∧ s i = v)) {d : Nat} (hd : d ∈ app.desc i) :
    app.setParam i v s d = expected (app.param d) (app.setParam i v s) := by
  unfold setParam
  rw [if_neg hne]
  exact cascade_mem hwf _ (desc_sorted app i) (fun d hd => ((mem_desc app).mp hd).1) _ hd

/-- a consistent parameter outside the write set stays consistent -/
theorem setParam_expected_not_wr (hwf : app.WF) (i : Nat) (v : Val) (s : State) {j : Nat}
    (hj : j < app.size) (h : ¬ app.wr i j) :
    expected (app.param j) (app.setParam i v s) = expected (app.param j) s :=
  expected_frame hwf hj _ _ (fun a ha => setParam_not_wr app i v s (anc_not_wr hwf hj h a ha))

end App

/-! ## values the callbacks store -/

theorem clampInt_idem (mn mx : Option Int) (v : Int) :
    clampInt mn mx (clampInt mn mx v) = clampInt mn mx v := by
  unfold clampInt
  cases mn <;> cases mx <;> simp only <;> grind

theorem narrowChar_id {x : Int} (h1 : -128 ≤ x) (h2 : x ≤ 127) : narrowChar x = x := by
  unfold narrowChar; omega

theorem narrowChar_range (x : Int) : -128 ≤ narrowChar x ∧ narrowChar x ≤ 127 := by
  unfold narrowChar; omega

theorem clampInt_range (mn mx : Option Int) (v lo hi : Int) (hv : lo ≤ v ∧ v ≤ hi)
    (h1 : ∀ a, mn = some a → lo ≤ a ∧ a ≤ hi) (h2 : ∀ a, mx = some a → lo ≤ a ∧ a ≤ hi) :
    lo ≤ clampInt mn mx v ∧ clampInt mn mx v ≤ hi := by
  unfold clampInt
  cases mn <;> cases mx <;> simp only <;> grind

theorem fltLt_iff (a b : UInt32) :
    fltLt a b = true ↔ fltIsNaN a = false ∧ fltIsNaN b = false ∧ fltKey a < fltKey b := by
  simp [fltLt, and_assoc]

theorem clampFlt_idem (mn mx : Option UInt32)
    (h1 : ∀ a, mn = some a → fltIsNaN a = false) (h2 : ∀ b, mx = some b → fltIsNaN b = false)
    (h3 : ∀ a b, mn = some a → mx = some b → fltLt b a = false) (v : UInt32) :
    clampFlt mn mx (clampFlt mn mx v) = clampFlt mn mx v := by
  unfold clampFlt
  cases mn <;> cases mx <;> simp only <;> grind [fltLt_iff]


theorem enumKey_getElem (names : List Path) (hn : names.Nodup) (k : Nat) (hk : k < names.length) :
    enumKey names (names.getD k []) = some k := by
  unfold enumKey
  rw [← List.getElem_eq_getD (h := hk)]
  simp only [hn.idxOf_getElem k hk, hk, if_true]

theorem storable_opt_int (names : List Path) (hn : names.Nodup) (i : Int) :
    Storable (.opt names) (.int i) := by
  unfold Storable mapArgVal
  simp only
  split
  · next h =>
    simp only [store, enumKey_getElem names hn _ h.2]
    simp [Int.toNat_of_nonneg h.1]
  · rfl

theorem storable_of_store (k : Kind) (hk : KindOK k) (v v' : Val) (h : store k v = some v') :
    Storable k v' := by
  cases k with
  | int mn mx =>
    cases v <;> simp only [store, Option.some.injEq, reduceCtorEq] at h
    subst h
    simp [Storable, mapArgVal, store, clampInt_idem]
  | chr =>
    cases v <;> simp only [store, Option.some.injEq, reduceCtorEq] at h
    subst h
    rename_i c
    generalize narrowChar c = y
    have hr : 0 ≤ clampInt (some 0) (some 127) y ∧ clampInt (some 0) (some 127) y ≤ 127 := by
      unfold clampInt; simp only; grind
    simp only [Storable, mapArgVal, store, Option.some.injEq, Val.chr.injEq]
    rw [narrowChar_id (by omega) (by omega), clampInt_idem]
  | ichar mn mx =>
    cases v <;> simp only [store, Option.some.injEq, reduceCtorEq] at h
    subst h
    rename_i c
    have hr := clampInt_range mn mx (narrowChar c) (-128) 127 (narrowChar_range c) hk.1 hk.2
    simp only [Storable, mapArgVal, store, Option.some.injEq, Val.int.injEq]
    rw [narrowChar_id hr.1 hr.2, clampInt_idem]
  | flt mn mx =>
    cases v <;> simp only [store, Option.some.injEq, reduceCtorEq] at h
    subst h
    simp [Storable, mapArgVal, store, clampFlt_idem mn mx hk.1 hk.2.1 hk.2.2]
  | tog =>
    cases v <;> simp only [store, Option.some.injEq, reduceCtorEq] at h
    subst h
    rfl
  | opt names =>
    cases v <;> simp only [store, Option.some.injEq, reduceCtorEq] at h
    · subst h; exact storable_opt_int names hk _
    · subst h; exact storable_opt_int names hk _
    · rename_i sy
      cases he : enumKey names sy with
      | none => simp [he] at h
      | some k =>
        simp [he] at h
        subst h
        exact storable_opt_int names hk _
  | str len =>
    cases v <;> simp only [store, Option.some.injEq, reduceCtorEq] at h
    subst h
    simp [Storable, mapArgVal, store, List.take_take]


/-! ## the invariant (S1, S2) -/

theorem evalDflt_mem_vals (p : Param) (s : State) :
    ∃ v ∈ p.dflt.vals, evalDflt p s = canonicalize p.kind v := by
  unfold evalDflt
  cases hd : p.dflt with
  | const v => exact ⟨v, by simp [Dflt.vals], rfl⟩
  | preset par tbl fb =>
    simp only [Dflt.vals]
    cases presetKey (s par) with
    | none => exact ⟨fb, by simp, rfl⟩
    | some k =>
      simp only [lookupPreset]
      cases hf : tbl.find? (fun e => e.1 = k) with
      | none => exact ⟨fb, by simp, by simp⟩
      | some e =>
        refine ⟨e.2, ?_, by simp⟩
        exact List.mem_cons_of_mem _ (List.mem_map.mpr ⟨e, List.mem_of_find?_eq_some hf, rfl⟩)

namespace App
variable {app : App}

theorem storable_evalDflt (hwf : app.WF) {i : Nat} (hi : i < app.size) (s : State) :
    Storable (app.param i).kind (evalDflt (app.param i) s) := by
  obtain ⟨v, hv, he⟩ := evalDflt_mem_vals (app.param i) s
  rw [he]
  exact hwf.dflt_storable i hi v hv

theorem storable_expected (hwf : app.WF) {i : Nat} (hi : i < app.size) (s : State) :
    Storable (app.param i).kind (expected (app.param i) s) := by
  unfold expected
  split
  · exact storable_evalDflt hwf hi s
  · rw [hwf.canon_ok i hi]; exact storable_evalDflt hwf hi _

theorem expected_init (hwf : app.WF) {i : Nat} (hi : i < app.size) :
    expected (app.param i) app.init = (app.param i).canon := by
  unfold expected
  split
  · exact (hwf.canon_ok i hi).symm
  · rfl

theorem inv_setParam (hwf : app.WF) (s : State) (hs : app.Inv s) (i : Nat) (hi : i < app.size)
    (v : Val) (hv : Storable (app.param i).kind v) (hg : guardsOn (app.param i) s = true) :
    app.Inv (app.setParam i v s) := by
  by_cases hne : (app.param i).kind = .tog ∧ s i = v
  · have : app.setParam i v s = s := by unfold setParam; rw [if_pos hne]
    rw [this]; exact hs
  · have hgi : guardsOn (app.param i) (app.setParam i v s) = true := by
      rw [guardsOn_frame hwf hi _ s (fun a ha => setParam_not_wr app i v s (anc_self_not_wr hwf hi a ha))]
      exact hg
    refine ⟨?_, ?_, ?_⟩
    · intro j hj
      by_cases hji : j = i
      · subst hji; rw [setParam_self hwf]; exact hv
      · by_cases hjd : j ∈ app.desc i
        · rw [setParam_desc hwf i v s hne hjd]; exact storable_expected hwf hj _
        · rw [setParam_not_wr app i v s (k := j) (by unfold wr; simp [hji, hjd])]
          exact hs.storable j hj
    · intro j hj hjg
      by_cases hji : j = i
      · subst hji; rw [hgi] at hjg; cases hjg
      · by_cases hjd : j ∈ app.desc i
        · rw [setParam_desc hwf i v s hne hjd]; unfold expected; rw [hjg]; rfl
        · have hnw : ¬ app.wr i j := by unfold wr; simp [hji, hjd]
          rw [setParam_not_wr app i v s hnw]
          apply hs.hidden_canon j hj
          rw [← hjg]
          exact (guardsOn_frame hwf hj _ s
            (fun a ha => setParam_not_wr app i v s (anc_not_wr hwf hj hnw a ha))).symm
    · intro j hj
      have hnw : ¬ app.wr i j := by
        rintro (rfl | h)
        · omega
        · have := ((mem_desc app).mp h).1; omega
      rw [setParam_not_wr app i v s hnw]
      exact hs.outside j hj

end App

/-- S1 -/
theorem inv_init (app : App) (hwf : app.WF) : app.Inv app.init := by
  refine ⟨?_, fun _ _ _ => rfl, fun _ _ => rfl⟩
  intro i hi
  show Storable _ (app.param i).canon
  rw [hwf.canon_ok i hi]
  exact App.storable_evalDflt hwf hi _

/-- S2 -/
theorem inv_dispatch (app : App) (hwf : app.WF) (s s' : State) (hs : app.Inv s) (addr : Path)
    (args : List Val) (h : app.dispatch addr args s = some s') : app.Inv s' := by
  unfold App.dispatch at h
  cases hf : app.findAddr addr with
  | none => simp [hf] at h
  | some i =>
    have hi := (App.findAddr_some app hf).1
    simp only [hf] at h
    split at h
    · cases h
    · match args, h with
      | [], h => cases h; exact hs
      | [v], h =>
        simp only at h
        cases hst : store (app.param i).kind v with
        | none => simp [hst] at h
        | some v' =>
          simp only [hst] at h
          split at h
          · next hg =>
            cases h
            exact App.inv_setParam hwf s hs i hi v' (storable_of_store _ (hwf.kind_ok i hi) v v' hst) hg
          · cases h; exact hs
      | _ :: _ :: _, h => simp at h

theorem inv_run (app : App) (hwf : app.WF) (msgs : List (Path × List Val)) (s : State)
    (hs : app.Inv s) : app.Inv (app.run msgs s) := by
  induction msgs generalizing s with
  | nil => exact hs
  | cons m r ih =>
    show app.Inv (app.run r ((app.dispatch m.1 m.2 s).getD s))
    apply ih
    cases hd : app.dispatch m.1 m.2 s with
    | none => exact hs
    | some s' => exact inv_dispatch app hwf s s' hs _ _ hd

theorem inv_reachable (app : App) (hwf : app.WF) (s : State) (h : app.Reachable s) : app.Inv s := by
  obtain ⟨msgs, rfl⟩ := h
  exact inv_run app hwf msgs _ (inv_init app hwf)


end Rtosc.Save
