/-
  C12 — semantic lemmas about the abstract application (`App`), its invariant, and the
  save / load models: reachable states satisfy `Inv`, independent lines commute,
  loading the saved lines in index order restores the state, shape of `save`.
-/
import RtoscModel.Save.Spec
import RtoscModel.Proofs.SaveTopo

namespace Rtosc.Save

/-! ## states -/

@[simp] theorem upd_same (s : State) (i : Nat) (v : Val) : (upd s i v) i = v := by
  show (if i = i then v else s i) = v
  simp

theorem upd_apply (s : State) (i j : Nat) (v : Val) : (upd s i v) j = if j = i then v else s j := rfl

theorem upd_ne (s : State) {i j : Nat} (v : Val) (h : j ≠ i) : (upd s i v) j = s j := by
  rw [upd_apply, if_neg h]

/-! ## frame lemmas: what `expected` reads -/

theorem guardsOn_congr (p : Param) (s t : State) (h : ∀ g ∈ p.guards, s g.1 = t g.1) :
    guardsOn p s = guardsOn p t := by
  unfold guardsOn
  generalize p.guards = gs at h
  induction gs with
  | nil => rfl
  | cons g r ih =>
    simp only [List.all_cons]
    rw [h g List.mem_cons_self, ih (fun g' hg' => h g' (List.mem_cons_of_mem _ hg'))]

theorem ptrOff_congr (p : Param) (s t : State) (h : ∀ g ∈ p.guards, s g.1 = t g.1) :
    App.ptrOff p s = App.ptrOff p t := by
  unfold App.ptrOff
  generalize p.guards = gs at h
  induction gs with
  | nil => rfl
  | cons g r ih =>
    simp only [List.any_cons]
    rw [h g List.mem_cons_self, ih (fun g' hg' => h g' (List.mem_cons_of_mem _ hg'))]

theorem evalDflt_congr (p : Param) (s t : State)
    (h : ∀ par tbl fb, p.dflt = .preset par tbl fb → s par = t par) :
    evalDflt p s = evalDflt p t := by
  unfold evalDflt
  cases hd : p.dflt with
  | const v => rfl
  | preset par tbl fb => simp only [h par tbl fb hd]

theorem expected_congr (p : Param) (s t : State) (hg : ∀ g ∈ p.guards, s g.1 = t g.1)
    (h : ∀ par tbl fb, p.dflt = .preset par tbl fb → s par = t par) :
    expected p s = expected p t := by
  unfold expected
  rw [guardsOn_congr p s t hg, evalDflt_congr p s t h]

/-- guards all on: no pointer guard is off -/
theorem ptrOff_of_guardsOn (p : Param) (s : State) (h : guardsOn p s = true) : App.ptrOff p s = false := by
  unfold guardsOn at h
  unfold App.ptrOff
  generalize p.guards = gs at h
  induction gs with
  | nil => rfl
  | cons g r ih =>
    simp only [List.all_cons, Bool.and_eq_true] at h
    simp only [List.any_cons, ih h.2, Bool.or_false, h.1, Bool.not_true, Bool.and_false]

namespace App
variable (app : App)

theorem param_eq_getElem {i : Nat} (h : i < app.size) : app.param i = app.params[i]'h := by
  unfold param
  exact (List.getElem_eq_getD (h := h) default).symm

theorem findAddr_some {a : Path} {i : Nat} (h : app.findAddr a = some i) :
    i < app.size ∧ (app.param i).addr = a := by
  unfold findAddr at h
  simp only at h
  split at h
  · next hlt =>
    cases h
    refine ⟨hlt, ?_⟩
    rw [param_eq_getElem app hlt]
    have := List.findIdx_getElem (w := hlt)
    simpa using this
  · cases h

theorem findAddr_param {i : Nat} (hnd : (app.params.map (·.addr)).Nodup) (h : i < app.size) :
    app.findAddr (app.param i).addr = some i := by
  have hidx : app.params.findIdx (fun p => p.addr == (app.param i).addr) = i := by
    rw [List.findIdx_eq h]
    refine ⟨by rw [param_eq_getElem app h]; simp, ?_⟩
    intro j hji
    have hj : j < app.params.length := Nat.lt_trans hji h
    rw [param_eq_getElem app h]
    have hp := List.pairwise_iff_getElem.mp (List.nodup_iff_pairwise_ne.mp hnd) j i
      (by rw [List.length_map]; exact hj) (by rw [List.length_map]; exact h) hji
    simp only [List.getElem_map] at hp
    exact beq_eq_false_iff_ne.mpr hp
  unfold findAddr
  simp only [hidx]
  exact if_pos h

theorem mem_desc {i k : Nat} : k ∈ app.desc i ↔ k < app.size ∧ i ∈ (app.param k).anc := by
  unfold desc
  simp [List.mem_filter]

theorem desc_sorted (i : Nat) : (app.desc i).Pairwise (· < ·) :=
  List.Pairwise.filter _ List.pairwise_lt_range

variable {app}

theorem expected_frame (hwf : app.WF) {i : Nat} (hi : i < app.size) (s t : State)
    (h : ∀ a ∈ (app.param i).anc, s a = t a) :
    expected (app.param i) s = expected (app.param i) t :=
  expected_congr _ s t (fun g hg => h _ (hwf.guards_anc i hi g hg))
    (fun par tbl fb hd => h _ (hwf.preset_anc i hi par tbl fb hd))

theorem guardsOn_frame (hwf : app.WF) {i : Nat} (hi : i < app.size) (s t : State)
    (h : ∀ a ∈ (app.param i).anc, s a = t a) :
    guardsOn (app.param i) s = guardsOn (app.param i) t :=
  guardsOn_congr _ s t (fun g hg => h _ (hwf.guards_anc i hi g hg))

theorem ptrOff_frame (hwf : app.WF) {i : Nat} (hi : i < app.size) (s t : State)
    (h : ∀ a ∈ (app.param i).anc, s a = t a) :
    ptrOff (app.param i) s = ptrOff (app.param i) t :=
  ptrOff_congr _ s t (fun g hg => h _ (hwf.guards_anc i hi g hg))

theorem evalDflt_frame (hwf : app.WF) {i : Nat} (hi : i < app.size) (s t : State)
    (h : ∀ a ∈ (app.param i).anc, s a = t a) :
    evalDflt (app.param i) s = evalDflt (app.param i) t :=
  evalDflt_congr _ s t (fun par tbl fb hd => h _ (hwf.preset_anc i hi par tbl fb hd))

/-! ## cascade -/

theorem cascade_not_mem (app : App) (ds : List Nat) (s : State) {k : Nat} (h : k ∉ ds) :
    app.cascade ds s k = s k := by
  induction ds generalizing s with
  | nil => rfl
  | cons d r ih =>
    simp only [List.mem_cons, not_or] at h
    show app.cascade r (upd s d (expected (app.param d) s)) k = s k
    rw [ih _ h.2, upd_ne _ _ h.1]

/-- after a cascade over an increasing list every listed parameter holds its `expected`
    value of the final state -/
theorem cascade_mem (hwf : app.WF) (ds : List Nat) (hs : ds.Pairwise (· < ·))
    (hlt : ∀ d ∈ ds, d < app.size) (s : State) {d : Nat} (hd : d ∈ ds) :
    app.cascade ds s d = expected (app.param d) (app.cascade ds s) := by
  induction ds generalizing s with
  | nil => cases hd
  | cons e r ih =>
    have hs' := List.pairwise_cons.mp hs
    show app.cascade r (upd s e (expected (app.param e) s)) d
      = expected (app.param d) (app.cascade r (upd s e (expected (app.param e) s)))
    rcases List.mem_cons.mp hd with rfl | hdr
    · have hdr : d ∉ r := fun hm => Nat.lt_irrefl _ (hs'.1 d hm)
      have hds : d < app.size := hlt d List.mem_cons_self
      rw [cascade_not_mem app r _ hdr, upd_same]
      apply expected_frame hwf hds
      intro a ha
      have had : a < d := hwf.anc_lt d hds a ha
      have har : a ∉ r := fun hm => by have := hs'.1 a hm; omega
      rw [cascade_not_mem app r _ har, upd_ne _ _ (Nat.ne_of_lt had)]
    · exact ih hs'.2 (fun x hx => hlt x (List.mem_cons_of_mem _ hx)) _ hdr

/-- reflexive ancestor relation -/
def le (app : App) (a j : Nat) : Prop := a = j ∨ a ∈ (app.param j).anc

theorem le_trans (hwf : app.WF) {a x j : Nat} (hj : j < app.size) (h1 : app.le a x) (h2 : app.le x j) :
    app.le a j := by
  rcases h2 with rfl | h2
  · exact h1
  · rcases h1 with rfl | h1
    · exact Or.inr h2
    · exact Or.inr (hwf.anc_closed j hj x h2 a h1)

/-- write set of `setParam i` -/
def wr (app : App) (i k : Nat) : Prop := k = i ∨ k ∈ app.desc i

theorem wr_iff {i k : Nat} (hi : i < app.size) : app.wr i k ↔ k < app.size ∧ app.le i k := by
  unfold wr le
  rw [mem_desc]
  constructor
  · rintro (rfl | h)
    · exact ⟨hi, Or.inl rfl⟩
    · exact ⟨h.1, Or.inr h.2⟩
  · rintro ⟨hk, rfl | h⟩
    · exact Or.inl rfl
    · exact Or.inr ⟨hk, h⟩

theorem setParam_not_wr (app : App) (i : Nat) (v : Val) (s : State) {k : Nat} (h : ¬ app.wr i k) :
    app.setParam i v s k = s k := by
  unfold wr at h
  simp only [not_or] at h
  unfold setParam
  split
  · rfl
  · rw [cascade_not_mem app _ _ h.2, upd_ne _ _ h.1]

theorem not_mem_desc_self (hwf : app.WF) (i : Nat) : i ∉ app.desc i := by
  intro h
  have := (mem_desc app).mp h
  exact Nat.lt_irrefl _ (hwf.anc_lt i this.1 i this.2)

/-- a parameter that is not written keeps the values of everything it reads -/
theorem anc_not_wr (hwf : app.WF) {i j : Nat} (hj : j < app.size) (h : ¬ app.wr i j) :
    ∀ a ∈ (app.param j).anc, ¬ app.wr i a := by
  intro a ha hw
  apply h
  rcases hw with rfl | hw
  · exact Or.inr ((mem_desc app).mpr ⟨hj, ha⟩)
  · have := (mem_desc app).mp hw
    exact Or.inr ((mem_desc app).mpr ⟨hj, hwf.anc_closed j hj a ha i this.2⟩)

/-- the written parameter's own ancestors are not written -/
theorem anc_self_not_wr (hwf : app.WF) {i : Nat} (hi : i < app.size) :
    ∀ a ∈ (app.param i).anc, ¬ app.wr i a := by
  intro a ha hw
  have hai := hwf.anc_lt i hi a ha
  rcases hw with rfl | hw
  · exact Nat.lt_irrefl _ hai
  · have := (mem_desc app).mp hw
    have := hwf.anc_lt a this.1 i this.2
    omega

theorem setParam_self (hwf : app.WF) (i : Nat) (v : Val) (s : State) : app.setParam i v s i = v := by
  unfold setParam
  split
  · next h => exact h.2
  · rw [cascade_not_mem app _ _ (not_mem_desc_self hwf i), upd_same]

theorem setParam_desc (hwf : app.WF) (i : Nat) (v : Val) (s : State)
    (hne : ¬ ((app.param i).kind = .tog ∧ s i = v)) {d : Nat} (hd : d ∈ app.desc i) :
    app.setParam i v s d = expected (app.param d) (app.setParam i v s) := by
  unfold setParam
  rw [if_neg hne]
  exact cascade_mem hwf _ (desc_sorted app i) (fun d hd => ((mem_desc app).mp hd).1) _ hd

/-- a consistent parameter outside the write set stays consistent -/
theorem setParam_expected_not_wr (hwf : app.WF) (i : Nat) (v : Val) (s : State) {j : Nat}
    (hj : j < app.size) (h : ¬ app.wr i j) :
    expected (app.param j) (app.setParam i v s) = expected (app.param j) s :=
  expected_frame hwf hj _ _ (fun a ha => setParam_not_wr app i v s (anc_not_wr hwf hj h a ha))

end App

/-! ## values the callbacks store -/

theorem clampInt_idem (mn mx : Option Int) (v : Int) :
    clampInt mn mx (clampInt mn mx v) = clampInt mn mx v := by
  unfold clampInt
  cases mn <;> cases mx <;> simp only <;> grind

theorem narrowChar_id {x : Int} (h1 : -128 ≤ x) (h2 : x ≤ 127) : narrowChar x = x := by
  unfold narrowChar; omega

theorem narrowChar_range (x : Int) : -128 ≤ narrowChar x ∧ narrowChar x ≤ 127 := by
  unfold narrowChar; omega

theorem clampInt_range (mn mx : Option Int) (v lo hi : Int) (hv : lo ≤ v ∧ v ≤ hi)
    (h1 : ∀ a, mn = some a → lo ≤ a ∧ a ≤ hi) (h2 : ∀ a, mx = some a → lo ≤ a ∧ a ≤ hi) :
    lo ≤ clampInt mn mx v ∧ clampInt mn mx v ≤ hi := by
  unfold clampInt
  cases mn <;> cases mx <;> simp only <;> grind

theorem fltLt_iff (a b : UInt32) :
    fltLt a b = true ↔ fltIsNaN a = false ∧ fltIsNaN b = false ∧ fltKey a < fltKey b := by
  simp [fltLt, and_assoc]

theorem clampFlt_idem (mn mx : Option UInt32)
    (h1 : ∀ a, mn = some a → fltIsNaN a = false) (h2 : ∀ b, mx = some b → fltIsNaN b = false)
    (h3 : ∀ a b, mn = some a → mx = some b → fltLt b a = false) (v : UInt32) :
    clampFlt mn mx (clampFlt mn mx v) = clampFlt mn mx v := by
  unfold clampFlt
  cases mn <;> cases mx <;> simp only <;> grind [fltLt_iff]


theorem enumKey_getElem (names : List Path) (hn : names.Nodup) (k : Nat) (hk : k < names.length) :
    enumKey names (names.getD k []) = some k := by
  unfold enumKey
  rw [← List.getElem_eq_getD (h := hk)]
  simp only [hn.idxOf_getElem k hk, hk, if_true]

theorem storable_opt_int (names : List Path) (hn : names.Nodup) (i : Int) :
    Storable (.opt names) (.int i) := by
  unfold Storable mapArgVal
  simp only
  split
  · next h =>
    simp only [store, enumKey_getElem names hn _ h.2]
    simp [Int.toNat_of_nonneg h.1]
  · rfl

theorem storable_of_store (k : Kind) (hk : KindOK k) (v v' : Val) (h : store k v = some v') :
    Storable k v' := by
  cases k with
  | int mn mx =>
    cases v <;> simp only [store, Option.some.injEq, reduceCtorEq] at h
    subst h
    simp [Storable, mapArgVal, store, clampInt_idem]
  | chr =>
    cases v <;> simp only [store, Option.some.injEq, reduceCtorEq] at h
    subst h
    rename_i c
    generalize narrowChar c = y
    have hr : 0 ≤ clampInt (some 0) (some 127) y ∧ clampInt (some 0) (some 127) y ≤ 127 := by
      unfold clampInt; simp only; grind
    simp only [Storable, mapArgVal, store, Option.some.injEq, Val.chr.injEq]
    rw [narrowChar_id (by omega) (by omega), clampInt_idem]
  | ichar mn mx =>
    cases v <;> simp only [store, Option.some.injEq, reduceCtorEq] at h
    subst h
    rename_i c
    have hr := clampInt_range mn mx (narrowChar c) (-128) 127 (narrowChar_range c) hk.1 hk.2
    simp only [Storable, mapArgVal, store, Option.some.injEq, Val.int.injEq]
    rw [narrowChar_id hr.1 hr.2, clampInt_idem]
  | flt mn mx =>
    cases v <;> simp only [store, Option.some.injEq, reduceCtorEq] at h
    subst h
    simp [Storable, mapArgVal, store, clampFlt_idem mn mx hk.1 hk.2.1 hk.2.2]
  | tog =>
    cases v <;> simp only [store, Option.some.injEq, reduceCtorEq] at h
    subst h
    rfl
  | opt names =>
    cases v <;> simp only [store, Option.some.injEq, reduceCtorEq] at h
    · subst h; exact storable_opt_int names hk _
    · subst h; exact storable_opt_int names hk _
    · rename_i sy
      cases he : enumKey names sy with
      | none =>
        simp [he] at h
        subst h
        exact storable_opt_int names hk _
      | some k =>
        simp [he] at h
        subst h
        exact storable_opt_int names hk _
  | str len =>
    cases v <;> simp only [store, Option.some.injEq, reduceCtorEq] at h
    subst h
    simp [Storable, mapArgVal, store, List.take_take]


/-! ## the invariant (S1, S2) -/

theorem evalDflt_mem_vals (p : Param) (s : State) :
    ∃ v ∈ p.dflt.vals, evalDflt p s = canonicalize p.kind v := by
  unfold evalDflt
  cases hd : p.dflt with
  | const v => exact ⟨v, by simp [Dflt.vals], rfl⟩
  | preset par tbl fb =>
    simp only [Dflt.vals]
    cases presetKey (s par) with
    | none => exact ⟨fb, by simp, rfl⟩
    | some k =>
      simp only [lookupPreset]
      cases hf : tbl.find? (fun e => e.1 = k) with
      | none => exact ⟨fb, by simp, by simp⟩
      | some e =>
        refine ⟨e.2, ?_, by simp⟩
        exact List.mem_cons_of_mem _ (List.mem_map.mpr ⟨e, List.mem_of_find?_eq_some hf, rfl⟩)

namespace App
variable {app : App}

theorem storable_evalDflt (hwf : app.WF) {i : Nat} (hi : i < app.size) (s : State) :
    Storable (app.param i).kind (evalDflt (app.param i) s) := by
  obtain ⟨v, hv, he⟩ := evalDflt_mem_vals (app.param i) s
  rw [he]
  exact hwf.dflt_storable i hi v hv

theorem storable_expected (hwf : app.WF) {i : Nat} (hi : i < app.size) (s : State) :
    Storable (app.param i).kind (expected (app.param i) s) := by
  unfold expected
  split
  · exact storable_evalDflt hwf hi s
  · rw [hwf.canon_ok i hi]; exact storable_evalDflt hwf hi _

theorem expected_init (hwf : app.WF) {i : Nat} (hi : i < app.size) :
    expected (app.param i) app.init = (app.param i).canon := by
  unfold expected
  split
  · exact (hwf.canon_ok i hi).symm
  · rfl

theorem inv_setParam (hwf : app.WF) (s : State) (hs : app.Inv s) (i : Nat) (hi : i < app.size)
    (v : Val) (hv : Storable (app.param i).kind v) (hg : guardsOn (app.param i) s = true) :
    app.Inv (app.setParam i v s) := by
  by_cases hne : (app.param i).kind = .tog ∧ s i = v
  · have : app.setParam i v s = s := by unfold setParam; rw [if_pos hne]
    rw [this]; exact hs
  · have hgi : guardsOn (app.param i) (app.setParam i v s) = true := by
      rw [guardsOn_frame hwf hi _ s (fun a ha => setParam_not_wr app i v s (anc_self_not_wr hwf hi a ha))]
      exact hg
    refine ⟨?_, ?_, ?_⟩
    · intro j hj
      by_cases hji : j = i
      · subst hji; rw [setParam_self hwf]; exact hv
      · by_cases hjd : j ∈ app.desc i
        · rw [setParam_desc hwf i v s hne hjd]; exact storable_expected hwf hj _
        · rw [setParam_not_wr app i v s (k := j) (by unfold wr; simp [hji, hjd])]
          exact hs.storable j hj
    · intro j hj hjg
      by_cases hji : j = i
      · subst hji; rw [hgi] at hjg; cases hjg
      · by_cases hjd : j ∈ app.desc i
        · rw [setParam_desc hwf i v s hne hjd]; unfold expected; rw [hjg]; rfl
        · have hnw : ¬ app.wr i j := by unfold wr; simp [hji, hjd]
          rw [setParam_not_wr app i v s hnw]
          apply hs.hidden_canon j hj
          rw [← hjg]
          exact (guardsOn_frame hwf hj _ s
            (fun a ha => setParam_not_wr app i v s (anc_not_wr hwf hj hnw a ha))).symm
    · intro j hj
      have hnw : ¬ app.wr i j := by
        rintro (rfl | h)
        · omega
        · have := ((mem_desc app).mp h).1; omega
      rw [setParam_not_wr app i v s hnw]
      exact hs.outside j hj

end App

/-- S1 -/
theorem inv_init (app : App) (hwf : app.WF) : app.Inv app.init := by
  refine ⟨?_, fun _ _ _ => rfl, fun _ _ => rfl⟩
  intro i hi
  show Storable _ (app.param i).canon
  rw [hwf.canon_ok i hi]
  exact App.storable_evalDflt hwf hi _

/-- S2 -/
theorem inv_dispatch (app : App) (hwf : app.WF) (s s' : State) (hs : app.Inv s) (addr : Path)
    (args : List Val) (h : app.dispatch addr args s = some s') : app.Inv s' := by
  unfold App.dispatch at h
  cases hf : app.findAddr addr with
  | none => simp [hf] at h
  | some i =>
    have hi := (App.findAddr_some app hf).1
    simp only [hf] at h
    split at h
    · cases h
    · match args, h with
      | [], h => cases h; exact hs
      | v :: rest, h =>
        simp only at h
        split at h
        · cases h
        · cases hst : store (app.param i).kind v with
          | none => simp [hst] at h
          | some v' =>
            simp only [hst] at h
            split at h
            · next hg =>
              cases h
              exact App.inv_setParam hwf s hs i hi v' (storable_of_store _ (hwf.kind_ok i hi) v v' hst) hg
            · cases h; exact hs

theorem inv_run (app : App) (hwf : app.WF) (msgs : List (Path × List Val)) (s : State)
    (hs : app.Inv s) : app.Inv (app.run msgs s) := by
  induction msgs generalizing s with
  | nil => exact hs
  | cons m r ih =>
    show app.Inv (app.run r ((app.dispatch m.1 m.2 s).getD s))
    apply ih
    cases hd : app.dispatch m.1 m.2 s with
    | none => exact hs
    | some s' => exact inv_dispatch app hwf s s' hs _ _ hd

theorem inv_reachable (app : App) (hwf : app.WF) (s : State) (h : app.Reachable s) : app.Inv s := by
  obtain ⟨msgs, rfl⟩ := h
  exact inv_run app hwf msgs _ (inv_init app hwf)


/-! ## commutation of independent dispatches (S3) -/

namespace App
variable {app : App}

/-- the part of `dispatch` behind the address look-up -/
def dispatchAt (app : App) (i : Nat) (args : List Val) (s : State) : Option State :=
  let p := app.param i
  if ptrOff p s then none
  else match args with
    | [] => some s
    | v :: rest =>
      if !rest.isEmpty && !lastAlt p.kind v then none
      else match store p.kind v with
      | none => none
      | some v' => if guardsOn p s then some (app.setParam i v' s) else some s

theorem dispatch_eq (app : App) (addr : Path) (args : List Val) (s : State) :
    app.dispatch addr args s = (app.findAddr addr).bind fun i => app.dispatchAt i args s := by
  unfold dispatch dispatchAt
  cases app.findAddr addr <;> rfl

theorem dispatchAt_wr (app : App) (i : Nat) (args : List Val) (s s' : State)
    (h : app.dispatchAt i args s = some s') : ∀ k, ¬ app.wr i k → s' k = s k := by
  intro k hk
  unfold dispatchAt at h
  simp only at h
  split at h
  · cases h
  · split at h
    · cases h; rfl
    · split at h
      · cases h
      · split at h
        · cases h
        · split at h
          · cases h; exact setParam_not_wr app i _ s hk
          · cases h; rfl

/-- what a `setParam` that really runs leaves behind -/
theorem setParam_shape (hwf : app.WF) (i : Nat) (v : Val) (s : State)
    (hne : ¬ ((app.param i).kind = .tog ∧ s i = v)) (k : Nat) :
    app.setParam i v s k =
      if k = i then v
      else if k ∈ app.desc i then expected (app.param k) (app.setParam i v s)
      else s k := by
  by_cases hki : k = i
  · subst hki; rw [if_pos rfl]; exact setParam_self hwf _ _ _
  · rw [if_neg hki]
    by_cases hkd : k ∈ app.desc i
    · rw [if_pos hkd]; exact setParam_desc hwf i v s hne hkd
    · rw [if_neg hkd]
      exact setParam_not_wr app i v s (fun h => h.elim hki hkd)

/-- nothing an independent port reads or holds is written -/
theorem indep_not_wr (hwf : app.WF) {pa pb : Nat} (ha : pa < app.size)
    (hne : pa ≠ pb) (h2 : pb ∉ (app.param pa).anc) : ∀ x, app.le x pa → ¬ app.wr pb x := by
  intro x hx hw
  have hpbx : app.le pb x := by
    rcases hw with rfl | hw
    · exact Or.inl rfl
    · exact Or.inr ((mem_desc app).mp hw).2
  rcases le_trans hwf ha hpbx hx with h | h
  · exact hne h.symm
  · exact h2 h

/-- confluence of the change hooks: two writes to ports of which neither depends on the other commute, also
    when they share dependants — a shared dependant takes its default from the final state in both orders -/
theorem setParam_commute (hwf : app.WF) {pa pb : Nat} (ha : pa < app.size) (hb : pb < app.size)
    (hne : pa ≠ pb) (h1 : pa ∉ (app.param pb).anc) (h2 : pb ∉ (app.param pa).anc)
    (v w : Val) (s : State) :
    app.setParam pb w (app.setParam pa v s) = app.setParam pa v (app.setParam pb w s) := by
  have hpa_nw : ¬ app.wr pb pa := indep_not_wr hwf ha hne h2 pa (Or.inl rfl)
  have hpb_nw : ¬ app.wr pa pb := indep_not_wr hwf hb hne.symm h1 pb (Or.inl rfl)
  have hsa : app.setParam pb w s pa = s pa := setParam_not_wr app pb w s hpa_nw
  have hsb : app.setParam pa v s pb = s pb := setParam_not_wr app pa v s hpb_nw
  by_cases hna : (app.param pa).kind = .tog ∧ s pa = v
  · have e1 : app.setParam pa v s = s := by unfold setParam; rw [if_pos hna]
    have e2 : app.setParam pa v (app.setParam pb w s) = app.setParam pb w s := by
      unfold setParam; rw [if_pos ⟨hna.1, by rw [← hna.2]; exact hsa⟩]
    rw [e1, e2]
  by_cases hnb : (app.param pb).kind = .tog ∧ s pb = w
  · have e1 : app.setParam pb w s = s := by unfold setParam; rw [if_pos hnb]
    have e2 : app.setParam pb w (app.setParam pa v s) = app.setParam pa v s := by
      unfold setParam; rw [if_pos ⟨hnb.1, by rw [← hnb.2]; exact hsb⟩]
    rw [e1, e2]
  have hna' : ¬ ((app.param pa).kind = .tog ∧ app.setParam pb w s pa = v) := by rw [hsa]; exact hna
  have hnb' : ¬ ((app.param pb).kind = .tog ∧ app.setParam pa v s pb = w) := by rw [hsb]; exact hnb
  apply State.ext
  intro k
  induction k using Nat.strongRecOn with
  | ind k ih =>
    rw [setParam_shape hwf pb w _ hnb' k, setParam_shape hwf pa v _ hna' k]
    rw [setParam_shape hwf pa v s hna k, setParam_shape hwf pb w s hnb k]
    have hfr : ∀ (hk : k < app.size),
        expected (app.param k) (app.setParam pb w (app.setParam pa v s))
          = expected (app.param k) (app.setParam pa v (app.setParam pb w s)) :=
      fun hk => expected_frame hwf hk _ _ (fun a haa => ih a (hwf.anc_lt k hk a haa))
    by_cases hkb : k = pb
    · subst hkb
      rw [if_pos rfl, if_neg hne.symm]
      have : k ∉ app.desc pa := fun h => hpb_nw (Or.inr h)
      rw [if_neg this, if_pos rfl]
    rw [if_neg hkb]
    by_cases hka : k = pa
    · subst hka
      rw [if_pos rfl]
      have : k ∉ app.desc pb := fun h => hpa_nw (Or.inr h)
      rw [if_neg this, if_pos rfl]
    rw [if_neg hka, if_neg hka, if_neg hkb]
    by_cases hdb : k ∈ app.desc pb
    · have hk := ((mem_desc app).mp hdb).1
      rw [if_pos hdb, if_pos hdb]
      by_cases hda : k ∈ app.desc pa
      · rw [if_pos hda]; exact hfr hk
      · rw [if_neg hda, hfr hk]
        exact setParam_expected_not_wr hwf pa v _ hk (fun h => h.elim hka hda)
    · rw [if_neg hdb, if_neg hdb]
      by_cases hda : k ∈ app.desc pa
      · have hk := ((mem_desc app).mp hda).1
        rw [if_pos hda, if_pos hda, ← hfr hk]
        exact (setParam_expected_not_wr hwf pb w _ hk (fun h => h.elim hkb hdb)).symm
      · rw [if_neg hda, if_neg hda]

/-- the outcome of `dispatchAt` is decided by what the port reads: no match, matched without a change, or a
    `setParam` -/
inductive Outcome where
  | miss
  | same
  | set (v : Val)

def outcome (app : App) (i : Nat) (args : List Val) (s : State) : Outcome :=
  let p := app.param i
  if ptrOff p s then .miss
  else match args with
    | [] => .same
    | v :: rest =>
      if !rest.isEmpty && !lastAlt p.kind v then .miss
      else match store p.kind v with
      | none => .miss
      | some v' => if guardsOn p s then .set v' else .same

def Outcome.run (app : App) (i : Nat) (s : State) : Outcome → Option State
  | .miss => none
  | .same => some s
  | .set v => some (app.setParam i v s)

theorem dispatchAt_outcome (app : App) (i : Nat) (args : List Val) (s : State) :
    app.dispatchAt i args s = (app.outcome i args s).run app i s := by
  unfold dispatchAt outcome
  simp only
  by_cases hp : ptrOff (app.param i) s = true
  · rw [if_pos hp, if_pos hp]; rfl
  · rw [if_neg hp, if_neg hp]
    match args with
    | [] => rfl
    | v :: rest =>
      simp only
      by_cases hl : (!rest.isEmpty && !lastAlt (app.param i).kind v) = true
      · rw [if_pos hl, if_pos hl]; rfl
      · rw [if_neg hl, if_neg hl]
        cases store (app.param i).kind v with
        | none => rfl
        | some v' =>
          simp only
          by_cases hg : guardsOn (app.param i) s = true
          · rw [if_pos hg, if_pos hg]; rfl
          · rw [if_neg hg, if_neg hg]; rfl

theorem outcome_frame (hwf : app.WF) {i : Nat} (hi : i < app.size) (args : List Val) (s t : State)
    (h : ∀ a ∈ (app.param i).anc, s a = t a) : app.outcome i args s = app.outcome i args t := by
  unfold outcome
  simp only
  rw [ptrOff_frame hwf hi s t h, guardsOn_frame hwf hi s t h]

/-- an independent dispatch does not change the outcome -/
theorem outcome_indep (hwf : app.WF) {pa pb : Nat} (ha : pa < app.size)
    (hne : pa ≠ pb) (h2 : pb ∉ (app.param pa).anc) (va vb : List Val) (s s' : State)
    (h : app.dispatchAt pb vb s = some s') : app.outcome pa va s' = app.outcome pa va s :=
  outcome_frame hwf ha va s' s (fun a haa =>
    dispatchAt_wr app pb vb s s' h a (indep_not_wr hwf ha hne h2 a (Or.inr haa)))

theorem dispatchAt_commute (hwf : app.WF) {pa pb : Nat} (ha : pa < app.size) (hb : pb < app.size)
    (hne : pa ≠ pb) (h1 : pa ∉ (app.param pb).anc) (h2 : pb ∉ (app.param pa).anc)
    (va vb : List Val) (s : State) :
    (app.dispatchAt pa va s).bind (app.dispatchAt pb vb)
      = (app.dispatchAt pb vb s).bind (app.dispatchAt pa va) := by
  have oa : ∀ s', app.dispatchAt pb vb s = some s' → app.outcome pa va s' = app.outcome pa va s :=
    fun s' h => outcome_indep hwf ha hne h2 va vb s s' h
  have ob : ∀ s', app.dispatchAt pa va s = some s' → app.outcome pb vb s' = app.outcome pb vb s :=
    fun s' h => outcome_indep hwf hb hne.symm h1 vb va s s' h
  rw [dispatchAt_outcome app pa va s] at ob ⊢
  rw [dispatchAt_outcome app pb vb s] at oa ⊢
  cases hoa : app.outcome pa va s with
  | miss =>
    rw [hoa] at oa
    cases hob : app.outcome pb vb s with
    | miss => rfl
    | same =>
      have := oa s (by rw [hob]; rfl)
      simp only [Outcome.run, Option.bind_some, Option.bind_none, dispatchAt_outcome, this]
    | set w =>
      have := oa _ (by rw [hob]; rfl)
      simp only [Outcome.run, Option.bind_some, Option.bind_none, dispatchAt_outcome, this]
  | same =>
    rw [hoa] at oa
    cases hob : app.outcome pb vb s with
    | miss =>
      simp only [Outcome.run, Option.bind_some, Option.bind_none, dispatchAt_outcome, hob]
    | same =>
      have := oa s (by rw [hob]; rfl)
      simp only [Outcome.run, Option.bind_some, dispatchAt_outcome, this, hob]
    | set w =>
      have := oa _ (by rw [hob]; rfl)
      simp only [Outcome.run, Option.bind_some, dispatchAt_outcome, this, hob]
  | set v =>
    rw [hoa] at oa ob
    have hb' := ob _ rfl
    cases hob : app.outcome pb vb s with
    | miss =>
      simp only [Outcome.run, Option.bind_some, Option.bind_none, dispatchAt_outcome, hb', hob]
    | same =>
      have := oa s (by rw [hob]; rfl)
      simp only [Outcome.run, Option.bind_some, dispatchAt_outcome, this, hb', hob]
    | set w =>
      have := oa _ (by rw [hob]; rfl)
      simp only [Outcome.run, Option.bind_some, dispatchAt_outcome, this, hb', hob]
      rw [setParam_commute hwf ha hb hne h1 h2]

theorem dispatch_commute (hwf : app.WF) (a1 a2 : Path) (v1 v2 : List Val)
    (h : ∀ pa pb, app.findAddr a1 = some pa → app.findAddr a2 = some pb →
      pa ≠ pb ∧ pa ∉ (app.param pb).anc ∧ pb ∉ (app.param pa).anc) (s : State) :
    (app.dispatch a1 v1 s).bind (app.dispatch a2 v2)
      = (app.dispatch a2 v2 s).bind (app.dispatch a1 v1) := by
  cases hf1 : app.findAddr a1 with
  | none =>
    have e : ∀ t, app.dispatch a1 v1 t = none := fun t => by rw [dispatch_eq, hf1]; rfl
    rw [e]
    cases app.dispatch a2 v2 s with
    | none => rfl
    | some x => simp [e]
  | some pa =>
    cases hf2 : app.findAddr a2 with
    | none =>
      have e : ∀ t, app.dispatch a2 v2 t = none := fun t => by rw [dispatch_eq, hf2]; rfl
      rw [e]
      cases app.dispatch a1 v1 s with
      | none => rfl
      | some x => simp [e]
    | some pb =>
      have e1 : app.dispatch a1 v1 = app.dispatchAt pa v1 :=
        funext fun t => by rw [dispatch_eq, hf1]; rfl
      have e2 : app.dispatch a2 v2 = app.dispatchAt pb v2 :=
        funext fun t => by rw [dispatch_eq, hf2]; rfl
      rw [e1, e2]
      obtain ⟨hne, h1, h2⟩ := h pa pb hf1 hf2
      exact dispatchAt_commute hwf (findAddr_some app hf1).1 (findAddr_some app hf2).1 hne h1 h2 v1 v2 s

end App

/-! ## lines as message sequences (S3) -/

/-- two lists of steps that commute element-wise commute as wholes -/
theorem runSteps_comm_lists {σ ι : Type} (step : ι → σ → Option σ) (l₁ l₂ : List ι)
    (hc : ∀ x ∈ l₁, ∀ y ∈ l₂, ∀ s, (step x s).bind (step y) = (step y s).bind (step x)) (s : σ) :
    (runSteps step l₁ s).bind (runSteps step l₂) = (runSteps step l₂ s).bind (runSteps step l₁) := by
  rw [← runSteps_append, ← runSteps_append]
  induction l₂ generalizing s with
  | nil => simp
  | cons y r ih =>
    rw [runSteps_move_front step y l₁ r
      (fun x hx s => (hc x hx y List.mem_cons_self s).symm) s]
    show (step y s).bind (runSteps step (l₁ ++ r)) = (step y s).bind (runSteps step (r ++ l₁))
    cases step y s with
    | none => rfl
    | some s' =>
      exact ih (fun x hx y' hy' => hc x hx y' (List.mem_cons_of_mem _ hy')) s'

/-- the messages an array line is split into -/
def arrMsgs (addr : Path) : List Val → Nat → List (Path × List Val)
  | [], _ => []
  | v :: vs, i => (addr ++ natDigits i, [v]) :: arrMsgs addr vs (i + 1)

/-- the messages `applyLine` dispatches for a line -/
def lineMsgs (l : Line) : List (Path × List Val) :=
  match l.args with
  | .plain vs => [(l.addr, vs)]
  | .arr [] => [(l.addr ++ natDigits 0, [])]
  | .arr vs => arrMsgs l.addr vs 0

theorem mem_arrMsgs {addr : Path} {vs : List Val} {i : Nat} {m : Path × List Val}
    (h : m ∈ arrMsgs addr vs i) : ∃ k, i ≤ k ∧ k < i + vs.length ∧ m.1 = addr ++ natDigits k := by
  induction vs generalizing i with
  | nil => cases h
  | cons v r ih =>
    rcases List.mem_cons.mp h with rfl | h
    · exact ⟨i, Nat.le_refl _, by simp, rfl⟩
    · obtain ⟨k, h1, h2, h3⟩ := ih h
      exact ⟨k, by omega, by simp only [List.length_cons]; omega, h3⟩

namespace App
variable {app : App}

def msgStep (app : App) (m : Path × List Val) (s : State) : Option State := app.dispatch m.1 m.2 s

theorem dispatchArr_eq (app : App) (addr : Path) (vs : List Val) (i : Nat) (s : State) :
    app.dispatchArr addr vs i s = runSteps app.msgStep (arrMsgs addr vs i) s := by
  induction vs generalizing i s with
  | nil => rfl
  | cons v r ih =>
    show (match app.dispatch (addr ++ natDigits i) [v] s with
      | none => none
      | some s' => app.dispatchArr addr r (i + 1) s')
      = (app.dispatch (addr ++ natDigits i) [v] s).bind (runSteps app.msgStep (arrMsgs addr r (i + 1)))
    cases app.dispatch (addr ++ natDigits i) [v] s with
    | none => rfl
    | some s' => exact ih (i + 1) s'

theorem applyLine_eq (app : App) (l : Line) (s : State) :
    app.applyLine l s = runSteps app.msgStep (lineMsgs l) s := by
  obtain ⟨addr, args⟩ := l
  cases args with
  | plain vs =>
    show app.dispatch addr vs s = (app.dispatch addr vs s).bind some
    simp
  | arr vs =>
    cases vs with
    | nil =>
      show app.dispatch (addr ++ natDigits 0) [] s = (app.dispatch (addr ++ natDigits 0) [] s).bind some
      simp
    | cons v r => exact dispatchArr_eq app addr (v :: r) 0 s

theorem lineMsgs_params (app : App) (l : Line) (m : Path × List Val) (hm : m ∈ lineMsgs l)
    (p : Nat) (hp : app.findAddr m.1 = some p) : p ∈ app.lineParams l := by
  obtain ⟨addr, args⟩ := l
  cases args with
  | plain vs =>
    simp only [lineMsgs, List.mem_singleton] at hm
    subst hm
    simp [lineParams, hp]
  | arr vs =>
    cases vs with
    | nil =>
      simp only [lineMsgs, List.mem_singleton] at hm
      subst hm
      simp only [lineParams, List.mem_filterMap, List.mem_range]
      exact ⟨0, by simp, hp⟩
    | cons v r =>
      obtain ⟨k, _, hk, he⟩ := mem_arrMsgs (show m ∈ arrMsgs addr (v :: r) 0 from hm)
      simp only [lineParams, List.mem_filterMap, List.mem_range]
      rw [he] at hp
      exact ⟨k, by omega, hp⟩

end App

/-- S3: lines whose parameters are pairwise different and unrelated by ancestry commute,
    on every state -/
theorem independent_lines_commute (app : App) (hwf : app.WF) (a b : Line)
    (hab : ∀ pa ∈ app.lineParams a, ∀ pb ∈ app.lineParams b,
        pa ≠ pb ∧ pa ∉ (app.param pb).anc ∧ pb ∉ (app.param pa).anc) (s : State) :
    (app.applyLine a s).bind (app.applyLine b) = (app.applyLine b s).bind (app.applyLine a) := by
  have ea : app.applyLine a = runSteps app.msgStep (lineMsgs a) := funext (App.applyLine_eq app a)
  have eb : app.applyLine b = runSteps app.msgStep (lineMsgs b) := funext (App.applyLine_eq app b)
  rw [ea, eb]
  apply runSteps_comm_lists
  intro x hx y hy t
  exact App.dispatch_commute hwf x.1 y.1 x.2 y.2
    (fun pa pb h1 h2 => hab pa (App.lineMsgs_params app a x hx pa h1) pb (App.lineMsgs_params app b y hy pb h2)) t


/-! ## shape of the saved lines (S5, S8) -/

theorem tiling_facts {a b : Nat} {l : List Item} (h : Tiling a l b) :
    a ≤ b ∧ (∀ it ∈ l, a ≤ it.lo ∧ it.lo < it.hi ∧ it.hi ≤ b) ∧ l.Pairwise (fun x y => x.hi ≤ y.lo) := by
  induction l generalizing a with
  | nil =>
    have : a = b := h
    subst this
    exact ⟨Nat.le_refl _, fun _ h => (by cases h), List.Pairwise.nil⟩
  | cons it r ih =>
    obtain ⟨h1, h2, h3⟩ := h
    obtain ⟨i1, i2, i3⟩ := ih h3
    refine ⟨by omega, ?_, List.pairwise_cons.mpr ⟨fun y hy => (i2 y hy).1, i3⟩⟩
    intro x hx
    rcases List.mem_cons.mp hx with rfl | hx
    · exact ⟨by omega, h2, i1⟩
    · have := i2 x hx
      exact ⟨by omega, this.2.1, this.2.2⟩

namespace App
variable {app : App}

theorem saveItem_scalar (app : App) (s : State) (i : Nat) :
    app.saveItem s (.scalar i) =
      if guardsOn (app.param i) s = true then
        if evalDflt (app.param i) s = s i then none
        else some ⟨(app.param i).addr, .plain [mapArgVal (app.param i).kind (s i)]⟩
      else none := by
  by_cases h : guardsOn (app.param i) s = true <;> simp [saveItem, h]

theorem saveItem_array (app : App) (s : State) (base : Path) (first len : Nat) :
    app.saveItem s (.array base first len) =
      if guardsOn (app.param first) s = true then
        if ((List.range len).map (· + first)).map (fun i => evalDflt (app.param i) s)
            = ((List.range len).map (· + first)).map (fun i => s i) then none
        else some ⟨base, .arr ((((List.range len).map (· + first)).take
          (firstEqualIndex (((List.range len).map (· + first)).map (fun i => evalDflt (app.param i) s))
            (((List.range len).map (· + first)).map (fun i => mapArgVal (app.param i).kind (s i))) 0 0)).map
            fun i => mapArgVal (app.param i).kind (s i))⟩
      else none := by
  by_cases h : guardsOn (app.param first) s = true <;> simp [saveItem, h]

theorem saveItem_reached {s : State} {it : Item} {l : Line} (h : app.saveItem s it = some l) :
    app.itemReached s it = true := by
  cases it with
  | scalar i =>
    rw [saveItem_scalar] at h
    unfold itemReached
    split at h
    · assumption
    · cases h
  | array base first len =>
    rw [saveItem_array] at h
    unfold itemReached
    split at h
    · assumption
    · cases h

theorem saveItem_addr {s : State} {it : Item} {l : Line} (h : app.saveItem s it = some l) :
    l.addr = app.itemAddr it := by
  cases it with
  | scalar i =>
    rw [saveItem_scalar] at h
    split at h
    · split at h
      · cases h
      · cases h; rfl
    · cases h
  | array base first len =>
    rw [saveItem_array] at h
    split at h
    · split at h
      · cases h
      · cases h; rfl
    · cases h

/-- with distinct item addresses the `written` test never fires -/
theorem saveFrom_eq (app : App) (s : State) (l : List Item) (w : List Path)
    (hnd : (l.map app.itemAddr).Nodup) (hw : ∀ it ∈ l, app.itemAddr it ∉ w) :
    app.saveFrom s l w = l.filterMap (app.saveItem s) := by
  induction l generalizing w with
  | nil => rfl
  | cons it r ih =>
    have hnd' := List.nodup_cons.mp (show (app.itemAddr it :: r.map app.itemAddr).Nodup from hnd)
    have hr : ∀ w', (∀ x ∈ w', x = app.itemAddr it ∨ x ∈ w) →
        app.saveFrom s r w' = r.filterMap (app.saveItem s) := by
      intro w' hw'
      apply ih w' hnd'.2
      intro it' hit' hmem
      rcases hw' _ hmem with h | h
      · exact hnd'.1 (h ▸ List.mem_map_of_mem hit')
      · exact hw it' (List.mem_cons_of_mem _ hit') h
    unfold saveFrom
    by_cases hre : app.itemReached s it = true
    · have hc : w.contains (app.itemAddr it) = false := by
        simpa using hw it List.mem_cons_self
      simp only [hre, Bool.not_true, Bool.false_eq_true, if_false, hc]
      cases hsi : app.saveItem s it with
      | none =>
        simp only [List.filterMap_cons, hsi]
        exact hr _ (fun x hx => by simpa using hx)
      | some ln =>
        simp only [List.filterMap_cons, hsi]
        congr 1
        exact hr _ (fun x hx => by simpa using hx)
    · have hsi : app.saveItem s it = none := by
        cases hsi : app.saveItem s it with
        | none => rfl
        | some ln => exact absurd (saveItem_reached hsi) hre
      simp only [Bool.not_eq_true] at hre
      simp only [hre, Bool.not_false, if_true, List.filterMap_cons, hsi]
      exact hr w (fun x hx => Or.inr hx)

theorem saveFrom_perm_eq (hwf : app.WF) (s : State) (rw : List Item) (hperm : rw.Perm app.walk) :
    app.saveFrom s rw [] = rw.filterMap (app.saveItem s) := by
  apply saveFrom_eq
  · exact ((hperm.map app.itemAddr).nodup_iff).mpr hwf.item_addr_nodup
  · intro _ _ h; cases h

theorem save_eq (hwf : app.WF) (s : State) : app.save s = app.walk.filterMap (app.saveItem s) :=
  saveFrom_perm_eq hwf s app.walk (List.Perm.refl _)

end App

/-- S5 -/
theorem saveFrom_perm (app : App) (hwf : app.WF) (s : State) (rw : List Item)
    (hperm : rw.Perm app.walk) : (app.saveFrom s rw []).Perm (app.save s) := by
  rw [App.saveFrom_perm_eq hwf s rw hperm, App.save_eq hwf]
  exact hperm.filterMap _

/-- S8: what is saved: exactly the reached ports whose value differs from the default -/
theorem mem_save_iff (app : App) (hwf : app.WF) (s : State) (l : Line) :
    l ∈ app.save s ↔ ∃ it ∈ app.walk, app.itemReached s it = true ∧ app.saveItem s it = some l := by
  rw [App.save_eq hwf, List.mem_filterMap]
  constructor
  · rintro ⟨it, h1, h2⟩; exact ⟨it, h1, App.saveItem_reached h2, h2⟩
  · rintro ⟨it, h1, _, h2⟩; exact ⟨it, h1, h2⟩


/-! ## shape of the saved lines (S6, S7, S9) -/
namespace App
variable {app : App}

theorem param_default (app : App) {i : Nat} (h : app.size ≤ i) : app.param i = default := by
  unfold param
  rw [List.getD_eq_getElem?_getD, List.getElem?_eq_none h]
  rfl

/-- a fresh instance holds the defaults, also at indices that are no parameters -/
theorem evalDflt_init (hwf : app.WF) (i : Nat) : evalDflt (app.param i) app.init = app.init i := by
  by_cases hi : i < app.size
  · exact (hwf.canon_ok i hi).symm
  · show evalDflt (app.param i) app.init = (app.param i).canon
    rw [param_default app (Nat.le_of_not_lt hi)]
    rfl

theorem saveItem_init (hwf : app.WF) (it : Item) : app.saveItem app.init it = none := by
  cases it with
  | scalar i =>
    rw [saveItem_scalar]
    split
    · rw [if_pos (evalDflt_init hwf i)]
    · rfl
  | array base first len =>
    rw [saveItem_array]
    split
    · rw [if_pos]
      exact List.map_congr_left (fun i _ => evalDflt_init hwf i)
    · rfl

/-- an item of the walk that lies inside the parameter range -/
def Good (app : App) (it : Item) : Prop := it ∈ app.walk ∧ it.lo < it.hi ∧ it.hi ≤ app.size

theorem good_of_tiling (app : App) {rw : List Item} (hperm : rw.Perm app.walk)
    (htile : Tiling 0 rw app.size) : ∀ it ∈ rw, app.Good it := by
  intro it hit
  have := (tiling_facts htile).2.1 it hit
  exact ⟨hperm.subset hit, this.2.1, this.2.2⟩

theorem saveItem_lineParams (hwf : app.WF) (s : State) {it : Item} (hg : app.Good it) {l : Line}
    (h : app.saveItem s it = some l) : ∀ p ∈ app.lineParams l, it.lo ≤ p ∧ p < it.hi := by
  obtain ⟨hw, hlt, hsz⟩ := hg
  cases it with
  | scalar i =>
    simp only [Item.lo, Item.hi] at hlt hsz ⊢
    rw [saveItem_scalar] at h
    split at h
    · split at h
      · cases h
      · cases h
        intro p hp
        simp only [lineParams, findAddr_param app hwf.addr_nodup (show i < app.size by omega),
          Option.toList_some, List.mem_singleton] at hp
        omega
    · cases h
  | array base first len =>
    simp only [Item.lo, Item.hi] at hlt hsz ⊢
    rw [saveItem_array] at h
    split at h
    · split at h
      · cases h
      · cases h
        intro p hp
        simp only [lineParams, List.mem_filterMap, List.mem_range, List.length_map,
          List.length_take, List.length_range] at hp
        obtain ⟨k, hk, hf⟩ := hp
        have hkl : k < len := by omega
        obtain ⟨_, hel⟩ := hwf.array_ok base first len hw
        have hadr := (hel k hkl).1
        rw [← hadr, findAddr_param app hwf.addr_nodup (show first + k < app.size by omega)] at hf
        cases hf
        omega
    · cases h

theorem saveItem_lineOK (s : State) {it : Item} (hw : it ∈ app.walk) {l : Line}
    (h : app.saveItem s it = some l) : app.LineOK l := by
  cases it with
  | scalar i =>
    rw [saveItem_scalar] at h
    split at h
    · split at h
      · cases h
      · cases h; trivial
    · cases h
  | array base first len =>
    rw [saveItem_array] at h
    split at h
    · split at h
      · cases h
      · cases h
        refine ⟨first, len, hw, ?_⟩
        simp only [List.length_map, List.length_take, List.length_range]
        omega
    · cases h

end App

/-- S9 -/
theorem save_init (app : App) (hwf : app.WF) : app.save app.init = [] := by
  rw [App.save_eq hwf, List.filterMap_eq_nil_iff]
  intro it _
  exact App.saveItem_init hwf it

/-- S6: in index order no line stands before one that must precede it -/
theorem saveFrom_topo (app : App) (hwf : app.WF) (s : State) (rw : List Item)
    (hperm : rw.Perm app.walk) (htile : Tiling 0 rw app.size) :
    (app.saveFrom s rw []).Pairwise (fun a b => ¬ app.lineLt b a) := by
  rw [App.saveFrom_perm_eq hwf s rw hperm]
  have hp : rw.Pairwise (fun x y => app.Good x ∧ app.Good y ∧ x.hi ≤ y.lo) :=
    List.Pairwise.imp_of_mem
      (fun hx hy h => ⟨App.good_of_tiling app hperm htile _ hx, App.good_of_tiling app hperm htile _ hy, h⟩)
      (tiling_facts htile).2.2
  refine List.Pairwise.filterMap _ ?_ hp
  rintro x y ⟨gx, gy, hxy⟩ a ha b hb ⟨pb, hpb, pa, hpa, hanc⟩
  have h1 := App.saveItem_lineParams hwf s gx ha pa hpa
  have h2 := App.saveItem_lineParams hwf s gy hb pb hpb
  have := hwf.anc_lt pa (by have := gx.2.2; omega) pb hanc
  omega

/-- S7 -/
theorem save_fileOK (app : App) (hwf : app.WF) (s : State) (hs : app.Inv s) : app.FileOK (app.save s) := by
  have _ := hs  -- not needed: the shape of `save` does not depend on the invariant
  obtain ⟨rw, hperm, htile⟩ := hwf.walk_tiles
  rw [App.save_eq hwf]
  refine ⟨?_, ?_, ?_⟩
  · have hsub : ((app.walk.filterMap (app.saveItem s)).map (·.addr)).Sublist (app.walk.map app.itemAddr) := by
      generalize app.walk = l
      induction l with
      | nil => exact List.Sublist.refl _
      | cons it r ih =>
        rw [List.filterMap_cons]
        cases hsi : app.saveItem s it with
        | none => exact ih.cons _
        | some ln =>
          simp only [List.map_cons]
          rw [App.saveItem_addr hsi]
          exact ih.cons_cons _
    exact hsub.nodup hwf.item_addr_nodup
  · intro l hl
    obtain ⟨it, hit, hsi⟩ := List.mem_filterMap.mp hl
    exact App.saveItem_lineOK s hit hsi
  · have hp : rw.Pairwise (fun x y => app.Good x ∧ app.Good y ∧ (x.hi ≤ y.lo ∨ y.hi ≤ x.lo)) :=
      List.Pairwise.imp_of_mem
        (fun hx hy h => ⟨App.good_of_tiling app hperm htile _ hx,
          App.good_of_tiling app hperm htile _ hy, Or.inl h⟩)
        (tiling_facts htile).2.2
    have hp' : app.walk.Pairwise (fun x y => app.Good x ∧ app.Good y ∧ (x.hi ≤ y.lo ∨ y.hi ≤ x.lo)) :=
      (hperm.pairwise_iff (fun ⟨a, b, c⟩ => ⟨b, a, c.symm⟩)).mp hp
    refine List.Pairwise.filterMap _ ?_ hp'
    rintro x y ⟨gx, gy, hxy⟩ a ha b hb p hpa hpb
    have h1 := App.saveItem_lineParams hwf s gx ha p hpa
    have h2 := App.saveItem_lineParams hwf s gy hb p hpb
    omega


/-! ## restoring a state: scalar ports (S4) -/
namespace App
variable {app : App}

/-- state while the lines of `s` are loaded in index order into a fresh instance: below
    `lo` it is `s` already, from `lo` on every parameter holds its `expected` value -/
structure Mid (app : App) (s : State) (lo : Nat) (t : State) : Prop where
  below : ∀ i, i < lo → t i = s i
  above : ∀ i, lo ≤ i → i < app.size → t i = expected (app.param i) t
  outside : ∀ i, app.size ≤ i → t i = s i

theorem mid_init (hwf : app.WF) (s : State) (hs : app.Inv s) : app.Mid s 0 app.init :=
  ⟨fun _ h => by omega, fun i _ hi => (expected_init hwf hi).symm, fun i hi => (hs.outside i hi).symm⟩

theorem Mid.extend {s t : State} {lo hi : Nat} (hm : app.Mid s lo t) (hle : lo ≤ hi)
    (h : ∀ i, lo ≤ i → i < hi → t i = s i) : app.Mid s hi t :=
  ⟨fun i hi' => if hlt : i < lo then hm.below i hlt else h i (by omega) hi',
   fun i h1 h2 => hm.above i (by omega) h2, hm.outside⟩

theorem Mid.succ {s t : State} {k : Nat} (hm : app.Mid s k t) (h : t k = s k) : app.Mid s (k + 1) t := by
  apply hm.extend (by omega)
  intro i h1 h2
  have : i = k := by omega
  subst this
  exact h

theorem Mid.final {s t : State} (hm : app.Mid s app.size t) : t = s := by
  apply State.ext
  intro i
  by_cases hi : i < app.size
  · exact hm.below i hi
  · exact hm.outside i (by omega)

/-- one step of the restore loop -/
def stepItem (app : App) (o : Option Line) (t : State) : Option State :=
  match o with
  | none => some t
  | some l => app.applyLine l t

theorem mid_setParam (hwf : app.WF) {s t : State} {k : Nat} (hk : k < app.size) (hm : app.Mid s k t) :
    app.Mid s (k + 1) (app.setParam k (s k) t) := by
  by_cases hne : (app.param k).kind = .tog ∧ t k = s k
  · have : app.setParam k (s k) t = t := by unfold setParam; rw [if_pos hne]
    rw [this]
    exact hm.succ hne.2
  · have hnw : ∀ i, i ≠ k → i ∉ app.desc k → ¬ app.wr k i := by
      intro i h1 h2 h; exact h.elim h1 h2
    refine ⟨?_, ?_, ?_⟩
    · intro i hi
      by_cases hik : i = k
      · subst hik; exact setParam_self hwf _ _ _
      · have hd : i ∉ app.desc k := fun h => by
          have h' := (mem_desc app).mp h
          have := hwf.anc_lt i h'.1 k h'.2
          omega
        rw [setParam_not_wr app k _ t (hnw i hik hd)]
        exact hm.below i (by omega)
    · intro i h1 h2
      by_cases hd : i ∈ app.desc k
      · exact setParam_desc hwf k _ t hne hd
      · have := hnw i (by omega) hd
        rw [setParam_not_wr app k _ t this, setParam_expected_not_wr hwf k _ t h2 this]
        exact hm.above i (by omega) h2
    · intro i hi
      have hd : i ∉ app.desc k := fun h => by have := ((mem_desc app).mp h).1; omega
      rw [setParam_not_wr app k _ t (hnw i (by omega) hd)]
      exact hm.outside i hi

theorem step_scalar (hwf : app.WF) {s : State} (hs : app.Inv s) {k : Nat} (hk : k < app.size)
    {t : State} (hm : app.Mid s k t) :
    ∃ t', app.stepItem (app.saveItem s (.scalar k)) t = some t' ∧ app.Mid s (k + 1) t' := by
  have hfr : ∀ a ∈ (app.param k).anc, t a = s a :=
    fun a ha => hm.below a (hwf.anc_lt k hk a ha)
  have hexp := expected_frame hwf hk t s hfr
  have hg := guardsOn_frame hwf hk t s hfr
  have htk : t k = expected (app.param k) s := by rw [hm.above k (Nat.le_refl _) hk, hexp]
  have hone : t k = s k → app.Mid s (k + 1) t := hm.succ
  rw [saveItem_scalar]
  split
  · next hgs =>
    split
    · next heq =>
      refine ⟨t, rfl, hone ?_⟩
      rw [htk]; unfold expected; rw [if_pos hgs]; exact heq
    · refine ⟨app.setParam k (s k) t, ?_, mid_setParam hwf hk hm⟩
      show app.dispatch (app.param k).addr [mapArgVal (app.param k).kind (s k)] t = _
      rw [dispatch_eq, findAddr_param app hwf.addr_nodup hk, Option.bind_some]
      unfold dispatchAt
      have hgt : guardsOn (app.param k) t = true := hg.trans hgs
      have hst : store (app.param k).kind (mapArgVal (app.param k).kind (s k)) = some (s k) :=
        hs.storable k hk
      simp only [ptrOff_of_guardsOn _ _ hgt, hst, hgt, if_true, Bool.false_eq_true, if_false, List.isEmpty_nil,
        Bool.not_true, Bool.false_and]
  · next hgs =>
    refine ⟨t, rfl, hone ?_⟩
    simp only [Bool.not_eq_true] at hgs
    rw [htk, hs.hidden_canon k hk hgs]
    unfold expected
    rw [hgs]; rfl

end App

/-! ## restoring a state: array ports (S4) -/

theorem firstEqualIndex_ge (ds rs : List Val) (i acc : Nat) (h : acc ≤ i) :
    acc ≤ firstEqualIndex ds rs i acc := by
  induction ds generalizing rs i acc with
  | nil => unfold firstEqualIndex; exact Nat.le_refl _
  | cons d ds ih =>
    cases rs with
    | nil => unfold firstEqualIndex; exact Nat.le_refl _
    | cons r rs =>
      unfold firstEqualIndex
      by_cases hdr : d = r
      · rw [if_pos hdr]; exact ih rs (i + 1) acc (by omega)
      · rw [if_neg hdr]
        have := ih rs (i + 1) (i + 1) (Nat.le_refl _)
        omega

/-- behind the printed prefix the runtime values equal the defaults -/
theorem firstEqualIndex_suffix (ds rs : List Val) (i acc : Nat) (h : acc ≤ i) (j : Nat)
    (h1 : j < ds.length) (h2 : j < rs.length) (hle : firstEqualIndex ds rs i acc ≤ i + j) :
    ds[j] = rs[j] := by
  induction ds generalizing rs i acc j with
  | nil => cases h1
  | cons d ds ih =>
    cases rs with
    | nil => cases h2
    | cons r rs =>
      unfold firstEqualIndex at hle
      cases j with
      | zero =>
        by_cases hdr : d = r
        · exact hdr
        · rw [if_neg hdr] at hle
          have := firstEqualIndex_ge ds rs (i + 1) (i + 1) (Nat.le_refl _)
          omega
      | succ j =>
        simp only [List.getElem_cons_succ]
        simp only [List.length_cons] at h1 h2
        refine ih rs (i + 1) (if d = r then acc else i + 1) (by split <;> omega) j
          (by omega) (by omega) (by omega)

end Rtosc.Save
namespace Rtosc.Save

/-- an element that equals its (canonicalised) default after `map_arg_vals` equalled it before: an option's index
    becomes a symbol, which no canonicalised default of that port is -/
theorem mapArgVal_eq_canonicalize (k : Kind) (v x : Val) (h : mapArgVal k v = canonicalize k x) :
    v = canonicalize k x := by
  cases k with
  | opt names =>
    cases v with
    | int i =>
      unfold mapArgVal at h
      simp only at h
      split at h
      · next hin =>
        exfalso
        have hlt : i.toNat < names.length := hin.2
        have hmem : names.getD i.toNat [] ∈ names := by
          rw [List.getD_eq_getElem?_getD, List.getElem?_eq_getElem hlt]; exact List.getElem_mem _
        cases x with
        | sym t =>
          unfold canonicalize at h
          simp only at h
          cases hk : enumKey names t with
          | some j => rw [hk] at h; cases h
          | none =>
            rw [hk] at h
            cases h
            unfold enumKey at hk
            simp only at hk
            split at hk
            · cases hk
            · next hnl => exact hnl (List.idxOf_lt_length_of_mem hmem)
        | int j => simp [canonicalize] at h
        | chr j => simp [canonicalize] at h
        | flt j => simp [canonicalize] at h
        | bool j => simp [canonicalize] at h
        | str j => simp [canonicalize] at h
      · exact h
    | chr _ => exact h
    | flt _ => exact h
    | bool _ => exact h
    | sym _ => exact h
    | str _ => exact h
  | int _ _ => exact h
  | chr => exact h
  | ichar _ _ => exact h
  | flt _ _ => exact h
  | tog => exact h
  | str _ => exact h

theorem mapArgVal_eq_evalDflt (p : Param) (s : State) (v : Val) (h : evalDflt p s = mapArgVal p.kind v) :
    evalDflt p s = v := by
  unfold evalDflt at h ⊢
  exact (mapArgVal_eq_canonicalize _ _ _ h.symm).symm

theorem arr_lists (f g : Nat → Val) (first len : Nat) :
    (∀ k, k < len → firstEqualIndex (((List.range len).map (· + first)).map f)
        (((List.range len).map (· + first)).map g) 0 0 ≤ k → f (first + k) = g (first + k)) ∧
    ((((List.range len).map (· + first)).map f) ≠ (((List.range len).map (· + first)).map g) →
      0 < min (firstEqualIndex (((List.range len).map (· + first)).map f)
        (((List.range len).map (· + first)).map g) 0 0) len) := by
  have key : ∀ k (hk : k < len), firstEqualIndex (((List.range len).map (· + first)).map f)
        (((List.range len).map (· + first)).map g) 0 0 ≤ k →
        (((List.range len).map (· + first)).map f)[k]'(by simpa using hk)
          = (((List.range len).map (· + first)).map g)[k]'(by simpa using hk) := by
    intro k hk hn
    exact firstEqualIndex_suffix _ _ 0 0 (Nat.le_refl _) k _ _ (by omega)
  constructor
  · intro k hk hn
    have := key k hk hn
    simpa [Nat.add_comm] using this
  · intro hne
    apply Nat.pos_of_ne_zero
    intro h0
    apply hne
    apply List.ext_getElem (by simp)
    intro k h1 h2
    have hk : k < len := by simpa using h1
    exact key k hk (by omega)

theorem arr_vals_eq (g : Nat → Val) (first len n : Nat) :
    (((List.range len).map (· + first)).take n).map g
      = (List.range' 0 (min n len)).map (fun k => g (first + k)) := by
  rw [← List.map_take, List.take_range, List.map_map, List.range_eq_range']
  apply List.map_congr_left
  intro k _
  simp [Nat.add_comm]

namespace App
variable {app : App}

theorem applyLine_arr_ne (app : App) (a : Path) (vs : List Val) (h : vs ≠ []) (t : State) :
    app.applyLine ⟨a, .arr vs⟩ t = app.dispatchArr a vs 0 t := by
  cases vs with
  | nil => exact absurd rfl h
  | cons v r => rfl

theorem arr_elem (hwf : app.WF) {s : State} (hs : app.Inv s) {base : Path} {first len : Nat}
    (hw : Item.array base first len ∈ app.walk) (hsz : first + len ≤ app.size)
    (hgs : guardsOn (app.param first) s = true) {k : Nat} (hk : k < len) (cur : State)
    (hcur : ∀ x, x < first → cur x = s x) :
    ∃ r, app.dispatch (base ++ natDigits k) [mapArgVal (app.param (first + k)).kind (s (first + k))] cur
        = some r ∧ r (first + k) = s (first + k) ∧ ∀ x, x ≠ first + k → r x = cur x := by
  obtain ⟨_, hel⟩ := hwf.array_ok base first len hw
  obtain ⟨haddr, hguards, hanc, hnd⟩ := hel k hk
  have hfirst : first < app.size := by omega
  have hks : first + k < app.size := by omega
  have hancs : ∀ a ∈ (app.param (first + k)).anc, cur a = s a := by
    intro a ha
    rw [hanc] at ha
    exact hcur a (hwf.anc_lt first hfirst a ha)
  have hgt : guardsOn (app.param (first + k)) cur = true := by
    rw [guardsOn_frame hwf hks cur s hancs]
    unfold guardsOn; rw [hguards]; exact hgs
  refine ⟨app.setParam (first + k) (s (first + k)) cur, ?_, setParam_self hwf _ _ _, ?_⟩
  · rw [← haddr, dispatch_eq, findAddr_param app hwf.addr_nodup hks, Option.bind_some]
    unfold dispatchAt
    have hst : store (app.param (first + k)).kind
        (mapArgVal (app.param (first + k)).kind (s (first + k))) = some (s (first + k)) :=
      hs.storable (first + k) hks
    simp only [ptrOff_of_guardsOn _ _ hgt, hst, hgt, if_true, Bool.false_eq_true, if_false, List.isEmpty_nil,
        Bool.not_true, Bool.false_and]
  · intro x hx
    apply setParam_not_wr
    rintro (h | h)
    · exact hx h
    · have := (mem_desc app).mp h
      exact hnd x this.1 this.2

theorem arr_run (hwf : app.WF) {s : State} (hs : app.Inv s) {base : Path} {first len : Nat}
    (hw : Item.array base first len ∈ app.walk) (hsz : first + len ≤ app.size)
    (hgs : guardsOn (app.param first) s = true) (m i : Nat) (him : i + m ≤ len) (cur : State)
    (hcur : ∀ x, x < first → cur x = s x) :
    ∃ r, app.dispatchArr base
          ((List.range' i m).map fun k => mapArgVal (app.param (first + k)).kind (s (first + k))) i cur
        = some r ∧ (∀ x, first + i ≤ x → x < first + i + m → r x = s x) ∧
        (∀ x, ¬ (first + i ≤ x ∧ x < first + i + m) → r x = cur x) := by
  induction m generalizing i cur with
  | zero => exact ⟨cur, rfl, fun x h1 h2 => by omega, fun _ _ => rfl⟩
  | succ m ih =>
    obtain ⟨c, hd, hc1, hc2⟩ := arr_elem hwf hs hw hsz hgs (k := i) (by omega) cur hcur
    obtain ⟨r, hr, hr1, hr2⟩ := ih (i + 1) (by omega) c
      (fun x hx => by rw [hc2 x (by omega)]; exact hcur x hx)
    refine ⟨r, ?_, ?_, ?_⟩
    · rw [List.range'_succ, List.map_cons]
      unfold dispatchArr
      rw [hd]
      exact hr
    · intro x h1 h2
      by_cases hx : x = first + i
      · rw [hr2 x (by omega), hx, hc1]
      · exact hr1 x (by omega) (by omega)
    · intro x hx
      rw [hr2 x (by omega), hc2 x (by omega)]

theorem step_array (hwf : app.WF) {s : State} (hs : app.Inv s) {base : Path} {first len : Nat}
    (hw : Item.array base first len ∈ app.walk) (hlen : 0 < len) (hsz : first + len ≤ app.size)
    {t : State} (hm : app.Mid s first t) :
    ∃ t', app.stepItem (app.saveItem s (.array base first len)) t = some t' ∧
      app.Mid s (first + len) t' := by
  obtain ⟨_, hel⟩ := hwf.array_ok base first len hw
  have hfirst : first < app.size := by omega
  have hancs : ∀ k, k < len → ∀ a ∈ (app.param (first + k)).anc, t a = s a := by
    intro k hk a ha
    rw [(hel k hk).2.2.1] at ha
    exact hm.below a (hwf.anc_lt first hfirst a ha)
  have hgk : ∀ k, k < len → ∀ u : State,
      guardsOn (app.param (first + k)) u = guardsOn (app.param first) u := by
    intro k hk u; unfold guardsOn; rw [(hel k hk).2.1]
  have htk : ∀ k, k < len → t (first + k) = expected (app.param (first + k)) s := by
    intro k hk
    rw [hm.above (first + k) (by omega) (by omega)]
    exact expected_frame hwf (by omega) t s (hancs k hk)
  have hall : (∀ k, k < len → t (first + k) = s (first + k)) →
      ∃ t', some t = some t' ∧ app.Mid s (first + len) t' := by
    intro h
    refine ⟨t, rfl, hm.extend (by omega) ?_⟩
    intro i h1 h2
    have := h (i - first) (by omega)
    rwa [show first + (i - first) = i by omega] at this
  rw [saveItem_array]
  split
  · next hgs =>
    have hexp : ∀ k, k < len → expected (app.param (first + k)) s = evalDflt (app.param (first + k)) s := by
      intro k hk; unfold expected; rw [hgk k hk, if_pos hgs]
    split
    · next heq =>
      apply hall
      intro k hk
      rw [htk k hk, hexp k hk]
      have := (List.map_inj_left.mp heq) (k + first) (by simp; exact hk)
      rw [Nat.add_comm]; exact this
    · next hne =>
      obtain ⟨hsuf, hpos⟩ := arr_lists (fun i => evalDflt (app.param i) s)
        (fun i => mapArgVal (app.param i).kind (s i)) first len
      have hsuf : ∀ k, k < len → firstEqualIndex (((List.range len).map (· + first)).map fun i => evalDflt (app.param i) s)
          (((List.range len).map (· + first)).map fun i => mapArgVal (app.param i).kind (s i)) 0 0 ≤ k →
          evalDflt (app.param (first + k)) s = s (first + k) :=
        fun k hk hn => mapArgVal_eq_evalDflt _ s _ (hsuf k hk hn)
      have hpos := hpos (by
        intro heq
        apply hne
        apply List.map_congr_left
        intro i hi
        exact mapArgVal_eq_evalDflt _ s _ ((List.map_inj_left.mp heq) i hi))
      rw [arr_vals_eq (fun i => mapArgVal (app.param i).kind (s i))]
      generalize firstEqualIndex _ _ 0 0 = n at hsuf hpos
      obtain ⟨r, hr, h1, h2⟩ := arr_run hwf hs hw hsz hgs (min n len) 0 (by omega) t hm.below
      refine ⟨r, ?_, ?_, ?_, ?_⟩
      · show app.applyLine ⟨base, .arr _⟩ t = some r
        rw [applyLine_arr_ne]
        · exact hr
        · intro h
          have := congrArg List.length h
          simp at this
          omega
      · intro i hi
        by_cases hlo : i < first
        · rw [h2 i (by omega)]; exact hm.below i hlo
        · by_cases hmid : i < first + min n len
          · exact h1 i (by omega) (by omega)
          · rw [h2 i (by omega)]
            have hk : i - first < len := by omega
            have := htk (i - first) hk
            rw [hexp _ hk, hsuf (i - first) hk (by omega)] at this
            rwa [show first + (i - first) = i by omega] at this
      · intro i hi1 hi2
        rw [h2 i (by omega), hm.above i (by omega) hi2]
        apply expected_frame hwf hi2
        intro a ha
        symm
        apply h2 a
        intro hcon
        have hk : a - first < len := by omega
        have := (hel (a - first) hk).2.2.2 i hi2
        rw [show first + (a - first) = a by omega] at this
        exact this ha
      · intro i hi
        rw [h2 i (by omega)]; exact hm.outside i hi
  · next hgs =>
    apply hall
    intro k hk
    simp only [Bool.not_eq_true] at hgs
    have hgf : guardsOn (app.param (first + k)) s = false := by rw [hgk k hk]; exact hgs
    rw [htk k hk, hs.hidden_canon (first + k) (by omega) hgf]
    unfold expected; rw [hgf]; rfl

end App

/-! ## restoring a state (S4) -/
namespace App
variable {app : App}

theorem runSteps_filterMap_cons (app : App) (s : State) (it : Item) (r : List Item) (t : State) :
    runSteps app.applyLine ((it :: r).filterMap (app.saveItem s)) t
      = (app.stepItem (app.saveItem s it) t).bind
          (runSteps app.applyLine (r.filterMap (app.saveItem s))) := by
  rw [List.filterMap_cons]
  cases app.saveItem s it <;> rfl

theorem restore_aux (hwf : app.WF) {s : State} (hs : app.Inv s) (l : List Item) (lo : Nat)
    (ht : Tiling lo l app.size) (hw : ∀ it ∈ l, it ∈ app.walk) (t : State) (hm : app.Mid s lo t) :
    runSteps app.applyLine (l.filterMap (app.saveItem s)) t = some s := by
  induction l generalizing lo t with
  | nil =>
    have : lo = app.size := ht
    subst this
    rw [hm.final]
    rfl
  | cons it r ih =>
    obtain ⟨h1, h2, h3⟩ := ht
    have hhi : it.hi ≤ app.size := (tiling_facts h3).1
    have hw' : ∀ x ∈ r, x ∈ app.walk := fun x hx => hw x (List.mem_cons_of_mem _ hx)
    rw [runSteps_filterMap_cons]
    cases it with
    | scalar k =>
      simp only [Item.lo, Item.hi] at h1 h2 h3 hhi
      subst h1
      obtain ⟨t', he, hm'⟩ := step_scalar hwf hs (show k < app.size by omega) hm
      rw [he, Option.bind_some]
      exact ih (k + 1) h3 hw' t' hm'
    | array base first len =>
      simp only [Item.lo, Item.hi] at h1 h2 h3 hhi
      subst h1
      obtain ⟨t', he, hm'⟩ := step_array hwf hs (hw _ List.mem_cons_self) (by omega) hhi hm
      rw [he, Option.bind_some]
      exact ih (first + len) h3 hw' t' hm'

end App

/-- S4: loading the saved lines in dependency (= index) order into a fresh instance
    restores the state -/
theorem restore_sorted (app : App) (hwf : app.WF) (s : State) (hs : app.Inv s)
    (rw : List Item) (hperm : rw.Perm app.walk) (htile : Tiling 0 rw app.size) :
    runSteps app.applyLine (app.saveFrom s rw []) app.init = some s := by
  rw [App.saveFrom_perm_eq hwf s rw hperm]
  exact App.restore_aux hwf hs rw 0 htile (fun it hit => hperm.subset hit) app.init
    (App.mid_init hwf s hs)


end Rtosc.Save
