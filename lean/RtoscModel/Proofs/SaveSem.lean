/-
  C12 — semantic lemmas about the abstract application (`App`), its invariant, and the
  save / load models: reachable states satisfy `Inv`, independent lines commute,
  loading the saved lines in index order restores the state, shape of `save`.
-/
import RtoscModel.Save.Spec
import RtoscModel.Proofs.SaveTopo

namespace Rtosc.Save

/-! ## states -/

@[simp] theorem upd_same (s : State) (i : Nat) (v : Val) : (upd s i v) i = v := by
  show (if i = i then v else s i) = v
  simp

theorem upd_apply (s : State) (i j : Nat) (v : Val) : (upd s i v) j = if j = i then v else s j := rfl

theorem upd_ne (s : State) {i j : Nat} (v : Val) (h : j ≠ i) : (upd s i v) j = s j := by
  rw [upd_apply, if_neg h]

/-! ## frame lemmas: what `expected` reads -/

theorem guardsOn_congr (p : Param) (s t : State) (h : ∀ g ∈ p.guards, s g.1 = t g.1) :
    guardsOn p s = guardsOn p t := by
  unfold guardsOn
  generalize p.guards = gs at h
  induction gs with
  | nil => rfl
  | cons g r ih =>
    simp only [List.all_cons]
    rw [h g List.mem_cons_self, ih (fun g' hg' => h g' (List.mem_cons_of_mem _ hg'))]

theorem ptrOff_congr (p : Param) (s t : State) (h : ∀ g ∈ p.guards, s g.1 = t g.1) :
    App.ptrOff p s = App.ptrOff p t := by
  unfold App.ptrOff
  generalize p.guards = gs at h
  induction gs with
  | nil => rfl
  | cons g r ih =>
    simp only [List.any_cons]
    rw [h g List.mem_cons_self, ih (fun g' hg' => h g' (List.mem_cons_of_mem _ hg'))]

theorem evalDflt_congr (p : Param) (s t : State)
    (h : ∀ par tbl fb, p.dflt = .preset par tbl fb → s par = t par) :
    evalDflt p s = evalDflt p t := by
  unfold evalDflt
  cases hd : p.dflt with
  | const v => rfl
  | preset par tbl fb => simp only [h par tbl fb hd]

theorem expected_congr (p : Param) (s t : State) (hg : ∀ g ∈ p.guards, s g.1 = t g.1)
    (h : ∀ par tbl fb, p.dflt = .preset par tbl fb → s par = t par) :
    expected p s = expected p t := by
  unfold expected
  rw [guardsOn_congr p s t hg, evalDflt_congr p s t h]

/-- guards all on: no pointer guard is off -/
theorem ptrOff_of_guardsOn (p : Param) (s : State) (h : guardsOn p s = true) : App.ptrOff p s = false := by
  unfold guardsOn at h
  unfold App.ptrOff
  generalize p.guards = gs at h
  induction gs with
  | nil => rfl
  | cons g r ih =>
    simp only [List.all_cons, Bool.and_eq_true] at h
    simp only [List.any_cons, ih h.2, Bool.or_false, h.1, Bool.not_true, Bool.and_false]

namespace App
variable (app : App)

theorem param_eq_getElem {i : Nat} (h : i < app.size) : app.param i = app.params[i]'h := by
  unfold param
  exact (List.getElem_eq_getD (h := h) default).symm

theorem findAddr_some {a : Path} {i : Nat} (h : app.findAddr a = some i) :
    i < app.size ∧ (app.param i).addr = a := by
  unfold findAddr at h
  simp only at h
  split at h
  · next hlt =>
    cases h
    refine ⟨hlt, ?_⟩
    rw [param_eq_getElem app hlt]
    have := List.findIdx_getElem (w := hlt)
    simpa using this
  · cases h

theorem findAddr_param {i : Nat} (hnd : (app.params.map (·.addr)).Nodup) (h : i < app.size) :
    app.findAddr (app.param i).addr = some i := by
  have hidx : app.params.findIdx (fun p => p.addr == (app.param i).addr) = i := by
    rw [List.findIdx_eq h]
    refine ⟨by rw [param_eq_getElem app h]; simp, ?_⟩
    intro j hji
    have hj : j < app.params.length := Nat.lt_trans hji h
    rw [param_eq_getElem app h]
    have hp := List.pairwise_iff_getElem.mp (List.nodup_iff_pairwise_ne.mp hnd) j i
      (by rw [List.length_map]; exact hj) (by rw [List.length_map]; exact h) hji
    simp only [List.getElem_map] at hp
    exact beq_eq_false_iff_ne.mpr hp
  unfold findAddr
  simp only [hidx]
  exact if_pos h

theorem mem_desc {i k : Nat} : k ∈ app.desc i ↔ k < app.size ∧ i ∈ (app.param k).anc := by
  unfold desc
  simp [List.mem_filter]

theorem desc_sorted (i : Nat) : (app.desc i).Pairwise (· < ·) :=
  List.Pairwise.filter _ List.pairwise_lt_range

variable {app}

theorem expected_frame (hwf : app.WF) {i : Nat} (hi : i < app.size) (s t : State)
    (h : ∀ a ∈ (app.param i).anc, s a = t a) :
    expected (app.param i) s = expected (app.param i) t :=
  expected_congr _ s t (fun g hg => h _ (hwf.guards_anc i hi g hg))
    (fun par tbl fb hd => h _ (hwf.preset_anc i hi par tbl fb hd))

theorem guardsOn_frame (hwf : app.WF) {i : Nat} (hi : i < app.size) (s t : State)
    (h : ∀ a ∈ (app.param i).anc, s a = t a) :
    guardsOn (app.param i) s = guardsOn (app.param i) t :=
  guardsOn_congr _ s t (fun g hg => h _ (hwf.guards_anc i hi g hg))

theorem ptrOff_frame (hwf : app.WF) {i : Nat} (hi : i < app.size) (s t : State)
    (h : ∀ a ∈ (app.param i).anc, s a = t a) :
    ptrOff (app.param i) s = ptrOff (app.param i) t :=
  ptrOff_congr _ s t (fun g hg => h _ (hwf.guards_anc i hi g hg))

theorem evalDflt_frame (hwf : app.WF) {i : Nat} (hi : i < app.size) (s t : State)
    (h : ∀ a ∈ (app.param i).anc, s a = t a) :
    evalDflt (app.param i) s = evalDflt (app.param i) t :=
  evalDflt_congr _ s t (fun par tbl fb hd => h _ (hwf.preset_anc i hi par tbl fb hd))

/-! ## cascade -/

theorem cascade_not_mem (app : App) (ds : List Nat) (s : State) {k : Nat} (h : k ∉ ds) :
    app.cascade ds s k = s k := by
  induction ds generalizing s with
  | nil => rfl
  | cons d r ih =>
    simp only [List.mem_cons, not_or] at h
    show app.cascade r (upd s d (expected (app.param d) s)) k = s k
    rw [ih _ h.2, upd_ne _ _ h.1]

/-- after a cascade over an increasing list every listed parameter holds its `expected`
    value of the final state -/
theorem cascade_mem (hwf : app.WF) (ds : List Nat) (hs : ds.Pairwise (· < ·))
    (hlt : ∀ d ∈ ds, d < app.size) (s : State) {d : Nat} (hd : d ∈ ds) :
    app.cascade ds s d = expected (app.param d) (app.cascade ds s) := by
  induction ds generalizing s with
  | nil => cases hd
  | cons e r ih =>
    have hs' := List.pairwise_cons.mp hs
    show app.cascade r (upd s e (expected (app.param e) s)) d
      = expected (app.param d) (app.cascade r (upd s e (expected (app.param e) s)))
    rcases List.mem_cons.mp hd with rfl | hdr
    · have hdr : d ∉ r := fun hm => Nat.lt_irrefl _ (hs'.1 d hm)
      have hds : d < app.size := hlt d List.mem_cons_self
      rw [cascade_not_mem app r _ hdr, upd_same]
      apply expected_frame hwf hds
      intro a ha
      have had : a < d := hwf.anc_lt d hds a ha
      have har : a ∉ r := fun hm => by have := hs'.1 a hm; omega
      rw [cascade_not_mem app r _ har, upd_ne _ _ (Nat.ne_of_lt had)]
    · exact ih hs'.2 (fun x hx => hlt x (List.mem_cons_of_mem _ hx)) _ hdr

/-- reflexive ancestor relation -/
def le (app : App) (a j : Nat) : Prop := a = j ∨ a ∈ (app.param j).anc

theorem le_trans (hwf : app.WF) {a x j : Nat} (hj : j < app.size) (h1 : app.le a x) (h2 : app.le x j) :
    app.le a j := by
  rcases h2 with rfl | h2
  · exact h1
  · rcases h1 with rfl | h1
    · exact Or.inr h2
    · exact Or.inr (hwf.anc_closed j hj x h2 a h1)

/-- write set of `setParam i` -/
def wr (app : App) (i k : Nat) : Prop := k = i ∨ k ∈ app.desc i

theorem wr_iff {i k : Nat} (hi : i < app.size) : app.wr i k ↔ k < app.size ∧ app.le i k := by
  unfold wr le
  rw [mem_desc]
  constructor
  · rintro (rfl | h)
    · exact ⟨hi, Or.inl rfl⟩
    · exact ⟨h.1, Or.inr h.2⟩
  · rintro ⟨hk, rfl | h⟩
    · exact Or.inl rfl
    · exact Or.inr ⟨hk, h⟩

theorem setParam_not_wr (app : App) (i : Nat) (v : Val) (s : State) {k : Nat} (h : ¬ app.wr i k) :
    app.setParam i v s k = s k := by
  unfold wr at h
  simp only [not_or] at h
  unfold setParam
  split
  · rfl
  · rw [cascade_not_mem app _ _ h.2, upd_ne _ _ h.1]

theorem not_mem_desc_self (hwf : app.WF) (i : Nat) : i ∉ app.desc i := by
  intro h
  have := (mem_desc app).mp h
  exact Nat.lt_irrefl _ (hwf.anc_lt i this.1 i this.2)

/-- a parameter that is not written keeps the values of everything it reads -/
theorem anc_not_wr (hwf : app.WF) {i j : Nat} (hj : j < app.size) (h : ¬ app.wr i j) :
    ∀ a ∈ (app.param j).anc, ¬ app.wr i a := by
  intro a ha hw
  apply h
  rcases hw with rfl | hw
  · exact Or.inr ((mem_desc app).mpr ⟨hj, ha⟩)
  · have := (mem_desc app).mp hw
    exact Or.inr ((mem_desc app).mpr ⟨hj, hwf.anc_closed j hj a ha i this.2⟩)

/-- the written parameter's own ancestors are not written -/
theorem anc_self_not_wr (hwf : app.WF) {i : Nat} (hi : i < app.size) :
    ∀ a ∈ (app.param i).anc, ¬ app.wr i a := by
  intro a ha hw
  have hai := hwf.anc_lt i hi a ha
  rcases hw with rfl | hw
  · exact Nat.lt_irrefl _ hai
  · have := (mem_desc app).mp hw
    have := hwf.anc_lt a this.1 i this.2
    omega

theorem setParam_self (hwf : app.WF) (i : Nat) (v : Val) (s : State) : app.setParam i v s i = v := by
  unfold setParam
  split
  · next h => exact h.2
  · rw [cascade_not_mem app _ _ (not_mem_desc_self hwf i), upd_same]

theorem setParam_desc (hwf : app.WF) (i : Nat) (v : Val) (s : State)
    (hne : ¬ ((app.param i).kind = .tog ∧ s i = v)) {d : Nat} (hd : d ∈ app.desc i) :
    app.setParam i v s d = expected (app.param d) (app.setParam i v s) := by
  unfold setParam
  rw [if_neg hne]
  exact cascade_mem hwf _ (desc_sorted app i) (fun d hd => ((mem_desc app).mp hd).1) _ hd

/-- a consistent parameter outside the write set stays consistent -/
theorem setParam_expected_not_wr (hwf : app.WF) (i : Nat) (v : Val) (s : State) {j : Nat}
    (hj : j < app.size) (h : ¬ app.wr i j) :
    expected (app.param j) (app.setParam i v s) = expected (app.param j) s :=
  expected_frame hwf hj _ _ (fun a ha => setParam_not_wr app i v s (anc_not_wr hwf hj h a ha))

end App
end Rtosc.Save
