/-
  C10 — tier 3, compressed runs AND arrays (5): the round trip at cell level, for argument lists
  and for whole messages; when `rtosc_convert_to_range` leaves an array header alone.
-/
import RtoscModel.Proofs.PrettyRunsArrScan
import RtoscModel.Proofs.PrettyRunsArrCheck
import RtoscModel.Proofs.PrettyRunsArrPrint
import RtoscModel.Proofs.PrettyRunsArrItems
set_option linter.unusedSimpArgs false
set_option linter.unusedVariables false
namespace Rtosc.Pretty
open Rtosc Rtosc.Libc
open Rtosc.ArgVal (Cell)

theorem ASegmented.length_le {opt : POpt} {xs : List ASeg} (h : ASegmented opt xs) :
    xs.length ≤ (cellsAllA xs).length := by
  induction h with
  | nil => simp
  | tok c xs _ _ _ _ ih => simp [cellsAllA, ASeg.cells, RSeg.cells]; omega
  | crun n c xs _ _ hn _ _ _ ih => simp [cellsAllA, ASeg.cells, RSeg.cells]; omega
  | irun a d n xs h _ _ ih => have := h.hn; simp [cellsAllA, ASeg.cells, RSeg.cells, arithRun_length]; omega
  | arr body xs _ _ _ _ ih => simp [cellsAllA, ASeg.cells]; omega
  | arun n body xs _ _ hn _ _ _ ih =>
    obtain ⟨m, rfl⟩ : ∃ m, n = m + 1 := ⟨n - 1, by omega⟩
    simp [cellsAllA, ASeg.cells, List.replicate_succ]; omega

/-- **Tier 3, compressed runs and arrays.**  For an argument list that the printer cuts into the
    pieces `xs` (values, constant runs, int32 arithmetic runs, and arrays whose bodies are cut into
    such segments, in any order): the printer returns the length of the text it wrote, the checker
    counts exactly the cells the scanner then writes, the scanner consumes the whole text and
    returns the range blocks / array blocks of the pieces. -/
theorem runs_arrays_roundtrip_cells (opt : POpt) (hc : opt.compress = true) (xs : List ASeg) (hseg : ASegmented opt xs) :
    ∃ (st : PSt) (ret : Nat),
      printArgVals opt (cellsAllA xs) ⟨[], 0⟩ = .ok (st, ret) ∧ ret = st.out.length ∧
      countPrintedArgVals st.out = .ok ((scannedAllA none xs).length : Int) ∧
      scanArgVals st.out (scannedAllA none xs).length = .ok (st.out.length, scannedAllA none xs) := by
  have hle := hseg.length_le
  obtain ⟨st', pre, body, hrun, hout, htt, hpre⟩ :=
    printLoop_asegs opt hc hseg (cellsAllA xs) [] (by simp) ((cellsAllA xs).length + 1) ⟨[], 0⟩ 0 (-1) 0 (by omega)
      (Or.inl ⟨rfl, rfl⟩)
  have hpre0 : pre = [] := by
    rcases hpre with h | ⟨base, h1, _⟩
    · exact h
    · simp at h1
  subst hpre0
  simp only [List.nil_append, List.length_nil, Nat.sub_zero, Nat.zero_add, List.getLast?_nil] at hrun hout htt
  refine ⟨st', body.length, ?_, by rw [hout], ?_, ?_⟩
  · unfold printArgVals
    simpa using hrun
  · rw [hout]; exact countPrintedArgVals_asegs htt
  · rw [hout]; exact scanArgVals_asegs htt

/-- **Tier 3, compressed runs and arrays, whole messages.** -/
theorem runs_arrays_message_roundtrip_cells (opt : POpt) (hc : opt.compress = true) (addr : Bytes) (adrsize : Nat)
    (ha : AddrOK addr) (hal : addr.length < adrsize) (xs : List ASeg) (hseg : ASegmented opt xs) :
    ∃ (st : PSt) (ret : Nat),
      printMessage opt addr (cellsAllA xs) 0 = .ok (st, ret) ∧ ret = st.out.length ∧
      countPrintedArgValsOfMsg st.out = .ok ((scannedAllA none xs).length : Int) ∧
      scanMessage st.out adrsize (scannedAllA none xs).length = .ok (st.out.length, addr, scannedAllA none xs) := by
  obtain ⟨ha47, hasp⟩ := ha
  have hle := hseg.length_le
  have hane : addr ≠ [] := by intro h; rw [h] at ha47; simp at ha47
  obtain ⟨st', pre, body, hrun, hout, htt, hpre⟩ :=
    printLoop_asegs opt hc hseg (cellsAllA xs) [] (by simp) ((cellsAllA xs).length + 1)
      ⟨addr ++ [32], 0 + ((addr ++ [32]).length : Nat)⟩ 0
      (((addr ++ [32]).length : Int) - 1) (if (0 + ((addr ++ [32]).length : Nat) : Int) ≠ 0 then 1 else 0) (by omega)
      (Or.inr ⟨addr, rfl, by simp⟩)
  simp only [List.length_nil, List.getLast?_nil] at hrun htt
  obtain ⟨sep, hsep, hpre'⟩ : ∃ sep, IsSepTxt sep ∧ pre = addr ++ sep := by
    rcases hpre with h | ⟨base, h1, h2⟩
    · exact ⟨[32], Or.inl rfl, h⟩
    · have : base = addr := (List.append_inj_left' h1 rfl).symm
      exact ⟨nl4, Or.inr rfl, by rw [h2, this]⟩
  have hsepsp : isspace (hd sep) = true := by rcases hsep with rfl | rfl <;> rfl
  have hsepne : sep ≠ [] := by rcases hsep with rfl | rfl <;> simp
  have htext : st'.out = addr ++ (sep ++ body) := by rw [hout, hpre', List.append_assoc]
  have hrest : sep ++ body = [] ∨ isspace (hd (sep ++ body)) = true := by
    right; rw [hd_append_of_ne_nil _ _ hsepne]; exact hsepsp
  have hskip : skipSpace (sep ++ body) = body := by
    by_cases hne : xs = []
    · subst hne; cases htt
      rcases hsep with rfl | rfl <;> rfl
    · exact skipSpace_sep sep body hsep (htt.start hne)
  have hlen : st'.out.length = addr.length + sep.length + body.length := by
    rw [htext]; simp only [List.length_append]; omega
  have haddr_sp : skipSpace (addr ++ (sep ++ body)) = addr ++ (sep ++ body) := by
    cases addr with
    | nil => exact absurd rfl hane
    | cons c r => simp [skipSpace, hasp c (by simp)]
  have hhd : hd (addr ++ (sep ++ body)) = 47 := by rw [hd_append_of_ne_nil _ _ hane]; exact ha47
  refine ⟨st', (addr ++ [32]).length + (0 + ((pre ++ body).length - (addr ++ [32]).length)), ?_, ?_, ?_, ?_⟩
  · unfold printMessage printArgVals
    simp only [bind, Except.bind, hrun, pure, Except.pure]
  · rw [hout]
    have : (addr ++ [32]).length ≤ (pre ++ body).length := by
      rw [hpre']; simp only [List.length_append, List.length_singleton]
      have := List.length_pos_iff.mpr hsepne
      omega
    omega
  · rw [htext]
    unfold countPrintedArgValsOfMsg
    simp only [haddr_sp, bind, Except.bind, skipCommentLines_none _ _ (by rw [hhd]; decide), hhd, ↓reduceIte,
      dropWhile_notspace addr (sep ++ body) hasp hrest]
    unfold countPrintedArgVals
    rw [hskip]
    by_cases hne : xs = []
    · subst hne; cases htt
      simp [skipCommentLines, countLoop, bind, Except.bind, scannedAllA]
    · have hstart := htt.start hne
      have h37 : hd body ≠ 37 := hstart.2.2.2.2.2.1
      simp only [skipCommentLines_none _ body h37, bind, Except.bind]
      rw [countLoop_asegs htt _ none 0 none (rdCtx_refl none) rfl (by have := htt.nargs_le; omega)]
      simp
  · rw [htext]
    unfold scanMessage
    simp only [haddr_sp, Nat.sub_self, hhd, show (47 : UInt8) ≠ 37 from by decide, ↓reduceIte, pure, Except.pure,
      bind, Except.bind, List.drop_zero, Nat.add_zero, Nat.sub_zero,
      takeWhile_notspace addr (sep ++ body) hasp hrest]
    have htake : addr.take adrsize = addr := List.take_of_length_le (by omega)
    simp only [htake, List.drop_left, hskip]
    have := scanArgVals_asegs htt
    simp only [this, Nat.zero_add]
    congr 2
    simp only [List.length_append]
    omega

/-! ### when the printer leaves an array header alone -/

/-- `rtosc_convert_to_range` at an array header: nothing is converted when the array is the last
    argument or the next argument is no array (fewer than five arrays in a row) -/
theorem convertToRange_arr_next (opt : POpt) (ety : UInt8) (es R : List Cell) (size : Nat)
    (hnext : (∃ c more, R = c :: more ∧ c.isScalar = true) ∨ size ≤ es.length + 1) :
    convertToRange opt (Cell.arr ety es.length :: (es ++ R)) size = .ok none := by
  unfold convertToRange
  by_cases hs : size < rangeMin
  · simp [hs, pure, Except.pure]
  · simp only [hs, ↓reduceIte, deref, bind, Except.bind]
    by_cases hcr : (Cell.arr ety es.length).type = ArgVal.tyRange ∨ (!opt.compress) = true
    · rcases hcr with hcr | hcr <;> simp [hcr, pure, Except.pure]
    · simp only [hcr, ↓reduceIte]
      have hne : ¬ ((es.length : Int) < 0) := by omega
      have hta : (Cell.arr ety (es.length : Int)).type = ArgVal.tyA := rfl
      have hcc : countCommon (size + 1) (Cell.arr ety es.length).type (Cell.arr ety es.length :: (es ++ R)) size 0 0 =
          .ok 1 := by
        have hpos : 0 < size := by unfold rangeMin at hs; omega
        obtain ⟨g, hg⟩ : ∃ g, size = g + 1 := ⟨size - 1, by omega⟩
        rw [hg, countCommon]
        simp only [Nat.zero_lt_succ, ↓reduceIte, List.drop_zero, deref, bind, Except.bind, ne_eq, not_true_eq_false,
          incsize, hne, pure, Except.pure, Int.toNat_natCast, Nat.zero_add]
        rw [countCommon]
        by_cases hlt : es.length + 1 < g + 1
        · rcases hnext with ⟨c, more, rfl, hsc⟩ | hle
          · have hcty : c.type ≠ ArgVal.tyA := by
              cases c with
              | int ty v => cases ty <;> simp [ArgVal.Cell.type, ArgVal.tyA, ArgVal.IntTy.char]
              | str ty s => cases ty <;> simp [ArgVal.Cell.type, ArgVal.tyA, ArgVal.StrTy.char]
              | flag ty => cases ty <;> simp [ArgVal.Cell.type, ArgVal.tyA, ArgVal.FlagTy.char]
              | arr _ _ => simp [ArgVal.Cell.isScalar] at hsc
              | rep _ _ => simp [ArgVal.Cell.isScalar] at hsc
              | _ => simp [ArgVal.Cell.type, ArgVal.tyA]
            have hd : (Cell.arr ety es.length :: (es ++ c :: more)).drop (es.length + 1) = c :: more := by
              simp
            simp only [hlt, ↓reduceIte, hd, deref, bind, Except.bind, hta, pure, Except.pure, ne_eq, hcty,
              not_false_eq_true]
          · omega
        · simp [hlt, pure, Except.pure]
      rw [hcc]
      simp [rangeMin, pure, Except.pure]

end Rtosc.Pretty
