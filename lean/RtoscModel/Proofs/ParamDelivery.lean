/-
  C14 — helper lemmas about the restricted matcher of RtoscModel/Param/Port.lean: a pattern
  `name:…` whose name consists of literal characters matches exactly the path `name`.
-/
import RtoscModel.Proofs.ParamLemmas
namespace Rtosc.Param
open Rtosc

/-- a port name made of literal characters only -/
def PlainName (name : Bytes) : Prop := ∀ c ∈ name, c ≠ 58 ∧ c ≠ 123 ∧ c ≠ 42 ∧ c ≠ 47 ∧ c ≠ 35

theorem matchPath_name (name spec : Bytes) (hn : PlainName name) (fuel : Nat) (hf : name.length < fuel) :
    matchPath fuel (name ++ 58 :: spec) name = .ok (some (58 :: spec)) := by
  induction name generalizing fuel with
  | nil =>
    cases fuel with
    | zero => simp at hf
    | succ f => simp [matchPath]
  | cons c r ih =>
    cases fuel with
    | zero => simp at hf
    | succ f =>
      obtain ⟨h1, h2, h3, h4, h5⟩ := hn c (List.mem_cons_self)
      have hr : PlainName r := fun x hx => hn x (List.mem_cons_of_mem _ hx)
      have := ih hr f (by simp at hf; omega)
      simp only [List.cons_append]
      unfold matchPath
      split <;> first | (simp_all; done) | (rename_i h; exact (h _ _ _ _ rfl rfl).elim)

/-- a different address is not delivered: a path that differs from the name -/
theorem matchPath_other (name spec path : Bytes) (hn : PlainName name) (hne : path ≠ name) (fuel : Nat)
    (hf : name.length < fuel) :
    matchPath fuel (name ++ 58 :: spec) path = .ok none := by
  induction name generalizing fuel path with
  | nil =>
    cases fuel with
    | zero => simp at hf
    | succ f =>
      cases path with
      | nil => exact absurd rfl hne
      | cons p ps => simp [matchPath]
  | cons c r ih =>
    cases fuel with
    | zero => simp at hf
    | succ f =>
      obtain ⟨h1, h2, h3, h4, h5⟩ := hn c (List.mem_cons_self)
      have hr : PlainName r := fun x hx => hn x (List.mem_cons_of_mem _ hx)
      cases path with
      | nil =>
        simp only [List.cons_append]
        unfold matchPath
        split <;> first | (simp_all; done) | (rename_i h; exact (h _ _ _ _ rfl rfl).elim)
      | cons p ps =>
        by_cases hpc : c = p
        · subst hpc
          have hps : ps ≠ r := fun h => hne (by rw [h])
          have := ih ps hr hps f (by simp at hf; omega)
          simp only [List.cons_append]
          unfold matchPath
          split <;> first | (simp_all; done) | (rename_i h; exact (h _ _ _ _ rfl rfl).elim)
        · simp only [List.cons_append]
          unfold matchPath
          split <;> first | (simp_all; done) | (rename_i h; exact (h _ _ _ _ rfl rfl).elim)

/-- `rtosc_match` on a scalar macro port `name::tags…`: the path must be exactly the name,
    then the type alternatives decide. -/
theorem portMatches_scalar (name spec path tags : Bytes) (hn : PlainName name) :
    portMatches (name ++ 58 :: spec) path tags =
      .ok (decide (path = name) && matchArgs ((58 :: spec).length + 2) (58 :: spec) tags) := by
  unfold portMatches
  by_cases h : path = name
  · subst h
    rw [matchPath_name path spec hn _ (by simp; omega)]
    simp
  · rw [matchPath_other name spec path hn h _ (by simp; omega)]
    simp [h]

end Rtosc.Param
