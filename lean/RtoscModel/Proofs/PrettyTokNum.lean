/-
  C10 — tokens of the integer types: `%d` spelling of an `int32_t` ('i'), `%ldh` of an `int64_t` ('h').
  This is where the scanner's "is it a date?" test matters (fix C10-02): `127 -1`, `-99 -99`.
-/
import RtoscModel.Proofs.PrettyTok
namespace Rtosc.Pretty
open Rtosc Rtosc.Libc
open Rtosc.ArgVal (Cell)

/-- the text of a decimal token: optional '-', a digit, more digits -/
def decText (neg : Bool) (d : UInt8) (ds : Bytes) : Bytes := (if neg then [45] else []) ++ d :: ds

/-- hypotheses on what follows a decimal number inside a token or behind it -/
def NumEnd (r : Bytes) : Prop := isdigit (hd r) = false ∧ hd r ≠ 45 ∧ hd r ≠ 120 ∧ hd r ≠ 88

/-- "is it a date?" fails on a decimal number that is not followed by '-' -/
theorem isDate_dec (neg : Bool) (d : UInt8) (ds r : Bytes) (hd0 : isdigit d = true)
    (hds : ∀ c ∈ ds, isdigit c = true) (hr : NumEnd r) :
    skipFmt fmtIsDate (decText neg d ds ++ r) = 0 := by
  unfold skipFmt scanRd sscanf fmtIsDate
  cases hsc : scanInt .d (some 4) (decText neg d ds ++ r) with
  | none => rw [sscanfGo_int_none _ _ _ _ _ _ _ hsc]; rfl
  | some p =>
    obtain ⟨v, r'⟩ := p
    rw [sscanfGo_int_some _ _ _ _ _ _ _ _ _ hsc]
    have := scanInt_d_rest (some 4) neg d ds r hd0 hds hr.1 v r' (by simpa [decText] using hsc)
    have hne : hd r' ≠ 45 := by
      rcases this with h | h
      · exact (isdigit_facts _ h).1
      · rw [h]; exact hr.2.1
    rw [sscanfGo_lit_ne _ _ _ _ _ hne]; rfl

theorem decText_length (neg : Bool) (d : UInt8) (ds : Bytes) :
    (decText neg d ds).length = (if neg then 1 else 0) + ds.length + 1 := by
  cases neg <;> simp [decText] <;> omega

/-- `%d` / `%i` on a decimal token (no leading zero) that is followed by `r` -/
theorem scanInt_decText (conv : IntConv) (hconv : conv ≠ .x) (neg : Bool) (d : UInt8) (ds r : Bytes)
    (hd0 : isdigit d = true) (hnz : d ≠ 48) (hds : ∀ c ∈ ds, isdigit c = true) (hr : NumEnd r) :
    scanInt conv none (decText neg d ds ++ r) =
      some (clampI64 (if neg then -(digitsVal 10 (d :: ds) : Int) else (digitsVal 10 (d :: ds) : Int)), r) := by
  cases neg
  · simpa [decText] using scanInt_digits_pos conv hconv d ds r hd0 hnz hds hr.1
  · simpa [decText] using scanInt_digits_neg conv hconv d ds r hd0 hnz hds hr.1

/-- "0" with `%i`: read as the octal number 0 -/
theorem scanInt_zero_i (r : Bytes) (hr : NumEnd r) : scanInt .i none (48 :: r) = some (0, r) := by
  obtain ⟨h1, _, h3, h4⟩ := hr
  have hx : tolower (hd r) ≠ 120 := by
    revert h3 h4; generalize hd r = c; revert c; apply UInt8.forall_of_fin; decide +kernel
  have htd : ∀ w, takeDigits 8 r w = ([], r) := by
    intro w
    cases r with
    | nil => rfl
    | cons c t => simp only [hd_cons] at h1; simp [takeDigits, digitOk, h1]
  unfold scanInt
  have h48sp : isspace 48 = false := by decide
  simp only [skipSpace, h48sp, Bool.false_eq_true, ↓reduceIte]
  simp [intPrefix, wOk, hx, htd, digitsVal, intValue, clampI64]

/-- `t` is the decimal spelling of `v` as `%d` prints it: what the scanner's helpers do with it -/
structure DecNum (t : Bytes) (v : Int) : Prop where
  ne : t ≠ []
  chars : ∀ c ∈ t, c = 45 ∨ isdigit c = true
  scan_d : ∀ r, NumEnd r → scanInt .d none (t ++ r) = some (v, r)
  scan_i : ∀ r, NumEnd r → scanInt .i none (t ++ r) = some (v, r)
  nodate : ∀ r, NumEnd r → skipFmt fmtIsDate (t ++ r) = 0
  nomult : ∀ r, NumEnd r → isRangeMultiplier (t ++ r) = false

theorem clampI64_id (v : Int) (h1 : -9223372036854775808 ≤ v) (h2 : v ≤ 9223372036854775807) : clampI64 v = v := by
  unfold clampI64
  split
  · omega
  · split <;> omega

theorem decNum_fmtDec (v : Int) (h1 : -9223372036854775808 ≤ v) (h2 : v ≤ 9223372036854775807) :
    DecNum (fmtDec v) v := by
  rcases fmtDec_shape v with ⟨hv, ht⟩ | ⟨d, ds, hd0, hnz, hds, ht, hval⟩
  · subst hv; rw [ht]
    refine ⟨by simp, by intro c hc; simp at hc; subst hc; right; rfl, ?_, ?_, ?_, ?_⟩
    · intro r hr; exact scanInt_zero_d r hr.1
    · intro r hr; exact scanInt_zero_i r hr
    · intro r hr; exact isDate_dec false 48 [] r rfl (by simp) hr
    · intro r hr; simp [isRangeMultiplier]
  · have hval' : (if v < 0 then -(digitsVal 10 (d :: ds) : Int) else (digitsVal 10 (d :: ds) : Int)) = v := by
      rw [hval]; split <;> omega
    have hdt : fmtDec v = decText (decide (v < 0)) d ds := by
      rw [ht]; unfold decText; by_cases hv : v < 0 <;> simp [hv]
    rw [hdt]
    refine ⟨by cases decide (v < 0) <;> simp [decText], ?_, ?_, ?_, ?_, ?_⟩
    · intro c hc
      cases hneg : decide (v < 0) <;> simp [decText, hneg] at hc
      · rcases hc with rfl | hc; right; exact hd0; right; exact hds c hc
      · rcases hc with rfl | rfl | hc; left; rfl; right; exact hd0; right; exact hds c hc
    · intro r hr
      rw [scanInt_decText .d (by decide) _ d ds r hd0 hnz hds hr]
      congr 2
      rw [show (if decide (v < 0) = true then -(digitsVal 10 (d :: ds) : Int) else (digitsVal 10 (d :: ds) : Int)) = v from by
        simpa using hval']
      exact clampI64_id v h1 h2
    · intro r hr
      rw [scanInt_decText .i (by decide) _ d ds r hd0 hnz hds hr]
      congr 2
      rw [show (if decide (v < 0) = true then -(digitsVal 10 (d :: ds) : Int) else (digitsVal 10 (d :: ds) : Int)) = v from by
        simpa using hval']
      exact clampI64_id v h1 h2
    · intro r hr; exact isDate_dec _ d ds r hd0 hds hr
    · intro r hr
      cases hneg : decide (v < 0)
      · simp only [decText, Bool.false_eq_true, ↓reduceIte, List.nil_append, List.cons_append, isRangeMultiplier,
          hd_cons, List.drop_succ_cons, List.drop_zero, skipDigits_digits ds r hds hr.1]
        simp [hr.2.2.1]
      · simp [decText, isRangeMultiplier, isdigit]

theorem numStart_facts (c : UInt8) (h : c = 45 ∨ isdigit c = true) :
    c ≠ 116 ∧ c ≠ 102 ∧ c ≠ 110 ∧ c ≠ 105 ∧ c ≠ 35 ∧ c ≠ 39 ∧ c ≠ 34 ∧ c ≠ 77 ∧ c ≠ 91 ∧ c ≠ 66 ∧
    isIdentStart c = false ∧ wordChar c = true ∧ isspace c = false ∧ c ≠ 0 ∧ c ≠ 40 ∧ c ≠ 46 ∧ c ≠ 37 ∧ c ≠ 47 ∧ c ≠ 93 := by
  revert h; revert c; apply UInt8.forall_of_fin; decide +kernel

theorem sep_numEnd (rest : Bytes) (h : Sep rest) : NumEnd rest := by
  obtain ⟨a, b, c, d, _⟩ := sep_hd_facts rest h
  exact ⟨a, d, b, c⟩

/-- the `switch` of the scanner sends a number to the numeric case -/
theorem scanValue_num (se : ElemScanner) (s : Bytes) (prev : List Cell)
    (hc : hd s = 45 ∨ isdigit (hd s) = true) (hm : isRangeMultiplier s = false)
    (hdate : skipFmt fmtIsDate s = 0) : scanValue se s prev = scanNumeric s := by
  obtain ⟨a1, a2, a3, a4, a5, a6, a7, a8, a9, a10, a11, _⟩ := numStart_facts (hd s) hc
  unfold scanValue
  simp [a1, a2, a3, a4, a5, a6, a7, a8, a9, a10, a11, hm, hdate]

theorem sscanf_d_try (t r : Bytes) (v : Int) (h : scanInt .d none (t ++ r) = some (v, r)) :
    sscanf (NumFmt.d.tryDirs) (t ++ r) = [.pos t.length] := by
  unfold sscanf NumFmt.tryDirs
  rw [sscanfGo_int_some _ _ _ _ _ _ _ _ _ h]
  simp [sscanfGo]

theorem sscanf_d_scan (t r : Bytes) (v : Int) (h : scanInt .d none (t ++ r) = some (v, r)) :
    sscanf (NumFmt.d.dirs false) (t ++ r) = [.int v, .pos t.length] := by
  unfold sscanf NumFmt.dirs
  rw [sscanfGo_int_some _ _ _ _ _ _ _ _ _ h]
  simp [sscanfGo]

theorem sscanf_h_try_fail (t r : Bytes) (v : Int) (h : scanInt .i none (t ++ r) = some (v, r)) (hr : hd r ≠ 104) :
    sscanf (NumFmt.h.tryDirs) (t ++ r) = [] := by
  unfold sscanf NumFmt.tryDirs
  rw [sscanfGo_int_some _ _ _ _ _ _ _ _ _ h, sscanfGo_lit_ne _ _ _ _ _ hr]
  rfl

/-- format selection for a plain decimal integer -/
theorem scanfFmtstr_int (t rest : Bytes) (v : Int) (hn : DecNum t v) (hs : Sep rest) :
    scanfFmtstr (t ++ rest) = some .d := by
  have hne := sep_numEnd rest hs
  obtain ⟨_, _, _, _, h104, _⟩ := sep_hd_facts rest hs
  have hlen : numWordLen (t ++ rest) = t.length :=
    numWordLen_word t rest (fun c hc => (numStart_facts c (hn.chars c hc)).2.2.2.2.2.2.2.2.2.2.2.1) hs
  have hpos : 0 < t.length := List.length_pos_iff.mpr hn.ne
  unfold scanfFmtstr
  simp only [hlen, List.find?, scanRd, sscanf_h_try_fail t rest v (hn.scan_i rest hne) h104,
    sscanf_d_try t rest v (hn.scan_d rest hne)]
  have : (0 : Nat) ≠ t.length := by omega
  simp [this]

theorem toI32_id (v : Int) (h1 : -2147483648 ≤ v) (h2 : v ≤ 2147483647) : toI32 v = v := by
  unfold toI32; omega

/-- the numeric case of the scanner on an `int32` token -/
theorem scanNumeric_int (t rest : Bytes) (v : Int) (hn : DecNum t v) (hs : Sep rest)
    (h1 : -2147483648 ≤ v) (h2 : v ≤ 2147483647) :
    scanNumeric (t ++ rest) = .ok ⟨rest, [Cell.int .i v], true⟩ := by
  have hne := sep_numEnd rest hs
  have hfmt := scanfFmtstr_int t rest v hn hs
  have hsc := sscanf_d_scan t rest v (hn.scan_d rest hne)
  have hpass : scanNumberPass (t ++ rest) 0 none = .ok (t.length, 105, (v % 4294967296).toNat) := by
    simp [scanNumberPass, hfmt, NumFmt.type, hsc, toI32_id v h1 h2, bind, Except.bind, pure, Except.pure]
  have h40 := (sep_skipSpace_facts rest hs).1
  have hcell : cellOfRaw 105 (v % 4294967296).toNat = .ok (Cell.int .i v) := by
    have hv : toI32 (((v % 4294967296).toNat : Int) % 4294967296) = v := by
      unfold toI32; omega
    unfold cellOfRaw
    simp only [show (105 : UInt8) ≠ 104 from by decide, ↓reduceIte, hv]
  simp [scanNumeric, hpass, h40, hcell, bind, Except.bind, pure, Except.pure]

/-- the `switch` of the checker sends a number to the numeric case -/
theorem skipValue_num (sk : ArgSkipper) (s : Bytes) (ty : UInt8) (ib : Bool)
    (hc : hd s = 45 ∨ isdigit (hd s) = true) (hm : isRangeMultiplier s = false)
    (hdate : skipFmt fmtIsDate s = 0) : skipValue sk s ty ib = .ok (some (skipNumericArg s ty)) := by
  obtain ⟨a1, a2, a3, a4, a5, a6, a7, a8, a9, a10, a11, _⟩ := numStart_facts (hd s) hc
  unfold skipValue
  simp [a1, a2, a3, a4, a5, a6, a7, a8, a9, a10, a11, hm, hdate, pure, Except.pure]

theorem skipNumericArg_int (t rest : Bytes) (v : Int) (ty : UInt8) (hn : DecNum t v) (hs : Sep rest) :
    skipNumericArg (t ++ rest) ty = ⟨some rest, 1, 105, 0⟩ := by
  have hne := sep_numEnd rest hs
  have hfmt := scanfFmtstr_int t rest v hn hs
  have hpos : 0 < t.length := List.length_pos_iff.mpr hn.ne
  have hskip : skipFmt (NumFmt.d.dirs true) (t ++ rest) = t.length := by
    unfold skipFmt scanRd sscanf NumFmt.dirs
    rw [sscanfGo_int_some _ _ _ _ _ _ _ _ _ (hn.scan_d rest hne)]
    simp [sscanfGo]
  have h40 := (sep_skipSpace_facts rest hs).1
  have hne0 : t.length ≠ 0 := by omega
  simp [skipNumericArg, skipNumeric, hfmt, hskip, NumFmt.type, hne0, h40]

/-- **int32 token**: the `%d` spelling of an `int32_t` scans and checks back as that 'i' value -/
theorem tokOK_int (v : Int) (h1 : -2147483648 ≤ v) (h2 : v ≤ 2147483647) :
    TokOK (fmtDec v) (Cell.int .i v) := by
  have hn := decNum_fmtDec v (by omega) (by omega)
  have hstart : hd (fmtDec v) = 45 ∨ isdigit (hd (fmtDec v)) = true := hn.chars _ (hd_mem _ hn.ne)
  refine ⟨?_, ?_, ?_⟩
  · obtain ⟨_, _, _, _, _, _, _, _, _, _, _, _, b1, b2, b3, b4, b5, b6, b7⟩ := numStart_facts _ hstart
    exact ⟨hn.ne, b1, b2, b3, b4, b5, b6, b7⟩
  · intro rest fuel prev ab hs
    have hne := sep_numEnd rest hs
    apply scanArgVal_of_value _ _ _ _ _ _ hs
    rw [scanValue_num _ _ _ (by rw [hd_append_of_ne_nil _ _ hn.ne]; exact hstart) (hn.nomult rest hne) (hn.nodate rest hne)]
    exact scanNumeric_int _ rest v hn hs h1 h2
  · intro rest fuel ty llhs ib hs
    have hne := sep_numEnd rest hs
    apply skipNext_of_value _ _ 105 0 _ _ _ _ hs
    rw [skipValue_num _ _ _ _ (by rw [hd_append_of_ne_nil _ _ hn.ne]; exact hstart) (hn.nomult rest hne) (hn.nodate rest hne)]
    rw [skipNumericArg_int _ rest v ty hn hs]

end Rtosc.Pretty
