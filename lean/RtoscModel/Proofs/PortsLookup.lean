/-
  C04 helper lemmas, part 3: literal names, `hard_match`, and the hashed lookup.
    * `splitName_render`: key and type specification of a rendered name;
    * `hardMatch_lit`: for a literal name `hard_match` (repaired, C04-01) computes exactly
      what `rtosc_match` computes (`matchB`);
    * `lookup_sound`: for *arbitrary* `pos`/`assoc`/`remap`, a port selected by the hashed
      lookup matches the message;
    * `lookup_complete`: under `HashOK` a port that matches the message is selected.
-/
import RtoscModel.Proofs.PortsHash
import RtoscModel.Props.C05
namespace Rtosc.Ports
open Rtosc Rtosc.Match Rtosc.Ports.Hash

def Seg.isLit : Seg → Bool
  | .lit _ => true
  | _ => false

/-- the part of a rendered name in front of the type specification -/
def keyOf (p : Pat) : Bytes := renderSegs p.segs ++ (if p.sub then [47] else [])

/-- `arg_spec` of a rendered name -/
def specOf (p : Pat) : Option Bytes :=
  match p.types with
  | none => none
  | some ts => some (renderTypeAlts ts ++ [0])

theorem render_eq (p : Pat) : p.render = keyOf p ++ renderTypes p.types := by
  simp [Pat.render, Pat.tail, keyOf]

theorem segsWf_all {sub : Bool} : ∀ {segs : List Seg}, segsWf sub segs = true → ∀ s ∈ segs, s.wf = true := by
  intro segs
  induction segs with
  | nil => intro _ s hs; simp at hs
  | cons x r ih =>
    intro h s hs
    obtain ⟨hx, hr, _, _⟩ := segsWf_cons h
    rcases List.mem_cons.mp hs with rfl | hs
    · exact hx
    · exact ih hr s hs

theorem isDigit_ne {c : UInt8} (h : isDigit c = true) : c ≠ 0 ∧ c ≠ 58 ∧ c ≠ 47 ∧ c ≠ 35 := by
  simp only [isDigit, Bool.and_eq_true, decide_eq_true_eq] at h
  obtain ⟨h1, h2⟩ := h
  refine ⟨?_, ?_, ?_, ?_⟩ <;> (intro hc; subst hc; revert h1 h2; decide)

/-- characters of the rendering of literal and `#N` segments -/
theorem renderSegs_chars {sub : Bool} {segs : List Seg} (hwf : segsWf sub segs = true)
    (hna : noAlts segs = true) : ∀ c ∈ renderSegs segs, c ≠ 0 ∧ c ≠ 58 := by
  induction segs with
  | nil => intro c hc; simp [renderSegs] at hc
  | cons s r ih =>
    obtain ⟨hs, hr, _, _⟩ := segsWf_cons hwf
    simp only [noAlts, List.all_cons, Bool.and_eq_true] at hna
    intro c hc
    simp only [renderSegs, List.mem_append] at hc
    rcases hc with hc | hc
    · cases s with
      | lit t =>
        simp only [Seg.wf, Bool.and_eq_true, List.all_eq_true] at hs
        have := litChar_ne (hs.2 c (by simpa [Seg.render] using hc))
        exact ⟨this.1, this.2.2.2.2⟩
      | enum ds =>
        simp only [Seg.wf, Bool.and_eq_true, List.all_eq_true] at hs
        simp only [Seg.render, List.mem_cons] at hc
        rcases hc with rfl | hc
        · exact ⟨by decide, by decide⟩
        · have := isDigit_ne (hs.1.2 c hc)
          exact ⟨this.1, this.2.1⟩
      | alts as => simp [Seg.isAlts] at hna
    · exact ih hr (by simpa [noAlts] using hna.2) c hc

theorem keyOf_chars {p : Pat} (hwf : p.WF0) (hna : noAlts p.segs = true) :
    ∀ c ∈ keyOf p, c ≠ 0 ∧ c ≠ 58 := by
  intro c hc
  simp only [keyOf, List.mem_append] at hc
  rcases hc with hc | hc
  · exact renderSegs_chars (wf0_segs hwf) hna c hc
  · cases hs : p.sub with
    | true => simp only [hs, ↓reduceIte, List.mem_singleton] at hc; subst hc; exact ⟨by decide, by decide⟩
    | false => simp [hs] at hc

theorem renderSegs_ne_nil {sub : Bool} {segs : List Seg} (hwf : segsWf sub segs = true) (hne : segs ≠ []) :
    renderSegs segs ≠ [] := by
  cases segs with
  | nil => exact absurd rfl hne
  | cons s r =>
    obtain ⟨hs, _, _, _⟩ := segsWf_cons hwf
    cases s with
    | lit t =>
      simp only [Seg.wf, Bool.and_eq_true, Bool.not_eq_eq_eq_not, Bool.not_true, List.isEmpty_eq_false_iff] at hs
      simp [renderSegs, Seg.render, hs.1]
    | enum ds => simp [renderSegs, Seg.render]
    | alts as => simp [renderSegs, Seg.render]

theorem takeWhile_key (k t : Bytes) (hk : ∀ c ∈ k, c ≠ 58) (ht : t = [] ∨ ∃ r, t = 58 :: r) :
    (k ++ t).takeWhile (· != 58) = k := by
  induction k with
  | nil =>
    rcases ht with rfl | ⟨r, rfl⟩ <;> simp
  | cons c k ih =>
    have hc : c ≠ 58 := hk c List.mem_cons_self
    have : (c != 58) = true := by simp [hc]
    simp only [List.cons_append, List.takeWhile_cons, this, ↓reduceIte,
      ih (fun x hx => hk x (List.mem_cons_of_mem _ hx))]

theorem renderTypes_head (ty : Option (List Bytes)) (h : typesWf ty = true) :
    renderTypes ty = [] ∨ ∃ r, renderTypes ty = 58 :: r := by
  cases ty with
  | none => exact Or.inl rfl
  | some ts =>
    cases ts with
    | nil => simp [typesWf] at h
    | cons a r => exact Or.inr ⟨a ++ renderTypeAlts r, by simp [renderTypes, renderTypeAlts]⟩

/-- key and `arg_spec` of a rendered name (`generate_minimal_hash(Ports&, …)`) -/
theorem splitName_render {p : Pat} (hwf : p.WF0) (hne : p.segs ≠ []) (hna : noAlts p.segs = true) :
    splitName p.render = (keyOf p, specOf p) := by
  have hk := keyOf_chars hwf hna
  have hkne : keyOf p ≠ [] := by
    have := renderSegs_ne_nil (wf0_segs hwf) hne
    simp [keyOf, this]
  have hty := renderTypes_head p.types (wf0_types hwf)
  have htw := takeWhile_key (keyOf p) (renderTypes p.types) (fun c hc => (hk c hc).2) hty
  unfold splitName
  simp only [render_eq, htw]
  rcases hty with h0 | ⟨r, hr⟩
  · have hspec : specOf p = none := by
      unfold specOf
      cases hty' : p.types with
      | none => rfl
      | some ts =>
        cases ts with
        | nil => have := wf0_types hwf; simp [hty', typesWf] at this
        | cons a r => simp [hty', renderTypes, renderTypeAlts] at h0
    simp [h0, hspec]
  · have hspec : specOf p = some (renderTypes p.types ++ [0]) := by
      unfold specOf
      cases hty' : p.types with
      | none => simp [hty', renderTypes] at hr
      | some ts => simp [renderTypes]
    have hlen : 0 < (keyOf p).length := List.length_pos_iff.mpr hkne
    simp [hr, hspec, hlen]

/-! ### `strncmp`, literal keys -/

theorem strncmpEq_prefix (key : Bytes) (hk : NulFree key) :
    ∀ (a ex : Bytes), strncmpEq key (a ++ 0 :: ex) = some (key.isPrefixOf a) := by
  induction key with
  | nil => intro a ex; simp [strncmpEq]
  | cons c k ih =>
    intro a ex
    have hc : c ≠ 0 := hk.head
    cases a with
    | nil => simp [strncmpEq, hc, List.isPrefixOf]
    | cons d a =>
      by_cases hcd : c = d
      · subst hcd
        simp [strncmpEq, hc, ih hk.tail, List.isPrefixOf]
      · simp [strncmpEq, hcd, List.isPrefixOf]

theorem isPrefixOf_append (s l : Bytes) : ∀ (a : Bytes),
    (s ++ l).isPrefixOf a = (s.isPrefixOf a && l.isPrefixOf (a.drop s.length)) := by
  induction s with
  | nil => intro a; simp
  | cons c s ih =>
    intro a
    cases a with
    | nil => simp [List.isPrefixOf]
    | cons d a => simp [List.isPrefixOf, ih, Bool.and_assoc]

def allLit (segs : List Seg) : Bool := segs.all Seg.isLit

/-- what `rtosc_match_path` accepts for a purely literal name -/
theorem greedy_lits : ∀ (segs : List Seg), allLit segs = true → ∀ (sub : Bool) (a : Bytes),
    greedy segs sub a =
      if sub then (if (renderSegs segs ++ [47]).isPrefixOf a then some (a.drop ((renderSegs segs).length + 1)) else none)
      else (if a = renderSegs segs then some [] else none) := by
  intro segs
  induction segs with
  | nil =>
    intro _ sub a
    cases sub with
    | false => by_cases h : a = [] <;> simp [greedy, renderSegs, h]
    | true =>
      cases a with
      | nil => simp [greedy, renderSegs]
      | cons d t =>
        by_cases h : d = 47
        · subst h; simp [greedy, renderSegs, List.isPrefixOf]
        · have : ¬ (47 : UInt8) = d := fun h' => h h'.symm
          simp [greedy, renderSegs, List.isPrefixOf, h, this]
  | cons s r ih =>
    intro hl sub a
    simp only [allLit, List.all_cons, Bool.and_eq_true] at hl
    cases s with
    | lit t =>
      have ih' := ih (by simpa [allLit] using hl.2) sub (a.drop t.length)
      simp only [greedy, renderSegs, Seg.render, List.append_assoc]
      by_cases hp : t.isPrefixOf a = true
      · simp only [hp, ↓reduceIte, ih']
        cases sub with
        | true =>
          simp only [↓reduceIte, isPrefixOf_append t, hp, Bool.true_and, List.length_append, List.drop_drop]
          simp only [Nat.add_assoc]
        | false =>
          simp only [Bool.false_eq_true, ↓reduceIte]
          obtain ⟨x, hx⟩ := List.isPrefixOf_iff_prefix.mp hp
          subst hx
          simp
      · simp only [hp, Bool.false_eq_true, ↓reduceIte]
        cases sub with
        | true =>
          simp [isPrefixOf_append t, hp]
        | false =>
          have : ¬ a = t ++ renderSegs r := by
            intro h; subst h
            exact hp (List.isPrefixOf_iff_prefix.mpr (List.prefix_append _ _))
          simp [this]
    | enum ds => simp [Seg.isLit] at hl
    | alts as => simp [Seg.isLit] at hl

/-- without trailing '/', the last literal does not end in '/' -/
theorem lits_last {segs : List Seg} (hwf : segsWf false segs = true) (hl : allLit segs = true) (hne : segs ≠ []) :
    (renderSegs segs).getLast? ≠ some 47 := by
  induction segs with
  | nil => exact absurd rfl hne
  | cons s r ih =>
    cases r with
    | nil =>
      cases s with
      | lit t =>
        simp only [segsWf, Bool.false_or, Bool.and_eq_true] at hwf
        simpa [renderSegs, Seg.render] using hwf.2
      | enum ds => simp [allLit, Seg.isLit] at hl
      | alts as => simp [allLit, Seg.isLit] at hl
    | cons t r' =>
      obtain ⟨_, hr, _, _⟩ := segsWf_cons hwf
      have hl' : allLit (t :: r') = true := by
        simp only [allLit, List.all_cons, Bool.and_eq_true] at hl ⊢
        exact hl.2
      have hne' := renderSegs_ne_nil hr (by simp : t :: r' ≠ [])
      have := ih hr hl' (by simp)
      simp only [renderSegs] at this hne' ⊢
      rw [List.getLast?_append]
      cases hgl : (renderSegs r' |> fun x => (t.render ++ x).getLast?) with
      | none =>
        have : (t.render ++ renderSegs r') = [] := List.getLast?_eq_none_iff.mp hgl
        exact absurd this hne'
      | some z =>
        simp only at hgl
        rw [hgl] at this ⊢
        simpa using this

/-! ### the type check of `hard_match` is the one of `rtosc_match` -/

theorem args_types {ts : List Bytes} (hne : ts ≠ []) (hch : ∀ a ∈ ts, ∀ c ∈ a, tagChar c = true)
    {tags : Bytes} (ht : NulFree tags) (rest : Bytes) :
    args (renderTypeAlts ts ++ [0]) (tags ++ 0 :: rest) = some (typesCode ts tags) := by
  obtain ⟨x, ts', rfl⟩ := List.exists_cons_of_ne_nil hne
  have hargs := argsStart_types_eq tags rest ht (x :: ts') hne hch
  simp only at hargs
  simp only [renderTypeAlts, List.cons_append, List.append_assoc, args_colon]
  exact hargs

/-- **`hard_match` on a literal name** computes what `rtosc_match` computes -/
theorem hardMatch_lit {p : Pat} (hwf : p.WF0) (hne : p.segs ≠ []) (hl : allLit p.segs = true)
    (pm : Matcher) (i : Nat) (hfix : pm.fixed[i]? = some (keyOf p)) (hspec : pm.argSpec[i]? = some (specOf p))
    {a tags : Bytes} (k : Nat) (rest : Bytes) (ha : NulFree a) (ht : NulFree tags) :
    hardMatch pm i (a ++ 0 :: msgTail k tags rest) = some (matchB p a tags).isSome := by
  have hna : noAlts p.segs = true := by
    simp only [allLit, List.all_eq_true] at hl
    simp only [noAlts, List.all_eq_true]
    intro s hs
    have := hl s hs
    cases s <;> simp_all [Seg.isLit, Seg.isAlts]
  have hkc := keyOf_chars hwf hna
  have hknf : NulFree (keyOf p) := fun c hc => (hkc c hc).1
  have hkne : keyOf p ≠ [] := by
    have := renderSegs_ne_nil (wf0_segs hwf) hne
    simp [keyOf, this]
  have hg := greedy_lits p.segs hl p.sub a
  unfold hardMatch
  simp only [hfix, strncmpEq_prefix _ hknf]
  by_cases hp : (keyOf p).isPrefixOf a = true
  · obtain ⟨r, hr⟩ := List.isPrefixOf_iff_prefix.mp hp
    subst hr
    have hidx : (keyOf p ++ r ++ 0 :: msgTail k tags rest)[(keyOf p).length]? = some ((r ++ 0 :: msgTail k tags rest).headD 0) := by
      rw [List.append_assoc, List.getElem?_append_right (Nat.le_refl _)]
      cases r <;> simp
    simp only [hp, hidx]
    -- the path part
    have hpath : (greedy p.segs p.sub (keyOf p ++ r)).isSome =
        !(decide ((r ++ 0 :: msgTail k tags rest).headD 0 ≠ 0) && ((keyOf p).isEmpty || decide ((keyOf p).getLast? ≠ some 47))) := by
      rw [hg]
      cases hs : p.sub with
      | true =>
        have hk : keyOf p = renderSegs p.segs ++ [47] := by simp [keyOf, hs]
        have hlast : (keyOf p).getLast? = some 47 := by rw [hk]; simp
        have hemp : (keyOf p).isEmpty = false := by simpa using hkne
        simp [← hk, hlast, hemp, List.isPrefixOf_iff_prefix]
      | false =>
        have hk : keyOf p = renderSegs p.segs := by simp [keyOf, hs]
        have hwf' := wf0_segs hwf
        rw [hs] at hwf'
        have hlast := lits_last hwf' hl hne
        rw [← hk] at hlast
        have hemp : (keyOf p).isEmpty = false := by simpa using hkne
        simp only [Bool.false_eq_true, ↓reduceIte, ← hk, hemp, Bool.false_or, hlast, ne_eq,
          not_false_eq_true, decide_true, Bool.and_true]
        cases r with
        | nil => simp
        | cons d r' =>
          have hd : d ≠ 0 := ha d (by simp)
          simp [hd]
    -- the type part
    obtain ⟨c, a', hca⟩ := List.exists_cons_of_ne_nil (by simp [hkne] : keyOf p ++ r ≠ [])
    have hargstr := argString_suffix c a' (hca ▸ ha) k tags rest
    rw [← hca] at hargstr
    unfold matchB
    cases hgr : greedy p.segs p.sub (keyOf p ++ r) with
    | none =>
      rw [hgr] at hpath
      simp only [Option.isSome_none, Bool.false_eq, Bool.not_eq_eq_eq_not, Bool.not_false,
        Bool.and_eq_true, decide_eq_true_eq, Bool.or_eq_true] at hpath
      have : (r ++ 0 :: msgTail k tags rest).headD 0 ≠ 0 ∧ ((keyOf p).isEmpty = true ∨ (keyOf p).getLast? ≠ some 47) := hpath
      rw [if_pos this]
      rfl
    | some t =>
      rw [hgr] at hpath
      simp only [Option.isSome_some, Bool.true_eq, Bool.not_eq_eq_eq_not, Bool.not_true,
        Bool.and_eq_false_iff, decide_eq_false_iff_not, Bool.or_eq_false_iff] at hpath
      have hcond : ¬ ((r ++ 0 :: msgTail k tags rest).headD 0 ≠ 0 ∧ ((keyOf p).isEmpty = true ∨ (keyOf p).getLast? ≠ some 47)) := by
        rintro ⟨h1, h2⟩
        rcases hpath with h | h
        · exact h h1
        · rcases h2 with h2 | h2
          · simp [h.1] at h2
          · exact h2 (by simpa using h.2)
      rw [if_neg hcond]
      simp only [hspec]
      cases hty : p.types with
      | none => simp [specOf, hty]
      | some ts =>
        have htw := wf0_types hwf
        simp only [hty, typesWf, Bool.and_eq_true, Bool.not_eq_eq_eq_not, Bool.not_true,
          List.isEmpty_eq_false_iff, List.all_eq_true] at htw
        have hargs := args_types htw.1 htw.2 ht rest
        have hcopy := (copies_agree (renderTypeAlts ts ++ [0]) (keyOf p ++ r ++ 0 :: msgTail k tags rest)).2
        obtain ⟨x, ts', rfl⟩ := List.exists_cons_of_ne_nil htw.1
        simp only [renderTypeAlts, List.cons_append] at hargs hcopy
        simp only [specOf, hty, renderTypeAlts, List.cons_append]
        rw [hcopy]
        simp only [argsOfMsg, ne_eq, not_true_eq_false, ↓reduceIte, hargstr, hargs]
        by_cases hc : typesCode (x :: ts') tags = true <;> simp [hc]
  · have hp' : (keyOf p).isPrefixOf a = false := Bool.of_not_eq_true hp
    simp only [hp']
    unfold matchB
    rw [hg]
    cases hs : p.sub with
    | true =>
      have hk : keyOf p = renderSegs p.segs ++ [47] := by simp [keyOf, hs]
      simp [← hk, hp']
    | false =>
      have hk : keyOf p = renderSegs p.segs := by simp [keyOf, hs]
      have : ¬ a = renderSegs p.segs := by
        intro h; rw [← hk] at h; subst h
        exact hp (List.isPrefixOf_iff_prefix.mpr (List.prefix_refl _))
      simp [this]

/-! ### the hash of the first component -/

/-- length of the first component of an address, its '/' included -/
def compLen : Bytes → Nat
  | [] => 0
  | c :: r => if c = 47 then 1 else compLen r + 1

theorem firstLen_addr (a ex : Bytes) (ha : NulFree a) : firstLen (a ++ 0 :: ex) = some (compLen a) := by
  induction a with
  | nil => simp [firstLen, compLen]
  | cons c r ih =>
    have hc : c ≠ 0 := ha.head
    by_cases h47 : c = 47
    · simp [firstLen, compLen, h47]
    · simp [firstLen, compLen, hc, h47, ih ha.tail]

theorem compLen_le (a : Bytes) : compLen a ≤ a.length := by
  induction a with
  | nil => simp [compLen]
  | cons c r ih => by_cases h : c = 47 <;> simp [compLen, h] <;> omega

theorem compLen_noslash (x : Bytes) (hx : (47 : UInt8) ∉ x) : compLen x = x.length := by
  induction x with
  | nil => rfl
  | cons c r ih =>
    simp only [List.mem_cons, not_or] at hx
    have : c ≠ 47 := fun h => hx.1 h.symm
    simp [compLen, this, ih hx.2]

theorem compLen_slash (x y : Bytes) (hx : (47 : UInt8) ∉ x) : compLen (x ++ 47 :: y) = x.length + 1 := by
  induction x with
  | nil => simp [compLen]
  | cons c r ih =>
    simp only [List.mem_cons, not_or] at hx
    have : c ≠ 47 := fun h => hx.1 h.symm
    simp [compLen, this, ih hx.2]

/-- a name that matches has the first component of the address as its key, provided the
    key has no inner '/' -/
theorem take_comp_eq_key {p : Pat} (hl : allLit p.segs = true) (hns : (47 : UInt8) ∉ renderSegs p.segs)
    {a t : Bytes} (hg : greedy p.segs p.sub a = some t) : a.take (compLen a) = keyOf p := by
  rw [greedy_lits p.segs hl] at hg
  cases hs : p.sub with
  | false =>
    simp only [hs, Bool.false_eq_true, ↓reduceIte] at hg
    split at hg
    · next h => subst h; simp [keyOf, hs, compLen_noslash _ hns]
    · cases hg
  | true =>
    simp only [hs, ↓reduceIte] at hg
    split at hg
    · next h =>
      obtain ⟨r, hr⟩ := List.isPrefixOf_iff_prefix.mp h
      subst hr
      simp only [List.append_assoc, List.singleton_append, compLen_slash _ _ hns, keyOf, hs, ↓reduceIte]
      rw [show renderSegs p.segs ++ 47 :: r = (renderSegs p.segs ++ [47]) ++ r by simp,
        List.take_left' (by simp)]
    · cases hg

theorem matchB_greedy {p : Pat} {a tags t : Bytes} (h : matchB p a tags = some t) :
    greedy p.segs p.sub a = some t := by
  unfold matchB at h
  split at h
  · cases h
  · next t' hg =>
    split at h
    · cases h; exact hg
    · split at h
      · cases h; exact hg
      · cases h

theorem mem_renderSegs_enum (ds : Bytes) : ∀ (segs : List Seg), Seg.enum ds ∈ segs → (35 : UInt8) ∈ renderSegs segs := by
  intro segs
  induction segs with
  | nil => intro h; simp at h
  | cons x r ih =>
    intro hs
    simp only [renderSegs, List.mem_append]
    rcases List.mem_cons.mp hs with h | hs
    · left; subst h; simp [Seg.render]
    · right; exact ih hs

/-- no '#' in the rendering: all segments are literal -/
theorem allLit_of_noHash {p : Pat} (hna : noAlts p.segs = true) (h : hasChar 35 p.render = false) :
    allLit p.segs = true := by
  simp only [allLit, List.all_eq_true]
  intro s hs
  cases s with
  | lit t => rfl
  | enum ds =>
    exfalso
    have hmem : (35 : UInt8) ∈ p.render := by
      simp only [Pat.render, List.mem_append]
      exact Or.inl (mem_renderSegs_enum ds _ hs)
    simp only [hasChar] at h
    have := List.contains_iff_mem.mpr hmem
    rw [this] at h
    cases h
  | alts as =>
    simp only [noAlts, List.all_eq_true] at hna
    have := hna _ hs
    simp [Seg.isAlts] at this

theorem dropWhile_ne_nil_of_mem {α : Type} (q : α → Bool) : ∀ (l : List α) (x : α), x ∈ l → q x = false →
    l.dropWhile q ≠ [] := by
  intro l
  induction l with
  | nil => intro x hx; simp at hx
  | cons c r ih =>
    intro x hx hq
    simp only [List.dropWhile_cons]
    split
    · next hc =>
      rcases List.mem_cons.mp hx with rfl | hx
      · rw [hq] at hc; cases hc
      · exact ih x hx hq
    · simp

theorem noAlts_of_allLit {segs : List Seg} (hl : allLit segs = true) : noAlts segs = true := by
  simp only [allLit, List.all_eq_true] at hl
  simp only [noAlts, List.all_eq_true]
  intro s hs
  have := hl s hs
  cases s <;> simp_all [Seg.isLit, Seg.isAlts]

/-- C04-03: a name that passes the guard has no '/' inside its literal text -/
theorem noSlash_of_noInner {p : Pat} (hwf : p.WF0) (hne : p.segs ≠ []) (hl : allLit p.segs = true)
    (h : innerSlash p.render = false) : (47 : UInt8) ∉ renderSegs p.segs := by
  intro hmem
  have hna := noAlts_of_allLit hl
  have hch := renderSegs_chars (wf0_segs hwf) hna
  have hdw : (renderSegs p.segs).dropWhile (· != 47) ≠ [] :=
    dropWhile_ne_nil_of_mem _ _ 47 hmem (by simp)
  obtain ⟨c0, y, hy⟩ := List.exists_cons_of_ne_nil hdw
  have hc0 : c0 = 47 := by
    have := List.head_dropWhile_not (· != 47) hdw
    simpa [hy] using this
  subst hc0
  have hsplit := List.takeWhile_append_dropWhile (p := (· != 47)) (l := renderSegs p.segs)
  rw [hy] at hsplit
  have hname : p.render.dropWhile (· != 47) =
      47 :: y ++ ((if p.sub then [47] else []) ++ renderTypes p.types) := by
    rw [Pat.render, Pat.tail, List.dropWhile_append]
    simp [hy]
  unfold innerSlash at h
  rw [hname] at h
  cases y with
  | cons c y' =>
    have : c ≠ 58 := (hch c (by rw [← hsplit]; simp)).2
    simp [this] at h
  | nil =>
    have hlast : (renderSegs p.segs).getLast? = some 47 := by rw [← hsplit]; simp
    cases hs : p.sub with
    | true => simp [hs] at h
    | false =>
      have hwf' := wf0_segs hwf
      rw [hs] at hwf'
      exact lits_last hwf' hl hne hlast

/-! ### soundness and completeness of the hashed lookup -/

/-- **hashed_sound, one level**: for arbitrary `pos` / `assoc` / `remap`, the port the
    hashed lookup selects (`hard_match` succeeded) matches the message — provided its
    name is literal and `fixed` / `arg_spec` are what `generate_minimal_hash` stores. -/
theorem lookup_sound {p : Pat} (hwf : p.WF0) (hne : p.segs ≠ []) (hl : allLit p.segs = true)
    (pm : Matcher) (j : Nat) (hfix : pm.fixed[j]? = some (keyOf p)) (hspec : pm.argSpec[j]? = some (specOf p))
    {a tags : Bytes} (k : Nat) (rest : Bytes) (ha : NulFree a) (ht : NulFree tags)
    (hlk : lookup pm (a ++ 0 :: msgTail k tags rest) = some (.slot j true)) :
    (matchB p a tags).isSome = true := by
  unfold lookup at hlk
  simp only [firstLen_addr a _ ha] at hlk
  split at hlk
  · cases hlk
  · next k' hk' =>
    have hhm := fun hf hs => hardMatch_lit hwf hne hl pm k' hf hs k rest ha ht
    cases hh : hardMatch pm k' (a ++ 0 :: msgTail k tags rest) with
    | none => simp [hh] at hlk
    | some b =>
      simp only [hh, Option.map_some, Option.some.injEq, Lookup.slot.injEq] at hlk
      obtain ⟨rfl, rfl⟩ := hlk
      have := hhm hfix hspec
      rw [hh] at this
      exact (Option.some.inj this).symm

/-- **hashed_complete, one level**: under `HashOK`, a port whose name matches the message
    is the one the hashed lookup selects -/
theorem lookup_complete {names : List Bytes} {pm : Matcher} (hok : HashOK names pm)
    {p : Pat} (hwf : p.WF0) (hne : p.segs ≠ []) (hna : noAlts p.segs = true)
    (i : Nat) (hi : names[i]? = some p.render)
    {a tags t : Bytes} (k : Nat) (rest : Bytes) (ha : NulFree a) (ht : NulFree tags)
    (hm : matchB p a tags = some t) :
    lookup pm (a ++ 0 :: msgTail k tags rest) = some (.slot i true) := by
  obtain ⟨hilt, hieq⟩ := List.getElem?_eq_some_iff.mp hi
  have hmem : p.render ∈ names := hieq ▸ List.getElem_mem hilt
  have hl := allLit_of_noHash hna (hok.noHash _ hmem)
  have hns := noSlash_of_noInner hwf hne hl (hok.noInner _ hmem)
  have hg := matchB_greedy hm
  have htake := take_comp_eq_key hl hns hg
  have hsplit := splitName_render hwf hne hna
  have hklen : i < (keysOf names).length := by simpa [keysOf] using hilt
  have hkey : (keysOf names)[i] = keyOf p := by simp [keysOf, hieq, hsplit]
  have hremap := hok.remap i hklen
  rw [hkey] at hremap
  have hfix : pm.fixed[i]? = some (keyOf p) := by
    rw [hok.fixed, List.getElem?_eq_getElem hklen, hkey]
  have hspec : pm.argSpec[i]? = some (specOf p) := by
    rw [hok.argSpec]
    simp [specsOf, hi, hsplit]
  have hhm := hardMatch_lit hwf hne hl pm i hfix hspec k rest ha ht
  unfold lookup
  have hcl := compLen_le a
  have htk : (a ++ 0 :: msgTail k tags rest).take (compLen a) = keyOf p := by
    rw [List.take_append_of_le_length hcl, htake]
  simp only [firstLen_addr a _ ha, htk, hremap, hhm, hm, Option.isSome_some, Option.map_some]

end Rtosc.Ports
