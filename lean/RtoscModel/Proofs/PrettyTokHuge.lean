/-
  C10 — token of the 64-bit integer type 'h': `%ld` followed by `h`, e.g. `-5000000000h`.
-/
import RtoscModel.Proofs.PrettyTokNum
namespace Rtosc.Pretty
open Rtosc Rtosc.Libc
open Rtosc.ArgVal (Cell)

theorem numEnd_h (r : Bytes) : NumEnd (104 :: r) := by
  unfold NumEnd
  simp only [hd_cons]
  decide

theorem sscanf_h_try (t r : Bytes) (v : Int) (h : scanInt .i none (t ++ 104 :: r) = some (v, 104 :: r)) :
    sscanf (NumFmt.h.tryDirs) (t ++ 104 :: r) = [.pos (t.length + 1)] := by
  unfold sscanf NumFmt.tryDirs
  rw [sscanfGo_int_some _ _ _ _ _ _ _ _ _ h]
  simp [sscanfGo]

theorem sscanf_h_scan (sup : Bool) (t r : Bytes) (v : Int) (h : scanInt .i none (t ++ 104 :: r) = some (v, 104 :: r)) :
    sscanf (NumFmt.h.dirs sup) (t ++ 104 :: r) = (if sup then [] else [.int v]) ++ [.pos (t.length + 1)] := by
  unfold sscanf NumFmt.dirs
  rw [sscanfGo_int_some _ _ _ _ _ _ _ _ _ h]
  cases sup <;> simp [sscanfGo] <;> omega

theorem wordChar_h : wordChar 104 = true := by decide

/-- format selection for an integer with the suffix `h` -/
theorem scanfFmtstr_huge (t rest : Bytes) (v : Int) (hn : DecNum t v) (hs : Sep rest) :
    scanfFmtstr (t ++ 104 :: rest) = some .h := by
  have hlen : numWordLen ((t ++ [104]) ++ rest) = (t ++ [104]).length :=
    numWordLen_word (t ++ [104]) rest (by
      intro c hc
      simp only [List.mem_append, List.mem_singleton] at hc
      rcases hc with hc | rfl
      · exact (numStart_facts c (hn.chars c hc)).2.2.2.2.2.2.2.2.2.2.2.1
      · exact wordChar_h) hs
  simp only [List.append_assoc, List.singleton_append, List.length_append, List.length_singleton] at hlen
  unfold scanfFmtstr
  simp only [hlen, List.find?, scanRd, sscanf_h_try t rest v (hn.scan_i _ (numEnd_h rest))]
  simp

theorem toI64_id (v : Int) (h1 : -9223372036854775808 ≤ v) (h2 : v ≤ 9223372036854775807) : toI64 v = v := by
  unfold toI64; omega

theorem scanNumeric_huge (t rest : Bytes) (v : Int) (hn : DecNum t v) (hs : Sep rest)
    (h1 : -9223372036854775808 ≤ v) (h2 : v ≤ 9223372036854775807) :
    scanNumeric (t ++ 104 :: rest) = .ok ⟨rest, [Cell.huge v], true⟩ := by
  have hfmt := scanfFmtstr_huge t rest v hn hs
  have hsc := sscanf_h_scan false t rest v (hn.scan_i _ (numEnd_h rest))
  have hpass : scanNumberPass (t ++ 104 :: rest) 0 none =
      .ok (t.length + 1, 104, (v % 18446744073709551616).toNat) := by
    simp [scanNumberPass, hfmt, NumFmt.type, hsc, toI64_id v h1 h2, bind, Except.bind, pure, Except.pure]
  have h40 := (sep_skipSpace_facts rest hs).1
  have hcell : cellOfRaw 104 (v % 18446744073709551616).toNat = .ok (Cell.huge v) := by
    have hv : toI64 ((v % 18446744073709551616).toNat : Int) = v := by
      unfold toI64; omega
    unfold cellOfRaw
    simp only [↓reduceIte, hv]
  have hdrop : (t ++ 104 :: rest).drop (t.length + 1) = rest := by
    rw [show t ++ 104 :: rest = (t ++ [104]) ++ rest from by simp,
      show t.length + 1 = (t ++ [104]).length from by simp]
    exact List.drop_left
  simp [scanNumeric, hpass, hdrop, h40, hcell, bind, Except.bind, pure, Except.pure]

theorem skipNumericArg_huge (t rest : Bytes) (v : Int) (ty : UInt8) (hn : DecNum t v) (hs : Sep rest) :
    skipNumericArg (t ++ 104 :: rest) ty = ⟨some rest, 1, 104, 0⟩ := by
  have hfmt := scanfFmtstr_huge t rest v hn hs
  have hskip : skipFmt (NumFmt.h.dirs true) (t ++ 104 :: rest) = t.length + 1 := by
    unfold skipFmt scanRd
    rw [sscanf_h_scan true t rest v (hn.scan_i _ (numEnd_h rest))]
    rfl
  have h40 := (sep_skipSpace_facts rest hs).1
  have hdrop : (t ++ 104 :: rest).drop (t.length + 1) = rest := by
    rw [show t ++ 104 :: rest = (t ++ [104]) ++ rest from by simp,
      show t.length + 1 = (t ++ [104]).length from by simp]
    exact List.drop_left
  simp [skipNumericArg, skipNumeric, hfmt, hskip, NumFmt.type, hdrop, h40]

/-- **int64 token**: `%ldh` of an `int64_t` scans and checks back as that 'h' value -/
theorem tokOK_huge (v : Int) (h1 : -9223372036854775808 ≤ v) (h2 : v ≤ 9223372036854775807) :
    TokOK (fmtDec v ++ [104]) (Cell.huge v) := by
  have hn := decNum_fmtDec v h1 h2
  have hstart : hd (fmtDec v) = 45 ∨ isdigit (hd (fmtDec v)) = true := hn.chars _ (hd_mem _ hn.ne)
  have hne' : fmtDec v ++ [104] ≠ [] := by simp
  have hhd : ∀ rest : Bytes, hd ((fmtDec v ++ [104]) ++ rest) = hd (fmtDec v) := by
    intro rest; rw [List.append_assoc]; exact hd_append_of_ne_nil _ _ hn.ne
  refine ⟨?_, ?_, ?_⟩
  · obtain ⟨_, _, _, _, _, _, _, _, _, _, _, _, b1, b2, b3, b4, b5, b6, b7⟩ := numStart_facts _ hstart
    have : hd (fmtDec v ++ [104]) = hd (fmtDec v) := hd_append_of_ne_nil _ _ hn.ne
    rw [TokStart, this]
    exact ⟨hne', b1, b2, b3, b4, b5, b6, b7⟩
  · intro rest fuel prev ab hs
    apply scanArgVal_of_value _ _ _ _ _ _ hs
    have e : (fmtDec v ++ [104]) ++ rest = fmtDec v ++ 104 :: rest := by simp
    rw [scanValue_num _ _ _ (by rw [hhd]; exact hstart) (by rw [e]; exact hn.nomult _ (numEnd_h rest))
      (by rw [e]; exact hn.nodate _ (numEnd_h rest)), e]
    exact scanNumeric_huge _ rest v hn hs h1 h2
  · intro rest fuel ty llhs ib hs
    apply skipNext_of_value _ _ 104 0 _ _ _ _ hs
    have e : (fmtDec v ++ [104]) ++ rest = fmtDec v ++ 104 :: rest := by simp
    rw [skipValue_num _ _ _ _ (by rw [hhd]; exact hstart) (by rw [e]; exact hn.nomult _ (numEnd_h rest))
      (by rw [e]; exact hn.nodate _ (numEnd_h rest)), e]
    rw [skipNumericArg_huge _ rest v ty hn hs]

theorem printArgVal_int (fuel : Nat) (opt : POpt) (v : Int) (more : List Cell) (prev : Option Cell) (st : PSt) :
    printArgVal (fuel + 1) opt (Cell.int .i v :: more) prev st =
      .ok (⟨st.out ++ fmtDec v, st.cols + (fmtDec v).length⟩, (fmtDec v).length) := by
  simp [printArgVal, deref, bind, Except.bind, pure, Except.pure]

/-- 'i': `%d` -/
theorem printsTok_int (opt : POpt) (v : Int) (h1 : -2147483648 ≤ v) (h2 : v ≤ 2147483647) :
    PrintsTok opt (Cell.int .i v) := by
  intro fuel more prev st
  exact ⟨fmtDec v, _, printArgVal_int fuel opt v more prev st, tokOK_int v h1 h2⟩

theorem printArgVal_huge (fuel : Nat) (opt : POpt) (v : Int) (more : List Cell) (prev : Option Cell) (st : PSt) :
    printArgVal (fuel + 1) opt (Cell.huge v :: more) prev st =
      .ok (⟨st.out ++ (fmtDec v ++ [104]), st.cols + ((fmtDec v ++ [104]).length : Nat)⟩, (fmtDec v ++ [104]).length) := by
  simp [printArgVal, deref, bind, Except.bind, pure, Except.pure]

/-- 'h': `%ldh` -/
theorem printsTok_huge (opt : POpt) (v : Int) (h1 : -9223372036854775808 ≤ v) (h2 : v ≤ 9223372036854775807) :
    PrintsTok opt (Cell.huge v) := by
  intro fuel more prev st
  exact ⟨fmtDec v ++ [104], _, printArgVal_huge fuel opt v more prev st, tokOK_huge v h1 h2⟩

end Rtosc.Pretty
