/-
  C14 — helper lemmas about the building blocks of RtoscModel/Param.
-/
import RtoscModel.Param.Spec
namespace Rtosc.Param
open Rtosc

/-! ### integer types -/

theorem IntTy.wrap_of_inRange (t : IntTy) (v : Int) (h : t.InRange v) : t.wrap v = v := by
  unfold IntTy.InRange at h
  unfold IntTy.wrap
  cases t <;> simp only [IntTy.min, IntTy.max, IntTy.modulus] at * <;> omega

theorem IntTy.wrap_inRange (t : IntTy) (v : Int) : t.InRange (t.wrap v) := by
  unfold IntTy.InRange IntTy.wrap
  cases t <;> simp only [IntTy.min, IntTy.max, IntTy.modulus] <;> omega

/-- every value of `a` is a value of `b` -/
def IntTy.Sub (a b : IntTy) : Prop := b.min ≤ a.min ∧ a.max ≤ b.max

theorem IntTy.Sub.inRange {a b : IntTy} (h : a.Sub b) {v : Int} (hv : a.InRange v) : b.InRange v := by
  unfold IntTy.Sub at h; unfold IntTy.InRange at *; omega

theorem IntTy.sub_refl (a : IntTy) : a.Sub a := by unfold IntTy.Sub; omega

theorem IntTy.sub_i32 (a : IntTy) : a.Sub .i32 := by
  unfold IntTy.Sub; cases a <;> simp [IntTy.min, IntTy.max]

/-! ### comparison structures -/

theorem intOps_lt (a b : Int) : intOps.lt a b = true ↔ a < b := by simp [intOps]
theorem intOps_ne (a b : Int) : intOps.ne a b = true ↔ a ≠ b := by simp [intOps]

theorem intOps_ordered : Ordered intOps (fun _ => True) where
  lt_trans := by intro a b c; simp only [intOps_lt]; omega
  lt_irrefl := by intro a; simp [intOps]
  ne_iff := by intro a b _ _; simp only [intOps_lt, intOps_ne]; omega

theorem fLt_iff (a b : UInt32) :
    fLt a b = true ↔ isNaN a = false ∧ isNaN b = false ∧ fKey a < fKey b := by
  simp [fLt, and_assoc]

theorem fNe_iff (a b : UInt32) :
    fNe a b = true ↔ isNaN a = true ∨ isNaN b = true ∨ fKey a ≠ fKey b := by
  simp [fNe, or_assoc]

/-- The order the float clauses assume, for the bit-pattern model: `<` is transitive and
    irreflexive on all patterns, and on non-NaN patterns `!=` is "smaller or greater". -/
theorem fltOps_ordered : Ordered fltOps (fun b => isNaN b = false) where
  lt_trans := by
    intro a b c h1 h2
    simp only [fltOps, fLt_iff] at *
    exact ⟨h1.1, h2.2.1, by omega⟩
  lt_irrefl := by
    intro a
    cases h : fltOps.lt a a
    · rfl
    · simp only [fltOps, fLt_iff] at h; omega
  ne_iff := by
    intro a b ha hb
    simp only [fltOps, fLt_iff, fNe_iff, ha, hb]
    simp only [Bool.false_eq_true, false_or, true_and]
    omega

/-! ### rLIMIT -/

theorem limit_clamps_aux {α : Type} (N : NumOps α) {D : α → Prop} (ho : Ordered N D)
    (lo hi : Option α) (v : α)
    (hord : ∀ l h, lo = some l → hi = some h → N.lt h l = false) :
    Clamped N lo hi v (limit N lo hi v) := by
  constructor
  · intro l hl hlt
    subst hl
    cases hi with
    | none => simp [limit, hlt]
    | some h =>
      have := hord l h rfl rfl
      simp [limit, hlt, this]
  · intro h hh hlt
    subst hh
    cases lo with
    | none => simp [limit, hlt]
    | some l =>
      have hhl := hord l h rfl rfl
      have : N.lt v l = false := by
        cases hvl : N.lt v l
        · rfl
        · have := ho.lt_trans h v l hlt hvl
          rw [this] at hhl; cases hhl
      simp [limit, this, hlt]
  · intro hl hh
    cases lo with
    | none =>
      cases hi with
      | none => simp [limit]
      | some h => simp [limit, hh h rfl]
    | some l =>
      cases hi with
      | none => simp [limit, hl l rfl]
      | some h => simp [limit, hl l rfl, hh h rfl]

/-- what `limit` returns is the incoming value or one of the bounds -/
theorem limit_cases {α : Type} (N : NumOps α) (lo hi : Option α) (v : α) :
    limit N lo hi v = v ∨ lo = some (limit N lo hi v) ∨ hi = some (limit N lo hi v) := by
  cases lo <;> cases hi <;> simp only [limit] <;> (repeat' split) <;> simp

/-! ### bounds -/

theorem bound_ok_some {α : Type} {conv : Bytes → Option α} {pm : Meta.Ptr} {key : Bytes} {b : α}
    (h : bound conv pm key = .ok (some b)) : ∃ s, prop pm key = .ok (some s) ∧ conv s = some b := by
  unfold bound at h
  split at h
  · cases h
  · cases h
  · rename_i s hs
    split at h
    · cases h
    · rename_i v hv
      refine ⟨s, hs, ?_⟩
      simp only [Except.ok.injEq, Option.some.injEq] at h
      rw [hv, h]

theorem atoiBody_i32 {neg : Bool} {s : Bytes} {v : Int} (h : atoiBody neg s = some v) : IntTy.i32.InRange v := by
  unfold atoiBody at h
  by_cases hr : IntTy.i32.min ≤ (if neg = true then -(((takeDigits s 0).1 : Nat) : Int) else (((takeDigits s 0).1 : Nat) : Int)) ∧
      (if neg = true then -(((takeDigits s 0).1 : Nat) : Int) else (((takeDigits s 0).1 : Nat) : Int)) ≤ IntTy.i32.max
  · simp only [hr, and_self, ↓reduceIte, Option.some.injEq] at h
    rw [← h]; exact hr
  · simp only [hr, ↓reduceIte] at h; cases h

theorem atoi_i32 {s : Bytes} {v : Int} (h : atoi s = some v) : IntTy.i32.InRange v := by
  unfold atoi at h
  split at h <;> exact atoiBody_i32 h

/-! ### C strings -/

theorem cstr_append_nul (x rest : Bytes) (h : ∀ c ∈ x, c ≠ 0) : cstr (x ++ 0 :: rest) = some x := by
  induction x with
  | nil => simp [cstr]
  | cons c r ih =>
    have hc : c ≠ 0 := h c (List.mem_cons_self)
    have hr : ∀ y ∈ r, y ≠ 0 := fun y hy => h y (List.mem_cons_of_mem _ hy)
    simp [cstr, hc, ih hr]

/-! ### the set branch of the callbacks, unfolded -/

theorem limit_inRange (ty : IntTy) (lo hi : Option Int) (raw : Int) (hraw : ty.InRange raw)
    (hlo : ∀ l, lo = some l → ty.InRange l) (hhi : ∀ h, hi = some h → ty.InRange h) :
    ty.InRange (limit intOps lo hi raw) := by
  rcases limit_cases intOps lo hi raw with h | h | h
  · rw [h]; exact hraw
  · exact hlo _ h
  · exact hhi _ h

theorem undoEvents_set {α : Type} (N : NumOps α) (old new : α) (loc : Bytes) (oa na : Arg)
    (bargs : List Arg) (hloc : loc ≠ undoAddr) {P : Prop} [Decidable P]
    (h : N.ne old new = true ↔ P) :
    undoEvents (undoEvent N old new loc oa na ++ [broadcast loc bargs]) =
      if P then [reply undoAddr [.s loc, oa, na]] else [] := by
  have hb : (loc == undoAddr) = false := by simpa using hloc
  by_cases hp : P
  · have := h.mpr hp
    simp [undoEvents, undoEvent, this, hp, reply, broadcast, hb]
  · have : N.ne old new = false := by
      cases hn : N.ne old new
      · rfl
      · exact absurd (h.mp hn) hp
    simp [undoEvents, undoEvent, this, hp, broadcast, hb]

/-- what the repaired `rLIMIT` leaves in a variable of type `ty` is a value of `ty` -/
theorem limitInt_inRange (ty : IntTy) (lo hi : Option Int) (v : Int) (hv : ty.InRange v) :
    ty.InRange (limitInt ty lo hi v) := by
  have hw := IntTy.wrap_inRange ty
  cases lo <;> cases hi <;> simp only [limitInt] <;> (repeat' split) <;> first | exact hv | exact hw _

/-- When the declared range meets the variable's type (minimum not above the type's
    largest value, maximum not below its smallest, minimum ≤ maximum), the repaired
    `rLIMIT` is the mathematical clamp; no bound is narrowed. -/
theorem limitInt_eq_limit (ty : IntTy) (lo hi : Option Int) (v : Int) (hv : ty.InRange v)
    (hlo : ∀ l, lo = some l → l ≤ ty.max) (hhi : ∀ h, hi = some h → ty.min ≤ h)
    (hord : ∀ l h, lo = some l → hi = some h → l ≤ h) :
    limitInt ty lo hi v = limit intOps lo hi v := by
  unfold IntTy.InRange at hv
  cases lo with
  | none =>
    cases hi with
    | none => simp [limitInt, limit]
    | some h =>
      have h2 := hhi h rfl
      simp only [limitInt, limit, intOps, decide_eq_true_eq]
      split
      · exact IntTy.wrap_of_inRange _ _ ⟨h2, by omega⟩
      · rfl
  | some l =>
    have h1 := hlo l rfl
    cases hi with
    | none =>
      simp only [limitInt, limit, intOps, decide_eq_true_eq]
      split
      · exact IntTy.wrap_of_inRange _ _ ⟨by omega, h1⟩
      · rfl
    | some h =>
      have h2 := hhi h rfl
      have h3 := hord l h rfl rfl
      simp only [limitInt, limit, intOps, decide_eq_true_eq]
      by_cases hvl : v < l
      · have hwl : ty.wrap l = l := IntTy.wrap_of_inRange _ _ ⟨by omega, h1⟩
        simp only [hvl, ↓reduceIte, hwl]
        have : ¬ h < l := by omega
        simp [this]
      · simp only [hvl, ↓reduceIte]
        split
        · exact IntTy.wrap_of_inRange _ _ ⟨h2, by omega⟩
        · rfl

theorem intCb_set_result (varTy storeTy : IntTy) (tag : Int → Arg) (pm : Meta.Ptr) (loc : Bytes)
    (old raw new : Int) (a : Arg) (args : List Arg) (lo hi : Option Int) (ev : List Event)
    (harg : argI a = .ok raw) (hsub : varTy.Sub storeTy)
    (hmn : bound atoi pm kMin = .ok lo) (hmx : bound atoi pm kMax = .ok hi)
    (hres : intCb varTy storeTy tag pm loc old (a :: args) = .ok (new, ev)) :
    new = limitInt varTy lo hi (varTy.wrap raw) ∧
    ev = undoEvent intOps (varTy.wrap old) new loc (tag (varTy.wrap old)) (tag new)
          ++ [broadcast loc [tag new]] := by
  have hvr : varTy.InRange (limitInt varTy lo hi (varTy.wrap raw)) :=
    limitInt_inRange varTy lo hi _ (IntTy.wrap_inRange varTy raw)
  have hs := IntTy.wrap_of_inRange _ _ (hsub.inRange hvr)
  have h32 := IntTy.wrap_of_inRange _ _ ((IntTy.sub_i32 varTy).inRange hvr)
  simp only [intCb, harg, hmn, hmx, bind, Except.bind, pure, Except.pure,
    hs, h32, Except.ok.injEq, Prod.mk.injEq] at hres
  obtain ⟨h1, h2⟩ := hres
  subst h1
  exact ⟨rfl, h2.symm⟩

/-- a non-NaN float travels through the variadic call unchanged -/
theorem fArg_of_not_nan (b : UInt32) (h : isNaN b = false) : fArg b = .f b := by
  simp [fArg, viaDouble, h]

theorem fltCb_set_result (pm : Meta.Ptr) (loc : Bytes) (old raw new : UInt32) (a : Arg)
    (args : List Arg) (lo hi : Option UInt32) (ev : List Event)
    (harg : argF a = .ok raw)
    (hmn : bound atofF32 pm kMin = .ok lo) (hmx : bound atofF32 pm kMax = .ok hi)
    (hres : fltCb pm loc old (a :: args) = .ok (new, ev)) :
    new = limit fltOps lo hi raw ∧
    ev = undoEvent fltOps old new loc (fArg old) (fArg new) ++ [broadcast loc [fArg new]] := by
  simp only [fltCb, harg, hmn, hmx, bind, Except.bind, pure, Except.pure, Except.ok.injEq,
    Prod.mk.injEq] at hres
  obtain ⟨h1, h2⟩ := hres
  subst h1
  exact ⟨rfl, h2.symm⟩

theorem atoiBound_i32 {pm : Meta.Ptr} {key : Bytes} {b : Int}
    (h : bound atoi pm key = .ok (some b)) : IntTy.i32.InRange b := by
  obtain ⟨s, _, hc⟩ := bound_ok_some h
  exact atoi_i32 hc

theorem optCb_int_result (storeTy : IntTy) (pm : Meta.Ptr) (loc : Bytes)
    (old raw new : Int) (a : Arg) (rest : List Arg) (lo hi : Option Int) (ev : List Event)
    (harg : a = .i raw ∨ a = .c raw) (hraw : storeTy.InRange raw)
    (hmn : bound atoi pm kMin = .ok lo) (hmx : bound atoi pm kMax = .ok hi)
    (hlo : ∀ l, lo = some l → storeTy.InRange l) (hhi : ∀ h, hi = some h → storeTy.InRange h)
    (hres : optCb storeTy pm loc old (a :: rest) = .ok (new, ev)) :
    new = limit intOps lo hi raw ∧
    ev = undoEvent intOps (IntTy.i32.wrap old) new loc (.i (IntTy.i32.wrap old)) (.i new)
          ++ [broadcast loc [if a = .c raw then .c new else .i new]] := by
  have hvr : storeTy.InRange (limit intOps lo hi raw) := limit_inRange storeTy lo hi raw hraw hlo hhi
  have hs := IntTy.wrap_of_inRange _ _ hvr
  have h32 := IntTy.wrap_of_inRange _ _ ((IntTy.sub_i32 storeTy).inRange hvr)
  rcases harg with rfl | rfl <;>
  · simp only [optCb, argI, hmn, hmx, bind, Except.bind, pure, Except.pure, optApply, hs, h32,
      Except.ok.injEq, Prod.mk.injEq] at hres
    obtain ⟨h1, h2⟩ := hres
    subst h1
    refine ⟨rfl, ?_⟩
    rw [← h2]; simp

/-! ### rStringCb -/

theorem rStringCb_set (len : Nat) (loc old x : Bytes) (a : Arg) (args : List Arg)
    (harg : argS a = .ok x) (hx : ∀ c ∈ x, c ≠ 0) (hold : old.length = len) (hlen : 0 < len) :
    ∃ buf, rStringCb len loc old (a :: args) = .ok (buf, [broadcast loc [.s (x.take (len - 1))]]) ∧
      buf.length = len ∧ cstr buf = some (x.take (len - 1)) := by
  have hk : (x.take (len - 1)).length ≤ len - 1 := by simp [List.length_take]; omega
  -- the last byte of the old buffer
  obtain ⟨d, hd⟩ : ∃ d, old.drop (len - 1) = [d] := by
    have hl : (old.drop (len - 1)).length = 1 := by simp [List.length_drop]; omega
    match h : old.drop (len - 1), hl with
    | [d], _ => exact ⟨d, rfl⟩
  have hb1 : strncpy old x (len - 1) =
      (x.take (len - 1) ++ List.replicate (len - 1 - (x.take (len - 1)).length) 0) ++ [d] := by
    simp [strncpy, hd]
  have hl1 : (x.take (len - 1) ++ List.replicate (len - 1 - (x.take (len - 1)).length) 0).length = len - 1 := by
    simp only [List.length_append, List.length_replicate]; omega
  have hb2 : (strncpy old x (len - 1)).set (len - 1) 0 =
      x.take (len - 1) ++ 0 :: (List.replicate (len - 1 - (x.take (len - 1)).length) 0) := by
    rw [hb1, List.set_append_right _ _ (by omega), hl1]
    simp only [Nat.sub_self, List.set_cons_zero]
    have : ∀ n : Nat, List.replicate n (0 : UInt8) ++ [0] = 0 :: List.replicate n 0 := by
      intro n; induction n with
      | zero => rfl
      | succ n ih => simp [List.replicate_succ, ih]
    rw [List.append_assoc, this]
  have htk : ∀ c ∈ x.take (len - 1), c ≠ 0 := fun c hc => hx c (List.mem_of_mem_take hc)
  have hc := cstr_append_nul (x.take (len - 1)) (List.replicate (len - 1 - (x.take (len - 1)).length) 0) htk
  refine ⟨x.take (len - 1) ++ 0 :: (List.replicate (len - 1 - (x.take (len - 1)).length) 0), ?_, ?_, hc⟩
  · have hne : ¬ (len = 0 ∨ old.length < len) := by omega
    simp only [rStringCb, harg, bind, Except.bind, hne, ↓reduceIte, hb2, hc]
  · simp only [List.length_append, List.length_cons, List.length_replicate]; omega

/-! ### digits and the array index -/

theorem takeDigits_all (ds : Bytes) (acc : Nat) (h : AllDigits ds) :
    takeDigits ds acc = (ds.foldl (fun a c => a * 10 + (c.toNat - 48)) acc, []) := by
  induction ds generalizing acc with
  | nil => rfl
  | cons c r ih =>
    have hc : isDigit c = true := h c (List.mem_cons_self)
    have hr : AllDigits r := fun x hx => h x (List.mem_cons_of_mem _ hx)
    simp only [takeDigits, hc, ↓reduceIte, List.foldl_cons]
    exact ih _ hr

theorem isDigit_not_space {c : UInt8} (h : isDigit c = true) : isSpace c = false := by
  simp only [isDigit, Bool.and_eq_true, decide_eq_true_eq] at h
  simp only [isSpace, Bool.or_eq_false_iff, Bool.and_eq_false_iff, beq_eq_false_iff_ne, ne_eq,
    decide_eq_false_iff_not]
  obtain ⟨h1, h2⟩ := h
  have h1' : (48 : UInt8).toNat ≤ c.toNat := UInt8.le_iff_toNat_le.mp h1
  have h2' : c.toNat ≤ (57 : UInt8).toNat := UInt8.le_iff_toNat_le.mp h2
  constructor
  · intro hc; subst hc; simp at h1'
  · right
    intro hc
    have := UInt8.le_iff_toNat_le.mp hc
    simp at h1' this; omega

theorem atoi_digits (ds : Bytes) (h : AllDigits ds) (hv : digitsVal ds ≤ 2147483647) :
    atoi ds = some (digitsVal ds : Int) := by
  have hbody : atoiBody false ds = some (digitsVal ds : Int) := by
    unfold atoiBody
    simp only [takeDigits_all ds 0 h, Bool.false_eq_true, ↓reduceIte]
    have : (List.foldl (fun a c => a * 10 + (c.toNat - 48)) 0 ds : Nat) = digitsVal ds := rfl
    rw [this]
    have h1 : IntTy.i32.min ≤ (digitsVal ds : Int) := by simp only [IntTy.min]; omega
    have h2 : (digitsVal ds : Int) ≤ IntTy.i32.max := by simp only [IntTy.max]; omega
    simp [h1, h2]
  cases ds with
  | nil => simpa [atoi, skipSpaces] using hbody
  | cons c r =>
    have hc : isDigit c = true := h c (List.mem_cons_self)
    have hs := isDigit_not_space hc
    have hne1 : c ≠ 45 := by
      intro hc'; subst hc'; simp [isDigit] at hc
    have hne2 : c ≠ 43 := by
      intro hc'; subst hc'; simp [isDigit] at hc
    unfold atoi
    simp only [skipSpaces, hs, Bool.false_eq_true, ↓reduceIte]
    split
    · rename_i heq; simp only [List.cons.injEq] at heq; exact absurd heq.1 hne1
    · rename_i heq; simp only [List.cons.injEq] at heq; exact absurd heq.1 hne2
    · exact hbody

theorem walkPrefix_name (name rest ds : Bytes) (hn : ∀ c ∈ name, c ≠ 35) :
    walkPrefix (name ++ 35 :: rest) (name ++ ds) = (35 :: rest, ds) := by
  induction name with
  | nil =>
    cases ds with
    | nil => simp [walkPrefix]
    | cons d r => simp [walkPrefix]
  | cons c r ih =>
    have hc : c ≠ 35 := hn c (List.mem_cons_self)
    have hr : ∀ x ∈ r, x ≠ 35 := fun x hx => hn x (List.mem_cons_of_mem _ hx)
    simp only [List.cons_append, walkPrefix, ne_eq, hc, not_false_eq_true, and_self, ↓reduceIte]
    exact ih hr

/-! ### atoi of a decimal literal (finding C14-K1) -/

theorem takeDigits_stop (ds tail : Bytes) (acc : Nat) (h : AllDigits ds)
    (ht : tail = [] ∨ ∃ c r, tail = c :: r ∧ isDigit c = false) :
    takeDigits (ds ++ tail) acc = (ds.foldl (fun a c => a * 10 + (c.toNat - 48)) acc, tail) := by
  induction ds generalizing acc with
  | nil =>
    rcases ht with rfl | ⟨c, r, rfl, hc⟩
    · rfl
    · simp [takeDigits, hc]
  | cons c r ih =>
    have hc : isDigit c = true := h c (List.mem_cons_self)
    have hr : AllDigits r := fun x hx => h x (List.mem_cons_of_mem _ hx)
    simp only [List.cons_append, takeDigits, hc, ↓reduceIte, List.foldl_cons]
    exact ih _ hr

theorem atoiBody_stop (neg : Bool) (ds tail : Bytes) (h : AllDigits ds)
    (ht : tail = [] ∨ ∃ c r, tail = c :: r ∧ isDigit c = false) (hv : digitsVal ds ≤ 2147483647) :
    atoiBody neg (ds ++ tail) = some (if neg then -(digitsVal ds : Int) else (digitsVal ds : Int)) := by
  unfold atoiBody
  simp only [takeDigits_stop ds tail 0 h ht]
  have : (List.foldl (fun a c => a * 10 + (c.toNat - 48)) 0 ds : Nat) = digitsVal ds := rfl
  rw [this]
  cases neg
  · have h1 : IntTy.i32.min ≤ (digitsVal ds : Int) := by simp only [IntTy.min]; omega
    have h2 : (digitsVal ds : Int) ≤ IntTy.i32.max := by simp only [IntTy.max]; omega
    simp [h1, h2]
  · have h1 : IntTy.i32.min ≤ -(digitsVal ds : Int) := by simp only [IntTy.min]; omega
    have h2 : -(digitsVal ds : Int) ≤ IntTy.i32.max := by simp only [IntTy.max]; omega
    simp [h1, h2]

theorem atoi_decLit (l : DecLit) (hwf : l.WF) :
    atoi l.bytes = some (if l.neg then -(digitsVal l.ip : Int) else (digitsVal l.ip : Int)) := by
  have ht : (if l.fp.isEmpty then ([] : Bytes) else 46 :: l.fp) = [] ∨
      ∃ c r, (if l.fp.isEmpty then ([] : Bytes) else 46 :: l.fp) = c :: r ∧ isDigit c = false := by
    cases hfp : l.fp.isEmpty
    · right; exact ⟨46, l.fp, by simp, by decide⟩
    · left; simp
  obtain ⟨c, r, hip⟩ : ∃ c r, l.ip = c :: r := by
    cases h : l.ip with
    | nil => exact absurd h hwf.ip_ne
    | cons c r => exact ⟨c, r, rfl⟩
  have hc : isDigit c = true := hwf.ip_digits c (by rw [hip]; exact List.mem_cons_self)
  cases hn : l.neg
  · -- no sign: the text starts with the first digit
    have hs := isDigit_not_space hc
    have hne1 : c ≠ 45 := by intro hc'; subst hc'; simp [isDigit] at hc
    have hne2 : c ≠ 43 := by intro hc'; subst hc'; simp [isDigit] at hc
    have hb := atoiBody_stop false l.ip _ hwf.ip_digits ht hwf.fits
    simp only [DecLit.bytes, hn, Bool.false_eq_true, ↓reduceIte, List.nil_append]
    unfold atoi
    rw [hip] at hb ⊢
    simp only [List.cons_append, skipSpaces, hs, Bool.false_eq_true, ↓reduceIte]
    split
    · rename_i heq; simp only [List.cons.injEq] at heq; exact absurd heq.1 hne1
    · rename_i heq; simp only [List.cons.injEq] at heq; exact absurd heq.1 hne2
    · simpa using hb
  · have hb := atoiBody_stop true l.ip _ hwf.ip_digits ht hwf.fits
    simp only [DecLit.bytes, hn, ↓reduceIte, List.cons_append, List.nil_append]
    unfold atoi
    have : isSpace 45 = false := by decide
    simp only [skipSpaces, this, Bool.false_eq_true, ↓reduceIte]
    simpa using hb

/-! ### enum_key -/

theorem hasMap_mapPrefix (num : Bytes) : hasMap (mapPrefix ++ num) = true := by
  simp [mapPrefix, hasMap]

theorem enumKeyLoop_pre (pre : List Meta.Pair) (num post sym) (k : Int) (hnum : atoi num = some k)
    (hpre : ∀ p ∈ pre, hasMap p.1 = true → ∃ v, p.2 = some v ∧ v ≠ sym) :
    enumKeyLoop sym (pre ++ (mapPrefix ++ num, some sym) :: post) = .ok k := by
  induction pre with
  | nil =>
    simp only [List.nil_append, enumKeyLoop, hasMap_mapPrefix, ↓reduceIte]
    have : (mapPrefix ++ num).drop 4 = num := by simp [mapPrefix]
    simp [this, hnum]
  | cons p r ih =>
    obtain ⟨t, v⟩ := p
    have hr : ∀ q ∈ r, hasMap q.1 = true → ∃ w, q.2 = some w ∧ w ≠ sym :=
      fun q hq => hpre q (List.mem_cons_of_mem _ hq)
    have hp := hpre (t, v) (List.mem_cons_self)
    simp only [List.cons_append, enumKeyLoop]
    cases hm : hasMap t with
    | false => simp only [Bool.false_eq_true, ↓reduceIte]; exact ih hr
    | true =>
      obtain ⟨w, hw, hne⟩ := hp hm
      simp only at hw
      subst hw
      simp only [↓reduceIte, hne]
      exact ih hr

theorem enumKeyLoop_declares (ps : List Meta.Pair) (sym : Bytes) (k : Int) (h : Declares ps sym k) :
    enumKeyLoop sym ps = .ok k := by
  obtain ⟨pre, num, post, hps, hnum, hpre⟩ := h.split
  subst hps
  exact enumKeyLoop_pre pre num post sym k hnum hpre

end Rtosc.Param
