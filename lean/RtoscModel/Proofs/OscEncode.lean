/-
  C01 helper lemmas about the constructors: tag classification, lengths, the size
  pre-computation and the writer.  Property theorems are in Props/C01.lean.
-/
import RtoscModel.Proofs.OscBits
namespace Rtosc.Osc
open Rtosc

/-! ### finite facts about type tags, by evaluation over all 256 bytes -/

theorem forall_uint8 {P : UInt8 → Prop} (h : ∀ n, n < 256 → P (UInt8.ofNat n)) : ∀ t, P t := by
  intro t
  have := h t.toNat t.toNat_lt
  simpa using this

theorem hasReserved_eq : ∀ t : UInt8, hasReserved t = (kind t).isSome :=
  forall_uint8 (by decide +kernel)

theorem kind_w32 : ∀ t : UInt8, kind t = some .w32 →
    hasReserved t = true ∧ (t = 105 ∨ t = 102 ∨ t = 99 ∨ t = 114) :=
  forall_uint8 (by decide +kernel)
theorem kind_w64 : ∀ t : UInt8, kind t = some .w64 →
    hasReserved t = true ∧ (t = 104 ∨ t = 116 ∨ t = 100) :=
  forall_uint8 (by decide +kernel)
theorem kind_midi : ∀ t : UInt8, kind t = some .midi → hasReserved t = true ∧ t = 109 :=
  forall_uint8 (by decide +kernel)
theorem kind_str : ∀ t : UInt8, kind t = some .str → hasReserved t = true ∧ (t = 115 ∨ t = 83) :=
  forall_uint8 (by decide +kernel)
theorem kind_blob : ∀ t : UInt8, kind t = some .blob → hasReserved t = true ∧ t = 98 :=
  forall_uint8 (by decide +kernel)
theorem kind_none1 : ∀ t : UInt8, kind t = none →
    hasReserved t = false ∧ t ≠ 105 ∧ t ≠ 102 ∧ t ≠ 99 ∧ t ≠ 114 ∧ t ≠ 104 :=
  forall_uint8 (by decide +kernel)
theorem kind_none2 : ∀ t : UInt8, kind t = none →
    t ≠ 116 ∧ t ≠ 100 ∧ t ≠ 109 ∧ t ≠ 115 ∧ t ≠ 83 ∧ t ≠ 98 :=
  forall_uint8 (by decide +kernel)

/-- the five payload kinds with their tags, or no payload -/
theorem kind_cases (t : UInt8) :
    (kind t = some .w32 ∧ hasReserved t = true ∧ (t = 105 ∨ t = 102 ∨ t = 99 ∨ t = 114)) ∨
    (kind t = some .w64 ∧ hasReserved t = true ∧ (t = 104 ∨ t = 116 ∨ t = 100)) ∨
    (kind t = some .midi ∧ hasReserved t = true ∧ t = 109) ∨
    (kind t = some .str ∧ hasReserved t = true ∧ (t = 115 ∨ t = 83)) ∨
    (kind t = some .blob ∧ hasReserved t = true ∧ t = 98) ∨
    (kind t = none ∧ hasReserved t = false ∧ t ≠ 105 ∧ t ≠ 102 ∧ t ≠ 99 ∧ t ≠ 114 ∧ t ≠ 104 ∧
      t ≠ 116 ∧ t ≠ 100 ∧ t ≠ 109 ∧ t ≠ 115 ∧ t ≠ 83 ∧ t ≠ 98) := by
  cases hk : kind t with
  | none =>
    have a := kind_none1 t hk; have b := kind_none2 t hk
    exact Or.inr (Or.inr (Or.inr (Or.inr (Or.inr ⟨rfl, a.1, a.2.1, a.2.2.1, a.2.2.2.1, a.2.2.2.2.1,
      a.2.2.2.2.2, b⟩))))
  | some k =>
    cases k with
    | w32 => exact Or.inl ⟨rfl, kind_w32 t hk⟩
    | w64 => exact Or.inr (Or.inl ⟨rfl, kind_w64 t hk⟩)
    | midi => exact Or.inr (Or.inr (Or.inl ⟨rfl, kind_midi t hk⟩))
    | str => exact Or.inr (Or.inr (Or.inr (Or.inl ⟨rfl, kind_str t hk⟩)))
    | blob => exact Or.inr (Or.inr (Or.inr (Or.inr (Or.inl ⟨rfl, kind_blob t hk⟩))))

theorem isTag_ne_zero : ∀ t : UInt8, isTag t = true → t ≠ 0 ∧ t ≠ 45 ∧ t ≠ 97 :=
  forall_uint8 (by decide +kernel)

/-! ### lengths -/

@[simp] theorem zeros_length (n : Nat) : (zeros n).length = n := by simp [zeros]

theorem zeros_succ (n : Nat) : zeros (n + 1) = 0 :: zeros n := by simp [zeros, List.replicate_succ]

theorem zeros_add (a b : Nat) : zeros (a + b) = zeros a ++ zeros b := by
  simp [zeros, List.replicate_append_replicate]

theorem padStr_length (s : Bytes) : (padStr s).length = s.length + (4 - s.length % 4) := by
  simp [padStr]

theorem padStr_length_mod (s : Bytes) : (padStr s).length % 4 = 0 := by
  rw [padStr_length]; omega

theorem encArg_length (a : Arg) : (encArg a).length =
    match a with
    | .w32 _ => 4 | .w64 _ => 8 | .midi .. => 4
    | .str s => s.length + (4 - s.length % 4)
    | .blob d => 4 + d.length + pad4 d.length := by
  cases a <;> simp [encArg, be32_length, be64_length, padStr_length] <;> omega

theorem encArg_length_mod (a : Arg) : (encArg a).length % 4 = 0 := by
  rw [encArg_length]; cases a <;> simp only [pad4] <;> omega

theorem flat_length_mod (as : List Arg) : (as.flatMap encArg).length % 4 = 0 := by
  induction as with
  | nil => simp
  | cons a as ih =>
    have := encArg_length_mod a
    simp only [List.flatMap_cons, List.length_append]; omega

theorem encode_length (m : Msg) : (Spec.encode m).length =
    (m.addr.length + (4 - m.addr.length % 4)) + ((m.tags.length + 1) + (4 - (m.tags.length + 1) % 4)) +
      (m.args.flatMap encArg).length := by
  simp [Spec.encode, padStr_length]; omega

theorem encode_length_mod (m : Msg) : (Spec.encode m).length % 4 = 0 := by
  have := flat_length_mod m.args
  rw [encode_length]; omega

/-! ### inverting the denotation -/

theorem abs_w32 {c : CArg} {v} (h : c.abs = some (.w32 v)) : c = .w32 v := by
  cases c with
  | blob len data => cases data <;> simp [CArg.abs] at h
  | _ => simp_all [CArg.abs]

theorem abs_w64 {c : CArg} {v} (h : c.abs = some (.w64 v)) : c = .w64 v := by
  cases c with
  | blob len data => cases data <;> simp [CArg.abs] at h
  | _ => simp_all [CArg.abs]

theorem abs_midi {c : CArg} {a b c' d} (h : c.abs = some (.midi a b c' d)) : c = .midi a b c' d := by
  cases c with
  | blob len data => cases data <;> simp [CArg.abs] at h
  | _ => simp_all [CArg.abs]

theorem abs_str {c : CArg} {s} (h : c.abs = some (.str s)) : c = .str s := by
  cases c with
  | blob len data => cases data <;> simp [CArg.abs] at h
  | _ => simp_all [CArg.abs]

theorem abs_blob {c : CArg} {d} (h : c.abs = some (.blob d)) :
    ∃ len data, c = .blob len data ∧ d.length = len.toNat ∧
      ((data = none ∧ d = zeros len.toNat) ∨
       (∃ blk, data = some blk ∧ len.toNat ≤ blk.length ∧ d = blk.take len.toNat)) := by
  cases c with
  | blob len data =>
    cases data with
    | none =>
      simp only [CArg.abs, Option.some.injEq, Arg.blob.injEq] at h
      exact ⟨len, none, rfl, by simp [← h], Or.inl ⟨rfl, h.symm⟩⟩
    | some blk =>
      simp only [CArg.abs] at h
      split at h
      · simp only [Option.some.injEq, Arg.blob.injEq] at h
        exact ⟨len, some blk, rfl, by simp [← h]; omega, Or.inr ⟨blk, rfl, by assumption, h.symm⟩⟩
      · simp at h
  | _ => simp_all [CArg.abs]

theorem kind_w32_inv {a : Arg} (h : a.kind = .w32) : ∃ v, a = .w32 v := by
  cases a <;> simp_all [Arg.kind]
theorem kind_w64_inv {a : Arg} (h : a.kind = .w64) : ∃ v, a = .w64 v := by
  cases a <;> simp_all [Arg.kind]
theorem kind_midi_inv {a : Arg} (h : a.kind = .midi) : ∃ x y z w, a = .midi x y z w := by
  cases a <;> simp_all [Arg.kind]
theorem kind_str_inv {a : Arg} (h : a.kind = .str) : ∃ s, a = .str s := by
  cases a <;> simp_all [Arg.kind]
theorem kind_blob_inv {a : Arg} (h : a.kind = .blob) : ∃ d, a = .blob d := by
  cases a <;> simp_all [Arg.kind]

/-- `Matches` one step, payload-free tag -/
theorem matches_skip {t : UInt8} {ts : Bytes} {as : List Arg} (hk : kind t = none) :
    Matches (t :: ts) as ↔ Matches ts as := by
  simp [Matches, matchesB, hk]

/-- `Matches` one step, payload tag -/
theorem matches_take {t : UInt8} {ts : Bytes} {as : List Arg} {k : Kind} (hk : kind t = some k)
    (h : Matches (t :: ts) as) : ∃ a as', as = a :: as' ∧ a.kind = k ∧ Matches ts as' := by
  cases as with
  | nil => simp [Matches, matchesB, hk] at h
  | cons a as' =>
    simp only [Matches, matchesB, hk, Bool.and_eq_true, decide_eq_true_eq] at h
    exact ⟨a, as', rfl, h.1, h.2⟩

theorem matches_nil {as : List Arg} (h : Matches [] as) : as = [] := by
  cases as <;> simp_all [Matches, matchesB]

theorem denote_cons {cargs : List CArg} {a : Arg} {as : List Arg} (h : Denote cargs (a :: as)) :
    ∃ c cs, cargs = c :: cs ∧ c.abs = some a ∧ Denote cs as := by
  cases cargs with
  | nil => simp [Denote] at h
  | cons c cs => exact ⟨c, cs, rfl, h.1, h.2⟩

theorem denote_nil {cargs : List CArg} (h : Denote cargs []) : cargs = [] := by
  cases cargs <;> simp_all [Denote]

theorem nreserved_cons_false {t : UInt8} {ts : Bytes} (h : hasReserved t = false) :
    nreserved (t :: ts) = nreserved ts := by simp [nreserved, h]

theorem nreserved_cons_true {t : UInt8} {ts : Bytes} (h : hasReserved t = true) :
    nreserved (t :: ts) = nreserved ts + 1 := by simp [nreserved, h]; omega

/-! ### the size pre-computation and the writer -/

theorem u32_id {n : Nat} (h : n < 4294967296) : u32 n = n := by simp [u32]; omega

theorem alignUp_eq {n : Nat} (h : n + 4 < 4294967296 + n % 4) : alignUp n = n + (4 - n % 4) := by
  unfold alignUp; rw [u32_id]; omega

theorem sizeLoop_zero (ts : Bytes) (cs : List CArg) (pos : Nat) : sizeLoop 0 ts cs pos = some pos := by
  simp [sizeLoop]

theorem sizeLoop_spec (tags : Bytes) : ∀ (cargs : List CArg) (args : List Arg) (pos : Nat),
    Matches tags args → Denote cargs args → (∀ a ∈ args, a.WF) → pos % 4 = 0 →
    pos + (args.flatMap encArg).length < 4294967296 →
    sizeLoop (nreserved tags) tags cargs pos = some (pos + (args.flatMap encArg).length) := by
  induction tags with
  | nil =>
    intro cargs args pos hm _ _ _ _
    rw [matches_nil hm]; simp [nreserved, sizeLoop]
  | cons t ts ih =>
    intro cargs args pos hm hd hwf hp hlt
    rcases kind_cases t with ⟨hk, hr, ht⟩ | ⟨hk, hr, ht⟩ | ⟨hk, hr, ht⟩ | ⟨hk, hr, ht⟩ | ⟨hk, hr, ht⟩ |
      ⟨hk, hr, h1, h2, h3, h4, h5, h6, h7, h8, h9, h10, h11⟩
    · -- w32
      obtain ⟨a, as, rfl, hak, hm'⟩ := matches_take hk hm
      obtain ⟨v, rfl⟩ := kind_w32_inv hak
      obtain ⟨c, cs, rfl, hc, hd'⟩ := denote_cons hd
      have hwf' : ∀ a ∈ as, a.WF := fun a ha => hwf a (List.mem_cons_of_mem _ ha)
      simp only [List.flatMap_cons, List.length_append, encArg, be32_length] at hlt ⊢
      rw [nreserved_cons_true hr]
      have step : sizeLoop (nreserved ts + 1) (t :: ts) (c :: cs) pos =
          sizeLoop (nreserved ts) ts cs (u32 (pos + 4)) := by
        rcases ht with rfl | rfl | rfl | rfl <;> simp [sizeLoop]
      rw [step, u32_id (by omega), ih cs as (pos + 4) hm' hd' hwf' (by omega) (by omega)]
      congr 1; omega
    · -- w64
      obtain ⟨a, as, rfl, hak, hm'⟩ := matches_take hk hm
      obtain ⟨v, rfl⟩ := kind_w64_inv hak
      obtain ⟨c, cs, rfl, hc, hd'⟩ := denote_cons hd
      have hwf' : ∀ a ∈ as, a.WF := fun a ha => hwf a (List.mem_cons_of_mem _ ha)
      simp only [List.flatMap_cons, List.length_append, encArg, be64_length] at hlt ⊢
      rw [nreserved_cons_true hr]
      have step : sizeLoop (nreserved ts + 1) (t :: ts) (c :: cs) pos =
          sizeLoop (nreserved ts) ts cs (u32 (pos + 8)) := by
        rcases ht with rfl | rfl | rfl <;> simp [sizeLoop]
      rw [step, u32_id (by omega), ih cs as (pos + 8) hm' hd' hwf' (by omega) (by omega)]
      congr 1; omega
    · -- midi
      obtain ⟨a, as, rfl, hak, hm'⟩ := matches_take hk hm
      obtain ⟨x, y, z, w, rfl⟩ := kind_midi_inv hak
      obtain ⟨c, cs, rfl, hc, hd'⟩ := denote_cons hd
      have hwf' : ∀ a ∈ as, a.WF := fun a ha => hwf a (List.mem_cons_of_mem _ ha)
      simp only [List.flatMap_cons, List.length_append, encArg, List.length_cons, List.length_nil] at hlt ⊢
      rw [nreserved_cons_true hr]
      have step : sizeLoop (nreserved ts + 1) (t :: ts) (c :: cs) pos =
          sizeLoop (nreserved ts) ts cs (u32 (pos + 4)) := by
        subst ht; simp [sizeLoop]
      rw [step, u32_id (by omega), ih cs as (pos + 4) hm' hd' hwf' (by omega) (by omega)]
      congr 1; omega
    · -- str
      obtain ⟨a, as, rfl, hak, hm'⟩ := matches_take hk hm
      obtain ⟨s, rfl⟩ := kind_str_inv hak
      obtain ⟨c, cs, rfl, hc, hd'⟩ := denote_cons hd
      have hwf' : ∀ a ∈ as, a.WF := fun a ha => hwf a (List.mem_cons_of_mem _ ha)
      simp only [List.flatMap_cons, List.length_append, encArg, padStr_length] at hlt ⊢
      rw [nreserved_cons_true hr, abs_str hc]
      have step : sizeLoop (nreserved ts + 1) (t :: ts) (CArg.str s :: cs) pos =
          sizeLoop (nreserved ts) ts cs (alignUp (u32 (pos + s.length))) := by
        rcases ht with rfl | rfl <;> simp [sizeLoop]
      rw [step, u32_id (by omega), alignUp_eq (by omega),
        ih cs as _ hm' hd' hwf' (by omega) (by omega)]
      congr 1; omega
    · -- blob
      obtain ⟨a, as, rfl, hak, hm'⟩ := matches_take hk hm
      obtain ⟨d, rfl⟩ := kind_blob_inv hak
      obtain ⟨c, cs, rfl, hc, hd'⟩ := denote_cons hd
      obtain ⟨len, data, rfl, hlen, _⟩ := abs_blob hc
      have hwf' : ∀ a ∈ as, a.WF := fun a ha => hwf a (List.mem_cons_of_mem _ ha)
      simp only [List.flatMap_cons, List.length_append, encArg, be32_length, zeros_length, pad4] at hlt ⊢
      rw [nreserved_cons_true hr]; subst ht
      simp only [sizeLoop, show ¬ ((98 : UInt8) = 104 ∨ (98 : UInt8) = 116 ∨ (98 : UInt8) = 100) by decide,
        show ¬ ((98 : UInt8) = 109 ∨ (98 : UInt8) = 114 ∨ (98 : UInt8) = 99 ∨ (98 : UInt8) = 102 ∨ (98 : UInt8) = 105) by decide,
        show ¬ ((98 : UInt8) = 115 ∨ (98 : UInt8) = 83) by decide, if_false, if_true]
      rw [← hlen, u32_id (n := 4 + d.length) (by omega), u32_id (by omega)]
      have hsplit : (if (pos + (4 + d.length)) % 4 ≠ 0 then alignUp (pos + (4 + d.length)) else pos + (4 + d.length))
          = pos + (4 + d.length + (4 - d.length % 4) % 4) := by
        split
        · rw [alignUp_eq (by omega)]; omega
        · omega
      rw [hsplit, ih cs as _ hm' hd' hwf' (by omega) (by omega)]
      congr 1; omega
    · -- no payload
      rw [nreserved_cons_false hr]
      have hm' := (matches_skip hk).mp hm
      have := ih cargs args pos hm' hd hwf hp hlt
      cases hn : nreserved ts with
      | zero =>
        rw [hn, sizeLoop_zero] at this
        rw [sizeLoop_zero]; exact this
      | succ n =>
        rw [hn] at this
        simp only [sizeLoop, h1, h2, h3, h4, h5, h6, h7, h8, h9, h10, h11, or_self, if_false]
        exact this

theorem sizeNull_spec (m : Msg) (cargs : List CArg) (hwf : m.WF) (hd : Denote cargs m.args) :
    sizeNull m.addr m.tags cargs = some (Spec.encode m).length := by
  have hsz := hwf.size
  rw [encode_length] at hsz ⊢
  unfold sizeNull
  simp only [Nat.zero_add]
  rw [u32_id (n := m.addr.length) (by omega), alignUp_eq (n := m.addr.length) (by omega)]
  rw [u32_id (n := m.addr.length + (4 - m.addr.length % 4) + (1 + m.tags.length)) (by omega),
    alignUp_eq (by omega)]
  rw [sizeLoop_spec m.tags cargs m.args _ hwf.matches_ hd hwf.args_ok (by omega) (by omega)]
  congr 1; omega

/-- writer state after `d` has been produced: `k` zeroed bytes of the message are still
    ahead, `tail` is the untouched rest of the destination. -/
def St (d : Bytes) (k : Nat) (tail : Bytes) : W := ⟨d ++ zeros k ++ tail, d.length, false⟩

theorem put_St (d : Bytes) (k : Nat) (tail : Bytes) (b : UInt8) (hk : 0 < k)
    (hlt : d.length + 1 < 4294967296) :
    (St d k tail).put b = St (d ++ [b]) (k - 1) tail := by
  obtain ⟨k', rfl⟩ : ∃ k', k = k' + 1 := ⟨k - 1, by omega⟩
  simp only [St, W.put, List.length_append, zeros_length, zeros_succ]
  rw [if_pos (by simp; omega), u32_id (by omega)]
  simp [List.set_append]

theorem puts_St (l : Bytes) : ∀ (d : Bytes) (k : Nat) (tail : Bytes), l.length ≤ k →
    d.length + l.length < 4294967296 →
    (St d k tail).puts l = St (d ++ l) (k - l.length) tail := by
  induction l with
  | nil => intro d k tail _ _; simp [W.puts]
  | cons b l ih =>
    intro d k tail hk hlt
    simp only [List.length_cons] at hk hlt
    rw [W.puts, put_St d k tail b (by omega) (by omega), ih _ _ _ (by omega) (by simp; omega)]
    simp only [List.append_assoc, List.cons_append, List.nil_append, List.length_cons]
    congr 1; omega

theorem skip_St (d : Bytes) (k n : Nat) (tail : Bytes) (hk : n ≤ k)
    (hlt : d.length + n < 4294967296) :
    (St d k tail).skip n = St (d ++ zeros n) (k - n) tail := by
  obtain ⟨j, rfl⟩ : ∃ j, k = n + j := ⟨k - n, by omega⟩
  simp only [St, W.skip, u32_id hlt, zeros_add, List.length_append, zeros_length,
    Nat.add_sub_cancel_left, List.append_assoc]

theorem align_St (d : Bytes) (k : Nat) (tail : Bytes) (hk : 4 - d.length % 4 ≤ k)
    (hlt : d.length + 4 < 4294967296) :
    (St d k tail).align = St (d ++ zeros (4 - d.length % 4)) (k - (4 - d.length % 4)) tail := by
  have := skip_St d k (4 - d.length % 4) tail hk (by omega)
  simp only [W.skip] at this
  simp only [W.align, alignUp]
  exact this

theorem writeLoop_zero (ts : Bytes) (cs : List CArg) (w : W) : writeLoop 0 ts cs w = some w := by
  simp [writeLoop]

theorem St_pos (d : Bytes) (k : Nat) (tail : Bytes) : (St d k tail).pos = d.length := rfl

theorem writeLoop_spec (tags : Bytes) : ∀ (cargs : List CArg) (args : List Arg) (d : Bytes) (k : Nat)
    (tail : Bytes),
    Matches tags args → Denote cargs args → (∀ a ∈ args, a.WF) → d.length % 4 = 0 →
    (args.flatMap encArg).length ≤ k → d.length + (args.flatMap encArg).length < 4294967296 →
    writeLoop (nreserved tags) tags cargs (St d k tail) =
      some (St (d ++ args.flatMap encArg) (k - (args.flatMap encArg).length) tail) := by
  induction tags with
  | nil =>
    intro cargs args d k tail hm _ _ _ _ _
    rw [matches_nil hm]; simp [nreserved, writeLoop]
  | cons t ts ih =>
    intro cargs args d k tail hm hd hwf hp hk hlt
    rcases kind_cases t with ⟨hk', hr, ht⟩ | ⟨hk', hr, ht⟩ | ⟨hk', hr, ht⟩ | ⟨hk', hr, ht⟩ | ⟨hk', hr, ht⟩ |
      ⟨hk', hr, h1, h2, h3, h4, h5, h6, h7, h8, h9, h10, h11⟩
    · -- w32
      obtain ⟨a, as, rfl, hak, hm'⟩ := matches_take hk' hm
      obtain ⟨v, rfl⟩ := kind_w32_inv hak
      obtain ⟨c, cs, rfl, hc, hd'⟩ := denote_cons hd
      have hwf' : ∀ a ∈ as, a.WF := fun a ha => hwf a (List.mem_cons_of_mem _ ha)
      simp only [List.flatMap_cons, List.length_append, encArg, be32_length] at hlt hk ⊢
      rw [nreserved_cons_true hr, abs_w32 hc]
      have step : writeLoop (nreserved ts + 1) (t :: ts) (CArg.w32 v :: cs) (St d k tail) =
          writeLoop (nreserved ts) ts cs ((St d k tail).puts (put32 v)) := by
        rcases ht with rfl | rfl | rfl | rfl <;> simp [writeLoop]
      rw [step, put32_eq, puts_St _ _ _ _ (by rw [be32_length]; omega) (by rw [be32_length]; omega),
        ih cs as _ _ _ hm' hd' hwf' (by simp only [List.length_append, be32_length]; omega) (by rw [be32_length]; omega)
          (by simp only [List.length_append, be32_length]; omega)]
      simp only [List.append_assoc, be32_length]
      congr 2; omega
    · -- w64
      obtain ⟨a, as, rfl, hak, hm'⟩ := matches_take hk' hm
      obtain ⟨v, rfl⟩ := kind_w64_inv hak
      obtain ⟨c, cs, rfl, hc, hd'⟩ := denote_cons hd
      have hwf' : ∀ a ∈ as, a.WF := fun a ha => hwf a (List.mem_cons_of_mem _ ha)
      simp only [List.flatMap_cons, List.length_append, encArg, be64_length] at hlt hk ⊢
      rw [nreserved_cons_true hr, abs_w64 hc]
      have step : writeLoop (nreserved ts + 1) (t :: ts) (CArg.w64 v :: cs) (St d k tail) =
          writeLoop (nreserved ts) ts cs ((St d k tail).puts (put64 v)) := by
        rcases ht with rfl | rfl | rfl <;> simp [writeLoop]
      rw [step, put64_eq, puts_St _ _ _ _ (by rw [be64_length]; omega) (by rw [be64_length]; omega),
        ih cs as _ _ _ hm' hd' hwf' (by simp only [List.length_append, be64_length]; omega)
          (by rw [be64_length]; omega) (by simp only [List.length_append, be64_length]; omega)]
      simp only [List.append_assoc, be64_length]
      congr 2; omega
    · -- midi
      obtain ⟨a, as, rfl, hak, hm'⟩ := matches_take hk' hm
      obtain ⟨x, y, z, w, rfl⟩ := kind_midi_inv hak
      obtain ⟨c, cs, rfl, hc, hd'⟩ := denote_cons hd
      have hwf' : ∀ a ∈ as, a.WF := fun a ha => hwf a (List.mem_cons_of_mem _ ha)
      simp only [List.flatMap_cons, List.length_append, encArg, List.length_cons, List.length_nil] at hlt hk ⊢
      rw [nreserved_cons_true hr, abs_midi hc]
      have step : writeLoop (nreserved ts + 1) (t :: ts) (CArg.midi x y z w :: cs) (St d k tail) =
          writeLoop (nreserved ts) ts cs ((St d k tail).puts [x, y, z, w]) := by
        subst ht; simp [writeLoop]
      rw [step, puts_St _ _ _ _ (by simp only [List.length_cons, List.length_nil]; omega)
          (by simp only [List.length_cons, List.length_nil]; omega),
        ih cs as _ _ _ hm' hd' hwf' (by simp only [List.length_append, List.length_cons, List.length_nil]; omega)
          (by simp only [List.length_cons, List.length_nil]; omega)
          (by simp only [List.length_append, List.length_cons, List.length_nil]; omega)]
      simp only [List.append_assoc, List.length_cons, List.length_nil]
      congr 2; omega
    · -- str
      obtain ⟨a, as, rfl, hak, hm'⟩ := matches_take hk' hm
      obtain ⟨s, rfl⟩ := kind_str_inv hak
      obtain ⟨c, cs, rfl, hc, hd'⟩ := denote_cons hd
      have hwf' : ∀ a ∈ as, a.WF := fun a ha => hwf a (List.mem_cons_of_mem _ ha)
      simp only [List.flatMap_cons, List.length_append, encArg, padStr_length] at hlt hk ⊢
      rw [nreserved_cons_true hr, abs_str hc]
      have step : writeLoop (nreserved ts + 1) (t :: ts) (CArg.str s :: cs) (St d k tail) =
          writeLoop (nreserved ts) ts cs ((St d k tail).puts s).align := by
        rcases ht with rfl | rfl <;> simp [writeLoop]
      have hal : 4 - (d ++ s).length % 4 = 4 - s.length % 4 := by
        simp only [List.length_append]; omega
      rw [step, puts_St _ _ _ _ (by omega) (by omega),
        align_St _ _ _ (by rw [hal]; omega) (by simp only [List.length_append]; omega), hal,
        ih cs as _ _ _ hm' hd' hwf' (by simp only [List.length_append, zeros_length]; omega)
          (by omega) (by simp only [List.length_append, zeros_length]; omega)]
      simp only [List.append_assoc, padStr]
      congr 2; omega
    · -- blob
      obtain ⟨a, as, rfl, hak, hm'⟩ := matches_take hk' hm
      obtain ⟨dd, rfl⟩ := kind_blob_inv hak
      obtain ⟨c, cs, rfl, hc, hd'⟩ := denote_cons hd
      obtain ⟨len, data, rfl, hlen, hdata⟩ := abs_blob hc
      have hwf' : ∀ a ∈ as, a.WF := fun a ha => hwf a (List.mem_cons_of_mem _ ha)
      have hb : dd.length < 2147483648 := hwf (.blob dd) (List.mem_cons_self)
      have hlen' : UInt32.ofNat dd.length = len := by rw [hlen]; simp
      simp only [List.flatMap_cons, List.length_append, encArg, be32_length, zeros_length, pad4] at hlt hk ⊢
      rw [nreserved_cons_true hr]; subst ht
      simp only [writeLoop, show ¬ ((98 : UInt8) = 104 ∨ (98 : UInt8) = 116 ∨ (98 : UInt8) = 100) by decide,
        show ¬ ((98 : UInt8) = 114 ∨ (98 : UInt8) = 102 ∨ (98 : UInt8) = 99 ∨ (98 : UInt8) = 105) by decide,
        show ¬ ((98 : UInt8) = 109) by decide,
        show ¬ ((98 : UInt8) = 83 ∨ (98 : UInt8) = 115) by decide, if_false, if_true]
      rw [put32_eq, puts_St _ _ _ _ (by rw [be32_length]; omega) (by rw [be32_length]; omega), hlen']
      have hbody : (St (d ++ be32 len) (k - (be32 len).length) tail).blobData len data =
          some (St (d ++ be32 len ++ dd) (k - 4 - dd.length) tail) := by
        rcases hdata with ⟨rfl, hz⟩ | ⟨blk, rfl, hle, htk⟩
        · simp only [W.blobData]
          rw [skip_St _ _ _ _ (by rw [be32_length]; omega)
            (by simp only [List.length_append, be32_length]; omega), ← hz, ← hlen, be32_length]
        · simp only [W.blobData]
          rw [if_pos ⟨by omega, hle⟩, ← htk,
            puts_St _ _ _ _ (by rw [be32_length]; omega)
              (by simp only [List.length_append, be32_length]; omega), be32_length]
      rw [hbody]
      simp only [St_pos, List.length_append, be32_length]
      have hfin : (if (d.length + 4 + dd.length) % 4 ≠ 0 then (St (d ++ be32 len ++ dd) (k - 4 - dd.length) tail).align
          else St (d ++ be32 len ++ dd) (k - 4 - dd.length) tail) =
          St (d ++ be32 len ++ dd ++ zeros ((4 - dd.length % 4) % 4)) (k - 4 - dd.length - (4 - dd.length % 4) % 4) tail := by
        split
        · rw [align_St _ _ _ (by simp only [List.length_append, be32_length]; omega)
            (by simp only [List.length_append, be32_length]; omega)]
          simp only [List.length_append, be32_length]
          have : 4 - (d.length + 4 + dd.length) % 4 = (4 - dd.length % 4) % 4 := by omega
          rw [this]
        · have : (4 - dd.length % 4) % 4 = 0 := by omega
          rw [this]; simp [zeros]
      rw [hfin, ih cs as _ _ _ hm' hd' hwf' (by simp only [List.length_append, be32_length, zeros_length]; omega)
          (by omega) (by simp only [List.length_append, be32_length, zeros_length]; omega)]
      simp only [List.append_assoc]
      congr 2; omega
    · -- no payload
      rw [nreserved_cons_false hr]
      have hm' := (matches_skip hk').mp hm
      have := ih cargs args d k tail hm' hd hwf hp hk hlt
      cases hn : nreserved ts with
      | zero =>
        rw [hn, writeLoop_zero] at this
        rw [writeLoop_zero]; exact this
      | succ n =>
        rw [hn] at this
        simp only [writeLoop, h1, h2, h3, h4, h5, h6, h7, h8, h9, h10, h11, or_self, if_false]
        exact this
theorem St_congr {d d' : Bytes} {k k' : Nat} (tail : Bytes) (hd : d = d') (hk : k = k') :
    St d k tail = St d' k' tail := by subst hd; subst hk; rfl

theorem amessage_spec (m : Msg) (cargs : List CArg) (buf : Bytes) (hwf : m.WF)
    (hd : Denote cargs m.args) (hcap : (Spec.encode m).length ≤ buf.length) :
    amessage (some buf) m.addr m.tags cargs =
      some ⟨some (Spec.encode m ++ buf.drop (Spec.encode m).length), (Spec.encode m).length, false⟩ := by
  have hsz : (Spec.encode m).length < 4294967296 := hwf.size
  have hlen := encode_length m
  unfold amessage
  rw [sizeNull_spec m cargs hwf hd]
  simp only [if_neg (Nat.not_lt.mpr hcap)]
  generalize hT : (Spec.encode m).length = T at *
  generalize buf.drop T = tail
  generalize hV : (m.args.flatMap encArg).length = V at *
  have hA := padStr_length m.addr
  have hB := padStr_length (44 :: m.tags)
  simp only [List.length_cons] at hB
  have s0 : (⟨zeros T ++ tail, 0, false⟩ : W) = St [] T tail := by simp [St]
  have s1 : (St [] T tail).puts m.addr = St m.addr (T - m.addr.length) tail := by
    rw [puts_St _ _ _ _ (by omega) (by simp only [List.length_nil]; omega)]; simp
  have s2 : (St m.addr (T - m.addr.length) tail).align =
      St (padStr m.addr) (T - (padStr m.addr).length) tail := by
    rw [align_St _ _ _ (by omega) (by omega)]
    exact St_congr _ rfl (by omega)
  have s3 : (St (padStr m.addr) (T - (padStr m.addr).length) tail).put 44 =
      St (padStr m.addr ++ [44]) (T - (padStr m.addr).length - 1) tail :=
    put_St _ _ _ _ (by omega) (by omega)
  have s4 : (St (padStr m.addr ++ [44]) (T - (padStr m.addr).length - 1) tail).puts m.tags =
      St (padStr m.addr ++ [44] ++ m.tags) (T - (padStr m.addr).length - 1 - m.tags.length) tail :=
    puts_St _ _ _ _ (by omega) (by simp only [List.length_append, List.length_cons, List.length_nil]; omega)
  have s5 : (St (padStr m.addr ++ [44] ++ m.tags) (T - (padStr m.addr).length - 1 - m.tags.length) tail).align =
      St (padStr m.addr ++ padStr (44 :: m.tags)) V tail := by
    rw [align_St _ _ _ (by simp only [List.length_append, List.length_cons, List.length_nil]; omega)
      (by simp only [List.length_append, List.length_cons, List.length_nil]; omega)]
    apply St_congr
    · have e1 : padStr (44 :: m.tags) = 44 :: (m.tags ++ zeros (4 - (m.tags.length + 1) % 4)) := by
        simp [padStr]
      have e2 : (padStr m.addr ++ [44] ++ m.tags).length % 4 = (m.tags.length + 1) % 4 := by
        simp only [List.length_append, List.length_cons, List.length_nil]; omega
      rw [e1, e2]; simp
    · simp only [List.length_append, List.length_cons, List.length_nil]; omega
  rw [s0, s1, s2, s3, s4, s5]
  rw [writeLoop_spec m.tags cargs m.args _ _ _ hwf.matches_ hd hwf.args_ok
    (by simp only [List.length_append, List.length_cons]; omega) (by omega)
    (by simp only [List.length_append, List.length_cons]; omega)]
  simp only [St, Spec.encode, hV, Nat.sub_self, zeros, List.replicate_zero, List.append_nil]
  rw [← hT]; simp [Spec.encode]
theorem amessage_null_spec (m : Msg) (cargs : List CArg) (hwf : m.WF) (hd : Denote cargs m.args) :
    amessage none m.addr m.tags cargs = some ⟨none, (Spec.encode m).length, false⟩ := by
  unfold amessage; rw [sizeNull_spec m cargs hwf hd]

theorem v2args_zero (narrow : UInt64 → UInt32) (ts : Bytes) (va : List VaArg) :
    v2args narrow 0 ts va = some [] := by simp [v2args]

/-- the 32-bit values that sit under an `'f'` tag: the only arguments of a call site that
    undergo the float → double promotion (an `int`/`char`/rgb value is passed as `int`) -/
def fArgs : Bytes → List CArg → List UInt32
  | [], _ => []
  | t :: ts, args =>
    if !hasReserved t then fArgs ts args
    else
      match args with
      | [] => []
      | a :: as =>
        (match a with
          | .w32 v => if t = 102 then [v] else []
          | _ => []) ++ fArgs ts as

theorem fArgs_skip {t : UInt8} (ts : Bytes) (args : List CArg) (hr : hasReserved t = false) :
    fArgs (t :: ts) args = fArgs ts args := by simp [fArgs, hr]

theorem fArgs_cons {t : UInt8} (ts : Bytes) (a : CArg) (as : List CArg) (hr : hasReserved t = true) :
    fArgs (t :: ts) (a :: as) =
      (match a with
        | .w32 v => if t = 102 then [v] else []
        | _ => []) ++ fArgs ts as := by simp [fArgs, hr]

/-- every `'f'`-tagged value is one of the 32-bit arguments -/
theorem mem_fArgs (tags : Bytes) : ∀ (cargs : List CArg) (v : UInt32), v ∈ fArgs tags cargs →
    CArg.w32 v ∈ cargs := by
  induction tags with
  | nil => intro cargs v h; simp [fArgs] at h
  | cons t ts ih =>
    intro cargs v h
    cases hr : hasReserved t with
    | false => rw [fArgs_skip ts cargs hr] at h; exact ih cargs v h
    | true =>
      cases cargs with
      | nil => simp [fArgs, hr] at h
      | cons a as =>
        rw [fArgs_cons ts a as hr, List.mem_append] at h
        rcases h with h | h
        · cases a with
          | w32 x =>
            by_cases ht : t = 102
            · simp [ht] at h; subst h; exact List.mem_cons_self
            · simp [ht] at h
          | _ => simp at h
        · exact List.mem_cons_of_mem _ (ih as v h)

/-- `rtosc_v2args` gives back the argument array of the call site; the float conversions are
    only required to round-trip on the values under an `'f'` tag. -/
theorem v2args_promote_f (narrow : UInt64 → UInt32) (widen : UInt32 → UInt64) (tags : Bytes) :
    ∀ (cargs : List CArg) (args : List Arg), Matches tags args → Denote cargs args →
      (∀ v ∈ fArgs tags cargs, narrow (widen v) = v) →
      v2args narrow (nreserved tags) tags (promote widen tags cargs) = some cargs := by
  induction tags with
  | nil =>
    intro cargs args hm hd _
    rw [matches_nil hm] at hd; rw [denote_nil hd]; simp [nreserved, v2args]
  | cons t ts ih =>
    intro cargs args hm hd hf
    rcases kind_cases t with ⟨hk, hr, ht⟩ | ⟨hk, hr, ht⟩ | ⟨hk, hr, ht⟩ | ⟨hk, hr, ht⟩ | ⟨hk, hr, ht⟩ |
      ⟨hk, hr, h1, h2, h3, h4, h5, h6, h7, h8, h9, h10, h11⟩
    · obtain ⟨a, as, rfl, hak, hm'⟩ := matches_take hk hm
      obtain ⟨v, rfl⟩ := kind_w32_inv hak
      obtain ⟨c, cs, rfl, hc, hd'⟩ := denote_cons hd
      rw [abs_w32 hc] at hf ⊢
      rw [fArgs_cons ts _ cs hr] at hf
      have hf' : ∀ v ∈ fArgs ts cs, narrow (widen v) = v :=
        fun v hv => hf v (List.mem_append_right _ hv)
      rw [nreserved_cons_true hr]
      rcases ht with rfl | rfl | rfl | rfl
      · simp [promote, hr, v2args, ih cs as hm' hd' hf']
      · have hv : narrow (widen v) = v := hf v (by simp)
        simp [promote, hr, v2args, ih cs as hm' hd' hf', hv]
      · simp [promote, hr, v2args, ih cs as hm' hd' hf']
      · simp [promote, hr, v2args, ih cs as hm' hd' hf']
    · obtain ⟨a, as, rfl, hak, hm'⟩ := matches_take hk hm
      obtain ⟨v, rfl⟩ := kind_w64_inv hak
      obtain ⟨c, cs, rfl, hc, hd'⟩ := denote_cons hd
      rw [abs_w64 hc] at hf ⊢
      rw [fArgs_cons ts _ cs hr] at hf
      have hf' : ∀ v ∈ fArgs ts cs, narrow (widen v) = v :=
        fun v hv => hf v (List.mem_append_right _ hv)
      rw [nreserved_cons_true hr]
      rcases ht with rfl | rfl | rfl <;>
        simp [promote, hr, v2args, ih cs as hm' hd' hf']
    · obtain ⟨a, as, rfl, hak, hm'⟩ := matches_take hk hm
      obtain ⟨x, y, z, w, rfl⟩ := kind_midi_inv hak
      obtain ⟨c, cs, rfl, hc, hd'⟩ := denote_cons hd
      rw [abs_midi hc] at hf ⊢
      rw [fArgs_cons ts _ cs hr] at hf
      have hf' : ∀ v ∈ fArgs ts cs, narrow (widen v) = v :=
        fun v hv => hf v (List.mem_append_right _ hv)
      rw [nreserved_cons_true hr]
      subst ht
      simp [promote, hr, v2args, ih cs as hm' hd' hf']
    · obtain ⟨a, as, rfl, hak, hm'⟩ := matches_take hk hm
      obtain ⟨s, rfl⟩ := kind_str_inv hak
      obtain ⟨c, cs, rfl, hc, hd'⟩ := denote_cons hd
      rw [abs_str hc] at hf ⊢
      rw [fArgs_cons ts _ cs hr] at hf
      have hf' : ∀ v ∈ fArgs ts cs, narrow (widen v) = v :=
        fun v hv => hf v (List.mem_append_right _ hv)
      rw [nreserved_cons_true hr]
      rcases ht with rfl | rfl <;>
        simp [promote, hr, v2args, ih cs as hm' hd' hf']
    · obtain ⟨a, as, rfl, hak, hm'⟩ := matches_take hk hm
      obtain ⟨dd, rfl⟩ := kind_blob_inv hak
      obtain ⟨c, cs, rfl, hc, hd'⟩ := denote_cons hd
      obtain ⟨len, data, rfl, _, _⟩ := abs_blob hc
      rw [fArgs_cons ts _ cs hr] at hf
      have hf' : ∀ v ∈ fArgs ts cs, narrow (widen v) = v :=
        fun v hv => hf v (List.mem_append_right _ hv)
      rw [nreserved_cons_true hr]
      subst ht
      simp [promote, hr, v2args, ih cs as hm' hd' hf']
    · rw [nreserved_cons_false hr]
      have hm' := (matches_skip hk).mp hm
      rw [fArgs_skip ts cargs hr] at hf
      have := ih cargs args hm' hd hf
      have hp : promote widen (t :: ts) cargs = promote widen ts cargs := by simp [promote, hr]
      rw [hp]
      cases hn : nreserved ts with
      | zero =>
        rw [hn, v2args_zero] at this
        rw [v2args_zero]; exact this
      | succ n =>
        rw [hn] at this
        simp only [v2args, h1, h2, h3, h4, h5, h6, h7, h8, h9, h10, h11, or_self, if_false]
        exact this

/-- the older, stronger-hypothesis form (every 32-bit argument round-trips); kept for C02 -/
theorem v2args_promote (narrow : UInt64 → UInt32) (widen : UInt32 → UInt64) (tags : Bytes)
    (cargs : List CArg) (args : List Arg) (hm : Matches tags args) (hd : Denote cargs args)
    (hf : ∀ v, CArg.w32 v ∈ cargs → narrow (widen v) = v) :
    v2args narrow (nreserved tags) tags (promote widen tags cargs) = some cargs :=
  v2args_promote_f narrow widen tags cargs args hm hd (fun v hv => hf v (mem_fArgs tags cargs v hv))

/-- no payload tag: the call site passes no argument -/
theorem cargs_nil_of_nreserved_zero (tags : Bytes) : ∀ (cargs : List CArg) (args : List Arg),
    Matches tags args → Denote cargs args → nreserved tags = 0 → cargs = [] := by
  induction tags with
  | nil => intro cargs args hm hd _; rw [matches_nil hm] at hd; exact denote_nil hd
  | cons t ts ih =>
    intro cargs args hm hd h0
    rcases kind_cases t with ⟨hk, hr, _⟩ | ⟨hk, hr, _⟩ | ⟨hk, hr, _⟩ | ⟨hk, hr, _⟩ | ⟨hk, hr, _⟩ |
      ⟨hk, hr, _⟩
    all_goals first
      | (rw [nreserved_cons_true hr] at h0; omega)
      | (rw [nreserved_cons_false hr] at h0
         exact ih cargs args ((matches_skip hk).mp hm) hd h0)

theorem vmessage_promote_f (narrow : UInt64 → UInt32) (widen : UInt32 → UInt64) (buffer : Option Bytes)
    (addr tags : Bytes) (cargs : List CArg) (args : List Arg) (hm : Matches tags args)
    (hd : Denote cargs args) (hf : ∀ v ∈ fArgs tags cargs, narrow (widen v) = v) :
    vmessage narrow buffer addr tags (promote widen tags cargs) = amessage buffer addr tags cargs := by
  simp only [vmessage]
  rw [v2args_promote_f narrow widen tags cargs args hm hd hf]
  split
  · next h0 => rw [cargs_nil_of_nreserved_zero tags cargs args hm hd h0]
  · rfl

theorem vmessage_promote (narrow : UInt64 → UInt32) (widen : UInt32 → UInt64) (buffer : Option Bytes)
    (addr tags : Bytes) (cargs : List CArg) (args : List Arg) (hm : Matches tags args)
    (hd : Denote cargs args) (hf : ∀ v, CArg.w32 v ∈ cargs → narrow (widen v) = v) :
    vmessage narrow buffer addr tags (promote widen tags cargs) = amessage buffer addr tags cargs :=
  vmessage_promote_f narrow widen buffer addr tags cargs args hm hd
    (fun v hv => hf v (mem_fArgs tags cargs v hv))

theorem avCollect_listOf (tags : Bytes) : ∀ (cargs : List CArg) (args : List Arg),
    Matches tags args → Denote cargs args → (∀ t ∈ tags, t ≠ 45 ∧ t ≠ 97) →
    avCollect (ArgVal.listOf tags cargs) = some (tags, cargs) := by
  induction tags with
  | nil =>
    intro cargs args hm hd _
    rw [matches_nil hm] at hd; rw [denote_nil hd]; simp [ArgVal.listOf, avCollect]
  | cons t ts ih =>
    intro cargs args hm hd ht
    have ht' : ∀ t ∈ ts, t ≠ 45 ∧ t ≠ 97 := fun x hx => ht x (List.mem_cons_of_mem _ hx)
    have h45 := ht t List.mem_cons_self
    cases hr : hasReserved t with
    | true =>
      have hk : ∃ k, kind t = some k := by
        have := hasReserved_eq t; rw [hr] at this
        exact Option.isSome_iff_exists.mp this.symm
      obtain ⟨k, hk⟩ := hk
      obtain ⟨a, as, rfl, _, hm'⟩ := matches_take hk hm
      obtain ⟨c, cs, rfl, _, hd'⟩ := denote_cons hd
      simp [ArgVal.listOf, hr, avCollect, h45.1, h45.2, ih cs as hm' hd' ht']
    | false =>
      have hk : kind t = none := by
        have := hasReserved_eq t; rw [hr] at this
        cases h : kind t with
        | none => rfl
        | some k => rw [h] at this; simp at this
      simp [ArgVal.listOf, hr, avCollect, h45.1, h45.2, ih cargs args ((matches_skip hk).mp hm) hd ht']
end Rtosc.Osc
