/-
  C11 — spellings the printer never writes (so that C10 has no lemma for them):
  * the `i` suffix of a decimal 'i' integer (`123i`),
  * strings and quoted symbols concatenated from several parts with ANY white space (or none)
    between the backslash and the next opening quote.
-/
import RtoscModel.Proofs.ScanTokens
namespace Rtosc.Pretty.C11
open Rtosc Rtosc.Libc Rtosc.Pretty
open Rtosc.ArgVal (Cell)

/-! ### `123i` -/

theorem numEnd_i (r : Bytes) : NumEnd (105 :: r) := by
  unfold NumEnd
  simp only [hd_cons]
  decide

theorem sscanf_ii_try (t r : Bytes) (v : Int) (h : scanInt .i none (t ++ 105 :: r) = some (v, 105 :: r)) :
    sscanf (NumFmt.ii.tryDirs) (t ++ 105 :: r) = [.pos (t.length + 1)] := by
  unfold sscanf NumFmt.tryDirs
  rw [sscanfGo_int_some _ _ _ _ _ _ _ _ _ h]
  simp [sscanfGo]

theorem sscanf_ii_scan (sup : Bool) (t r : Bytes) (v : Int) (h : scanInt .i none (t ++ 105 :: r) = some (v, 105 :: r)) :
    sscanf (NumFmt.ii.dirs sup) (t ++ 105 :: r) = (if sup then [] else [.int v]) ++ [.pos (t.length + 1)] := by
  unfold sscanf NumFmt.dirs
  rw [sscanfGo_int_some _ _ _ _ _ _ _ _ _ h]
  cases sup <;> simp [sscanfGo] <;> omega

/-- format selection for a decimal integer with the suffix `i` -/
theorem scanfFmtstr_isfx (t rest : Bytes) (v : Int) (hn : DecNum t v) (hs : Sep rest) :
    scanfFmtstr (t ++ 105 :: rest) = some .ii := by
  have hlen : numWordLen ((t ++ [105]) ++ rest) = (t ++ [105]).length :=
    numWordLen_word (t ++ [105]) rest (by
      intro c hc
      simp only [List.mem_append, List.mem_singleton] at hc
      rcases hc with hc | rfl
      · exact (numStart_facts c (hn.chars c hc)).2.2.2.2.2.2.2.2.2.2.2.1
      · decide) hs
  simp only [List.append_assoc, List.singleton_append, List.length_append, List.length_singleton] at hlen
  have hpos : 0 < t.length := List.length_pos_iff.mpr hn.ne
  unfold scanfFmtstr
  simp only [hlen, List.find?, scanRd,
    sscanf_h_try_fail t (105 :: rest) v (hn.scan_i _ (numEnd_i rest)) (by simp only [hd_cons]; decide),
    sscanf_d_try t (105 :: rest) v (hn.scan_d _ (numEnd_i rest)),
    sscanf_ii_try t rest v (hn.scan_i _ (numEnd_i rest))]
  have h1 : (0 : Nat) ≠ t.length + 1 := by omega
  have h2 : t.length ≠ t.length + 1 := by omega
  simp [h1, h2]

theorem drop_isfx (t rest : Bytes) : (t ++ 105 :: rest).drop (t.length + 1) = rest := by
  rw [show t ++ 105 :: rest = (t ++ [105]) ++ rest from by simp,
    show t.length + 1 = (t ++ [105]).length from by simp]
  exact List.drop_left

theorem scanNumeric_isfx (t rest : Bytes) (v : Int) (hn : DecNum t v) (hs : Sep rest)
    (h1 : -2147483648 ≤ v) (h2 : v ≤ 2147483647) :
    scanNumeric (t ++ 105 :: rest) = .ok ⟨rest, [Cell.int .i v], true⟩ := by
  have hfmt := scanfFmtstr_isfx t rest v hn hs
  have hsc := sscanf_ii_scan false t rest v (hn.scan_i _ (numEnd_i rest))
  have hpass : scanNumberPass (t ++ 105 :: rest) 0 none = .ok (t.length + 1, 105, (v % 4294967296).toNat) := by
    simp [scanNumberPass, hfmt, NumFmt.type, hsc, toI32_id v h1 h2, bind, Except.bind, pure, Except.pure]
  have h40 := (sep_skipSpace_facts rest hs).1
  have hcell : cellOfRaw 105 (v % 4294967296).toNat = .ok (Cell.int .i v) := by
    have hv : toI32 (((v % 4294967296).toNat : Int) % 4294967296) = v := by
      unfold toI32; omega
    unfold cellOfRaw
    simp only [show (105 : UInt8) ≠ 104 from by decide, ↓reduceIte, hv]
  simp [scanNumeric, hpass, drop_isfx, h40, hcell, bind, Except.bind, pure, Except.pure]

theorem skipNumericArg_isfx (t rest : Bytes) (v : Int) (ty : UInt8) (hn : DecNum t v) (hs : Sep rest) :
    skipNumericArg (t ++ 105 :: rest) ty = ⟨some rest, 1, 105, 0⟩ := by
  have hfmt := scanfFmtstr_isfx t rest v hn hs
  have hskip : skipFmt (NumFmt.ii.dirs true) (t ++ 105 :: rest) = t.length + 1 := by
    unfold skipFmt scanRd
    rw [sscanf_ii_scan true t rest v (hn.scan_i _ (numEnd_i rest))]
    rfl
  have h40 := (sep_skipSpace_facts rest hs).1
  simp [skipNumericArg, skipNumeric, hfmt, hskip, NumFmt.type, drop_isfx, h40]

/-- **`123i`**: a decimal integer with the suffix `i` -/
theorem valOK_int_i (v : Int) (h1 : -2147483648 ≤ v) (h2 : v ≤ 2147483647) :
    ValOK (fmtDec v ++ [105]) (Cell.int .i v) := by
  have hn := decNum_fmtDec v (by omega) (by omega)
  have hstart : hd (fmtDec v) = 45 ∨ isdigit (hd (fmtDec v)) = true := hn.chars _ (hd_mem _ hn.ne)
  have hne' : fmtDec v ++ [105] ≠ [] := by simp
  have hhd : ∀ rest : Bytes, hd ((fmtDec v ++ [105]) ++ rest) = hd (fmtDec v) := by
    intro rest; rw [List.append_assoc]; exact hd_append_of_ne_nil _ _ hn.ne
  have hhd0 : hd (fmtDec v ++ [105]) = hd (fmtDec v) := hd_append_of_ne_nil _ _ hn.ne
  obtain ⟨_, _, _, _, _, _, _, _, a91, _, _, _, b1, b2, b3, b4, b5, b6, b7⟩ := numStart_facts _ hstart
  refine ⟨?_, rfl, by rw [hhd0]; exact a91, ?_, ?_⟩
  · rw [TokStart, hhd0]; exact ⟨hne', b1, b2, b3, b4, b5, b6, b7⟩
  · intro se rest prev hs
    have e : (fmtDec v ++ [105]) ++ rest = fmtDec v ++ 105 :: rest := by simp
    rw [scanValue_num _ _ _ (by rw [hhd]; exact hstart) (by rw [e]; exact hn.nomult _ (numEnd_i rest))
      (by rw [e]; exact hn.nodate _ (numEnd_i rest)), e]
    exact scanNumeric_isfx _ rest v hn hs h1 h2
  · intro sk rest ty ib hs
    refine ⟨0, ?_⟩
    have e : (fmtDec v ++ [105]) ++ rest = fmtDec v ++ 105 :: rest := by simp
    rw [skipValue_num _ _ _ _ (by rw [hhd]; exact hstart) (by rw [e]; exact hn.nomult _ (numEnd_i rest))
      (by rw [e]; exact hn.nodate _ (numEnd_i rest)), e]
    rw [skipNumericArg_isfx _ rest v ty hn hs]
    rfl

/-! ### concatenated strings -/

/-- the text between the first opening and the last closing quote: parts joined by
    `"`, `\`, any white space, `"` -/
inductive StrBodyW : Bytes → Bytes → Prop
  | last (t k : Bytes) : Seg t k → StrBodyW t k
  | brk (t k ws t' k' : Bytes) : Seg t k → (∀ c ∈ ws, isspace c = true) → StrBodyW t' k' →
      StrBodyW (t ++ 34 :: 92 :: ws ++ 34 :: t') (k ++ k')

theorem skipSpace_ws_quote (ws x : Bytes) (h : ∀ c ∈ ws, isspace c = true) :
    skipSpace (ws ++ 34 :: x) = 34 :: x := by
  induction ws with
  | nil => simp [skipSpace, isspace]
  | cons c r ih =>
    have hc := h c (by simp)
    simp [skipSpace, hc, ih (fun y hy => h y (by simp [hy]))]

theorem skipFmt_contW (ws x : Bytes) (h : ∀ c ∈ ws, isspace c = true) :
    skipFmt fmtStrCont (34 :: 92 :: (ws ++ 34 :: x)) = ws.length + 3 := by
  simp [skipFmt, scanRd, sscanf, fmtStrCont, sscanfGo, skipSpace_ws_quote ws x h]
  omega

theorem scanStrParts_bodyW (t k : Bytes) (h : StrBodyW t k) (r : Bytes) (hr : hd r ≠ 92) :
    ∀ fuel, t.length + 1 ≤ fuel → scanStrParts fuel (t ++ 34 :: r) = .ok (k, 34 :: r) := by
  induction h with
  | last t k hs =>
    intro fuel hf
    obtain ⟨f, rfl⟩ : ∃ f, fuel = f + 1 := ⟨fuel - 1, by omega⟩
    unfold scanStrParts
    rw [scanStrPart_seg t k hs r _ (by simp)]
    simp [bind, Except.bind, at?_one, hr, pure, Except.pure]
  | brk t k ws t' k' hs hws _ ih =>
    intro fuel hf
    obtain ⟨f, rfl⟩ : ∃ f, fuel = f + 1 := ⟨fuel - 1, by omega⟩
    have e1 : t ++ 34 :: 92 :: ws ++ 34 :: t' ++ 34 :: r =
        t ++ 34 :: (92 :: (ws ++ 34 :: (t' ++ 34 :: r))) := by simp
    have := ih f (by simp at hf; omega)
    rw [e1]
    unfold scanStrParts
    rw [scanStrPart_seg t k hs _ _ (by simp)]
    have hdrop : (34 :: 92 :: (ws ++ 34 :: (t' ++ 34 :: r))).drop (ws.length + 3) = t' ++ 34 :: r := by
      simp only [List.drop_succ_cons]
      rw [show ws.length + 1 = (ws ++ [34]).length from by simp,
        show ws ++ 34 :: (t' ++ 34 :: r) = (ws ++ [34]) ++ (t' ++ 34 :: r) from by simp]
      exact List.drop_left
    simp [bind, Except.bind, at?_one, skipFmt_contW ws _ hws, hdrop, this, pure, Except.pure]

theorem eosLoop_bodyW (t k : Bytes) (h : StrBodyW t k) (r : Bytes) (hr : hd r ≠ 92) :
    ∀ fuel, t.length + 1 ≤ fuel → eosLoop fuel (t ++ 34 :: r) = .ok (some r) := by
  induction h with
  | last t k hs =>
    intro fuel hf
    obtain ⟨f, rfl⟩ : ∃ f, fuel = f + 1 := ⟨fuel - 1, by omega⟩
    unfold eosLoop
    rw [strBody_seg t k hs r]
    simp [hr]
  | brk t k ws t' k' hs hws _ ih =>
    intro fuel hf
    obtain ⟨f, rfl⟩ : ∃ f, fuel = f + 1 := ⟨fuel - 1, by omega⟩
    have e1 : t ++ 34 :: 92 :: ws ++ 34 :: t' ++ 34 :: r =
        t ++ 34 :: (92 :: (ws ++ 34 :: (t' ++ 34 :: r))) := by simp
    have := ih f (by simp at hf; omega)
    rw [e1]
    unfold eosLoop
    rw [strBody_seg t k hs _]
    have hdrop : (34 :: 92 :: (ws ++ 34 :: (t' ++ 34 :: r))).drop (ws.length + 3) = t' ++ 34 :: r := by
      simp only [List.drop_succ_cons]
      rw [show ws.length + 1 = (ws ++ [34]).length from by simp,
        show ws ++ 34 :: (t' ++ 34 :: r) = (ws ++ [34]) ++ (t' ++ 34 :: r) from by simp]
      exact List.drop_left
    simp [skipFmt_contW ws _ hws, hdrop, this]

theorem scanString_sW (t k rest : Bytes) (h : StrBodyW t k) (hs : Sep rest) :
    scanString (34 :: t ++ 34 :: rest) = .ok ⟨rest, [Cell.str .s (some k)], true⟩ := by
  obtain ⟨h92, h83⟩ := sep_hd_str rest hs
  unfold scanString
  have := scanStrParts_bodyW t k h rest h92 ((34 :: t ++ 34 :: rest).length + 1) (by simp; omega)
  simp only [List.cons_append, List.drop_succ_cons, List.drop_zero] at this ⊢
  rw [this]
  simp [bind, Except.bind, h83, pure, Except.pure]

theorem scanString_SW (t k rest : Bytes) (h : StrBodyW t k) :
    scanString (34 :: t ++ 34 :: 83 :: rest) = .ok ⟨rest, [Cell.str .S (some k)], true⟩ := by
  unfold scanString
  have := scanStrParts_bodyW t k h (83 :: rest) (by simp) ((34 :: t ++ 34 :: 83 :: rest).length + 1) (by simp; omega)
  simp only [List.cons_append, List.drop_succ_cons, List.drop_zero] at this ⊢
  rw [this]
  simp [bind, Except.bind, pure, Except.pure]

theorem skipString_sW (t k rest : Bytes) (h : StrBodyW t k) (hs : Sep rest) :
    skipString (34 :: t ++ 34 :: rest) = .ok ⟨some rest, 1, 115, 0⟩ := by
  obtain ⟨h92, h83⟩ := sep_hd_str rest hs
  unfold skipString endOfPrintedString
  have := eosLoop_bodyW t k h rest h92 (34 :: t ++ 34 :: rest).length (by simp <;> omega)
  simp only [List.cons_append, List.drop_succ_cons, List.drop_zero] at this ⊢
  rw [this]
  simp [bind, Except.bind, h83, pure, Except.pure]

theorem skipString_SW (t k rest : Bytes) (h : StrBodyW t k) :
    skipString (34 :: t ++ 34 :: 83 :: rest) = .ok ⟨some rest, 1, 83, 0⟩ := by
  unfold skipString endOfPrintedString
  have := eosLoop_bodyW t k h (83 :: rest) (by simp) (34 :: t ++ 34 :: 83 :: rest).length (by simp <;> omega)
  simp only [List.cons_append, List.drop_succ_cons, List.drop_zero] at this ⊢
  rw [this]
  simp [bind, Except.bind, pure, Except.pure]

/-- **string token, any concatenation**: `"` body `"` reads back as the 's' value -/
theorem valOK_stringW (t k : Bytes) (h : StrBodyW t k) :
    ValOK (34 :: t ++ [34]) (Cell.str .s (some k)) := by
  refine ⟨tokStart_quote _, rfl, by simp only [List.cons_append, hd_cons]; decide, ?_, ?_⟩
  · intro se rest prev hs
    have e : (34 :: t ++ [34]) ++ rest = 34 :: t ++ 34 :: rest := by simp
    rw [e, scanValue_quote _ _ _ (by simp)]
    exact scanString_sW t k rest h hs
  · intro sk rest ty ib hs
    refine ⟨0, ?_⟩
    have e : (34 :: t ++ [34]) ++ rest = 34 :: t ++ 34 :: rest := by simp
    rw [e, skipValue_quote _ _ _ _ (by simp), skipString_sW t k rest h hs]
    rfl

/-- **quoted symbol token, any concatenation** -/
theorem valOK_symbol_quotedW (t k : Bytes) (h : StrBodyW t k) :
    ValOK (34 :: t ++ [34, 83]) (Cell.str .S (some k)) := by
  refine ⟨tokStart_quote _, rfl, by simp only [List.cons_append, hd_cons]; decide, ?_, ?_⟩
  · intro se rest prev hs
    have e : (34 :: t ++ [34, 83]) ++ rest = 34 :: t ++ 34 :: 83 :: rest := by simp
    rw [e, scanValue_quote _ _ _ (by simp)]
    exact scanString_SW t k rest h
  · intro sk rest ty ib hs
    refine ⟨0, ?_⟩
    have e : (34 :: t ++ [34, 83]) ++ rest = 34 :: t ++ 34 :: 83 :: rest := by simp
    rw [e, skipValue_quote _ _ _ _ (by simp), skipString_SW t k rest h]
    rfl

end Rtosc.Pretty.C11
